(* C48 -- pinned property theorems (nothing else lives here).  fs ranges over ALL finite maps, p q r over ALL
   paths; `step false` is the reference semantics of one library(files) call with character-list arguments. *)
From Coq Require Import List NArith Bool Lia.
From V Require Import C48.Model C48.Proofs.
Import ListNotations.
Open Scope N_scope.

(* make_directory / make_directory_path / writing a file: after a successful call the entry exists (with the
   bytes written), and make_directory touches nothing else. *)
Theorem make_then_exists : forall fs p,
  (fst (step false (MkDir (PChars p)) fs) = RTrue ->
     fst (step false (DirExists (PChars p)) (snd (step false (MkDir (PChars p)) fs))) = RTrue
     /\ exists_node fs p = false
     /\ forall r, r <> p -> lookup (snd (step false (MkDir (PChars p)) fs)) r = lookup fs r)
  /\ (fst (step false (MkDirPath (PChars p)) fs) = RTrue ->
     fst (step false (DirExists (PChars p)) (snd (step false (MkDirPath (PChars p)) fs))) = RTrue)
  /\ (forall b, fst (step false (WriteFile p b) fs) = RTrue ->
     lookup (snd (step false (WriteFile p b) fs)) p = Some (File b)).
Proof.
  intros fs p. cbn [step with_path]. split; [|split].
  - intros H. destruct (mk_dir_exists fs p H) as (A & B & _ & D). rewrite A. auto.
  - intros H. destruct (mk_dir_path_spec fs p H) as (A & _ & _).
    destruct p as [|n p]; [reflexivity|]. rewrite A; [reflexivity|]. apply prefixes_full. discriminate.
  - intros b H. apply (write_file_exists fs p b H).
Qed.
Print Assumptions make_then_exists.

(* delete_file / delete_directory: after a successful call the entry is absent and nothing else changed;
   a directory is only deleted when it has no children. *)
Theorem delete_then_absent : forall fs p,
  (fst (step false (DelFile (PChars p)) fs) = RTrue ->
     lookup (snd (step false (DelFile (PChars p)) fs)) p = None
     /\ forall r, r <> p -> lookup (snd (step false (DelFile (PChars p)) fs)) r = lookup fs r)
  /\ (fst (step false (DelDir (PChars p)) fs) = RTrue ->
     children fs p = []
     /\ lookup (snd (step false (DelDir (PChars p)) fs)) p = None
     /\ forall r, r <> p -> lookup (snd (step false (DelDir (PChars p)) fs)) r = lookup fs r).
Proof.
  intros fs p. cbn [step with_path]. split.
  - intros H. destruct (del_file_absent fs p H) as (_ & A & B). auto.
  - intros H. destruct (del_dir_absent fs p H) as (_ & A & B & C). auto.
Qed.
Print Assumptions delete_then_absent.

(* rename_file: the source is gone, the target holds the source's bytes, no other entry changes. *)
Theorem rename_moves_content : forall fs p q, p <> q ->
  fst (step false (Rename (PChars p) (PChars q)) fs) = RTrue ->
  let fs' := snd (step false (Rename (PChars p) (PChars q)) fs) in
  exists b, lookup fs p = Some (File b)
  /\ lookup fs' p = None /\ lookup fs' q = Some (File b)
  /\ forall r, r <> p -> r <> q -> lookup fs' r = lookup fs r.
Proof.
  intros fs p q NE. cbn [step with_path]. destruct (is_file fs p) eqn:F; [|discriminate].
  intros S. cbn zeta. destruct (rename_moves fs p q F S NE) as (A & B & C).
  exists (file_bytes fs p). split; [apply file_bytes_lookup; auto|]. auto.
Qed.
Print Assumptions rename_moves_content.

(* file_copy: the source keeps its bytes, the target holds the same bytes, no other entry changes
   (also when source and target are the same path). *)
Theorem copy_preserves_content_and_source : forall fs p q,
  fst (step false (Copy (PChars p) (PChars q)) fs) = RTrue ->
  let fs' := snd (step false (Copy (PChars p) (PChars q)) fs) in
  exists b, lookup fs p = Some (File b)
  /\ lookup fs' p = Some (File b) /\ lookup fs' q = Some (File b)
  /\ forall r, r <> q -> lookup fs' r = lookup fs r.
Proof.
  intros fs p q. cbn [step with_path]. destruct (is_file fs p) eqn:F; [|discriminate].
  intros S. cbn zeta. destruct (copy_preserves fs p q F S) as (A & B & C).
  exists (file_bytes fs p). split; [apply file_bytes_lookup; auto|]. auto.
Qed.
Print Assumptions copy_preserves_content_and_source.

(* directory_files: exactly the names of the entries directly below the directory. *)
Theorem directory_files_lists_children : forall fs p l,
  fst (step false (DirFiles (PChars p)) fs) = RNames l ->
  forall n, In n l <-> exists nd, lookup fs (p ++ [n]) = Some nd.
Proof.
  intros fs p l. cbn [step with_path]. destruct (is_dir fs p); [|discriminate].
  cbn [fst]. intros [= <-] n. apply children_spec.
Qed.
Print Assumptions directory_files_lists_children.

(* make_directory_path: every non-empty prefix of the path is a directory afterwards, existing directories stay,
   and no path that is not a prefix changes. *)
Theorem make_directory_path_creates_ancestors : forall fs p,
  fst (step false (MkDirPath (PChars p)) fs) = RTrue ->
  let fs' := snd (step false (MkDirPath (PChars p)) fs) in
  (forall a b, a <> [] -> p = a ++ b -> is_dir fs' a = true)
  /\ (forall r, is_dir fs r = true -> is_dir fs' r = true)
  /\ (forall r, ~ In r (prefixes p) -> lookup fs' r = lookup fs r)
  /\ (forall q, In q (prefixes p) -> exists a b, a <> [] /\ p = a ++ b /\ q = a).
Proof.
  intros fs p. cbn [step with_path]. intros S. cbn zeta.
  destruct (mk_dir_path_spec fs p S) as (A & B & C). split; [|split; [|split]]; auto.
  - intros a b NE ->. apply A. unfold prefixes.
    assert (G : forall a : path, a <> [] -> forall acc, In (acc ++ a) (prefixes_from acc (a ++ b))).
    { clear. induction a as [|n a IH]; intros NE acc; [contradiction|]. cbn [app prefixes_from].
      destruct a as [|m a]; [left; reflexivity|]. right.
      replace (acc ++ n :: m :: a) with ((acc ++ [n]) ++ m :: a) by (rewrite <- app_assoc; reflexivity).
      apply IH. discriminate. }
    apply (G a NE []).
  - intros q I. destruct (prefixes_from_are_prefixes [] p q I) as (a & b & NE & E1 & E2). exists a, b. auto.
Qed.
Print Assumptions make_directory_path_creates_ancestors.

(* path_segments: splitting then joining gives the path back; joining then splitting gives the segments back
   when there is at least one segment and no segment contains the separator. *)
Theorem path_segments_roundtrip :
  (forall cs, join_path (split_path cs []) = cs)
  /\ (forall segs, segs <> [] -> Forall no_sep segs -> split_path (join_path segs) [] = segs).
Proof. split; [exact join_split | exact split_join]. Qed.
Print Assumptions path_segments_roundtrip.

(* Under every operation sequence from the empty scratch directory, every entry lies directly below a directory
   (no orphans, nothing below a file): the model never leaves the states an OS tree can be in. *)
Theorem wellformed_preserved : forall ops, wf (snd (run false ops [])).
Proof. intros ops. apply run_wf. exact wf_empty. Qed.
Print Assumptions wellformed_preserved.

(* missing or ill-typed paths raise the documented errors *)
Theorem errors_on_missing_or_ill_typed : forall fs p,
  (is_file fs p = false ->
     fst (step false (FileSize (PChars p)) fs) = RErr ExFile /\ fst (step false (DelFile (PChars p)) fs) = RErr ExFile
     /\ (forall b, fst (step false (Rename (PChars p) b) fs) = RErr ExFile)
     /\ (forall b, fst (step false (Copy (PChars p) b) fs) = RErr ExFile))
  /\ (is_dir fs p = false -> fst (step false (DelDir (PChars p)) fs) = RErr ExDir)
  /\ fst (step false (FileExists (PAtom p)) fs) = RErr ETypeList
  /\ fst (step false (MkDir PVar) fs) = RErr EInst.
Proof.
  intros fs p. cbn [step with_path]. split; [|split; [|split]]; auto.
  - intros F. unfold del_file. rewrite F. auto.
  - intros D. unfold del_dir. destruct p as [|n p]; [discriminate|]. rewrite D. reflexivity.
Qed.
Print Assumptions errors_on_missing_or_ill_typed.

(* non-vacuity *)
Definition n_a : name := [97].  Definition n_b : name := [98; 32; 99].  Definition n_x : name := [120; 46; 116; 120; 116].
Example ex_sequence :
  fst (run false [MkDirPath (PChars [n_a; n_b]); WriteFile [n_a; n_b; n_x] [104; 105]; Copy (PChars [n_a; n_b; n_x]) (PChars [n_x]);
                  Rename (PChars [n_x]) (PChars [n_a; n_x]); DirFiles (PChars [n_a]); DelDir (PChars [n_a; n_b]);
                  DelFile (PChars [n_a; n_b; n_x]); DelDir (PChars [n_a; n_b]); FileSize (PChars [n_a; n_x]); FileSize (PChars [n_x])] [])
  = [RTrue; RTrue; RTrue; RTrue; RNames [n_x; n_b]; RFalse; RTrue; RTrue; RSize 2; RErr ExFile].
Proof. vm_compute. reflexivity. Qed.
Example ex_segments : split_path [47; 97; 47; 47; 98] [] = [[]; [97]; []; [98]] /\ join_path [[]; [97]; [98]] = [47; 97; 47; 98].
Proof. vm_compute. auto. Qed.
