(* C48 -- reference model of library(files) (src/lib/files.pl over the system calls in
   src/machine/system_calls.rs, which call std::fs).  A file system below the scratch root is a finite map
   from paths (lists of names; the root is []) to nodes (directory, or file with its bytes).  Every predicate
   is a total function returning the observable outcome (success, failure, a value, or an error formal) and
   the new file system.  No proofs in this file. *)
From Coq Require Import List NArith Bool Arith.
Import ListNotations.
Open Scope N_scope.

Definition name := list N.            (* code points *)
Definition path := list name.         (* below the scratch root *)
Inductive node := Dir | File (bytes : list N).
Definition fsys := list (path * node).

Fixpoint name_eqb (a b : name) : bool :=
  match a, b with
  | [], [] => true
  | x :: a', y :: b' => (x =? y) && name_eqb a' b'
  | _, _ => false
  end.
Fixpoint path_eqb (a b : path) : bool :=
  match a, b with
  | [], [] => true
  | x :: a', y :: b' => name_eqb x y && path_eqb a' b'
  | _, _ => false
  end.

Fixpoint lookup (fs : fsys) (p : path) : option node :=
  match fs with
  | [] => None
  | (q, n) :: r => if path_eqb q p then Some n else lookup r p
  end.
Definition remove (fs : fsys) (p : path) : fsys := filter (fun e => negb (path_eqb (fst e) p)) fs.
Definition set (fs : fsys) (p : path) (n : node) : fsys := (p, n) :: remove fs p.

Definition is_dir (fs : fsys) (p : path) : bool :=
  match p with [] => true | _ => match lookup fs p with Some Dir => true | _ => false end end.
Definition is_file (fs : fsys) (p : path) : bool :=
  match p with [] => false | _ => match lookup fs p with Some (File _) => true | _ => false end end.
Definition exists_node (fs : fsys) (p : path) : bool := is_dir fs p || is_file fs p.
Definition parent (p : path) : path := removelast p.

(* names of the entries directly below p *)
Definition children (fs : fsys) (p : path) : list name :=
  flat_map (fun e => match fst e with
                     | [] => []
                     | q => if path_eqb (removelast q) p then [last q []] else []
                     end) fs.

Inductive err :=
| ExFile            (* existence_error(file, Path) *)
| ExDir             (* existence_error(directory, Path) *)
| EInst             (* instantiation_error *)
| ETypeList         (* type_error(list, Culprit): the path is not a list of characters *)
| EOpen.            (* open/4 raised (any error) *)

Inductive res :=
| RTrue | RFalse
| RSize (n : N)
| RNames (l : list name)
| RPath (p : path)            (* an absolute path, given relative to the scratch root *)
| RSegs (l : list name)       (* path_segments: the segments *)
| RChars (cs : name)          (* path_segments: the path *)
| RErr (e : err)
| ROther.

(* how a path argument is written in the call *)
Inductive parg := PChars (p : path) | PAtom (p : path) | PVar | PInt.

Definition with_path (a : parg) (fs : fsys) (k : path -> res * fsys) : res * fsys :=
  match a with
  | PChars p => k p
  | PAtom _ => (RErr ETypeList, fs)
  | PInt => (RErr ETypeList, fs)
  | PVar => (RErr EInst, fs)
  end.

(* every non-empty prefix of p *)
Fixpoint prefixes_from (acc : path) (p : path) : list path :=
  match p with
  | [] => []
  | n :: r => (acc ++ [n]) :: prefixes_from (acc ++ [n]) r
  end.
Definition prefixes (p : path) : list path := prefixes_from [] p.

Definition mk_dir (fs : fsys) (p : path) : res * fsys :=
  match p with
  | [] => (RFalse, fs)
  | _ => if negb (exists_node fs p) && is_dir fs (parent p) then (RTrue, set fs p Dir) else (RFalse, fs)
  end.

Definition mk_dir_path (fs : fsys) (p : path) : res * fsys :=
  if existsb (is_file fs) (prefixes p) then (RFalse, fs)
  else (RTrue, fold_left (fun f q => if is_dir f q then f else set f q Dir) (prefixes p) fs).

Definition del_file (fs : fsys) (p : path) : res * fsys :=
  if is_file fs p then (RTrue, remove fs p) else (RErr ExFile, fs).

Definition del_dir (fs : fsys) (p : path) : res * fsys :=
  match p with
  | [] => (RFalse, fs)
  | _ => if is_dir fs p then
           match children fs p with [] => (RTrue, remove fs p) | _ => (RFalse, fs) end
         else (RErr ExDir, fs)
  end.

Definition file_bytes (fs : fsys) (p : path) : list N :=
  match lookup fs p with Some (File b) => b | _ => [] end.

(* a file can be created or replaced at q *)
Definition writable (fs : fsys) (q : path) : bool :=
  match q with [] => false | _ => negb (is_dir fs q) && is_dir fs (parent q) end.

Definition rename (fs : fsys) (p q : path) : res * fsys :=
  if path_eqb p q then (RTrue, fs)
  else if writable fs q then (RTrue, set (remove fs p) q (File (file_bytes fs p)))
  else (RFalse, fs).

(* selfcopy_truncates = false: the reference (copying a file onto itself changes nothing) *)
Definition copy (selfcopy_truncates : bool) (fs : fsys) (p q : path) : res * fsys :=
  if path_eqb p q then (RTrue, if selfcopy_truncates then set fs p (File []) else fs)
  else if writable fs q then (RTrue, set fs q (File (file_bytes fs p)))
  else (RFalse, fs).

Definition sep : N := 47.
Fixpoint split_path (cs : name) (cur : name) : list name :=
  match cs with
  | [] => [rev cur]
  | c :: r => if c =? sep then rev cur :: split_path r [] else split_path r (c :: cur)
  end.
Fixpoint join_path (segs : list name) : name :=
  match segs with
  | [] => []
  | [s] => s
  | s :: r => s ++ sep :: join_path r
  end.

Inductive fop :=
| FileExists (a : parg) | DirExists (a : parg) | FileSize (a : parg) | DirFiles (a : parg)
| MkDir (a : parg) | MkDirPath (a : parg) | DelFile (a : parg) | DelDir (a : parg)
| Rename (a b : parg) | Copy (a b : parg) | Canonical (a : parg)
| WriteFile (p : path) (bytes : list N)       (* open(P, write, S, [type(binary)]), put_byte ..., close(S) *)
| Split (cs : name) | Join (segs : list name).

Definition bool_res (b : bool) : res := if b then RTrue else RFalse.

Definition step (sc : bool) (o : fop) (fs : fsys) : res * fsys :=
  match o with
  | FileExists a => with_path a fs (fun p => (bool_res (is_file fs p), fs))
  | DirExists a => with_path a fs (fun p => (bool_res (is_dir fs p), fs))
  | FileSize a => with_path a fs (fun p => if is_file fs p then (RSize (N.of_nat (length (file_bytes fs p))), fs) else (RErr ExFile, fs))
  | DirFiles a => with_path a fs (fun p => if is_dir fs p then (RNames (children fs p), fs) else (RFalse, fs))
  | MkDir a => with_path a fs (mk_dir fs)
  | MkDirPath a => with_path a fs (mk_dir_path fs)
  | DelFile a => with_path a fs (del_file fs)
  | DelDir a => with_path a fs (del_dir fs)
  | Rename a b => with_path a fs (fun p => if is_file fs p then with_path b fs (rename fs p) else (RErr ExFile, fs))
  | Copy a b => with_path a fs (fun p => if is_file fs p then with_path b fs (copy sc fs p) else (RErr ExFile, fs))
  | Canonical a => with_path a fs (fun p => if exists_node fs p then (RPath p, fs) else (RFalse, fs))
  | WriteFile p bytes => if writable fs p then (RTrue, set fs p (File bytes)) else (RErr EOpen, fs)
  | Split cs => (RSegs (split_path cs []), fs)
  | Join segs => (RChars (join_path segs), fs)
  end.

Fixpoint run (sc : bool) (ops : list fop) (fs : fsys) : list res * fsys :=
  match ops with
  | [] => ([], fs)
  | o :: r => let (x, fs1) := step sc o fs in let (xs, fs2) := run sc r fs1 in (x :: xs, fs2)
  end.

(* ---------- comparison *)
Fixpoint bytes_eqb (a b : list N) : bool :=
  match a, b with
  | [], [] => true
  | x :: a', y :: b' => (x =? y) && bytes_eqb a' b'
  | _, _ => false
  end.
Definition node_eqb (a b : node) : bool :=
  match a, b with Dir, Dir => true | File x, File y => bytes_eqb x y | _, _ => false end.
Definition onode_eqb (a b : option node) : bool :=
  match a, b with None, None => true | Some x, Some y => node_eqb x y | _, _ => false end.
Definition names_set_eqb (a b : list name) : bool :=
  (length a =? length b)%nat && forallb (fun n => existsb (name_eqb n) b) a && forallb (fun n => existsb (name_eqb n) a) b.
Definition err_eqb (a b : err) : bool :=
  match a, b with
  | ExFile, ExFile | ExDir, ExDir | EInst, EInst | ETypeList, ETypeList | EOpen, EOpen => true
  | _, _ => false
  end.
Fixpoint names_eqb (a b : list name) : bool :=
  match a, b with
  | [], [] => true
  | x :: a', y :: b' => name_eqb x y && names_eqb a' b'
  | _, _ => false
  end.
Definition res_eqb (a b : res) : bool :=
  match a, b with
  | RTrue, RTrue | RFalse, RFalse => true
  | RSize x, RSize y => x =? y
  | RNames x, RNames y => names_set_eqb x y
  | RPath x, RPath y => path_eqb x y
  | RSegs x, RSegs y => names_eqb x y
  | RChars x, RChars y => name_eqb x y
  | RErr x, RErr y => err_eqb x y
  | _, _ => false
  end.
Fixpoint ress_eqb (a b : list res) : bool :=
  match a, b with
  | [], [] => true
  | x :: a', y :: b' => res_eqb x y && ress_eqb a' b'
  | _, _ => false
  end.
(* the two maps agree on every path either of them mentions *)
Definition tree_eqb (a b : fsys) : bool :=
  forallb (fun e => onode_eqb (lookup a (fst e)) (lookup b (fst e))) a
  && forallb (fun e => onode_eqb (lookup a (fst e)) (lookup b (fst e))) b.

(* obs: the answers of the implementation; tree: the scratch directory afterwards, as read by the OS interface of Python *)
Definition check_q (sc : bool) (ops : list fop) (obs : list res) (tree : fsys) : bool :=
  let (rs, fs) := run sc ops [] in ress_eqb rs obs && tree_eqb fs tree.
Definition check_case := check_q false.
(* 0: agrees with the reference; 1: agrees when copying a file onto itself truncates it; 99: neither *)
Definition explain (ops : list fop) (obs : list res) (tree : fsys) : N :=
  if check_q false ops obs tree then 0 else if check_q true ops obs tree then 1 else 99.
Definition run_case (ops : list fop) (obs : list res) (tree : fsys) := run false ops [].
