(* C48 -- lemmas about the file-system model *)
From Coq Require Import List NArith Bool Arith Lia.
From V Require Import C48.Model.
Import ListNotations.
Open Scope N_scope.

(* ---------- keys *)
Lemma name_eqb_eq a : forall b, name_eqb a b = true <-> a = b.
Proof.
  induction a as [|x a IH]; destruct b as [|y b]; cbn [name_eqb]; split; try discriminate; auto.
  - intros H. apply andb_true_iff in H. destruct H as [H1 H2]. apply N.eqb_eq in H1. apply IH in H2. congruence.
  - intros [= -> ->]. rewrite N.eqb_refl. cbn. apply IH. reflexivity.
Qed.
Lemma path_eqb_eq a : forall b, path_eqb a b = true <-> a = b.
Proof.
  induction a as [|x a IH]; destruct b as [|y b]; cbn [path_eqb]; split; try discriminate; auto.
  - intros H. apply andb_true_iff in H. destruct H as [H1 H2]. apply name_eqb_eq in H1. apply IH in H2. congruence.
  - intros [= -> ->]. apply andb_true_iff. split; [apply name_eqb_eq | apply IH]; reflexivity.
Qed.
Lemma path_eqb_refl a : path_eqb a a = true.
Proof. apply path_eqb_eq. reflexivity. Qed.
Lemma path_eqb_neq a b : a <> b -> path_eqb a b = false.
Proof. intros H. destruct (path_eqb a b) eqn:E; auto. apply path_eqb_eq in E. contradiction. Qed.

Lemma path_dec (a b : path) : {a = b} + {a <> b}.
Proof.
  destruct (path_eqb a b) eqn:E; [left; apply path_eqb_eq; auto | right; intros Q; rewrite Q, path_eqb_refl in E; discriminate].
Qed.

(* ---------- the map *)
Lemma lookup_remove_same fs p : lookup (remove fs p) p = None.
Proof.
  induction fs as [|[q n] fs IH]; cbn [remove filter lookup fst]; auto.
  destruct (path_eqb q p) eqn:E; cbn [negb]; auto. cbn [lookup]. rewrite E. exact IH.
Qed.
Lemma lookup_remove_other fs p r : r <> p -> lookup (remove fs p) r = lookup fs r.
Proof.
  intros NE. induction fs as [|[q n] fs IH]; cbn [remove filter lookup fst]; auto.
  destruct (path_eqb q p) eqn:E; cbn [negb].
  - apply path_eqb_eq in E. subst q. rewrite (path_eqb_neq p r); auto.
  - cbn [lookup]. destruct (path_eqb q r); auto.
Qed.
Lemma lookup_set_same fs p n : lookup (set fs p n) p = Some n.
Proof. unfold set. cbn [lookup]. rewrite path_eqb_refl. reflexivity. Qed.
Lemma lookup_set_other fs p n r : r <> p -> lookup (set fs p n) r = lookup fs r.
Proof. intros NE. unfold set. cbn [lookup]. rewrite (path_eqb_neq p r); auto. apply lookup_remove_other; auto. Qed.

Lemma lookup_in fs q : (exists nd, lookup fs q = Some nd) <-> (exists nd, In (q, nd) fs).
Proof.
  induction fs as [|[k n] fs IH]; cbn [lookup In].
  - split; intros [nd H]; [discriminate | contradiction].
  - destruct (path_eqb k q) eqn:E.
    + apply path_eqb_eq in E. subst k. split; intros _; exists n; auto.
    + split.
      * intros H. apply IH in H. destruct H as [nd H]. exists nd. auto.
      * intros [nd [H|H]].
        -- injection H as -> ->. rewrite path_eqb_refl in E. discriminate.
        -- apply IH. exists nd. auto.
Qed.

Lemma is_dir_lookup fs p : p <> [] -> (is_dir fs p = true <-> lookup fs p = Some Dir).
Proof.
  intros NE. unfold is_dir. destruct p as [|x p]; [contradiction|]. destruct (lookup fs (x :: p)) as [[|b]|]; split; auto; discriminate.
Qed.
Lemma is_file_lookup fs p : is_file fs p = true <-> p <> [] /\ exists b, lookup fs p = Some (File b).
Proof.
  unfold is_file. destruct p as [|x p].
  - split; [discriminate | intros [H _]; contradiction].
  - destruct (lookup fs (x :: p)) as [[|b]|]; split; try discriminate.
    + intros [_ [b0 H]]. discriminate H.
    + intros _. split; [discriminate | eauto].
    + intros _. reflexivity.
    + intros [_ [b0 H]]. discriminate H.
Qed.
Lemma file_bytes_lookup fs p : is_file fs p = true -> lookup fs p = Some (File (file_bytes fs p)).
Proof. intros H. apply is_file_lookup in H. destruct H as [_ [b H]]. unfold file_bytes. rewrite H. reflexivity. Qed.

(* ---------- make_directory, open/write/close *)
Lemma mk_dir_exists fs p : fst (mk_dir fs p) = RTrue ->
  is_dir (snd (mk_dir fs p)) p = true /\ exists_node fs p = false /\ is_dir fs (parent p) = true
  /\ forall r, r <> p -> lookup (snd (mk_dir fs p)) r = lookup fs r.
Proof.
  unfold mk_dir. destruct p as [|n p]; [discriminate|].
  destruct (negb (exists_node fs (n :: p)) && is_dir fs (parent (n :: p))) eqn:E; [|discriminate].
  intros _. cbn [snd]. apply andb_true_iff in E. destruct E as [E1 E2]. apply negb_true_iff in E1.
  repeat split; auto.
  - apply is_dir_lookup; [discriminate|]. apply lookup_set_same.
  - intros r NE. apply lookup_set_other; auto.
Qed.

Lemma write_file_exists fs p b : fst (step false (WriteFile p b) fs) = RTrue ->
  lookup (snd (step false (WriteFile p b) fs)) p = Some (File b)
  /\ forall r, r <> p -> lookup (snd (step false (WriteFile p b) fs)) r = lookup fs r.
Proof.
  cbn [step]. destruct (writable fs p); [|discriminate]. intros _. cbn [snd]. split.
  - apply lookup_set_same.
  - intros r NE. apply lookup_set_other; auto.
Qed.

(* ---------- delete *)
Lemma del_file_absent fs p : fst (del_file fs p) = RTrue ->
  is_file fs p = true /\ lookup (snd (del_file fs p)) p = None
  /\ forall r, r <> p -> lookup (snd (del_file fs p)) r = lookup fs r.
Proof.
  unfold del_file. destruct (is_file fs p) eqn:E; [|discriminate]. intros _. cbn [snd]. repeat split.
  - apply lookup_remove_same.
  - intros r NE. apply lookup_remove_other; auto.
Qed.
Lemma del_dir_absent fs p : fst (del_dir fs p) = RTrue ->
  is_dir fs p = true /\ children fs p = [] /\ lookup (snd (del_dir fs p)) p = None
  /\ forall r, r <> p -> lookup (snd (del_dir fs p)) r = lookup fs r.
Proof.
  unfold del_dir. destruct p as [|n p]; [discriminate|].
  destruct (is_dir fs (n :: p)) eqn:E; [|discriminate].
  destruct (children fs (n :: p)) eqn:C; [|discriminate]. intros _. cbn [snd]. repeat split.
  - apply lookup_remove_same.
  - intros r NE. apply lookup_remove_other; auto.
Qed.

(* ---------- rename, copy *)
Lemma rename_moves fs p q : is_file fs p = true -> fst (rename fs p q) = RTrue -> p <> q ->
  lookup (snd (rename fs p q)) p = None
  /\ lookup (snd (rename fs p q)) q = Some (File (file_bytes fs p))
  /\ forall r, r <> p -> r <> q -> lookup (snd (rename fs p q)) r = lookup fs r.
Proof.
  intros F S NE. unfold rename in *. rewrite (path_eqb_neq p q) in *; auto.
  destruct (writable fs q); [|discriminate]. cbn [snd]. repeat split.
  - rewrite lookup_set_other; auto. apply lookup_remove_same.
  - apply lookup_set_same.
  - intros r N1 N2. rewrite lookup_set_other; auto. apply lookup_remove_other; auto.
Qed.

Lemma copy_preserves fs p q : is_file fs p = true -> fst (copy false fs p q) = RTrue ->
  lookup (snd (copy false fs p q)) p = Some (File (file_bytes fs p))
  /\ lookup (snd (copy false fs p q)) q = Some (File (file_bytes fs p))
  /\ forall r, r <> q -> lookup (snd (copy false fs p q)) r = lookup fs r.
Proof.
  intros F S. pose proof (file_bytes_lookup fs p F) as L. unfold copy in *.
  destruct (path_eqb p q) eqn:E.
  - apply path_eqb_eq in E. subst q. cbn [snd]. auto.
  - destruct (writable fs q); [|discriminate]. cbn [snd].
    assert (NE : p <> q) by (intros ->; rewrite path_eqb_refl in E; discriminate).
    repeat split.
    + rewrite lookup_set_other; auto.
    + apply lookup_set_same.
    + intros r N. apply lookup_set_other; auto.
Qed.

(* ---------- directory_files *)
Lemma removelast_last_app {A} (q : list A) (d : A) : q <> [] -> q = removelast q ++ [last q d].
Proof. intros H. apply app_removelast_last. exact H. Qed.

Lemma children_spec fs p n : In n (children fs p) <-> exists nd, lookup fs (p ++ [n]) = Some nd.
Proof.
  unfold children. rewrite in_flat_map. split.
  - intros [[q nd] [I H]]. cbn [fst] in H. destruct q as [|x q]; [contradiction|].
    destruct (path_eqb (removelast (x :: q)) p) eqn:E; [|contradiction].
    destruct H as [H|[]]. apply path_eqb_eq in E.
    apply lookup_in. exists nd.
    assert (Q : x :: q = p ++ [n]).
    { rewrite (removelast_last_app (x :: q) []); [|discriminate]. rewrite E, H. reflexivity. }
    rewrite <- Q. exact I.
  - intros H. apply lookup_in in H. destruct H as [nd I]. exists (p ++ [n], nd). split; auto.
    cbn [fst]. destruct (p ++ [n]) eqn:Q; [destruct p; discriminate|]. rewrite <- Q.
    rewrite removelast_last, path_eqb_refl, last_last. left. reflexivity.
Qed.

(* ---------- make_directory_path *)
Definition mkd (f : fsys) (q : path) : fsys := if is_dir f q then f else set f q Dir.

Lemma mkd_dir f q : is_dir (mkd f q) q = true.
Proof.
  unfold mkd. destruct (is_dir f q) eqn:E; auto. destruct q; auto.
  apply is_dir_lookup; [discriminate|]. apply lookup_set_same.
Qed.
Lemma mkd_other f q r : r <> q -> lookup (mkd f q) r = lookup f r.
Proof. intros NE. unfold mkd. destruct (is_dir f q); auto. apply lookup_set_other; auto. Qed.
Lemma mkd_keeps_dir f q r : is_dir f r = true -> is_dir (mkd f q) r = true.
Proof.
  intros H. destruct r as [|x r]; auto.
  destruct (path_dec (x :: r) q) as [E|NE]; [rewrite E; apply mkd_dir|].
  apply is_dir_lookup; [discriminate|]. rewrite mkd_other; auto. apply is_dir_lookup in H; auto. discriminate.
Qed.
Lemma mkd_keeps f q r x : lookup f r = Some x -> ~ (is_file f q = true) -> lookup (mkd f q) r = Some x.
Proof.
  intros H NF. unfold mkd. destruct (is_dir f q) eqn:E; auto.
  destruct (path_dec r q) as [->|NE]; [|rewrite lookup_set_other; auto].
  exfalso. unfold is_dir, is_file in *. destruct q; [discriminate|]. rewrite H in *. destruct x; [discriminate|]. apply NF. reflexivity.
Qed.

Lemma fold_mkd l : forall f,
  (forall q, In q l -> is_dir (fold_left mkd l f) q = true)
  /\ (forall r, is_dir f r = true -> is_dir (fold_left mkd l f) r = true)
  /\ (forall r, ~ In r l -> lookup (fold_left mkd l f) r = lookup f r).
Proof.
  induction l as [|q l IH]; intros f; cbn [fold_left In].
  - repeat split; auto; intros q [].
  - destruct (IH (mkd f q)) as (A & B & C). repeat split.
    + intros q' [<-|I]; auto. apply B. apply mkd_dir.
    + intros r H. apply B. apply mkd_keeps_dir. exact H.
    + intros r N. rewrite C; [|intros I; apply N; auto]. apply mkd_other. intros ->. apply N. auto.
Qed.

Lemma mk_dir_path_spec fs p : fst (mk_dir_path fs p) = RTrue ->
  (forall q, In q (prefixes p) -> is_dir (snd (mk_dir_path fs p)) q = true)
  /\ (forall r, is_dir fs r = true -> is_dir (snd (mk_dir_path fs p)) r = true)
  /\ (forall r, ~ In r (prefixes p) -> lookup (snd (mk_dir_path fs p)) r = lookup fs r).
Proof.
  unfold mk_dir_path. destruct (existsb (is_file fs) (prefixes p)); [discriminate|]. intros _. cbn [snd].
  apply (fold_mkd (prefixes p) fs).
Qed.

Lemma prefixes_from_last acc p : p <> [] -> In (acc ++ p) (prefixes_from acc p).
Proof.
  revert acc. induction p as [|n p IH]; intros acc NE; [contradiction|]. cbn [prefixes_from].
  destruct p as [|m p]; [left; reflexivity|]. right.
  replace (acc ++ n :: m :: p) with ((acc ++ [n]) ++ m :: p) by (rewrite <- app_assoc; reflexivity).
  apply IH. discriminate.
Qed.
Lemma prefixes_full p : p <> [] -> In p (prefixes p).
Proof. intros H. apply (prefixes_from_last [] p H). Qed.
Lemma prefixes_from_are_prefixes acc p q : In q (prefixes_from acc p) -> exists a b, a <> [] /\ p = a ++ b /\ q = acc ++ a.
Proof.
  revert acc. induction p as [|n p IH]; intros acc; cbn [prefixes_from]; [intros []|].
  intros [<-|I].
  - exists [n], p. repeat split; auto. discriminate.
  - destruct (IH _ I) as (a & b & NE & -> & ->). exists (n :: a), b. split; [discriminate|]. split; [reflexivity|]. rewrite <- app_assoc. reflexivity.
Qed.

(* ---------- path_segments *)
Lemma split_acc cs : forall cur,
  split_path cs cur = (rev cur ++ hd [] (split_path cs [])) :: tl (split_path cs []).
Proof.
  induction cs as [|c cs IH]; intros cur; cbn [split_path].
  - cbn. rewrite app_nil_r. reflexivity.
  - destruct (c =? sep).
    + cbn [hd tl rev app]. rewrite app_nil_r. reflexivity.
    + rewrite (IH (c :: cur)), (IH [c]). cbn [hd tl rev app]. rewrite <- app_assoc. reflexivity.
Qed.
Lemma split_nonempty cs cur : split_path cs cur <> [].
Proof. rewrite split_acc. discriminate. Qed.

Lemma join_cons s l : l <> [] -> join_path (s :: l) = s ++ sep :: join_path l.
Proof. destruct l; [contradiction|reflexivity]. Qed.

Lemma join_split cs : join_path (split_path cs []) = cs.
Proof.
  induction cs as [|c cs IH]; cbn [split_path]; auto.
  destruct (c =? sep) eqn:E.
  - apply N.eqb_eq in E. subst c. rewrite join_cons; [|apply split_nonempty]. rewrite IH. reflexivity.
  - rewrite split_acc. cbn [rev app].
    destruct (split_path cs []) as [|h t] eqn:S; [exfalso; apply (split_nonempty cs []); auto|].
    cbn [hd tl]. destruct t as [|h2 t].
    + cbn [join_path] in *. rewrite IH. reflexivity.
    + rewrite join_cons in IH; [|discriminate]. rewrite join_cons; [|discriminate]. cbn [app]. rewrite IH. reflexivity.
Qed.

Definition no_sep (s : name) : Prop := Forall (fun c => c <> sep) s.

Lemma split_app_sep s : no_sep s -> forall rest cur,
  split_path (s ++ sep :: rest) cur = (rev cur ++ s) :: split_path rest [].
Proof.
  induction s as [|c s IH]; intros NS rest cur; cbn [app split_path].
  - rewrite N.eqb_refl, app_nil_r. reflexivity.
  - inversion NS as [|c' s' NC NS']; subst. apply N.eqb_neq in NC. rewrite NC.
    rewrite IH; auto. cbn [rev]. rewrite <- app_assoc. reflexivity.
Qed.
Lemma split_no_sep s : no_sep s -> forall cur, split_path s cur = [rev cur ++ s].
Proof.
  induction s as [|c s IH]; intros NS cur; cbn [split_path].
  - rewrite app_nil_r. reflexivity.
  - inversion NS as [|c' s' NC NS']; subst. apply N.eqb_neq in NC. rewrite NC.
    rewrite IH; auto. cbn [rev]. rewrite <- app_assoc. reflexivity.
Qed.
Lemma split_join segs : segs <> [] -> Forall no_sep segs -> split_path (join_path segs) [] = segs.
Proof.
  induction segs as [|s segs IH]; intros NE F; [contradiction|].
  inversion F as [|s' segs' NS F']; subst.
  destruct segs as [|s2 segs].
  - cbn [join_path]. apply split_no_sep. exact NS.
  - rewrite join_cons; [|discriminate]. rewrite split_app_sep; auto. cbn [rev app]. rewrite IH; auto. discriminate.
Qed.

(* ---------- well-formedness: every entry lies below a directory *)
Definition wf (fs : fsys) : Prop :=
  forall p nd, lookup fs p = Some nd -> p <> [] /\ is_dir fs (parent p) = true.

Lemma parent_neq (p : path) : p <> [] -> parent p <> p.
Proof.
  intros NE H. unfold parent in H. pose proof (removelast_last_app p [] NE) as Q.
  rewrite H in Q. assert (L : length p = length (p ++ [last p []])) by (rewrite <- Q; reflexivity).
  rewrite app_length in L. cbn in L. lia.
Qed.

Lemma is_dir_set_other fs p n r : r <> p -> is_dir (set fs p n) r = is_dir fs r.
Proof. intros NE. unfold is_dir. destruct r; auto. rewrite lookup_set_other; auto. Qed.
Lemma is_dir_remove_other fs p r : r <> p -> is_dir (remove fs p) r = is_dir fs r.
Proof. intros NE. unfold is_dir. destruct r; auto. rewrite lookup_remove_other; auto. Qed.

Lemma wf_set_dir fs p : wf fs -> p <> [] -> is_dir fs (parent p) = true -> wf (set fs p Dir).
Proof.
  intros W NE PD r nd L. destruct (path_dec r p) as [->|NR].
  - split; auto. rewrite is_dir_set_other; auto. apply parent_neq; auto.
  - rewrite lookup_set_other in L; auto. destruct (W r nd L) as [R1 R2]. split; auto.
    destruct (path_dec (parent r) p) as [->|NP].
    + unfold is_dir. destruct p; auto. rewrite lookup_set_same. reflexivity.
    + rewrite is_dir_set_other; auto.
Qed.

Lemma wf_set_file fs p b : wf fs -> writable fs p = true -> wf (set fs p (File b)).
Proof.
  intros W WR r nd L. unfold writable in WR. destruct p as [|x p]; [discriminate|].
  apply andb_true_iff in WR. destruct WR as [ND PD]. apply negb_true_iff in ND.
  destruct (path_dec r (x :: p)) as [->|NR].
  - split; [discriminate|]. rewrite is_dir_set_other; auto. apply parent_neq; discriminate.
  - rewrite lookup_set_other in L; auto. destruct (W r nd L) as [R1 R2]. split; auto.
    destruct (path_dec (parent r) (x :: p)) as [Q|NP].
    + rewrite Q in R2. congruence.
    + rewrite is_dir_set_other; auto.
Qed.

Lemma wf_remove fs p : wf fs -> (forall r nd, lookup fs r = Some nd -> parent r = p -> r = p) -> wf (remove fs p).
Proof.
  intros W NC r nd L. destruct (path_dec r p) as [->|NR].
  - rewrite lookup_remove_same in L. discriminate.
  - rewrite lookup_remove_other in L; auto. destruct (W r nd L) as [R1 R2]. split; auto.
    destruct (path_dec (parent r) p) as [Q|NP].
    + exfalso. apply NR. eapply NC; eauto.
    + rewrite is_dir_remove_other; auto.
Qed.

Lemma wf_remove_file fs p : wf fs -> is_file fs p = true -> wf (remove fs p).
Proof.
  intros W F. apply wf_remove; auto. intros r nd L Q. exfalso.
  destruct (W r nd L) as [R1 R2]. rewrite Q in R2.
  apply is_file_lookup in F. destruct F as [NE [b Lp]]. apply is_dir_lookup in R2; auto. congruence.
Qed.

Lemma wf_remove_empty_dir fs p : wf fs -> children fs p = [] -> wf (remove fs p).
Proof.
  intros W C. apply wf_remove; auto. intros r nd L Q. exfalso.
  destruct (W r nd L) as [R1 _].
  assert (I : In (last r []) (children fs p)).
  { apply children_spec. exists nd. rewrite <- Q. unfold parent. rewrite <- removelast_last_app; auto. }
  rewrite C in I. contradiction.
Qed.

Lemma wf_mkd fs q : wf fs -> is_dir fs (parent q) = true -> wf (mkd fs q).
Proof.
  intros W PD. unfold mkd. destruct (is_dir fs q) eqn:E; auto.
  apply wf_set_dir; auto. intros ->. discriminate.
Qed.

Lemma parent_snoc (acc : path) (n : name) : parent (acc ++ [n]) = acc.
Proof. unfold parent. apply removelast_last. Qed.

Lemma wf_fold_mkd p : forall acc fs, wf fs -> is_dir fs acc = true -> wf (fold_left mkd (prefixes_from acc p) fs).
Proof.
  induction p as [|n p IH]; intros acc fs W D; cbn [prefixes_from fold_left]; auto.
  apply IH.
  - apply wf_mkd; auto. rewrite parent_snoc. exact D.
  - apply mkd_dir.
Qed.

Lemma writable_after_remove_file fs p q : is_file fs p = true -> p <> q -> writable fs q = true -> writable (remove fs p) q = true.
Proof.
  intros F NE WR. unfold writable in *. destruct q as [|x q]; [discriminate|].
  apply andb_true_iff in WR. destruct WR as [ND PD]. apply andb_true_iff. split.
  - rewrite is_dir_remove_other; auto.
  - destruct (path_dec (parent (x :: q)) p) as [Q|NP].
    + exfalso. rewrite Q in PD. apply is_file_lookup in F. destruct F as [NEp [b L]]. apply is_dir_lookup in PD; auto. congruence.
    + rewrite is_dir_remove_other; auto.
Qed.

Lemma with_path_wf (P : fsys -> Prop) a fs k : P fs -> (forall p, P (snd (k p))) -> P (snd (with_path a fs k)).
Proof. intros H K. destruct a; cbn [with_path snd]; auto. Qed.

Lemma step_wf sc o fs : wf fs -> wf (snd (step sc o fs)).
Proof.
  intros W. destruct o; cbn [step]; try (apply with_path_wf; auto; intros p).
  - destruct (is_file fs p); auto.
  - destruct (is_dir fs p); auto.
  - unfold mk_dir. destruct p as [|n p]; auto.
    destruct (negb (exists_node fs (n :: p)) && is_dir fs (parent (n :: p))) eqn:E; auto.
    cbn [snd]. apply andb_true_iff in E. destruct E as [_ E]. apply wf_set_dir; auto. discriminate.
  - unfold mk_dir_path. destruct (existsb (is_file fs) (prefixes p)); auto. cbn [snd]. apply wf_fold_mkd; auto.
  - unfold del_file. destruct (is_file fs p) eqn:E; auto. cbn [snd]. apply wf_remove_file; auto.
  - unfold del_dir. destruct p as [|n p]; auto. destruct (is_dir fs (n :: p)); auto.
    destruct (children fs (n :: p)) eqn:C; auto. cbn [snd]. apply wf_remove_empty_dir; auto.
  - destruct (is_file fs p) eqn:F; auto. apply with_path_wf; auto. intros q. unfold rename.
    destruct (path_eqb p q) eqn:E; auto. destruct (writable fs q) eqn:WR; auto. cbn [snd].
    assert (NE : p <> q) by (intros ->; rewrite path_eqb_refl in E; discriminate).
    apply wf_set_file; [apply wf_remove_file; auto | apply writable_after_remove_file; auto].
  - destruct (is_file fs p) eqn:F; auto. apply with_path_wf; auto. intros q. unfold copy.
    destruct (path_eqb p q) eqn:E.
    + cbn [snd]. destruct sc; auto. apply path_eqb_eq in E. subst q.
      intros r nd L. destruct (path_dec r p) as [->|NR].
      * destruct (W p _ (file_bytes_lookup fs p F)) as [R1 R2]. split; auto. rewrite is_dir_set_other; auto. apply parent_neq; auto.
      * rewrite lookup_set_other in L; auto. destruct (W r nd L) as [R1 R2]. split; auto.
        destruct (path_dec (parent r) p) as [Q|NP].
        -- exfalso. rewrite Q in R2. apply is_file_lookup in F. destruct F as [NEp [b0 Lp]]. apply is_dir_lookup in R2; auto. congruence.
        -- rewrite is_dir_set_other; auto.
    + destruct (writable fs q) eqn:WR; auto. cbn [snd]. apply wf_set_file; auto.
  - destruct (exists_node fs p); auto.
  - destruct (writable fs p) eqn:WR; auto. cbn [snd]. apply wf_set_file; auto.
  - exact W.
  - exact W.
Qed.

Lemma run_wf sc ops : forall fs, wf fs -> wf (snd (run sc ops fs)).
Proof.
  induction ops as [|o r IH]; intros fs W; cbn [run snd]; auto.
  pose proof (step_wf sc o fs W) as W1. destruct (step sc o fs) as [x fs1]. cbn [snd] in W1.
  specialize (IH fs1 W1). destruct (run sc r fs1). auto.
Qed.

Lemma wf_empty : wf [].
Proof. intros p nd H. discriminate. Qed.
