(* C50 -- in-memory reading/writing and stream reading/writing: one reader, one writer.

   The reference has ONE abstract reader (a function from read options and the characters that the source
   delivers to a result) and ONE abstract writer (a function from write options and a term to characters).
   A stream is a buffer with a read position; reading from a stream parses what the stream delivers from its
   position on, writing to a stream appends the writer's characters.  The chars predicates are DEFINED through
   a stream built from the characters / an empty stream, so the two paths coincide by construction; the
   lemmas in Proofs.v show that a stream built from characters delivers exactly those characters.
   Definitions only. *)
From Coq Require Import List NArith.
Import ListNotations.

Record stream := mkstream { buf : list N; pos : nat }.

Definition stream_of (cs : list N) : stream := mkstream cs 0.
Definition empty_stream : stream := mkstream [] 0.

(* one character, as get_char would deliver it *)
Definition get_char (s : stream) : option (N * stream) :=
  match nth_error (buf s) (pos s) with
  | Some c => Some (c, mkstream (buf s) (S (pos s)))
  | None => None
  end.

(* everything the stream still delivers, character by character *)
Fixpoint drain_f (fuel : nat) (s : stream) : list N :=
  match fuel with
  | O => []
  | S f => match get_char s with
           | Some (c, s') => c :: drain_f f s'
           | None => []
           end
  end.
Definition drain (s : stream) : list N := drain_f (S (length (buf s))) s.

Definition put_chars (s : stream) (cs : list N) : stream := mkstream (buf s ++ cs) (pos s).
Definition contents (s : stream) : list N := buf s.

Section OneReaderOneWriter.
  Variables ropts wopts term result : Type.
  Variable reader : ropts -> list N -> result.     (* read_term: options, delivered characters -> term+bindings | error | eof *)
  Variable writer : wopts -> term -> list N.       (* write_term: options, term -> text *)

  Definition read_stream (o : ropts) (s : stream) : result := reader o (drain s).
  Definition read_chars (o : ropts) (cs : list N) : result := read_stream o (stream_of cs).

  Definition write_stream (o : wopts) (t : term) (s : stream) : stream := put_chars s (writer o t).
  Definition write_chars (o : wopts) (t : term) : list N := contents (write_stream o t empty_stream).
End OneReaderOneWriter.
