(* C50 -- a stream built from characters delivers exactly those characters *)
From Coq Require Import List NArith Lia.
From V Require Import C50.Model.
Import ListNotations.

Lemma drain_f_skipn : forall f b p, length b - p < f -> drain_f f (mkstream b p) = skipn p b.
Proof.
  induction f as [|f IH]; intros b p H; [lia|].
  simpl. unfold get_char. simpl.
  destruct (nth_error b p) as [c|] eqn:E.
  - assert (P : p < length b) by (apply nth_error_Some; congruence).
    rewrite IH by lia.
    clear - E. revert p E. induction b as [|x b IHb]; intros p E; destruct p; simpl in *; try discriminate.
    + inversion E. reflexivity.
    + apply IHb. exact E.
  - apply nth_error_None in E. symmetry. apply skipn_all2. exact E.
Qed.

(* a stream positioned at p delivers the rest of its buffer (a file opened for reading: p = 0) *)
Theorem drain_from_proof : forall b p, drain (mkstream b p) = skipn p b.
Proof. intros b p. unfold drain. cbn [buf]. apply drain_f_skipn. lia. Qed.

Theorem drain_stream_of_proof : forall cs, drain (stream_of cs) = cs.
Proof. intros cs. exact (drain_from_proof cs 0). Qed.

Theorem chars_reader_proof : forall (ropts result : Type) (reader : ropts -> list N -> result) o cs,
  read_chars ropts result reader o cs = reader o cs.
Proof. intros. unfold read_chars, read_stream. rewrite drain_stream_of_proof. reflexivity. Qed.

Theorem chars_reader_any_stream_proof : forall (ropts result : Type) (reader : ropts -> list N -> result) o cs s,
  drain s = cs -> read_chars ropts result reader o cs = read_stream ropts result reader o s.
Proof. intros ropts result reader o cs s H. rewrite chars_reader_proof. unfold read_stream. rewrite H. reflexivity. Qed.

Theorem chars_writer_proof : forall (wopts term : Type) (writer : wopts -> term -> list N) o t,
  write_chars wopts term writer o t = writer o t.
Proof. intros. reflexivity. Qed.

Theorem chars_writer_any_stream_proof : forall (wopts term : Type) (writer : wopts -> term -> list N) o t s,
  contents (write_stream wopts term writer o t s) = contents s ++ write_chars wopts term writer o t.
Proof. intros. reflexivity. Qed.

(* what was written to a fresh stream is what a reader of that stream is given *)
Theorem write_then_read_proof : forall (wopts term ropts result : Type) (writer : wopts -> term -> list N)
    (reader : ropts -> list N -> result) wo ro t,
  read_stream ropts result reader ro (write_stream wopts term writer wo t empty_stream)
  = read_chars ropts result reader ro (write_chars wopts term writer wo t).
Proof.
  intros. rewrite chars_reader_proof. unfold read_stream, write_chars, write_stream, put_chars, empty_stream, contents. simpl.
  rewrite drain_from_proof. reflexivity.
Qed.
