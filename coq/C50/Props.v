(* C50 -- pinned property theorems (nothing else lives here) *)
From Coq Require Import List NArith.
From V Require Import C50.Model C50.Proofs.
Import ListNotations.
Open Scope N_scope.

(* a stream built from characters delivers exactly those characters *)
Theorem stream_of_chars_delivers_chars : forall cs, drain (stream_of cs) = cs.
Proof. exact drain_stream_of_proof. Qed.
Print Assumptions stream_of_chars_delivers_chars.

(* reading from chars is reading from any stream that delivers those chars (e.g. a file holding them) *)
Theorem chars_reader_is_stream_reader : forall (ropts result : Type) (reader : ropts -> list N -> result) o cs s,
  drain s = cs -> read_chars ropts result reader o cs = read_stream ropts result reader o s.
Proof. exact chars_reader_any_stream_proof. Qed.
Print Assumptions chars_reader_is_stream_reader.

(* writing to chars gives the text that writing to a stream appends to that stream *)
Theorem chars_writer_is_stream_writer : forall (wopts term : Type) (writer : wopts -> term -> list N) o t s,
  contents (write_stream wopts term writer o t s) = contents s ++ write_chars wopts term writer o t.
Proof. exact chars_writer_any_stream_proof. Qed.
Print Assumptions chars_writer_is_stream_writer.

(* reading back a freshly written stream is reading the written chars *)
Theorem write_then_read : forall (wopts term ropts result : Type) (writer : wopts -> term -> list N)
    (reader : ropts -> list N -> result) wo ro t,
  read_stream ropts result reader ro (write_stream wopts term writer wo t empty_stream)
  = read_chars ropts result reader ro (write_chars wopts term writer wo t).
Proof. exact write_then_read_proof. Qed.
Print Assumptions write_then_read.

(* non-vacuity: a concrete stream, partially consumed *)
Example ex_drain : drain (stream_of [102; 111; 111; 46]) = [102; 111; 111; 46].
Proof. reflexivity. Qed.
Example ex_get_char : get_char (stream_of [102; 111]) = Some (102, mkstream [102; 111] 1).
Proof. reflexivity. Qed.
Example ex_drain_mid : drain (mkstream [102; 111; 111; 46] 2) = [111; 46].
Proof. reflexivity. Qed.
Example ex_write : contents (write_stream unit (list N) (fun _ t => t ++ [46]) tt [97] (stream_of [120])) = [120; 97; 46].
Proof. reflexivity. Qed.
