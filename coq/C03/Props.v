(* C03 -- pinned property theorems (nothing else lives here) *)
From Coq Require Import String NArith List Bool.
From V Require Import Gen.EvalTables C03.Model C03.Proofs.
Import ListNotations.
Open Scope string_scope.

(* for every (name, arity) among the arms of either regenerated table (all_keys = the keys of
   get_unary_instr/get_binary_instr/push_literal followed by those of arith_eval_by_metacall), the compiled
   path and the run-time path invoke the same operation *)
Theorem tables_agree_on_keys : forall k, In k all_keys -> lookup compiled_tbl k = lookup meta_tbl k.
Proof. exact agree_on_keys. Qed.
Print Assumptions tables_agree_on_keys.

(* ... and every other key takes the default arm (not evaluable) on both paths *)
Theorem tables_agree : forall k, lookup compiled_tbl k = lookup meta_tbl k.
Proof. exact agree_everywhere. Qed.
Print Assumptions tables_agree.

Theorem default_case : forall (t : table) k, ~ In k (map fst t) -> lookup t k = None.
Proof. exact lookup_default. Qed.
Print Assumptions default_case.

(* whatever the shared operations do, an expression evaluates to the same number or the same error formal
   through either table *)
Theorem context_independent :
  forall (Val Err : Type) (interp : string -> list Val -> Val + Err) (not_evaluable : string -> N -> Err) (e : expr Val Err),
    eval_with Val Err interp not_evaluable compiled_tbl e = eval_with Val Err interp not_evaluable meta_tbl e.
Proof. exact eval_same. Qed.
Print Assumptions context_independent.

(* the printable witness search finds nothing, is complete and sound *)
Theorem tables_no_counterexample : tables_counterexample = None.
Proof. exact no_counterexample. Qed.
Print Assumptions tables_no_counterexample.

Theorem tables_counterexample_complete :
  tables_counterexample = None -> forall k, In k all_keys -> agree_on k = true.
Proof. exact counterexample_complete. Qed.
Print Assumptions tables_counterexample_complete.

Theorem tables_counterexample_sound : forall k c m,
  tables_counterexample = Some (k, c, m) ->
  In k all_keys /\ c = lookup compiled_tbl k /\ m = lookup meta_tbl k /\ c <> m.
Proof. exact counterexample_sound. Qed.
Print Assumptions tables_counterexample_sound.

(* non-vacuity: the regenerated tables are populated and the lookups see them *)
Example ex_tables_populated : (40 <=? N.of_nat (length compiled_tbl))%N = true /\ (40 <=? N.of_nat (length meta_tbl))%N = true.
Proof. vm_compute. split; reflexivity. Qed.
Example ex_lookup_add : evaluable compiled_tbl ("+", 2%N) = true /\ evaluable meta_tbl ("rdiv", 2%N) = true
  /\ evaluable meta_tbl ("foo", 1%N) = false /\ evaluable compiled_tbl ("+", 3%N) = false.
Proof. vm_compute. repeat split. Qed.
Example ex_eval : eval_with nat nat (fun _ args => inl (length args)) (fun _ _ => 7) compiled_tbl
                    (Op2 nat nat "+" (Num nat nat 1) (Op1 nat nat "nope" (Num nat nat 2))) = inr 7.
Proof. vm_compute. reflexivity. Qed.
