(* C03 -- evaluation does not depend on the context: the two name->operation tables (regenerated from the
   source into Gen/EvalTables.v) and an abstract evaluator parameterised by a table.  No proofs here. *)
From Coq Require Import String NArith List Bool.
From V Require Import Gen.EvalTables.
Import ListNotations.
Open Scope string_scope.

Definition key := (string * N)%type.
Definition table := list (key * string).

Definition key_eqb (a b : key) : bool := String.eqb (fst a) (fst b) && N.eqb (snd a) (snd b).

(* Rust `match`: the first arm that matches *)
Fixpoint lookup (t : table) (k : key) : option string :=
  match t with
  | [] => None
  | (k', v) :: r => if key_eqb k k' then Some v else lookup r k
  end.

Definition opt_eqb (a b : option string) : bool :=
  match a, b with
  | Some x, Some y => String.eqb x y
  | None, None => true
  | _, _ => false
  end.

(* the finite domain of the table comparison: every key of either table *)
Definition all_keys : list key := map fst compiled_tbl ++ map fst meta_tbl.

Definition agree (t1 t2 : table) (k : key) : bool := opt_eqb (lookup t1 k) (lookup t2 k).
Definition agree_on (k : key) : bool := agree compiled_tbl meta_tbl k.

(* a key on which the two paths invoke different operations (or only one path knows the functor), with
   both entries; None when the tables agree *)
Definition counterexample_of (t1 t2 : table) (ks : list key) : option (key * option string * option string) :=
  match find (fun k => negb (agree t1 t2 k)) ks with
  | Some k => Some (k, lookup t1 k, lookup t2 k)
  | None => None
  end.
Definition tables_counterexample : option (key * option string * option string) :=
  counterexample_of compiled_tbl meta_tbl all_keys.

Definition evaluable (t : table) (k : key) : bool := match lookup t k with Some _ => true | None => false end.

(* correspondence: what the implementation showed for functor name/arity on each path
   (true = accepted as evaluable, false = type_error(evaluable, name/arity)) against the tables *)
Definition check_key (name : string) (arity : N) (compiled_ok meta_ok : bool) : bool :=
  Bool.eqb (evaluable compiled_tbl (name, arity)) compiled_ok && Bool.eqb (evaluable meta_tbl (name, arity)) meta_ok.

(* ---------- abstract evaluation: a post-order fold over the expression, parameterised by the table that
   maps a functor to an operation of the common vocabulary and by the interpretation of those operations
   (the functions of arithmetic_ops.rs, shared by both paths) *)
Section Eval.
  Variable Val : Type.                                   (* numbers *)
  Variable Err : Type.                                   (* error formal terms *)
  Variable interp : string -> list Val -> Val + Err.     (* operation name -> its behaviour *)
  Variable not_evaluable : string -> N -> Err.           (* type_error(evaluable, name/arity) *)

  Inductive expr :=
  | Num (v : Val)                       (* a number cell *)
  | Culprit (e : Err)                   (* unbound variable / non-numeric leaf: raises e on either path *)
  | Op0 (f : string)
  | Op1 (f : string) (a : expr)
  | Op2 (f : string) (a b : expr).

  Definition apply (t : table) (f : string) (args : list Val) : Val + Err :=
    match lookup t (f, N.of_nat (length args)) with
    | Some op => interp op args
    | None => inr (not_evaluable f (N.of_nat (length args)))
    end.

  Fixpoint eval_with (t : table) (e : expr) : Val + Err :=
    match e with
    | Num v => inl v
    | Culprit x => inr x
    | Op0 f => apply t f []
    | Op1 f a => match eval_with t a with
                 | inl x => apply t f [x]
                 | inr err => inr err
                 end
    | Op2 f a b => match eval_with t a with
                   | inl x => match eval_with t b with
                              | inl y => apply t f [x; y]
                              | inr err => inr err
                              end
                   | inr err => inr err
                   end
    end.
End Eval.
