(* C03 -- proofs *)
From Coq Require Import String NArith List Bool.
From V Require Import Gen.EvalTables C03.Model.
Import ListNotations.
Open Scope string_scope.

Lemma key_eqb_eq a b : key_eqb a b = true <-> a = b.
Proof.
  destruct a as [n1 a1], b as [n2 a2]. unfold key_eqb. cbn [fst snd].
  rewrite andb_true_iff, String.eqb_eq, N.eqb_eq. split.
  - intros [H1 H2]. subst. reflexivity.
  - intros H. inversion H. split; reflexivity.
Qed.

Lemma key_eq_dec (a b : key) : {a = b} + {a <> b}.
Proof. decide equality; [apply N.eq_dec | apply string_dec]. Qed.

Lemma opt_eqb_eq a b : opt_eqb a b = true -> a = b.
Proof.
  destruct a, b; cbn [opt_eqb]; intros H; try discriminate; try reflexivity.
  apply String.eqb_eq in H. subst. reflexivity.
Qed.

(* a key that is not among the arms of a table falls to the default arm *)
Lemma lookup_default (t : table) k : ~ In k (map fst t) -> lookup t k = None.
Proof.
  induction t as [|[k' v] r IH]; cbn [lookup map fst In]; intros H; [reflexivity|].
  destruct (key_eqb k k') eqn:E.
  - apply key_eqb_eq in E. subst. exfalso. apply H. left. reflexivity.
  - apply IH. intros Hin. apply H. right. exact Hin.
Qed.

(* the comparison of the two regenerated tables over their (finite) union of keys: re-checked by
   computation against the current source on every run *)
Lemma agree_all : forallb agree_on all_keys = true.
Proof. vm_compute. reflexivity. Qed.

Lemma agree_on_keys k : In k all_keys -> lookup compiled_tbl k = lookup meta_tbl k.
Proof.
  intros H. apply opt_eqb_eq. pose proof agree_all as A. rewrite forallb_forall in A. exact (A k H).
Qed.

Lemma agree_everywhere k : lookup compiled_tbl k = lookup meta_tbl k.
Proof.
  destruct (in_dec key_eq_dec k all_keys) as [H|H].
  - apply agree_on_keys. exact H.
  - unfold all_keys in H. rewrite in_app_iff in H.
    rewrite !lookup_default; [reflexivity | |]; intros Hin; apply H; [right|left]; exact Hin.
Qed.

Lemma no_counterexample : tables_counterexample = None.
Proof. vm_compute. reflexivity. Qed.

(* the counterexample search is complete: None means agreement on every key of the domain *)
Lemma counterexample_complete_gen t1 t2 ks :
  counterexample_of t1 t2 ks = None -> forall k, In k ks -> agree t1 t2 k = true.
Proof.
  unfold counterexample_of. intros H k Hin.
  destruct (find (fun k => negb (agree t1 t2 k)) ks) eqn:F; [discriminate|].
  pose proof (find_none _ _ F k Hin) as N. cbn beta in N. destruct (agree t1 t2 k); [reflexivity | discriminate].
Qed.

Lemma opt_eqb_refl a : opt_eqb a a = true.
Proof. destruct a; cbn [opt_eqb]; [apply String.eqb_refl | reflexivity]. Qed.

Lemma counterexample_sound_gen t1 t2 ks k c m :
  counterexample_of t1 t2 ks = Some (k, c, m) ->
  In k ks /\ c = lookup t1 k /\ m = lookup t2 k /\ c <> m.
Proof.
  unfold counterexample_of. destruct (find (fun k => negb (agree t1 t2 k)) ks) as [k0|] eqn:F; [|discriminate].
  apply find_some in F. destruct F as [Hin Hn]. unfold agree in Hn.
  intros H. injection H as Hk Hc Hm. subst k0.
  split; [exact Hin|]. split; [symmetry; exact Hc|]. split; [symmetry; exact Hm|].
  intros E. rewrite Hc, Hm, E, opt_eqb_refl in Hn. discriminate.
Qed.

Lemma counterexample_complete :
  tables_counterexample = None -> forall k, In k all_keys -> agree_on k = true.
Proof. exact (counterexample_complete_gen compiled_tbl meta_tbl all_keys). Qed.

Lemma counterexample_sound k c m :
  tables_counterexample = Some (k, c, m) ->
  In k all_keys /\ c = lookup compiled_tbl k /\ m = lookup meta_tbl k /\ c <> m.
Proof. exact (counterexample_sound_gen compiled_tbl meta_tbl all_keys k c m). Qed.

Section Eval.
  Variable Val Err : Type.
  Variable interp : string -> list Val -> Val + Err.
  Variable not_evaluable : string -> N -> Err.

  Lemma apply_same f args :
    apply Val Err interp not_evaluable compiled_tbl f args = apply Val Err interp not_evaluable meta_tbl f args.
  Proof. unfold apply. rewrite agree_everywhere. reflexivity. Qed.

  Lemma eval_same (e : expr Val Err) :
    eval_with Val Err interp not_evaluable compiled_tbl e = eval_with Val Err interp not_evaluable meta_tbl e.
  Proof.
    induction e as [v|x|f|f a IHa|f a IHa b IHb]; cbn [eval_with].
    - reflexivity.
    - reflexivity.
    - apply apply_same.
    - rewrite IHa. destruct (eval_with _ _ _ _ meta_tbl a); [apply apply_same | reflexivity].
    - rewrite IHa, IHb. destruct (eval_with _ _ _ _ meta_tbl a); [|reflexivity].
      destruct (eval_with _ _ _ _ meta_tbl b); [apply apply_same | reflexivity].
  Qed.
End Eval.
