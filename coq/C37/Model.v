(* C37 -- executable model of the encodings and hashes of library(crypto) / library(charsio).
   Bytes, character codes and machine words are all `N`; byte strings are `list N`.
   Definitions only; the proofs are in Proofs.v, the pinned statements in Props.v.

   What mirrors code and what is a reference definition:
   - hex_encode / hex_decode        mirror hex_bytes/2, bytes_hex//1, hex_bytes//1, char_hexval/2 of src/lib/crypto.pl
   - utf8_enc1 / utf8_encode        mirror code_to_utf8//1, encode//3 of src/lib/charsio.pl
   - utf8_decode                    mirrors decode_utf8//1, leading//2, continuation//3 (first solution, as `once/1` takes it)
   - b64_encode / b64_decode        reference RFC 4648 (sections 4 and 5), decoder strict (canonical text only) as the
                                    `base64` crate's general_purpose engines are configured
   - sha2 / hmac                    reference FIPS 180-4 / RFC 2104 (the implementation calls the `ring` crate)
   - data_bytes / data_hash         mirror options_data_chars/4, encoding_chars/3 (crypto.pl) and string_encoding_bytes
                                    (src/machine/system_calls.rs) *)
From Coq Require Import Arith NArith List Bool.
From Coq Require String Ascii.
Import ListNotations.
Open Scope N_scope.

(* ------------------------------------------------------------------ comparison of outputs *)
Fixpoint list_eqb (a b : list N) : bool :=
  match a, b with
  | [], [] => true
  | x :: a', y :: b' => (x =? y) && list_eqb a' b'
  | _, _ => false
  end.

Definition olist_eqb (a b : option (list N)) : bool :=
  match a, b with
  | None, None => true
  | Some x, Some y => list_eqb x y
  | _, _ => false
  end.

Definition is_byte (b : N) : bool := b <? 256.

(* the character codes of a Coq string (used to write test vectors) *)
Definition codes (s : String.string) : list N := map Ascii.N_of_ascii (String.list_ascii_of_string s).

(* two NIST example messages (56 and 112 characters) used by the test vectors in Props.v *)
Module Vectors.
Import String.
Definition nist2 : String.string := "abcdbcdecdefdefgefghfghighijhijkijkljklmklmnlmnomnopnopq"%string.
Definition nist3 : String.string :=
  "abcdefghbcdefghicdefghijdefghijkefghijklfghijklmghijklmnhijklmnoijklmnopjklmnopqklmnopqrlmnopqrsmnopqrstnopqrstu"%string.
End Vectors.
Export Vectors.

(* ------------------------------------------------------------------ hex (crypto.pl hex_bytes/2) *)
(* hexval_char/2: 0..9 -> '0'..'9', 10..15 -> a..f (lower case only) *)
Definition hexchar (v : N) : N := if v <? 10 then 48 + v else 87 + v.

(* char_hexval(C, H) with H unbound: nth0 in "0123456789abcdef", then in "0123456789ABCDEF" *)
Definition hexval (c : N) : option N :=
  if (48 <=? c) && (c <=? 57) then Some (c - 48)
  else if (97 <=? c) && (c <=? 102) then Some (c - 87)
  else if (65 <=? c) && (c <=? 70) then Some (c - 55)
  else None.

(* bytes_hex//1: High #= B>>4, Low #= B /\ 0xf *)
Fixpoint hex_encode (bs : list N) : list N :=
  match bs with
  | [] => []
  | b :: r => hexchar (b / 16) :: hexchar (b mod 16) :: hex_encode r
  end.

(* hex_bytes//1: two characters per byte, Byte #= High*16 + Low; anything else: domain_error(hex_encoding, _) = None *)
Fixpoint hex_decode (cs : list N) : option (list N) :=
  match cs with
  | [] => Some []
  | c1 :: c2 :: r =>
      match hexval c1, hexval c2, hex_decode r with
      | Some h, Some l, Some bs => Some (h * 16 + l :: bs)
      | _, _, _ => None
      end
  | _ => None
  end.

Definition hex_lower (c : N) : N := if (65 <=? c) && (c <=? 70) then c + 32 else c.
Definition is_lower_hex (c : N) : bool := ((48 <=? c) && (c <=? 57)) || ((97 <=? c) && (c <=? 102)).

(* ------------------------------------------------------------------ Base64 (RFC 4648) *)
(* alphabet: A-Z a-z 0-9 then "+/" (section 4, charset(standard)) or "-_" (section 5, charset(url)) *)
Definition b64char (url : bool) (v : N) : N :=
  if v <? 26 then 65 + v
  else if v <? 52 then 71 + v
  else if v <? 62 then v - 4
  else if v =? 62 then (if url then 45 else 43)
  else (if url then 95 else 47).

Definition b64val (url : bool) (c : N) : option N :=
  if (65 <=? c) && (c <=? 90) then Some (c - 65)
  else if (97 <=? c) && (c <=? 122) then Some (c - 71)
  else if (48 <=? c) && (c <=? 57) then Some (c + 4)
  else if c =? (if url then 45 else 43) then Some 62
  else if c =? (if url then 95 else 47) then Some 63
  else None.

Definition pad_char : N := 61.   (* '=' *)

Fixpoint b64_encode (pad url : bool) (bs : list N) : list N :=
  match bs with
  | [] => []
  | [b1] =>
      b64char url (b1 / 4) :: b64char url ((b1 mod 4) * 16) ::
      (if pad then [pad_char; pad_char] else [])
  | [b1; b2] =>
      b64char url (b1 / 4) :: b64char url ((b1 mod 4) * 16 + b2 / 16) :: b64char url ((b2 mod 16) * 4) ::
      (if pad then [pad_char] else [])
  | b1 :: b2 :: b3 :: r =>
      b64char url (b1 / 4) :: b64char url ((b1 mod 4) * 16 + b2 / 16) ::
      b64char url ((b2 mod 16) * 4 + b3 / 64) :: b64char url (b3 mod 64) :: b64_encode pad url r
  end.

(* the last, partial group: 2 characters carry 1 byte, 3 characters carry 2 bytes; unused low bits must be zero *)
Definition b64_tail2 (url : bool) (c1 c2 : N) : option (list N) :=
  match b64val url c1, b64val url c2 with
  | Some v1, Some v2 => if v2 mod 16 =? 0 then Some [v1 * 4 + v2 / 16] else None
  | _, _ => None
  end.

Definition b64_tail3 (url : bool) (c1 c2 c3 : N) : option (list N) :=
  match b64val url c1, b64val url c2, b64val url c3 with
  | Some v1, Some v2, Some v3 =>
      if v3 mod 4 =? 0 then Some [v1 * 4 + v2 / 16; (v2 mod 16) * 16 + v3 / 4] else None
  | _, _, _ => None
  end.

Definition b64_quad (url : bool) (c1 c2 c3 c4 : N) : option (list N) :=
  match b64val url c1, b64val url c2, b64val url c3, b64val url c4 with
  | Some v1, Some v2, Some v3, Some v4 =>
      Some [v1 * 4 + v2 / 16; (v2 mod 16) * 16 + v3 / 4; (v3 mod 4) * 64 + v4]
  | _, _, _, _ => None
  end.

(* strict decoder: with padding(true) the text must be padded to a multiple of 4, with padding(false) it must
   not contain '='; no white space, no other characters; None = the predicate fails *)
Fixpoint b64_decode (pad url : bool) (cs : list N) : option (list N) :=
  match cs with
  | [] => Some []
  | c1 :: c2 :: c3 :: c4 :: r =>
      match b64_quad url c1 c2 c3 c4 with
      | Some g => match b64_decode pad url r with Some bs => Some (g ++ bs) | None => None end
      | None =>
          match r with
          | [] =>
              if pad then
                if c4 =? pad_char then
                  if c3 =? pad_char then b64_tail2 url c1 c2 else b64_tail3 url c1 c2 c3
                else None
              else None
          | _ :: _ => None
          end
      end
  | [c1; c2; c3] => if pad then None else b64_tail3 url c1 c2 c3
  | [c1; c2] => if pad then None else b64_tail2 url c1 c2
  | [_] => None
  end.

Definition b64_len (pad : bool) (n : nat) : nat :=
  (if pad then 4 * ((n + 2) / 3) else (4 * n + 2) / 3)%nat.

Definition is_b64_char (url : bool) (c : N) : bool :=
  match b64val url c with Some _ => true | None => c =? pad_char end.

(* ------------------------------------------------------------------ UTF-8 *)
Definition valid_cpb (c : N) : bool := (c <? 0x110000) && negb ((0xD800 <=? c) && (c <? 0xE000)).

(* code_to_utf8//1 with encode//3: Byte is Prefix \/ ((Code >> (6*Nb1)) /\ 0x3F); the prefix bits and the six
   payload bits do not overlap, so \/ is + *)
Definition utf8_enc1 (c : N) : list N :=
  if c <? 0x80 then [c]
  else if c <? 0x800 then [0xC0 + (c / 64) mod 64; 0x80 + c mod 64]
  else if c <? 0x10000 then [0xE0 + (c / 4096) mod 64; 0x80 + (c / 64) mod 64; 0x80 + c mod 64]
  else [0xF0 + (c / 262144) mod 64; 0x80 + (c / 4096) mod 64; 0x80 + (c / 64) mod 64; 0x80 + c mod 64].

Definition utf8_encode (cps : list N) : list N := flat_map utf8_enc1 cps.

(* leading//2, first matching clause: (number of bytes, payload of the lead byte); the last clause
   `leading(1, 0xFFFD) --> [_]` takes every other byte *)
Definition utf8_lead (b : N) : nat * N :=
  if (b / 128) mod 2 =? 0 then (1%nat, b)
  else if (b / 32) mod 8 =? 6 then (2%nat, b - 0xC0)
  else if (b / 16) mod 16 =? 14 then (3%nat, b - 0xE0)
  else if (b / 8) mod 32 =? 30 then (4%nat, b - 0xF0)
  else (1%nat, 0xFFFD).

Definition utf8_iscont (b : N) : bool := (b / 64) mod 4 =? 2.    (* Byte /\ 0xC0 =:= 0x80 *)
Definition utf8_acc (code b : N) : N := code * 64 + (b - 0x80).  (* (Code << 6) \/ (Byte - 0x80) *)

(* char_code(H, Code) raises representation_error(character_code) for surrogates and codes above 0x10FFFF: None *)
Definition utf8_chr (code : N) (rest : option (list N)) : option (list N) :=
  if valid_cpb code then match rest with Some r => Some (code :: r) | None => None end else None.

Definition repl : N := 0xFFFD.

(* decode_utf8//1 as `once(phrase(decode_utf8(Cs), Bs))` runs it (the first solution of the depth-first search):
   - a lead byte followed by all its continuation bytes gives the accumulated code (no check for overlong forms);
   - a byte that is not a continuation byte where one is expected is consumed and the whole group gives U+FFFD
     (third clause of continuation//3);
   - when the input ends inside a group, the search backtracks to the previous continuation level or to
     leading(1, 0xFFFD): the result is one U+FFFD for the truncated group.
   continuation//3 is unrolled here for the three possible lengths so that the recursion is structural. *)
Fixpoint utf8_decode (bs : list N) : option (list N) :=
  match bs with
  | [] => Some []
  | b :: r0 =>
      match utf8_lead b with
      | (2%nat, code) =>
          match r0 with
          | [] => Some [repl]
          | b1 :: r1 =>
              if utf8_iscont b1 then utf8_chr (utf8_acc code b1) (utf8_decode r1)
              else utf8_chr repl (utf8_decode r1)
          end
      | (3%nat, code) =>
          match r0 with
          | [] => Some [repl]
          | b1 :: r1 =>
              if utf8_iscont b1 then
                match r1 with
                | [] => Some [repl]
                | b2 :: r2 =>
                    if utf8_iscont b2 then utf8_chr (utf8_acc (utf8_acc code b1) b2) (utf8_decode r2)
                    else utf8_chr repl (utf8_decode r2)
                end
              else utf8_chr repl (utf8_decode r1)
          end
      | (4%nat, code) =>
          match r0 with
          | [] => Some [repl]
          | b1 :: r1 =>
              if utf8_iscont b1 then
                match r1 with
                | [] => Some [repl]
                | b2 :: r2 =>
                    if utf8_iscont b2 then
                      match r2 with
                      | [] => Some [repl]
                      | b3 :: r3 =>
                          if utf8_iscont b3 then
                            utf8_chr (utf8_acc (utf8_acc (utf8_acc code b1) b2) b3) (utf8_decode r3)
                          else utf8_chr repl (utf8_decode r3)
                      end
                    else utf8_chr repl (utf8_decode r2)
                end
              else utf8_chr repl (utf8_decode r1)
          end
      | (_, code) => utf8_chr code (utf8_decode r0)
      end
  end.

(* ------------------------------------------------------------------ SHA-2 (FIPS 180-4) *)
Record sha2_cfg := {
  wbits : N;                       (* word size in bits: 32 | 64 *)
  wmask : N;                       (* 2^wbits - 1 *)
  wbytes : nat;                    (* word size in bytes: 4 | 8; block = 16 words, length field = 2 words *)
  bsig0 : N * N * N;               (* Sigma0: three right rotations *)
  bsig1 : N * N * N;               (* Sigma1 *)
  ssig0 : N * N * N;               (* sigma0: two right rotations and a right shift *)
  ssig1 : N * N * N;               (* sigma1 *)
  kconst : list N                  (* round constants, one per round *)
}.

Definition st8 : Type := (N * N * N * N * N * N * N * N)%type.

Section Sha2.
  Variable c : sha2_cfg.
  Definition wadd (a b : N) : N := N.land (a + b) (wmask c).
  Definition wrotr (n x : N) : N := N.lor (N.shiftr x n) (N.land (N.shiftl x (wbits c - n)) (wmask c)).
  Definition wnot (x : N) : N := N.lxor x (wmask c).
  Definition rot3 (p : N * N * N) (x : N) : N :=
    let '(r1, r2, r3) := p in N.lxor (N.lxor (wrotr r1 x) (wrotr r2 x)) (wrotr r3 x).
  Definition rot2shr (p : N * N * N) (x : N) : N :=
    let '(r1, r2, s) := p in N.lxor (N.lxor (wrotr r1 x) (wrotr r2 x)) (N.shiftr x s).
  Definition ch (x y z : N) : N := N.lxor (N.land x y) (N.land (wnot x) z).
  Definition maj (x y z : N) : N := N.lxor (N.lxor (N.land x y) (N.land x z)) (N.land y z).

  (* message schedule: `win` holds W[t-16..t-1], oldest first *)
  Fixpoint sched (n : nat) (win : list N) : list N :=
    match n with
    | O => []
    | S k =>
        let nw := wadd (wadd (rot2shr (ssig1 c) (nth 14 win 0)) (nth 9 win 0))
                       (wadd (rot2shr (ssig0 c) (nth 1 win 0)) (nth 0 win 0)) in
        nw :: sched k (tl win ++ [nw])
    end.

  Definition sha_round (s : st8) (kw : N * N) : st8 :=
    let '(a, b, cc, d, e, f, g, h) := s in
    let '(k, w) := kw in
    let t1 := wadd (wadd (wadd h (rot3 (bsig1 c) e)) (wadd (ch e f g) k)) w in
    let t2 := wadd (rot3 (bsig0 c) a) (maj a b cc) in
    (wadd t1 t2, a, b, cc, wadd d t1, e, f, g).

  Definition be_val (bs : list N) : N := fold_left (fun a b => N.shiftl a 8 + b) bs 0.

  Fixpoint be_words (n : nat) (bs : list N) : list N :=
    match n with
    | O => []
    | S k => be_val (firstn (wbytes c) bs) :: be_words k (skipn (wbytes c) bs)
    end.

  Definition compress (s : st8) (block : list N) : st8 :=
    let ws := be_words 16 block in
    let w := ws ++ sched (length (kconst c) - 16) ws in
    let '(a, b, cc, d, e, f, g, h) := s in
    let '(a', b', c', d', e', f', g', h') := fold_left sha_round (combine (kconst c) w) s in
    (wadd a a', wadd b b', wadd cc c', wadd d d', wadd e e', wadd f f', wadd g g', wadd h h').

  Definition block_bytes : nat := 16 * wbytes c.
  Definition len_bytes : nat := 2 * wbytes c.

  (* big-endian representation of v in n bytes *)
  Fixpoint be_bytes (n : nat) (v : N) : list N :=
    match n with
    | O => []
    | S k => be_bytes k (N.shiftr v 8) ++ [N.land v 255]
    end.

  Definition pad_zeros (len : nat) : nat :=
    ((block_bytes - (len + 1 + len_bytes) mod block_bytes) mod block_bytes)%nat.

  (* 5.1: the message, the bit 1 (byte 0x80), zero bytes up to 2 words before a block boundary, the bit length *)
  Definition sha_pad (m : list N) : list N :=
    m ++ [0x80] ++ repeat 0 (pad_zeros (length m)) ++ be_bytes len_bytes (8 * N.of_nat (length m)).

  Fixpoint fold_blocks (n : nat) (s : st8) (m : list N) : st8 :=
    match n with
    | O => s
    | S k => fold_blocks k (compress s (firstn block_bytes m)) (skipn block_bytes m)
    end.

  Definition st_bytes (s : st8) : list N :=
    let '(a, b, cc, d, e, f, g, h) := s in
    flat_map (be_bytes (wbytes c)) [a; b; cc; d; e; f; g; h].

  Definition sha2 (iv : st8) (outlen : nat) (m : list N) : list N :=
    let p := sha_pad m in
    firstn outlen (st_bytes (fold_blocks (length p / block_bytes) iv p)).
End Sha2.

Definition k256 : list N :=
  [1116352408; 1899447441; 3049323471; 3921009573; 961987163; 1508970993; 2453635748; 2870763221;
   3624381080; 310598401; 607225278; 1426881987; 1925078388; 2162078206; 2614888103; 3248222580;
   3835390401; 4022224774; 264347078; 604807628; 770255983; 1249150122; 1555081692; 1996064986;
   2554220882; 2821834349; 2952996808; 3210313671; 3336571891; 3584528711; 113926993; 338241895;
   666307205; 773529912; 1294757372; 1396182291; 1695183700; 1986661051; 2177026350; 2456956037;
   2730485921; 2820302411; 3259730800; 3345764771; 3516065817; 3600352804; 4094571909; 275423344;
   430227734; 506948616; 659060556; 883997877; 958139571; 1322822218; 1537002063; 1747873779;
   1955562222; 2024104815; 2227730452; 2361852424; 2428436474; 2756734187; 3204031479; 3329325298].

Definition k512 : list N :=
  [4794697086780616226; 8158064640168781261; 13096744586834688815; 16840607885511220156;
   4131703408338449720; 6480981068601479193; 10538285296894168987; 12329834152419229976;
   15566598209576043074; 1334009975649890238; 2608012711638119052; 6128411473006802146;
   8268148722764581231; 9286055187155687089; 11230858885718282805; 13951009754708518548;
   16472876342353939154; 17275323862435702243; 1135362057144423861; 2597628984639134821;
   3308224258029322869; 5365058923640841347; 6679025012923562964; 8573033837759648693;
   10970295158949994411; 12119686244451234320; 12683024718118986047; 13788192230050041572;
   14330467153632333762; 15395433587784984357; 489312712824947311; 1452737877330783856;
   2861767655752347644; 3322285676063803686; 5560940570517711597; 5996557281743188959;
   7280758554555802590; 8532644243296465576; 9350256976987008742; 10552545826968843579;
   11727347734174303076; 12113106623233404929; 14000437183269869457; 14369950271660146224;
   15101387698204529176; 15463397548674623760; 17586052441742319658; 1182934255886127544;
   1847814050463011016; 2177327727835720531; 2830643537854262169; 3796741975233480872;
   4115178125766777443; 5681478168544905931; 6601373596472566643; 7507060721942968483;
   8399075790359081724; 8693463985226723168; 9568029438360202098; 10144078919501101548;
   10430055236837252648; 11840083180663258601; 13761210420658862357; 14299343276471374635;
   14566680578165727644; 15097957966210449927; 16922976911328602910; 17689382322260857208;
   500013540394364858; 748580250866718886; 1242879168328830382; 1977374033974150939;
   2944078676154940804; 3659926193048069267; 4368137639120453308; 4836135668995329356;
   5532061633213252278; 6448918945643986474; 6902733635092675308; 7801388544844847127].

Definition cfg256 : sha2_cfg :=
  {| wbits := 32; wmask := 0xFFFFFFFF; wbytes := 4; bsig0 := (2, 13, 22); bsig1 := (6, 11, 25);
     ssig0 := (7, 18, 3); ssig1 := (17, 19, 10); kconst := k256 |}.
Definition cfg512 : sha2_cfg :=
  {| wbits := 64; wmask := 0xFFFFFFFFFFFFFFFF; wbytes := 8; bsig0 := (28, 34, 39); bsig1 := (14, 18, 41);
     ssig0 := (1, 8, 7); ssig1 := (19, 61, 6); kconst := k512 |}.

Definition iv256 : st8 :=
  (1779033703, 3144134277, 1013904242, 2773480762, 1359893119, 2600822924, 528734635, 1541459225).
Definition iv512 : st8 :=
  (7640891576956012808, 13503953896175478587, 4354685564936845355, 11912009170470909681,
   5840696475078001361, 11170449401992604703, 2270897969802886507, 6620516959819538809).
Definition iv384 : st8 :=
  (14680500436340154072, 7105036623409894663, 10473403895298186519, 1526699215303891257,
   7436329637833083697, 10282925794625328401, 15784041429090275239, 5167115440072839076).

(* 5.3.6 SHA-512/t IV generation function: SHA-512 started from H(0) xor a5a5a5a5a5a5a5a5 applied to the
   ASCII text "SHA-512/t" *)
Definition st_of_list (l : list N) : st8 :=
  (nth 0 l 0, nth 1 l 0, nth 2 l 0, nth 3 l 0, nth 4 l 0, nth 5 l 0, nth 6 l 0, nth 7 l 0).
Definition iv512_t_gen (name : list N) : st8 :=
  let '(a, b, cc, d, e, f, g, h) := iv512 in
  let x := 0xa5a5a5a5a5a5a5a5 in
  let iv0 := (N.lxor a x, N.lxor b x, N.lxor cc x, N.lxor d x, N.lxor e x, N.lxor f x, N.lxor g x, N.lxor h x) in
  st_of_list (be_words cfg512 8 (sha2 cfg512 iv0 64 name)).
Definition name_sha512_256 : list N := [83; 72; 65; 45; 53; 49; 50; 47; 50; 53; 54].   (* "SHA-512/256" *)
(* the value of iv512_t_gen name_sha512_256 (FIPS 180-4 5.3.6.2); equality is Example iv512_256_generated in Props.v *)
Definition iv512_256 : st8 :=
  (2463787394917988140, 11481187982095705282, 2563595384472711505, 10824532655140301501,
   10819967247969091555, 13717434660681038226, 3098927326965381290, 1060366662362279074).

Definition sha256 : list N -> list N := sha2 cfg256 iv256 32.
Definition sha512 : list N -> list N := sha2 cfg512 iv512 64.
Definition sha384 : list N -> list N := sha2 cfg512 iv384 48.
Definition sha512_256 : list N -> list N := sha2 cfg512 iv512_256 32.

(* ------------------------------------------------------------------ HMAC (RFC 2104) *)
(* the key brought to exactly one block: hashed when longer than a block, then filled with zero bytes *)
Definition hmac_key (H : list N -> list N) (B : nat) (key : list N) : list N :=
  let k0 := if (B <? length key)%nat then H key else key in
  k0 ++ repeat 0 (B - length k0).

Definition hmac (H : list N -> list N) (B : nat) (key msg : list N) : list N :=
  let k := hmac_key H B key in
  H (map (N.lxor 0x5c) k ++ H (map (N.lxor 0x36) k ++ msg)).

(* ------------------------------------------------------------------ crypto_data_hash/3 *)
Inductive alg := SHA256 | SHA384 | SHA512 | SHA512_256.

Definition alg_hash (a : alg) : list N -> list N :=
  match a with SHA256 => sha256 | SHA384 => sha384 | SHA512 => sha512 | SHA512_256 => sha512_256 end.
Definition alg_block (a : alg) : nat := match a with SHA256 => 64%nat | _ => 128%nat end.
Definition alg_outlen (a : alg) : nat :=
  match a with SHA256 => 32%nat | SHA384 => 48%nat | SHA512 => 64%nat | SHA512_256 => 32%nat end.
(* hmac_algorithm/1: sha256, sha384, sha512 *)
Definition alg_hmac_ok (a : alg) : bool := match a with SHA512_256 => false | _ => true end.

(* encoding(utf8): the UTF-8 bytes of the characters; encoding(octet): every character code is one byte,
   domain_error(octet_character, _) (= None) when a code exceeds 255 *)
Definition data_bytes (octet : bool) (codes : list N) : option (list N) :=
  if octet then (if forallb is_byte codes then Some codes else None)
  else Some (utf8_encode codes).

(* the hex characters of the digest / of the HMAC tag; None = error or failure *)
Definition data_hash (a : alg) (octet : bool) (key : option (list N)) (codes : list N) : option (list N) :=
  match data_bytes octet codes with
  | None => None
  | Some bs =>
      match key with
      | None => Some (hex_encode (alg_hash a bs))
      | Some k => if alg_hmac_ok a then Some (hex_encode (hmac (alg_hash a) (alg_block a) k bs)) else None
      end
  end.

(* ------------------------------------------------------------------ correspondence checks
   (each compares the model's output with the output observed on the implementation) *)
Definition check_hex_enc (bs out : list N) : bool := list_eqb (hex_encode bs) out.
Definition check_hex_dec (cs : list N) (out : option (list N)) : bool := olist_eqb (hex_decode cs) out.
Definition check_b64_enc (pad url : bool) (bs out : list N) : bool := list_eqb (b64_encode pad url bs) out.
Definition check_b64_dec (pad url : bool) (cs : list N) (out : option (list N)) : bool :=
  olist_eqb (b64_decode pad url cs) out.
Definition check_utf8_enc (cps out : list N) : bool := list_eqb (utf8_encode cps) out.
Definition check_utf8_dec (bs : list N) (out : option (list N)) : bool := olist_eqb (utf8_decode bs) out.
Definition check_hash (a : alg) (octet : bool) (key : option (list N)) (codes : list N) (out : option (list N)) : bool :=
  olist_eqb (data_hash a octet key codes) out.
