(* C37 -- published test vectors evaluated on the reference definitions of Model.v / Keccak.v / Chacha.v.
   These are TESTS of the definitions (finite, by vm_compute), not theorems about them. *)
From Coq Require Import String Arith NArith List Bool.
From V Require Import C37.Model C37.Keccak C37.Chacha C37.MoreHashes.
Import ListNotations.
Open Scope N_scope.

(* ================================================================ test vectors (tests of the reference definitions) *)
(* RFC 4648 section 10 *)
Example b64_rfc4648 :
  map (fun s => b64_encode true false (codes s)) ["" ; "f"; "fo"; "foo"; "foob"; "fooba"; "foobar"]%string =
  map codes ["" ; "Zg=="; "Zm8="; "Zm9v"; "Zm9vYg=="; "Zm9vYmE="; "Zm9vYmFy"]%string.
Proof. vm_compute. reflexivity. Qed.
Example b64_charsets :
  b64_encode true false [0xfb; 0xff] = codes "+/8=" /\ b64_encode true true [0xfb; 0xff] = codes "-_8=" /\
  b64_encode false true [0xfb; 0xff] = codes "-_8" /\ b64_decode true false (codes "Zh==") = None.
Proof. vm_compute. repeat split. Qed.
Example utf8_examples :
  utf8_encode [0x24; 0xA3; 0x20AC; 0x10348; 0x1F600] =
  [0x24; 0xC2; 0xA3; 0xE2; 0x82; 0xAC; 0xF0; 0x90; 0x8D; 0x88; 0xF0; 0x9F; 0x98; 0x80].
Proof. vm_compute. reflexivity. Qed.

(* FIPS 180-4 / NIST example messages *)
Example sha256_vectors :
  hex_encode (sha256 (codes "abc")) = codes "ba7816bf8f01cfea414140de5dae2223b00361a396177a9cb410ff61f20015ad" /\
  hex_encode (sha256 []) = codes "e3b0c44298fc1c149afbf4c8996fb92427ae41e4649b934ca495991b7852b855" /\
  hex_encode (sha256 (codes nist2)) = codes "248d6a61d20638b8e5c026930c3e6039a33ce45964ff2167f6ecedd419db06c1" /\
  hex_encode (sha256 (codes nist3)) = codes "cf5b16a778af8380036ce59e7b0492370b249b11e8f07a51afac45037afee9d1".
Proof. vm_compute. repeat split. Qed.
Example sha512_vectors :
  hex_encode (sha512 (codes "abc")) = codes "ddaf35a193617abacc417349ae20413112e6fa4e89a97ea20a9eeee64b55d39a2192992a274fc1a836ba3c23a3feebbd454d4423643ce80e2a9ac94fa54ca49f" /\
  hex_encode (sha512 []) = codes "cf83e1357eefb8bdf1542850d66d8007d620e4050b5715dc83f4a921d36ce9ce47d0d13c5d85f2b0ff8318d2877eec2f63b931bd47417a81a538327af927da3e" /\
  hex_encode (sha512 (codes nist3)) = codes "8e959b75dae313da8cf4f72814fc143f8f7779c6eb9f7fa17299aeadb6889018501d289e4900f7e4331b99dec4b5433ac7d329eeb6dd26545e96e55b874be909".
Proof. vm_compute. repeat split. Qed.
Example sha384_vectors :
  hex_encode (sha384 (codes "abc")) = codes "cb00753f45a35e8bb5a03d699ac65007272c32ab0eded1631a8b605a43ff5bed8086072ba1e7cc2358baeca134c825a7" /\
  hex_encode (sha384 (codes nist3)) = codes "09330c33f71147e83d192fc782cd1b4753111b173b3b05d22fa08086e3b0f712fcc7c71a557e2db966c3e9fa91746039".
Proof. vm_compute. repeat split. Qed.
Example sha512_256_vectors :
  hex_encode (sha512_256 (codes "abc")) = codes "53048e2681941ef99b2e29b76b4c7dabe4c2d0c634fc6d46e0e2f13107e7af23" /\
  hex_encode (sha512_256 (codes nist3)) = codes "3928e184fb8690f840da3988121d31be65cb9d3ef83ee6146feac861e19b563a".
Proof. vm_compute. repeat split. Qed.
(* FIPS 180-4 5.3.6: the SHA-512/256 initial value used by the model is the one the IV generation function produces *)
Example iv512_256_generated : iv512_t_gen name_sha512_256 = iv512_256.
Proof. vm_compute. reflexivity. Qed.

(* RFC 4231 test cases 1, 2 and 6 (key shorter than, and longer than, the block) *)
Example hmac_sha256_rfc4231 :
  hex_encode (hmac sha256 64 (repeat 0x0b 20) (codes "Hi There")) = codes "b0344c61d8db38535ca8afceaf0bf12b881dc200c9833da726e9376c2e32cff7" /\
  hex_encode (hmac sha256 64 (codes "Jefe") (codes "what do ya want for nothing?")) = codes "5bdcc146bf60754e6a042426089575c75a003f089d2739839dec58b964ec3843" /\
  hex_encode (hmac sha256 64 (repeat 0xaa 131) (codes "Test Using Larger Than Block-Size Key - Hash Key First")) = codes "60e431591ee0b67f0d8a26aacbf5b77f8e0bc6213728c5140546040f0ee37f54".
Proof. vm_compute. repeat split. Qed.
Example hmac_sha384_rfc4231 :
  hex_encode (hmac sha384 128 (repeat 0x0b 20) (codes "Hi There")) = codes "afd03944d84895626b0825f4ab46907f15f9dadbe4101ec682aa034c7cebc59cfaea9ea9076ede7f4af152e8b2fa9cb6" /\
  hex_encode (hmac sha384 128 (repeat 0xaa 131) (codes "Test Using Larger Than Block-Size Key - Hash Key First")) = codes "4ece084485813e9088d2c63a041bc5b44f9ef1012a2b588f3cd11f05033ac4c60c2ef6ab4030fe8296248df163f44952".
Proof. vm_compute. repeat split. Qed.
Example hmac_sha512_rfc4231 :
  hex_encode (hmac sha512 128 (repeat 0x0b 20) (codes "Hi There")) = codes "87aa7cdea5ef619d4ff0b4241a1d6cb02379f4e2ce4ec2787ad0b30545e17cdedaa833b7d6b8a702038b274eaea3f4e4be9d914eeb61f1702e696c203a126854" /\
  hex_encode (hmac sha512 128 (repeat 0xaa 131) (codes "Test Using Larger Than Block-Size Key - Hash Key First")) = codes "80b24263c7c1a3ebb71493c1dd7be8b49b46d1f41b4aeec1121b013783f8f3526b56d037e05f2598bd0fd2215d6a1e5295e64f73f63f0aec8b915a985d786598".
Proof. vm_compute. repeat split. Qed.

(* FIPS 202 example values: "abc", the empty message, and the 1600-bit message 0xA3 x 200 (two or three blocks) *)
Example sha3_224_vectors :
  hex_encode (sha3_224 (codes "abc")) = codes "e642824c3f8cf24ad09234ee7d3c766fc9a3a5168d0c94ad73b46fdf" /\
  hex_encode (sha3_224 []) = codes "6b4e03423667dbb73b6e15454f0eb1abd4597f9a1b078e3f5b5a6bc7" /\
  hex_encode (sha3_224 (repeat 0xa3 200)) = codes "9376816aba503f72f96ce7eb65ac095deee3be4bf9bbc2a1cb7e11e0".
Proof. vm_compute. repeat split. Qed.
Example sha3_256_vectors :
  hex_encode (sha3_256 (codes "abc")) = codes "3a985da74fe225b2045c172d6bd390bd855f086e3e9d525b46bfe24511431532" /\
  hex_encode (sha3_256 []) = codes "a7ffc6f8bf1ed76651c14756a061d662f580ff4de43b49fa82d80a4b80f8434a" /\
  hex_encode (sha3_256 (repeat 0xa3 200)) = codes "79f38adec5c20307a98ef76e8324afbfd46cfd81b22e3973c65fa1bd9de31787".
Proof. vm_compute. repeat split. Qed.
Example sha3_384_vectors :
  hex_encode (sha3_384 (codes "abc")) = codes "ec01498288516fc926459f58e2c6ad8df9b473cb0fc08c2596da7cf0e49be4b298d88cea927ac7f539f1edf228376d25" /\
  hex_encode (sha3_384 []) = codes "0c63a75b845e4f7d01107d852e4c2485c51a50aaaa94fc61995e71bbee983a2ac3713831264adb47fb6bd1e058d5f004" /\
  hex_encode (sha3_384 (repeat 0xa3 200)) = codes "1881de2ca7e41ef95dc4732b8f5f002b189cc1e42b74168ed1732649ce1dbcdd76197a31fd55ee989f2d7050dd473e8f".
Proof. vm_compute. repeat split. Qed.
Example sha3_512_vectors :
  hex_encode (sha3_512 (codes "abc")) = codes "b751850b1a57168a5693cd924b6b096e08f621827444f70d884f5d0240d2712e10e116e9192af3c91a7ec57647e3934057340b4cf408d5a56592f8274eec53f0" /\
  hex_encode (sha3_512 []) = codes "a69f73cca23a9ac5c8b567dc185a756e97c982164fe25859e0d1dcc1475c80a615b2123af1f5f94c11e3e9402c3ac558f500199d95b6d3e301758586281dcd26" /\
  hex_encode (sha3_512 (repeat 0xa3 200)) = codes "e76dfad22084a8b1467fcf2ffa58361bec7628edf5f3fdc0e4805dc48caeeca81b7c13c30adf52a3659584739a2df46be589c51ca1a4a8416df6545a1ce8ba00".
Proof. vm_compute. repeat split. Qed.

(* RFC 8439: 2.5.2 (Poly1305), 2.8.2 (AEAD_CHACHA20_POLY1305: ciphertext and tag) *)
Example poly1305_rfc8439 :
  hex_encode (poly1305 (unhex "85d6be7857556d337f4452fe42d506a80103808afb0db2fd4abff6af4149f51b")
                       (codes "Cryptographic Forum Research Group")) = codes "a8061dc1305136c6c22b8baf0c0127a9".
Proof. vm_compute. reflexivity. Qed.
Example aead_rfc8439 :
  aead_encrypt rfc8439_key rfc8439_nonce rfc8439_aad (codes sunscreen) =
  (unhex "d31a8d34648e60db7b86afbc53ef7ec2a4aded51296e08fea9e2b5a736ee62d63dbea45e8ca9671282fafb69da92728b1a71de0a9e060b2905d6a5b67ecd3b3692ddbd7f2d778b8c9803aee328091b58fab324e4fad675945585808b4831d7bc3ff4def08e4b7a9de576d26586cec64b6116",
   unhex "1ae10b594f09e26a7e902ecbd0600691").
Proof. vm_compute. reflexivity. Qed.

(* RFC 7693 appendix A and B ("abc"), and the empty message *)
Example blake2_vectors :
  hex_encode (blake2b512 (codes "abc")) = codes "ba80a53f981c4d0d6a2797b69f12f6e94c212f14685ac4b74b12bb6fdbffa2d17d87c5392aab792dc252d5de4533cc9518d38aa8dbf1925ab92386edd4009923" /\
  hex_encode (blake2s256 (codes "abc")) = codes "508c5e8c327c14e2e1a72ba34eeb452f37458b209ed63a294d999b4c86675982" /\
  hex_encode (blake2b512 []) = codes "786a02f742015903c6c6fd852552d272912f4740e15847618a86e217f71f5419d25e1031afee585313896444934eb04b903a685b1448b755d56f701afe9be2ce" /\
  hex_encode (blake2s256 []) = codes "69217a3079908094e11121d042354a7c1f55b6482ca1a51e1b250dfd1ed0eef9".
Proof. vm_compute. repeat split. Qed.
(* the test values of the RIPEMD-160 paper *)
Example ripemd160_vectors :
  hex_encode (ripemd160 []) = codes "9c1185a5c5e9fc54612808977ee8f548b2258d31" /\
  hex_encode (ripemd160 (codes "abc")) = codes "8eb208f7e05d987a9b044a8e98c6b087f15a0bfc" /\
  hex_encode (ripemd160 (codes "message digest")) = codes "5d0689ef49d2fae572b881b123a85ffa21595f36" /\
  hex_encode (ripemd160 (codes nist2)) = codes "12a053384a9c0c88e405a06c27dcf49ada62eb2b".
Proof. vm_compute. repeat split. Qed.
