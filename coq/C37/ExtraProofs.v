(* C37 -- proofs about the SHA-3 sponge (lengths, padding) and ChaCha20-Poly1305 (decrypt after encrypt) *)
From Coq Require Import Arith NArith ZArith List Bool Lia.
From V Require Import C37.Model C37.Proofs C37.ShaProofs C37.Keccak C37.Chacha C37.MoreHashes.
Import ListNotations.
Open Scope N_scope.

(* ------------------------------------------------------------------ generic *)
Lemma flat_map_length_const : forall (A : Type) (f : A -> list N) (c : nat) (l : list A),
  (forall x, length (f x) = c) -> length (flat_map f l) = (c * length l)%nat.
Proof.
  intros A f c l H. induction l as [|x r IH]; cbn [flat_map length].
  - lia.
  - rewrite app_length, H, IH. lia.
Qed.

Lemma flat_map_bytes : forall (A : Type) (f : A -> list N) (l : list A),
  (forall x, bytes (f x)) -> bytes (flat_map f l).
Proof.
  intros A f l H. induction l as [|x r IH]; cbn [flat_map].
  - constructor.
  - apply Forall_app. split; [apply H | exact IH].
Qed.

Lemma le_bytes_length : forall n v, length (le_bytes n v) = n.
Proof. induction n as [|k IH]; intro v; cbn [le_bytes length]; [reflexivity | rewrite IH; reflexivity]. Qed.

Lemma le_bytes_bytes : forall n v, bytes (le_bytes n v).
Proof.
  induction n as [|k IH]; intro v; cbn [le_bytes].
  - constructor.
  - constructor; [apply land255_byte | apply IH].
Qed.

(* ------------------------------------------------------------------ SHA-3 *)
Lemma iota_length : forall rc a, length (iota rc a) = length a.
Proof. intros rc [|x r]; reflexivity. Qed.

Lemma keccak_round_length : forall a rc, length (keccak_round a rc) = 25%nat.
Proof.
  intros a rc. unfold keccak_round. rewrite iota_length. unfold chi. rewrite map_length. reflexivity.
Qed.

Lemma keccak_rounds_length : forall rcs a, rcs <> [] -> length (fold_left keccak_round rcs a) = 25%nat.
Proof.
  induction rcs as [|rc r IH]; intros a H.
  - contradiction.
  - cbn [fold_left]. destruct r as [|rc2 r2].
    + cbn [fold_left]. apply keccak_round_length.
    + apply IH. discriminate.
Qed.

Lemma keccak_f_length : forall a, length (keccak_f a) = 25%nat.
Proof. intro a. unfold keccak_f. apply keccak_rounds_length. discriminate. Qed.

Lemma absorb_all_length : forall n rate s m, length s = 25%nat -> length (absorb_all n rate s m) = 25%nat.
Proof.
  induction n as [|k IH]; intros rate s m H; cbn [absorb_all].
  - exact H.
  - apply IH. unfold absorb. apply keccak_f_length.
Qed.

Lemma sha3_length : forall outlen m, (outlen <= 200)%nat -> length (sha3 outlen m) = outlen.
Proof.
  intros outlen m H. unfold sha3. apply firstn_length_le.
  rewrite (flat_map_length_const _ _ 8%nat) by (intro; apply le_bytes_length).
  rewrite absorb_all_length by (apply repeat_length). lia.
Qed.

Lemma sha3_bytes : forall outlen m, bytes (sha3 outlen m).
Proof.
  intros. unfold sha3. apply firstn_bytes. apply flat_map_bytes. intro. apply le_bytes_bytes.
Qed.

Lemma sha3_pad_length : forall rate m,
  length (sha3_pad rate m) = (length m + 1 + sha3_pad_zeros rate (length m))%nat.
Proof.
  intros rate m. unfold sha3_pad. destruct (sha3_pad_zeros rate (length m)) as [|z].
  - rewrite app_length. cbn [length]. lia.
  - rewrite !app_length, repeat_length. cbn [length]. lia.
Qed.

Lemma sha3_pad_blocks : forall rate m, (0 < rate)%nat ->
  (length (sha3_pad rate m) mod rate = 0 /\ length m < length (sha3_pad rate m) <= length m + rate)%nat.
Proof.
  intros rate m H. rewrite sha3_pad_length. unfold sha3_pad_zeros.
  destruct (pad_zeros_mod rate 0 (length m) H) as [P1 P2].
  rewrite !Nat.add_0_r in P1. rewrite Nat.add_0_r in P2. split; [exact P1 | lia].
Qed.

(* the message is a prefix of the padded message; the first padding byte carries the SHA-3 domain bits 01 and the
   first 1 of pad10*1 (0x06), the last byte carries the final 1 (0x80) *)
Lemma sha3_pad_shape : forall rate m,
  firstn (length m) (sha3_pad rate m) = m /\
  (exists mid, sha3_pad rate m = m ++ [0x86] \/ sha3_pad rate m = m ++ [0x06] ++ mid ++ [0x80]).
Proof.
  intros rate m. unfold sha3_pad. destruct (sha3_pad_zeros rate (length m)) as [|z].
  - split.
    + rewrite <- (Nat.add_0_r (length m)). rewrite firstn_app_2. cbn [firstn]. apply app_nil_r.
    + exists []. left. reflexivity.
  - split.
    + rewrite <- (Nat.add_0_r (length m)). rewrite firstn_app_2. cbn [firstn]. apply app_nil_r.
    + exists (repeat 0 z). right. reflexivity.
Qed.

Lemma data_hash3_shape : forall outlen octet codes h, (outlen <= 200)%nat ->
  data_hash3 outlen octet codes = Some h ->
  length h = (2 * outlen)%nat /\ forallb is_lower_hex h = true.
Proof.
  intros outlen octet codes h Ho. unfold data_hash3.
  destruct (data_bytes octet codes) as [bs|]; [|discriminate].
  intro E. inversion E; subst; clear E. rewrite hex_encode_length, sha3_length by assumption.
  split; [reflexivity | apply hex_encode_lower; apply sha3_bytes].
Qed.

(* ------------------------------------------------------------------ ChaCha20-Poly1305 *)
Lemma lxor_twice : forall x y, N.lxor (N.lxor x y) y = x.
Proof. intros x y. rewrite N.lxor_assoc, N.lxor_nilpotent, N.lxor_0_r. reflexivity. Qed.

Lemma zipxor_length : forall a k, (length a <= length k)%nat -> length (zipxor a k) = length a.
Proof.
  induction a as [|x a IH]; intros [|y k] H; cbn [zipxor length] in *; try reflexivity; try lia.
  rewrite IH by lia. reflexivity.
Qed.

Lemma zipxor_involutive : forall a k, (length a <= length k)%nat -> zipxor (zipxor a k) k = a.
Proof.
  induction a as [|x a IH]; intros [|y k] H; cbn [zipxor length] in *; try reflexivity; try lia.
  rewrite lxor_twice, IH by lia. reflexivity.
Qed.

Lemma chacha20_block_length : forall key c nonce, length (chacha20_block key c nonce) = 64%nat.
Proof.
  intros. unfold chacha20_block.
  rewrite (flat_map_length_const _ _ 4%nat) by (intro; apply le_bytes_length).
  rewrite seq_length. reflexivity.
Qed.

Lemma keystream_length : forall n key c nonce, length (keystream n key c nonce) = (64 * n)%nat.
Proof.
  induction n as [|k IH]; intros key c nonce; cbn [keystream].
  - reflexivity.
  - rewrite app_length, chacha20_block_length, IH. lia.
Qed.

Lemma keystream_covers : forall n, (n <= 64 * (n / 64 + 1))%nat.
Proof.
  intro n. pose proof (Nat.div_mod n 64 ltac:(discriminate)) as H.
  pose proof (Nat.mod_upper_bound n 64 ltac:(discriminate)) as H2. lia.
Qed.

Lemma chacha20_xor_length : forall key c nonce m, length (chacha20_xor key c nonce m) = length m.
Proof.
  intros. unfold chacha20_xor. apply zipxor_length. rewrite keystream_length. apply keystream_covers.
Qed.

Lemma chacha20_xor_involutive : forall key c nonce m,
  chacha20_xor key c nonce (chacha20_xor key c nonce m) = m.
Proof.
  intros key c nonce m. unfold chacha20_xor at 1. rewrite chacha20_xor_length.
  unfold chacha20_xor. apply zipxor_involutive. rewrite keystream_length. apply keystream_covers.
Qed.

Lemma poly1305_length : forall key msg, length (poly1305 key msg) = 16%nat.
Proof. intros. unfold poly1305. apply le_bytes_length. Qed.

Lemma aead_roundtrip : forall key nonce aad pt,
  let e := aead_encrypt key nonce aad pt in
  aead_decrypt key nonce aad (fst e) (snd e) = Some pt /\ length (fst e) = length pt /\ length (snd e) = 16%nat.
Proof.
  intros key nonce aad pt e. unfold e, aead_encrypt, aead_decrypt. cbn [fst snd].
  replace (list_eqb _ _) with true by (symmetry; apply list_eqb_eq; reflexivity).
  rewrite chacha20_xor_involutive, chacha20_xor_length, poly1305_length. repeat split.
Qed.

(* a tag other than the one Poly1305 computes over (aad, ciphertext) is rejected *)
Lemma aead_rejects_other_tags : forall key nonce aad ct tag,
  tag <> poly1305 (aead_otk key nonce) (aead_mac_data aad ct) -> aead_decrypt key nonce aad ct tag = None.
Proof.
  intros key nonce aad ct tag H. unfold aead_decrypt.
  destruct (list_eqb (poly1305 (aead_otk key nonce) (aead_mac_data aad ct)) tag) eqn:E; [|reflexivity].
  apply list_eqb_eq in E. exfalso. apply H. symmetry. exact E.
Qed.

Lemma data_encrypt_roundtrip : forall octet key nonce aad plain ct tag,
  data_encrypt octet key nonce aad plain = Some (ct, tag) ->
  exists pt ad, data_bytes octet plain = Some pt /\ data_bytes octet aad = Some ad /\
                aead_decrypt key nonce ad ct tag = Some pt /\ length ct = length pt /\ length tag = 16%nat.
Proof.
  intros octet key nonce aad plain ct tag. unfold data_encrypt.
  destruct (data_bytes octet plain) as [pt|]; [|discriminate].
  destruct (data_bytes octet aad) as [ad|]; [|discriminate].
  intro E. inversion E as [E1]. exists pt, ad.
  destruct (aead_roundtrip key nonce ad pt) as [R1 [R2 R3]].
  repeat split; assumption.
Qed.

Lemma check_encrypt_ok : forall octet key nonce aad plain ct tag,
  check_encrypt octet key nonce aad plain ct tag = true <-> data_encrypt octet key nonce aad plain = Some (ct, tag).
Proof.
  intros. unfold check_encrypt. destruct (data_encrypt octet key nonce aad plain) as [[c t]|].
  - rewrite andb_true_iff, !list_eqb_eq. split.
    + intros [A B]. subst. reflexivity.
    + intro E. inversion E. split; reflexivity.
  - split; discriminate.
Qed.

Lemma check_hash3_ok : forall n o cs out, check_hash3 n o cs out = true <-> out = data_hash3 n o cs.
Proof. intros. unfold check_hash3. rewrite olist_eqb_eq. split; intro; subst; reflexivity. Qed.

(* ------------------------------------------------------------------ BLAKE2 and RIPEMD-160: output lengths, padding *)
Lemma b2_compress_length : forall c h blk t last, length (b2_compress c h blk t last) = 8%nat.
Proof. intros. unfold b2_compress. rewrite map_length, seq_length. reflexivity. Qed.

Lemma b2_blocks_length : forall c n h t m, length (b2_blocks c n h t m) = 8%nat.
Proof.
  intros c n. induction n as [|k IH]; intros h t m; cbn [b2_blocks].
  - apply b2_compress_length.
  - apply IH.
Qed.

Lemma blake2_length : forall c nn m, (nn <= 8 * b2_wb c)%nat -> length (blake2 c nn m) = nn.
Proof.
  intros c nn m H. unfold blake2. apply firstn_length_le.
  rewrite (flat_map_length_const _ _ (b2_wb c)) by (intro; apply le_bytes_length).
  rewrite b2_blocks_length. lia.
Qed.

Lemma blake2_bytes : forall c nn m, bytes (blake2 c nn m).
Proof. intros. unfold blake2. apply firstn_bytes. apply flat_map_bytes. intro. apply le_bytes_bytes. Qed.

Lemma ripemd160_length : forall m, length (ripemd160 m) = 20%nat.
Proof.
  intro m. unfold ripemd160. destruct (rmd_blocks _ rmd_iv (rmd_pad m)) as [[[[h0 h1] h2] h3] h4].
  rewrite (flat_map_length_const _ _ 4%nat) by (intro; apply le_bytes_length). reflexivity.
Qed.

Lemma ripemd160_bytes : forall m, bytes (ripemd160 m).
Proof.
  intro m. unfold ripemd160. destruct (rmd_blocks _ rmd_iv (rmd_pad m)) as [[[[h0 h1] h2] h3] h4].
  apply flat_map_bytes. intro. apply le_bytes_bytes.
Qed.

Lemma rmd_pad_blocks : forall m,
  (length (rmd_pad m) mod 64 = 0 /\ length m + 9 <= length (rmd_pad m) < length m + 9 + 64)%nat /\
  firstn (length m + 1) (rmd_pad m) = m ++ [0x80].
Proof.
  intro m. split.
  - unfold rmd_pad. rewrite !app_length, repeat_length, le_bytes_length. cbn [length].
    destruct (pad_zeros_mod 64 8 (length m) ltac:(lia)) as [P1 P2].
    split; [|lia].
    replace (length m + (1 + ((64 - (length m + 1 + 8) mod 64) mod 64 + 8)))%nat
      with (length m + 1 + (64 - (length m + 1 + 8) mod 64) mod 64 + 8)%nat by lia.
    exact P1.
  - unfold rmd_pad.
    replace (length m + 1)%nat with (length (m ++ [0x80%N]) + 0)%nat by (rewrite app_length; cbn [length]; lia).
    rewrite app_assoc. rewrite firstn_app_2. cbn [firstn]. apply app_nil_r.
Qed.

Lemma xalg_hash_length : forall a m, length (xalg_hash a m) = xalg_outlen a.
Proof.
  intros [] m; cbn [xalg_hash xalg_outlen].
  - apply blake2_length. cbn. lia.
  - apply blake2_length. cbn. lia.
  - apply ripemd160_length.
Qed.

Lemma xalg_hash_bytes : forall a m, bytes (xalg_hash a m).
Proof. intros [] m; cbn [xalg_hash]; [apply blake2_bytes | apply blake2_bytes | apply ripemd160_bytes]. Qed.

Lemma data_hashx_shape : forall a octet codes h,
  data_hashx a octet codes = Some h -> length h = (2 * xalg_outlen a)%nat /\ forallb is_lower_hex h = true.
Proof.
  intros a octet codes h. unfold data_hashx.
  destruct (data_bytes octet codes) as [bs|]; [|discriminate].
  intro E. inversion E; subst; clear E. rewrite hex_encode_length, xalg_hash_length.
  split; [reflexivity | apply hex_encode_lower; apply xalg_hash_bytes].
Qed.

Lemma check_hashx_ok : forall a o cs out, check_hashx a o cs out = true <-> out = data_hashx a o cs.
Proof. intros. unfold check_hashx. rewrite olist_eqb_eq. split; intro; subst; reflexivity. Qed.
