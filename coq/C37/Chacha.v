(* C37 -- reference definition of ChaCha20, Poly1305 and AEAD_CHACHA20_POLY1305 (RFC 8439) and the model of
   crypto_data_encrypt/6 built on it.  Definitions only.  Words are `N` (32 bits), byte order little-endian. *)
From Coq Require Import Arith NArith List Bool.
From V Require Import C37.Model C37.Keccak.
Import ListNotations.
Open Scope N_scope.

Definition m32 : N := 0xFFFFFFFF.
Definition add32 (a b : N) : N := N.land (a + b) m32.
Definition rotl32 (n x : N) : N := N.lor (N.land (N.shiftl x n) m32) (N.shiftr x (32 - n)).

Fixpoint upd (i : nat) (v : N) (l : list N) : list N :=
  match l, i with
  | [], _ => []
  | _ :: r, O => v :: r
  | x :: r, S k => x :: upd k v r
  end.

(* 2.1 quarter round on the words a, b, c, d of the state *)
Definition quarter (ia ib ic id : nat) (s : list N) : list N :=
  let a := nth ia s 0 in let b := nth ib s 0 in let c := nth ic s 0 in let d := nth id s 0 in
  let a := add32 a b in let d := rotl32 16 (N.lxor d a) in
  let c := add32 c d in let b := rotl32 12 (N.lxor b c) in
  let a := add32 a b in let d := rotl32 8 (N.lxor d a) in
  let c := add32 c d in let b := rotl32 7 (N.lxor b c) in
  upd ia a (upd ib b (upd ic c (upd id d s))).

Definition double_round (s : list N) : list N :=
  let s := quarter 0 4 8 12 s in let s := quarter 1 5 9 13 s in
  let s := quarter 2 6 10 14 s in let s := quarter 3 7 11 15 s in
  let s := quarter 0 5 10 15 s in let s := quarter 1 6 11 12 s in
  let s := quarter 2 7 8 13 s in quarter 3 4 9 14 s.

Fixpoint iter (n : nat) (f : list N -> list N) (s : list N) : list N :=
  match n with O => s | S k => iter k f (f s) end.

(* 2.3 block function: "expand 32-byte k", 8 key words, the block counter, 3 nonce words; 20 rounds; add the input *)
Definition chacha_init (key : list N) (counter : N) (nonce : list N) : list N :=
  [0x61707865; 0x3320646e; 0x79622d32; 0x6b206574] ++ le_lanes 8 4 key ++ [N.land counter m32] ++ le_lanes 3 4 nonce.

Definition chacha20_block (key : list N) (counter : N) (nonce : list N) : list N :=
  let s0 := chacha_init key counter nonce in
  let s := iter 10 double_round s0 in
  flat_map (fun i => le_bytes 4 (add32 (nth i s 0) (nth i s0 0))) (seq 0 16).

(* 2.4: the key stream is the sequence of blocks for counter, counter+1, ...; encryption xors it onto the message *)
Fixpoint keystream (n : nat) (key : list N) (counter : N) (nonce : list N) : list N :=
  match n with
  | O => []
  | S k => chacha20_block key counter nonce ++ keystream k key (counter + 1) nonce
  end.

Fixpoint zipxor (a k : list N) : list N :=
  match a, k with
  | x :: a', y :: k' => N.lxor x y :: zipxor a' k'
  | _, _ => []
  end.

Definition chacha20_xor (key : list N) (counter : N) (nonce : list N) (msg : list N) : list N :=
  zipxor msg (keystream (length msg / 64 + 1) key counter nonce).

(* 2.5 Poly1305 *)
Definition poly_p : N := 2 ^ 130 - 5.
Definition poly_clamp (r : N) : N := N.land r 0x0ffffffc0ffffffc0ffffffc0fffffff.

Fixpoint poly_blocks (n : nat) (r acc : N) (msg : list N) : N :=
  match n with
  | O => acc
  | S k =>
      match msg with
      | [] => acc
      | _ :: _ =>
          let chunk := firstn 16 msg in
          let v := le_val chunk + 2 ^ (8 * N.of_nat (length chunk)) in
          poly_blocks k r (((acc + v) * r) mod poly_p) (skipn 16 msg)
      end
  end.

Definition poly1305 (key msg : list N) : list N :=
  let r := poly_clamp (le_val (firstn 16 key)) in
  let s := le_val (firstn 16 (skipn 16 key)) in
  le_bytes 16 ((poly_blocks (length msg / 16 + 1) r 0 msg + s) mod 2 ^ 128).

(* 2.8 AEAD construction *)
Definition pad16 (l : list N) : list N := repeat 0 ((16 - length l mod 16) mod 16).
Definition aead_mac_data (aad ct : list N) : list N :=
  aad ++ pad16 aad ++ ct ++ pad16 ct ++ le_bytes 8 (N.of_nat (length aad)) ++ le_bytes 8 (N.of_nat (length ct)).
Definition aead_otk (key nonce : list N) : list N := firstn 32 (chacha20_block key 0 nonce).

Definition aead_encrypt (key nonce aad pt : list N) : list N * list N :=
  let ct := chacha20_xor key 1 nonce pt in
  (ct, poly1305 (aead_otk key nonce) (aead_mac_data aad ct)).

Definition aead_decrypt (key nonce aad ct tag : list N) : option (list N) :=
  if list_eqb (poly1305 (aead_otk key nonce) (aead_mac_data aad ct)) tag
  then Some (chacha20_xor key 1 nonce ct) else None.

(* crypto_data_encrypt/6: plaintext and aad are turned into bytes by the encoding option (data_bytes); the ciphertext
   comes back as characters with the codes of the bytes, the tag as a list of bytes; key 32 bytes, nonce 12 bytes *)
Definition data_encrypt (octet : bool) (key nonce aad plain : list N) : option (list N * list N) :=
  match data_bytes octet plain, data_bytes octet aad with
  | Some pt, Some ad => Some (aead_encrypt key nonce ad pt)
  | _, _ => None
  end.

Definition check_encrypt (octet : bool) (key nonce aad plain ct tag : list N) : bool :=
  match data_encrypt octet key nonce aad plain with
  | Some (c, t) => list_eqb c ct && list_eqb t tag
  | None => false
  end.

(* SHA-3 through crypto_data_hash/3 (no hmac option for these algorithms) *)
Definition data_hash3 (outlen : nat) (octet : bool) (codes : list N) : option (list N) :=
  match data_bytes octet codes with
  | None => None
  | Some bs => Some (hex_encode (sha3 outlen bs))
  end.
Definition check_hash3 (outlen : nat) (octet : bool) (codes : list N) (out : option (list N)) : bool :=
  olist_eqb (data_hash3 outlen octet codes) out.

(* RFC 8439 section 2.8.2 inputs used by the test vector in Props.v *)
Module Vectors8439.
Import String.
Definition sunscreen : String.string :=
  "Ladies and Gentlemen of the class of '99: If I could offer you only one tip for the future, sunscreen would be it."%string.
End Vectors8439.
Export Vectors8439.
Definition rfc8439_key : list N := map N.of_nat (seq 128 32).
Definition rfc8439_nonce : list N := [0x07; 0; 0; 0; 0x40; 0x41; 0x42; 0x43; 0x44; 0x45; 0x46; 0x47].
Definition rfc8439_aad : list N := [0x50; 0x51; 0x52; 0x53; 0xc0; 0xc1; 0xc2; 0xc3; 0xc4; 0xc5; 0xc6; 0xc7].
Definition unhex (s : String.string) : list N := match hex_decode (codes s) with Some bs => bs | None => [] end.
