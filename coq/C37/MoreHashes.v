(* C37 -- reference definitions of BLAKE2s-256 / BLAKE2b-512 (RFC 7693, unkeyed, sequential mode) and RIPEMD-160
   (Dobbertin, Bosselaers, Preneel 1996), the remaining algorithms of crypto_data_hash/3.  Definitions only.
   Words are `N`, byte order little-endian (le_val / le_bytes / le_lanes of Keccak.v, upd / rotl32 / add32 of Chacha.v). *)
From Coq Require Import Arith NArith List Bool.
From V Require Import C37.Model C37.Keccak C37.Chacha.
Import ListNotations.
Open Scope N_scope.

(* ------------------------------------------------------------------ BLAKE2 *)
Record b2_cfg := {
  b2_w : N;                      (* word size in bits: 32 (BLAKE2s) | 64 (BLAKE2b) *)
  b2_mask : N;                   (* 2^w - 1 *)
  b2_wb : nat;                   (* bytes per word; a block is 16 words *)
  b2_rot : N * N * N * N;        (* rotation constants R1..R4 of G *)
  b2_rounds : nat;               (* 10 | 12 *)
  b2_iv : list N                 (* the SHA-256 / SHA-512 initial values *)
}.

Definition b2_sigma : list (list nat) :=
  [[0; 1; 2; 3; 4; 5; 6; 7; 8; 9; 10; 11; 12; 13; 14; 15];
   [14; 10; 4; 8; 9; 15; 13; 6; 1; 12; 0; 2; 11; 7; 5; 3];
   [11; 8; 12; 0; 5; 2; 15; 13; 10; 14; 3; 6; 7; 1; 9; 4];
   [7; 9; 3; 1; 13; 12; 11; 14; 2; 6; 5; 10; 4; 0; 15; 8];
   [9; 0; 5; 7; 2; 4; 10; 15; 14; 1; 11; 12; 6; 8; 3; 13];
   [2; 12; 6; 10; 0; 11; 8; 3; 4; 13; 7; 5; 15; 14; 1; 9];
   [12; 5; 1; 15; 14; 13; 4; 10; 0; 7; 6; 3; 9; 2; 8; 11];
   [13; 11; 7; 14; 12; 1; 3; 9; 5; 0; 15; 4; 8; 6; 2; 10];
   [6; 15; 14; 9; 11; 3; 0; 8; 12; 2; 13; 7; 1; 4; 10; 5];
   [10; 2; 8; 4; 7; 6; 1; 5; 15; 11; 9; 14; 3; 12; 13; 0]]%nat.

Section Blake2.
  Variable c : b2_cfg.
  Definition b2_add (a b : N) : N := N.land (a + b) (b2_mask c).
  Definition b2_rotr (n x : N) : N := N.lor (N.shiftr x n) (N.land (N.shiftl x (b2_w c - n)) (b2_mask c)).

  (* 3.1 mixing function G *)
  Definition b2_g (ia ib ic id : nat) (x y : N) (v : list N) : list N :=
    let '(r1, r2, r3, r4) := b2_rot c in
    let a := nth ia v 0 in let b := nth ib v 0 in let cc := nth ic v 0 in let d := nth id v 0 in
    let a := b2_add (b2_add a b) x in let d := b2_rotr r1 (N.lxor d a) in
    let cc := b2_add cc d in let b := b2_rotr r2 (N.lxor b cc) in
    let a := b2_add (b2_add a b) y in let d := b2_rotr r3 (N.lxor d a) in
    let cc := b2_add cc d in let b := b2_rotr r4 (N.lxor b cc) in
    upd ia a (upd ib b (upd ic cc (upd id d v))).

  Definition b2_round (mw : list N) (v : list N) (s : list nat) : list N :=
    let m := fun i => nth (nth i s 0%nat) mw 0 in
    let v := b2_g 0 4 8 12 (m 0%nat) (m 1%nat) v in let v := b2_g 1 5 9 13 (m 2%nat) (m 3%nat) v in
    let v := b2_g 2 6 10 14 (m 4%nat) (m 5%nat) v in let v := b2_g 3 7 11 15 (m 6%nat) (m 7%nat) v in
    let v := b2_g 0 5 10 15 (m 8%nat) (m 9%nat) v in let v := b2_g 1 6 11 12 (m 10%nat) (m 11%nat) v in
    let v := b2_g 2 7 8 13 (m 12%nat) (m 13%nat) v in b2_g 3 4 9 14 (m 14%nat) (m 15%nat) v.

  (* 3.2 compression function F: h, one block, the byte counter t (two words), the final-block flag *)
  Definition b2_compress (h : list N) (blk : list N) (t : N) (last : bool) : list N :=
    let mw := le_lanes 16 (b2_wb c) blk in
    let v := h ++ b2_iv c in
    let v := upd 12 (N.lxor (nth 12 v 0) (N.land t (b2_mask c))) v in
    let v := upd 13 (N.lxor (nth 13 v 0) (N.land (N.shiftr t (b2_w c)) (b2_mask c))) v in
    let v := if last then upd 14 (N.lxor (nth 14 v 0) (b2_mask c)) v else v in
    let v := fold_left (b2_round mw) (firstn (b2_rounds c) (b2_sigma ++ b2_sigma)) v in
    map (fun i => N.lxor (N.lxor (nth i h 0) (nth i v 0)) (nth (i + 8) v 0)) (seq 0 8).

  Definition b2_block_bytes : nat := 16 * b2_wb c.

  (* 3.3: all blocks but the last with the running byte count; the last block (zero-filled; the only block of the
     empty message is all zero) with the total length and the final flag *)
  Fixpoint b2_blocks (n : nat) (h : list N) (t : N) (m : list N) : list N :=
    match n with
    | O => b2_compress h (m ++ repeat 0 (b2_block_bytes - length m)) (t + N.of_nat (length m)) true
    | S k =>
        let t' := t + N.of_nat b2_block_bytes in
        b2_blocks k (b2_compress h (firstn b2_block_bytes m) t' false) t' (skipn b2_block_bytes m)
    end.

  (* parameter block: digest length nn, no key, fanout 1, depth 1 *)
  Definition blake2 (nn : nat) (m : list N) : list N :=
    let nblocks := Nat.max 1 ((length m + b2_block_bytes - 1) / b2_block_bytes) in
    let h0 := upd 0 (N.lxor (nth 0 (b2_iv c) 0) (N.lxor 0x01010000 (N.of_nat nn))) (b2_iv c) in
    firstn nn (flat_map (le_bytes (b2_wb c)) (b2_blocks (nblocks - 1) h0 0 m)).
End Blake2.

Definition list_of_st (s : st8) : list N :=
  let '(a, b, cc, d, e, f, g, h) := s in [a; b; cc; d; e; f; g; h].

Definition cfg_b2s : b2_cfg :=
  {| b2_w := 32; b2_mask := 0xFFFFFFFF; b2_wb := 4; b2_rot := (16, 12, 8, 7); b2_rounds := 10; b2_iv := list_of_st iv256 |}.
Definition cfg_b2b : b2_cfg :=
  {| b2_w := 64; b2_mask := 0xFFFFFFFFFFFFFFFF; b2_wb := 8; b2_rot := (32, 24, 16, 63); b2_rounds := 12; b2_iv := list_of_st iv512 |}.

Definition blake2s256 : list N -> list N := blake2 cfg_b2s 32.
Definition blake2b512 : list N -> list N := blake2 cfg_b2b 64.

(* ------------------------------------------------------------------ RIPEMD-160 *)
Definition rmd_not (x : N) : N := N.lxor x m32.
Definition rmd_f (j : nat) (x y z : N) : N :=
  match j with
  | 0%nat => N.lxor (N.lxor x y) z
  | 1%nat => N.lor (N.land x y) (N.land (rmd_not x) z)
  | 2%nat => N.lxor (N.lor x (rmd_not y)) z
  | 3%nat => N.lor (N.land x z) (N.land y (rmd_not z))
  | _ => N.lxor x (N.lor y (rmd_not z))
  end.

Definition rmd_rl : list (list nat) :=
  [[0; 1; 2; 3; 4; 5; 6; 7; 8; 9; 10; 11; 12; 13; 14; 15];
   [7; 4; 13; 1; 10; 6; 15; 3; 12; 0; 9; 5; 2; 14; 11; 8];
   [3; 10; 14; 4; 9; 15; 8; 1; 2; 7; 0; 6; 13; 11; 5; 12];
   [1; 9; 11; 10; 0; 8; 12; 4; 13; 3; 7; 15; 14; 5; 6; 2];
   [4; 0; 5; 9; 7; 12; 2; 10; 14; 1; 3; 8; 11; 6; 15; 13]]%nat.
Definition rmd_rr : list (list nat) :=
  [[5; 14; 7; 0; 9; 2; 11; 4; 13; 6; 15; 8; 1; 10; 3; 12];
   [6; 11; 3; 7; 0; 13; 5; 10; 14; 15; 8; 12; 4; 9; 1; 2];
   [15; 5; 1; 3; 7; 14; 6; 9; 11; 8; 12; 2; 10; 0; 4; 13];
   [8; 6; 4; 1; 3; 11; 15; 0; 5; 12; 2; 13; 9; 7; 10; 14];
   [12; 15; 10; 4; 1; 5; 8; 7; 6; 2; 13; 14; 0; 3; 9; 11]]%nat.
Definition rmd_sl : list (list N) :=
  [[11; 14; 15; 12; 5; 8; 7; 9; 11; 13; 14; 15; 6; 7; 9; 8];
   [7; 6; 8; 13; 11; 9; 7; 15; 7; 12; 15; 9; 11; 7; 13; 12];
   [11; 13; 6; 7; 14; 9; 13; 15; 14; 8; 13; 6; 5; 12; 7; 5];
   [11; 12; 14; 15; 14; 15; 9; 8; 9; 14; 5; 6; 8; 6; 5; 12];
   [9; 15; 5; 11; 6; 8; 13; 12; 5; 12; 13; 14; 11; 8; 5; 6]].
Definition rmd_sr : list (list N) :=
  [[8; 9; 9; 11; 13; 15; 15; 5; 7; 7; 8; 11; 14; 14; 12; 6];
   [9; 13; 15; 7; 12; 8; 9; 11; 7; 7; 12; 7; 6; 15; 13; 11];
   [9; 7; 15; 11; 8; 6; 6; 14; 12; 13; 5; 14; 13; 13; 7; 5];
   [15; 5; 8; 11; 14; 14; 6; 14; 6; 9; 12; 9; 12; 5; 15; 8];
   [8; 5; 12; 9; 12; 5; 14; 6; 8; 13; 6; 5; 15; 13; 11; 11]].
Definition rmd_kl : list N := [0; 0x5A827999; 0x6ED9EBA1; 0x8F1BBCDC; 0xA953FD4E].
Definition rmd_kr : list N := [0x50A28BE6; 0x5C4DD124; 0x6D703EF3; 0x7A6D76E9; 0].

Definition st5 : Type := (N * N * N * N * N)%type.

Definition rmd_step (X : list N) (fj : nat) (k : N) (st : st5) (rs : nat * N) : st5 :=
  let '(a, b, cc, d, e) := st in
  let '(r, s) := rs in
  let t := add32 (rotl32 s (add32 (add32 a (rmd_f fj b cc d)) (add32 (nth r X 0) k))) e in
  (e, t, b, rotl32 10 cc, d).

(* one line: five rounds of sixteen steps; the left line uses f1..f5, the right line f5..f1 *)
Definition rmd_line (X : list N) (left : bool) (st : st5) : st5 :=
  fold_left (fun st j =>
               fold_left (rmd_step X (if left then j else (4 - j)%nat) (nth j (if left then rmd_kl else rmd_kr) 0))
                         (combine (nth j (if left then rmd_rl else rmd_rr) []) (nth j (if left then rmd_sl else rmd_sr) []))
                         st)
            (seq 0 5) st.

Definition rmd_compress (h : st5) (blk : list N) : st5 :=
  let X := le_lanes 16 4 blk in
  let '(h0, h1, h2, h3, h4) := h in
  let '(a, b, cc, d, e) := rmd_line X true h in
  let '(a', b', c', d', e') := rmd_line X false h in
  (add32 (add32 h1 cc) d', add32 (add32 h2 d) e', add32 (add32 h3 e) a', add32 (add32 h4 a) b', add32 (add32 h0 b) c').

(* MD4-style padding: 0x80, zeros up to 8 bytes before a block boundary, the bit length as 8 little-endian bytes *)
Definition rmd_pad (m : list N) : list N :=
  m ++ [0x80] ++ repeat 0 ((64 - (length m + 1 + 8) mod 64) mod 64) ++ le_bytes 8 (8 * N.of_nat (length m)).

Fixpoint rmd_blocks (n : nat) (h : st5) (m : list N) : st5 :=
  match n with
  | O => h
  | S k => rmd_blocks k (rmd_compress h (firstn 64 m)) (skipn 64 m)
  end.

Definition rmd_iv : st5 := (0x67452301, 0xEFCDAB89, 0x98BADCFE, 0x10325476, 0xC3D2E1F0).

Definition ripemd160 (m : list N) : list N :=
  let p := rmd_pad m in
  let '(h0, h1, h2, h3, h4) := rmd_blocks (length p / 64) rmd_iv p in
  flat_map (le_bytes 4) [h0; h1; h2; h3; h4].

(* ------------------------------------------------------------------ through crypto_data_hash/3 *)
Inductive xalg := BLAKE2S256 | BLAKE2B512 | RIPEMD160.
Definition xalg_hash (a : xalg) : list N -> list N :=
  match a with BLAKE2S256 => blake2s256 | BLAKE2B512 => blake2b512 | RIPEMD160 => ripemd160 end.
Definition xalg_outlen (a : xalg) : nat :=
  match a with BLAKE2S256 => 32%nat | BLAKE2B512 => 64%nat | RIPEMD160 => 20%nat end.

Definition data_hashx (a : xalg) (octet : bool) (codes : list N) : option (list N) :=
  match data_bytes octet codes with
  | None => None
  | Some bs => Some (hex_encode (xalg_hash a bs))
  end.
Definition check_hashx (a : xalg) (octet : bool) (codes : list N) (out : option (list N)) : bool :=
  olist_eqb (data_hashx a octet codes) out.
