(* C37 -- proofs about the SHA-2 padding and output lengths, HMAC, and the shape of crypto_data_hash results *)
From Coq Require Import Arith NArith ZArith List Bool Lia.
From V Require Import C37.Model C37.Proofs.
Import ListNotations.
Open Scope N_scope.

(* ------------------------------------------------------------------ SHA-2: lengths and padding *)
Lemma land255_byte : forall v, N.land v 255 < 256.
Proof.
  intro v. change 255 with (N.ones 8). rewrite N.land_ones. apply N.mod_lt. discriminate.
Qed.

Lemma be_bytes_length : forall n v, length (be_bytes n v) = n.
Proof.
  induction n as [|k IH]; intro v; cbn [be_bytes].
  - reflexivity.
  - rewrite app_length, IH. cbn [length]. lia.
Qed.

Lemma be_bytes_bytes : forall n v, bytes (be_bytes n v).
Proof.
  induction n as [|k IH]; intro v; cbn [be_bytes].
  - constructor.
  - apply Forall_app. split; [apply IH | repeat constructor; apply land255_byte].
Qed.

Lemma st_bytes_length : forall c s, length (st_bytes c s) = (8 * wbytes c)%nat.
Proof.
  intros c [[[[[[[a b] cc] d] e] f] g] h]. unfold st_bytes. cbn [flat_map].
  rewrite !app_length, !be_bytes_length. cbn [length]. lia.
Qed.

Lemma st_bytes_bytes : forall c s, bytes (st_bytes c s).
Proof.
  intros c [[[[[[[a b] cc] d] e] f] g] h]. unfold st_bytes. cbn [flat_map].
  repeat (apply Forall_app; split); try apply be_bytes_bytes. constructor.
Qed.

Lemma sha2_length : forall c iv n m, (n <= 8 * wbytes c)%nat -> length (sha2 c iv n m) = n.
Proof.
  intros c iv n m H. unfold sha2. apply firstn_length_le. rewrite st_bytes_length. assumption.
Qed.

Lemma firstn_bytes : forall n l, bytes l -> bytes (firstn n l).
Proof.
  induction n as [|k IH]; intros l H; cbn [firstn].
  - constructor.
  - destruct l as [|x l']; [constructor|]. inversion H; subst. constructor; [assumption | apply IH; assumption].
Qed.

Lemma sha2_bytes : forall c iv n m, bytes (sha2 c iv n m).
Proof. intros. unfold sha2. apply firstn_bytes. apply st_bytes_bytes. Qed.

Lemma alg_hash_length : forall a m, length (alg_hash a m) = alg_outlen a.
Proof. intros [] m; apply sha2_length; cbn; lia. Qed.

Lemma alg_hash_bytes : forall a m, bytes (alg_hash a m).
Proof. intros [] m; apply sha2_bytes. Qed.

Lemma sha_pad_length : forall c m,
  length (sha_pad c m) = (length m + 1 + pad_zeros c (length m) + len_bytes c)%nat.
Proof.
  intros c m. unfold sha_pad. rewrite !app_length, repeat_length, be_bytes_length. cbn [length]. lia.
Qed.

Lemma pad_zeros_mod : forall B L n, (0 < B)%nat ->
  ((n + 1 + (B - (n + 1 + L) mod B) mod B + L) mod B = 0 /\ (B - (n + 1 + L) mod B) mod B < B)%nat.
Proof.
  intros B L n HB.
  pose proof (Nat.div_mod (n + 1 + L) B) as Hd. pose proof (Nat.mod_upper_bound (n + 1 + L) B) as Hu.
  remember ((n + 1 + L) mod B)%nat as r eqn:Er. remember ((n + 1 + L) / B)%nat as q eqn:Eq.
  specialize (Hd ltac:(lia)). specialize (Hu ltac:(lia)).
  split; [|apply Nat.mod_upper_bound; lia].
  destruct (Nat.eq_dec r 0) as [e|e].
  - rewrite e. rewrite Nat.sub_0_r. rewrite Nat.mod_same by lia.
    replace (n + 1 + 0 + L)%nat with (0 + q * B)%nat by lia. rewrite Nat.mod_add by lia. apply Nat.mod_0_l. lia.
  - rewrite (Nat.mod_small (B - r) B) by lia.
    replace (n + 1 + (B - r) + L)%nat with (0 + (q + 1) * B)%nat by lia. rewrite Nat.mod_add by lia.
    apply Nat.mod_0_l. lia.
Qed.

Lemma sha_pad_blocks : forall c m, (0 < wbytes c)%nat ->
  (length (sha_pad c m) mod block_bytes c = 0 /\
   length m + 1 + len_bytes c <= length (sha_pad c m) < length m + 1 + len_bytes c + block_bytes c)%nat.
Proof.
  intros c m Hw. rewrite sha_pad_length. unfold pad_zeros.
  assert (HB : (0 < block_bytes c)%nat) by (unfold block_bytes; lia).
  destruct (pad_zeros_mod (block_bytes c) (len_bytes c) (length m) HB) as [P1 P2].
  split; [exact P1 | lia].
Qed.

Lemma sha_pad_256_blocks : forall m,
  (length (sha_pad cfg256 m) mod 64 = 0 /\
   length m + 9 <= length (sha_pad cfg256 m) < length m + 9 + 64)%nat.
Proof.
  intro m. pose proof (sha_pad_blocks cfg256 m ltac:(cbn; lia)) as P.
  change (block_bytes cfg256) with 64%nat in P. change (len_bytes cfg256) with 8%nat in P.
  destruct P as [P1 P2]. split; [exact P1 | lia].
Qed.

Lemma sha_pad_512_blocks : forall m,
  (length (sha_pad cfg512 m) mod 128 = 0 /\
   length m + 17 <= length (sha_pad cfg512 m) < length m + 17 + 128)%nat.
Proof.
  intro m. pose proof (sha_pad_blocks cfg512 m ltac:(cbn; lia)) as P.
  change (block_bytes cfg512) with 128%nat in P. change (len_bytes cfg512) with 16%nat in P.
  destruct P as [P1 P2]. split; [exact P1 | lia].
Qed.

(* every byte of the padded message is consumed by fold_blocks: the block count times the block size is its length *)
Lemma sha_pad_whole_blocks : forall c m, (0 < wbytes c)%nat ->
  (length (sha_pad c m) / block_bytes c * block_bytes c = length (sha_pad c m))%nat.
Proof.
  intros c m Hw. destruct (sha_pad_blocks c m Hw) as [P _].
  assert (HB : (block_bytes c <> 0)%nat) by (unfold block_bytes; lia).
  pose proof (Nat.div_mod (length (sha_pad c m)) (block_bytes c) HB) as Hd. rewrite P in Hd. lia.
Qed.

(* the padded message begins with the message followed by the byte 0x80 and ends with the bit length *)
Lemma sha_pad_shape : forall c m,
  firstn (length m + 1) (sha_pad c m) = m ++ [0x80] /\
  skipn (length m + 1 + pad_zeros c (length m)) (sha_pad c m) = be_bytes (len_bytes c) (8 * N.of_nat (length m)).
Proof.
  intros c m. unfold sha_pad. split.
  - replace (length m + 1)%nat with (length (m ++ [0x80%N]) + 0)%nat by (rewrite app_length; cbn [length]; lia).
    rewrite app_assoc. rewrite firstn_app_2. cbn [firstn]. apply app_nil_r.
  - set (z := pad_zeros c (length m)). set (L := be_bytes (len_bytes c) (8 * N.of_nat (length m))).
    replace (m ++ [0x80] ++ repeat 0 z ++ L) with ((m ++ [0x80] ++ repeat 0 z) ++ L)
      by (rewrite <- !app_assoc; reflexivity).
    assert (E : length (m ++ [0x80%N] ++ repeat 0%N z) = (length m + 1 + z)%nat)
      by (rewrite !app_length, repeat_length; cbn [length]; lia).
    rewrite <- E. rewrite skipn_app, skipn_all, Nat.sub_diag. reflexivity.
Qed.

(* ------------------------------------------------------------------ HMAC *)
Section Hmac.
  Variable H : list N -> list N.
  Variable L B : nat.
  Hypothesis HL : forall m, length (H m) = L.
  Hypothesis LB : (L <= B)%nat.

  Lemma hmac_key_length : forall key, length (hmac_key H B key) = B.
  Proof.
    intro key. unfold hmac_key. destruct (Nat.ltb_spec B (length key)) as [A|A];
      rewrite app_length, repeat_length; [rewrite HL|]; lia.
  Qed.

  Lemma hmac_unfold : forall key msg,
    hmac H B key msg = H (map (N.lxor 0x5c) (hmac_key H B key) ++ H (map (N.lxor 0x36) (hmac_key H B key) ++ msg)).
  Proof. reflexivity. Qed.

  Lemma hmac_length : forall key msg, length (hmac H B key msg) = L.
  Proof. intros. rewrite hmac_unfold. apply HL. Qed.

  (* a key longer than the block is replaced by its hash *)
  Lemma hmac_long_key : forall key msg, (B < length key)%nat -> hmac H B key msg = hmac H B (H key) msg.
  Proof.
    intros key msg A. rewrite !hmac_unfold. unfold hmac_key.
    destruct (Nat.ltb_spec B (length key)) as [A1|A1]; [|lia].
    destruct (Nat.ltb_spec B (length (H key))) as [A2|A2]; [rewrite HL in A2; lia|].
    reflexivity.
  Qed.

  (* the inner and outer pads are one block each *)
  Lemma hmac_pads_block : forall key,
    length (map (N.lxor 0x5c) (hmac_key H B key)) = B /\ length (map (N.lxor 0x36) (hmac_key H B key)) = B.
  Proof. intro key. rewrite !map_length, hmac_key_length. split; reflexivity. Qed.
End Hmac.

(* ------------------------------------------------------------------ crypto_data_hash: shape of the result *)
Lemma data_hash_shape : forall a octet key codes h,
  data_hash a octet key codes = Some h ->
  length h = (2 * alg_outlen a)%nat /\ forallb is_lower_hex h = true.
Proof.
  intros a octet key codes h. unfold data_hash.
  destruct (data_bytes octet codes) as [bs|]; [|discriminate].
  destruct key as [k|].
  - destruct (alg_hmac_ok a); [|discriminate].
    intro E. inversion E; subst; clear E. rewrite hex_encode_length. split.
    + f_equal. apply (hmac_length (alg_hash a) (alg_outlen a) (alg_block a)). apply alg_hash_length.
    + apply hex_encode_lower. rewrite hmac_unfold. apply alg_hash_bytes.
  - intro E. inversion E; subst; clear E. rewrite hex_encode_length. split.
    + f_equal. apply alg_hash_length.
    + apply hex_encode_lower. apply alg_hash_bytes.
Qed.

(* ------------------------------------------------------------------ the check functions decide equality with the model *)
Lemma check_hex_enc_ok : forall bs out, check_hex_enc bs out = true <-> out = hex_encode bs.
Proof. intros. unfold check_hex_enc. rewrite list_eqb_eq. split; intro; subst; reflexivity. Qed.
Lemma check_hex_dec_ok : forall cs out, check_hex_dec cs out = true <-> out = hex_decode cs.
Proof. intros. unfold check_hex_dec. rewrite olist_eqb_eq. split; intro; subst; reflexivity. Qed.
Lemma check_b64_enc_ok : forall p u bs out, check_b64_enc p u bs out = true <-> out = b64_encode p u bs.
Proof. intros. unfold check_b64_enc. rewrite list_eqb_eq. split; intro; subst; reflexivity. Qed.
Lemma check_b64_dec_ok : forall p u cs out, check_b64_dec p u cs out = true <-> out = b64_decode p u cs.
Proof. intros. unfold check_b64_dec. rewrite olist_eqb_eq. split; intro; subst; reflexivity. Qed.
Lemma check_utf8_enc_ok : forall cps out, check_utf8_enc cps out = true <-> out = utf8_encode cps.
Proof. intros. unfold check_utf8_enc. rewrite list_eqb_eq. split; intro; subst; reflexivity. Qed.
Lemma check_utf8_dec_ok : forall bs out, check_utf8_dec bs out = true <-> out = utf8_decode bs.
Proof. intros. unfold check_utf8_dec. rewrite olist_eqb_eq. split; intro; subst; reflexivity. Qed.
Lemma check_hash_ok : forall a o k cs out, check_hash a o k cs out = true <-> out = data_hash a o k cs.
Proof. intros. unfold check_hash. rewrite olist_eqb_eq. split; intro; subst; reflexivity. Qed.
