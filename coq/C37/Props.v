(* C37 -- pinned property theorems (nothing else lives here).
   The theorems quantify over ALL byte lists / code point lists.  The `Example`s at the end are of two kinds:
   (1) non-vacuity of hypotheses, (2) published test vectors (FIPS 180-4 / NIST examples, RFC 4231, RFC 4648 section 10)
   evaluated on the reference definitions: test vectors are TESTS of the reference definitions, not theorems. *)
From Coq Require Import String Arith NArith List Bool.
From V Require Import C37.Model C37.Proofs C37.ShaProofs.
Import ListNotations.
Open Scope N_scope.

(* ---------------------------------------------------------------- hex_bytes/2 *)
(* decoding the encoder's output gives back the bytes, for every byte list *)
Theorem hex_roundtrip : forall bs, Forall (fun b => b < 256) bs -> hex_decode (hex_encode bs) = Some bs.
Proof. exact Proofs.hex_roundtrip. Qed.
Print Assumptions hex_roundtrip.

(* two characters per byte, all of them in 0-9a-f (lower case) *)
Theorem hex_encode_shape : forall bs, Forall (fun b => b < 256) bs ->
  length (hex_encode bs) = (2 * length bs)%nat /\ forallb is_lower_hex (hex_encode bs) = true.
Proof. intros bs H. split; [apply hex_encode_length | apply hex_encode_lower; exact H]. Qed.
Print Assumptions hex_encode_shape.

(* the decoder accepts exactly the encoder's outputs up to the case of a-f: whatever decodes, re-encodes to the
   lower-cased text, and the result is a list of bytes *)
Theorem hex_decode_encode : forall cs bs, hex_decode cs = Some bs ->
  hex_encode bs = map hex_lower cs /\ Forall (fun b => b < 256) bs.
Proof. intros cs bs H. destruct (hex_decode_canonical cs bs H) as [A B]. split; [symmetry; exact A | exact B]. Qed.
Print Assumptions hex_decode_encode.

(* ---------------------------------------------------------------- chars_base64/3 *)
(* all four option combinations (padding x charset), all lengths *)
Theorem base64_roundtrip : forall pad url bs, Forall (fun b => b < 256) bs ->
  b64_decode pad url (b64_encode pad url bs) = Some bs.
Proof. exact b64_roundtrip. Qed.
Print Assumptions base64_roundtrip.

(* 4*ceil(n/3) characters with padding, ceil(4n/3) without; only alphabet characters and '=' *)
Theorem base64_length : forall pad url bs,
  length (b64_encode pad url bs) = (if pad then 4 * ((length bs + 2) / 3) else (4 * length bs + 2) / 3)%nat.
Proof. exact b64_encode_length. Qed.
Print Assumptions base64_length.

Theorem base64_alphabet : forall pad url bs, Forall (fun b => b < 256) bs ->
  forallb (is_b64_char url) (b64_encode pad url bs) = true.
Proof. exact b64_encode_alphabet. Qed.
Print Assumptions base64_alphabet.

(* the strict decoder accepts exactly the canonical text: anything that decodes IS the encoding of the result *)
Theorem base64_decode_canonical : forall pad url cs bs, b64_decode pad url cs = Some bs ->
  cs = b64_encode pad url bs /\ Forall (fun b => b < 256) bs.
Proof. exact b64_decode_canonical. Qed.
Print Assumptions base64_decode_canonical.

(* ---------------------------------------------------------------- chars_utf8bytes/2 *)
(* every list of Unicode scalar values (<= 0x10FFFF, no surrogates) survives encode-then-decode *)
Theorem utf8bytes_roundtrip : forall cps, Forall valid_cp cps -> utf8_decode (utf8_encode cps) = Some cps.
Proof. exact utf8_roundtrip. Qed.
Print Assumptions utf8bytes_roundtrip.

Theorem utf8_encode_shape : forall cps, Forall valid_cp cps ->
  Forall (fun b => b < 256) (utf8_encode cps) /\ (length cps <= length (utf8_encode cps) <= 4 * length cps)%nat.
Proof. exact utf8_encode_bytes. Qed.
Print Assumptions utf8_encode_shape.

Theorem utf8_encode_one_to_one : forall a b, Forall valid_cp a -> Forall valid_cp b ->
  utf8_encode a = utf8_encode b -> a = b.
Proof. exact utf8_encode_injective. Qed.
Print Assumptions utf8_encode_one_to_one.

(* ---------------------------------------------------------------- SHA-2 / HMAC / crypto_data_hash/3 *)
(* 32, 48, 64, 32 bytes for sha256, sha384, sha512, sha512_256, whatever the message *)
Theorem sha_output_length : forall a m,
  length (alg_hash a m) = alg_outlen a /\ Forall (fun b => b < 256) (alg_hash a m).
Proof. intros a m. split; [apply alg_hash_length | apply alg_hash_bytes]. Qed.
Print Assumptions sha_output_length.

(* the padded message is a whole number of blocks, at most one block longer than necessary *)
Theorem sha_padding_block_multiple : forall m,
  (length (sha_pad cfg256 m) mod 64 = 0 /\ length m + 9 <= length (sha_pad cfg256 m) < length m + 9 + 64)%nat /\
  (length (sha_pad cfg512 m) mod 128 = 0 /\ length m + 17 <= length (sha_pad cfg512 m) < length m + 17 + 128)%nat.
Proof. intro m. split; [apply sha_pad_256_blocks | apply sha_pad_512_blocks]. Qed.
Print Assumptions sha_padding_block_multiple.

(* it starts with the message and the byte 0x80 and ends with the big-endian bit length; the block loop consumes all of it *)
Theorem sha_padding_shape : forall c m, (0 < wbytes c)%nat ->
  firstn (length m + 1) (sha_pad c m) = m ++ [0x80] /\
  skipn (length m + 1 + pad_zeros c (length m)) (sha_pad c m) = be_bytes (len_bytes c) (8 * N.of_nat (length m)) /\
  (length (sha_pad c m) / block_bytes c * block_bytes c = length (sha_pad c m))%nat.
Proof.
  intros c m H. destruct (sha_pad_shape c m) as [A B]. split; [exact A|]. split; [exact B|].
  apply sha_pad_whole_blocks. exact H.
Qed.
Print Assumptions sha_padding_shape.

(* RFC 2104 for the three HMAC algorithms of the library: the key block is exactly one block (hashed first when longer),
   HMAC = H((K xor opad) || H((K xor ipad) || text)), and the tag has the digest length *)
Theorem hmac_definition : forall a key msg,
  let K := hmac_key (alg_hash a) (alg_block a) key in
  length K = alg_block a /\
  ((alg_block a < length key)%nat -> K = alg_hash a key ++ repeat 0 (alg_block a - alg_outlen a)) /\
  ((length key <= alg_block a)%nat -> K = key ++ repeat 0 (alg_block a - length key)) /\
  hmac (alg_hash a) (alg_block a) key msg =
    alg_hash a (map (N.lxor 0x5c) K ++ alg_hash a (map (N.lxor 0x36) K ++ msg)) /\
  length (hmac (alg_hash a) (alg_block a) key msg) = alg_outlen a.
Proof.
  intros a key msg K.
  assert (LB : (alg_outlen a <= alg_block a)%nat) by (destruct a; cbn; repeat constructor).
  split; [apply (hmac_key_length (alg_hash a) (alg_outlen a) (alg_block a) (alg_hash_length a) LB)|].
  split; [intro A; unfold K, hmac_key; destruct (Nat.ltb_spec (alg_block a) (length key)) as [A1|A1];
          [rewrite alg_hash_length; reflexivity | exfalso; apply (Nat.lt_irrefl (alg_block a)); eapply Nat.lt_le_trans; eassumption]|].
  split; [intro A; unfold K, hmac_key; destruct (Nat.ltb_spec (alg_block a) (length key)) as [A1|A1];
          [exfalso; apply (Nat.lt_irrefl (alg_block a)); eapply Nat.lt_le_trans; eassumption | reflexivity]|].
  split; [reflexivity|].
  apply (hmac_length (alg_hash a) (alg_outlen a) (alg_block a) (alg_hash_length a)).
Qed.
Print Assumptions hmac_definition.

(* whatever crypto_data_hash returns in the model is 2*digest-length lower-case hex characters *)
Theorem data_hash_result_shape : forall a octet key codes h, data_hash a octet key codes = Some h ->
  length h = (2 * alg_outlen a)%nat /\ forallb is_lower_hex h = true.
Proof. exact data_hash_shape. Qed.
Print Assumptions data_hash_result_shape.

(* for ASCII text encoding(octet) and encoding(utf8) hash the same bytes *)
Theorem ascii_encoding_irrelevant : forall cs, Forall (fun c => c < 128) cs ->
  data_bytes true cs = Some cs /\ data_bytes false cs = Some cs.
Proof. exact data_bytes_ascii. Qed.
Print Assumptions ascii_encoding_irrelevant.

(* ---------------------------------------------------------------- the correspondence checks decide equality with the model *)
Theorem checks_decide_equality :
  (forall bs out, check_hex_enc bs out = true <-> out = hex_encode bs) /\
  (forall cs out, check_hex_dec cs out = true <-> out = hex_decode cs) /\
  (forall p u bs out, check_b64_enc p u bs out = true <-> out = b64_encode p u bs) /\
  (forall p u cs out, check_b64_dec p u cs out = true <-> out = b64_decode p u cs) /\
  (forall cps out, check_utf8_enc cps out = true <-> out = utf8_encode cps) /\
  (forall bs out, check_utf8_dec bs out = true <-> out = utf8_decode bs) /\
  (forall a o k cs out, check_hash a o k cs out = true <-> out = data_hash a o k cs).
Proof.
  repeat split; first [apply check_hex_enc_ok | apply check_hex_dec_ok | apply check_b64_enc_ok | apply check_b64_dec_ok
                      | apply check_utf8_enc_ok | apply check_utf8_dec_ok | apply check_hash_ok].
Qed.
Print Assumptions checks_decide_equality.

(* ================================================================ non-vacuity of the hypotheses *)
Example ex_bytes : Forall (fun b => b < 256) [0; 1; 127; 128; 255].
Proof. repeat constructor. Qed.
Example ex_valid_cps : Forall valid_cp [0; 0x7F; 0x80; 0x7FF; 0x800; 0xD7FF; 0xE000; 0xFFFF; 0x10000; 0x10FFFF].
Proof. repeat constructor; vm_compute; intros [H1 H2]; discriminate + (apply H1; reflexivity) + (apply H2; reflexivity). Qed.
Example ex_utf8_decode_lenient :   (* the lenient sides of the mirrored decoder: overlong form, truncated group, stray byte, surrogate *)
  utf8_decode [0xC0; 0x80] = Some [0] /\ utf8_decode [0xE2; 0x82] = Some [0xFFFD] /\
  utf8_decode [0x80; 0x41] = Some [0xFFFD; 0x41] /\ utf8_decode [0xED; 0xA0; 0x80] = None.
Proof. vm_compute. repeat split. Qed.
Example ex_hex_both_cases : hex_decode (codes "00fFaB") = Some [0; 255; 171] /\ hex_decode (codes "abc") = None.
Proof. vm_compute. split; reflexivity. Qed.

(* ================================================================ test vectors (tests of the reference definitions) *)
(* RFC 4648 section 10 *)
Example b64_rfc4648 :
  map (fun s => b64_encode true false (codes s)) ["" ; "f"; "fo"; "foo"; "foob"; "fooba"; "foobar"]%string =
  map codes ["" ; "Zg=="; "Zm8="; "Zm9v"; "Zm9vYg=="; "Zm9vYmE="; "Zm9vYmFy"]%string.
Proof. vm_compute. reflexivity. Qed.
Example b64_charsets :
  b64_encode true false [0xfb; 0xff] = codes "+/8=" /\ b64_encode true true [0xfb; 0xff] = codes "-_8=" /\
  b64_encode false true [0xfb; 0xff] = codes "-_8" /\ b64_decode true false (codes "Zh==") = None.
Proof. vm_compute. repeat split. Qed.
Example utf8_examples :
  utf8_encode [0x24; 0xA3; 0x20AC; 0x10348; 0x1F600] =
  [0x24; 0xC2; 0xA3; 0xE2; 0x82; 0xAC; 0xF0; 0x90; 0x8D; 0x88; 0xF0; 0x9F; 0x98; 0x80].
Proof. vm_compute. reflexivity. Qed.

(* FIPS 180-4 / NIST example messages *)
Example sha256_vectors :
  hex_encode (sha256 (codes "abc")) = codes "ba7816bf8f01cfea414140de5dae2223b00361a396177a9cb410ff61f20015ad" /\
  hex_encode (sha256 []) = codes "e3b0c44298fc1c149afbf4c8996fb92427ae41e4649b934ca495991b7852b855" /\
  hex_encode (sha256 (codes nist2)) = codes "248d6a61d20638b8e5c026930c3e6039a33ce45964ff2167f6ecedd419db06c1" /\
  hex_encode (sha256 (codes nist3)) = codes "cf5b16a778af8380036ce59e7b0492370b249b11e8f07a51afac45037afee9d1".
Proof. vm_compute. repeat split. Qed.
Example sha512_vectors :
  hex_encode (sha512 (codes "abc")) = codes "ddaf35a193617abacc417349ae20413112e6fa4e89a97ea20a9eeee64b55d39a2192992a274fc1a836ba3c23a3feebbd454d4423643ce80e2a9ac94fa54ca49f" /\
  hex_encode (sha512 []) = codes "cf83e1357eefb8bdf1542850d66d8007d620e4050b5715dc83f4a921d36ce9ce47d0d13c5d85f2b0ff8318d2877eec2f63b931bd47417a81a538327af927da3e" /\
  hex_encode (sha512 (codes nist3)) = codes "8e959b75dae313da8cf4f72814fc143f8f7779c6eb9f7fa17299aeadb6889018501d289e4900f7e4331b99dec4b5433ac7d329eeb6dd26545e96e55b874be909".
Proof. vm_compute. repeat split. Qed.
Example sha384_vectors :
  hex_encode (sha384 (codes "abc")) = codes "cb00753f45a35e8bb5a03d699ac65007272c32ab0eded1631a8b605a43ff5bed8086072ba1e7cc2358baeca134c825a7" /\
  hex_encode (sha384 (codes nist3)) = codes "09330c33f71147e83d192fc782cd1b4753111b173b3b05d22fa08086e3b0f712fcc7c71a557e2db966c3e9fa91746039".
Proof. vm_compute. repeat split. Qed.
Example sha512_256_vectors :
  hex_encode (sha512_256 (codes "abc")) = codes "53048e2681941ef99b2e29b76b4c7dabe4c2d0c634fc6d46e0e2f13107e7af23" /\
  hex_encode (sha512_256 (codes nist3)) = codes "3928e184fb8690f840da3988121d31be65cb9d3ef83ee6146feac861e19b563a".
Proof. vm_compute. repeat split. Qed.
(* FIPS 180-4 5.3.6: the SHA-512/256 initial value used by the model is the one the IV generation function produces *)
Example iv512_256_generated : iv512_t_gen name_sha512_256 = iv512_256.
Proof. vm_compute. reflexivity. Qed.

(* RFC 4231 test cases 1, 2 and 6 (key shorter than, and longer than, the block) *)
Example hmac_sha256_rfc4231 :
  hex_encode (hmac sha256 64 (repeat 0x0b 20) (codes "Hi There")) = codes "b0344c61d8db38535ca8afceaf0bf12b881dc200c9833da726e9376c2e32cff7" /\
  hex_encode (hmac sha256 64 (codes "Jefe") (codes "what do ya want for nothing?")) = codes "5bdcc146bf60754e6a042426089575c75a003f089d2739839dec58b964ec3843" /\
  hex_encode (hmac sha256 64 (repeat 0xaa 131) (codes "Test Using Larger Than Block-Size Key - Hash Key First")) = codes "60e431591ee0b67f0d8a26aacbf5b77f8e0bc6213728c5140546040f0ee37f54".
Proof. vm_compute. repeat split. Qed.
Example hmac_sha384_rfc4231 :
  hex_encode (hmac sha384 128 (repeat 0x0b 20) (codes "Hi There")) = codes "afd03944d84895626b0825f4ab46907f15f9dadbe4101ec682aa034c7cebc59cfaea9ea9076ede7f4af152e8b2fa9cb6" /\
  hex_encode (hmac sha384 128 (repeat 0xaa 131) (codes "Test Using Larger Than Block-Size Key - Hash Key First")) = codes "4ece084485813e9088d2c63a041bc5b44f9ef1012a2b588f3cd11f05033ac4c60c2ef6ab4030fe8296248df163f44952".
Proof. vm_compute. repeat split. Qed.
Example hmac_sha512_rfc4231 :
  hex_encode (hmac sha512 128 (repeat 0x0b 20) (codes "Hi There")) = codes "87aa7cdea5ef619d4ff0b4241a1d6cb02379f4e2ce4ec2787ad0b30545e17cdedaa833b7d6b8a702038b274eaea3f4e4be9d914eeb61f1702e696c203a126854" /\
  hex_encode (hmac sha512 128 (repeat 0xaa 131) (codes "Test Using Larger Than Block-Size Key - Hash Key First")) = codes "80b24263c7c1a3ebb71493c1dd7be8b49b46d1f41b4aeec1121b013783f8f3526b56d037e05f2598bd0fd2215d6a1e5295e64f73f63f0aec8b915a985d786598".
Proof. vm_compute. repeat split. Qed.
