(* C37 -- pinned property theorems (nothing else lives here).
   The theorems quantify over ALL byte lists / code point lists.  The `Example`s at the end are of two kinds:
   (1) non-vacuity of hypotheses, (2) published test vectors (FIPS 180-4 / NIST examples, RFC 4231, RFC 4648 section 10)
   evaluated on the reference definitions: test vectors are TESTS of the reference definitions, not theorems. *)
From Coq Require Import String Arith NArith List Bool.
From V Require Import C37.Model C37.Keccak C37.Chacha C37.Proofs C37.ShaProofs C37.ExtraProofs.
Import ListNotations.
Open Scope N_scope.

(* ---------------------------------------------------------------- hex_bytes/2 *)
(* decoding the encoder's output gives back the bytes, for every byte list *)
Theorem hex_roundtrip : forall bs, Forall (fun b => b < 256) bs -> hex_decode (hex_encode bs) = Some bs.
Proof. exact Proofs.hex_roundtrip. Qed.
Print Assumptions hex_roundtrip.

(* two characters per byte, all of them in 0-9a-f (lower case) *)
Theorem hex_encode_shape : forall bs, Forall (fun b => b < 256) bs ->
  length (hex_encode bs) = (2 * length bs)%nat /\ forallb is_lower_hex (hex_encode bs) = true.
Proof. intros bs H. split; [apply hex_encode_length | apply hex_encode_lower; exact H]. Qed.
Print Assumptions hex_encode_shape.

(* the decoder accepts exactly the encoder's outputs up to the case of a-f: whatever decodes, re-encodes to the
   lower-cased text, and the result is a list of bytes *)
Theorem hex_decode_encode : forall cs bs, hex_decode cs = Some bs ->
  hex_encode bs = map hex_lower cs /\ Forall (fun b => b < 256) bs.
Proof. intros cs bs H. destruct (hex_decode_canonical cs bs H) as [A B]. split; [symmetry; exact A | exact B]. Qed.
Print Assumptions hex_decode_encode.

(* ---------------------------------------------------------------- chars_base64/3 *)
(* all four option combinations (padding x charset), all lengths *)
Theorem base64_roundtrip : forall pad url bs, Forall (fun b => b < 256) bs ->
  b64_decode pad url (b64_encode pad url bs) = Some bs.
Proof. exact b64_roundtrip. Qed.
Print Assumptions base64_roundtrip.

(* 4*ceil(n/3) characters with padding, ceil(4n/3) without; only alphabet characters and '=' *)
Theorem base64_length : forall pad url bs,
  length (b64_encode pad url bs) = (if pad then 4 * ((length bs + 2) / 3) else (4 * length bs + 2) / 3)%nat.
Proof. exact b64_encode_length. Qed.
Print Assumptions base64_length.

Theorem base64_alphabet : forall pad url bs, Forall (fun b => b < 256) bs ->
  forallb (is_b64_char url) (b64_encode pad url bs) = true.
Proof. exact b64_encode_alphabet. Qed.
Print Assumptions base64_alphabet.

(* the strict decoder accepts exactly the canonical text: anything that decodes IS the encoding of the result *)
Theorem base64_decode_canonical : forall pad url cs bs, b64_decode pad url cs = Some bs ->
  cs = b64_encode pad url bs /\ Forall (fun b => b < 256) bs.
Proof. exact b64_decode_canonical. Qed.
Print Assumptions base64_decode_canonical.

(* ---------------------------------------------------------------- chars_utf8bytes/2 *)
(* every list of Unicode scalar values (<= 0x10FFFF, no surrogates) survives encode-then-decode *)
Theorem utf8bytes_roundtrip : forall cps, Forall valid_cp cps -> utf8_decode (utf8_encode cps) = Some cps.
Proof. exact utf8_roundtrip. Qed.
Print Assumptions utf8bytes_roundtrip.

Theorem utf8_encode_shape : forall cps, Forall valid_cp cps ->
  Forall (fun b => b < 256) (utf8_encode cps) /\ (length cps <= length (utf8_encode cps) <= 4 * length cps)%nat.
Proof. exact utf8_encode_bytes. Qed.
Print Assumptions utf8_encode_shape.

Theorem utf8_encode_one_to_one : forall a b, Forall valid_cp a -> Forall valid_cp b ->
  utf8_encode a = utf8_encode b -> a = b.
Proof. exact utf8_encode_injective. Qed.
Print Assumptions utf8_encode_one_to_one.

(* ---------------------------------------------------------------- SHA-2 / HMAC / crypto_data_hash/3 *)
(* 32, 48, 64, 32 bytes for sha256, sha384, sha512, sha512_256, whatever the message *)
Theorem sha_output_length : forall a m,
  length (alg_hash a m) = alg_outlen a /\ Forall (fun b => b < 256) (alg_hash a m).
Proof. intros a m. split; [apply alg_hash_length | apply alg_hash_bytes]. Qed.
Print Assumptions sha_output_length.

(* the padded message is a whole number of blocks, at most one block longer than necessary *)
Theorem sha_padding_block_multiple : forall m,
  (length (sha_pad cfg256 m) mod 64 = 0 /\ length m + 9 <= length (sha_pad cfg256 m) < length m + 9 + 64)%nat /\
  (length (sha_pad cfg512 m) mod 128 = 0 /\ length m + 17 <= length (sha_pad cfg512 m) < length m + 17 + 128)%nat.
Proof. intro m. split; [apply sha_pad_256_blocks | apply sha_pad_512_blocks]. Qed.
Print Assumptions sha_padding_block_multiple.

(* it starts with the message and the byte 0x80 and ends with the big-endian bit length; the block loop consumes all of it *)
Theorem sha_padding_shape : forall c m, (0 < wbytes c)%nat ->
  firstn (length m + 1) (sha_pad c m) = m ++ [0x80] /\
  skipn (length m + 1 + pad_zeros c (length m)) (sha_pad c m) = be_bytes (len_bytes c) (8 * N.of_nat (length m)) /\
  (length (sha_pad c m) / block_bytes c * block_bytes c = length (sha_pad c m))%nat.
Proof.
  intros c m H. destruct (sha_pad_shape c m) as [A B]. split; [exact A|]. split; [exact B|].
  apply sha_pad_whole_blocks. exact H.
Qed.
Print Assumptions sha_padding_shape.

(* RFC 2104 for the three HMAC algorithms of the library: the key block is exactly one block (hashed first when longer),
   HMAC = H((K xor opad) || H((K xor ipad) || text)), and the tag has the digest length *)
Theorem hmac_definition : forall a key msg,
  let K := hmac_key (alg_hash a) (alg_block a) key in
  length K = alg_block a /\
  ((alg_block a < length key)%nat -> K = alg_hash a key ++ repeat 0 (alg_block a - alg_outlen a)) /\
  ((length key <= alg_block a)%nat -> K = key ++ repeat 0 (alg_block a - length key)) /\
  hmac (alg_hash a) (alg_block a) key msg =
    alg_hash a (map (N.lxor 0x5c) K ++ alg_hash a (map (N.lxor 0x36) K ++ msg)) /\
  length (hmac (alg_hash a) (alg_block a) key msg) = alg_outlen a.
Proof.
  intros a key msg K.
  assert (LB : (alg_outlen a <= alg_block a)%nat) by (destruct a; cbn; repeat constructor).
  split; [apply (hmac_key_length (alg_hash a) (alg_outlen a) (alg_block a) (alg_hash_length a) LB)|].
  split; [intro A; unfold K, hmac_key; destruct (Nat.ltb_spec (alg_block a) (length key)) as [A1|A1];
          [rewrite alg_hash_length; reflexivity | exfalso; apply (Nat.lt_irrefl (alg_block a)); eapply Nat.lt_le_trans; eassumption]|].
  split; [intro A; unfold K, hmac_key; destruct (Nat.ltb_spec (alg_block a) (length key)) as [A1|A1];
          [exfalso; apply (Nat.lt_irrefl (alg_block a)); eapply Nat.lt_le_trans; eassumption | reflexivity]|].
  split; [reflexivity|].
  apply (hmac_length (alg_hash a) (alg_outlen a) (alg_block a) (alg_hash_length a)).
Qed.
Print Assumptions hmac_definition.

(* whatever crypto_data_hash returns in the model is 2*digest-length lower-case hex characters *)
Theorem data_hash_result_shape : forall a octet key codes h, data_hash a octet key codes = Some h ->
  length h = (2 * alg_outlen a)%nat /\ forallb is_lower_hex h = true.
Proof. exact data_hash_shape. Qed.
Print Assumptions data_hash_result_shape.

(* for ASCII text encoding(octet) and encoding(utf8) hash the same bytes *)
Theorem ascii_encoding_irrelevant : forall cs, Forall (fun c => c < 128) cs ->
  data_bytes true cs = Some cs /\ data_bytes false cs = Some cs.
Proof. exact data_bytes_ascii. Qed.
Print Assumptions ascii_encoding_irrelevant.

(* ---------------------------------------------------------------- the correspondence checks decide equality with the model *)
Theorem checks_decide_equality :
  (forall bs out, check_hex_enc bs out = true <-> out = hex_encode bs) /\
  (forall cs out, check_hex_dec cs out = true <-> out = hex_decode cs) /\
  (forall p u bs out, check_b64_enc p u bs out = true <-> out = b64_encode p u bs) /\
  (forall p u cs out, check_b64_dec p u cs out = true <-> out = b64_decode p u cs) /\
  (forall cps out, check_utf8_enc cps out = true <-> out = utf8_encode cps) /\
  (forall bs out, check_utf8_dec bs out = true <-> out = utf8_decode bs) /\
  (forall a o k cs out, check_hash a o k cs out = true <-> out = data_hash a o k cs).
Proof.
  repeat split; first [apply check_hex_enc_ok | apply check_hex_dec_ok | apply check_b64_enc_ok | apply check_b64_dec_ok
                      | apply check_utf8_enc_ok | apply check_utf8_dec_ok | apply check_hash_ok].
Qed.
Print Assumptions checks_decide_equality.

(* ---------------------------------------------------------------- SHA-3 (sha3_224/256/384/512) *)
Theorem sha3_output_length : forall outlen m, (outlen <= 200)%nat ->
  length (sha3 outlen m) = outlen /\ Forall (fun b => b < 256) (sha3 outlen m).
Proof. intros outlen m H. split; [apply sha3_length; exact H | apply sha3_bytes]. Qed.
Print Assumptions sha3_output_length.

(* pad10*1 fills the last block exactly: the padded message is a whole number of rate-sized blocks (rate = 144, 136,
   104, 72 bytes), between 1 and rate bytes longer than the message, begins with the message and uses the bytes
   0x06 .. 0x80 (0x86 when one byte is missing) *)
Theorem sha3_padding_block_multiple : forall rate m, (0 < rate)%nat ->
  (length (sha3_pad rate m) mod rate = 0 /\ length m < length (sha3_pad rate m) <= length m + rate)%nat /\
  firstn (length m) (sha3_pad rate m) = m /\
  (exists mid, sha3_pad rate m = m ++ [0x86] \/ sha3_pad rate m = m ++ [0x06] ++ mid ++ [0x80]).
Proof. intros rate m H. split; [apply sha3_pad_blocks; exact H | apply sha3_pad_shape]. Qed.
Print Assumptions sha3_padding_block_multiple.

Theorem data_hash3_result_shape : forall outlen octet codes h, (outlen <= 200)%nat ->
  data_hash3 outlen octet codes = Some h -> length h = (2 * outlen)%nat /\ forallb is_lower_hex h = true.
Proof. exact data_hash3_shape. Qed.
Print Assumptions data_hash3_result_shape.

(* ---------------------------------------------------------------- crypto_data_encrypt/6, crypto_data_decrypt/6 *)
(* for every key, nonce, aad and plaintext: decrypting the ciphertext with the tag gives the plaintext back; the
   ciphertext is as long as the plaintext and the tag has 16 bytes *)
Theorem aead_encrypt_decrypt : forall key nonce aad pt,
  let e := aead_encrypt key nonce aad pt in
  aead_decrypt key nonce aad (fst e) (snd e) = Some pt /\ length (fst e) = length pt /\ length (snd e) = 16%nat.
Proof. exact aead_roundtrip. Qed.
Print Assumptions aead_encrypt_decrypt.

(* the same through the encoding option of crypto_data_encrypt (octet: codes are bytes; utf8: UTF-8 bytes, which
   utf8bytes_roundtrip turns back into the characters) *)
Theorem data_encrypt_decrypt : forall octet key nonce aad plain ct tag,
  data_encrypt octet key nonce aad plain = Some (ct, tag) ->
  exists pt ad, data_bytes octet plain = Some pt /\ data_bytes octet aad = Some ad /\
                aead_decrypt key nonce ad ct tag = Some pt /\ length ct = length pt /\ length tag = 16%nat.
Proof. exact data_encrypt_roundtrip. Qed.
Print Assumptions data_encrypt_decrypt.

Theorem aead_wrong_tag_rejected : forall key nonce aad ct tag,
  tag <> poly1305 (aead_otk key nonce) (aead_mac_data aad ct) -> aead_decrypt key nonce aad ct tag = None.
Proof. exact aead_rejects_other_tags. Qed.
Print Assumptions aead_wrong_tag_rejected.

Theorem checks_decide_equality_2 :
  (forall n o cs out, check_hash3 n o cs out = true <-> out = data_hash3 n o cs) /\
  (forall o key nonce aad plain ct tag,
     check_encrypt o key nonce aad plain ct tag = true <-> data_encrypt o key nonce aad plain = Some (ct, tag)).
Proof. split; [apply check_hash3_ok | apply check_encrypt_ok]. Qed.
Print Assumptions checks_decide_equality_2.

(* ================================================================ non-vacuity of the hypotheses *)
Example ex_bytes : Forall (fun b => b < 256) [0; 1; 127; 128; 255].
Proof. repeat constructor. Qed.
Example ex_valid_cps : Forall valid_cp [0; 0x7F; 0x80; 0x7FF; 0x800; 0xD7FF; 0xE000; 0xFFFF; 0x10000; 0x10FFFF].
Proof. repeat constructor; vm_compute; intros [H1 H2]; discriminate + (apply H1; reflexivity) + (apply H2; reflexivity). Qed.
Example ex_utf8_decode_lenient :   (* the lenient sides of the mirrored decoder: overlong form, truncated group, stray byte, surrogate *)
  utf8_decode [0xC0; 0x80] = Some [0] /\ utf8_decode [0xE2; 0x82] = Some [0xFFFD] /\
  utf8_decode [0x80; 0x41] = Some [0xFFFD; 0x41] /\ utf8_decode [0xED; 0xA0; 0x80] = None.
Proof. vm_compute. repeat split. Qed.
Example ex_hex_both_cases : hex_decode (codes "00fFaB") = Some [0; 255; 171] /\ hex_decode (codes "abc") = None.
Proof. vm_compute. split; reflexivity. Qed.

(* ================================================================ test vectors (tests of the reference definitions) *)
(* RFC 4648 section 10 *)
Example b64_rfc4648 :
  map (fun s => b64_encode true false (codes s)) ["" ; "f"; "fo"; "foo"; "foob"; "fooba"; "foobar"]%string =
  map codes ["" ; "Zg=="; "Zm8="; "Zm9v"; "Zm9vYg=="; "Zm9vYmE="; "Zm9vYmFy"]%string.
Proof. vm_compute. reflexivity. Qed.
Example b64_charsets :
  b64_encode true false [0xfb; 0xff] = codes "+/8=" /\ b64_encode true true [0xfb; 0xff] = codes "-_8=" /\
  b64_encode false true [0xfb; 0xff] = codes "-_8" /\ b64_decode true false (codes "Zh==") = None.
Proof. vm_compute. repeat split. Qed.
Example utf8_examples :
  utf8_encode [0x24; 0xA3; 0x20AC; 0x10348; 0x1F600] =
  [0x24; 0xC2; 0xA3; 0xE2; 0x82; 0xAC; 0xF0; 0x90; 0x8D; 0x88; 0xF0; 0x9F; 0x98; 0x80].
Proof. vm_compute. reflexivity. Qed.

(* FIPS 180-4 / NIST example messages *)
Example sha256_vectors :
  hex_encode (sha256 (codes "abc")) = codes "ba7816bf8f01cfea414140de5dae2223b00361a396177a9cb410ff61f20015ad" /\
  hex_encode (sha256 []) = codes "e3b0c44298fc1c149afbf4c8996fb92427ae41e4649b934ca495991b7852b855" /\
  hex_encode (sha256 (codes nist2)) = codes "248d6a61d20638b8e5c026930c3e6039a33ce45964ff2167f6ecedd419db06c1" /\
  hex_encode (sha256 (codes nist3)) = codes "cf5b16a778af8380036ce59e7b0492370b249b11e8f07a51afac45037afee9d1".
Proof. vm_compute. repeat split. Qed.
Example sha512_vectors :
  hex_encode (sha512 (codes "abc")) = codes "ddaf35a193617abacc417349ae20413112e6fa4e89a97ea20a9eeee64b55d39a2192992a274fc1a836ba3c23a3feebbd454d4423643ce80e2a9ac94fa54ca49f" /\
  hex_encode (sha512 []) = codes "cf83e1357eefb8bdf1542850d66d8007d620e4050b5715dc83f4a921d36ce9ce47d0d13c5d85f2b0ff8318d2877eec2f63b931bd47417a81a538327af927da3e" /\
  hex_encode (sha512 (codes nist3)) = codes "8e959b75dae313da8cf4f72814fc143f8f7779c6eb9f7fa17299aeadb6889018501d289e4900f7e4331b99dec4b5433ac7d329eeb6dd26545e96e55b874be909".
Proof. vm_compute. repeat split. Qed.
Example sha384_vectors :
  hex_encode (sha384 (codes "abc")) = codes "cb00753f45a35e8bb5a03d699ac65007272c32ab0eded1631a8b605a43ff5bed8086072ba1e7cc2358baeca134c825a7" /\
  hex_encode (sha384 (codes nist3)) = codes "09330c33f71147e83d192fc782cd1b4753111b173b3b05d22fa08086e3b0f712fcc7c71a557e2db966c3e9fa91746039".
Proof. vm_compute. repeat split. Qed.
Example sha512_256_vectors :
  hex_encode (sha512_256 (codes "abc")) = codes "53048e2681941ef99b2e29b76b4c7dabe4c2d0c634fc6d46e0e2f13107e7af23" /\
  hex_encode (sha512_256 (codes nist3)) = codes "3928e184fb8690f840da3988121d31be65cb9d3ef83ee6146feac861e19b563a".
Proof. vm_compute. repeat split. Qed.
(* FIPS 180-4 5.3.6: the SHA-512/256 initial value used by the model is the one the IV generation function produces *)
Example iv512_256_generated : iv512_t_gen name_sha512_256 = iv512_256.
Proof. vm_compute. reflexivity. Qed.

(* RFC 4231 test cases 1, 2 and 6 (key shorter than, and longer than, the block) *)
Example hmac_sha256_rfc4231 :
  hex_encode (hmac sha256 64 (repeat 0x0b 20) (codes "Hi There")) = codes "b0344c61d8db38535ca8afceaf0bf12b881dc200c9833da726e9376c2e32cff7" /\
  hex_encode (hmac sha256 64 (codes "Jefe") (codes "what do ya want for nothing?")) = codes "5bdcc146bf60754e6a042426089575c75a003f089d2739839dec58b964ec3843" /\
  hex_encode (hmac sha256 64 (repeat 0xaa 131) (codes "Test Using Larger Than Block-Size Key - Hash Key First")) = codes "60e431591ee0b67f0d8a26aacbf5b77f8e0bc6213728c5140546040f0ee37f54".
Proof. vm_compute. repeat split. Qed.
Example hmac_sha384_rfc4231 :
  hex_encode (hmac sha384 128 (repeat 0x0b 20) (codes "Hi There")) = codes "afd03944d84895626b0825f4ab46907f15f9dadbe4101ec682aa034c7cebc59cfaea9ea9076ede7f4af152e8b2fa9cb6" /\
  hex_encode (hmac sha384 128 (repeat 0xaa 131) (codes "Test Using Larger Than Block-Size Key - Hash Key First")) = codes "4ece084485813e9088d2c63a041bc5b44f9ef1012a2b588f3cd11f05033ac4c60c2ef6ab4030fe8296248df163f44952".
Proof. vm_compute. repeat split. Qed.
Example hmac_sha512_rfc4231 :
  hex_encode (hmac sha512 128 (repeat 0x0b 20) (codes "Hi There")) = codes "87aa7cdea5ef619d4ff0b4241a1d6cb02379f4e2ce4ec2787ad0b30545e17cdedaa833b7d6b8a702038b274eaea3f4e4be9d914eeb61f1702e696c203a126854" /\
  hex_encode (hmac sha512 128 (repeat 0xaa 131) (codes "Test Using Larger Than Block-Size Key - Hash Key First")) = codes "80b24263c7c1a3ebb71493c1dd7be8b49b46d1f41b4aeec1121b013783f8f3526b56d037e05f2598bd0fd2215d6a1e5295e64f73f63f0aec8b915a985d786598".
Proof. vm_compute. repeat split. Qed.

(* FIPS 202 example values: "abc", the empty message, and the 1600-bit message 0xA3 x 200 (two or three blocks) *)
Example sha3_224_vectors :
  hex_encode (sha3_224 (codes "abc")) = codes "e642824c3f8cf24ad09234ee7d3c766fc9a3a5168d0c94ad73b46fdf" /\
  hex_encode (sha3_224 []) = codes "6b4e03423667dbb73b6e15454f0eb1abd4597f9a1b078e3f5b5a6bc7" /\
  hex_encode (sha3_224 (repeat 0xa3 200)) = codes "9376816aba503f72f96ce7eb65ac095deee3be4bf9bbc2a1cb7e11e0".
Proof. vm_compute. repeat split. Qed.
Example sha3_256_vectors :
  hex_encode (sha3_256 (codes "abc")) = codes "3a985da74fe225b2045c172d6bd390bd855f086e3e9d525b46bfe24511431532" /\
  hex_encode (sha3_256 []) = codes "a7ffc6f8bf1ed76651c14756a061d662f580ff4de43b49fa82d80a4b80f8434a" /\
  hex_encode (sha3_256 (repeat 0xa3 200)) = codes "79f38adec5c20307a98ef76e8324afbfd46cfd81b22e3973c65fa1bd9de31787".
Proof. vm_compute. repeat split. Qed.
Example sha3_384_vectors :
  hex_encode (sha3_384 (codes "abc")) = codes "ec01498288516fc926459f58e2c6ad8df9b473cb0fc08c2596da7cf0e49be4b298d88cea927ac7f539f1edf228376d25" /\
  hex_encode (sha3_384 []) = codes "0c63a75b845e4f7d01107d852e4c2485c51a50aaaa94fc61995e71bbee983a2ac3713831264adb47fb6bd1e058d5f004" /\
  hex_encode (sha3_384 (repeat 0xa3 200)) = codes "1881de2ca7e41ef95dc4732b8f5f002b189cc1e42b74168ed1732649ce1dbcdd76197a31fd55ee989f2d7050dd473e8f".
Proof. vm_compute. repeat split. Qed.
Example sha3_512_vectors :
  hex_encode (sha3_512 (codes "abc")) = codes "b751850b1a57168a5693cd924b6b096e08f621827444f70d884f5d0240d2712e10e116e9192af3c91a7ec57647e3934057340b4cf408d5a56592f8274eec53f0" /\
  hex_encode (sha3_512 []) = codes "a69f73cca23a9ac5c8b567dc185a756e97c982164fe25859e0d1dcc1475c80a615b2123af1f5f94c11e3e9402c3ac558f500199d95b6d3e301758586281dcd26" /\
  hex_encode (sha3_512 (repeat 0xa3 200)) = codes "e76dfad22084a8b1467fcf2ffa58361bec7628edf5f3fdc0e4805dc48caeeca81b7c13c30adf52a3659584739a2df46be589c51ca1a4a8416df6545a1ce8ba00".
Proof. vm_compute. repeat split. Qed.

(* RFC 8439: 2.5.2 (Poly1305), 2.8.2 (AEAD_CHACHA20_POLY1305: ciphertext and tag) *)
Example poly1305_rfc8439 :
  hex_encode (poly1305 (unhex "85d6be7857556d337f4452fe42d506a80103808afb0db2fd4abff6af4149f51b")
                       (codes "Cryptographic Forum Research Group")) = codes "a8061dc1305136c6c22b8baf0c0127a9".
Proof. vm_compute. reflexivity. Qed.
Example aead_rfc8439 :
  aead_encrypt rfc8439_key rfc8439_nonce rfc8439_aad (codes sunscreen) =
  (unhex "d31a8d34648e60db7b86afbc53ef7ec2a4aded51296e08fea9e2b5a736ee62d63dbea45e8ca9671282fafb69da92728b1a71de0a9e060b2905d6a5b67ecd3b3692ddbd7f2d778b8c9803aee328091b58fab324e4fad675945585808b4831d7bc3ff4def08e4b7a9de576d26586cec64b6116",
   unhex "1ae10b594f09e26a7e902ecbd0600691").
Proof. vm_compute. reflexivity. Qed.
