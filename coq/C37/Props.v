(* C37 -- pinned property theorems (nothing else lives here).
   The theorems quantify over ALL byte lists / code point lists.  The `Example`s at the end show that the hypotheses
   are satisfiable.  The published test vectors (FIPS 180-4 / FIPS 202 examples, RFC 4231, RFC 8439, RFC 4648 section 10)
   that validate the reference definitions are in Vectors.v: they are TESTS of the definitions, not theorems. *)
From Coq Require Import String Arith NArith List Bool.
From V Require Import C37.Model C37.Keccak C37.Chacha C37.MoreHashes C37.Proofs C37.ShaProofs C37.ExtraProofs.
Import ListNotations.
Open Scope N_scope.

(* ---------------------------------------------------------------- hex_bytes/2 *)
(* decoding the encoder's output gives back the bytes, for every byte list *)
Theorem hex_roundtrip : forall bs, Forall (fun b => b < 256) bs -> hex_decode (hex_encode bs) = Some bs.
Proof. exact Proofs.hex_roundtrip. Qed.
Print Assumptions hex_roundtrip.

(* two characters per byte, all of them in 0-9a-f (lower case) *)
Theorem hex_encode_shape : forall bs, Forall (fun b => b < 256) bs ->
  length (hex_encode bs) = (2 * length bs)%nat /\ forallb is_lower_hex (hex_encode bs) = true.
Proof. intros bs H. split; [apply hex_encode_length | apply hex_encode_lower; exact H]. Qed.
Print Assumptions hex_encode_shape.

(* the decoder accepts exactly the encoder's outputs up to the case of a-f: whatever decodes, re-encodes to the
   lower-cased text, and the result is a list of bytes *)
Theorem hex_decode_encode : forall cs bs, hex_decode cs = Some bs ->
  hex_encode bs = map hex_lower cs /\ Forall (fun b => b < 256) bs.
Proof. intros cs bs H. destruct (hex_decode_canonical cs bs H) as [A B]. split; [symmetry; exact A | exact B]. Qed.
Print Assumptions hex_decode_encode.

(* ---------------------------------------------------------------- chars_base64/3 *)
(* all four option combinations (padding x charset), all lengths *)
Theorem base64_roundtrip : forall pad url bs, Forall (fun b => b < 256) bs ->
  b64_decode pad url (b64_encode pad url bs) = Some bs.
Proof. exact b64_roundtrip. Qed.
Print Assumptions base64_roundtrip.

(* 4*ceil(n/3) characters with padding, ceil(4n/3) without; only alphabet characters and '=' *)
Theorem base64_length : forall pad url bs,
  length (b64_encode pad url bs) = (if pad then 4 * ((length bs + 2) / 3) else (4 * length bs + 2) / 3)%nat.
Proof. exact b64_encode_length. Qed.
Print Assumptions base64_length.

Theorem base64_alphabet : forall pad url bs, Forall (fun b => b < 256) bs ->
  forallb (is_b64_char url) (b64_encode pad url bs) = true.
Proof. exact b64_encode_alphabet. Qed.
Print Assumptions base64_alphabet.

(* the strict decoder accepts exactly the canonical text: anything that decodes IS the encoding of the result *)
Theorem base64_decode_canonical : forall pad url cs bs, b64_decode pad url cs = Some bs ->
  cs = b64_encode pad url bs /\ Forall (fun b => b < 256) bs.
Proof. exact b64_decode_canonical. Qed.
Print Assumptions base64_decode_canonical.

(* ---------------------------------------------------------------- chars_utf8bytes/2 *)
(* every list of Unicode scalar values (<= 0x10FFFF, no surrogates) survives encode-then-decode *)
Theorem utf8bytes_roundtrip : forall cps, Forall valid_cp cps -> utf8_decode (utf8_encode cps) = Some cps.
Proof. exact utf8_roundtrip. Qed.
Print Assumptions utf8bytes_roundtrip.

Theorem utf8_encode_shape : forall cps, Forall valid_cp cps ->
  Forall (fun b => b < 256) (utf8_encode cps) /\ (length cps <= length (utf8_encode cps) <= 4 * length cps)%nat.
Proof. exact utf8_encode_bytes. Qed.
Print Assumptions utf8_encode_shape.

Theorem utf8_encode_one_to_one : forall a b, Forall valid_cp a -> Forall valid_cp b ->
  utf8_encode a = utf8_encode b -> a = b.
Proof. exact utf8_encode_injective. Qed.
Print Assumptions utf8_encode_one_to_one.

(* ---------------------------------------------------------------- SHA-2 / HMAC / crypto_data_hash/3 *)
(* 32, 48, 64, 32 bytes for sha256, sha384, sha512, sha512_256, whatever the message *)
Theorem sha_output_length : forall a m,
  length (alg_hash a m) = alg_outlen a /\ Forall (fun b => b < 256) (alg_hash a m).
Proof. intros a m. split; [apply alg_hash_length | apply alg_hash_bytes]. Qed.
Print Assumptions sha_output_length.

(* the padded message is a whole number of blocks, at most one block longer than necessary *)
Theorem sha_padding_block_multiple : forall m,
  (length (sha_pad cfg256 m) mod 64 = 0 /\ length m + 9 <= length (sha_pad cfg256 m) < length m + 9 + 64)%nat /\
  (length (sha_pad cfg512 m) mod 128 = 0 /\ length m + 17 <= length (sha_pad cfg512 m) < length m + 17 + 128)%nat.
Proof. intro m. split; [apply sha_pad_256_blocks | apply sha_pad_512_blocks]. Qed.
Print Assumptions sha_padding_block_multiple.

(* it starts with the message and the byte 0x80 and ends with the big-endian bit length; the block loop consumes all of it *)
Theorem sha_padding_shape : forall c m, (0 < wbytes c)%nat ->
  firstn (length m + 1) (sha_pad c m) = m ++ [0x80] /\
  skipn (length m + 1 + pad_zeros c (length m)) (sha_pad c m) = be_bytes (len_bytes c) (8 * N.of_nat (length m)) /\
  (length (sha_pad c m) / block_bytes c * block_bytes c = length (sha_pad c m))%nat.
Proof.
  intros c m H. destruct (sha_pad_shape c m) as [A B]. split; [exact A|]. split; [exact B|].
  apply sha_pad_whole_blocks. exact H.
Qed.
Print Assumptions sha_padding_shape.

(* RFC 2104 for the three HMAC algorithms of the library: the key block is exactly one block (hashed first when longer),
   HMAC = H((K xor opad) || H((K xor ipad) || text)), and the tag has the digest length *)
Theorem hmac_definition : forall a key msg,
  let K := hmac_key (alg_hash a) (alg_block a) key in
  length K = alg_block a /\
  ((alg_block a < length key)%nat -> K = alg_hash a key ++ repeat 0 (alg_block a - alg_outlen a)) /\
  ((length key <= alg_block a)%nat -> K = key ++ repeat 0 (alg_block a - length key)) /\
  hmac (alg_hash a) (alg_block a) key msg =
    alg_hash a (map (N.lxor 0x5c) K ++ alg_hash a (map (N.lxor 0x36) K ++ msg)) /\
  length (hmac (alg_hash a) (alg_block a) key msg) = alg_outlen a.
Proof.
  intros a key msg K.
  assert (LB : (alg_outlen a <= alg_block a)%nat) by (destruct a; cbn; repeat constructor).
  split; [apply (hmac_key_length (alg_hash a) (alg_outlen a) (alg_block a) (alg_hash_length a) LB)|].
  split; [intro A; unfold K, hmac_key; destruct (Nat.ltb_spec (alg_block a) (length key)) as [A1|A1];
          [rewrite alg_hash_length; reflexivity | exfalso; apply (Nat.lt_irrefl (alg_block a)); eapply Nat.lt_le_trans; eassumption]|].
  split; [intro A; unfold K, hmac_key; destruct (Nat.ltb_spec (alg_block a) (length key)) as [A1|A1];
          [exfalso; apply (Nat.lt_irrefl (alg_block a)); eapply Nat.lt_le_trans; eassumption | reflexivity]|].
  split; [reflexivity|].
  apply (hmac_length (alg_hash a) (alg_outlen a) (alg_block a) (alg_hash_length a)).
Qed.
Print Assumptions hmac_definition.

(* whatever crypto_data_hash returns in the model is 2*digest-length lower-case hex characters *)
Theorem data_hash_result_shape : forall a octet key codes h, data_hash a octet key codes = Some h ->
  length h = (2 * alg_outlen a)%nat /\ forallb is_lower_hex h = true.
Proof. exact data_hash_shape. Qed.
Print Assumptions data_hash_result_shape.

(* for ASCII text encoding(octet) and encoding(utf8) hash the same bytes *)
Theorem ascii_encoding_irrelevant : forall cs, Forall (fun c => c < 128) cs ->
  data_bytes true cs = Some cs /\ data_bytes false cs = Some cs.
Proof. exact data_bytes_ascii. Qed.
Print Assumptions ascii_encoding_irrelevant.

(* ---------------------------------------------------------------- the correspondence checks decide equality with the model *)
Theorem checks_decide_equality :
  (forall bs out, check_hex_enc bs out = true <-> out = hex_encode bs) /\
  (forall cs out, check_hex_dec cs out = true <-> out = hex_decode cs) /\
  (forall p u bs out, check_b64_enc p u bs out = true <-> out = b64_encode p u bs) /\
  (forall p u cs out, check_b64_dec p u cs out = true <-> out = b64_decode p u cs) /\
  (forall cps out, check_utf8_enc cps out = true <-> out = utf8_encode cps) /\
  (forall bs out, check_utf8_dec bs out = true <-> out = utf8_decode bs) /\
  (forall a o k cs out, check_hash a o k cs out = true <-> out = data_hash a o k cs).
Proof.
  repeat split; first [apply check_hex_enc_ok | apply check_hex_dec_ok | apply check_b64_enc_ok | apply check_b64_dec_ok
                      | apply check_utf8_enc_ok | apply check_utf8_dec_ok | apply check_hash_ok].
Qed.
Print Assumptions checks_decide_equality.

(* ---------------------------------------------------------------- SHA-3 (sha3_224/256/384/512) *)
Theorem sha3_output_length : forall outlen m, (outlen <= 200)%nat ->
  length (sha3 outlen m) = outlen /\ Forall (fun b => b < 256) (sha3 outlen m).
Proof. intros outlen m H. split; [apply sha3_length; exact H | apply sha3_bytes]. Qed.
Print Assumptions sha3_output_length.

(* pad10*1 fills the last block exactly: the padded message is a whole number of rate-sized blocks (rate = 144, 136,
   104, 72 bytes), between 1 and rate bytes longer than the message, begins with the message and uses the bytes
   0x06 .. 0x80 (0x86 when one byte is missing) *)
Theorem sha3_padding_block_multiple : forall rate m, (0 < rate)%nat ->
  (length (sha3_pad rate m) mod rate = 0 /\ length m < length (sha3_pad rate m) <= length m + rate)%nat /\
  firstn (length m) (sha3_pad rate m) = m /\
  (exists mid, sha3_pad rate m = m ++ [0x86] \/ sha3_pad rate m = m ++ [0x06] ++ mid ++ [0x80]).
Proof. intros rate m H. split; [apply sha3_pad_blocks; exact H | apply sha3_pad_shape]. Qed.
Print Assumptions sha3_padding_block_multiple.

Theorem data_hash3_result_shape : forall outlen octet codes h, (outlen <= 200)%nat ->
  data_hash3 outlen octet codes = Some h -> length h = (2 * outlen)%nat /\ forallb is_lower_hex h = true.
Proof. exact data_hash3_shape. Qed.
Print Assumptions data_hash3_result_shape.

(* ---------------------------------------------------------------- blake2s256, blake2b512, ripemd160 *)
(* 32, 64, 20 bytes whatever the message; the hex text has twice as many lower-case hex characters *)
Theorem other_hash_output_length : forall a m,
  length (xalg_hash a m) = xalg_outlen a /\ Forall (fun b => b < 256) (xalg_hash a m).
Proof. intros a m. split; [apply xalg_hash_length | apply xalg_hash_bytes]. Qed.
Print Assumptions other_hash_output_length.

Theorem data_hashx_result_shape : forall a octet codes h,
  data_hashx a octet codes = Some h -> length h = (2 * xalg_outlen a)%nat /\ forallb is_lower_hex h = true.
Proof. exact data_hashx_shape. Qed.
Print Assumptions data_hashx_result_shape.

(* RIPEMD-160's MD4-style padding: whole 64-byte blocks, at most one block more than needed, message then 0x80 first *)
Theorem ripemd_padding_block_multiple : forall m,
  (length (rmd_pad m) mod 64 = 0 /\ length m + 9 <= length (rmd_pad m) < length m + 9 + 64)%nat /\
  firstn (length m + 1) (rmd_pad m) = m ++ [0x80].
Proof. exact rmd_pad_blocks. Qed.
Print Assumptions ripemd_padding_block_multiple.

(* ---------------------------------------------------------------- crypto_data_encrypt/6, crypto_data_decrypt/6 *)
(* for every key, nonce, aad and plaintext: decrypting the ciphertext with the tag gives the plaintext back; the
   ciphertext is as long as the plaintext and the tag has 16 bytes *)
Theorem aead_encrypt_decrypt : forall key nonce aad pt,
  let e := aead_encrypt key nonce aad pt in
  aead_decrypt key nonce aad (fst e) (snd e) = Some pt /\ length (fst e) = length pt /\ length (snd e) = 16%nat.
Proof. exact aead_roundtrip. Qed.
Print Assumptions aead_encrypt_decrypt.

(* the same through the encoding option of crypto_data_encrypt (octet: codes are bytes; utf8: UTF-8 bytes, which
   utf8bytes_roundtrip turns back into the characters) *)
Theorem data_encrypt_decrypt : forall octet key nonce aad plain ct tag,
  data_encrypt octet key nonce aad plain = Some (ct, tag) ->
  exists pt ad, data_bytes octet plain = Some pt /\ data_bytes octet aad = Some ad /\
                aead_decrypt key nonce ad ct tag = Some pt /\ length ct = length pt /\ length tag = 16%nat.
Proof. exact data_encrypt_roundtrip. Qed.
Print Assumptions data_encrypt_decrypt.

Theorem aead_wrong_tag_rejected : forall key nonce aad ct tag,
  tag <> poly1305 (aead_otk key nonce) (aead_mac_data aad ct) -> aead_decrypt key nonce aad ct tag = None.
Proof. exact aead_rejects_other_tags. Qed.
Print Assumptions aead_wrong_tag_rejected.

Theorem checks_decide_equality_2 :
  (forall n o cs out, check_hash3 n o cs out = true <-> out = data_hash3 n o cs) /\
  (forall a o cs out, check_hashx a o cs out = true <-> out = data_hashx a o cs) /\
  (forall o key nonce aad plain ct tag,
     check_encrypt o key nonce aad plain ct tag = true <-> data_encrypt o key nonce aad plain = Some (ct, tag)).
Proof. split; [apply check_hash3_ok | split; [apply check_hashx_ok | apply check_encrypt_ok]]. Qed.
Print Assumptions checks_decide_equality_2.

(* ================================================================ non-vacuity of the hypotheses *)
Example ex_bytes : Forall (fun b => b < 256) [0; 1; 127; 128; 255].
Proof. repeat constructor. Qed.
Example ex_valid_cps : Forall valid_cp [0; 0x7F; 0x80; 0x7FF; 0x800; 0xD7FF; 0xE000; 0xFFFF; 0x10000; 0x10FFFF].
Proof. repeat constructor; vm_compute; intros [H1 H2]; discriminate + (apply H1; reflexivity) + (apply H2; reflexivity). Qed.
Example ex_utf8_decode_lenient :   (* the lenient sides of the mirrored decoder: overlong form, truncated group, stray byte, surrogate *)
  utf8_decode [0xC0; 0x80] = Some [0] /\ utf8_decode [0xE2; 0x82] = Some [0xFFFD] /\
  utf8_decode [0x80; 0x41] = Some [0xFFFD; 0x41] /\ utf8_decode [0xED; 0xA0; 0x80] = None.
Proof. vm_compute. repeat split. Qed.
Example ex_hex_both_cases : hex_decode (codes "00fFaB") = Some [0; 255; 171] /\ hex_decode (codes "abc") = None.
Proof. vm_compute. split; reflexivity. Qed.

