(* C37 -- proofs about the model of hex, Base64, UTF-8, SHA-2 padding/lengths and HMAC *)
From Coq Require Import Arith NArith ZArith List Bool Lia.
From V Require Import C37.Model.
Import ListNotations.
Open Scope N_scope.

Ltac Zify.zify_post_hook ::= Z.to_euclidean_division_equations.

(* ------------------------------------------------------------------ induction in steps of 2, 3, 4 *)
Lemma list_ind2 (A : Type) (P : list A -> Prop) :
  P [] -> (forall x, P [x]) -> (forall x y l, P l -> P (x :: y :: l)) -> forall l, P l.
Proof.
  intros H0 H1 H2.
  fix go 1. intros [|x [|y l]].
  - exact H0.
  - apply H1.
  - apply H2. apply go.
Qed.

Lemma list_ind3 (A : Type) (P : list A -> Prop) :
  P [] -> (forall x, P [x]) -> (forall x y, P [x; y]) ->
  (forall x y z l, P l -> P (x :: y :: z :: l)) -> forall l, P l.
Proof.
  intros H0 H1 H2 H3.
  fix go 1. intros [|x [|y [|z l]]].
  - exact H0.
  - apply H1.
  - apply H2.
  - apply H3. apply go.
Qed.

Lemma list_ind4 (A : Type) (P : list A -> Prop) :
  P [] -> (forall x, P [x]) -> (forall x y, P [x; y]) -> (forall x y z, P [x; y; z]) ->
  (forall x y z w l, P l -> P (x :: y :: z :: w :: l)) -> forall l, P l.
Proof.
  intros H0 H1 H2 H3 H4.
  fix go 1. intros [|x [|y [|z [|w l]]]].
  - exact H0.
  - apply H1.
  - apply H2.
  - apply H3.
  - apply H4. apply go.
Qed.

(* ------------------------------------------------------------------ output comparison is equality *)
Lemma list_eqb_eq : forall a b, list_eqb a b = true <-> a = b.
Proof.
  induction a as [|x a IH]; intros [|y b]; cbn [list_eqb]; split; intro H; try reflexivity; try discriminate.
  - apply andb_true_iff in H. destruct H as [H1 H2]. apply N.eqb_eq in H1. apply IH in H2. subst. reflexivity.
  - inversion H; subst. rewrite N.eqb_refl. cbn [andb]. apply IH. reflexivity.
Qed.

Lemma olist_eqb_eq : forall a b, olist_eqb a b = true <-> a = b.
Proof.
  intros [a|] [b|]; cbn [olist_eqb]; split; intro H; try reflexivity; try discriminate.
  - apply list_eqb_eq in H. subst. reflexivity.
  - inversion H; subst. apply list_eqb_eq. reflexivity.
Qed.

Definition bytes (bs : list N) : Prop := Forall (fun b => b < 256) bs.

(* ------------------------------------------------------------------ hex *)
Lemma hexval_hexchar : forall v, v < 16 -> hexval (hexchar v) = Some v.
Proof.
  intros v Hv. unfold hexchar.
  destruct (N.ltb_spec v 10) as [H|H]; unfold hexval.
  - replace ((48 <=? 48 + v) && (48 + v <=? 57)) with true.
    + f_equal. lia.
    + symmetry. apply andb_true_iff. split; apply N.leb_le; lia.
  - replace ((48 <=? 87 + v) && (87 + v <=? 57)) with false.
    + replace ((97 <=? 87 + v) && (87 + v <=? 102)) with true.
      * f_equal. lia.
      * symmetry. apply andb_true_iff. split; apply N.leb_le; lia.
    + symmetry. apply andb_false_iff. right. apply N.leb_gt. lia.
Qed.

Lemma hex_roundtrip : forall bs, bytes bs -> hex_decode (hex_encode bs) = Some bs.
Proof.
  induction bs as [|b r IH]; intro Hb.
  - reflexivity.
  - inversion Hb as [|b' r' Hb1 Hb2]; subst.
    cbn [hex_encode hex_decode].
    rewrite hexval_hexchar by lia. rewrite hexval_hexchar by lia.
    rewrite IH by assumption. f_equal. f_equal. lia.
Qed.

Lemma hex_encode_length : forall bs, length (hex_encode bs) = (2 * length bs)%nat.
Proof.
  induction bs as [|b r IH]; cbn [hex_encode length]; [reflexivity | rewrite IH; lia].
Qed.

Lemma hexchar_lower : forall v, v < 16 -> is_lower_hex (hexchar v) = true.
Proof.
  intros v Hv. unfold hexchar, is_lower_hex.
  destruct (N.ltb_spec v 10) as [H|H]; apply orb_true_iff; [left|right];
    apply andb_true_iff; split; apply N.leb_le; lia.
Qed.

Lemma hex_encode_lower : forall bs, bytes bs -> forallb is_lower_hex (hex_encode bs) = true.
Proof.
  induction bs as [|b r IH]; intro Hb.
  - reflexivity.
  - inversion Hb as [|b' r' Hb1 Hb2]; subst.
    cbn [hex_encode forallb].
    rewrite hexchar_lower by lia. rewrite hexchar_lower by lia. rewrite IH by assumption. reflexivity.
Qed.

Lemma hexval_inv : forall c v, hexval c = Some v -> v < 16 /\ hexchar v = hex_lower c.
Proof.
  intros c v. unfold hexval, hex_lower, hexchar.
  destruct (N.leb_spec 48 c) as [A1|A1]; destruct (N.leb_spec c 57) as [A2|A2];
  destruct (N.leb_spec 97 c) as [A3|A3]; destruct (N.leb_spec c 102) as [A4|A4];
  destruct (N.leb_spec 65 c) as [A5|A5]; destruct (N.leb_spec c 70) as [A6|A6];
  cbn [andb]; intro H; inversion H; subst; clear H; try lia;
  (split; [lia|]);
  match goal with |- context [N.ltb ?a ?b] => destruct (N.ltb_spec a b) end; lia.
Qed.

Lemma hex_decode_canonical : forall cs bs,
  hex_decode cs = Some bs -> map hex_lower cs = hex_encode bs /\ bytes bs.
Proof.
  intro cs. induction cs as [|x|x y l IH] using list_ind2; intros bs H.
  - inversion H. split; [reflexivity | constructor].
  - discriminate.
  - cbn [hex_decode] in H.
    destruct (hexval x) as [h|] eqn:Hx; [|discriminate].
    destruct (hexval y) as [lo|] eqn:Hy; [|discriminate].
    destruct (hex_decode l) as [bs'|] eqn:Hl; [|discriminate].
    inversion H; subst; clear H.
    apply hexval_inv in Hx. apply hexval_inv in Hy. destruct Hx as [Hx1 Hx2]. destruct Hy as [Hy1 Hy2].
    destruct (IH bs' eq_refl) as [IH1 IH2].
    split.
    + cbn [map hex_encode]. rewrite IH1.
      replace ((h * 16 + lo) / 16) with h by lia.
      replace ((h * 16 + lo) mod 16) with lo by lia.
      rewrite Hx2, Hy2. reflexivity.
    + constructor; [lia | assumption].
Qed.

(* ------------------------------------------------------------------ Base64 *)
Lemma b64val_b64char : forall url v, v < 64 -> b64val url (b64char url v) = Some v.
Proof.
  intros url v Hv. unfold b64char.
  destruct (N.ltb_spec v 26) as [H1|H1]; [|destruct (N.ltb_spec v 52) as [H2|H2];
    [|destruct (N.ltb_spec v 62) as [H3|H3]; [|destruct (N.eqb_spec v 62) as [H4|H4]]]]; unfold b64val.
  - replace ((65 <=? 65 + v) && (65 + v <=? 90)) with true.
    + f_equal. lia.
    + symmetry. apply andb_true_iff. split; apply N.leb_le; lia.
  - replace ((65 <=? 71 + v) && (71 + v <=? 90)) with false
      by (symmetry; apply andb_false_iff; right; apply N.leb_gt; lia).
    replace ((97 <=? 71 + v) && (71 + v <=? 122)) with true
      by (symmetry; apply andb_true_iff; split; apply N.leb_le; lia).
    f_equal. lia.
  - replace ((65 <=? v - 4) && (v - 4 <=? 90)) with false
      by (symmetry; apply andb_false_iff; left; apply N.leb_gt; lia).
    replace ((97 <=? v - 4) && (v - 4 <=? 122)) with false
      by (symmetry; apply andb_false_iff; left; apply N.leb_gt; lia).
    replace ((48 <=? v - 4) && (v - 4 <=? 57)) with true
      by (symmetry; apply andb_true_iff; split; apply N.leb_le; lia).
    f_equal. lia.
  - subst v. destruct url; reflexivity.
  - assert (v = 63) by lia. subst v. destruct url; reflexivity.
Qed.

Lemma b64val_pad : forall url, b64val url pad_char = None.
Proof. destruct url; reflexivity. Qed.

Lemma b64val_inv : forall url c v, b64val url c = Some v -> v < 64 /\ c = b64char url v.
Proof.
  intros url c v. unfold b64val.
  destruct (N.leb_spec 65 c) as [A1|A1]; destruct (N.leb_spec c 90) as [A2|A2];
  destruct (N.leb_spec 97 c) as [A3|A3]; destruct (N.leb_spec c 122) as [A4|A4];
  destruct (N.leb_spec 48 c) as [A5|A5]; destruct (N.leb_spec c 57) as [A6|A6];
  cbn [andb]; try lia.
  all: try (intro H; inversion H; subst; clear H; split; [lia|]; unfold b64char;
            repeat match goal with |- context [N.ltb ?a ?b] => destruct (N.ltb_spec a b); try lia end; lia).
  all: destruct url;
    repeat match goal with |- context [N.eqb ?a ?b] => destruct (N.eqb_spec a b) end;
    intro H; inversion H; subst; split; try lia; reflexivity.
Qed.

Lemma b64_roundtrip : forall pad url bs, bytes bs -> b64_decode pad url (b64_encode pad url bs) = Some bs.
Proof.
  intros pad url bs. induction bs as [|b1|b1 b2|b1 b2 b3 r IH] using list_ind3; intro Hb.
  - reflexivity.
  - inversion Hb as [|? ? Hb1 _]; subst.
    assert (E2 : b64_tail2 url (b64char url (b1 / 4)) (b64char url (b1 mod 4 * 16)) = Some [b1]).
    { unfold b64_tail2. rewrite !b64val_b64char by lia.
      replace (b1 mod 4 * 16 mod 16 =? 0) with true by (symmetry; apply N.eqb_eq; lia).
      f_equal. f_equal. lia. }
    cbn [b64_encode]. destruct pad.
    + cbn [b64_decode]. unfold b64_quad. rewrite !b64val_b64char by lia. rewrite b64val_pad.
      rewrite N.eqb_refl. exact E2.
    + cbn [b64_decode]. exact E2.
  - inversion Hb as [|? ? Hb1 Hb']; subst. inversion Hb' as [|? ? Hb2 _]; subst.
    assert (E3 : b64_tail3 url (b64char url (b1 / 4)) (b64char url (b1 mod 4 * 16 + b2 / 16))
                   (b64char url (b2 mod 16 * 4)) = Some [b1; b2]).
    { unfold b64_tail3. rewrite !b64val_b64char by lia.
      replace (b2 mod 16 * 4 mod 4 =? 0) with true by (symmetry; apply N.eqb_eq; lia).
      f_equal. f_equal; [lia | f_equal; lia]. }
    cbn [b64_encode]. destruct pad.
    + cbn [b64_decode]. unfold b64_quad. rewrite !b64val_b64char by lia. rewrite b64val_pad.
      rewrite N.eqb_refl.
      replace (b64char url (b2 mod 16 * 4) =? pad_char) with false.
      * exact E3.
      * symmetry. apply N.eqb_neq. intro E.
        pose proof (b64val_b64char url (b2 mod 16 * 4)) as Hq. rewrite E, b64val_pad in Hq.
        assert (b2 mod 16 * 4 < 64) as Hlt by lia. specialize (Hq Hlt). discriminate.
    + cbn [b64_decode]. exact E3.
  - inversion Hb as [|? ? Hb1 Hb']; subst. inversion Hb' as [|? ? Hb2 Hb'']; subst.
    inversion Hb'' as [|? ? Hb3 Hr]; subst.
    cbn [b64_encode b64_decode]. unfold b64_quad. rewrite !b64val_b64char by lia.
    rewrite IH by assumption. cbn [app]. f_equal. f_equal; [lia|]. f_equal; [lia|]. f_equal. lia.
Qed.

Lemma b64_encode_length : forall pad url bs, length (b64_encode pad url bs) = b64_len pad (length bs).
Proof.
  intros pad url bs. induction bs as [|b1|b1 b2|b1 b2 b3 r IH] using list_ind3.
  - destruct pad; reflexivity.
  - destruct pad; reflexivity.
  - destruct pad; reflexivity.
  - cbn [b64_encode length]. rewrite IH. unfold b64_len. destruct pad.
    + replace (S (S (S (length r))) + 2)%nat with ((length r + 2) + 1 * 3)%nat by lia.
      rewrite Nat.div_add by lia. lia.
    + replace (4 * S (S (S (length r))) + 2)%nat with ((4 * length r + 2) + 4 * 3)%nat by lia.
      rewrite Nat.div_add by lia. lia.
Qed.

Lemma b64char_alphabet : forall url v, v < 64 -> is_b64_char url (b64char url v) = true.
Proof. intros url v Hv. unfold is_b64_char. rewrite b64val_b64char by assumption. reflexivity. Qed.

Lemma b64_encode_alphabet : forall pad url bs, bytes bs -> forallb (is_b64_char url) (b64_encode pad url bs) = true.
Proof.
  intros pad url bs. induction bs as [|b1|b1 b2|b1 b2 b3 r IH] using list_ind3; intro Hb.
  - reflexivity.
  - inversion Hb as [|? ? Hb1 _]; subst. cbn [b64_encode forallb].
    rewrite !b64char_alphabet by lia. destruct pad; destruct url; reflexivity.
  - inversion Hb as [|? ? Hb1 Hb']; subst. inversion Hb' as [|? ? Hb2 _]; subst. cbn [b64_encode forallb].
    rewrite !b64char_alphabet by lia. destruct pad; destruct url; reflexivity.
  - inversion Hb as [|? ? Hb1 Hb']; subst. inversion Hb' as [|? ? Hb2 Hb'']; subst.
    inversion Hb'' as [|? ? Hb3 Hr]; subst.
    cbn [b64_encode forallb]. rewrite !b64char_alphabet by lia. rewrite IH by assumption. reflexivity.
Qed.

Lemma b64_tail2_inv : forall url c1 c2 bs, b64_tail2 url c1 c2 = Some bs ->
  exists b1, bs = [b1] /\ b1 < 256 /\ c1 = b64char url (b1 / 4) /\ c2 = b64char url (b1 mod 4 * 16).
Proof.
  intros url c1 c2 bs. unfold b64_tail2.
  destruct (b64val url c1) as [v1|] eqn:E1; [|discriminate].
  destruct (b64val url c2) as [v2|] eqn:E2; [|discriminate].
  destruct (N.eqb_spec (v2 mod 16) 0) as [Hz|Hz]; [|discriminate].
  intro H. inversion H; subst; clear H.
  apply b64val_inv in E1. apply b64val_inv in E2. destruct E1 as [L1 E1]. destruct E2 as [L2 E2].
  exists (v1 * 4 + v2 / 16). split; [reflexivity|]. split; [lia|]. subst c1 c2. split; f_equal; lia.
Qed.

Lemma b64_tail3_inv : forall url c1 c2 c3 bs, b64_tail3 url c1 c2 c3 = Some bs ->
  exists b1 b2, bs = [b1; b2] /\ b1 < 256 /\ b2 < 256 /\ c1 = b64char url (b1 / 4) /\
                c2 = b64char url (b1 mod 4 * 16 + b2 / 16) /\ c3 = b64char url (b2 mod 16 * 4).
Proof.
  intros url c1 c2 c3 bs. unfold b64_tail3.
  destruct (b64val url c1) as [v1|] eqn:E1; [|discriminate].
  destruct (b64val url c2) as [v2|] eqn:E2; [|discriminate].
  destruct (b64val url c3) as [v3|] eqn:E3; [|discriminate].
  destruct (N.eqb_spec (v3 mod 4) 0) as [Hz|Hz]; [|discriminate].
  intro H. inversion H; subst; clear H.
  apply b64val_inv in E1. apply b64val_inv in E2. apply b64val_inv in E3.
  destruct E1 as [L1 E1]. destruct E2 as [L2 E2]. destruct E3 as [L3 E3].
  exists (v1 * 4 + v2 / 16), (v2 mod 16 * 16 + v3 / 4).
  split; [reflexivity|]. split; [lia|]. split; [lia|]. subst c1 c2 c3.
  split; [f_equal; lia|]. split; f_equal; lia.
Qed.

Lemma b64_quad_inv : forall url c1 c2 c3 c4 g, b64_quad url c1 c2 c3 c4 = Some g ->
  exists b1 b2 b3, g = [b1; b2; b3] /\ b1 < 256 /\ b2 < 256 /\ b3 < 256 /\
    c1 = b64char url (b1 / 4) /\ c2 = b64char url (b1 mod 4 * 16 + b2 / 16) /\
    c3 = b64char url (b2 mod 16 * 4 + b3 / 64) /\ c4 = b64char url (b3 mod 64).
Proof.
  intros url c1 c2 c3 c4 g. unfold b64_quad.
  destruct (b64val url c1) as [v1|] eqn:E1; [|discriminate].
  destruct (b64val url c2) as [v2|] eqn:E2; [|discriminate].
  destruct (b64val url c3) as [v3|] eqn:E3; [|discriminate].
  destruct (b64val url c4) as [v4|] eqn:E4; [|discriminate].
  intro H. inversion H; subst; clear H.
  apply b64val_inv in E1. apply b64val_inv in E2. apply b64val_inv in E3. apply b64val_inv in E4.
  destruct E1 as [L1 E1]. destruct E2 as [L2 E2]. destruct E3 as [L3 E3]. destruct E4 as [L4 E4].
  exists (v1 * 4 + v2 / 16), (v2 mod 16 * 16 + v3 / 4), (v3 mod 4 * 64 + v4).
  split; [reflexivity|]. split; [lia|]. split; [lia|]. split; [lia|]. subst c1 c2 c3 c4.
  split; [f_equal; lia|]. split; [f_equal; lia|]. split; f_equal; lia.
Qed.

Lemma b64_decode_canonical : forall pad url cs bs,
  b64_decode pad url cs = Some bs -> cs = b64_encode pad url bs /\ bytes bs.
Proof.
  intros pad url cs. induction cs as [|x|x y|x y z|x y z w l IH] using list_ind4; intros bs H.
  - inversion H. split; [reflexivity | constructor].
  - discriminate.
  - cbn [b64_decode] in H. destruct pad; [discriminate|].
    apply b64_tail2_inv in H. destruct H as [b1 [E [L [E1 E2]]]]. subst.
    split; [reflexivity | repeat constructor; assumption].
  - cbn [b64_decode] in H. destruct pad; [discriminate|].
    apply b64_tail3_inv in H. destruct H as [b1 [b2 [E [L1 [L2 [E1 [E2 E3]]]]]]]. subst.
    split; [reflexivity | repeat constructor; assumption].
  - cbn [b64_decode] in H.
    destruct (b64_quad url x y z w) as [g|] eqn:Eq.
    + destruct (b64_decode pad url l) as [bs'|] eqn:El; [|discriminate].
      inversion H; subst; clear H.
      apply b64_quad_inv in Eq. destruct Eq as [b1 [b2 [b3 [E [L1 [L2 [L3 [E1 [E2 [E3 E4]]]]]]]]]]. subst.
      destruct (IH bs' eq_refl) as [IH1 IH2]. subst l.
      split; [reflexivity | repeat constructor; assumption].
    + destruct l as [|l0 l']; [|discriminate].
      destruct pad; [|discriminate].
      destruct (N.eqb_spec w pad_char) as [Ew|Ew]; [|discriminate].
      destruct (N.eqb_spec z pad_char) as [Ez|Ez].
      * apply b64_tail2_inv in H. destruct H as [b1 [E [L [E1 E2]]]]. subst.
        split; [reflexivity | repeat constructor; assumption].
      * apply b64_tail3_inv in H. destruct H as [b1 [b2 [E [L1 [L2 [E1 [E2 E3]]]]]]]. subst.
        split; [reflexivity | repeat constructor; assumption].
Qed.

(* ------------------------------------------------------------------ UTF-8 *)
Lemma utf8_dec1 : forall b r code, utf8_lead b = (1%nat, code) ->
  utf8_decode (b :: r) = utf8_chr code (utf8_decode r).
Proof. intros b r code H. cbn [utf8_decode]. rewrite H. reflexivity. Qed.

Lemma utf8_dec2 : forall b b1 r code, utf8_lead b = (2%nat, code) -> utf8_iscont b1 = true ->
  utf8_decode (b :: b1 :: r) = utf8_chr (utf8_acc code b1) (utf8_decode r).
Proof. intros b b1 r code H H1. cbn [utf8_decode]. rewrite H, H1. reflexivity. Qed.

Lemma utf8_dec3 : forall b b1 b2 r code, utf8_lead b = (3%nat, code) ->
  utf8_iscont b1 = true -> utf8_iscont b2 = true ->
  utf8_decode (b :: b1 :: b2 :: r) = utf8_chr (utf8_acc (utf8_acc code b1) b2) (utf8_decode r).
Proof. intros b b1 b2 r code H H1 H2. cbn [utf8_decode]. rewrite H, H1, H2. reflexivity. Qed.

Lemma utf8_dec4 : forall b b1 b2 b3 r code, utf8_lead b = (4%nat, code) ->
  utf8_iscont b1 = true -> utf8_iscont b2 = true -> utf8_iscont b3 = true ->
  utf8_decode (b :: b1 :: b2 :: b3 :: r) =
  utf8_chr (utf8_acc (utf8_acc (utf8_acc code b1) b2) b3) (utf8_decode r).
Proof. intros b b1 b2 b3 r code H H1 H2 H3. cbn [utf8_decode]. rewrite H, H1, H2, H3. reflexivity. Qed.

Lemma utf8_lead1 : forall x, x < 128 -> utf8_lead x = (1%nat, x).
Proof.
  intros x H. unfold utf8_lead.
  replace ((x / 128) mod 2 =? 0) with true by (symmetry; apply N.eqb_eq; lia). reflexivity.
Qed.

Lemma utf8_lead2 : forall x, x < 32 -> utf8_lead (0xC0 + x) = (2%nat, x).
Proof.
  intros x H. unfold utf8_lead.
  replace (((0xC0 + x) / 128) mod 2 =? 0) with false by (symmetry; apply N.eqb_neq; lia).
  replace (((0xC0 + x) / 32) mod 8 =? 6) with true by (symmetry; apply N.eqb_eq; lia).
  f_equal. lia.
Qed.

Lemma utf8_lead3 : forall x, x < 16 -> utf8_lead (0xE0 + x) = (3%nat, x).
Proof.
  intros x H. unfold utf8_lead.
  replace (((0xE0 + x) / 128) mod 2 =? 0) with false by (symmetry; apply N.eqb_neq; lia).
  replace (((0xE0 + x) / 32) mod 8 =? 6) with false by (symmetry; apply N.eqb_neq; lia).
  replace (((0xE0 + x) / 16) mod 16 =? 14) with true by (symmetry; apply N.eqb_eq; lia).
  f_equal. lia.
Qed.

Lemma utf8_lead4 : forall x, x < 8 -> utf8_lead (0xF0 + x) = (4%nat, x).
Proof.
  intros x H. unfold utf8_lead.
  replace (((0xF0 + x) / 128) mod 2 =? 0) with false by (symmetry; apply N.eqb_neq; lia).
  replace (((0xF0 + x) / 32) mod 8 =? 6) with false by (symmetry; apply N.eqb_neq; lia).
  replace (((0xF0 + x) / 16) mod 16 =? 14) with false by (symmetry; apply N.eqb_neq; lia).
  replace (((0xF0 + x) / 8) mod 32 =? 30) with true by (symmetry; apply N.eqb_eq; lia).
  f_equal. lia.
Qed.

Lemma utf8_iscont_ok : forall x, x < 64 -> utf8_iscont (0x80 + x) = true.
Proof. intros x H. unfold utf8_iscont. apply N.eqb_eq. lia. Qed.

Lemma utf8_acc_ok : forall code x, utf8_acc code (0x80 + x) = code * 64 + x.
Proof. intros code x. unfold utf8_acc. lia. Qed.

Definition valid_cp (c : N) : Prop := c < 0x110000 /\ ~ (0xD800 <= c < 0xE000).

Lemma valid_cpb_iff : forall c, valid_cpb c = true <-> valid_cp c.
Proof.
  intro c. unfold valid_cpb, valid_cp.
  destruct (N.ltb_spec c 0x110000) as [A|A]; destruct (N.leb_spec 0xD800 c) as [B|B];
    destruct (N.ltb_spec c 0xE000) as [C|C]; cbn [andb negb]; split; intro H;
    try discriminate; try reflexivity; try lia.
Qed.

Lemma utf8_dec_enc1 : forall c rest, valid_cp c ->
  utf8_decode (utf8_enc1 c ++ rest) = utf8_chr c (utf8_decode rest).
Proof.
  intros c rest [Hc _]. unfold utf8_enc1.
  destruct (N.ltb_spec c 0x80) as [H1|H1]; [|destruct (N.ltb_spec c 0x800) as [H2|H2];
    [|destruct (N.ltb_spec c 0x10000) as [H3|H3]]]; cbn [app].
  - apply utf8_dec1. apply utf8_lead1. assumption.
  - rewrite (utf8_dec2 _ _ _ ((c / 64) mod 64)).
    + rewrite utf8_acc_ok. f_equal. lia.
    + apply utf8_lead2. lia.
    + apply utf8_iscont_ok. lia.
  - rewrite (utf8_dec3 _ _ _ _ ((c / 4096) mod 64)).
    + rewrite !utf8_acc_ok. f_equal. lia.
    + apply utf8_lead3. lia.
    + apply utf8_iscont_ok. lia.
    + apply utf8_iscont_ok. lia.
  - rewrite (utf8_dec4 _ _ _ _ _ ((c / 262144) mod 64)).
    + rewrite !utf8_acc_ok. f_equal. lia.
    + apply utf8_lead4. lia.
    + apply utf8_iscont_ok. lia.
    + apply utf8_iscont_ok. lia.
    + apply utf8_iscont_ok. lia.
Qed.

Lemma utf8_roundtrip : forall cps, Forall valid_cp cps -> utf8_decode (utf8_encode cps) = Some cps.
Proof.
  induction cps as [|c r IH]; intro H.
  - reflexivity.
  - inversion H as [|? ? Hc Hr]; subst.
    unfold utf8_encode. cbn [flat_map]. rewrite utf8_dec_enc1 by assumption.
    fold (utf8_encode r). rewrite IH by assumption.
    unfold utf8_chr. apply valid_cpb_iff in Hc. rewrite Hc. reflexivity.
Qed.

Lemma utf8_enc1_bytes : forall c, c < 0x110000 ->
  bytes (utf8_enc1 c) /\ (1 <= length (utf8_enc1 c) <= 4)%nat.
Proof.
  intros c Hc. unfold utf8_enc1.
  destruct (N.ltb_spec c 0x80) as [H1|H1]; [|destruct (N.ltb_spec c 0x800) as [H2|H2];
    [|destruct (N.ltb_spec c 0x10000) as [H3|H3]]]; cbn [length];
    (split; [repeat constructor; lia | lia]).
Qed.

Lemma utf8_encode_bytes : forall cps, Forall valid_cp cps ->
  bytes (utf8_encode cps) /\ (length cps <= length (utf8_encode cps) <= 4 * length cps)%nat.
Proof.
  induction cps as [|c r IH]; intro H.
  - split; [constructor | cbn; lia].
  - inversion H as [|? ? Hc Hr]; subst. destruct (IH Hr) as [IH1 IH2].
    destruct Hc as [Hc _]. destruct (utf8_enc1_bytes c Hc) as [B1 B2].
    unfold utf8_encode in *. cbn [flat_map length]. rewrite app_length.
    split; [apply Forall_app; split; assumption | lia].
Qed.

(* the encoding is injective on valid code point lists (a consequence of the round trip) *)
Lemma utf8_encode_injective : forall a b, Forall valid_cp a -> Forall valid_cp b ->
  utf8_encode a = utf8_encode b -> a = b.
Proof.
  intros a b Ha Hb E. apply utf8_roundtrip in Ha. apply utf8_roundtrip in Hb.
  rewrite E in Ha. rewrite Ha in Hb. inversion Hb. reflexivity.
Qed.

(* ASCII text: both encodings of crypto_data_hash see the same bytes *)
Lemma data_bytes_ascii : forall cs, Forall (fun c => c < 128) cs ->
  data_bytes true cs = Some cs /\ data_bytes false cs = Some cs.
Proof.
  induction cs as [|c r IH]; intro H.
  - split; reflexivity.
  - inversion H as [|? ? Hc Hr]; subst. destruct (IH Hr) as [IH1 IH2].
    unfold data_bytes in *. cbn [forallb].
    replace (is_byte c) with true by (symmetry; apply N.ltb_lt; lia). cbn [andb].
    split.
    + destruct (forallb is_byte r); [reflexivity | discriminate].
    + unfold utf8_encode in *. cbn [flat_map]. unfold utf8_enc1 at 1.
      replace (c <? 0x80) with true by (symmetry; apply N.ltb_lt; lia).
      cbn [app]. inversion IH2 as [E]. rewrite E. rewrite E. reflexivity.
Qed.

