(* C37 -- reference definition of SHA-3 (FIPS 202): Keccak-f[1600] over 25 lanes of 64 bits (`N`), the sponge with
   the pad10*1 rule and the domain-separation bits 01.  Definitions only.
   State: list of 25 lanes, lane (x, y) at index x + 5*y; bytes <-> lanes little-endian. *)
From Coq Require Import Arith NArith List Bool.
Import ListNotations.
Open Scope N_scope.

Definition m64 : N := 0xFFFFFFFFFFFFFFFF.
Definition rotl64 (n x : N) : N :=
  if n =? 0 then x else N.lor (N.land (N.shiftl x n) m64) (N.shiftr x (64 - n)).

Definition lane (s : list N) (i : nat) : N := nth i s 0.

(* 3.2.2: rotation offsets ((t+1)(t+2)/2 mod 64 along the path (1,0) -> (y, 2x+3y)), listed by lane index x + 5*y *)
Definition rho_offsets : list N :=
  [0; 1; 62; 28; 27; 36; 44; 6; 55; 20; 3; 10; 43; 25; 39; 41; 45; 15; 21; 8; 18; 2; 61; 56; 14].

(* 3.2.5: round constants (from the degree-8 LFSR rc(t)) *)
Definition keccak_rc : list N :=
  [0x0000000000000001; 0x0000000000008082; 0x800000000000808A; 0x8000000080008000;
   0x000000000000808B; 0x0000000080000001; 0x8000000080008081; 0x8000000000008009;
   0x000000000000008A; 0x0000000000000088; 0x0000000080008009; 0x000000008000000A;
   0x000000008000808B; 0x800000000000008B; 0x8000000000008089; 0x8000000000008003;
   0x8000000000008002; 0x8000000000000080; 0x000000000000800A; 0x800000008000000A;
   0x8000000080008081; 0x8000000000008080; 0x0000000080000001; 0x8000000080008008].

Definition idx5 : list nat := [0; 1; 2; 3; 4]%nat.
Definition idx25 : list nat := seq 0 25.

Definition theta (a : list N) : list N :=
  let c := map (fun x => N.lxor (N.lxor (N.lxor (N.lxor (lane a x) (lane a (x + 5))) (lane a (x + 10))) (lane a (x + 15)))
                                (lane a (x + 20))) idx5 in
  let d := map (fun x => N.lxor (lane c ((x + 4) mod 5)) (rotl64 1 (lane c ((x + 1) mod 5)))) idx5 in
  map (fun i => N.lxor (lane a i) (lane d (i mod 5))) idx25.

(* rho and pi together: B[y, 2x+3y] = rot(A[x, y], r[x, y]); the destination (X, Y) = (j mod 5, j / 5) comes from
   x = (X + 3Y) mod 5, y = X *)
Definition rho_pi (a : list N) : list N :=
  map (fun j => let X := (j mod 5)%nat in let Y := (j / 5)%nat in
                let i := ((X + 3 * Y) mod 5 + 5 * X)%nat in
                rotl64 (nth i rho_offsets 0) (lane a i)) idx25.

Definition chi (b : list N) : list N :=
  map (fun i => let x := (i mod 5)%nat in let y5 := (5 * (i / 5))%nat in
                N.lxor (lane b i) (N.land (N.lxor (lane b ((x + 1) mod 5 + y5)) m64) (lane b ((x + 2) mod 5 + y5)))) idx25.

Definition iota (rc : N) (a : list N) : list N :=
  match a with [] => [] | x :: r => N.lxor x rc :: r end.

Definition keccak_round (a : list N) (rc : N) : list N := iota rc (chi (rho_pi (theta a))).
Definition keccak_f (a : list N) : list N := fold_left keccak_round keccak_rc a.

(* little-endian bytes <-> lanes *)
Definition le_val (bs : list N) : N := fold_right (fun b acc => b + N.shiftl acc 8) 0 bs.
Fixpoint le_bytes (n : nat) (v : N) : list N :=
  match n with O => [] | S k => N.land v 255 :: le_bytes k (N.shiftr v 8) end.
Fixpoint le_lanes (n : nat) (w : nat) (bs : list N) : list N :=
  match n with O => [] | S k => le_val (firstn w bs) :: le_lanes k w (skipn w bs) end.

Fixpoint xor_lanes (a b : list N) : list N :=
  match a, b with
  | x :: a', y :: b' => N.lxor x y :: xor_lanes a' b'
  | _, [] => a
  | [], _ => []
  end.

Definition absorb (rate : nat) (s : list N) (block : list N) : list N :=
  keccak_f (xor_lanes s (le_lanes (rate / 8) 8 block)).

Fixpoint absorb_all (n : nat) (rate : nat) (s : list N) (m : list N) : list N :=
  match n with
  | O => s
  | S k => absorb_all k rate (absorb rate s (firstn rate m)) (skipn rate m)
  end.

(* SHA-3 appends the bits 01 and then pad10*1: in bytes 0x06 ... 0x80, a single byte 0x86 when only one byte is missing *)
Definition sha3_pad_zeros (rate len : nat) : nat := ((rate - (len + 1) mod rate) mod rate)%nat.
Definition sha3_pad (rate : nat) (m : list N) : list N :=
  match sha3_pad_zeros rate (length m) with
  | O => m ++ [0x86]
  | S z => m ++ [0x06] ++ repeat 0 z ++ [0x80]
  end.

Definition sha3 (outlen : nat) (m : list N) : list N :=
  let rate := (200 - 2 * outlen)%nat in
  let p := sha3_pad rate m in
  firstn outlen (flat_map (le_bytes 8) (absorb_all (length p / rate) rate (repeat 0 25) p)).

Definition sha3_224 : list N -> list N := sha3 28.
Definition sha3_256 : list N -> list N := sha3 32.
Definition sha3_384 : list N -> list N := sha3 48.
Definition sha3_512 : list N -> list N := sha3 64.
