(* C42 -- module qualification and imports: executable model (definitions only).

   A layout is a list of modules (module/2 declarations, the predicates each defines, use_module/1,2 imports).
   resolve = which module's definition answers a call made in a given module: the module's own definition if there is
   one, else the definition of the unique imported module that exports (and defines) the predicate and whose import
   lists it, else none (existence_error(procedure, Name/Arity)).  M:G resolves in M; the goals handed to call/1,
   findall/3, maplist/N and to a user meta-predicate (meta_predicate declaration, argument specifier 0) are resolved in
   the module of the clause (or top level) that contains the call. *)
From Coq Require Import NArith List Bool.
Import ListNotations.
Open Scope N_scope.

Definition pred := (N * N)%type.          (* name id, arity *)
Definition pred_eqb (a b : pred) : bool := N.eqb (fst a) (fst b) && N.eqb (snd a) (snd b).
Definition mem_pred (p : pred) (l : list pred) : bool := existsb (pred_eqb p) l.

Inductive imp := All | Only (l : list pred).            (* use_module(F)  |  use_module(F, ImportList) *)
Definition listed (i : imp) (p : pred) : bool := match i with All => true | Only l => mem_pred p l end.

Record module := mkM { m_name : N; m_defs : list pred; m_exports : list pred; m_imports : list (N * imp) }.

Fixpoint find_mod (ms : list module) (n : N) : option module :=
  match ms with
  | [] => None
  | m :: r => if N.eqb (m_name m) n then Some m else find_mod r n
  end.

(* module j offers p to its importers: exported and defined there *)
Definition offers (ms : list module) (j : N) (p : pred) : bool :=
  match find_mod ms j with
  | Some m => mem_pred p (m_exports m) && mem_pred p (m_defs m)
  | None => false
  end.

Fixpoint dedup (l : list N) : list N :=
  match l with
  | [] => []
  | x :: r => if existsb (N.eqb x) r then dedup r else x :: dedup r
  end.

Definition providers (ms : list module) (m : module) (p : pred) : list N :=
  dedup (map fst (filter (fun ji => offers ms (fst ji) p && listed (snd ji) p) (m_imports m))).

Definition resolve (ms : list module) (caller : N) (p : pred) : option N :=
  match find_mod ms caller with
  | None => None
  | Some m =>
      if mem_pred p (m_defs m) then Some caller
      else match providers ms m p with
           | [j] => Some j
           | _ => None                     (* nothing imported (or an ambiguous import: such layouts are not generated) *)
           end
  end.

(* the ways a goal p(X) is reached from a context module *)
Inductive callform :=
| Unq (p : pred)                (* p(X) in a clause body / at top level *)
| Qual (m : N) (p : pred)       (* M:p(X) *)
| ViaCall (p : pred)            (* call(p(X)) *)
| ViaFindall (p : pred)         (* findall(X, p(X), L) *)
| ViaMaplist (p : pred)         (* maplist(p, [X]) *)
| ViaMeta (run : pred) (p : pred).   (* run(p(X)) with :- meta_predicate(run(0)) declared in run's module *)

Inductive outcome := Answer (definer : N) | Existence (p : pred).

Definition out_of (p : pred) (r : option N) : outcome := match r with Some j => Answer j | None => Existence p end.

Definition resolve_call (ms : list module) (ctx : N) (c : callform) : outcome :=
  match c with
  | Unq p | ViaCall p | ViaFindall p | ViaMaplist p => out_of p (resolve ms ctx p)
  | Qual m p => out_of p (resolve ms m p)
  | ViaMeta run p =>
      match resolve ms ctx run with
      | None => Existence run                       (* the meta-predicate itself is not visible *)
      | Some _ => out_of p (resolve ms ctx p)       (* its argument runs in the caller's module *)
      end
  end.

Definition outcome_eqb (a b : outcome) : bool :=
  match a, b with
  | Answer x, Answer y => N.eqb x y
  | Existence p, Existence q => pred_eqb p q
  | _, _ => false
  end.

Definition check_layout (ms : list module) (cases : list (N * callform * outcome)) : bool :=
  forallb (fun t => outcome_eqb (resolve_call ms (fst (fst t)) (snd (fst t))) (snd t)) cases.

(* a definition added to module a *)
Definition add_def (a : N) (p : pred) (ms : list module) : list module :=
  map (fun m => if N.eqb (m_name m) a then mkM (m_name m) (p :: m_defs m) (m_exports m) (m_imports m) else m) ms.
