(* C42 -- proofs about the module resolution model *)
From Coq Require Import NArith List Bool Lia.
From V Require Import C42.Model.
Import ListNotations.
Open Scope N_scope.

Lemma pred_eqb_eq : forall a b, pred_eqb a b = true <-> a = b.
Proof.
  intros [a1 a2] [b1 b2]. unfold pred_eqb. cbn [fst snd]. split; intros H.
  - apply andb_true_iff in H. destruct H as [H1 H2]. apply N.eqb_eq in H1, H2. subst. reflexivity.
  - injection H as -> ->. rewrite !N.eqb_refl. reflexivity.
Qed.

Lemma mem_pred_In : forall p l, mem_pred p l = true <-> In p l.
Proof.
  intros p l. unfold mem_pred. rewrite existsb_exists. split.
  - intros (x & Hx & He). apply pred_eqb_eq in He. subst. exact Hx.
  - intros H. exists p. split; [exact H | apply pred_eqb_eq; reflexivity].
Qed.

Lemma find_mod_name : forall ms n m, find_mod ms n = Some m -> m_name m = n /\ In m ms.
Proof.
  induction ms as [|x ms IH]; intros n m H; cbn [find_mod] in H; [discriminate|].
  destruct (N.eqb (m_name x) n) eqn:E.
  - injection H as <-. apply N.eqb_eq in E. split; [exact E | left; reflexivity].
  - destruct (IH _ _ H) as [H1 H2]. split; [exact H1 | right; exact H2].
Qed.

Lemma dedup_In : forall l x, In x (dedup l) <-> In x l.
Proof.
  induction l as [|y l IH]; intros x; cbn [dedup]; [tauto|].
  destruct (existsb (N.eqb y) l) eqn:E.
  - rewrite IH. split; [intros H; right; exact H|]. intros [->|H]; [|exact H].
    apply existsb_exists in E. destruct E as (z & Hz & He). apply N.eqb_eq in He. subst. exact Hz.
  - cbn [In]. rewrite IH. tauto.
Qed.

Theorem own_definition_wins_thm : forall ms c m p,
  find_mod ms c = Some m -> In p (m_defs m) -> resolve ms c p = Some c.
Proof.
  intros ms c m p Hf Hd. unfold resolve. rewrite Hf.
  assert (Hm : mem_pred p (m_defs m) = true) by (apply mem_pred_In; exact Hd). rewrite Hm. reflexivity.
Qed.

Lemma providers_spec : forall ms m p j, In j (providers ms m p) ->
  exists i, In (j, i) (m_imports m) /\ offers ms j p = true /\ listed i p = true.
Proof.
  intros ms m p j H. unfold providers in H. apply (proj1 (dedup_In _ _)) in H. apply in_map_iff in H.
  destruct H as ([j' i] & Hj & Hin). cbn [fst] in Hj. subst j'. apply filter_In in Hin. destruct Hin as [Hin Hc].
  cbn [fst snd] in Hc. apply andb_true_iff in Hc. exists i. tauto.
Qed.

(* an answer from another module needs: an import of that module, the predicate exported (and defined) there, and
   listed by the import *)
Theorem import_requires_export_and_listing_thm : forall ms c p j,
  resolve ms c p = Some j -> j <> c ->
  exists m mj i, find_mod ms c = Some m /\ In (j, i) (m_imports m) /\ listed i p = true /\
                 find_mod ms j = Some mj /\ In p (m_exports mj) /\ In p (m_defs mj) /\ ~ In p (m_defs m).
Proof.
  intros ms c p j H Hne. unfold resolve in H. destruct (find_mod ms c) as [m|] eqn:Hf; [|discriminate].
  destruct (mem_pred p (m_defs m)) eqn:Hd; [injection H as <-; contradiction|].
  destruct (providers ms m p) as [|j0 [|j1 r]] eqn:Hp; try discriminate. injection H as ->.
  assert (Hin : In j (providers ms m p)) by (rewrite Hp; left; reflexivity).
  destruct (providers_spec ms m p j Hin) as (i & Hi & Ho & Hl).
  unfold offers in Ho. destruct (find_mod ms j) as [mj|] eqn:Hfj; [|discriminate].
  apply andb_true_iff in Ho. destruct Ho as [He Hdj].
  exists m, mj, i. repeat split; try assumption.
  - apply mem_pred_In. exact He.
  - apply mem_pred_In. exact Hdj.
  - intros Hc. apply mem_pred_In in Hc. rewrite Hc in Hd. discriminate.
Qed.

(* whoever answers really defines the predicate *)
Theorem resolve_sound_thm : forall ms c p j, resolve ms c p = Some j ->
  exists mj, find_mod ms j = Some mj /\ In p (m_defs mj).
Proof.
  intros ms c p j H. destruct (N.eq_dec j c) as [->|Hne].
  - unfold resolve in H. destruct (find_mod ms c) as [m|] eqn:Hf; [|discriminate]. exists m. split; [reflexivity|].
    destruct (mem_pred p (m_defs m)) eqn:Hd; [apply mem_pred_In; exact Hd|].
    destruct (providers ms m p) as [|j0 [|j1 r]] eqn:Hp; try discriminate. injection H as ->.
    assert (Hin : In c (providers ms m p)) by (rewrite Hp; left; reflexivity).
    destruct (providers_spec ms m p c Hin) as (i & Hi & Ho & Hl). unfold offers in Ho. rewrite Hf in Ho.
    apply andb_true_iff in Ho. destruct Ho as [_ Hdj]. rewrite Hdj in Hd. discriminate.
  - destruct (import_requires_export_and_listing_thm ms c p j H Hne) as (m & mj & i & _ & _ & _ & Hfj & _ & Hd & _).
    exists mj. split; assumption.
Qed.

Theorem qualified_call_uses_named_module_thm : forall ms ctx ctx' m p,
  resolve_call ms ctx (Qual m p) = resolve_call ms ctx' (Qual m p) /\
  resolve_call ms ctx (Qual m p) = resolve_call ms m (Unq p).
Proof. intros. split; reflexivity. Qed.

(* call/1, findall/3, maplist/N and a user meta-predicate resolve their goal argument like a plain goal of the calling
   module, wherever the meta-predicate itself is defined *)
Theorem meta_argument_in_caller_module_thm : forall ms ctx p run d,
  resolve_call ms ctx (ViaCall p) = resolve_call ms ctx (Unq p) /\
  resolve_call ms ctx (ViaFindall p) = resolve_call ms ctx (Unq p) /\
  resolve_call ms ctx (ViaMaplist p) = resolve_call ms ctx (Unq p) /\
  (resolve ms ctx run = Some d -> resolve_call ms ctx (ViaMeta run p) = resolve_call ms ctx (Unq p)).
Proof.
  intros. repeat split; try reflexivity. intros H. cbn [resolve_call]. rewrite H. reflexivity.
Qed.

(* namespaces are independent *)
Lemma find_add_def_other : forall a q ms n, n <> a -> find_mod (add_def a q ms) n = find_mod ms n.
Proof.
  intros a q ms n Hn. induction ms as [|x ms IH]; [reflexivity|]. cbn [add_def map find_mod]. fold (add_def a q ms).
  destruct (N.eqb (m_name x) a) eqn:Ea; cbn [m_name].
  - apply N.eqb_eq in Ea. destruct (N.eqb (m_name x) n) eqn:En; [apply N.eqb_eq in En; congruence | exact IH].
  - destruct (N.eqb (m_name x) n); [reflexivity | exact IH].
Qed.

Lemma find_add_def_same : forall a q ms,
  find_mod (add_def a q ms) a = match find_mod ms a with
                                | Some m => Some (mkM (m_name m) (q :: m_defs m) (m_exports m) (m_imports m))
                                | None => None end.
Proof.
  intros a q ms. induction ms as [|x ms IH]; [reflexivity|]. cbn [add_def map find_mod]. fold (add_def a q ms).
  destruct (N.eqb (m_name x) a) eqn:Ea; cbn [m_name]; rewrite Ea; [reflexivity | exact IH].
Qed.

Lemma offers_add_def : forall a q ms j p,
  (j <> a \/ (match find_mod ms a with Some ma => mem_pred p (m_exports ma) = false | None => True end) \/ p <> q) ->
  offers (add_def a q ms) j p = offers ms j p.
Proof.
  intros a q ms j p H. unfold offers. destruct (N.eq_dec j a) as [->|Hne].
  - rewrite find_add_def_same. destruct (find_mod ms a) as [ma|]; [|reflexivity]. cbn [m_exports m_defs].
    destruct H as [H|[H|H]]; [contradiction | rewrite H; reflexivity|].
    unfold mem_pred at 2. cbn [existsb]. fold (mem_pred p (m_defs ma)).
    assert (E : pred_eqb p q = false).
    { destruct (pred_eqb p q) eqn:E; [apply pred_eqb_eq in E; contradiction | reflexivity]. }
    rewrite E. reflexivity.
  - rewrite find_add_def_other by exact Hne. reflexivity.
Qed.

(* adding a definition q to module a does not change what any OTHER module b resolves, provided b does not import a
   -- or a does not export q *)
Theorem namespaces_independent_thm : forall ms a q b p mb,
  b <> a -> find_mod ms b = Some mb ->
  ((forall i, ~ In (a, i) (m_imports mb)) \/
   (match find_mod ms a with Some ma => mem_pred q (m_exports ma) = false | None => True end)) ->
  resolve (add_def a q ms) b p = resolve ms b p.
Proof.
  intros ms a q b p mb Hne Hf Hcond. unfold resolve. rewrite find_add_def_other by exact Hne. rewrite Hf.
  destruct (mem_pred p (m_defs mb)); [reflexivity|].
  assert (Hprov : providers (add_def a q ms) mb p = providers ms mb p).
  { unfold providers. f_equal. f_equal. apply filter_ext_in. intros [j i] Hin. cbn [fst snd]. f_equal.
    apply offers_add_def. destruct Hcond as [Hc|Hc].
    - left. intros ->. exact (Hc i Hin).
    - destruct (pred_eqb p q) eqn:E.
      + apply pred_eqb_eq in E. subst q. right. left. exact Hc.
      + right. right. intros ->. assert (pred_eqb q q = true) by (apply pred_eqb_eq; reflexivity). congruence. }
  rewrite Hprov. reflexivity.
Qed.

(* at most one module can answer, and it is determined by the layout alone *)
Theorem resolution_deterministic_thm : forall ms c p j j',
  resolve ms c p = Some j -> resolve ms c p = Some j' -> j = j'.
Proof. intros ms c p j j' H1 H2. congruence. Qed.

Theorem imported_answer_is_the_only_provider_thm : forall ms c m p j,
  find_mod ms c = Some m -> resolve ms c p = Some j -> j <> c ->
  forall j', In j' (providers ms m p) -> j' = j.
Proof.
  intros ms c m p j Hf H Hne j' Hin. unfold resolve in H. rewrite Hf in H.
  destruct (mem_pred p (m_defs m)); [injection H as <-; contradiction|].
  destruct (providers ms m p) as [|j0 [|j1 r]]; try discriminate. injection H as ->.
  destruct Hin as [<-|[]]. reflexivity.
Qed.

Lemma outcome_eqb_eq : forall a b, outcome_eqb a b = true <-> a = b.
Proof.
  intros [x|p] [y|q]; cbn [outcome_eqb]; split; intros H; try discriminate.
  - apply N.eqb_eq in H. subst. reflexivity.
  - injection H as ->. apply N.eqb_refl.
  - apply pred_eqb_eq in H. subst. reflexivity.
  - injection H as ->. apply pred_eqb_eq. reflexivity.
Qed.

Theorem check_layout_meaning_thm : forall ms cases,
  check_layout ms cases = true <-> forall ctx c o, In (ctx, c, o) cases -> o = resolve_call ms ctx c.
Proof.
  intros ms cases. unfold check_layout. rewrite forallb_forall. split.
  - intros H ctx c o Hin. specialize (H _ Hin). cbn [fst snd] in H. apply outcome_eqb_eq in H. symmetry. exact H.
  - intros H [[ctx c] o] Hin. cbn [fst snd]. apply outcome_eqb_eq. symmetry. apply H. exact Hin.
Qed.
