(* C42 -- pinned property theorems (nothing else lives here) *)
From Coq Require Import NArith List Bool.
From V Require Import C42.Model C42.Proofs.
Import ListNotations.
Open Scope N_scope.

(* an unqualified call inside module c runs c's own definition if there is one *)
Theorem own_definition_wins : forall ms c m p,
  find_mod ms c = Some m -> In p (m_defs m) -> resolve ms c p = Some c.
Proof. exact own_definition_wins_thm. Qed.
Print Assumptions own_definition_wins.

(* otherwise only an imported module can answer, and only if it exports (and defines) the predicate and the import
   lists it *)
Theorem import_requires_export_and_listing : forall ms c p j,
  resolve ms c p = Some j -> j <> c ->
  exists m mj i, find_mod ms c = Some m /\ In (j, i) (m_imports m) /\ listed i p = true /\
                 find_mod ms j = Some mj /\ In p (m_exports mj) /\ In p (m_defs mj) /\ ~ In p (m_defs m).
Proof. exact import_requires_export_and_listing_thm. Qed.
Print Assumptions import_requires_export_and_listing.

Theorem answering_module_defines_it : forall ms c p j, resolve ms c p = Some j ->
  exists mj, find_mod ms j = Some mj /\ In p (m_defs mj).
Proof. exact resolve_sound_thm. Qed.
Print Assumptions answering_module_defines_it.

(* M:G runs what module M resolves G to, wherever the call is written *)
Theorem qualified_call_uses_named_module : forall ms ctx ctx' m p,
  resolve_call ms ctx (Qual m p) = resolve_call ms ctx' (Qual m p) /\
  resolve_call ms ctx (Qual m p) = resolve_call ms m (Unq p).
Proof. exact qualified_call_uses_named_module_thm. Qed.
Print Assumptions qualified_call_uses_named_module.

Theorem meta_argument_in_caller_module : forall ms ctx p run d,
  resolve_call ms ctx (ViaCall p) = resolve_call ms ctx (Unq p) /\
  resolve_call ms ctx (ViaFindall p) = resolve_call ms ctx (Unq p) /\
  resolve_call ms ctx (ViaMaplist p) = resolve_call ms ctx (Unq p) /\
  (resolve ms ctx run = Some d -> resolve_call ms ctx (ViaMeta run p) = resolve_call ms ctx (Unq p)).
Proof. exact meta_argument_in_caller_module_thm. Qed.
Print Assumptions meta_argument_in_caller_module.

(* predicates with the same name in different modules stay independent *)
Theorem namespaces_independent : forall ms a q b p mb,
  b <> a -> find_mod ms b = Some mb ->
  ((forall i, ~ In (a, i) (m_imports mb)) \/
   (match find_mod ms a with Some ma => mem_pred q (m_exports ma) = false | None => True end)) ->
  resolve (add_def a q ms) b p = resolve ms b p.
Proof. exact namespaces_independent_thm. Qed.
Print Assumptions namespaces_independent.

Theorem resolution_deterministic : forall ms c p j j',
  resolve ms c p = Some j -> resolve ms c p = Some j' -> j = j'.
Proof. exact resolution_deterministic_thm. Qed.
Print Assumptions resolution_deterministic.

Theorem imported_answer_is_the_only_provider : forall ms c m p j,
  find_mod ms c = Some m -> resolve ms c p = Some j -> j <> c ->
  forall j', In j' (providers ms m p) -> j' = j.
Proof. exact imported_answer_is_the_only_provider_thm. Qed.
Print Assumptions imported_answer_is_the_only_provider.

Theorem check_layout_decides_agreement : forall ms cases,
  check_layout ms cases = true <-> forall ctx c o, In (ctx, c, o) cases -> o = resolve_call ms ctx c.
Proof. exact check_layout_meaning_thm. Qed.
Print Assumptions check_layout_decides_agreement.

(* ---- non-vacuity: user (0) defines q, imports m1 (1) fully and m2 (2) selectively; m2 defines q and imports p from m1 *)
Definition P : pred := (0, 1).  Definition Q : pred := (1, 1).  Definition R : pred := (2, 1).
Definition ex_layout : list module :=
  [ mkM 0 [Q] [] [(1, All); (2, Only [R])];
    mkM 1 [P; Q] [P] [];
    mkM 2 [Q; R] [Q; R] [(1, Only [P])] ].
Example ex_resolution :
  resolve ex_layout 0 P = Some 1 /\ resolve ex_layout 0 Q = Some 0 /\ resolve ex_layout 0 R = Some 2 /\
  resolve ex_layout 2 P = Some 1 /\ resolve ex_layout 2 Q = Some 2 /\ resolve ex_layout 1 R = None /\
  resolve_call ex_layout 0 (Qual 1 Q) = Answer 1 /\ resolve_call ex_layout 0 (Qual 1 R) = Existence R /\
  resolve (add_def 1 R ex_layout) 0 R = Some 2.
Proof. vm_compute. repeat split. Qed.
