(* C52 -- library(random): executable model (definitions only).

   Mirrors src/lib/random.pl (random/1, random_integer/3, set_random/1, maybe/0) and the case structure of
   system_calls.rs random_integer / set_seed.  The generator (rand::StdRng) is NOT modelled: it is a parameter `next`
   (draw a number below a bound), `flip` (maybe/0) and `seed` (SeedableRng::seed_from_u64); the only thing assumed
   about it is that a draw below a positive bound is below that bound (gen_range's contract). *)
From Coq Require Import ZArith NArith List Bool QArith.
From V Require Import Base.Term.
Import ListNotations.
Open Scope Z_scope.

Inductive err := EInst | ETypeInt (culprit : term).          (* instantiation_error | type_error(integer, Culprit) *)
Inductive outcome := OInt (z : Z) | OFlt (k : N) | OTrue | OFail | OErr (e : err).
(* OFlt k stands for the float k / 2^50 *)

Definition two64 : Z := 2 ^ 64.
Definition two50 : Z := 2 ^ 50.
Definition seed_name : list N := [115; 101; 101; 100]%N.      (* "seed" *)
Definition seed_term (z : Z) : term := Cmp seed_name [Int z].

Definition is_var (t : term) : bool := match t with Var _ => true | _ => false end.

Inductive call :=
| CRandInt (l h r : term)       (* random_integer(L, H, R) *)
| CRandom (r : term)            (* random(R) *)
| CSetRandom (a : term)         (* set_random(A) *)
| CMaybe                        (* maybe *)
| COther.                       (* any goal that does not touch the generator *)

Definition is_random_call (c : call) : bool := match c with COther => false | _ => true end.

Section Gen.
  Variable state : Type.
  Variable next : state -> N -> N * state.
  Variable flip : state -> bool * state.
  Variable seed : N -> state.

  (* '$random_integer'(L, H, R) with integer bounds: fails on an empty range, else L + a draw below H - L *)
  Definition prim_random_integer (l h : Z) (s : state) : outcome * state :=
    if Z.ltb l h then let (k, s') := next s (Z.to_N (h - l)) in (OInt (l + Z.of_N k), s')
    else (OFail, s).

  (* random_integer/3 of random.pl, clause order as written: var(R) first, then instantiation, then the type of Lower,
     then of Upper, then Lower < Upper *)
  Definition random_integer (l h r : term) (s : state) : outcome * state :=
    if negb (is_var r) then (OFail, s)
    else if is_var l || is_var h then (OErr EInst, s)
    else match l with
         | Int lz => match h with
                     | Int hz => prim_random_integer lz hz s
                     | _ => (OErr (ETypeInt h), s)
                     end
         | _ => (OErr (ETypeInt l), s)
         end.

  (* random/1: var(R), N is 2^50, '$random_integer'(0, N, K), R is K/N *)
  Definition random (r : term) (s : state) : outcome * state :=
    if is_var r then
      match prim_random_integer 0 two50 s with
      | (OInt k, s') => (OFlt (Z.to_N k), s')
      | (o, s') => (o, s')
      end
    else (OFail, s).

  (* set_random/1: seed(S) with an integer S seeds the generator with S mod 2^64 *)
  Definition set_random (a : term) (s : state) : outcome * state :=
    match a with
    | Var _ => (OErr EInst, s)
    | Cmp f [x] =>
        if name_eqb f seed_name then
          match x with
          | Var _ => (OErr EInst, s)
          | Int z => (OTrue, seed (Z.to_N (z mod two64)))
          | _ => (OErr (ETypeInt x), s)
          end
        else (OFail, s)
    | _ => (OFail, s)
    end.

  Definition maybe (s : state) : outcome * state :=
    let (b, s') := flip s in ((if b then OTrue else OFail), s').

  Definition step (s : state) (c : call) : outcome * state :=
    match c with
    | CRandInt l h r => random_integer l h r s
    | CRandom r => random r s
    | CSetRandom a => set_random a s
    | CMaybe => maybe s
    | COther => (OTrue, s)
    end.

  Fixpoint run (s : state) (cs : list call) : list outcome * state :=
    match cs with
    | [] => ([], s)
    | c :: r => let (o, s') := step s c in let (os, s'') := run s' r in (o :: os, s'')
    end.
End Gen.

(* the outputs of the random calls only (non-random goals always give OTrue) *)
Fixpoint random_outputs (cs : list call) (os : list outcome) : list outcome :=
  match cs, os with
  | c :: cr, o :: orest => if is_random_call c then o :: random_outputs cr orest else random_outputs cr orest
  | _, _ => []
  end.

(* ------------------------------------------------------------------ observations of the implementation *)
Inductive obs := BInt (z : Z) | BFlt (bits : Z) | BTrue | BFail | BErrInst | BErrType (culprit : term) | BOther.

(* a binary64 bit pattern that is exactly K / 2^50 with 0 <= K < 2^50: gives K *)
Definition float_k50 (bits : Z) : option N :=
  if bits =? 0 then Some 0%N
  else
    let ex := bits / 2 ^ 52 in
    let man := bits mod 2 ^ 52 in
    if (ex <=? 0) || (1023 <=? ex) then None          (* subnormal; or >= 1.0, negative, inf/nan *)
    else
      let sh := 1025 - ex in                          (* (2^52+man) * 2^(ex-1075) = K * 2^-50 *)
      let m := 2 ^ 52 + man in
      if m mod 2 ^ sh =? 0 then Some (Z.to_N (m / 2 ^ sh)) else None.

Definition obs_matches (o : outcome) (b : obs) : Prop :=
  match o, b with
  | OInt z, BInt z' => z = z'
  | OFlt k, BFlt bits => float_k50 bits = Some k
  | OTrue, BTrue => True
  | OFail, BFail => True
  | OErr EInst, BErrInst => True
  | OErr (ETypeInt t), BErrType t' => t = t'
  | _, _ => False
  end.

(* what a single call may show, whatever the generator does *)
Definition check_call (c : call) (b : obs) : bool :=
  match c with
  | CRandInt l h r =>
      if negb (is_var r) then match b with BFail => true | _ => false end
      else if is_var l || is_var h then match b with BErrInst => true | _ => false end
      else match l with
           | Int lz => match h with
                       | Int hz => if Z.ltb lz hz then match b with BInt x => Z.leb lz x && Z.ltb x hz | _ => false end
                                   else match b with BFail => true | _ => false end
                       | _ => match b with BErrType t => term_eqb t h | _ => false end
                       end
           | _ => match b with BErrType t => term_eqb t l | _ => false end
           end
  | CRandom r =>
      if is_var r then match b with BFlt bits => match float_k50 bits with Some k => (k <? 2 ^ 50)%N | None => false end | _ => false end
      else match b with BFail => true | _ => false end
  | CSetRandom a =>
      match a with
      | Var _ => match b with BErrInst => true | _ => false end
      | Cmp f [x] =>
          if name_eqb f seed_name then
            match x with
            | Var _ => match b with BErrInst => true | _ => false end
            | Int _ => match b with BTrue => true | _ => false end
            | _ => match b with BErrType t => term_eqb t x | _ => false end
            end
          else match b with BFail => true | _ => false end
      | _ => match b with BFail => true | _ => false end
      end
  | CMaybe => match b with BTrue | BFail => true | _ => false end
  | COther => match b with BTrue => true | _ => false end
  end.

Fixpoint check_run (cs : list call) (bs : list obs) : bool :=
  match cs, bs with
  | [], [] => true
  | c :: cr, b :: br => check_call c b && check_run cr br
  | _, _ => false
  end.

Definition obs_eqb (a b : obs) : bool :=
  match a, b with
  | BInt x, BInt y => Z.eqb x y
  | BFlt x, BFlt y => Z.eqb x y
  | BTrue, BTrue | BFail, BFail | BErrInst, BErrInst => true
  | BErrType t, BErrType t' => term_eqb t t'
  | _, _ => false
  end.

Fixpoint obs_list_eqb (a b : list obs) : bool :=
  match a, b with
  | [], [] => true
  | x :: a', y :: b' => obs_eqb x y && obs_list_eqb a' b'
  | _, _ => false
  end.

(* the observed outputs of the random calls of a run (non-random goals dropped) *)
Fixpoint random_obs (cs : list call) (bs : list obs) : list obs :=
  match cs, bs with
  | c :: cr, b :: br => if is_random_call c then b :: random_obs cr br else random_obs cr br
  | _, _ => []
  end.

(* two runs that both start with set_random(seed(S)): each admissible, and the same random outputs (the second run may
   have other non-random goals interleaved) *)
Definition check_repro (cs1 : list call) (bs1 : list obs) (cs2 : list call) (bs2 : list obs) : bool :=
  check_run cs1 bs1 && check_run cs2 bs2 && obs_list_eqb (random_obs cs1 bs1) (random_obs cs2 bs2).

(* big integers as 60-bit limbs, least significant first *)
Fixpoint limbs (l : list Z) : Z := match l with [] => 0 | x :: r => x + Z.shiftl (limbs r) 60 end.
Definition big (neg : bool) (l : list Z) : term := Int (if neg then - limbs l else limbs l).
Definition bigz (neg : bool) (l : list Z) : Z := if neg then - limbs l else limbs l.
