(* C52 -- pinned property theorems (nothing else lives here) *)
From Coq Require Import ZArith NArith List Bool QArith.
From V Require Import Base.Term C52.Model C52.Proofs.
Import ListNotations.
Open Scope Z_scope.

Section Generator.
  (* any generator: states, a draw below a bound, a coin, seeding; gen_range's contract is the only assumption *)
  Variable state : Type.
  Variable next : state -> N -> N * state.
  Variable flip : state -> bool * state.
  Variable seed : N -> state.
  Hypothesis next_lt : forall s b, (0 < b)%N -> (fst (next s b) < b)%N.

  (* L =< X < H for ALL integer bounds (Z: small integers and bignums alike) *)
  Theorem random_integer_in_range : forall l h v s x s',
    random_integer state next (Int l) (Int h) (Var v) s = (OInt x, s') -> l <= x < h.
  Proof. exact (random_integer_in_range_thm state next next_lt). Qed.

  Theorem random_integer_succeeds : forall l h v s, l < h ->
    exists x s', random_integer state next (Int l) (Int h) (Var v) s = (OInt x, s') /\ l <= x < h.
  Proof. exact (random_integer_succeeds_thm state next next_lt). Qed.

  Theorem fails_on_empty_range : forall l h v s, h <= l ->
    random_integer state next (Int l) (Int h) (Var v) s = (OFail, s).
  Proof. exact (fails_on_empty_range_thm state next next_lt). Qed.

  (* instantiation_error for an unbound bound, type_error(integer, Culprit) for a non-integer one (Lower first);
     a bound third argument fails *)
  Theorem errors : forall l h r s,
    (is_var r = true -> (is_var l = true \/ is_var h = true) -> random_integer state next l h r s = (OErr EInst, s)) /\
    (is_var r = true -> is_var l = false -> is_var h = false -> (forall z, l <> Int z) -> random_integer state next l h r s = (OErr (ETypeInt l), s)) /\
    (is_var r = true -> is_var h = false -> (forall z, h <> Int z) -> forall lz, l = Int lz -> random_integer state next l h r s = (OErr (ETypeInt h), s)) /\
    (is_var r = false -> random_integer state next l h r s = (OFail, s)).
  Proof. exact (errors_thm state next). Qed.

  (* random/1 yields K / 2^50 with 0 <= K < 2^50 ... *)
  Theorem random_float_is_k_over_2_50 : forall v s, exists k s', Model.random state next (Var v) s = (OFlt k, s') /\ (k < 2 ^ 50)%N.
  Proof. exact (random_float_thm state next next_lt). Qed.

  (* after set_random(seed(S)) the outputs are a function of S and the call sequence (the history before is irrelevant) *)
  Theorem reproducible : forall s1 s2 z cs,
    fst (run state next flip seed s1 (CSetRandom (seed_term z) :: cs)) = fst (run state next flip seed s2 (CSetRandom (seed_term z) :: cs)).
  Proof. exact (reproducible_thm state next flip seed). Qed.

  Theorem seeds_equal_mod_2_64 : forall s1 s2 z z' cs, z mod two64 = z' mod two64 ->
    fst (run state next flip seed s1 (CSetRandom (seed_term z) :: cs)) = fst (run state next flip seed s2 (CSetRandom (seed_term z') :: cs)).
  Proof. exact (seed_mod_2_64_thm state next flip seed). Qed.

  (* goals that do not use the generator may be interleaved anywhere *)
  Theorem interleaving_irrelevant : forall cs s,
    random_outputs cs (fst (run state next flip seed s cs)) = fst (run state next flip seed s (filter is_random_call cs)).
  Proof. exact (interleaving_irrelevant_thm state next flip seed). Qed.

  (* the comparison functions of the correspondence accept every behaviour of the model, for every generator *)
  Theorem check_run_sound : forall cs s bs,
    Forall2 obs_matches (fst (run state next flip seed s cs)) bs -> check_run cs bs = true.
  Proof. exact (check_run_sound_thm state next flip seed next_lt). Qed.
End Generator.
Print Assumptions random_integer_in_range.
Print Assumptions random_integer_succeeds.
Print Assumptions fails_on_empty_range.
Print Assumptions errors.
Print Assumptions random_float_is_k_over_2_50.
Print Assumptions reproducible.
Print Assumptions seeds_equal_mod_2_64.
Print Assumptions interleaving_irrelevant.
Print Assumptions check_run_sound.

(* ... and that number lies in [0,1) and is a binary64 number (significand below 2^53, exponent -50 within range) *)
Theorem random_float_in_unit_interval : forall k, (k < 2 ^ 50)%N ->
  (0 <= qk k)%Q /\ (qk k < 1)%Q /\ (Z.of_N k < 2 ^ 53 /\ -1074 <= -50 <= 971).
Proof. exact unit_interval_thm. Qed.
Print Assumptions random_float_in_unit_interval.

(* the decoder used on observed floats: a bit pattern it accepts IS K / 2^50 with K < 2^50
   ((2^52 + mantissa) * 2^(exponent - 1075) = K * 2^-50), below 1.0 *)
Theorem observed_float_decoding : forall bits k, 0 <= bits -> float_k50 bits = Some k ->
  (k < 2 ^ 50)%N /\
  (bits <> 0 -> Z.of_N k * 2 ^ (1025 - bits / 2 ^ 52) = 2 ^ 52 + bits mod 2 ^ 52 /\ 0 < bits / 2 ^ 52 < 1023).
Proof. exact float_k50_spec. Qed.
Print Assumptions observed_float_decoding.

(* the check is not looser than the model: every integer it accepts is produced by some generator with the contract *)
Theorem check_complete_int : forall l h v x,
  check_call (CRandInt (Int l) (Int h) (Var v)) (BInt x) = true ->
  exists next : unit -> N -> N * unit,
    (forall s b, (0 < b)%N -> (fst (next s b) < b)%N) /\
    random_integer unit next (Int l) (Int h) (Var v) tt = (OInt x, tt).
Proof. exact check_complete_int_thm. Qed.
Print Assumptions check_complete_int.

(* ---- non-vacuity: a concrete generator satisfying the contract (a counter), and the model running on it *)
Definition ex_next (s : N) (b : N) : N * N := ((s mod b)%N, (s * 6364136223846793005 + 1442695040888963407)%N).
Example ex_contract : forall s b, (0 < b)%N -> (fst (ex_next s b) < b)%N.
Proof. intros s b Hb. cbn [ex_next fst]. apply N.mod_lt. intros ->. inversion Hb. Qed.
Example ex_run :
  fst (run N ex_next (fun s => (N.even s, (s + 1)%N)) (fun n => n) 7%N
         [CSetRandom (seed_term (-1)); CRandInt (Int (2 ^ 70)) (Int (2 ^ 70 + 10)) (Var 0); COther; CRandom (Var 0);
          CRandInt (Int 5) (Int 5) (Var 0); CRandInt (Var 1) (Int 5) (Var 0); CRandInt (Atom [102%N]) (Int 5) (Var 0); CSetRandom (Atom [102%N])])
  = [OTrue; OInt (2 ^ 70 + 5); OTrue; OFlt 993209758122530; OFail; OErr EInst; OErr (ETypeInt (Atom [102%N])); OFail].
Proof. vm_compute. reflexivity. Qed.
Example ex_float_decode : float_k50 4602678819172646912 = Some (2 ^ 49)%N /\ float_k50 4607182418800017408 = None /\ float_k50 0 = Some 0%N.
Proof. vm_compute. repeat split. Qed.
