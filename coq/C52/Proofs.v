(* C52 -- proofs about the model of library(random) *)
From Coq Require Import ZArith NArith List Bool QArith Lia.
From V Require Import Base.Term C52.Model.
Import ListNotations.
Open Scope Z_scope.

Lemma two50_pos : 0 < two50.
Proof. unfold two50. apply Z.pow_pos_nonneg; lia. Qed.

Section Gen.
  Variable state : Type.
  Variable next : state -> N -> N * state.
  Variable flip : state -> bool * state.
  Variable seed : N -> state.
  (* gen_range's contract: a draw below a positive bound is below the bound *)
  Hypothesis next_lt : forall s b, (0 < b)%N -> (fst (next s b) < b)%N.

  Notation prim := (prim_random_integer state next).
  Notation rint := (random_integer state next).
  Notation rnd := (Model.random state next).
  Notation setr := (set_random state seed).
  Notation stp := (step state next flip seed).
  Notation rn := (run state next flip seed).

  Lemma prim_spec : forall l h s,
    (h <= l /\ prim l h s = (OFail, s)) \/
    (l < h /\ exists x s', prim l h s = (OInt x, s') /\ l <= x < h).
  Proof.
    intros l h s. unfold prim_random_integer. destruct (Z.ltb l h) eqn:E.
    - apply Z.ltb_lt in E. right. split; [exact E|].
      pose proof (next_lt s (Z.to_N (h - l))) as Hn.
      destruct (next s (Z.to_N (h - l))) as [k s'] eqn:En. cbn [fst] in Hn.
      exists (l + Z.of_N k), s'. split; [reflexivity|].
      assert (Hk : (k < Z.to_N (h - l))%N) by (apply Hn; lia).
      assert (Z.of_N k < h - l) by lia. lia.
    - apply Z.ltb_ge in E. left. split; [exact E | reflexivity].
  Qed.

  Theorem random_integer_in_range_thm : forall l h v s x s',
    rint (Int l) (Int h) (Var v) s = (OInt x, s') -> l <= x < h.
  Proof.
    intros l h v s x s' H. cbn [random_integer is_var negb orb] in H.
    destruct (prim_spec l h s) as [[_ Hp] | [_ (x0 & s0 & Hp & Hr)]]; rewrite Hp in H.
    - discriminate.
    - injection H as <- _. exact Hr.
  Qed.

  Theorem random_integer_succeeds_thm : forall l h v s, l < h ->
    exists x s', rint (Int l) (Int h) (Var v) s = (OInt x, s') /\ l <= x < h.
  Proof.
    intros l h v s Hlt. cbn [random_integer is_var negb orb].
    destruct (prim_spec l h s) as [[Hge _] | [_ (x0 & s0 & Hp & Hr)]]; [lia|].
    exists x0, s0. split; assumption.
  Qed.

  Theorem fails_on_empty_range_thm : forall l h v s, h <= l -> rint (Int l) (Int h) (Var v) s = (OFail, s).
  Proof.
    intros l h v s Hge. cbn [random_integer is_var negb orb].
    destruct (prim_spec l h s) as [[_ Hp] | [Hlt _]]; [exact Hp | lia].
  Qed.

  Theorem errors_thm : forall l h r s,
    (is_var r = true -> (is_var l = true \/ is_var h = true) -> rint l h r s = (OErr EInst, s)) /\
    (is_var r = true -> is_var l = false -> is_var h = false -> (forall z, l <> Int z) -> rint l h r s = (OErr (ETypeInt l), s)) /\
    (is_var r = true -> is_var h = false -> (forall z, h <> Int z) -> forall lz, l = Int lz -> rint l h r s = (OErr (ETypeInt h), s)) /\
    (is_var r = false -> rint l h r s = (OFail, s)).
  Proof.
    intros l h r s. repeat split.
    - intros Hr Hv. unfold random_integer. rewrite Hr. cbn [negb].
      destruct Hv as [Hv|Hv]; rewrite Hv; [reflexivity | rewrite orb_true_r; reflexivity].
    - intros Hr Hl Hh Hn. unfold random_integer. rewrite Hr, Hl, Hh. cbn [negb orb].
      destruct l; try reflexivity. elim (Hn z). reflexivity.
    - intros Hr Hh Hn lz ->. unfold random_integer. rewrite Hr, Hh. cbn [negb orb is_var].
      destruct h; try reflexivity. elim (Hn z). reflexivity.
    - intros Hr. unfold random_integer. rewrite Hr. reflexivity.
  Qed.

  Theorem random_float_thm : forall v s, exists k s', rnd (Var v) s = (OFlt k, s') /\ (k < 2 ^ 50)%N.
  Proof.
    intros v s. unfold Model.random. cbn [is_var].
    destruct (prim_spec 0 two50 s) as [[Hge _] | [_ (x & s' & Hp & Hr)]]; [pose proof two50_pos; lia|].
    rewrite Hp. exists (Z.to_N x), s'. split; [reflexivity|].
    unfold two50 in Hr. change (2 ^ 50)%N with (Z.to_N (2 ^ 50)). lia.
  Qed.

  Lemma run_cons : forall s c r,
    fst (rn s (c :: r)) = fst (stp s c) :: fst (rn (snd (stp s c)) r) /\
    snd (rn s (c :: r)) = snd (rn (snd (stp s c)) r).
  Proof.
    intros s c r. cbn [run]. destruct (stp s c) as [o s']. cbn [fst snd]. destruct (rn s' r) as [os s'']. split; reflexivity.
  Qed.

  Lemma step_set_seed : forall s z, stp s (CSetRandom (seed_term z)) = (OTrue, seed (Z.to_N (z mod two64))).
  Proof. reflexivity. Qed.

  (* after set_random(seed(S)) the outputs are a function of S and of the calls: the earlier history is irrelevant *)
  Theorem reproducible_thm : forall s1 s2 z cs,
    fst (rn s1 (CSetRandom (seed_term z) :: cs)) = fst (rn s2 (CSetRandom (seed_term z) :: cs)).
  Proof.
    intros s1 s2 z cs.
    destruct (run_cons s1 (CSetRandom (seed_term z)) cs) as [H1 _].
    destruct (run_cons s2 (CSetRandom (seed_term z)) cs) as [H2 _].
    rewrite H1, H2, !step_set_seed. reflexivity.
  Qed.

  Theorem seed_mod_2_64_thm : forall s1 s2 z z' cs, z mod two64 = z' mod two64 ->
    fst (rn s1 (CSetRandom (seed_term z) :: cs)) = fst (rn s2 (CSetRandom (seed_term z') :: cs)).
  Proof.
    intros s1 s2 z z' cs Hm.
    destruct (run_cons s1 (CSetRandom (seed_term z)) cs) as [H1 _].
    destruct (run_cons s2 (CSetRandom (seed_term z')) cs) as [H2 _].
    rewrite H1, H2, !step_set_seed, Hm. reflexivity.
  Qed.

  (* goals that do not touch the generator can be interleaved freely *)
  Theorem interleaving_irrelevant_thm : forall cs s,
    random_outputs cs (fst (rn s cs)) = fst (rn s (filter is_random_call cs)).
  Proof.
    induction cs as [|c cs IH]; intros s; [reflexivity|].
    destruct (run_cons s c cs) as [H1 _]. rewrite H1. cbn [random_outputs filter].
    destruct c; cbn [is_random_call].
    1-4: match goal with |- _ = fst (run _ _ _ _ ?s0 (?c :: ?r)) => destruct (run_cons s0 c r) as [H2 _]; rewrite H2 end; rewrite IH; reflexivity.
    cbn [step snd]. apply IH.
  Qed.

  (* the comparison function accepts every behaviour of the model, whatever the generator *)
  Lemma term_eqb_refl : forall t, term_eqb t t = true.
  Proof.
    induction t as [v|z|n d|b|a|f args IH] using term_ind'; cbn [term_eqb].
    - apply N.eqb_refl.
    - apply Z.eqb_refl.
    - rewrite !Z.eqb_refl. reflexivity.
    - apply Z.eqb_refl.
    - unfold name_eqb. induction a as [|x a IHa]; cbn [list_eqb]; [reflexivity | rewrite N.eqb_refl; exact IHa].
    - apply andb_true_iff. split.
      + unfold name_eqb. induction f as [|x f IHf]; cbn [list_eqb]; [reflexivity | rewrite N.eqb_refl; exact IHf].
      + induction IH as [|x l Hx Hl IHl]; [reflexivity | rewrite Hx; exact IHl].
  Qed.

  Theorem check_call_sound_thm : forall c s b, obs_matches (fst (stp s c)) b -> check_call c b = true.
  Proof.
    intros c s b H. destruct c as [l h r | r | a | | ]; cbn [step check_call] in *.
    - unfold random_integer in H. destruct (is_var r); cbn [negb] in *.
      + destruct (is_var l || is_var h).
        * cbn [fst obs_matches] in H. destruct b; try contradiction. reflexivity.
        * destruct l; try (cbn [fst obs_matches] in H; destruct b; try contradiction; subst; apply term_eqb_refl).
          destruct h; try (cbn [fst obs_matches] in H; destruct b; try contradiction; subst; apply term_eqb_refl).
          destruct (prim_spec z z0 s) as [[Hge Hp] | [Hlt (x & s' & Hp & Hr)]]; rewrite Hp in H; cbn [fst obs_matches] in H.
          -- destruct (Z.ltb z z0) eqn:E; [apply Z.ltb_lt in E; lia|]. destruct b; try contradiction. reflexivity.
          -- destruct (Z.ltb z z0) eqn:E; [|apply Z.ltb_ge in E; lia]. destruct b; try contradiction. subst.
             apply andb_true_iff. split; [apply Z.leb_le | apply Z.ltb_lt]; lia.
      + cbn [fst obs_matches] in H. destruct b; try contradiction. reflexivity.
    - destruct r; try (cbn [Model.random is_var fst obs_matches] in H; destruct b; try contradiction; reflexivity).
      destruct (random_float_thm v s) as (k & s' & Hk & Hlt). rewrite Hk in H. cbn [fst obs_matches] in H. cbn [is_var].
      destruct b; try contradiction. rewrite H. apply N.ltb_lt. exact Hlt.
    - unfold set_random in H. destruct a as [v|z|n d|bb|at_|f args]; cbn [fst obs_matches] in H; try (destruct b; try contradiction; reflexivity).
      destruct args as [|x [|y args]]; try (cbn [fst obs_matches] in H; destruct b; try contradiction; reflexivity).
      destruct (name_eqb f seed_name); [|cbn [fst obs_matches] in H; destruct b; try contradiction; reflexivity].
      destruct x; cbn [fst obs_matches] in H; destruct b; try contradiction; try reflexivity; subst; apply term_eqb_refl.
    - unfold maybe in H. destruct (flip s) as [bb s']. destruct bb; cbn [fst obs_matches] in H; destruct b; try contradiction; reflexivity.
    - cbn [fst obs_matches] in H. destruct b; try contradiction. reflexivity.
  Qed.

  Theorem check_run_sound_thm : forall cs s bs, Forall2 obs_matches (fst (rn s cs)) bs -> check_run cs bs = true.
  Proof.
    induction cs as [|c cs IH]; intros s bs H.
    - cbn [run fst] in H. inversion H. reflexivity.
    - destruct (run_cons s c cs) as [H1 _]. rewrite H1 in H. inversion H as [|o b os bs' Hob Hrest]; subst.
      cbn [check_run]. rewrite (check_call_sound_thm c s b Hob). cbn [andb]. exact (IH _ _ Hrest).
  Qed.
End Gen.

(* ------------------------------------------------------------------ the comparison is not looser than the model *)
(* every integer the check accepts is produced by some generator honouring the contract *)
Theorem check_complete_int_thm : forall l h v x,
  check_call (CRandInt (Int l) (Int h) (Var v)) (BInt x) = true ->
  exists next : unit -> N -> N * unit,
    (forall s b, (0 < b)%N -> (fst (next s b) < b)%N) /\
    random_integer unit next (Int l) (Int h) (Var v) tt = (OInt x, tt).
Proof.
  intros l h v x H. cbn [check_call is_var negb orb] in H.
  destruct (Z.ltb l h) eqn:E; [|discriminate]. apply Z.ltb_lt in E.
  apply andb_true_iff in H. destruct H as [H1 H2]. apply Z.leb_le in H1. apply Z.ltb_lt in H2.
  exists (fun _ b => ((if (Z.to_N (x - l) <? b)%N then Z.to_N (x - l) else 0%N), tt)). split.
  - intros s b Hb. cbn [fst]. destruct (Z.to_N (x - l) <? b)%N eqn:Eb; [apply N.ltb_lt in Eb; exact Eb | exact Hb].
  - cbn [random_integer is_var negb orb]. unfold prim_random_integer.
    assert (El : Z.ltb l h = true) by (apply Z.ltb_lt; exact E). rewrite El.
    assert (Eb : (Z.to_N (x - l) <? Z.to_N (h - l))%N = true) by (apply N.ltb_lt; lia). rewrite Eb.
    f_equal. f_equal. lia.
Qed.

(* ------------------------------------------------------------------ floats K / 2^50 *)
Lemma float_k50_spec : forall bits k, 0 <= bits -> float_k50 bits = Some k ->
  (k < 2 ^ 50)%N /\
  (bits <> 0 -> Z.of_N k * 2 ^ (1025 - bits / 2 ^ 52) = 2 ^ 52 + bits mod 2 ^ 52 /\ 0 < bits / 2 ^ 52 < 1023).
Proof.
  intros bits k Hb H. unfold float_k50 in H.
  destruct (bits =? 0) eqn:E0.
  - injection H as <-. apply Z.eqb_eq in E0. split; [reflexivity | intros Hn; contradiction].
  - apply Z.eqb_neq in E0.
    set (ex := bits / 2 ^ 52) in *. set (man := bits mod 2 ^ 52) in *.
    destruct ((ex <=? 0) || (1023 <=? ex)) eqn:Ec; [discriminate|].
    apply orb_false_iff in Ec. destruct Ec as [Ec1 Ec2]. apply Z.leb_gt in Ec1. apply Z.leb_gt in Ec2.
    destruct ((2 ^ 52 + man) mod 2 ^ (1025 - ex) =? 0) eqn:Em; [|discriminate].
    apply Z.eqb_eq in Em.
    assert (Hk : k = Z.to_N ((2 ^ 52 + man) / 2 ^ (1025 - ex))) by congruence. clear H. subst k.
    assert (Hman : 0 <= man < 2 ^ 52) by (apply Z.mod_pos_bound; apply Z.pow_pos_nonneg; lia).
    assert (Hp : 0 < 2 ^ (1025 - ex)) by (apply Z.pow_pos_nonneg; lia).
    assert (H8 : 2 ^ 3 <= 2 ^ (1025 - ex)) by (apply Z.pow_le_mono_r; lia).
    assert (Hq : 0 <= (2 ^ 52 + man) / 2 ^ (1025 - ex)) by (apply Z.div_pos; lia).
    assert (Hlt : (2 ^ 52 + man) / 2 ^ (1025 - ex) < 2 ^ 50).
    { apply Z.div_lt_upper_bound; [exact Hp|].
      assert (H53 : 2 ^ 52 + man < 2 ^ 3 * 2 ^ 50) by (change (2 ^ 3 * 2 ^ 50) with (2 * 2 ^ 52) ; lia).
      nia. }
    split.
    + change (2 ^ 50)%N with (Z.to_N (2 ^ 50)). lia.
    + intros _. split; [|lia]. rewrite Z2N.id by exact Hq.
      pose proof (Z.div_mod (2 ^ 52 + man) (2 ^ (1025 - ex))) as Hd. rewrite Em in Hd. lia.
Qed.

(* K / 2^50 with 0 <= K < 2^50 lies in [0,1) and is a binary64 number (53-bit significand, exponent -50) *)
Definition qk (k : N) : Q := Qmake (Z.of_N k) 1125899906842624.

Theorem unit_interval_thm : forall k, (k < 2 ^ 50)%N ->
  (0 <= qk k)%Q /\ (qk k < 1)%Q /\ (Z.of_N k < 2 ^ 53 /\ -1074 <= -50 <= 971).
Proof.
  intros k Hk. unfold qk, Qle, Qlt. cbn [Qnum Qden].
  assert (Hk' : Z.of_N k < 2 ^ 50) by (change (2 ^ 50) with (Z.of_N (2 ^ 50)); lia).
  change (Z.pos 1125899906842624) with (2 ^ 50).
  assert (2 ^ 50 < 2 ^ 53) by (apply Z.pow_lt_mono_r; lia).
  repeat split; lia.
Qed.
