(* Shared term datatype of the reference models.  No proofs about properties here; only the datatype,
   its induction principle and a few structural functions. *)
From Coq Require Import ZArith NArith List Bool.
Import ListNotations.

Inductive term :=
| Var (v : N)                      (* a variable, identified by a number *)
| Int (z : Z)                      (* an integer of any size (small integer or bignum: one value) *)
| Rat (n : Z) (d : Z)              (* a rational in lowest terms with d > 1 *)
| Flt (bits : Z)                   (* a finite IEEE-754 binary64 given by its bit pattern, 0 <= bits < 2^64 *)
| Atom (s : list N)                (* an atom: its code points *)
| Cmp (f : list N) (args : list term).   (* compound term, args <> []; lists are '.'/2 chains ending in '[]';
                                            strings are lists of one-character atoms *)

(* induction principle that reaches the arguments of compounds *)
Section term_ind_nested.
  Variable P : term -> Prop.
  Hypothesis HVar : forall v, P (Var v).
  Hypothesis HInt : forall z, P (Int z).
  Hypothesis HRat : forall n d, P (Rat n d).
  Hypothesis HFlt : forall b, P (Flt b).
  Hypothesis HAtom : forall s, P (Atom s).
  Hypothesis HCmp : forall f args, Forall P args -> P (Cmp f args).
  Fixpoint term_ind' (t : term) : P t :=
    match t with
    | Var v => HVar v | Int z => HInt z | Rat n d => HRat n d | Flt b => HFlt b | Atom s => HAtom s
    | Cmp f args => HCmp f args ((fix go (l : list term) : Forall P l :=
                                    match l with [] => Forall_nil P | x :: r => Forall_cons x (term_ind' x) (go r) end) args)
    end.
End term_ind_nested.

Definition dot : list N := [46%N].
Definition nil_name : list N := [91%N; 93%N].
Definition tnil : term := Atom nil_name.
Definition tcons (h t : term) : term := Cmp dot [h; t].
(* a Prolog list with the given tail *)
Fixpoint tlist_tail (l : list term) (tail : term) : term :=
  match l with [] => tail | x :: r => tcons x (tlist_tail r tail) end.
Definition tlist (l : list term) : term := tlist_tail l tnil.
Definition tchar (c : N) : term := Atom [c].
Definition tstring (s : list N) : term := tlist (map tchar s).

Fixpoint list_eqb {A} (eqb : A -> A -> bool) (a b : list A) : bool :=
  match a, b with
  | [], [] => true
  | x :: a', y :: b' => eqb x y && list_eqb eqb a' b'
  | _, _ => false
  end.
Definition name_eqb : list N -> list N -> bool := list_eqb N.eqb.

Fixpoint term_eqb (a b : term) : bool :=
  match a, b with
  | Var x, Var y => N.eqb x y
  | Int x, Int y => Z.eqb x y
  | Rat n d, Rat n' d' => Z.eqb n n' && Z.eqb d d'
  | Flt x, Flt y => Z.eqb x y
  | Atom s, Atom s' => name_eqb s s'
  | Cmp f l, Cmp f' l' => name_eqb f f' &&
      (fix go (l l' : list term) : bool :=
         match l, l' with
         | [], [] => true
         | x :: r, y :: r' => term_eqb x y && go r r'
         | _, _ => false
         end) l l'
  | _, _ => false
  end.

Fixpoint term_size (t : term) : nat :=
  match t with
  | Cmp _ args => S (fold_right (fun x n => term_size x + n) 0 args)
  | _ => 1
  end.

(* decompose a '.'/2 chain: elements and the tail (the first non-cons term) *)
Fixpoint list_view (fuel : nat) (t : term) : list term * term :=
  match fuel with
  | O => ([], t)
  | S k => match t with
           | Cmp [46%N] [h; r] => let (l, tl) := list_view k r in (h :: l, tl)
           | _ => ([], t)
           end
  end.
Definition as_list (t : term) : option (list term) :=
  let (l, tl) := list_view (term_size t) t in
  match tl with Atom [91%N; 93%N] => Some l | _ => None end.
