(* C51 -- lemmas: integer text, quoted fields, fields, rows, tables *)
From Coq Require Import ZArith NArith List Bool Lia Decimal DecimalZ DecimalPos.
From V Require Import C51.Model.
Import ListNotations.
Open Scope N_scope.

(* ------------------------------------------------------------------ integers *)
Lemma uint_roundtrip u : uint_of_chars (chars_of_uint u) = Some u.
Proof. induction u; cbn [chars_of_uint uint_of_chars]; [reflexivity | rewrite IHu; reflexivity ..]. Qed.

Lemma chars_of_uint_digits u : forallb is_digit (chars_of_uint u) = true.
Proof. induction u; cbn [chars_of_uint forallb]; [reflexivity | rewrite IHu; reflexivity ..]. Qed.

Lemma chars_of_uint_nonnil u : u <> Nil -> chars_of_uint u <> [].
Proof. destruct u; cbn [chars_of_uint]; congruence. Qed.

Lemma dig_digit c d : dig c = Some d -> is_digit c = true.
Proof.
  unfold dig.
  repeat (match goal with |- context [N.eqb c ?k] => destruct (N.eqb_spec c k) as [->|_]; [intros _; reflexivity|] end).
  discriminate.
Qed.

Lemma uint_of_chars_nondigit s c : In c s -> is_digit c = false -> uint_of_chars s = None.
Proof.
  induction s as [|x r IH]; intros I D; [destruct I|].
  cbn [uint_of_chars]. destruct I as [->|I].
  - destruct (dig c) as [d|] eqn:E; auto. apply dig_digit in E. congruence.
  - rewrite (IH I D). destruct (dig x); auto.
Qed.

Lemma digit_not_minus c : is_digit c = true -> c =? MINUS = false.
Proof.
  intro D. destruct (N.eqb_spec c MINUS) as [->|]; auto; try discriminate D.
Qed.

Lemma int_roundtrip z : int_of_chars (print_int z) = Some z.
Proof.
  destruct z as [|p|p].
  - reflexivity.
  - unfold print_int. cbn [Z.to_int].
    pose proof (chars_of_uint_digits (Pos.to_uint p)) as D.
    pose proof (chars_of_uint_nonnil _ (Unsigned.to_uint_nonnil p)) as NN.
    pose proof (uint_roundtrip (Pos.to_uint p)) as R.
    destruct (chars_of_uint (Pos.to_uint p)) as [|c r]; [congruence|].
    unfold int_of_chars. cbn [forallb] in D. apply andb_true_iff in D as [Dc _].
    rewrite (digit_not_minus _ Dc), R. cbn [option_map]. f_equal. exact (DecimalZ.of_to (Z.pos p)).
  - unfold print_int. cbn [Z.to_int].
    pose proof (chars_of_uint_nonnil _ (Unsigned.to_uint_nonnil p)) as NN.
    pose proof (uint_roundtrip (Pos.to_uint p)) as R.
    unfold int_of_chars. rewrite N.eqb_refl.
    destruct (chars_of_uint (Pos.to_uint p)) as [|c r]; [congruence|].
    rewrite R. cbn [option_map]. f_equal. exact (DecimalZ.of_to (Z.neg p)).
Qed.

(* the characters numbers are made of *)
Definition plain (c : N) : bool := (c =? MINUS) || (c =? DOT) || is_digit c.

Lemma digit_plain c : is_digit c = true -> plain c = true.
Proof. intro D. unfold plain. rewrite D. apply orb_true_r. Qed.

Lemma forallb_digit_plain s : forallb is_digit s = true -> forallb plain s = true.
Proof.
  induction s as [|c r IH]; cbn [forallb]; auto. intro H. apply andb_true_iff in H as [A B].
  rewrite (digit_plain _ A), (IH B). reflexivity.
Qed.

Lemma print_int_plain z : forallb plain (print_int z) = true.
Proof.
  unfold print_int. destruct (Z.to_int z) as [u|u].
  - apply forallb_digit_plain, chars_of_uint_digits.
  - cbn [forallb]. rewrite (forallb_digit_plain _ (chars_of_uint_digits u)). reflexivity.
Qed.

Lemma print_int_nonnil z : print_int z <> [].
Proof.
  pose proof (int_roundtrip z) as R. intro E. rewrite E in R. discriminate R.
Qed.

(* a plain character is never a delimiter, a quote or layout *)
Lemma plain_cases c : plain c = true -> c = MINUS \/ c = DOT \/ is_digit c = true.
Proof.
  unfold plain. intro H. apply orb_true_iff in H as [H|H]; [apply orb_true_iff in H as [H|H]|]; auto.
  - left. apply N.eqb_eq. auto.
  - right. left. apply N.eqb_eq. auto.
Qed.

Lemma digit_range c : is_digit c = true -> 48 <= c <= 57.
Proof. unfold is_digit. intro H. apply andb_true_iff in H as [A B]. apply N.leb_le in A, B. lia. Qed.

Lemma plain_not_token_end sep c : sep_ok sep = true -> plain c = true ->
  (c =? sep) || (c =? CR) || (c =? LF) = false.
Proof.
  unfold sep_ok. intros S P. apply negb_true_iff in S.
  repeat (apply orb_false_iff in S as [S ?]).
  destruct (N.eqb_spec c sep) as [->|_].
  - exfalso. destruct (plain_cases _ P) as [E|[E|E]].
    + subst. discriminate.
    + subst. discriminate.
    + congruence.
  - destruct (plain_cases _ P) as [->|[->|E]]; [reflexivity | reflexivity |].
    apply digit_range in E. unfold CR, LF.
    destruct (N.eqb_spec c 13); [lia|]. destruct (N.eqb_spec c 10); [lia|]. reflexivity.
Qed.

Lemma plain_not_special c : plain c = true -> (c =? QUOTE) = false /\ (c =? SP) || (c =? TAB) = false.
Proof.
  intro P. destruct (plain_cases _ P) as [->|[->|E]]; [split; reflexivity | split; reflexivity |].
  apply digit_range in E. unfold QUOTE, SP, TAB.
  destruct (N.eqb_spec c 34); [lia|]. destruct (N.eqb_spec c 32); [lia|]. destruct (N.eqb_spec c 9); [lia|]. auto.
Qed.

(* float literals *)
Lemma is_frac_plain b s : is_frac b s = true -> forallb is_digit s = true.
Proof.
  revert b. induction s as [|c r IH]; intros b H; cbn [is_frac forallb] in *; auto.
  apply andb_true_iff in H as [A B]. rewrite A, (IH _ B). reflexivity.
Qed.

Lemma is_unsigned_float_facts b s : is_unsigned_float b s = true -> In DOT s /\ forallb plain s = true.
Proof.
  revert b. induction s as [|c r IH]; intros b H; cbn [is_unsigned_float] in H; [discriminate|].
  destruct (N.eqb_spec c DOT) as [->|N].
  - apply andb_true_iff in H as [_ H]. split; [left; auto|].
    cbn [forallb]. rewrite (forallb_digit_plain _ (is_frac_plain _ _ H)). reflexivity.
  - apply andb_true_iff in H as [A B]. destruct (IH _ B) as [I P]. split; [right; auto|].
    cbn [forallb]. rewrite (digit_plain _ A), P. reflexivity.
Qed.

Lemma float_lit_facts l : is_float_lit l = true ->
  l <> [] /\ forallb plain l = true /\ int_of_chars l = None.
Proof.
  destruct l as [|c r]; [discriminate|]. unfold is_float_lit. intro H.
  split; [discriminate|].
  destruct (N.eqb_spec c MINUS) as [->|N].
  - destruct (is_unsigned_float_facts _ _ H) as [I P]. split.
    + cbn [forallb]. rewrite P. reflexivity.
    + unfold int_of_chars. rewrite N.eqb_refl. destruct r as [|d r']; auto.
      rewrite (uint_of_chars_nondigit _ DOT I); reflexivity.
  - destruct (is_unsigned_float_facts _ _ H) as [I P]. split; auto.
    unfold int_of_chars. apply N.eqb_neq in N. rewrite N.
    rewrite (uint_of_chars_nondigit _ DOT I); reflexivity.
Qed.

Lemma drop_layout_plain t : forallb plain t = true -> drop_layout t = t.
Proof.
  destruct t as [|c r]; auto. cbn [forallb drop_layout]. intro H. apply andb_true_iff in H as [P _].
  destruct (plain_not_special _ P) as [_ L]. rewrite L. reflexivity.
Qed.

Lemma typing_int z : typing (print_int z) = FInt z.
Proof. unfold typing. rewrite (drop_layout_plain _ (print_int_plain z)), int_roundtrip. reflexivity. Qed.

Lemma typing_float l : is_float_lit l = true -> typing l = FFlt l.
Proof.
  intro H. destruct (float_lit_facts _ H) as [_ [P I]]. unfold typing.
  rewrite (drop_layout_plain _ P), I, H. reflexivity.
Qed.

(* ------------------------------------------------------------------ quoted fields *)
Definition no_quote_start (rest : list N) : bool := match rest with c :: _ => negb (c =? QUOTE) | [] => true end.

Lemma string_tokens_escape s : forall rest, no_quote_start rest = true ->
  string_tokens (escape s ++ QUOTE :: rest) = Some (s, rest).
Proof.
  induction s as [|c r IH]; intros rest H.
  - cbn [escape List.app string_tokens]. rewrite N.eqb_refl. destruct rest as [|y r']; auto.
    cbn [no_quote_start] in H. apply negb_true_iff in H. rewrite H. reflexivity.
  - cbn [escape]. destruct (N.eqb_spec c QUOTE) as [->|N].
    + cbn [List.app string_tokens]. rewrite !N.eqb_refl. rewrite (IH _ H). reflexivity.
    + cbn [List.app string_tokens]. apply N.eqb_neq in N. rewrite N. rewrite (IH _ H). reflexivity.
Qed.

Lemma quoted_field sep s rest : no_quote_start rest = true ->
  parse_field sep (QUOTE :: escape s ++ QUOTE :: rest) = Some (of_quoted s, rest).
Proof.
  intro H. cbn [parse_field]. rewrite N.eqb_refl, (string_tokens_escape _ _ H). reflexivity.
Qed.

(* ------------------------------------------------------------------ unquoted fields *)
Definition delim (sep : N) (rest : list N) : bool :=
  match rest with [] => true | c :: _ => (c =? sep) || (c =? CR) || (c =? LF) end.
Definition row_end (rest : list N) : bool :=
  match rest with [] => true | c :: _ => (c =? CR) || (c =? LF) end.
Definition tokc (sep : N) (c : N) : bool := negb ((c =? sep) || (c =? CR) || (c =? LF)).

Lemma take_token_app sep t : forall rest, forallb (tokc sep) t = true -> delim sep rest = true ->
  take_token sep (t ++ rest) = (t, rest).
Proof.
  induction t as [|c r IH]; intros rest F D.
  - cbn [List.app]. destruct rest as [|c r]; auto. cbn [delim] in D. cbn [take_token]. rewrite D. reflexivity.
  - cbn [forallb] in F. apply andb_true_iff in F as [A B]. unfold tokc in A. apply negb_true_iff in A.
    cbn [List.app take_token]. rewrite A, (IH _ B D). reflexivity.
Qed.

Lemma plain_tokc sep t : sep_ok sep = true -> forallb plain t = true -> forallb (tokc sep) t = true.
Proof.
  intros S. induction t as [|c r IH]; cbn [forallb]; auto. intro H. apply andb_true_iff in H as [A B].
  unfold tokc at 1. rewrite (plain_not_token_end _ _ S A), (IH B). reflexivity.
Qed.

Lemma sep_not_quote sep : sep_ok sep = true -> (sep =? QUOTE) = false.
Proof.
  unfold sep_ok. intro S. apply negb_true_iff in S. repeat (apply orb_false_iff in S as [S ?]). auto.
Qed.

Lemma sep_not_nl sep : sep_ok sep = true -> (CR =? sep) = false /\ (LF =? sep) = false.
Proof.
  unfold sep_ok. intro S. apply negb_true_iff in S. repeat (apply orb_false_iff in S as [S ?]).
  rewrite (N.eqb_sym CR), (N.eqb_sym LF). auto.
Qed.

Lemma delim_no_quote sep rest : sep_ok sep = true -> delim sep rest = true -> no_quote_start rest = true.
Proof.
  intros S D. destruct rest as [|c r]; auto. cbn [delim] in D. cbn [no_quote_start]. apply negb_true_iff.
  destruct (N.eqb_spec c QUOTE) as [->|]; auto.
  rewrite (N.eqb_sym QUOTE sep), (sep_not_quote _ S) in D. discriminate D.
Qed.

Lemma row_end_delim sep rest : row_end rest = true -> delim sep rest = true.
Proof.
  destruct rest as [|c r]; auto. cbn [row_end delim]. intro H.
  apply orb_true_iff in H as [H|H]; rewrite H; rewrite ?orb_true_r; reflexivity.
Qed.

(* a non-empty token of plain characters is read back with its typing *)
Lemma token_field sep t rest : sep_ok sep = true -> forallb plain t = true -> t <> [] -> delim sep rest = true ->
  parse_field sep (t ++ rest) = Some (typing t, rest).
Proof.
  intros S P NN D. destruct t as [|c r]; [congruence|].
  pose proof (take_token_app sep (c :: r) rest (plain_tokc _ _ S P) D) as T.
  cbn [forallb] in P. apply andb_true_iff in P as [Pc _]. destruct (plain_not_special _ Pc) as [Q _].
  change ((c :: r) ++ rest) with (c :: r ++ rest) in *. unfold parse_field. rewrite Q, T. reflexivity.
Qed.

Lemma null_field sep rest : sep_ok sep = true -> delim sep rest = true -> parse_field sep rest = Some (FNull, rest).
Proof.
  intros S D. destruct rest as [|c r]; auto.
  pose proof (delim_no_quote _ _ S D) as Q. cbn [no_quote_start] in Q. apply negb_true_iff in Q.
  cbn [delim] in D. unfold parse_field. rewrite Q. cbn [take_token]. rewrite D. reflexivity.
Qed.

(* field level round trip (null value empty) *)
Lemma field_rt sep f rest : sep_ok sep = true -> field_ok f = true -> delim sep rest = true ->
  parse_field sep (write_field [] f ++ rest) = Some (f, rest).
Proof.
  intros S F D. destruct f as [|s|z|l]; cbn [write_field].
  - cbn [List.app]. apply null_field; auto.
  - cbn [List.app]. rewrite <- app_assoc. cbn [List.app]. rewrite (quoted_field _ _ _ (delim_no_quote _ _ S D)).
    destruct s; [discriminate F | reflexivity].
  - rewrite (token_field _ _ _ S (print_int_plain z) (print_int_nonnil z) D), typing_int. reflexivity.
  - cbn [field_ok] in F. destruct (float_lit_facts _ F) as [NN [P _]].
    rewrite (token_field _ _ _ S P NN D), (typing_float _ F). reflexivity.
Qed.

(* ------------------------------------------------------------------ rows *)
Lemma write_row_cons sep null f g r :
  write_row sep null (f :: g :: r) = write_field null f ++ sep :: write_row sep null (g :: r).
Proof. reflexivity. Qed.

Lemma fields_rt sep r : sep_ok sep = true -> r <> [] -> forallb field_ok r = true ->
  forall fuel rest, row_end rest = true -> (length r <= fuel)%nat ->
  parse_fields fuel sep (write_row sep [] r ++ rest) = Some (r, rest).
Proof.
  intros S. induction r as [|f r' IH]; intros NN F fuel rest E L; [congruence|].
  cbn [forallb] in F. apply andb_true_iff in F as [Ff Fr].
  destruct fuel as [|k]; [cbn [length] in L; lia|].
  destruct r' as [|g r''].
  - cbn [write_row parse_fields]. rewrite (field_rt _ _ _ S Ff (row_end_delim sep _ E)).
    destruct rest as [|c r]; auto. cbn [row_end] in E.
    destruct (N.eqb_spec c sep) as [->|]; auto.
    destruct (sep_not_nl _ S) as [A B]. rewrite (N.eqb_sym sep CR), (N.eqb_sym sep LF), A, B in E. discriminate E.
  - rewrite write_row_cons, <- app_assoc. cbn [List.app parse_fields].
    rewrite (field_rt sep f _ S Ff); [| cbn [delim]; rewrite N.eqb_refl; reflexivity].
    rewrite N.eqb_refl. rewrite IH; auto; [discriminate | cbn [length] in *; lia].
Qed.

Lemma write_row_length sep null r : (length r <= S (length (write_row sep null r)))%nat.
Proof.
  induction r as [|f r' IH]; [cbn; lia|]. destruct r' as [|g r''].
  - cbn [length]. lia.
  - rewrite write_row_cons, app_length. cbn [length] in *. lia.
Qed.

(* first characters *)
Definition nonl (x : list N) : bool := match x with c :: _ => negb ((c =? CR) || (c =? LF)) | [] => false end.

Lemma nonl_app a b : nonl a = true -> nonl (a ++ b) = true.
Proof. destruct a; [discriminate | auto]. Qed.

Lemma plain_nonl t : forallb plain t = true -> t <> [] -> nonl t = true.
Proof.
  destruct t as [|c r]; [congruence|]. cbn [forallb nonl]. intros H _. apply andb_true_iff in H as [P _].
  destruct (plain_cases _ P) as [->|[->|E]]; [reflexivity | reflexivity |].
  apply digit_range in E. unfold CR, LF. destruct (N.eqb_spec c 13); [lia|]. destruct (N.eqb_spec c 10); [lia|]. reflexivity.
Qed.

Lemma write_field_head f : field_ok f = true -> f = FNull \/ nonl (write_field [] f) = true.
Proof.
  destruct f as [|s|z|l]; intro F; [left; reflexivity | right | right | right]; cbn [write_field].
  - reflexivity.
  - apply plain_nonl; [apply print_int_plain | apply print_int_nonnil].
  - destruct (float_lit_facts _ F) as [NN [P _]]. apply plain_nonl; auto.
Qed.

Lemma write_row_head sep r : sep_ok sep = true -> row_ok r = true -> nonl (write_row sep [] r) = true.
Proof.
  intros S R. destruct r as [|f r']; [discriminate R|]. unfold row_ok in R.
  apply andb_true_iff in R as [NR F]. cbn [forallb] in F. apply andb_true_iff in F as [Ff _].
  destruct r' as [|g r''].
  - cbn [write_row]. destruct (write_field_head _ Ff) as [->|H]; [discriminate NR | auto].
  - rewrite write_row_cons. destruct (write_field_head _ Ff) as [->|H].
    + cbn [write_field List.app nonl]. destruct (sep_not_nl _ S) as [A B].
      rewrite (N.eqb_sym sep CR), (N.eqb_sym sep LF), A, B. reflexivity.
    + apply nonl_app. auto.
Qed.

Lemma write_rows_cons sep lsep null r r2 rs :
  write_rows sep lsep null (r :: r2 :: rs) = write_row sep null r ++ lsep ++ write_rows sep lsep null (r2 :: rs).
Proof. reflexivity. Qed.

Lemma write_rows_head sep lsep rows : sep_ok sep = true -> rows <> [] -> forallb row_ok rows = true ->
  nonl (write_rows sep lsep [] rows) = true.
Proof.
  intros S NN F. destruct rows as [|r rs]; [congruence|]. cbn [forallb] in F. apply andb_true_iff in F as [Fr _].
  destruct rs as [|r2 rs'].
  - cbn [write_rows]. apply write_row_head; auto.
  - rewrite write_rows_cons. apply nonl_app. apply write_row_head; auto.
Qed.

Lemma nonl_length x : nonl x = true -> (1 <= length x)%nat.
Proof. destruct x; [discriminate | cbn; lia]. Qed.

Lemma write_rows_length sep lsep rows : sep_ok sep = true -> forallb row_ok rows = true ->
  (length rows <= length (write_rows sep lsep [] rows))%nat.
Proof.
  intros S. induction rows as [|r rs IH]; intro F; [cbn; lia|].
  cbn [forallb] in F. apply andb_true_iff in F as [Fr Frs].
  pose proof (nonl_length _ (write_row_head _ _ S Fr)) as L.
  destruct rs as [|r2 rs'].
  - cbn [write_rows length]. lia.
  - rewrite write_rows_cons, !app_length. specialize (IH Frs). cbn [length] in *. lia.
Qed.

(* end_token *)
Definition nolf (x : list N) : bool := match x with c :: _ => negb (c =? LF) | [] => true end.

Lemma nonl_nolf x : nonl x = true -> nolf x = true.
Proof.
  destruct x as [|c r]; [discriminate|]. cbn [nonl nolf]. intro H. apply negb_true_iff in H.
  apply orb_false_iff in H as [_ H]. rewrite H. reflexivity.
Qed.

Lemma et_alts_lsep lsep x : lsep_ok lsep = true -> nolf x = true -> exists l, et_alts (lsep ++ x) = x :: l.
Proof.
  intros L X. destruct lsep as [|c [|d [|e r]]]; try discriminate L; cbn [lsep_ok] in L.
  - apply orb_true_iff in L as [L|L]; apply N.eqb_eq in L; subst c.
    + unfold et_alts. cbn [List.app]. destruct x as [|y r]; eexists; cbn; reflexivity.
    + unfold et_alts. cbn [List.app]. destruct x as [|y r]; [eexists; cbn; reflexivity|].
      cbn [nolf] in X. apply negb_true_iff in X. rewrite N.eqb_refl, X. eexists. cbn. reflexivity.
  - apply andb_true_iff in L as [A B]. apply N.eqb_eq in A, B. subst c d.
    unfold et_alts. cbn [List.app]. rewrite !N.eqb_refl. eexists. cbn. reflexivity.
Qed.

Lemma et_alts_nonl x : nonl x = true -> et_alts x = [x].
Proof.
  destruct x as [|c r]; [discriminate|]. cbn [nonl]. intro H. apply negb_true_iff in H.
  apply orb_false_iff in H as [A B]. unfold et_alts. rewrite A, B.
  destruct r; cbn [andb List.app]; reflexivity.
Qed.

Lemma et_first_lsep lsep x : lsep_ok lsep = true -> nolf x = true -> et_first (lsep ++ x) = x.
Proof. intros L X. unfold et_first. destruct (et_alts_lsep _ _ L X) as [l ->]. reflexivity. Qed.

Lemma lsep_row_end lsep x : lsep_ok lsep = true -> row_end (lsep ++ x) = true.
Proof.
  intro L. destruct lsep as [|c [|d [|e r]]]; try discriminate L; cbn [lsep_ok] in L; cbn [List.app row_end].
  - rewrite orb_comm. exact L.
  - apply andb_true_iff in L as [A _]. rewrite A. reflexivity.
Qed.

Lemma row_ok_not_null r : row_ok r = true -> is_null_row r = false /\ r <> [] /\ forallb field_ok r = true.
Proof.
  destruct r as [|f r']; [discriminate|]. unfold row_ok. intro H. apply andb_true_iff in H as [A B].
  apply negb_true_iff in A. repeat split; auto. discriminate.
Qed.

(* rows level round trip *)
Lemma rows_rt sep lsep rows : sep_ok sep = true -> lsep_ok lsep = true -> rows <> [] -> forallb row_ok rows = true ->
  forall fuel, (S (length rows) <= fuel)%nat ->
  parse_rows fuel sep (write_rows sep lsep [] rows) = Some (rows, []).
Proof.
  intros S L. induction rows as [|r rs IH]; intros NN F fuel LE; [congruence|].
  cbn [forallb] in F. apply andb_true_iff in F as [Fr Frs].
  destruct (row_ok_not_null _ Fr) as [NR [RN FF]].
  destruct fuel as [|k]; [lia|]. cbn [length] in LE.
  destruct rs as [|r2 rs'].
  - cbn [write_rows parse_rows].
    rewrite <- (app_nil_r (write_row sep [] r)) at 2.
    rewrite (fields_rt sep r S RN FF _ [] eq_refl); [| apply write_row_length].
    rewrite NR. change (et_first []) with (@nil N).
    destruct k as [|k']; [lia|]. cbn. reflexivity.
  - rewrite write_rows_cons. cbn [parse_rows].
    rewrite (fields_rt sep r S RN FF _ _ (lsep_row_end lsep _ L)).
    2:{ rewrite app_length. pose proof (write_row_length sep [] r). lia. }
    rewrite NR.
    assert (H : nonl (write_rows sep lsep [] (r2 :: rs')) = true) by (apply write_rows_head; auto; discriminate).
    rewrite (et_first_lsep _ _ L (nonl_nolf _ H)).
    rewrite IH; auto; [discriminate | cbn [length] in *; lia].
Qed.

Lemma rows_of_write sep lsep rows : sep_ok sep = true -> lsep_ok lsep = true -> rows <> [] -> forallb row_ok rows = true ->
  rows_of sep (write_rows sep lsep [] rows) = [rows].
Proof.
  intros S L NN F. unfold rows_of. rewrite (rows_rt _ _ _ S L NN F); auto.
  pose proof (write_rows_length sep lsep rows S F). lia.
Qed.

(* table level round trip *)
Lemma table_rt hdr sep lsep fr : sep_ok sep = true -> lsep_ok lsep = true -> frame_ok hdr fr = true ->
  parse hdr sep (write hdr sep lsep [] fr) = Some fr.
Proof.
  intros S L F. destruct fr as [h rows]. unfold frame_ok in F. cbn [fst snd] in F.
  apply andb_true_iff in F as [Fh Fr].
  assert (NN : rows <> []) by (destruct rows; [discriminate | discriminate]).
  assert (FR : forallb row_ok rows = true) by (destruct rows; [discriminate | exact Fr]).
  unfold parse, parse_all, write. cbn [fst snd]. destruct hdr.
  - destruct (row_ok_not_null _ Fh) as [NR [HN FF]].
    pose proof (write_rows_head sep lsep rows S NN FR) as H.
    rewrite <- !app_assoc.
    rewrite (fields_rt sep h S HN FF _ _ (lsep_row_end lsep _ L)).
    2:{ rewrite app_length. pose proof (write_row_length sep [] h). lia. }
    rewrite NR. destruct (et_alts_lsep lsep _ L (nonl_nolf _ H)) as [l ->].
    cbn [flat_map]. rewrite (et_alts_nonl _ H). cbn [flat_map].
    rewrite (rows_of_write _ _ _ S L NN FR). reflexivity.
  - destruct h; [|discriminate Fh]. cbn [List.app].
    rewrite (rows_of_write _ _ _ S L NN FR). reflexivity.
Qed.

(* every solution the parser finds on backtracking is the same frame *)
Definition is_nl (c : N) : bool := (c =? CR) || (c =? LF).

Lemma et_alts_strip s r : In r (et_alts s) -> exists p, s = p ++ r /\ forallb is_nl p = true.
Proof.
  unfold et_alts. intro H.
  apply in_app_or in H as [H|H]; [|apply in_app_or in H as [H|H]; [|apply in_app_or in H as [H|H]]].
  - destruct s as [|c [|d r']]; try (destruct H; fail).
    destruct ((c =? CR) && (d =? LF)) eqn:E; [|destruct H]. destruct H as [<-|[]].
    apply andb_true_iff in E as [A B]. apply N.eqb_eq in A, B. subst. exists [CR; LF]. split; reflexivity.
  - destruct s as [|c r']; [destruct H|]. destruct (c =? LF) eqn:E; [|destruct H]. destruct H as [<-|[]].
    apply N.eqb_eq in E. subst. exists [LF]. split; reflexivity.
  - destruct s as [|c r']; [destruct H|]. destruct (c =? CR) eqn:E; [|destruct H]. destruct H as [<-|[]].
    apply N.eqb_eq in E. subst. exists [CR]. split; reflexivity.
  - destruct H as [<-|[]]. exists []. split; reflexivity.
Qed.

Lemma et_first_in s : In (et_first s) (et_alts s).
Proof.
  unfold et_first, et_alts. rewrite !app_assoc.
  match goal with |- In (hd s (?l ++ [s])) _ => destruct l; cbn [List.app hd In]; auto end.
Qed.

Lemma nonl_head x : nonl x = true -> exists c r, x = c :: r /\ is_nl c = false.
Proof.
  destruct x as [|c r]; [discriminate|]. cbn [nonl]. intro H. apply negb_true_iff in H. exists c, r. auto.
Qed.

Lemma nl_split P : forall L r2 RW, forallb is_nl P = true -> forallb is_nl L = true -> nonl RW = true ->
  P ++ r2 = L ++ RW -> r2 = RW \/ exists q, q <> [] /\ forallb is_nl q = true /\ r2 = q ++ RW.
Proof.
  induction P as [|a P' IH]; intros L r2 RW HP HL HR E.
  - cbn [List.app] in E. subst r2. destruct L as [|c L']; [left; reflexivity|].
    right. exists (c :: L'). repeat split; auto. discriminate.
  - cbn [forallb] in HP. apply andb_true_iff in HP as [Ha HP'].
    destruct L as [|c L'].
    + cbn [List.app] in E. destruct (nonl_head _ HR) as [y [r [-> Hy]]]. inversion E; subst. congruence.
    + cbn [forallb] in HL. apply andb_true_iff in HL as [_ HL']. cbn [List.app] in E. inversion E; subst.
      apply (IH L'); auto.
Qed.

Lemma rows_of_nl_prefix sep q RW : sep_ok sep = true -> q <> [] -> forallb is_nl q = true -> nonl RW = true ->
  rows_of sep (q ++ RW) = [].
Proof.
  intros S NN Q R. destruct q as [|c q']; [congruence|]. cbn [forallb] in Q. apply andb_true_iff in Q as [Qc Q'].
  change ((c :: q') ++ RW) with (c :: q' ++ RW).
  assert (D : delim sep (c :: q' ++ RW) = true).
  { cbn [delim]. unfold is_nl in Qc. apply orb_true_iff in Qc as [H|H]; rewrite H; rewrite ?orb_true_r; reflexivity. }
  assert (NS : (c =? sep) = false).
  { destruct (N.eqb_spec c sep) as [->|]; auto. destruct (sep_not_nl _ S) as [A B].
    unfold is_nl in Qc. rewrite (N.eqb_sym sep CR), (N.eqb_sym sep LF), A, B in Qc. discriminate Qc. }
  assert (NE : et_first (c :: q' ++ RW) <> []).
  { intro E. destruct (et_alts_strip _ _ (et_first_in (c :: q' ++ RW))) as [p [Hp Fp]].
    rewrite E, app_nil_r in Hp. rewrite <- Hp in Fp. cbn [forallb] in Fp. apply andb_true_iff in Fp as [_ Fp].
    rewrite forallb_app in Fp. apply andb_true_iff in Fp as [_ Fp].
    destruct (nonl_head _ R) as [y [r [-> Hy]]]. cbn [forallb] in Fp. rewrite Hy in Fp. discriminate Fp. }
  unfold rows_of. cbn [parse_rows parse_fields]. rewrite (null_field _ _ S D), NS. cbn [is_null_row].
  destruct (et_first (c :: q' ++ RW)); [congruence | reflexivity].
Qed.

Lemma lsep_all_nl lsep : lsep_ok lsep = true -> forallb is_nl lsep = true.
Proof.
  intro L. destruct lsep as [|c [|d [|e r]]]; try discriminate L; cbn [lsep_ok] in L; cbn [forallb]; unfold is_nl.
  - rewrite orb_comm, L. reflexivity.
  - apply andb_true_iff in L as [A B]. rewrite A, B. rewrite orb_true_r. reflexivity.
Qed.

Lemma table_rt_all hdr sep lsep fr : sep_ok sep = true -> lsep_ok lsep = true -> frame_ok hdr fr = true ->
  forall x, In x (parse_all hdr sep (write hdr sep lsep [] fr)) -> x = fr.
Proof.
  intros S L F x. destruct fr as [h rows]. unfold frame_ok in F. cbn [fst snd] in F.
  apply andb_true_iff in F as [Fh Fr].
  assert (NN : rows <> []) by (destruct rows; [discriminate | discriminate]).
  assert (FR : forallb row_ok rows = true) by (destruct rows; [discriminate | exact Fr]).
  unfold parse_all, write. cbn [fst snd]. destruct hdr.
  - destruct (row_ok_not_null _ Fh) as [NR [HN FF]].
    pose proof (write_rows_head sep lsep rows S NN FR) as H.
    rewrite <- !app_assoc.
    rewrite (fields_rt sep h S HN FF _ _ (lsep_row_end lsep _ L)).
    2:{ rewrite app_length. pose proof (write_row_length sep [] h). lia. }
    rewrite NR. intro I.
    apply in_flat_map in I as [r1 [I1 I]]. apply in_flat_map in I as [r2 [I2 I]].
    apply in_map_iff in I as [rs [<- I]].
    destruct (et_alts_strip _ _ I1) as [p1 [E1 P1]]. destruct (et_alts_strip _ _ I2) as [p2 [E2 P2]].
    assert (E : (p1 ++ p2) ++ r2 = lsep ++ write_rows sep lsep [] rows) by (rewrite <- app_assoc, <- E2, <- E1; reflexivity).
    assert (P : forallb is_nl (p1 ++ p2) = true) by (rewrite forallb_app, P1, P2; reflexivity).
    destruct (nl_split _ _ _ _ P (lsep_all_nl _ L) H E) as [->|[q [Q1 [Q2 ->]]]].
    + rewrite (rows_of_write _ _ _ S L NN FR) in I. destruct I as [<-|[]]. reflexivity.
    + rewrite (rows_of_nl_prefix _ _ _ S Q1 Q2 H) in I. destruct I.
  - destruct h; [|discriminate Fh]. cbn [List.app].
    rewrite (rows_of_write _ _ _ S L NN FR). intros [<-|[]]. reflexivity.
Qed.

(* a non-empty null value is re-read as the typing of its text *)
Lemma null_value_reread sep null rest : sep_ok sep = true -> forallb plain null = true -> null <> [] ->
  delim sep rest = true ->
  parse_field sep (write_field null FNull ++ rest) = Some (typing null, rest).
Proof. intros S P NN D. cbn [write_field]. apply token_field; auto. Qed.

(* ------------------------------------------------------------------ the comparison functions *)
Lemma list_eqb_spec {A} (eqb : A -> A -> bool) :
  (forall x y, eqb x y = true <-> x = y) -> forall a b, list_eqb eqb a b = true <-> a = b.
Proof.
  intro H. induction a as [|x a' IH]; intros [|y b']; cbn [list_eqb]; try (split; [discriminate | congruence]).
  - split; auto.
  - rewrite andb_true_iff, H, IH. split; [intros [-> ->]; auto | intro E; inversion E; auto].
Qed.

Lemma text_eqb_spec a b : text_eqb a b = true <-> a = b.
Proof. apply list_eqb_spec. apply N.eqb_eq. Qed.

Lemma field_eqb_spec a b : field_eqb a b = true <-> a = b.
Proof.
  destruct a, b; cbn [field_eqb]; try (split; [discriminate | congruence]).
  - tauto.
  - rewrite text_eqb_spec. split; congruence.
  - rewrite Z.eqb_eq. split; congruence.
  - rewrite text_eqb_spec. split; congruence.
Qed.

Lemma row_eqb_spec a b : row_eqb a b = true <-> a = b.
Proof. apply list_eqb_spec. apply field_eqb_spec. Qed.

Lemma frame_eqb_spec a b : frame_eqb a b = true <-> a = b.
Proof.
  unfold frame_eqb. rewrite andb_true_iff, row_eqb_spec, (list_eqb_spec row_eqb row_eqb_spec).
  destruct a, b; cbn [fst snd]. split; [intros [-> ->]; auto | intro E; inversion E; auto].
Qed.

Lemma check_write_spec hdr sep lsep null fr text :
  check_write hdr sep lsep null fr text = true <-> write hdr sep lsep null fr = text.
Proof. apply text_eqb_spec. Qed.

Lemma check_parse_spec hdr sep text impl :
  check_parse hdr sep text impl = true <-> dedup (parse_all hdr sep text) = dedup impl.
Proof. apply list_eqb_spec. apply frame_eqb_spec. Qed.
