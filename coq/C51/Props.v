(* C51 -- pinned property theorems (nothing else lives here).
   parse/parse_all mirror the DCG of src/lib/csv.pl; write is the documented writer (strings quoted, inner quotes
   doubled); sep_ok: the separator is not a quote, CR, LF, '-', '.' or a digit; lsep_ok: the line separator is
   LF, CR or CR LF; frame_ok: rows and header non-empty, no row is [[]], no empty string, float literals of the
   modelled shape, header [] when with_header(false). *)
From Coq Require Import ZArith NArith List Bool.
From V Require Import C51.Model C51.Proofs.
Import ListNotations.
Open Scope N_scope.

(* any text -- separators, doubled quotes, CR, LF included -- is read back from its quoted form *)
Theorem quoted_field_roundtrip : forall sep s rest, no_quote_start rest = true ->
  parse_field sep (QUOTE :: escape s ++ QUOTE :: rest) = Some (of_quoted s, rest).
Proof. exact quoted_field. Qed.
Print Assumptions quoted_field_roundtrip.

(* field level: every well-formed field is read back, whatever delimiter follows *)
Theorem field_roundtrip : forall sep f rest, sep_ok sep = true -> field_ok f = true -> delim sep rest = true ->
  parse_field sep (write_field [] f ++ rest) = Some (f, rest).
Proof. exact field_rt. Qed.
Print Assumptions field_roundtrip.

(* row level *)
Theorem row_roundtrip : forall sep r, sep_ok sep = true -> r <> [] -> forallb field_ok r = true ->
  forall fuel rest, row_end rest = true -> (length r <= fuel)%nat ->
  parse_fields fuel sep (write_row sep [] r ++ rest) = Some (r, rest).
Proof. exact fields_rt. Qed.
Print Assumptions row_roundtrip.

(* table level, every separator / line separator / header option: the first solution of the parser on the written
   text is the frame ... *)
Theorem csv_parse_write : forall hdr sep lsep fr, sep_ok sep = true -> lsep_ok lsep = true -> frame_ok hdr fr = true ->
  parse hdr sep (write hdr sep lsep [] fr) = Some fr.
Proof. exact table_rt. Qed.
Print Assumptions csv_parse_write.

(* ... and every further solution found on backtracking (the end_token choice points of the header) is the same frame *)
Theorem csv_parse_write_all_solutions : forall hdr sep lsep fr, sep_ok sep = true -> lsep_ok lsep = true -> frame_ok hdr fr = true ->
  forall x, In x (parse_all hdr sep (write hdr sep lsep [] fr)) -> x = fr.
Proof. exact table_rt_all. Qed.
Print Assumptions csv_parse_write_all_solutions.

(* integers are written and re-read exactly; float literals keep their text *)
Theorem typing_of_numbers : (forall z, typing (print_int z) = FInt z) /\ (forall l, is_float_lit l = true -> typing l = FFlt l).
Proof. exact (conj typing_int typing_float). Qed.
Print Assumptions typing_of_numbers.

(* null_value(T) with a non-empty T: [] is written as T and re-read as the typing of T, not as [] *)
Theorem null_value_rereads_as_text : forall sep null rest, sep_ok sep = true -> forallb plain null = true -> null <> [] ->
  delim sep rest = true -> parse_field sep (write_field null FNull ++ rest) = Some (typing null, rest).
Proof. exact null_value_reread. Qed.
Print Assumptions null_value_rereads_as_text.

(* the comparisons used by the correspondence mean what they say *)
Theorem check_write_meaningful : forall hdr sep lsep null fr text,
  check_write hdr sep lsep null fr text = true <-> write hdr sep lsep null fr = text.
Proof. exact check_write_spec. Qed.
Print Assumptions check_write_meaningful.

Theorem check_parse_meaningful : forall hdr sep text impl,
  check_parse hdr sep text impl = true <-> dedup (parse_all hdr sep text) = dedup impl.
Proof. exact check_parse_spec. Qed.
Print Assumptions check_parse_meaningful.

(* non-vacuity and the documented examples of src/lib/csv.pl ("col1,col2,col3,col4\none,2,,three") *)
Example ex_doc_parse :
  parse true 44 [99;111;108;49;44;99;111;108;50;44;99;111;108;51;44;99;111;108;52;10;111;110;101;44;50;44;44;116;104;114;101;101]
  = Some ([FStr [99;111;108;49]; FStr [99;111;108;50]; FStr [99;111;108;51]; FStr [99;111;108;52]],
          [[FStr [111;110;101]; FInt 2; FNull; FStr [116;104;114;101;101]]]).
Proof. vm_compute. reflexivity. Qed.
Example ex_doc_parse_opts :
  parse false 59 [111;110;101;59;50;59;59;116;104;114;101;101] = Some ([], [[FStr [111;110;101]; FInt 2; FNull; FStr [116;104;114;101;101]]]).
Proof. vm_compute. reflexivity. Qed.
Example ex_ok : sep_ok 44 = true /\ sep_ok 59 = true /\ sep_ok 9 = true /\ lsep_ok [13; 10] = true /\
  frame_ok true ([FStr [104]], [[FStr [97; 34; 44; 10]; FInt (-12); FNull; FFlt [49; 46; 53]]]) = true.
Proof. vm_compute. repeat split; reflexivity. Qed.
Example ex_roundtrip :
  write true 44 [13; 10] [] ([FStr [104]], [[FStr [97; 34; 44; 10]; FInt (-12); FNull; FFlt [49; 46; 53]]])
  = [34;104;34;13;10;34;97;34;34;44;10;34;44;45;49;50;44;44;49;46;53].
Proof. vm_compute. reflexivity. Qed.
Example ex_typing : typing [32; 55] = FInt 7 /\ typing [49; 101; 51] = FStr [49; 101; 51] /\ typing [48; 48; 55] = FInt 7 /\
  typing [53; 32] = FStr [53; 32] /\ typing [45] = FStr [45] /\ typing [49; 46] = FStr [49; 46].
Proof. vm_compute. repeat split; reflexivity. Qed.
