(* C51 -- library(csv): model of the parser (parse_csv//1,2) and of the writer (write_csv/2,3).
   Text is a list of code points (N).  The parser follows the DCG of src/lib/csv.pl clause by clause
   (tokens//2, string_tokens//2, field//2, row//2, rows//2, parse_csv//2, end_token//0) including its
   non-determinism: the end_token of the header row and the end_token of parse_csv//2 are the only choice points
   that survive the cuts, parse_all enumerates them in Prolog's order.
   Field typing (the library calls number_chars/2 on every unquoted, non-empty field): leading spaces/tabs are
   skipped; an optional '-' and digits is an integer; '-'? digits '.' digits is a float (kept as its literal);
   anything else is the string itself (with its spaces).  Other number syntaxes accepted by number_chars/2
   (exponents, 0'c, 0x.., 0b.., 0o.., digit groups with '_', "- 5") are NOT modelled.
   The writer is the documented one: strings enclosed in double quotes with inner quotes doubled (what
   escaped_field/2 prepares for), numbers as their literal, [] as the null value (empty by default). *)
From Coq Require Import ZArith NArith List Bool Decimal DecimalZ.
Import ListNotations.
Open Scope N_scope.

Definition QUOTE : N := 34.
Definition CR : N := 13.
Definition LF : N := 10.
Definition SP : N := 32.
Definition TAB : N := 9.
Definition MINUS : N := 45.
Definition DOT : N := 46.

Inductive field :=
| FNull                      (* [] *)
| FStr (s : list N)          (* a non-empty string *)
| FInt (z : Z)
| FFlt (lit : list N).       (* a float, by its literal  -?digits.digits *)

Definition frame := (list field * list (list field))%type.    (* frame(Header, Rows) *)

(* ------------------------------------------------------------------ integers <-> decimal text *)
Definition is_digit (c : N) : bool := (48 <=? c) && (c <=? 57).

Definition dig (c : N) : option (uint -> uint) :=
  if c =? 48 then Some D0 else if c =? 49 then Some D1 else if c =? 50 then Some D2 else if c =? 51 then Some D3
  else if c =? 52 then Some D4 else if c =? 53 then Some D5 else if c =? 54 then Some D6 else if c =? 55 then Some D7
  else if c =? 56 then Some D8 else if c =? 57 then Some D9 else None.

Fixpoint uint_of_chars (s : list N) : option uint :=
  match s with
  | [] => Some Nil
  | c :: r => match dig c, uint_of_chars r with Some d, Some u => Some (d u) | _, _ => None end
  end.

Fixpoint chars_of_uint (u : uint) : list N :=
  match u with
  | Nil => []
  | D0 r => 48 :: chars_of_uint r | D1 r => 49 :: chars_of_uint r | D2 r => 50 :: chars_of_uint r
  | D3 r => 51 :: chars_of_uint r | D4 r => 52 :: chars_of_uint r | D5 r => 53 :: chars_of_uint r
  | D6 r => 54 :: chars_of_uint r | D7 r => 55 :: chars_of_uint r | D8 r => 56 :: chars_of_uint r
  | D9 r => 57 :: chars_of_uint r
  end.

(* -?digits *)
Definition int_of_chars (s : list N) : option Z :=
  match s with
  | [] => None
  | c :: r => if c =? MINUS
              then match r with [] => None | _ => option_map (fun u => Z.opp (Z.of_uint u)) (uint_of_chars r) end
              else option_map Z.of_uint (uint_of_chars s)
  end.

Definition print_int (z : Z) : list N :=
  match Z.to_int z with Pos u => chars_of_uint u | Neg u => MINUS :: chars_of_uint u end.

(* digits '.' digits, both parts non-empty *)
Fixpoint is_frac (seen_digit : bool) (s : list N) : bool :=      (* after the dot *)
  match s with [] => seen_digit | c :: r => is_digit c && is_frac true r end.
Fixpoint is_unsigned_float (seen_digit : bool) (s : list N) : bool :=
  match s with
  | [] => false
  | c :: r => if c =? DOT then seen_digit && is_frac false r else is_digit c && is_unsigned_float true r
  end.
Definition is_float_lit (s : list N) : bool :=
  match s with c :: r => if c =? MINUS then is_unsigned_float false r else is_unsigned_float false s | [] => false end.

Fixpoint drop_layout (s : list N) : list N :=
  match s with c :: r => if (c =? SP) || (c =? TAB) then drop_layout r else s | [] => [] end.

(* catch(number_chars(R, R0), _, R = R0) on a non-empty unquoted field *)
Definition typing (t : list N) : field :=
  let u := drop_layout t in
  match int_of_chars u with
  | Some z => FInt z
  | None => if is_float_lit u then FFlt u else FStr t
  end.

(* ------------------------------------------------------------------ parser *)
(* tokens//2: the characters up to (not including) the separator, CR, LF or the end *)
Fixpoint take_token (sep : N) (s : list N) : list N * list N :=
  match s with
  | [] => ([], [])
  | c :: r => if (c =? sep) || (c =? CR) || (c =? LF) then ([], s)
              else let (t, rest) := take_token sep r in (c :: t, rest)
  end.

(* string_tokens//2, entered after the opening quote; None = no closing quote *)
Fixpoint string_tokens (s : list N) : option (list N * list N) :=
  match s with
  | [] => None
  | x :: r =>
      if x =? QUOTE then
        match r with
        | y :: r' => if y =? QUOTE
                     then match string_tokens r' with Some (t, rest) => Some (QUOTE :: t, rest) | None => None end
                     else Some ([], r)
        | [] => Some ([], [])
        end
      else match string_tokens r with Some (t, rest) => Some (x :: t, rest) | None => None end
  end.

Definition of_quoted (t : list N) : field := match t with [] => FNull | _ => FStr t end.

(* field//2 *)
Definition parse_field (sep : N) (s : list N) : option (field * list N) :=
  match s with
  | [] => Some (FNull, [])
  | c :: r =>
      if c =? QUOTE then
        match string_tokens r with Some (t, rest) => Some (of_quoted t, rest) | None => None end
      else
        let (t, rest) := take_token sep s in
        match t with [] => Some (FNull, s) | _ => Some (typing t, rest) end
  end.

(* row//2 up to (not including) its end_token: fields while a separator follows *)
Fixpoint parse_fields (fuel : nat) (sep : N) (s : list N) : option (list field * list N) :=
  match fuel with
  | O => None
  | S k =>
      match parse_field sep s with
      | None => None
      | Some (f, rest) =>
          match rest with
          | c :: r => if c =? sep
                      then match parse_fields k sep r with Some (fs, rest') => Some (f :: fs, rest') | None => None end
                      else Some ([f], rest)
          | [] => Some ([f], [])
          end
      end
  end.

(* end_token//0: the remainders after each alternative that applies, in clause order "\r\n", "\n", "\r", [] *)
Definition et_alts (s : list N) : list (list N) :=
  (match s with c :: d :: r => if (c =? CR) && (d =? LF) then [r] else [] | _ => [] end) ++
  (match s with c :: r => if c =? LF then [r] else [] | _ => [] end) ++
  (match s with c :: r => if c =? CR then [r] else [] | _ => [] end) ++ [s].
Definition et_first (s : list N) : list N := hd s (et_alts s).

Definition is_null_row (fs : list field) : bool := match fs with [FNull] => true | _ => false end.

(* rows//2: rows until the row [[]] (which an empty rest of input, an empty line or a lone "" produce) *)
Fixpoint parse_rows (fuel : nat) (sep : N) (s : list N) : option (list (list field) * list N) :=
  match fuel with
  | O => None
  | S k =>
      match parse_fields (S (length s)) sep s with
      | None => None
      | Some (fs, rest) =>
          let rest1 := et_first rest in
          if is_null_row fs then Some ([], rest1)
          else match parse_rows k sep rest1 with Some (rs, rest2) => Some (fs :: rs, rest2) | None => None end
      end
  end.

Definition rows_of (sep : N) (s : list N) : list (list (list field)) :=
  match parse_rows (S (length s)) sep s with Some (rs, []) => [rs] | _ => [] end.

(* phrase(parse_csv(frame(H,Rs), [with_header(hdr), token_separator(sep)]), s): all solutions in order *)
Definition parse_all (hdr : bool) (sep : N) (s : list N) : list frame :=
  if hdr then
    match parse_fields (S (length s)) sep s with
    | None => []
    | Some (h, rest) =>
        if is_null_row h then []
        else flat_map (fun r1 => flat_map (fun r2 => map (fun rs => (h, rs)) (rows_of sep r2)) (et_alts r1)) (et_alts rest)
    end
  else map (fun rs => ([], rs)) (rows_of sep s).

Definition parse (hdr : bool) (sep : N) (s : list N) : option frame := hd_error (parse_all hdr sep s).

(* ------------------------------------------------------------------ writer *)
Fixpoint escape (s : list N) : list N :=
  match s with [] => [] | c :: r => if c =? QUOTE then QUOTE :: QUOTE :: escape r else c :: escape r end.

Definition write_field (null : list N) (f : field) : list N :=
  match f with
  | FNull => null
  | FStr s => QUOTE :: escape s ++ [QUOTE]
  | FInt z => print_int z
  | FFlt l => l
  end.

Fixpoint write_row (sep : N) (null : list N) (r : list field) : list N :=
  match r with
  | [] => []
  | f :: r' => match r' with [] => write_field null f | _ => write_field null f ++ sep :: write_row sep null r' end
  end.

Fixpoint write_rows (sep : N) (lsep null : list N) (rows : list (list field)) : list N :=
  match rows with
  | [] => []
  | r :: rs => match rs with [] => write_row sep null r | _ => write_row sep null r ++ lsep ++ write_rows sep lsep null rs end
  end.

Definition write (hdr : bool) (sep : N) (lsep null : list N) (fr : frame) : list N :=
  (if hdr then write_row sep null (fst fr) ++ lsep else []) ++ write_rows sep lsep null (snd fr).

(* ------------------------------------------------------------------ well-formedness (Boolean) *)
Definition sep_ok (sep : N) : bool :=
  negb ((sep =? QUOTE) || (sep =? CR) || (sep =? LF) || (sep =? MINUS) || (sep =? DOT) || is_digit sep).
Definition lsep_ok (lsep : list N) : bool :=
  match lsep with [c] => (c =? LF) || (c =? CR) | [c; d] => (c =? CR) && (d =? LF) | _ => false end.

(* exactly what the reader would re-read differently is excluded: the empty string (it is []), and float
   literals that are not of the modelled shape *)
Definition field_ok (f : field) : bool :=
  match f with
  | FNull => true
  | FStr s => match s with [] => false | _ => true end
  | FInt _ => true
  | FFlt l => is_float_lit l
  end.
Definition row_ok (r : list field) : bool :=
  match r with [] => false | _ => negb (is_null_row r) && forallb field_ok r end.
Definition frame_ok (hdr : bool) (fr : frame) : bool :=
  (if hdr then row_ok (fst fr) else match fst fr with [] => true | _ => false end) &&
  match snd fr with [] => false | _ => forallb row_ok (snd fr) end.

(* ------------------------------------------------------------------ correspondence interface *)
Fixpoint list_eqb {A} (eqb : A -> A -> bool) (a b : list A) : bool :=
  match a, b with
  | [], [] => true
  | x :: a', y :: b' => eqb x y && list_eqb eqb a' b'
  | _, _ => false
  end.
Definition text_eqb : list N -> list N -> bool := list_eqb N.eqb.
Definition field_eqb (a b : field) : bool :=
  match a, b with
  | FNull, FNull => true
  | FStr s, FStr t => text_eqb s t
  | FInt x, FInt y => Z.eqb x y
  | FFlt s, FFlt t => text_eqb s t
  | _, _ => false
  end.
Definition row_eqb : list field -> list field -> bool := list_eqb field_eqb.
Definition frame_eqb (a b : frame) : bool := row_eqb (fst a) (fst b) && list_eqb row_eqb (snd a) (snd b).

Fixpoint dedup (l : list frame) : list frame :=
  match l with [] => [] | x :: r => x :: filter (fun y => negb (frame_eqb x y)) (dedup r) end.

(* the implementation's solutions for phrase(parse_csv(D, Opts), text), duplicates removed, must be the model's *)
Definition check_parse (hdr : bool) (sep : N) (text : list N) (impl : list frame) : bool :=
  list_eqb frame_eqb (dedup (parse_all hdr sep text)) (dedup impl).

(* the generator's own reading of the text it produced (quoted -> string or [], unquoted -> typing) *)
Definition check_expected (hdr : bool) (sep : N) (text : list N) (expected : frame) : bool :=
  list_eqb frame_eqb (dedup (parse_all hdr sep text)) [expected].

(* the text the model writes (the Python copy of the writer is checked against it) *)
Definition check_write (hdr : bool) (sep : N) (lsep null : list N) (fr : frame) (text : list N) : bool :=
  text_eqb (write hdr sep lsep null fr) text.
