(* C06 -- proofs about the indexing model *)
From Coq Require Import ZArith NArith List Bool Lia.
From V Require Import Base.Term C06.Model.
Import ListNotations.

(* ------------------------------------------------------------------ small list facts *)
Lemma filter_filter_imp : forall {A} (P Q : A -> bool) (l : list A),
  (forall x, In x l -> P x = true -> Q x = true) -> filter P (filter Q l) = filter P l.
Proof.
  intros A P Q l. induction l as [|x l IH]; intros H; cbn [filter]; [reflexivity|].
  destruct (Q x) eqn:HQ; cbn [filter].
  - destruct (P x); [f_equal|]; apply IH; intros y Hy; apply H; right; exact Hy.
  - destruct (P x) eqn:HP.
    + rewrite (H x (or_introl eq_refl) HP) in HQ. discriminate.
    + apply IH. intros y Hy. apply H. right. exact Hy.
Qed.

Lemma filter_comm : forall {A} (P Q : A -> bool) (l : list A), filter P (filter Q l) = filter Q (filter P l).
Proof.
  intros A P Q l. induction l as [|x l IH]; [reflexivity|]. cbn [filter].
  destruct (Q x) eqn:HQ; destruct (P x) eqn:HP; cbn [filter]; rewrite ?HQ, ?HP, IH; reflexivity.
Qed.

Lemma filter_none : forall {A} (P : A -> bool) (l : list A), (forall x, In x l -> P x = false) -> filter P l = [].
Proof.
  intros A P l. induction l as [|x l IH]; intros H; [reflexivity|]. cbn [filter].
  rewrite (H x (or_introl eq_refl)). apply IH. intros y Hy. apply H. right. exact Hy.
Qed.

Lemma filter_app' : forall {A} (P : A -> bool) (a b : list A), filter P (a ++ b) = filter P a ++ filter P b.
Proof. intros A P a b. induction a as [|x a IH]; [reflexivity|]. cbn [app filter]. destruct (P x); cbn [app]; rewrite IH; reflexivity. Qed.

Lemma list_eqb_N_eq : forall a b : list N, name_eqb a b = true <-> a = b.
Proof.
  unfold name_eqb. induction a as [|x a IH]; intros [|y b]; cbn [list_eqb]; split; intros H; try reflexivity; try discriminate.
  - apply andb_true_iff in H. destruct H as [H1 H2]. apply N.eqb_eq in H1. apply IH in H2. subst. reflexivity.
  - injection H as -> ->. apply andb_true_iff. split; [apply N.eqb_refl | apply IH; reflexivity].
Qed.

Lemma ckey_eqb_spec : forall a b, ckey_eqb a b = true <-> a = b.
Proof.
  intros [x|x|n d|x] [y|y|n' d'|y]; cbn [ckey_eqb]; split; intros H; try discriminate; try reflexivity.
  - apply list_eqb_N_eq in H. subst. reflexivity.
  - injection H as ->. apply list_eqb_N_eq. reflexivity.
  - apply Z.eqb_eq in H. subst. reflexivity.
  - injection H as ->. apply Z.eqb_refl.
  - apply andb_true_iff in H. destruct H as [H1 H2]. apply Z.eqb_eq in H1, H2. subst. reflexivity.
  - injection H as -> ->. rewrite !Z.eqb_refl. reflexivity.
  - apply Z.eqb_eq in H. subst. reflexivity.
  - injection H as ->. apply Z.eqb_refl.
Qed.

Lemma skey_eqb_spec : forall a b, skey_eqb a b = true <-> a = b.
Proof.
  intros [f n] [g m]. unfold skey_eqb. cbn [fst snd]. split; intros H.
  - apply andb_true_iff in H. destruct H as [H1 H2]. apply list_eqb_N_eq in H1. apply Nat.eqb_eq in H2. subst. reflexivity.
  - injection H as -> ->. apply andb_true_iff. split; [apply list_eqb_N_eq; reflexivity | apply Nat.eqb_refl].
Qed.

(* ------------------------------------------------------------------ second-level tables *)
Section Tab.
  Variable K : Type.
  Variable eqb : K -> K -> bool.
  Hypothesis eqb_spec : forall a b, eqb a b = true <-> a = b.
  Variable keyof : clause -> option K.

  Definition haskey (k : K) (c : clause) : bool := match keyof c with Some k' => eqb k' k | None => false end.

  Lemma eqb_refl' : forall k, eqb k k = true.
  Proof. intros k. apply eqb_spec. reflexivity. Qed.

  Definition einv (e : list (K * list clause)) (mem : list clause) : Prop :=
    NoDup (map fst e) /\ forall k, assoc eqb k e = filter (haskey k) mem.

  Definition tinv (t : table K) (mem : list clause) : Prop :=
    einv (t_ents t) mem /\
    (t_sw t = false -> forall k0 l0 rest, t_ents t = (k0, l0) :: rest ->
       forall c k, In c mem -> keyof c = Some k -> k = k0).

  Lemma assoc_notin : forall k e, ~ In k (map fst e) -> assoc eqb k e = [].
  Proof.
    intros k e. induction e as [|[k1 l] r IH]; intros H; [reflexivity|]. cbn [assoc].
    destruct (eqb k1 k) eqn:E.
    - apply eqb_spec in E. subst. exfalso. apply H. left. reflexivity.
    - apply IH. intros HI. apply H. right. exact HI.
  Qed.

  Lemma assoc_upsert : forall front k c e k',
    assoc eqb k' (upsert eqb front k c e) =
    if eqb k k' then (if front then c :: assoc eqb k' e else assoc eqb k' e ++ [c]) else assoc eqb k' e.
  Proof.
    intros front k c e k'. induction e as [|[k1 l] r IH].
    - cbn [upsert assoc]. destruct (eqb k k'); [destruct front|]; reflexivity.
    - cbn [upsert]. destruct (eqb k1 k) eqn:E1.
      + apply eqb_spec in E1. subst k1. cbn [assoc]. destruct (eqb k k'); reflexivity.
      + cbn [assoc]. destruct (eqb k1 k') eqn:E2.
        * destruct (eqb k k') eqn:E3; [|reflexivity].
          apply eqb_spec in E2, E3. subst. rewrite eqb_refl' in E1. discriminate.
        * exact IH.
  Qed.

  Lemma keys_upsert : forall front k c e,
    map fst (upsert eqb front k c e) = if existsb (fun k1 => eqb k1 k) (map fst e) then map fst e else map fst e ++ [k].
  Proof.
    intros front k c e. induction e as [|[k1 l] r IH]; [reflexivity|].
    cbn [upsert map fst existsb]. destruct (eqb k1 k) eqn:E1; cbn [orb map fst].
    - reflexivity.
    - rewrite IH. destruct (existsb (fun k2 => eqb k2 k) (map fst r)); reflexivity.
  Qed.

  Lemma nodup_snoc : forall (l : list K) k, NoDup l -> ~ In k l -> NoDup (l ++ [k]).
  Proof.
    intros l k H. induction H as [|x l Hx Hl IH]; intros Hk; cbn [app].
    - constructor; [intros []|constructor].
    - constructor.
      + intros HI. apply in_app_or in HI. destruct HI as [HI|[HI|[]]]; [exact (Hx HI)|]. subst. apply Hk. left. reflexivity.
      + apply IH. intros HI. apply Hk. right. exact HI.
  Qed.

  Lemma nodup_upsert : forall front k c e, NoDup (map fst e) -> NoDup (map fst (upsert eqb front k c e)).
  Proof.
    intros front k c e H. rewrite keys_upsert. destruct (existsb (fun k1 => eqb k1 k) (map fst e)) eqn:E; [exact H|].
    apply nodup_snoc; [exact H|]. intros HI.
    assert (HE : existsb (fun k1 => eqb k1 k) (map fst e) = true).
    { apply existsb_exists. exists k. split; [exact HI | apply eqb_refl']. }
    rewrite HE in E. discriminate.
  Qed.

  Lemma haskey_key : forall k c, keyof c = Some k -> forall k', haskey k' c = eqb k k'.
  Proof. intros k c H k'. unfold haskey. rewrite H. reflexivity. Qed.

  Lemma haskey_none : forall c, keyof c = None -> forall k', haskey k' c = false.
  Proof. intros c H k'. unfold haskey. rewrite H. reflexivity. Qed.

  (* members and their position after an insertion at either end *)
  Definition ins (front : bool) (c : clause) (mem : list clause) : list clause := if front then c :: mem else mem ++ [c].

  Lemma filter_ins : forall (P : clause -> bool) front c mem,
    filter P (ins front c mem) = if P c then ins front c (filter P mem) else filter P mem.
  Proof.
    intros P front c mem. unfold ins. destruct front.
    - cbn [filter]. destruct (P c); reflexivity.
    - rewrite filter_app'. cbn [filter]. destruct (P c); [reflexivity | apply app_nil_r].
  Qed.

  Lemma einv_upsert : forall front k c e mem, keyof c = Some k -> einv e mem -> einv (upsert eqb front k c e) (ins front c mem).
  Proof.
    intros front k c e mem Hk [Hnd Has]. split; [apply nodup_upsert; exact Hnd|].
    intros k'. rewrite assoc_upsert, filter_ins, (haskey_key k c Hk k'), Has.
    destruct (eqb k k'); [destruct front|]; reflexivity.
  Qed.

  Lemma einv_nokey : forall front c e mem, keyof c = None -> einv e mem -> einv e (ins front c mem).
  Proof.
    intros front c e mem Hk [Hnd Has]. split; [exact Hnd|]. intros k'.
    rewrite filter_ins, (haskey_none c Hk k'). apply Has.
  Qed.

  Lemma einv_ents_add : forall c e mem, einv e mem -> einv (ents_add eqb (keyof c) c e) (mem ++ [c]).
  Proof.
    intros c e mem H. unfold ents_add. destruct (keyof c) as [k|] eqn:Hk.
    - exact (einv_upsert false k c e mem Hk H).
    - exact (einv_nokey false c e mem Hk H).
  Qed.

  Lemma einv_fold : forall cs e mem, einv e mem ->
    einv (fold_left (fun e c => ents_add eqb (keyof c) c e) cs e) (mem ++ cs).
  Proof.
    induction cs as [|c cs IH]; intros e mem H; cbn [fold_left].
    - rewrite app_nil_r. exact H.
    - replace (mem ++ c :: cs) with ((mem ++ [c]) ++ cs) by (rewrite <- app_assoc; reflexivity).
      apply IH. apply einv_ents_add. exact H.
  Qed.

  Lemma einv_nil : einv [] [].
  Proof. split; [constructor | intros k; reflexivity]. Qed.

  (* a keyed member is found under its key *)
  Lemma keyed_in_assoc : forall e mem c k, einv e mem -> In c mem -> keyof c = Some k -> In c (assoc eqb k e).
  Proof.
    intros e mem c k [_ Has] Hin Hk. rewrite Has. apply filter_In. split; [exact Hin|].
    rewrite (haskey_key k c Hk). apply eqb_refl'.
  Qed.

  Lemma tinv_finish : forall e mem, einv e mem -> tinv (finish e) mem.
  Proof.
    intros e mem H. split; [exact H|]. unfold finish. cbn [t_sw t_ents].
    intros Hsw k0 l0 rest He c k Hin Hk.
    apply Nat.ltb_ge in Hsw. subst e. cbn [length] in Hsw.
    destruct rest as [|x rest]; [|cbn [length] in Hsw; lia].
    pose proof (keyed_in_assoc _ _ c k H Hin Hk) as HI. cbn [assoc] in HI.
    destruct (eqb k0 k) eqn:E; [apply eqb_spec in E; symmetry; exact E | destruct HI].
  Qed.

  Lemma tinv_build : forall cs, tinv (finish (fold_left (fun e c => ents_add eqb (keyof c) c e) cs [])) cs.
  Proof. intros cs. apply tinv_finish. exact (einv_fold cs [] [] einv_nil). Qed.

  Lemma tinv_empty : tinv empty_table [].
  Proof. split; [exact einv_nil|]. intros _ k0 l0 rest He. discriminate. Qed.

  Lemma tinv_tadd : forall front c t mem, tinv t mem -> tinv (tadd eqb front (keyof c) c t) (ins front c mem).
  Proof.
    intros front c t mem [He H3]. unfold tadd. destruct (keyof c) as [k|] eqn:Hk.
    - destruct (t_sw t) eqn:Hsw.
      + split; [cbn [t_ents]; apply einv_upsert; assumption | cbn [t_sw]; discriminate].
      + destruct (t_ents t) as [|[k1 l1] r] eqn:Hents.
        * (* Fail -> External *)
          assert (Hnone : forall c', In c' mem -> keyof c' = None).
          { intros c' Hin. destruct (keyof c') as [k'|] eqn:Hk'; [|reflexivity].
            pose proof (keyed_in_assoc _ _ c' k' He Hin Hk') as HI. destruct HI. }
          split.
          -- cbn [t_ents]. split; [cbn [map fst]; constructor; [intros []|constructor]|].
             intros k'. cbn [assoc]. rewrite filter_ins, (haskey_key k c Hk k').
             rewrite (filter_none (haskey k') mem).
             ++ destruct (eqb k k'); [destruct front|]; reflexivity.
             ++ intros x Hx. apply haskey_none. apply Hnone. exact Hx.
          -- cbn [t_sw t_ents]. intros _ k0 l0 rest [= <- _ _] c' k' Hin Hk'.
             unfold ins in Hin. assert (Hc : c' = c \/ In c' mem).
             { destruct front; [destruct Hin as [Hin|Hin]; [left; symmetry; exact Hin | right; exact Hin]|].
               apply in_app_or in Hin. destruct Hin as [Hin|[Hin|[]]]; [right; exact Hin | left; symmetry; exact Hin]. }
             destruct Hc as [->|Hc]; [congruence|]. rewrite (Hnone c' Hc) in Hk'. discriminate.
        * split; [cbn [t_ents]; apply einv_upsert; assumption | cbn [t_sw]; discriminate].
    - split; [apply einv_nokey; assumption|].
      intros Hsw k0 l0 rest Hents c' k' Hin Hk'.
      assert (Hc : c' = c \/ In c' mem).
      { unfold ins in Hin. destruct front; [destruct Hin as [Hin|Hin]; [left; symmetry; exact Hin | right; exact Hin]|].
        apply in_app_or in Hin. destruct Hin as [Hin|[Hin|[]]]; [right; exact Hin | left; symmetry; exact Hin]. }
      destruct Hc as [->|Hc]; [congruence|]. exact (H3 Hsw k0 l0 rest Hents c' k' Hc Hk').
  Qed.

  (* removal *)
  Definition prune_map (i : N) (e : list (K * list clause)) :=
    filter (fun p : K * list clause => nonempty (snd p)) (map (fun p => (fst p, filter (id_neqb i) (snd p))) e).

  Lemma keys_prune_incl : forall i e k, In k (map fst (prune_map i e)) -> In k (map fst e).
  Proof.
    intros i e k. unfold prune_map. induction e as [|[k1 l] r IH]; cbn [map filter fst snd]; [intros []|].
    destruct (nonempty (filter (id_neqb i) l)); cbn [map fst].
    - intros [H|H]; [left; exact H | right; apply IH; exact H].
    - intros H. right. apply IH. exact H.
  Qed.

  Lemma nodup_prune : forall i e, NoDup (map fst e) -> NoDup (map fst (prune_map i e)).
  Proof.
    intros i e. induction e as [|[k1 l] r IH]; intros H; [constructor|].
    cbn [map fst] in H. inversion H as [|x xs Hx Hr]; subst.
    unfold prune_map. cbn [map filter fst snd]. fold (prune_map i r).
    destruct (nonempty (filter (id_neqb i) l)); cbn [map fst].
    - constructor; [intros HI; apply Hx; apply (keys_prune_incl i); exact HI | apply IH; exact Hr].
    - apply IH. exact Hr.
  Qed.

  Lemma nonempty_false : forall {A} (l : list A), nonempty l = false -> l = [].
  Proof. intros A [|x l] H; [reflexivity | discriminate]. Qed.

  Lemma assoc_prune : forall i e k, NoDup (map fst e) ->
    assoc eqb k (prune_map i e) = filter (id_neqb i) (assoc eqb k e).
  Proof.
    intros i e k. induction e as [|[k1 l] r IH]; intros H; [reflexivity|].
    cbn [map fst] in H. inversion H as [|x xs Hx Hr]; subst.
    unfold prune_map. cbn [map filter fst snd]. fold (prune_map i r). cbn [assoc].
    destruct (nonempty (filter (id_neqb i) l)) eqn:Hne; cbn [assoc].
    - destruct (eqb k1 k); [reflexivity | apply IH; exact Hr].
    - destruct (eqb k1 k) eqn:E.
      + apply eqb_spec in E. subst k1. rewrite (nonempty_false _ Hne).
        apply assoc_notin. intros HI. apply Hx. apply (keys_prune_incl i). exact HI.
      + apply IH. exact Hr.
  Qed.

  Lemma tinv_tremove : forall i t mem, tinv t mem -> tinv (tremove i t) (filter (id_neqb i) mem).
  Proof.
    intros i t mem [[Hnd Has] H3]. unfold tremove. fold (prune_map i (t_ents t)).
    assert (He' : einv (prune_map i (t_ents t)) (filter (id_neqb i) mem)).
    { split; [apply nodup_prune; exact Hnd|]. intros k. rewrite assoc_prune by exact Hnd. rewrite Has. apply filter_comm. }
    split; [exact He'|]. cbn [t_sw t_ents].
    intros Hsw k0 l0 rest Hents c k Hin Hk.
    apply filter_In in Hin. destruct Hin as [Hin _].
    rewrite Hents in Hsw. cbn [nonempty] in Hsw. rewrite andb_true_r in Hsw.
    destruct (t_ents t) as [|[k1 l1] r1] eqn:Hold; [discriminate Hents|].
    pose proof (H3 Hsw k1 l1 r1 eq_refl) as Hall.
    assert (Hk1 : k = k1) by exact (Hall c k Hin Hk). subst k.
    (* the first surviving entry is non-empty, so some member carries its key *)
    assert (Hl0 : l0 <> []).
    { intros ->. assert (HI : In (k0, @nil clause) (prune_map i ((k1, l1) :: r1))) by (rewrite Hents; left; reflexivity).
      unfold prune_map in HI. apply filter_In in HI. destruct HI as [_ HI]. discriminate HI. }
    destruct He' as [_ Has']. specialize (Has' k0). rewrite Hents in Has'. cbn [assoc] in Has'. rewrite eqb_refl' in Has'.
    destruct l0 as [|c0 l0']; [contradiction|].
    assert (HI : In c0 (filter (haskey k0) (filter (id_neqb i) mem))) by (rewrite <- Has'; left; reflexivity).
    apply filter_In in HI. destruct HI as [HI Hh]. apply filter_In in HI. destruct HI as [HI _].
    unfold haskey in Hh. destruct (keyof c0) as [kc|] eqn:Hkc; [|discriminate].
    apply eqb_spec in Hh. subst kc. symmetry. exact (Hall c0 k0 HI Hkc).
  Qed.

  (* a lookup may return more than the clauses with that key (one key: no test), never fewer, never reordered *)
  Lemma lookup_sound : forall (P : clause -> bool) t mem k, tinv t mem ->
    (forall c, In c mem -> P c = true -> keyof c = Some k) ->
    filter P (lookup eqb t k) = filter P mem.
  Proof.
    intros P t mem k [[Hnd Has] H3] HP. unfold lookup. destruct (t_sw t) eqn:Hsw.
    - rewrite Has. apply filter_filter_imp. intros c Hin Hc. rewrite (haskey_key k c (HP c Hin Hc)). apply eqb_refl'.
    - destruct (t_ents t) as [|[k0 l0] r] eqn:Hents.
      + cbn [filter]. symmetry. apply filter_none. intros c Hin. destruct (P c) eqn:Hc; [|reflexivity].
        pose proof (keyed_in_assoc _ _ c k (conj Hnd Has) Hin (HP c Hin Hc)) as HI. destruct HI.
      + assert (Hl0 : l0 = filter (haskey k0) mem).
        { rewrite <- Has. cbn [assoc]. rewrite eqb_refl'. reflexivity. }
        rewrite Hl0. apply filter_filter_imp. intros c Hin Hc.
        pose proof (HP c Hin Hc) as Hk. rewrite (haskey_key k c Hk).
        rewrite (H3 eq_refl k0 l0 r eq_refl c k Hin Hk). apply eqb_refl'.
  Qed.
End Tab.

(* ------------------------------------------------------------------ head unification and classes *)
Lemma unif_go_length : forall xs ys,
  (fix go (xs ys : list term) : bool :=
     match xs, ys with
     | [], [] => true
     | x :: xs', y :: ys' => unif x y && go xs' ys'
     | _, _ => false
     end) xs ys = true -> length xs = length ys.
Proof.
  induction xs as [|x xs IH]; intros [|y ys] H; try reflexivity; try discriminate.
  apply andb_true_iff in H. destruct H as [_ H]. cbn [length]. f_equal. apply IH. exact H.
Qed.

Definition class_compat (a h : cls) : Prop :=
  match a with
  | CVar => True
  | _ => h = CVar \/ h = a
  end.

Lemma classify_var : forall t, classify t = CVar -> exists v, t = Var v.
Proof.
  intros [v|z|n d|b|s|f args]; cbn [classify]; intros H; try discriminate.
  - exists v. reflexivity.
  - destruct (Z.eqb d 1); discriminate.
  - destruct (name_eqb f dot && Nat.eqb (length args) 2); discriminate.
Qed.

Lemma const_case : forall ca ch,
  (match ca, ch with CConst k, CConst k' => ckey_eqb k k' | _, _ => false end) = true -> ch = ca.
Proof. intros [|k| |f n] [|k'| |g m] H; try discriminate. apply ckey_eqb_spec in H. subst. reflexivity. Qed.

Lemma class_compat_eq : forall ca ch, ch = ca -> class_compat ca ch.
Proof. intros ca ch ->. destruct ca; [exact I | right; reflexivity ..]. Qed.

Lemma class_compat_var : forall ca, class_compat ca CVar.
Proof. intros [|k| |f n]; [exact I | left; reflexivity ..]. Qed.

Lemma unif_class : forall a h, unif a h = true -> class_compat (classify a) (classify h).
Proof.
  intros a h H.
  destruct a as [va|za|na da|ba|sa|fa xa]; [exact I|..];
  (destruct h as [vh|zh|nh dh|bh|sh|fh xh]; [apply class_compat_var|..]).
  all: try (apply class_compat_eq; apply const_case; exact H).
  cbn [unif] in H. apply andb_true_iff in H. destruct H as [Hn Hg]. apply list_eqb_N_eq in Hn. apply unif_go_length in Hg.
  subst fh. apply class_compat_eq. cbn [classify]. rewrite Hg. reflexivity.
Qed.

Lemma unif_list_nth : forall xs ys, unif_list xs ys = true -> forall i, unif (nth i xs (Var 0)) (nth i ys (Var 0)) = true.
Proof.
  induction xs as [|x xs IH]; intros [|y ys] H i; try discriminate.
  - destruct i; reflexivity.
  - cbn [unif_list] in H. apply andb_true_iff in H. destruct H as [H1 H2].
    destruct i as [|i]; cbn [nth]; [exact H1 | apply IH; exact H2].
Qed.

(* ------------------------------------------------------------------ sub-sequences *)
Definition nonvar_at (i : nat) (c : clause) : Prop := classify (arg_at i c) <> CVar.

Definition sinv (s : span) : Prop :=
  match s_arg s with
  | None => True
  | Some i =>
      tinv ckey ckey_eqb (con_key i) (s_con s) (s_mem s) /\
      tinv skey skey_eqb (str_key i) (s_str s) (s_mem s) /\
      s_lis s = filter (is_lis i) (s_mem s) /\
      Forall (nonvar_at i) (s_mem s)
  end.

Lemma span_exact : forall s call, sinv s ->
  filter (unifies call) (select_span s call) = filter (unifies call) (s_mem s).
Proof.
  intros s call Hs. unfold select_span, sinv in *. destruct (s_arg s) as [i|]; [|reflexivity].
  destruct Hs as (Hc & Hst & Hl & Hnv).
  assert (Hcompat : forall c, In c (s_mem s) -> unifies call c = true ->
                    class_compat (classify (nth i call (Var 0))) (classify (arg_at i c))).
  { intros c Hin Hu. unfold unifies in Hu. apply unif_class. unfold arg_at. apply unif_list_nth. exact Hu. }
  assert (Hnvc : forall c, In c (s_mem s) -> classify (arg_at i c) <> CVar).
  { intros c Hin. rewrite Forall_forall in Hnv. apply Hnv. exact Hin. }
  destruct (classify (nth i call (Var 0))) as [|k| |f n] eqn:Ca.
  - reflexivity.
  - apply (lookup_sound ckey ckey_eqb ckey_eqb_spec (con_key i)); [exact Hc|].
    intros c Hin Hu. pose proof (Hcompat c Hin Hu) as HC. cbn [class_compat] in HC.
    destruct HC as [HC|HC]; [elim (Hnvc c Hin HC)|]. unfold con_key. rewrite HC. reflexivity.
  - rewrite Hl. apply filter_filter_imp. intros c Hin Hu. pose proof (Hcompat c Hin Hu) as HC. cbn [class_compat] in HC.
    destruct HC as [HC|HC]; [elim (Hnvc c Hin HC)|]. unfold is_lis. rewrite HC. reflexivity.
  - apply (lookup_sound skey skey_eqb skey_eqb_spec (str_key i)); [exact Hst|].
    intros c Hin Hu. pose proof (Hcompat c Hin Hu) as HC. cbn [class_compat] in HC.
    destruct HC as [HC|HC]; [elim (Hnvc c Hin HC)|]. unfold str_key. rewrite HC. reflexivity.
Qed.

Definition mems (idx : list span) : list clause := flat_map s_mem idx.

Lemma index_exact_gen : forall idx call, Forall sinv idx ->
  filter (unifies call) (select idx call) = filter (unifies call) (mems idx).
Proof.
  intros idx call H. unfold select, mems. induction H as [|s idx Hs Hr IH]; [reflexivity|].
  cbn [flat_map]. rewrite !filter_app'. rewrite IH, (span_exact s call Hs). reflexivity.
Qed.

(* fresh build of one sub-sequence *)
Lemma lis_fold : forall i cs l0, fold_left (fun l c => if is_lis i c then l ++ [c] else l) cs l0 = l0 ++ filter (is_lis i) cs.
Proof.
  intros i cs. induction cs as [|c cs IH]; intros l0; cbn [fold_left filter]; [rewrite app_nil_r; reflexivity|].
  rewrite IH. destruct (is_lis i c); [rewrite <- app_assoc|]; reflexivity.
Qed.

Lemma sinv_build_span : forall i b cs, Forall (nonvar_at i) cs -> sinv (build_span i b cs).
Proof.
  intros i b cs H. unfold build_span. destruct b; unfold sinv; cbn [s_arg s_mem s_con s_str s_lis]; [|exact I].
  split; [|split; [|split]].
  - apply tinv_build. exact ckey_eqb_spec.
  - apply tinv_build. exact skey_eqb_spec.
  - apply (lis_fold i cs []).
  - exact H.
Qed.

Lemma mem_build_span : forall i b cs, s_mem (build_span i b cs) = cs.
Proof. intros i b cs. unfold build_span. destruct b; reflexivity. Qed.

(* split_predicate *)
Lemma first_inst_from_nonvar : forall args k i, first_inst_from k args = Some i ->
  (k <= i)%nat /\ classify (nth (i - k) args (Var 0)) <> CVar.
Proof.
  induction args as [|a args IH]; intros k i H; cbn [first_inst_from] in H; [discriminate|].
  destruct a as [v| | | | |].
  1: { apply IH in H. destruct H as [Hle Hc]. split; [lia|]. replace (i - k)%nat with (S (i - S k)) by lia. exact Hc. }
  all: injection H as <-; split; [lia|]; rewrite Nat.sub_diag; cbn [nth classify]; try discriminate.
  - destruct (Z.eqb d 1); discriminate.
  - destruct (name_eqb f dot && Nat.eqb (length args0) 2); discriminate.
Qed.

Lemma first_inst_nonvar : forall c i, first_inst c = Some i -> nonvar_at i c.
Proof.
  intros c i H. unfold first_inst in H. apply first_inst_from_nonvar in H. destruct H as [_ H].
  rewrite Nat.sub_0_r in H. exact H.
Qed.

Definition span_ok (p : option nat * list clause) : Prop :=
  match fst p with Some i => Forall (nonvar_at i) (snd p) | None => True end.

Lemma flush_ok : forall opt cur, Forall (nonvar_at opt) cur -> Forall span_ok (flush opt cur).
Proof. intros opt [|c cur] H; cbn [flush]; constructor; [exact H | constructor]. Qed.

Lemma flush_concat : forall opt cur, flat_map snd (flush opt cur) = cur.
Proof. intros opt [|c cur]; cbn [flush flat_map snd]; [reflexivity | apply app_nil_r]. Qed.

Lemma split_go_ok : forall l opt cur, Forall (nonvar_at opt) cur ->
  Forall span_ok (split_go opt cur l) /\ flat_map snd (split_go opt cur l) = cur ++ l.
Proof.
  induction l as [|c r IH]; intros opt cur Hcur; cbn [split_go].
  - split; [apply flush_ok; exact Hcur | rewrite flush_concat, app_nil_r; reflexivity].
  - destruct (first_inst c) as [j|] eqn:Hf.
    + pose proof (first_inst_nonvar c j Hf) as Hnv.
      destruct (Nat.eqb j opt) eqn:E.
      * apply Nat.eqb_eq in E. subst j.
        destruct (IH opt (cur ++ [c])) as [H1 H2]; [apply Forall_app; split; [exact Hcur | constructor; [exact Hnv | constructor]]|].
        split; [exact H1 | rewrite H2, <- app_assoc; reflexivity].
      * destruct (IH j [c]) as [H1 H2]; [constructor; [exact Hnv | constructor]|].
        destruct cur as [|c0 cur].
        -- split; [exact H1 | rewrite H2; reflexivity].
        -- split; [constructor; [exact Hcur | exact H1] | cbn [flat_map snd]; rewrite H2; reflexivity].
    + destruct (IH 0%nat []) as [H1 H2]; [constructor|].
      split.
      * apply Forall_app. split; [apply flush_ok; exact Hcur | constructor; [exact I | exact H1]].
      * rewrite flat_map_app, flush_concat. cbn [flat_map snd]. rewrite H2. reflexivity.
Qed.

Lemma build_ok : forall ext cs, Forall sinv (build ext cs) /\ mems (build ext cs) = cs.
Proof.
  intros ext cs. unfold build, split. destruct (split_go_ok cs 0%nat [] (Forall_nil _)) as [H1 H2].
  cbn [app] in H2. revert H1 H2. generalize (split_go 0 [] cs) as sp. intros sp H1 H2. subst cs.
  induction H1 as [|[[i|] m] sp Hp Hr IH]; cbn [map flat_map fst snd mems]; [split; [constructor | reflexivity]| |].
  - destruct IH as [I1 I2]. split.
    + constructor; [apply sinv_build_span; exact Hp | exact I1].
    + unfold mems in *. cbn [flat_map]. rewrite mem_build_span, I2. reflexivity.
  - destruct IH as [I1 I2]. split.
    + constructor; [exact I | exact I1].
    + unfold mems in *. cbn [flat_map]. rewrite mem_build_span, I2. reflexivity.
Qed.

(* ------------------------------------------------------------------ incremental maintenance *)
Lemma compat_some : forall c s i, compat c s = Some i -> s_arg s = Some i /\ first_inst c = Some i.
Proof.
  intros c s i H. unfold compat in H. destruct (first_inst c) as [j|]; [|discriminate]. destruct (s_arg s) as [i'|]; [|discriminate].
  destruct (Nat.eqb i' j) eqn:E; [|discriminate]. apply Nat.eqb_eq in E. injection H as <-. subst. split; reflexivity.
Qed.

Lemma sinv_span_add : forall front i c s, s_arg s = Some i -> nonvar_at i c -> sinv s -> sinv (span_add front i c s).
Proof.
  intros front i c s Ha Hnv Hs. unfold sinv in *. unfold span_add. cbn [s_arg s_mem s_con s_str s_lis]. rewrite Ha in *.
  destruct Hs as (Hc & Hst & Hl & Hf).
  change (if front then c :: s_mem s else s_mem s ++ [c]) with (ins front c (s_mem s)).
  split; [|split; [|split]].
  - apply tinv_tadd; [exact ckey_eqb_spec | exact Hc].
  - apply tinv_tadd; [exact skey_eqb_spec | exact Hst].
  - rewrite filter_ins, Hl. unfold ins. destruct (is_lis i c); reflexivity.
  - unfold ins. destruct front; [constructor; assumption | apply Forall_app; split; [exact Hf | constructor; [exact Hnv | constructor]]].
Qed.

Lemma mem_span_add : forall front i c s, s_mem (span_add front i c s) = ins front c (s_mem s).
Proof. reflexivity. Qed.

Lemma sinv_new_span : forall c, sinv (new_span c) /\ s_mem (new_span c) = [c].
Proof.
  intros c. unfold new_span. destruct (first_inst c) as [i|] eqn:Hf; split; try apply mem_build_span.
  - apply sinv_build_span. constructor; [apply first_inst_nonvar; exact Hf | constructor].
  - exact I.
Qed.

Lemma add_last_ok : forall c idx, Forall sinv idx -> Forall sinv (add_last c idx) /\ mems (add_last c idx) = mems idx ++ [c].
Proof.
  intros c idx H. induction H as [|s r Hs Hr IH]; cbn [add_last].
  - destruct (sinv_new_span c) as [H1 H2]. split; [constructor; [exact H1 | constructor]|]. unfold mems. cbn [flat_map]. rewrite H2. reflexivity.
  - destruct r as [|s' r'].
    + destruct (compat c s) as [i|] eqn:Hc.
      * apply compat_some in Hc. destruct Hc as [Ha Hf]. split.
        -- constructor; [apply sinv_span_add; [exact Ha | apply first_inst_nonvar; exact Hf | exact Hs] | constructor].
        -- unfold mems. cbn [flat_map]. rewrite !app_nil_r. reflexivity.
      * destruct (sinv_new_span c) as [H1 H2]. split; [constructor; [exact Hs | constructor; [exact H1 | constructor]]|].
        unfold mems. cbn [flat_map]. rewrite H2, !app_nil_r. reflexivity.
    + destruct IH as [I1 I2]. split; [constructor; assumption|].
      unfold mems in *. cbn [flat_map] in *. rewrite I2. rewrite <- !app_assoc. reflexivity.
Qed.

Lemma add_first_ok : forall c idx, Forall sinv idx -> Forall sinv (add_first c idx) /\ mems (add_first c idx) = c :: mems idx.
Proof.
  intros c idx H. destruct H as [|s r Hs Hr]; cbn [add_first].
  - destruct (sinv_new_span c) as [H1 H2]. split; [constructor; [exact H1 | constructor]|]. unfold mems. cbn [flat_map]. rewrite H2. reflexivity.
  - destruct (compat c s) as [i|] eqn:Hc.
    + apply compat_some in Hc. destruct Hc as [Ha Hf]. split.
      * constructor; [apply sinv_span_add; [exact Ha | apply first_inst_nonvar; exact Hf | exact Hs] | exact Hr].
      * reflexivity.
    + destruct (sinv_new_span c) as [H1 H2]. split; [constructor; [exact H1 | constructor; assumption]|].
      unfold mems. cbn [flat_map]. rewrite H2. reflexivity.
Qed.

Lemma sinv_span_remove : forall i s, sinv s -> sinv (span_remove i s).
Proof.
  intros i s Hs. unfold sinv in *. unfold span_remove. cbn [s_arg s_mem s_con s_str s_lis]. destruct (s_arg s) as [a|]; [|exact I].
  destruct Hs as (Hc & Hst & Hl & Hf). split; [|split; [|split]].
  - apply tinv_tremove; [exact ckey_eqb_spec | exact Hc].
  - apply tinv_tremove; [exact skey_eqb_spec | exact Hst].
  - rewrite Hl. apply filter_comm.
  - rewrite Forall_forall in *. intros c Hin. apply filter_In in Hin. apply Hf. apply Hin.
Qed.

Lemma remove_ok : forall i idx, Forall sinv idx -> Forall sinv (remove i idx) /\ mems (remove i idx) = filter (id_neqb i) (mems idx).
Proof.
  intros i idx H. unfold remove, mems. induction H as [|s r Hs Hr IH]; [split; [constructor | reflexivity]|].
  destruct IH as [I1 I2]. cbn [map filter flat_map]. rewrite filter_app'.
  destruct (nonempty (s_mem (span_remove i s))) eqn:Hne.
  - split; [constructor; [apply sinv_span_remove; exact Hs | exact I1]|]. cbn [flat_map]. rewrite I2. reflexivity.
  - split; [exact I1|]. rewrite I2. apply nonempty_false in Hne. cbn [span_remove s_mem] in Hne. rewrite Hne. reflexivity.
Qed.

Lemma run_ok : forall ops idx, Forall sinv idx ->
  Forall sinv (run ops idx) /\ mems (run ops idx) = run_list ops (mems idx).
Proof.
  induction ops as [|o ops IH]; intros idx H; cbn [run run_list fold_left]; [split; [exact H | reflexivity]|].
  assert (Ho : Forall sinv (apply_op idx o) /\ mems (apply_op idx o) = apply_op_list (mems idx) o).
  { destruct o as [c|c|i]; cbn [apply_op apply_op_list]; [apply add_first_ok | apply add_last_ok | apply remove_ok]; exact H. }
  destruct Ho as [H1 H2]. destruct (IH (apply_op idx o) H1) as [H3 H4]. split; [exact H3|].
  unfold run, run_list in *. rewrite H4, H2. reflexivity.
Qed.

(* ------------------------------------------------------------------ the property theorems *)
Theorem index_exact_thm : forall ext cs call,
  filter (unifies call) (select (build ext cs) call) = filter (unifies call) cs.
Proof.
  intros ext cs call. destruct (build_ok ext cs) as [H1 H2]. rewrite (index_exact_gen _ call H1), H2. reflexivity.
Qed.

Theorem index_ops_exact : forall ext init ops call,
  filter (unifies call) (select (run ops (build ext init)) call) = filter (unifies call) (run_list ops init).
Proof.
  intros ext init ops call. destruct (build_ok ext init) as [H1 H2]. destruct (run_ok ops _ H1) as [H3 H4].
  rewrite (index_exact_gen _ call H3), H4, H2. reflexivity.
Qed.

Theorem index_incremental_thm : forall ext ext' init ops call,
  filter (unifies call) (select (run ops (build ext init)) call) =
  filter (unifies call) (select (build ext' (run_list ops init)) call).
Proof. intros. rewrite index_ops_exact, index_exact_thm. reflexivity. Qed.

(* a single step, as the design states it *)
Theorem index_step_thm : forall ext cs call,
  (forall c, filter (unifies call) (select (add_last c (build ext cs)) call) = filter (unifies call) (select (build ext (cs ++ [c])) call)) /\
  (forall c, filter (unifies call) (select (add_first c (build ext cs)) call) = filter (unifies call) (select (build ext (c :: cs)) call)) /\
  (forall i, filter (unifies call) (select (remove i (build ext cs)) call) = filter (unifies call) (select (build ext (filter (id_neqb i) cs)) call)).
Proof.
  intros ext cs call. repeat split; intros x.
  - exact (index_incremental_thm ext ext cs [OpZ x] call).
  - exact (index_incremental_thm ext ext cs [OpA x] call).
  - exact (index_incremental_thm ext ext cs [OpR x] call).
Qed.

Theorem answers_naive_thm : forall ext cs call, answers (build ext cs) call = naive cs call.
Proof. intros. unfold answers, naive. rewrite index_exact_thm. reflexivity. Qed.

Theorem answers_ops_naive_thm : forall ext init ops call, answers (run ops (build ext init)) call = naive (run_list ops init) call.
Proof. intros. unfold answers, naive. rewrite index_ops_exact. reflexivity. Qed.

(* the candidates are clauses of the predicate: indexing never invents a clause *)
Theorem select_incl_thm : forall ext init ops call c, In c (select (run ops (build ext init)) call) -> unifies call c = true -> In c (run_list ops init).
Proof.
  intros ext init ops call c Hin Hu.
  assert (H : In c (filter (unifies call) (select (run ops (build ext init)) call))) by (apply filter_In; split; assumption).
  rewrite index_ops_exact in H. apply filter_In in H. apply H.
Qed.

(* the comparison functions of the correspondence decide equality with the model's answers *)
Lemma nlist_eqb_eq : forall a b, nlist_eqb a b = true <-> a = b.
Proof.
  induction a as [|x a IH]; intros [|y b]; cbn [nlist_eqb]; split; intros H; try reflexivity; try discriminate.
  - apply andb_true_iff in H. destruct H as [H1 H2]. apply N.eqb_eq in H1. apply IH in H2. subst. reflexivity.
  - injection H as -> ->. apply andb_true_iff. split; [apply N.eqb_refl | apply IH; reflexivity].
Qed.

Theorem check_static_meaning : forall ext cs cases,
  check_static ext cs cases = true <-> forall call obs, In (call, obs) cases -> obs = naive cs call.
Proof.
  intros ext cs cases. unfold check_static, check_cases. rewrite forallb_forall. split.
  - intros H call obs Hin. specialize (H (call, obs) Hin). cbn [fst snd] in H. apply nlist_eqb_eq in H.
    rewrite answers_naive_thm in H. symmetry. exact H.
  - intros H [call obs] Hin. cbn [fst snd]. apply nlist_eqb_eq. rewrite answers_naive_thm. symmetry. apply H. exact Hin.
Qed.

Theorem check_dynamic_meaning : forall init ops cases,
  check_dynamic init ops cases = true <-> forall call obs, In (call, obs) cases -> obs = naive (run_list ops init) call.
Proof.
  intros init ops cases. unfold check_dynamic, check_cases. rewrite forallb_forall. split.
  - intros H call obs Hin. specialize (H (call, obs) Hin). cbn [fst snd] in H. apply nlist_eqb_eq in H.
    rewrite answers_ops_naive_thm in H. symmetry. exact H.
  - intros H [call obs] Hin. cbn [fst snd]. apply nlist_eqb_eq. rewrite answers_ops_naive_thm. symmetry. apply H. exact Hin.
Qed.

(* ------------------------------------------------------------------ `unif` never rejects a unifiable pair *)
Lemma ckey_eqb_refl : forall k, ckey_eqb k k = true.
Proof. intros k. apply ckey_eqb_spec. reflexivity. Qed.

Lemma const_self : forall t, (forall v, t <> Var v) -> (forall f xs, t <> Cmp f xs) ->
  (match classify t, classify t with CConst k, CConst k' => ckey_eqb k k' | _, _ => false end) = true.
Proof.
  intros [v|z|n d|b|s|f xs] Hv Hc; cbn [classify]; try apply ckey_eqb_refl.
  - elim (Hv v). reflexivity.
  - destruct (Z.eqb d 1); apply ckey_eqb_refl.
  - elim (Hc f xs). reflexivity.
Qed.

Lemma unif_complete_lem : forall s a h, subst_apply s a = subst_apply s h -> unif a h = true.
Proof.
  intros s a. induction a as [va|za|na da|ba|sa|fa xa IH] using term_ind'; intros h H.
  - reflexivity.
  - destruct h as [vh|zh|nh dh|bh|sh|fh xh]; try reflexivity; cbn [subst_apply] in H; try discriminate H.
    injection H as <-. cbn [unif]. apply const_self; intros; discriminate.
  - destruct h as [vh|zh|nh dh|bh|sh|fh xh]; try reflexivity; cbn [subst_apply] in H; try discriminate H.
    injection H as <- <-. cbn [unif]. apply const_self; intros; discriminate.
  - destruct h as [vh|zh|nh dh|bh|sh|fh xh]; try reflexivity; cbn [subst_apply] in H; try discriminate H.
    injection H as <-. cbn [unif]. apply const_self; intros; discriminate.
  - destruct h as [vh|zh|nh dh|bh|sh|fh xh]; try reflexivity; cbn [subst_apply] in H; try discriminate H.
    injection H as <-. cbn [unif]. apply const_self; intros; discriminate.
  - destruct h as [vh|zh|nh dh|bh|sh|fh xh]; try reflexivity; cbn [subst_apply] in H; try discriminate H.
    injection H as <- Hm. cbn [unif]. apply andb_true_iff. split; [apply list_eqb_N_eq; reflexivity|].
    revert xh Hm. induction IH as [|x xa Hx Hxa IHl]; intros [|y xh] Hm; cbn [map] in Hm; try discriminate Hm; [reflexivity|].
    injection Hm as H1 H2. apply andb_true_iff. split; [apply Hx; exact H1 | apply IHl; exact H2].
Qed.

Theorem unifies_complete_thm : forall s call c, map (subst_apply s) call = map (subst_apply s) (snd c) -> unifies call c = true.
Proof.
  intros s call [i args]. cbn [snd]. unfold unifies. cbn [snd]. revert args.
  induction call as [|x call IH]; intros [|y args] H; cbn [map] in H; try discriminate H; [reflexivity|].
  injection H as H1 H2. cbn [unif_list]. apply andb_true_iff. split; [exact (unif_complete_lem s x y H1) | apply IH; exact H2].
Qed.
