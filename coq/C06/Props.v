(* C06 -- pinned property theorems (nothing else lives here) *)
From Coq Require Import ZArith NArith List Bool.
From V Require Import Base.Term C06.Model C06.Proofs C06.Code C06.CodeProofs.
Import ListNotations.

(* Nothing dropped, nothing added, order kept: after head unification the clauses tried through the index of a
   freshly compiled predicate (split into sub-sequences, three tables per sub-sequence, with or without a switch line)
   are exactly the unifying clauses of the whole predicate in textual order.  For every predicate, every arity, every
   call (bound, unbound, any type of argument). *)
Theorem index_exact : forall ext clauses call,
  filter (unifies call) (select (build ext clauses) call) = filter (unifies call) clauses.
Proof. exact index_exact_thm. Qed.
Print Assumptions index_exact.

(* The incrementally maintained index (asserta / assertz / retract in any order, starting from any compiled
   predicate) selects like the index built from scratch from the resulting clause list. *)
Theorem index_incremental : forall ext ext' init ops call,
  filter (unifies call) (select (run ops (build ext init)) call) =
  filter (unifies call) (select (build ext' (run_list ops init)) call).
Proof. exact index_incremental_thm. Qed.
Print Assumptions index_incremental.

(* one step of each kind, as the design states it *)
Theorem index_incremental_step : forall ext cs call,
  (forall c, filter (unifies call) (select (add_last c (build ext cs)) call) = filter (unifies call) (select (build ext (cs ++ [c])) call)) /\
  (forall c, filter (unifies call) (select (add_first c (build ext cs)) call) = filter (unifies call) (select (build ext (c :: cs)) call)) /\
  (forall i, filter (unifies call) (select (remove i (build ext cs)) call) = filter (unifies call) (select (build ext (filter (id_neqb i) cs)) call)).
Proof. exact index_step_thm. Qed.
Print Assumptions index_incremental_step.

(* and it is exact with respect to the clause list the operations produce *)
Theorem index_incremental_exact : forall ext init ops call,
  filter (unifies call) (select (run ops (build ext init)) call) = filter (unifies call) (run_list ops init).
Proof. exact index_ops_exact. Qed.
Print Assumptions index_incremental_exact.

(* what the correspondence evaluates: the answer list through the index IS the naive answer list *)
Theorem answers_are_naive : forall ext init ops call,
  answers (build ext init) call = naive init call /\ answers (run ops (build ext init)) call = naive (run_list ops init) call.
Proof. exact (fun ext init ops call => conj (answers_naive_thm ext init call) (answers_ops_naive_thm ext init ops call)). Qed.
Print Assumptions answers_are_naive.

Theorem checks_decide_agreement : forall ext init ops cases,
  (check_static ext init cases = true <-> forall call obs, In (call, obs) cases -> obs = naive init call) /\
  (check_dynamic init ops cases = true <-> forall call obs, In (call, obs) cases -> obs = naive (run_list ops init) call).
Proof. exact (fun ext init ops cases => conj (check_static_meaning ext init cases) (check_dynamic_meaning init ops cases)). Qed.
Print Assumptions checks_decide_agreement.

(* `unifies` (structural matching, constants by value) never rejects a clause whose head has a common instance with
   the call: "nothing dropped" is about every really unifying clause *)
Theorem unifies_complete : forall s call c,
  map (subst_apply s) call = map (subst_apply s) (snd c) -> unifies call c = true.
Proof. exact unifies_complete_thm. Qed.
Print Assumptions unifies_complete.

(* ---- non-vacuity / the model really prunes *)
Definition A (s : N) := Atom [s].
Definition ex_clauses : list clause :=
  [ (1%N, [Int (2 ^ 70); Var 0]); (2%N, [Int 2; Var 0]); (3%N, [A 102; Var 0]); (4%N, [Var 1; Int 7]);
    (5%N, [tlist [A 97]; Var 0]); (6%N, [Cmp [102%N] [Var 0]; Var 1]); (7%N, [Int 2; Var 0]) ].
(* the index prunes: a call with first argument 2 tries clauses 2, 4, 7 only (4 has a variable first argument and is
   its own sub-sequence), in textual order *)
Example ex_prunes : map fst (select (build false ex_clauses) [Int 2; Var 9]) = [2%N; 4%N; 7%N]
                 /\ naive ex_clauses [Int 2; Var 9] = [2%N; 4%N; 7%N].
Proof. vm_compute. split; reflexivity. Qed.
(* with a single key there is no switch line: the candidates may include non-unifying clauses, head unification removes them *)
Example ex_single_key : map fst (select (build false [(1%N, [A 97]); (2%N, [A 97])]) [A 98]) = [1%N; 2%N]
                     /\ answers (build false [(1%N, [A 97]); (2%N, [A 97])]) [A 98] = [].
Proof. vm_compute. split; reflexivity. Qed.
(* incremental: asserta, retract, assertz on that predicate; -0.0 and 0.0 are one key, 2 rdiv 1 selects the clauses keyed 2 *)
Example ex_incremental :
  answers (run [OpA (8%N, [Flt 0; Var 0]); OpR 2%N; OpZ (9%N, [Int 2; Var 0])] (build true ex_clauses)) [Rat 2 1; Var 9] = [4%N; 7%N; 9%N]
  /\ answers (run [OpA (8%N, [Flt 0; Var 0]); OpR 2%N] (build true ex_clauses)) [Flt (2 ^ 63); Var 9] = [8%N; 4%N].
Proof. vm_compute. split; reflexivity. Qed.

(* ==== the indexing CODE of consulted (static) predicates (Code.v: mirror of compile_predicate / compile_pred_subseq /
   index_term / compute_indices and of the IndexingCode arm of the dispatch loop) ==== *)

(* Running the generated code -- outer try_me_else/retry_me_else/trust_me chain over the sub-sequences, switch_on_term
   with Fail / External / Internal pointers, switch_on_constant, switch_on_structure, IndexedChoice try/retry/trust with
   the (bp, boip, biip) or-frames, inner chain for an unbound argument -- enters exactly the clauses the abstract index
   selects, in that order, never gets stuck and needs no more than 3 * |code| + 1 steps; for every clause list, every
   clause-code length function and every call. *)
Theorem code_refines_model : forall clen clauses call,
  exec_code (build_code clen clauses) call = Some (select (build false clauses) call) /\
  exec_clauses (build_code clen clauses) call = select (build false clauses) call.
Proof. exact (fun clen cs call => conj (code_refines_thm clen cs call) (code_refines_list_thm clen cs call)). Qed.
Print Assumptions code_refines_model.

(* ... hence (index_exact transfers) after head unification they are exactly the unifying clauses in textual order *)
Theorem code_select_exact : forall clen clauses call,
  option_map (filter (unifies call)) (exec_code (build_code clen clauses) call) = Some (filter (unifies call) clauses) /\
  filter (unifies call) (exec_clauses (build_code clen clauses) call) = filter (unifies call) clauses.
Proof. exact code_select_exact_thm. Qed.
Print Assumptions code_select_exact.

Theorem code_answers_are_naive : forall clen clauses call,
  map fst (filter (unifies call) (exec_clauses (build_code clen clauses) call)) = naive clauses call.
Proof. exact code_answers_naive_thm. Qed.
Print Assumptions code_answers_are_naive.

(* ---- non-vacuity: the mirror's listing of
        p(a,1). p(b,2). p(a,3). p(f(_),4). p([x|_],5). p(g(_),6). p([],7). p(_,8). p(1,9). p(1,10). p(c,11).
   is, item for item, what library(diag) wam_instructions(p/2, Is) lists for it (offsets included) *)
Definition ex_code_clauses : list clause :=
  [ (1%N, [A 97; Int 1]); (2%N, [A 98; Int 2]); (3%N, [A 97; Int 3]); (4%N, [Cmp [102%N] [Var 0]; Int 4]);
    (5%N, [Cmp dot [A 120; Var 0]; Int 5]); (6%N, [Cmp [103%N] [Var 0]; Int 6]); (7%N, [tnil; Int 7]); (8%N, [Var 0; Int 8]);
    (9%N, [Int 1; Int 9]); (10%N, [Int 1; Int 10]); (11%N, [A 99; Int 11]) ].
Definition ex_code_lens : list nat := [3; 3; 3; 4; 4; 4; 3; 2; 3; 3; 3].
Example ex_code_listing :
  check_listing ex_code_clauses ex_code_lens
    [ OTry 33;
      OIdx [ LTerm 1 (PExt 1) (PInt 1) (PExt 19) (PInt 2);
             LCon [(KAtom [97%N], PInt 2); (KAtom [98%N], PExt 6); (KAtom nil_name, PExt 29)];
             LStr [(([102%N], 1), PExt 14); (([103%N], 1), PExt 24)];
             LChoice [ITry 2; ITrust 10] ];
      OTry 4; OClause 1 3; ORetry 4; OClause 2 3; ORetry 4; OClause 3 3; ORetry 5; OClause 4 4; ORetry 5; OClause 5 4;
      ORetry 5; OClause 6 4; OTrust; OClause 7 3;
      ORetry 3; OClause 8 2;
      OTrust;
      OIdx [ LTerm 1 (PExt 1) (PInt 1) PFail PFail; LCon [(KInt 1, PInt 1); (KAtom [99%N], PExt 10)]; LChoice [ITry 2; ITrust 6] ];
      OTry 4; OClause 9 3; ORetry 4; OClause 10 3; OTrust; OClause 11 3 ] = true.
Proof. vm_compute. reflexivity. Qed.
(* and the machine really goes through the IndexedChoice line, the External pointers and the outer chain *)
Example ex_code_runs :
  option_map (map fst) (exec_code (build_code (clen_of ex_code_lens) ex_code_clauses) [A 97; Var 0]) = Some [1%N; 3%N; 8%N] /\
  option_map (map fst) (exec_code (build_code (clen_of ex_code_lens) ex_code_clauses) [Int 1; Var 0]) = Some [8%N; 9%N; 10%N] /\
  option_map (map fst) (exec_code (build_code (clen_of ex_code_lens) ex_code_clauses) [Cmp [103%N] [Var 0]; Var 0]) = Some [6%N; 8%N] /\
  option_map (map fst) (exec_code (build_code (clen_of ex_code_lens) ex_code_clauses) [Int 5; Var 0]) = Some [8%N].
Proof. vm_compute. repeat split; reflexivity. Qed.
