(* C06 -- clause selection by argument indexing: executable model (definitions only).

   Mirrors, at the level of "which clauses does a call try, in which order":
     src/codegen.rs   split_predicate (sub-sequences and their indexed argument), compile_pred_subseq
     src/indexing.rs  CodeOffsets::index_term / index_constant / index_structure / index_list, compute_indices
                      (a SwitchOnConstant / SwitchOnStructure line exists only when there are >= 2 keys; with one
                      key the switch_on_term slot points straight at that key's clauses, no key test),
                      merge_clause_index (append / prepend), remove_index
     src/machine/dispatch.rs  select_switch_on_term_index, execute_switch_on_term
   Keys are compared BY VALUE (one integer is one key whatever cell holds it); this is where the model is a
   specification and not a mirror of `hm.get(&addr)` on the raw cell.  *)
From Coq Require Import ZArith NArith List Bool.
From V Require Import Base.Term.
Import ListNotations.

(* ------------------------------------------------------------------ keys and classes *)
Inductive ckey := KAtom (s : list N) | KInt (z : Z) | KRat (n d : Z) | KFlt (bits : Z).

(* floats are interned through OrderedFloat equality (offset_table.rs F64Table::build_with): -0.0 and 0.0 are one
   constant, for indexing as well as for unification (0.0 = -0.0 succeeds in this system) *)
Definition neg_zero_bits : Z := Z.shiftl 1 63.
Definition flt_norm (b : Z) : Z := if Z.eqb b neg_zero_bits then 0%Z else b.

Definition ckey_eqb (a b : ckey) : bool :=
  match a, b with
  | KAtom x, KAtom y => name_eqb x y
  | KInt x, KInt y => Z.eqb x y
  | KRat n d, KRat n' d' => Z.eqb n n' && Z.eqb d d'
  | KFlt x, KFlt y => Z.eqb x y
  | _, _ => false
  end.

Definition skey := (list N * nat)%type.
Definition skey_eqb (a b : skey) : bool := name_eqb (fst a) (fst b) && Nat.eqb (snd a) (snd b).

Inductive cls := CVar | CConst (k : ckey) | CList | CStruct (f : list N) (n : nat).

(* index_term (clause side) and select_switch_on_term_index (call side) use the same four classes:
   '.'/2 cells, strings and partial strings are "list"; other compounds "structure" keyed by name/arity; every
   atomic term a "constant" (an integral rational n/1 is the integer n: constant_key_alternatives, and 2 = 2 rdiv 1
   succeeds) *)
Definition classify (t : term) : cls :=
  match t with
  | Var _ => CVar
  | Int z => CConst (KInt z)
  | Rat n d => if Z.eqb d 1 then CConst (KInt n) else CConst (KRat n d)
  | Flt b => CConst (KFlt (flt_norm b))
  | Atom s => CConst (KAtom s)
  | Cmp f args => if name_eqb f dot && Nat.eqb (length args) 2 then CList else CStruct f (length args)
  end.

(* ------------------------------------------------------------------ clauses *)
(* a clause: an identity (what the correspondence observes) and the arguments of its head *)
Definition clause := (N * list term)%type.
Definition arg_at (i : nat) (c : clause) : term := nth i (snd c) (Var 0).

Fixpoint first_inst_from (i : nat) (args : list term) : option nat :=
  match args with
  | [] => None
  | Var _ :: r => first_inst_from (S i) r
  | _ :: _ => Some i
  end.
(* split_predicate: the first argument that is not a variable *)
Definition first_inst (c : clause) : option nat := first_inst_from 0 (snd c).

Definition con_key (i : nat) (c : clause) : option ckey :=
  match classify (arg_at i c) with CConst k => Some k | _ => None end.
Definition str_key (i : nat) (c : clause) : option skey :=
  match classify (arg_at i c) with CStruct f n => Some (f, n) | _ => None end.
Definition is_lis (i : nat) (c : clause) : bool :=
  match classify (arg_at i c) with CList => true | _ => false end.

(* ------------------------------------------------------------------ second-level tables *)
(* t_sw: a SwitchOnConstant/SwitchOnStructure line is present (keys are tested);
   t_ents: IndexMap in insertion order, key -> clauses (the third-level try/retry/trust chain) *)
Record table (K : Type) := mkT { t_sw : bool; t_ents : list (K * list clause) }.
Arguments mkT {K}.
Arguments t_sw {K}.
Arguments t_ents {K}.

Fixpoint assoc {K} (eqb : K -> K -> bool) (k : K) (e : list (K * list clause)) : list clause :=
  match e with
  | [] => []
  | (k', l) :: r => if eqb k' k then l else assoc eqb k r
  end.

(* entry(key).or_default().push_back / push_front; a new key goes to the end of the map *)
Fixpoint upsert {K} (eqb : K -> K -> bool) (front : bool) (k : K) (c : clause) (e : list (K * list clause)) :=
  match e with
  | [] => [(k, [c])]
  | (k', l) :: r => if eqb k' k then (k', if front then c :: l else l ++ [c]) :: r
                    else (k', l) :: upsert eqb front k c r
  end.

Definition lookup {K} (eqb : K -> K -> bool) (t : table K) (k : K) : list clause :=
  if t_sw t then assoc eqb k (t_ents t)
  else match t_ents t with [] => [] | (_, l) :: _ => l end.

Definition ents_add {K} (eqb : K -> K -> bool) (ko : option K) (c : clause) (e : list (K * list clause)) :=
  match ko with None => e | Some k => upsert eqb false k c e end.

(* Indexer::switch_on: a switch line only when the map has more than one key *)
Definition finish {K} (e : list (K * list clause)) : table K := mkT (Nat.ltb 1 (length e)) e.

(* merge_clause_index -> index_constant / index_structure: Fail -> External; External or a lone IndexedChoice ->
   internalize (a switch line appears) and insert; switch line present -> insert / extend the chain *)
Definition tadd {K} (eqb : K -> K -> bool) (front : bool) (ko : option K) (c : clause) (t : table K) : table K :=
  match ko with
  | None => t
  | Some k =>
    if t_sw t then mkT true (upsert eqb front k c (t_ents t))
    else match t_ents t with
         | [] => mkT false [(k, [c])]
         | _ => mkT true (upsert eqb front k c (t_ents t))
         end
  end.

Definition id_neqb (i : N) (c : clause) : bool := negb (N.eqb (fst c) i).
Definition nonempty {A} (l : list A) : bool := match l with [] => false | _ => true end.

(* remove_constant_indices / remove_structure_index: the clause leaves its chain; an emptied key leaves the map; an
   emptied map turns the slot back into Fail *)
Definition tremove {K} (i : N) (t : table K) : table K :=
  let e := filter (fun p => nonempty (snd p)) (map (fun p => (fst p, filter (id_neqb i) (snd p))) (t_ents t)) in
  mkT (t_sw t && nonempty e) e.

(* ------------------------------------------------------------------ sub-sequences *)
Record span := mkS {
  s_arg : option nat;          (* the indexed argument (0-based); None: no indexing code, every call tries all members *)
  s_mem : list clause;         (* the clauses in order (the try_me_else chain = the variable slot of switch_on_term) *)
  s_con : table ckey;
  s_str : table skey;
  s_lis : list clause }.

Definition empty_table {K} : table K := mkT false [].

Definition build_span (i : nat) (indexed : bool) (cs : list clause) : span :=
  if indexed then
    mkS (Some i) cs
        (finish (fold_left (fun e c => ents_add ckey_eqb (con_key i c) c e) cs []))
        (finish (fold_left (fun e c => ents_add skey_eqb (str_key i c) c e) cs []))
        (fold_left (fun l c => if is_lis i c then l ++ [c] else l) cs [])
  else mkS None cs empty_table empty_table [].

Definition select_span (s : span) (call : list term) : list clause :=
  match s_arg s with
  | None => s_mem s
  | Some i =>
    match classify (nth i call (Var 0)) with
    | CVar => s_mem s
    | CList => s_lis s
    | CConst k => lookup ckey_eqb (s_con s) k
    | CStruct f n => lookup skey_eqb (s_str s) (f, n)
    end
  end.

(* split_predicate, as a recursion over the clause list: opt = optimal_index, cur = clauses[left..right) *)
Definition flush (opt : nat) (cur : list clause) : list (option nat * list clause) :=
  match cur with [] => [] | _ => [(Some opt, cur)] end.

Fixpoint split_go (opt : nat) (cur : list clause) (l : list clause) : list (option nat * list clause) :=
  match l with
  | [] => flush opt cur
  | c :: r =>
    match first_inst c with
    | Some j => if Nat.eqb j opt then split_go opt (cur ++ [c]) r
                else match cur with
                     | [] => split_go j [c] r
                     | _ => (Some opt, cur) :: split_go j [c] r
                     end
    | None => flush opt cur ++ (None, [c]) :: split_go 0 [] r
    end
  end.

Definition split (cs : list clause) := split_go 0 [] cs.

(* compile_predicate: ext = settings.is_extensible (index_term runs when clauses_len > 1 || is_extensible) *)
Definition build (ext : bool) (cs : list clause) : list span :=
  map (fun p => match fst p with
                | Some i => build_span i (Nat.ltb 1 (length (snd p)) || ext) (snd p)
                | None => build_span 0 false (snd p)
                end) (split cs).

Definition select (idx : list span) (call : list term) : list clause :=
  flat_map (fun s => select_span s call) idx.

(* ------------------------------------------------------------------ incremental maintenance *)
Definition span_add (front : bool) (i : nat) (c : clause) (s : span) : span :=
  mkS (s_arg s)
      (if front then c :: s_mem s else s_mem s ++ [c])
      (tadd ckey_eqb front (con_key i c) c (s_con s))
      (tadd skey_eqb front (str_key i c) c (s_str s))
      (if is_lis i c then (if front then c :: s_lis s else s_lis s ++ [c]) else s_lis s).

Definition new_span (c : clause) : span :=
  match first_inst c with Some i => build_span i true [c] | None => build_span 0 false [c] end.

(* append_compiled_clause / prepend_compiled_clause: the neighbouring sub-sequence is extended when it is indexed and on
   the same argument (lower_bound_arg_num == target_arg_num); otherwise a new sub-sequence is threaded in *)
Definition compat (c : clause) (s : span) : option nat :=
  match first_inst c, s_arg s with
  | Some j, Some i => if Nat.eqb i j then Some i else None
  | _, _ => None
  end.

Fixpoint add_last (c : clause) (idx : list span) : list span :=
  match idx with
  | [] => [new_span c]
  | s :: r =>
    match r with
    | [] => match compat c s with Some i => [span_add false i c s] | None => [s; new_span c] end
    | _ :: _ => s :: add_last c r
    end
  end.

Definition add_first (c : clause) (idx : list span) : list span :=
  match idx with
  | [] => [new_span c]
  | s :: r => match compat c s with Some i => span_add true i c s :: r | None => new_span c :: s :: r end
  end.

Definition span_remove (i : N) (s : span) : span :=
  mkS (s_arg s) (filter (id_neqb i) (s_mem s)) (tremove i (s_con s)) (tremove i (s_str s)) (filter (id_neqb i) (s_lis s)).

(* a retracted clause leaves its sub-sequence (for dynamic predicates the code marks it dead and the birth/death
   test skips it: same observable); sub-sequences are not re-merged *)
Definition remove (i : N) (idx : list span) : list span :=
  filter (fun s => nonempty (s_mem s)) (map (span_remove i) idx).

Inductive op := OpA (c : clause) | OpZ (c : clause) | OpR (i : N).

Definition apply_op (idx : list span) (o : op) : list span :=
  match o with OpA c => add_first c idx | OpZ c => add_last c idx | OpR i => remove i idx end.
Definition run (ops : list op) (idx : list span) : list span := fold_left apply_op ops idx.

(* the clause list the same operations produce (asserta / assertz / retract of the clause with that identity) *)
Definition apply_op_list (l : list clause) (o : op) : list clause :=
  match o with OpA c => c :: l | OpZ c => l ++ [c] | OpR i => filter (id_neqb i) l end.
Definition run_list (ops : list op) (l : list clause) : list clause := fold_left apply_op_list ops l.

(* ------------------------------------------------------------------ head unification *)
(* Unifiability of a call argument with a head argument when the two terms share no variable and each variable
   occurs once (heads are renamed apart; the generated calls are linear): structural matching, constants by value. *)
Fixpoint unif (a h : term) : bool :=
  match a, h with
  | Var _, _ => true
  | _, Var _ => true
  | Cmp f xs, Cmp g ys =>
      name_eqb f g &&
      (fix go (xs ys : list term) : bool :=
         match xs, ys with
         | [], [] => true
         | x :: xs', y :: ys' => unif x y && go xs' ys'
         | _, _ => false
         end) xs ys
  | _, _ => match classify a, classify h with
            | CConst k, CConst k' => ckey_eqb k k'
            | _, _ => false
            end
  end.

Fixpoint unif_list (xs ys : list term) : bool :=
  match xs, ys with
  | [], [] => true
  | x :: xs', y :: ys' => unif x y && unif_list xs' ys'
  | _, _ => false
  end.

Definition unifies (call : list term) (c : clause) : bool := unif_list call (snd c).

(* ------------------------------------------------------------------ what the correspondence compares *)
Definition answers (idx : list span) (call : list term) : list N :=
  map fst (filter (unifies call) (select idx call)).
(* the naive semantics: every clause, in order, filtered by head unification *)
Definition naive (cs : list clause) (call : list term) : list N := map fst (filter (unifies call) cs).

Fixpoint nlist_eqb (a b : list N) : bool :=
  match a, b with
  | [], [] => true
  | x :: a', y :: b' => N.eqb x y && nlist_eqb a' b'
  | _, _ => false
  end.

(* big integers are passed as 60-bit limbs, least significant first (Coq parses long literals slowly) *)
Fixpoint limbs (l : list Z) : Z := match l with [] => 0%Z | x :: r => (x + Z.shiftl (limbs r) 60)%Z end.
Definition big (neg : bool) (l : list Z) : term := Int (if neg then Z.opp (limbs l) else limbs l).

Definition check_cases (idx : list span) (cases : list (list term * list N)) : bool :=
  forallb (fun p => nlist_eqb (answers idx (fst p)) (snd p)) cases.
Definition check_static (ext : bool) (cs : list clause) (cases : list (list term * list N)) : bool :=
  check_cases (build ext cs) cases.
Definition check_dynamic (init : list clause) (ops : list op) (cases : list (list term * list N)) : bool :=
  check_cases (run ops (build true init)) cases.
(* the same by the naive semantics (used to cross-check the two in the correspondence run as well) *)
Definition check_naive (cs : list clause) (cases : list (list term * list N)) : bool :=
  forallb (fun p => nlist_eqb (naive cs (fst p)) (snd p)) cases.

(* ------------------------------------------------------------------ substitutions (to state what `unif` means) *)
Fixpoint subst_apply (s : N -> term) (t : term) : term :=
  match t with
  | Var v => s v
  | Cmp f args => Cmp f (map (subst_apply s) args)
  | _ => t
  end.
