(* C06 -- the indexing CODE of a consulted (static, non-extensible) predicate: executable mirror (definitions only).

   Construction side, arm by arm:
     src/codegen.rs   compile_predicate (outer try_me_else / retry_me_else / trust_me chain over the sub-sequences of
                      split_predicate), compile_pred_subseq (inner chain over the clauses of one sub-sequence; `index =
                      code.len()` after the choice instruction; the IndexingCode instruction is pushed in front)
     src/indexing.rs  CodeOffsets::index_term / index_constant / index_structure / index_list (Try for the first entry of
                      a chain, Retry afterwards, offset index + 1), StaticCodeIndices::second_level_index / switch_on /
                      switch_on_list, cap_choice_seq_with_trust, compute_indices (push_back of the IndexedChoice lines,
                      push_front of switch_on_structure, switch_on_constant, switch_on_term; the +1 corrections of the
                      Internal pointers)
   Execution side:
     src/machine/dispatch.rs  the IndexingCode arm of the dispatch loop (oip selects the line, iip the entry of an
                      IndexedChoice), execute_switch_on_term (`index += o` for Internal, `p += o` for External),
                      select_switch_on_term_index, SwitchOnConstant / SwitchOnStructure lookups
     src/machine/mod.rs  try_me_else / retry_me_else / trust_me, indexed_try / retry / trust (the or-frame holds bp, boip,
                      biip), MachineState::backtrack (p, oip, iip := bp, boip, biip)
   Constants are keys BY VALUE (Model.ckey): the alternative Fixnum key that index_constant adds for an integer held in a
   bignum cell is by value the same key, so one entry.  A clause's own code is `Enter c` followed by `clen c` padding
   instructions (its length is a parameter: the offsets of the mirror are the real offsets).  What happens inside a
   clause is not modelled: entering a clause's code reports the clause as tried, then the machine backtracks (the
   enumeration of all candidates, as under findall).  Not modelled: next_applicable_clause (the look-ahead that skips a
   following clause whose head cannot match when a choice point is created or updated). *)
From Coq Require Import ZArith NArith List Bool Arith.
From V Require Import Base.Term C06.Model.
Import ListNotations.

(* ------------------------------------------------------------------ the code *)
Inductive ptr := PFail | PExt (o : nat) | PInt (o : nat).                    (* IndexingCodePtr *)
Inductive ichoice := ITry (o : nat) | IRetry (o : nat) | ITrust (o : nat).  (* IndexedChoiceInstruction *)
Definition ic_off (i : ichoice) : nat := match i with ITry o | IRetry o | ITrust o => o end.

Inductive iline :=                                                          (* IndexingLine *)
| LTerm (arg : nat) (v c l s : ptr)      (* switch_on_term: argument register (1-based), var, constant, list, structure *)
| LCon (m : list (ckey * ptr))           (* switch_on_constant, IndexMap in insertion order *)
| LStr (m : list (skey * ptr))           (* switch_on_structure *)
| LChoice (l : list ichoice).            (* IndexedChoice *)

Inductive instr :=
| TryMeElse (n : nat) | RetryMeElse (n : nat) | TrustMe
| Indexing (ls : list iline)
| Enter (c : clause)                     (* first instruction of the code of clause c *)
| Pad.                                   (* the other instructions of a clause's code *)

(* ------------------------------------------------------------------ construction *)
Definition is_nil {A} (l : list A) : bool := match l with [] => true | _ => false end.

(* Indexer::compute_index for StaticCodeIndices *)
Definition comp_index (initial : bool) (index : nat) : ichoice := if initial then ITry (index + 1) else IRetry (index + 1).

(* entry(key).or_default(), then push_back(compute_index(code.is_empty(), index)) *)
Fixpoint chain_push {K} (eqb : K -> K -> bool) (k : K) (index : nat) (m : list (K * list ichoice)) : list (K * list ichoice) :=
  match m with
  | [] => [(k, [comp_index true index])]
  | (k', l) :: r => if eqb k' k then (k', l ++ [comp_index (is_nil l) index]) :: r
                    else (k', l) :: chain_push eqb k index r
  end.

(* StaticCodeIndices *)
Record offs := mkO { o_con : list (ckey * list ichoice); o_lis : list ichoice; o_str : list (skey * list ichoice) }.
Definition empty_offs : offs := mkO [] [] [].

(* CodeOffsets::index_term on argument i (0-based) of clause c *)
Definition index_term (i : nat) (c : clause) (index : nat) (o : offs) : offs :=
  match classify (arg_at i c) with
  | CConst k => mkO (chain_push ckey_eqb k index (o_con o)) (o_lis o) (o_str o)
  | CList => mkO (o_con o) (o_lis o ++ [comp_index (is_nil (o_lis o)) index]) (o_str o)
  | CStruct f n => mkO (o_con o) (o_lis o) (chain_push skey_eqb (f, n) index (o_str o))
  | CVar => o
  end.

(* cap_choice_seq_with_trust *)
Fixpoint cap_trust (l : list ichoice) : list ichoice :=
  match l with
  | [] => []
  | x :: r => match r with
              | [] => [match x with IRetry o => ITrust o | _ => x end]
              | _ :: _ => x :: cap_trust r
              end
  end.

(* StaticCodeIndices::second_level_index *)
Fixpoint second_level {K} (m : list (K * list ichoice)) (prelude : list iline) : list (K * ptr) * list iline :=
  match m with
  | [] => ([], prelude)
  | (k, code) :: r =>
    if Nat.ltb 1 (length code) then
      let (locs, p') := second_level r (prelude ++ [LChoice (cap_trust code)]) in
      ((k, PInt (length prelude + 1)) :: locs, p')
    else match code with
         | i :: _ => let (locs, p') := second_level r prelude in ((k, PExt (ic_off i)) :: locs, p')
         | [] => second_level r prelude
         end
  end.

(* StaticCodeIndices::switch_on: (pointer, prelude, a switch line was emitted) *)
Definition switch_on {K} (mk : list (K * ptr) -> iline) (m : list (K * list ichoice)) (prelude : list iline)
  : ptr * list iline * bool :=
  let (locs, p') := second_level m prelude in
  if Nat.ltb 1 (length locs) then (PInt 1, mk locs :: p', true)
  else (match locs with (_, v) :: _ => v | [] => PFail end, p', false).

(* StaticCodeIndices::switch_on_list *)
Definition switch_on_list (lists : list ichoice) (prelude : list iline) : ptr * list iline :=
  if Nat.ltb 1 (length lists) then (PInt 1, prelude ++ [LChoice (cap_trust lists)])
  else (match lists with i :: _ => PExt (ic_off i) | [] => PFail end, prelude).

Definition bump (b : bool) (p : ptr) : ptr := match p with PInt i => PInt (i + (if b then 1 else 0)) | _ => p end.
Definition no_indices (o : offs) : bool := is_nil (o_con o) && is_nil (o_str o) && is_nil (o_lis o).

(* CodeOffsets::compute_indices(skip_stub_try_me_else = false): var_offset = 1 *)
Definition compute_indices (arg : nat) (o : offs) : list iline :=
  if no_indices o then [] else
  let '(lst, p1) := switch_on_list (o_lis o) [] in
  let '(str, p2, es) := switch_on LStr (o_str o) p1 in
  let '(con, p3, ec) := switch_on LCon (o_con o) p2 in
  LTerm arg (PExt 1) con (bump es (bump ec lst)) (bump ec str) :: p3.

Section Build.
  Variable clen : clause -> nat.       (* length of the clause's code, minus one *)

  Definition ccode (c : clause) : list instr := Enter c :: repeat Pad (clen c).

  (* a chain of choice instructions over blocks of code: match i { 0 => try_me_else(len + 1), last => trust_me,
     _ => retry_me_else(len + 1) }, the inner thread of compile_pred_subseq and the outer one of compile_predicate *)
  Fixpoint chain (first : bool) (bs : list (list instr)) : list instr :=
    match bs with
    | [] => []
    | b :: r => (if first then TryMeElse (length b + 1)
                 else match r with [] => TrustMe | _ :: _ => RetryMeElse (length b + 1) end) :: b ++ chain false r
    end.

  (* the index_term calls of compile_pred_subseq: pos = code.len() before the clause's choice instruction *)
  Fixpoint index_all (i : nat) (pos : nat) (cs : list clause) (o : offs) : offs :=
    match cs with
    | [] => o
    | c :: r => index_all i (pos + 1 + length (ccode c)) r (index_term i c (pos + 1) o)
    end.

  (* compile_pred_subseq::<StaticCodeIndices>, not extensible *)
  Definition seg_code (i : nat) (cs : list clause) : list instr :=
    match cs with
    | [] => []
    | [c] => ccode c
    | _ :: _ :: _ =>
      match compute_indices (i + 1) (index_all i 0 cs empty_offs) with
      | [] => chain true (map ccode cs)
      | ls => Indexing ls :: chain true (map ccode cs)
      end
    end.

  Definition span_code (p : option nat * list clause) : list instr :=
    seg_code (match fst p with Some i => i | None => 0 end) (snd p).

  (* compile_predicate *)
  Definition build_code (cs : list clause) : list instr :=
    match split cs with
    | [] => []
    | [p] => span_code p
    | sp => chain true (map span_code sp)
    end.
End Build.

(* ------------------------------------------------------------------ execution *)
(* select_switch_on_term_index *)
Definition term_ptr (cl : cls) (v c l s : ptr) : ptr :=
  match cl with CVar => v | CConst _ => c | CList => l | CStruct _ _ => s end.

Fixpoint assoc_ptr {K} (eqb : K -> K -> bool) (k : K) (m : list (K * ptr)) : ptr :=
  match m with
  | [] => PFail
  | (k', p) :: r => if eqb k' k then p else assoc_ptr eqb k r
  end.

(* one line of execute_switch_on_term; None: an IndexedChoice line (oip := index, iip := 0, leave the loop) *)
Definition line_ptr (cl : cls) (ln : iline) : option ptr :=
  match ln with
  | LTerm _ v c l s => Some (term_ptr cl v c l s)
  | LCon m => Some (match cl with CConst k => assoc_ptr ckey_eqb k m | _ => PFail end)
  | LStr m => Some (match cl with CStruct f n => assoc_ptr skey_eqb (f, n) m | _ => PFail end)
  | LChoice _ => None
  end.

Inductive sres := SFail | SExt (o : nat) | SChoice (idx : nat) | SErr.

(* the loop of execute_switch_on_term (fuel: the real loop is unbounded) *)
Fixpoint switch (fuel : nat) (ls : list iline) (cl : cls) (index : nat) : sres :=
  match fuel with
  | O => SErr
  | S f =>
    match nth_error ls index with
    | None => SErr
    | Some ln =>
      match line_ptr cl ln with
      | None => SChoice index
      | Some PFail => SFail
      | Some (PExt o) => SExt o
      | Some (PInt o) => switch f ls cl (index + o)
      end
    end
  end.

(* the register the first line names *)
Definition switch_arg (ls : list iline) : option nat :=
  match ls with LTerm a _ _ _ _ :: _ => Some a | _ => None end.

(* an or-frame: bp, boip, biip *)
Definition frame := (nat * nat * nat)%type.

Inductive st := Run (p oip iip : nat) (stk : list frame) | Halt | Err.

(* MachineState::backtrack; no or-frame left: the call has failed for good *)
Definition backtrack (stk : list frame) : st :=
  match stk with
  | [] => Halt
  | (bp, bo, bi) :: _ => Run bp bo bi stk
  end.

Definition step (code : list instr) (call : list term) (p oip iip : nat) (stk : list frame) : option clause * st :=
  match nth_error code p with
  | Some (TryMeElse n) => (None, Run (p + 1) oip iip ((p + n, 0, 0) :: stk))
  | Some (RetryMeElse n) =>
      match stk with
      | (_, bo, bi) :: stk' => (None, Run (p + 1) oip iip ((p + n, bo, bi) :: stk'))
      | [] => (None, Err)
      end
  | Some TrustMe =>
      match stk with
      | _ :: stk' => (None, Run (p + 1) oip iip stk')
      | [] => (None, Err)
      end
  | Some (Indexing ls) =>
      match nth_error ls oip with
      | Some (LChoice l) =>
          match nth_error l iip with
          | Some (ITry o) => (None, Run (p + o) oip iip ((p, oip, iip + 1) :: stk))             (* indexed_try *)
          | Some (IRetry o) =>
              match stk with
              | (bp, bo, bi) :: stk' => (None, Run (p + o) oip iip ((bp, bo, bi + 1) :: stk'))  (* retry: biip += 1 *)
              | [] => (None, Err)
              end
          | Some (ITrust o) =>
              match stk with
              | _ :: stk' => (None, Run (p + o) 0 0 stk')                                       (* trust_epilogue *)
              | [] => (None, Err)
              end
          | None => (None, Err)
          end
      | Some _ =>                                                                              (* execute_switch_on_term *)
          match switch_arg ls with
          | Some a =>
              match switch (S (S (S (length ls)))) ls (classify (nth (a - 1) call (Var 0))) 0 with
              | SFail => (None, backtrack stk)
              | SExt o => (None, Run (p + o) oip iip stk)
              | SChoice idx => (None, Run p idx 0 stk)
              | SErr => (None, Err)
              end
          | None => (None, Err)
          end
      | None => (None, Err)
      end
  | Some (Enter c) => (Some c, backtrack stk)
  | Some Pad => (None, Err)
  | None => (None, Err)
  end.

Definition olist {A} (o : option A) : list A := match o with Some x => [x] | None => [] end.

Fixpoint mrun (fuel : nat) (code : list instr) (call : list term) (s : st) : option (list clause) :=
  match fuel with
  | O => None
  | S f =>
    match s with
    | Halt => Some []
    | Err => None
    | Run p oip iip stk =>
        let (e, s') := step code call p oip iip stk in
        option_map (app (olist e)) (mrun f code call s')
    end
  end.

(* the clauses a call enters, in order; None: the machine got stuck (a pointer into nothing) *)
Definition exec_code (code : list instr) (call : list term) : option (list clause) :=
  match code with
  | [] => Some []                       (* no clause: no code *)
  | _ => mrun (3 * length code + 1) code call (Run 0 0 0 [])
  end.

(* ------------------------------------------------------------------ what the correspondence compares *)
(* the implementation's listing (library(diag) wam_instructions/2), clause code collapsed to its length *)
Inductive oinstr := OTry (n : nat) | ORetry (n : nat) | OTrust | OIdx (ls : list iline) | OClause (id : N) (len : nat).

Fixpoint drop_pads (l : list instr) : nat * list instr :=
  match l with
  | Pad :: r => let (n, r') := drop_pads r in (S n, r')
  | _ => (0, l)
  end.

Fixpoint shape (fuel : nat) (l : list instr) : list oinstr :=
  match fuel with
  | O => []
  | S f =>
    match l with
    | [] => []
    | TryMeElse n :: r => OTry n :: shape f r
    | RetryMeElse n :: r => ORetry n :: shape f r
    | TrustMe :: r => OTrust :: shape f r
    | Indexing ls :: r => OIdx ls :: shape f r
    | Enter c :: r => let (n, r') := drop_pads r in OClause (fst c) (S n) :: shape f r'
    | Pad :: r => OClause 0%N 0 :: shape f r
    end
  end.

Definition ptr_eqb (a b : ptr) : bool :=
  match a, b with
  | PFail, PFail => true
  | PExt x, PExt y => Nat.eqb x y
  | PInt x, PInt y => Nat.eqb x y
  | _, _ => false
  end.
Definition ichoice_eqb (a b : ichoice) : bool :=
  match a, b with
  | ITry x, ITry y => Nat.eqb x y
  | IRetry x, IRetry y => Nat.eqb x y
  | ITrust x, ITrust y => Nat.eqb x y
  | _, _ => false
  end.
Definition pair_eqb {K} (eqb : K -> K -> bool) (a b : K * ptr) : bool := eqb (fst a) (fst b) && ptr_eqb (snd a) (snd b).
Definition iline_eqb (a b : iline) : bool :=
  match a, b with
  | LTerm x v c l s, LTerm x' v' c' l' s' => Nat.eqb x x' && ptr_eqb v v' && ptr_eqb c c' && ptr_eqb l l' && ptr_eqb s s'
  | LCon m, LCon m' => list_eqb (pair_eqb ckey_eqb) m m'
  | LStr m, LStr m' => list_eqb (pair_eqb skey_eqb) m m'
  | LChoice l, LChoice l' => list_eqb ichoice_eqb l l'
  | _, _ => false
  end.
Definition oinstr_eqb (a b : oinstr) : bool :=
  match a, b with
  | OTry x, OTry y => Nat.eqb x y
  | ORetry x, ORetry y => Nat.eqb x y
  | OTrust, OTrust => true
  | OIdx l, OIdx l' => list_eqb iline_eqb l l'
  | OClause i n, OClause i' n' => N.eqb i i' && Nat.eqb n n'
  | _, _ => false
  end.

(* lens: the observed code length of each clause, in clause order (clause identities are 1, 2, ...) *)
Definition clen_of (lens : list nat) (c : clause) : nat := Nat.pred (nth (Nat.pred (N.to_nat (fst c))) lens 1).

Definition check_listing (cs : list clause) (lens : list nat) (obs : list oinstr) : bool :=
  let code := build_code (clen_of lens) cs in
  list_eqb oinstr_eqb (shape (S (length code)) code) obs.

(* the mirror machine on the mirror code gives the abstract model's candidates (a run-time cross-check of the theorem
   code_refines_model on the generated cases, and the reason the listing comparison says something about answers) *)
Definition check_exec (cs : list clause) (lens : list nat) (calls : list (list term)) : bool :=
  let code := build_code (clen_of lens) cs in
  forallb (fun call => match exec_code code call with
                       | Some l => nlist_eqb (map fst l) (map fst (select (build false cs) call))
                       | None => false
                       end) calls.
