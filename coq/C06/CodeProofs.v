(* C06 -- the indexing code (Code.v) refines the abstract index (Model.v) *)
From Coq Require Import ZArith NArith List Bool Arith Lia.
From V Require Import Base.Term C06.Model C06.Proofs C06.Code.
Import ListNotations.

(* ------------------------------------------------------------------ a list sitting inside another at a position *)
Definition at_pos {A} (l : list A) (P : nat) (mid : list A) : Prop :=
  forall j x, nth_error mid j = Some x -> nth_error l (P + j) = Some x.

Lemma at_pos_self : forall {A} (l : list A), at_pos l 0 l.
Proof. intros A l j x H. exact H. Qed.

Lemma at_pos_head : forall {A} (l : list A) P x r, at_pos l P (x :: r) -> nth_error l P = Some x.
Proof. intros A l P x r H. rewrite <- (Nat.add_0_r P). apply H. reflexivity. Qed.

Lemma at_pos_tail : forall {A} (l : list A) P x r, at_pos l P (x :: r) -> at_pos l (P + 1) r.
Proof. intros A l P x r H j y Hj. replace (P + 1 + j) with (P + S j) by lia. apply H. exact Hj. Qed.

Lemma at_pos_app_l : forall {A} (l : list A) P a b, at_pos l P (a ++ b) -> at_pos l P a.
Proof.
  intros A l P a b H j x Hj. apply H. rewrite nth_error_app1; [exact Hj|]. apply nth_error_Some. congruence.
Qed.

Lemma at_pos_app_r : forall {A} (l : list A) P a b, at_pos l P (a ++ b) -> at_pos l (P + length a) b.
Proof.
  intros A l P a b H j x Hj. replace (P + length a + j) with (P + (length a + j)) by lia. apply H.
  rewrite nth_error_app2 by lia. replace (length a + j - length a) with j by lia. exact Hj.
Qed.

Lemma at_pos_eq : forall {A} (l : list A) P Q mid, P = Q -> at_pos l P mid -> at_pos l Q mid.
Proof. intros A l P Q mid ->. exact (fun H => H). Qed.

Lemma at_pos_cons : forall {A} (l : list A) x, at_pos (x :: l) 1 l.
Proof. intros A l x j y H. exact H. Qed.

Lemma at_pos_trans : forall {A} (l m s : list A) P Q, at_pos l P m -> at_pos m Q s -> at_pos l (P + Q) s.
Proof. intros A l m s P Q H1 H2 j x Hj. rewrite <- Nat.add_assoc. apply H1. apply H2. exact Hj. Qed.

(* ------------------------------------------------------------------ runs of the machine *)
Section Exec.
  Variable clen : clause -> nat.
  Variable code : list instr.
  Variable call : list term.

  Definition emits (n : nat) (s : st) (out : list clause) (s' : st) : Prop :=
    forall f, mrun (n + f) code call s = option_map (app out) (mrun f code call s').

  Definition emitsB (B : nat) (s : st) (out : list clause) (s' : st) : Prop :=
    exists n, n <= B /\ emits n s out s'.

  Lemma emits_trans : forall n1 n2 s o1 s' o2 s'',
    emits n1 s o1 s' -> emits n2 s' o2 s'' -> emits (n1 + n2) s (o1 ++ o2) s''.
  Proof.
    intros n1 n2 s o1 s' o2 s'' H1 H2 f. rewrite <- Nat.add_assoc, H1, H2.
    destruct (mrun f code call s''); cbn [option_map]; [rewrite app_assoc|]; reflexivity.
  Qed.

  Lemma emitsB_trans : forall B1 B2 B s o1 s' o2 s'',
    emitsB B1 s o1 s' -> emitsB B2 s' o2 s'' -> B1 + B2 <= B -> emitsB B s (o1 ++ o2) s''.
  Proof.
    intros B1 B2 B s o1 s' o2 s'' (n1 & L1 & H1) (n2 & L2 & H2) HB. exists (n1 + n2). split; [lia|].
    exact (emits_trans _ _ _ _ _ _ _ H1 H2).
  Qed.

  Lemma emits_step : forall p o i stk e s', step code call p o i stk = (e, s') -> emits 1 (Run p o i stk) (olist e) s'.
  Proof. intros p o i stk e s' H f. cbn [Nat.add mrun]. rewrite H. reflexivity. Qed.

  Lemma emitsB_step : forall p o i stk e s', step code call p o i stk = (e, s') -> emitsB 1 (Run p o i stk) (olist e) s'.
  Proof. intros. exists 1. split; [lia|]. apply emits_step. assumption. Qed.

  (* entering a clause's code *)
  Lemma enter_emits : forall p o i stk c, nth_error code p = Some (Enter c) -> emitsB 1 (Run p o i stk) [c] (backtrack stk).
  Proof. intros p o i stk c H. apply (emitsB_step p o i stk (Some c)). unfold step. rewrite H. reflexivity. Qed.

  (* a block of code that, entered with oip = iip = 0, reports `out` and backtracks *)
  Definition block_ok (b : list instr) (out : list clause) : Prop :=
    forall P stk, at_pos code P b -> emitsB (3 * length b) (Run P 0 0 stk) out (backtrack stk).

  Lemma clause_block : forall c, block_ok (ccode clen c) [c].
  Proof.
    intros c P stk H. unfold ccode in H. apply at_pos_head in H.
    destruct (enter_emits P 0 0 stk c H) as (n & Hn & He). exists n. split; [|exact He]. unfold ccode. cbn [length]. lia.
  Qed.

  (* ---------------------------------------------------------------- try_me_else / retry_me_else / trust_me chains *)
  Lemma chain_rest : forall bs outs, Forall2 block_ok bs outs -> bs <> [] ->
    forall Q stk, at_pos code Q (chain false bs) ->
    emitsB (3 * length (chain false bs)) (Run Q 0 0 ((Q, 0, 0) :: stk)) (concat outs) (backtrack stk).
  Proof.
    intros bs outs H. induction H as [|b out r outs' Hb Hr IH]; intros Hne Q stk Hat; [contradiction|].
    cbn [chain] in Hat |- *. cbn [concat].
    pose proof (at_pos_tail _ _ _ _ Hat) as Hat1.
    pose proof (at_pos_app_l _ _ _ _ Hat1) as Hatb.
    pose proof (at_pos_app_r _ _ _ _ Hat1) as Hatr.
    destruct r as [|b' r'].
    - (* trust_me *)
      inversion Hr; subst. cbn [concat chain]. rewrite !app_nil_r.
      apply at_pos_head in Hat.
      assert (S1 : emitsB 1 (Run Q 0 0 ((Q, 0, 0) :: stk)) [] (Run (Q + 1) 0 0 stk)).
      { apply (emitsB_step Q 0 0 _ None). unfold step. rewrite Hat. reflexivity. }
      apply (emitsB_trans 1 (3 * length b) _ _ [] _ out _ S1 (Hb (Q + 1) stk Hatb)).
      cbn [length]. lia.
    - (* retry_me_else *)
      apply at_pos_head in Hat.
      set (Q' := Q + (length b + 1)).
      assert (S1 : emitsB 1 (Run Q 0 0 ((Q, 0, 0) :: stk)) [] (Run (Q + 1) 0 0 ((Q', 0, 0) :: stk))).
      { apply (emitsB_step Q 0 0 _ None). unfold step. rewrite Hat. reflexivity. }
      pose proof (Hb (Q + 1) ((Q', 0, 0) :: stk) Hatb) as S2. cbn [backtrack] in S2.
      assert (Hat' : at_pos code Q' (chain false (b' :: r'))).
      { apply (at_pos_eq _ (Q + 1 + length b)); [unfold Q'; lia | exact Hatr]. }
      pose proof (IH ltac:(discriminate) Q' stk Hat') as S3.
      pose proof (emitsB_trans _ _ (3 * length b + 3 * length (chain false (b' :: r'))) _ _ _ _ _ S2 S3 (Nat.le_refl _)) as S23.
      apply (emitsB_trans _ _ _ _ [] _ _ _ S1 S23).
      cbn [chain length]. rewrite ?app_length. cbn [length]. rewrite ?app_length. lia.
  Qed.

  Lemma chain_first : forall b1 b2 bs outs, Forall2 block_ok (b1 :: b2 :: bs) outs ->
    block_ok (chain true (b1 :: b2 :: bs)) (concat outs).
  Proof.
    intros b1 b2 bs outs H Q stk Hat. inversion H as [|x out r outs' Hb Hr]; subst.
    cbn [chain] in Hat |- *. cbn [concat].
    pose proof (at_pos_tail _ _ _ _ Hat) as Hat1.
    pose proof (at_pos_app_l _ _ _ _ Hat1) as Hatb.
    pose proof (at_pos_app_r _ _ _ _ Hat1) as Hatr.
    apply at_pos_head in Hat.
    set (Q' := Q + (length b1 + 1)).
    assert (S1 : emitsB 1 (Run Q 0 0 stk) [] (Run (Q + 1) 0 0 ((Q', 0, 0) :: stk))).
    { apply (emitsB_step Q 0 0 _ None). unfold step. rewrite Hat. reflexivity. }
    pose proof (Hb (Q + 1) ((Q', 0, 0) :: stk) Hatb) as S2. cbn [backtrack] in S2.
    assert (Hat' : at_pos code Q' (chain false (b2 :: bs))).
    { apply (at_pos_eq _ (Q + 1 + length b1)); [unfold Q'; lia | exact Hatr]. }
    pose proof (chain_rest (b2 :: bs) outs' Hr ltac:(discriminate) Q' stk Hat') as S3.
    pose proof (emitsB_trans _ _ (3 * length b1 + 3 * length (chain false (b2 :: bs))) _ _ _ _ _ S2 S3 (Nat.le_refl _)) as S23.
    apply (emitsB_trans _ _ _ _ [] _ _ _ S1 S23).
    cbn [chain length]. rewrite ?app_length. cbn [length]. rewrite ?app_length. lia.
  Qed.
End Exec.

(* ------------------------------------------------------------------ the tables built by index_term / compute_indices *)
Definition mk_chain (os : list nat) : list ichoice := match os with [] => [] | o :: r => ITry o :: map IRetry r end.
Definition b2n (b : bool) : nat := if b then 1 else 0.
Definition bumpn (d : nat) (p : ptr) : ptr := match p with PInt i => PInt (i + d) | _ => p end.

Lemma bump_bumpn : forall b p, bump b p = bumpn (b2n b) p.
Proof. reflexivity. Qed.
Lemma bumpn_0 : forall p, bumpn 0 p = p.
Proof. intros [|o|o]; cbn [bumpn]; [reflexivity | reflexivity | rewrite Nat.add_0_r; reflexivity]. Qed.
Lemma bumpn_bumpn : forall d1 d2 p, bumpn d2 (bumpn d1 p) = bumpn (d1 + d2) p.
Proof. intros d1 d2 [|o|o]; cbn [bumpn]; [reflexivity | reflexivity | rewrite Nat.add_assoc; reflexivity]. Qed.

Lemma mk_chain_length : forall os, length (mk_chain os) = length os.
Proof. intros [|o r]; cbn [mk_chain length]; [reflexivity | rewrite map_length; reflexivity]. Qed.

Lemma mk_chain_snoc : forall os x, os <> [] -> mk_chain (os ++ [x]) = mk_chain os ++ [IRetry x].
Proof. intros [|o r] x H; [contradiction|]. cbn [app mk_chain]. rewrite map_app. reflexivity. Qed.

Lemma filter_len : forall {A} (P : A -> bool) l, length (filter P l) <= length l.
Proof. intros A P l. induction l as [|x l IH]; cbn [filter length]; [lia|]. destruct (P x); cbn [length]; lia. Qed.

Lemma Forall2_len : forall {A B} (R : A -> B -> Prop) l l', Forall2 R l l' -> length l = length l'.
Proof. intros A B R l l' H. induction H as [|a b l l' _ _ IH]; cbn [length]; [reflexivity | rewrite IH; reflexivity]. Qed.

Section Pure.
  Variable clen : clause -> nat.
  Variable E : clause -> nat -> Prop.     (* clause c is entered at offset o from the IndexingCode instruction *)

  Definition chain_rel (ch : list ichoice) (l : list clause) : Prop := exists os, ch = mk_chain os /\ Forall2 E l os.

  Definition map_rel {K} (m : list (K * list ichoice)) (e : list (K * list clause)) : Prop :=
    Forall2 (fun a b => fst a = fst b /\ chain_rel (snd a) (snd b) /\ snd b <> []) m e.

  Lemma chain_rel_nil : chain_rel [] [].
  Proof. exists []. split; [reflexivity | constructor]. Qed.

  Lemma chain_rel_push : forall ch l c index, chain_rel ch l -> E c (index + 1) ->
    chain_rel (ch ++ [comp_index (is_nil ch) index]) (l ++ [c]).
  Proof.
    intros ch l c index (os & -> & HF) HE. exists (os ++ [index + 1]). split.
    - destruct os as [|o r]; [reflexivity|]. rewrite mk_chain_snoc by discriminate. reflexivity.
    - apply Forall2_app; [exact HF | constructor; [exact HE | constructor]].
  Qed.

  Lemma map_rel_push : forall {K} (eqb : K -> K -> bool) k c index (m : list (K * list ichoice)) e,
    map_rel m e -> E c (index + 1) -> map_rel (chain_push eqb k index m) (upsert eqb false k c e).
  Proof.
    intros K eqb k c index m e H HE. induction H as [|[k1 ch] [k1' l] m' e' (Hk & Hc & Hn) Hr IH].
    - cbn [chain_push upsert]. constructor; [|constructor]. cbn [fst snd]. split; [reflexivity|]. split; [|discriminate].
      exists [index + 1]. split; [reflexivity | constructor; [exact HE | constructor]].
    - cbn [fst snd] in Hk, Hc, Hn. subst k1'. cbn [chain_push upsert]. destruct (eqb k1 k).
      + constructor; [|exact Hr]. cbn [fst snd]. split; [reflexivity|]. split; [apply chain_rel_push; assumption|].
        destruct l; discriminate.
      + constructor; [|exact IH]. cbn [fst snd]. split; [reflexivity|]. split; assumption.
  Qed.

  Definition orel (o : offs) (ec : list (ckey * list clause)) (es : list (skey * list clause)) (ll : list clause) : Prop :=
    map_rel (o_con o) ec /\ map_rel (o_str o) es /\ chain_rel (o_lis o) ll.

  Lemma index_term_rel : forall i c index o ec es ll, orel o ec es ll -> E c (index + 1) ->
    orel (index_term i c index o) (ents_add ckey_eqb (con_key i c) c ec) (ents_add skey_eqb (str_key i c) c es)
         (if is_lis i c then ll ++ [c] else ll).
  Proof.
    intros i c index o ec es ll (H1 & H2 & H3) HE. unfold index_term, con_key, str_key, is_lis.
    destruct (classify (arg_at i c)) as [|k| |f n]; cbn [ents_add]; unfold orel; cbn [o_con o_str o_lis].
    - split; [|split]; assumption.
    - split; [|split]; [apply map_rel_push; assumption | assumption | assumption].
    - split; [|split]; [assumption | assumption | apply chain_rel_push; assumption].
    - split; [|split]; [assumption | apply map_rel_push; assumption | assumption].
  Qed.

  Fixpoint placed (pos : nat) (cs : list clause) : Prop :=
    match cs with
    | [] => True
    | c :: r => E c (pos + 1 + 1) /\ placed (pos + 1 + length (ccode clen c)) r
    end.

  Lemma index_all_rel : forall i cs pos o ec es ll, placed pos cs -> orel o ec es ll ->
    orel (index_all clen i pos cs o)
         (fold_left (fun e c => ents_add ckey_eqb (con_key i c) c e) cs ec)
         (fold_left (fun e c => ents_add skey_eqb (str_key i c) c e) cs es)
         (fold_left (fun l c => if is_lis i c then l ++ [c] else l) cs ll).
  Proof.
    intros i cs. induction cs as [|c r IH]; intros pos o ec es ll Hp Ho; cbn [index_all fold_left]; [exact Ho|].
    destruct Hp as [Hc Hr]. apply IH; [exact Hr|]. apply index_term_rel; assumption.
  Qed.

  (* no_indices: a sub-sequence whose first clause has a non-variable indexed argument has indexing code *)
  Lemma chain_push_not_nil : forall {K} (eqb : K -> K -> bool) k index m, is_nil (chain_push eqb k index m) = false.
  Proof. intros K eqb k index [|[k' l] r]; cbn [chain_push]; [reflexivity|]. destruct (eqb k' k); reflexivity. Qed.

  Lemma snoc_not_nil : forall {A} (l : list A) x, is_nil (l ++ [x]) = false.
  Proof. intros A [|y l] x; reflexivity. Qed.

  Lemma index_term_some : forall i c index o, nonvar_at i c -> no_indices (index_term i c index o) = false.
  Proof.
    intros i c index o H. unfold nonvar_at in H. unfold index_term, no_indices.
    destruct (classify (arg_at i c)) as [|k| |f n]; [contradiction H; reflexivity|..]; cbn [o_con o_str o_lis].
    - rewrite chain_push_not_nil. reflexivity.
    - rewrite snoc_not_nil. rewrite !andb_false_r. reflexivity.
    - rewrite chain_push_not_nil. rewrite andb_false_r. reflexivity.
  Qed.

  Lemma index_term_keeps : forall i c index o, no_indices o = false -> no_indices (index_term i c index o) = false.
  Proof.
    intros i c index o H. unfold index_term. destruct (classify (arg_at i c)) as [|k| |f n]; [exact H|..];
      unfold no_indices in *; cbn [o_con o_str o_lis].
    - rewrite chain_push_not_nil. reflexivity.
    - rewrite snoc_not_nil. rewrite !andb_false_r. reflexivity.
    - rewrite chain_push_not_nil. rewrite andb_false_r. reflexivity.
  Qed.

  Lemma index_all_keeps : forall i cs pos o, no_indices o = false -> no_indices (index_all clen i pos cs o) = false.
  Proof.
    intros i cs. induction cs as [|c r IH]; intros pos o H; cbn [index_all]; [exact H|]. apply IH. apply index_term_keeps. exact H.
  Qed.

  (* ---------------------------------------------------------------- pointers *)
  (* a pointer produced while `out` is the prelude: Internal n is the line n - 1 of `out` *)
  Definition ptr_sem0 (out : list iline) (p : ptr) (L : list clause) : Prop :=
    match p with
    | PFail => L = []
    | PExt o => exists c, L = [c] /\ E c o
    | PInt n => exists os, 1 <= n /\ nth_error out (n - 1) = Some (LChoice (cap_trust (mk_chain os))) /\
                           2 <= length os /\ Forall2 E L os
    end.

  (* a pointer read at line `from` of the finished indexing code *)
  Definition ptr_sem (ls : list iline) (from : nat) (p : ptr) (L : list clause) : Prop :=
    match p with
    | PFail => L = []
    | PExt o => exists c, L = [c] /\ E c o
    | PInt n => exists os, nth_error ls (from + n) = Some (LChoice (cap_trust (mk_chain os))) /\
                           2 <= length os /\ Forall2 E L os
    end.

  Lemma ptr_sem0_app : forall out more p L, ptr_sem0 out p L -> ptr_sem0 (out ++ more) p L.
  Proof.
    intros out more [|o|n] L H; cbn [ptr_sem0] in *; [exact H | exact H|].
    destruct H as (os & H1 & H2 & H3 & H4). exists os. split; [exact H1|]. split; [|split; assumption].
    rewrite nth_error_app1; [exact H2|]. apply nth_error_Some. congruence.
  Qed.

  Lemma ptr_sem_of0 : forall ls from d out p L, ptr_sem0 out p L -> at_pos ls (from + 1 + d) out ->
    ptr_sem ls from (bumpn d p) L.
  Proof.
    intros ls from d out [|o|n] L H Hat; cbn [ptr_sem0 bumpn ptr_sem] in *; [exact H | exact H|].
    destruct H as (os & H1 & H2 & H3 & H4). exists os. split; [|split; assumption].
    replace (from + (n + d)) with (from + 1 + d + (n - 1)) by lia. apply Hat. exact H2.
  Qed.

  Definition locs_rel {K} (out : list iline) (locs : list (K * ptr)) (e : list (K * list clause)) : Prop :=
    Forall2 (fun a b => fst a = fst b /\ ptr_sem0 out (snd a) (snd b)) locs e.

  Lemma locs_rel_app : forall {K} out more (locs : list (K * ptr)) e, locs_rel out locs e -> locs_rel (out ++ more) locs e.
  Proof.
    intros K out more locs e H. induction H as [|a b l l' (H1 & H2) Hr IH]; constructor; [|exact IH].
    split; [exact H1 | apply ptr_sem0_app; exact H2].
  Qed.

  Lemma second_level_spec : forall {K} (m : list (K * list ichoice)) e, map_rel m e ->
    forall pre locs out, second_level m pre = (locs, out) -> (exists lines, out = pre ++ lines) /\ locs_rel out locs e.
  Proof.
    intros K m e H. induction H as [|[k ch] [k' l] m' e' (Hk & Hc & Hn) Hr IH]; intros pre locs out Hs.
    - cbn [second_level] in Hs. injection Hs as <- <-. split; [exists []; rewrite app_nil_r; reflexivity | constructor].
    - cbn [fst snd] in Hk, Hc, Hn. subst k'. destruct Hc as (os & -> & HF).
      destruct os as [|o1 [|o2 os']].
      + inversion HF; subst. contradiction.
      + (* one clause under the key: External *)
        inversion HF as [|c o l1 os1 HE HF1]; subst. inversion HF1; subst.
        cbn [second_level mk_chain map length Nat.ltb Nat.leb] in Hs.
        destruct (second_level m' pre) as [locs' out'] eqn:Hs'. injection Hs as <- <-.
        destruct (IH pre locs' out' Hs') as [Hl Hlr]. split; [exact Hl|].
        constructor; [|exact Hlr]. cbn [fst snd ic_off ptr_sem0]. split; [reflexivity|]. exists c. split; [reflexivity | exact HE].
      + (* a chain: Internal, one more IndexedChoice line *)
        cbn [second_level mk_chain map length Nat.ltb Nat.leb] in Hs.
        set (line := LChoice (cap_trust (ITry o1 :: IRetry o2 :: map IRetry os'))) in Hs.
        destruct (second_level m' (pre ++ [line])) as [locs' out'] eqn:Hs'. injection Hs as <- <-.
        destruct (IH (pre ++ [line]) locs' out' Hs') as [(lines & Hl) Hlr]. split.
        * exists (line :: lines). rewrite Hl, <- app_assoc. reflexivity.
        * constructor; [|exact Hlr]. cbn [fst snd ptr_sem0]. split; [reflexivity|].
          exists (o1 :: o2 :: os'). split; [lia|]. split; [|split; [cbn [length]; lia | exact HF]].
          rewrite Hl. replace (length pre + 1 - 1) with (length pre) by lia.
          rewrite <- app_assoc. rewrite nth_error_app2 by lia. rewrite Nat.sub_diag. reflexivity.
  Qed.

  Lemma assoc_ptr_rel : forall {K} (eqb : K -> K -> bool) out k (locs : list (K * ptr)) e, locs_rel out locs e ->
    ptr_sem0 out (assoc_ptr eqb k locs) (assoc eqb k e).
  Proof.
    intros K eqb out k locs e H. induction H as [|[k1 p] [k1' l] r r' (H1 & H2) Hr IH]; [reflexivity|].
    cbn [fst snd] in H1, H2. subst k1'. cbn [assoc_ptr assoc]. destruct (eqb k1 k); [exact H2 | exact IH].
  Qed.

  Definition first_or_nil {K} (e : list (K * list clause)) : list clause := match e with [] => [] | (_, l) :: _ => l end.

  Lemma switch_on_spec : forall {K} (mk : list (K * ptr) -> iline) (m : list (K * list ichoice)) e pre p out' em,
    map_rel m e -> switch_on mk m pre = (p, out', em) ->
    exists locs out, (exists lines, out = pre ++ lines) /\ locs_rel out locs e /\ em = Nat.ltb 1 (length e) /\
      (em = true -> p = PInt 1 /\ out' = mk locs :: out) /\
      (em = false -> out' = out /\ ptr_sem0 out p (first_or_nil e)).
  Proof.
    intros K mk m e pre p out' em Hm Hs. unfold switch_on in Hs.
    destruct (second_level m pre) as [locs out] eqn:H2.
    destruct (second_level_spec m e Hm pre locs out H2) as [Hl Hr].
    exists locs, out. split; [exact Hl|]. split; [exact Hr|].
    pose proof (Forall2_len _ _ _ Hr) as Hlen. rewrite Hlen in Hs.
    destruct (Nat.ltb 1 (length e)) eqn:Hlt; injection Hs as <- <- <-.
    - split; [reflexivity|]. split; [intros _; split; reflexivity | discriminate].
    - split; [reflexivity|]. split; [discriminate|]. intros _. split; [reflexivity|].
      destruct Hr as [|[k1 p1] [k1' l1] r r' (H1 & H3) Hr']; [reflexivity | exact H3].
  Qed.

  Lemma switch_on_list_spec : forall lis ll lst p1, chain_rel lis ll -> switch_on_list lis [] = (lst, p1) -> ptr_sem0 p1 lst ll.
  Proof.
    intros lis ll lst p1 (os & -> & HF) Hs. unfold switch_on_list in Hs. destruct os as [|o1 [|o2 os']].
    - cbn in Hs. injection Hs as <- <-. inversion HF; subst. reflexivity.
    - cbn in Hs. injection Hs as <- <-. inversion HF as [|c o l1 os1 HE HF1]; subst. inversion HF1; subst.
      exists c. split; [reflexivity | exact HE].
    - cbn [mk_chain map length Nat.ltb Nat.leb app] in Hs. injection Hs as <- <-.
      exists (o1 :: o2 :: os'). split; [lia|]. split; [reflexivity|]. split; [cbn [length]; lia | exact HF].
  Qed.

  (* ---------------------------------------------------------------- the loop of execute_switch_on_term *)
  Definition res_sem (ls : list iline) (r : sres) (L : list clause) : Prop :=
    match r with
    | SFail => L = []
    | SExt o => exists c, L = [c] /\ E c o
    | SChoice idx => exists os, nth_error ls idx = Some (LChoice (cap_trust (mk_chain os))) /\ 2 <= length os /\ Forall2 E L os
    | SErr => False
    end.

  Lemma ptr_res : forall ls cl from p L ln fuel, ptr_sem ls from p L -> nth_error ls from = Some ln -> line_ptr cl ln = Some p ->
    res_sem ls (switch (S (S fuel)) ls cl from) L.
  Proof.
    intros ls cl from p L ln fuel H Hn Hl. cbn [switch]. rewrite Hn, Hl. destruct p as [|o|n]; cbn [ptr_sem res_sem] in *; [exact H | exact H|].
    destruct H as (os & H1 & H2 & H3). rewrite H1. cbn [line_ptr]. exists os. split; [exact H1 | split; assumption].
  Qed.

  Definition sel {K} (eqb : K -> K -> bool) (e : list (K * list clause)) (k : K) : list clause := lookup eqb (finish e) k.

  Definition sel_class (ec : list (ckey * list clause)) (es : list (skey * list clause)) (ll : list clause) (cl : cls) : list clause :=
    match cl with
    | CVar => []
    | CConst k => sel ckey_eqb ec k
    | CList => ll
    | CStruct f n => sel skey_eqb es (f, n)
    end.

  Lemma compute_indices_sem : forall a o ec es ll, orel o ec es ll -> no_indices o = false ->
    exists con lst str rest, compute_indices a o = LTerm a (PExt 1) con lst str :: rest /\
      forall cl fuel, cl <> CVar -> res_sem (compute_indices a o) (switch (S (S (S fuel))) (compute_indices a o) cl 0) (sel_class ec es ll cl).
  Proof.
    intros a o ec es ll (Hc & Hs & Hl) Hni. unfold compute_indices. rewrite Hni.
    destruct (switch_on_list (o_lis o) []) as [lst p1] eqn:H1.
    destruct (switch_on LStr (o_str o) p1) as [[str p2] ems] eqn:H2.
    destruct (switch_on LCon (o_con o) p2) as [[con p3] emc] eqn:H3.
    pose proof (switch_on_list_spec _ _ _ _ Hl H1) as L1.
    destruct (switch_on_spec LStr _ _ _ _ _ _ Hs H2) as (slocs & outs & (slines & Hos) & Sr & Sem & St & Sf).
    destruct (switch_on_spec LCon _ _ _ _ _ _ Hc H3) as (clocs & outc & (clines & Hoc) & Cr & Cem & Ct & Cf).
    set (ls := LTerm a (PExt 1) con (bump ems (bump emc lst)) (bump emc str) :: p3).
    exists con, (bump ems (bump emc lst)), (bump emc str), p3. split; [reflexivity|].
    (* where the pieces sit in the finished code *)
    assert (A1 : at_pos ls (1 + b2n emc) outc).
    { destruct emc; cbn [b2n].
      - destruct (Ct eq_refl) as [_ ->]. unfold ls. intros j x Hj. exact Hj.
      - destruct (Cf eq_refl) as [-> _]. unfold ls. intros j x Hj. exact Hj. }
    assert (A2 : at_pos ls (1 + b2n emc) p2).
    { replace (1 + b2n emc) with (1 + b2n emc + 0) by lia. apply (at_pos_trans _ _ _ _ _ A1).
      rewrite Hoc. apply (at_pos_app_l _ 0 p2 clines). apply at_pos_self. }
    assert (A3 : at_pos ls (1 + b2n emc + b2n ems) outs).
    { apply (at_pos_trans _ _ _ _ _ A2). destruct ems; cbn [b2n].
      - destruct (St eq_refl) as [_ ->]. apply at_pos_cons.
      - destruct (Sf eq_refl) as [-> _]. apply at_pos_self. }
    assert (A4 : at_pos ls (1 + b2n emc + b2n ems) p1).
    { replace (1 + b2n emc + b2n ems) with (1 + b2n emc + b2n ems + 0) by lia. apply (at_pos_trans _ _ _ _ _ A3).
      rewrite Hos. apply (at_pos_app_l _ 0 p1 slines). apply at_pos_self. }
    intros cl fuel Hcl. destruct cl as [|k| |f n]; [contradiction Hcl; reflexivity|..]; cbn [sel_class].
    - (* constant *)
      unfold sel, lookup, finish. cbn [t_sw t_ents]. rewrite <- Cem. destruct emc.
      + destruct (Ct eq_refl) as [-> Hp3].
        assert (Hl1 : nth_error ls 1 = Some (LCon clocs)) by (unfold ls; rewrite Hp3; reflexivity).
        change (switch (S (S (S fuel))) ls (CConst k) 0) with (switch (S (S fuel)) ls (CConst k) (0 + 1)).
        apply (ptr_res ls (CConst k) (0 + 1) (assoc_ptr ckey_eqb k clocs) _ (LCon clocs) fuel); [|exact Hl1 | reflexivity].
        rewrite <- (bumpn_0 (assoc_ptr ckey_eqb k clocs)).
        apply (ptr_sem_of0 ls (0 + 1) 0 outc); [apply assoc_ptr_rel; exact Cr|].
        apply (at_pos_eq _ (1 + b2n true)); [reflexivity | exact A1].
      + destruct (Cf eq_refl) as [_ Hp].
        apply (ptr_res ls (CConst k) 0 con _ (LTerm a (PExt 1) con (bump ems (bump false lst)) (bump false str)) (S fuel)); [|reflexivity | reflexivity].
        rewrite <- (bumpn_0 con). apply (ptr_sem_of0 ls 0 0 outc); [exact Hp|].
        apply (at_pos_eq _ (1 + b2n false)); [reflexivity | exact A1].
    - (* list *)
      apply (ptr_res ls CList 0 (bump ems (bump emc lst)) _ (LTerm a (PExt 1) con (bump ems (bump emc lst)) (bump emc str)) (S fuel)); [|reflexivity | reflexivity].
      rewrite !bump_bumpn, bumpn_bumpn. apply (ptr_sem_of0 ls 0 (b2n emc + b2n ems) p1); [exact L1|].
      apply (at_pos_eq _ (1 + b2n emc + b2n ems)); [lia | exact A4].
    - (* structure *)
      unfold sel, lookup, finish. cbn [t_sw t_ents]. rewrite <- Sem. destruct ems.
      + destruct (St eq_refl) as [-> Hp2].
        assert (Hl1 : nth_error ls (0 + (1 + b2n emc)) = Some (LStr slocs)).
        { replace (0 + (1 + b2n emc)) with (1 + b2n emc + 0) by lia. apply A2. rewrite Hp2. reflexivity. }
        assert (Hsw : switch (S (S (S fuel))) ls (CStruct f n) 0 = switch (S (S fuel)) ls (CStruct f n) (0 + (1 + b2n emc))).
        { cbn [switch nth_error ls line_ptr term_ptr]. rewrite bump_bumpn. cbn [bumpn]. reflexivity. }
        rewrite Hsw.
        apply (ptr_res ls (CStruct f n) (0 + (1 + b2n emc)) (assoc_ptr skey_eqb (f, n) slocs) _ (LStr slocs) fuel); [|exact Hl1 | reflexivity].
        rewrite <- (bumpn_0 (assoc_ptr skey_eqb (f, n) slocs)).
        apply (ptr_sem_of0 ls (0 + (1 + b2n emc)) 0 outs); [apply assoc_ptr_rel; exact Sr|].
        apply (at_pos_eq _ (1 + b2n emc + b2n true)); [cbn [b2n]; lia | exact A3].
      + destruct (Sf eq_refl) as [_ Hp].
        apply (ptr_res ls (CStruct f n) 0 (bump emc str) _ (LTerm a (PExt 1) con (bump false (bump emc lst)) (bump emc str)) (S fuel)); [|reflexivity | reflexivity].
        rewrite bump_bumpn. apply (ptr_sem_of0 ls 0 (b2n emc) outs); [exact Hp|].
        apply (at_pos_eq _ (1 + b2n emc + b2n false)); [cbn [b2n]; lia | exact A3].
  Qed.
End Pure.

(* ------------------------------------------------------------------ executing the indexing code of one sub-sequence *)
Definition EP (code : list instr) (P : nat) (c : clause) (o : nat) : Prop := nth_error code (P + o) = Some (Enter c).

Section Seg.
  Variable code : list instr.
  Variable call : list term.
  Variable P : nat.
  Variable ls : list iline.
  Hypothesis Hcode : nth_error code P = Some (Indexing ls).

  (* retry / trust: the machine has just backtracked to the or-frame (P, idx, iip) *)
  Lemma choice_rest : forall os L pre l idx stk, os <> [] -> Forall2 (EP code P) L os ->
    nth_error ls idx = Some (LChoice l) -> l = pre ++ cap_trust (map IRetry os) ->
    emitsB code call (2 * length os) (Run P idx (length pre) ((P, idx, length pre) :: stk)) L (backtrack stk).
  Proof.
    induction os as [|o os' IH]; intros L pre l idx stk Hne HF Hls Hl; [contradiction|].
    inversion HF as [|c o0 L' os0 HE HF']; subst L os0 o0.
    destruct os' as [|o' r].
    - inversion HF'; subst L'. cbn [map cap_trust] in Hl.
      assert (Hent : nth_error l (length pre) = Some (ITrust o)).
      { rewrite Hl, nth_error_app2 by lia. rewrite Nat.sub_diag. reflexivity. }
      assert (S1 : emitsB code call 1 (Run P idx (length pre) ((P, idx, length pre) :: stk)) [] (Run (P + o) 0 0 stk)).
      { apply (emitsB_step code call P idx _ _ None). unfold step. rewrite Hcode, Hls, Hent. reflexivity. }
      apply (emitsB_trans code call 1 1 _ _ [] _ [c] _ S1 (enter_emits code call _ 0 0 stk c HE)). cbn [length]. lia.
    - cbn [map cap_trust] in Hl.
      assert (Hent : nth_error l (length pre) = Some (IRetry o)).
      { rewrite Hl, nth_error_app2 by lia. rewrite Nat.sub_diag. reflexivity. }
      set (fr := (P, idx, length pre + 1)).
      assert (S1 : emitsB code call 1 (Run P idx (length pre) ((P, idx, length pre) :: stk)) [] (Run (P + o) idx (length pre) (fr :: stk))).
      { apply (emitsB_step code call P idx _ _ None). unfold step. rewrite Hcode, Hls, Hent. reflexivity. }
      pose proof (enter_emits code call _ idx (length pre) (fr :: stk) c HE) as S2. unfold fr in S2 at 2. cbn [backtrack] in S2.
      assert (Hlen : length pre + 1 = length (pre ++ [IRetry o])) by (rewrite app_length; reflexivity).
      assert (S3 : emitsB code call (2 * length (o' :: r)) (Run P idx (length pre + 1) (fr :: stk)) L' (backtrack stk)).
      { unfold fr. rewrite Hlen. apply (IH L' (pre ++ [IRetry o]) l idx stk); [discriminate | exact HF' | exact Hls|].
        rewrite Hl, <- app_assoc. reflexivity. }
      pose proof (emitsB_trans code call _ _ (1 + 2 * length (o' :: r)) _ _ _ _ _ S2 S3 (Nat.le_refl _)) as S23.
      apply (emitsB_trans code call _ _ _ _ [] _ _ _ S1 S23). cbn [length]. lia.
  Qed.

  (* try: the IndexedChoice line is entered with iip = 0 *)
  Lemma choice_first : forall os L idx stk, 2 <= length os -> Forall2 (EP code P) L os ->
    nth_error ls idx = Some (LChoice (cap_trust (mk_chain os))) ->
    emitsB code call (2 * length os) (Run P idx 0 stk) L (backtrack stk).
  Proof.
    intros os L idx stk Hlen HF Hls. destruct os as [|o1 [|o2 os']]; [cbn [length] in Hlen; lia | cbn [length] in Hlen; lia|].
    inversion HF as [|c o0 L' os0 HE HF']; subst L os0 o0.
    assert (Hl : cap_trust (mk_chain (o1 :: o2 :: os')) = ITry o1 :: cap_trust (map IRetry (o2 :: os'))) by reflexivity.
    rewrite Hl in Hls.
    set (fr := (P, idx, 0 + 1)).
    assert (S1 : emitsB code call 1 (Run P idx 0 stk) [] (Run (P + o1) idx 0 (fr :: stk))).
    { apply (emitsB_step code call P idx _ _ None). unfold step. rewrite Hcode, Hls. reflexivity. }
    pose proof (enter_emits code call _ idx 0 (fr :: stk) c HE) as S2. unfold fr in S2 at 2. cbn [backtrack Nat.add] in S2.
    pose proof (choice_rest (o2 :: os') L' [ITry o1] _ idx stk ltac:(discriminate) HF' Hls eq_refl) as S3.
    cbn [length] in S3. unfold fr in S2. cbn [Nat.add] in S2.
    pose proof (emitsB_trans code call _ _ (1 + 2 * S (length os')) _ _ _ _ _ S2 S3 (Nat.le_refl _)) as S23.
    apply (emitsB_trans code call _ _ _ _ [] _ _ _ S1 S23). cbn [length]. lia.
  Qed.

  Lemma switch_exec : forall a v c l s rest L stk, ls = LTerm a v c l s :: rest ->
    res_sem (EP code P) ls (switch (S (S (S (length ls)))) ls (classify (nth (a - 1) call (Var 0))) 0) L ->
    emitsB code call (2 + 2 * length L) (Run P 0 0 stk) L (backtrack stk).
  Proof.
    intros a v c l s rest L stk Hls Hr.
    remember (switch (S (S (S (length ls)))) ls (classify (nth (a - 1) call (Var 0))) 0) as r eqn:Hsw.
    assert (Hstep : step code call P 0 0 stk =
                    match r with
                    | SFail => (None, backtrack stk)
                    | SExt o => (None, Run (P + o) 0 0 stk)
                    | SChoice idx => (None, Run P idx 0 stk)
                    | SErr => (None, Err)
                    end).
    { unfold step. rewrite Hcode. rewrite Hsw. rewrite Hls. reflexivity. }
    destruct r as [|o|idx|]; cbn [res_sem] in Hr.
    - subst L. destruct (emitsB_step code call P 0 0 stk None _ Hstep) as (n & Hn & He). exists n. split; [cbn [length]; lia | exact He].
    - destruct Hr as (c0 & -> & HE).
      apply (emitsB_trans code call 1 1 _ _ [] _ [c0] _ (emitsB_step code call P 0 0 stk None _ Hstep) (enter_emits code call _ 0 0 stk c0 HE)).
      cbn [length]. lia.
    - destruct Hr as (os & Hl & Hlen & HF).
      pose proof (choice_first os L idx stk Hlen HF Hl) as S2.
      apply (emitsB_trans code call 1 _ _ _ [] _ L _ (emitsB_step code call P 0 0 stk None _ Hstep) S2).
      rewrite (Forall2_len _ _ _ HF). lia.
    - contradiction.
  Qed.
End Seg.

(* ------------------------------------------------------------------ one sub-sequence, the whole predicate *)
Section Pred.
  Variable clen : clause -> nat.
  Variable code : list instr.
  Variable call : list term.

  Lemma placed_of_chain : forall Q cs first pos, at_pos code (Q + 1 + pos) (chain first (map (ccode clen) cs)) ->
    placed clen (EP code Q) pos cs.
  Proof.
    intros Q cs. induction cs as [|c r IH]; intros first pos Hat; cbn [placed]; [exact I|].
    cbn [map chain] in Hat.
    pose proof (at_pos_tail _ _ _ _ Hat) as Hat1.
    pose proof (at_pos_app_l _ _ _ _ Hat1) as Hc.
    pose proof (at_pos_app_r _ _ _ _ Hat1) as Hr.
    split.
    - unfold ccode in Hc. apply at_pos_head in Hc. unfold EP. replace (Q + (pos + 1 + 1)) with (Q + 1 + pos + 1) by lia. exact Hc.
    - apply (IH false). apply (at_pos_eq _ (Q + 1 + pos + 1 + length (ccode clen c))); [lia | exact Hr].
  Qed.

  Lemma clause_blocks : forall cs, Forall2 (block_ok code call) (map (ccode clen) cs) (map (fun c => [c]) cs).
  Proof. induction cs as [|c r IH]; cbn [map]; constructor; [apply clause_block | exact IH]. Qed.

  Lemma concat_singletons : forall {A} (l : list A), concat (map (fun c => [c]) l) = l.
  Proof. induction l as [|x l IH]; cbn [map concat app]; [reflexivity | rewrite IH; reflexivity]. Qed.

  Lemma chain_len : forall cs first, 2 * length cs <= length (chain first (map (ccode clen) cs)).
  Proof.
    induction cs as [|c r IH]; intros first; cbn [map chain length]; [lia|].
    rewrite app_length. unfold ccode at 1. cbn [length]. specialize (IH false). lia.
  Qed.

  Lemma compute_indices_shape : forall a o, no_indices o = false ->
    exists con lst str rest, compute_indices a o = LTerm a (PExt 1) con lst str :: rest.
  Proof.
    intros a o H. unfold compute_indices. rewrite H.
    destruct (switch_on_list (o_lis o) []) as [lst p1].
    destruct (switch_on LStr (o_str o) p1) as [[str p2] ems].
    destruct (switch_on LCon (o_con o) p2) as [[con p3] emc].
    eexists _, _, _, _. reflexivity.
  Qed.

  (* sizes of what the abstract index returns *)
  Lemma sel_len : forall {K} (eqb : K -> K -> bool), (forall a b, eqb a b = true <-> a = b) ->
    forall (keyof : clause -> option K) cs k,
    length (sel eqb (fold_left (fun e c => ents_add eqb (keyof c) c e) cs []) k) <= length cs.
  Proof.
    intros K eqb Hspec keyof cs k.
    destruct (tinv_build K eqb Hspec keyof cs) as [[_ Has] _]. unfold sel, lookup.
    destruct (t_sw (finish (fold_left (fun e c => ents_add eqb (keyof c) c e) cs []))).
    - rewrite Has. apply filter_len.
    - destruct (t_ents (finish (fold_left (fun e c => ents_add eqb (keyof c) c e) cs []))) as [|[k0 l0] rest] eqn:He; [cbn [length]; lia|].
      specialize (Has k0). cbn [assoc] in Has. rewrite (eqb_refl' K eqb Hspec k0) in Has. rewrite Has. apply filter_len.
  Qed.

  Lemma seg_block : forall i c1 c2 r, Forall (nonvar_at i) (c1 :: c2 :: r) ->
    block_ok code call (seg_code clen i (c1 :: c2 :: r)) (select_span (build_span i true (c1 :: c2 :: r)) call).
  Proof.
    intros i c1 c2 r Hnv Q stk Hat.
    assert (Hnv1 : nonvar_at i c1) by (inversion Hnv; assumption).
    set (cs := c1 :: c2 :: r) in *.
    set (o := index_all clen i 0 cs empty_offs).
    assert (Hni : no_indices o = false).
    { unfold o, cs.
      change (index_all clen i 0 (c1 :: c2 :: r) empty_offs)
        with (index_all clen i (0 + 1 + length (ccode clen c1)) (c2 :: r) (index_term i c1 (0 + 1) empty_offs)).
      apply index_all_keeps. apply index_term_some. exact Hnv1. }
    destruct (compute_indices_shape (i + 1) o Hni) as (con & lst & str & rest & Hshape).
    assert (Hseg : seg_code clen i cs = Indexing (compute_indices (i + 1) o) :: chain true (map (ccode clen) cs)).
    { unfold seg_code, cs. fold cs. fold o. rewrite Hshape. reflexivity. }
    rewrite Hseg in Hat |- *.
    set (ls := compute_indices (i + 1) o) in *.
    pose proof (at_pos_head _ _ _ _ Hat) as Hcode.
    pose proof (at_pos_tail _ _ _ _ Hat) as Hchain.
    assert (Hpl : placed clen (EP code Q) 0 cs).
    { apply (placed_of_chain Q cs true 0). apply (at_pos_eq _ (Q + 1)); [lia | exact Hchain]. }
    assert (Hrel : orel (EP code Q) o
                        (fold_left (fun e c => ents_add ckey_eqb (con_key i c) c e) cs [])
                        (fold_left (fun e c => ents_add skey_eqb (str_key i c) c e) cs [])
                        (fold_left (fun l c => if is_lis i c then l ++ [c] else l) cs [])).
    { apply index_all_rel; [exact Hpl|]. split; [constructor | split; [constructor | apply chain_rel_nil]]. }
    destruct (compute_indices_sem (EP code Q) (i + 1) o _ _ _ Hrel Hni) as (con' & lst' & str' & rest' & Hshape' & Hsem).
    pose proof (chain_len cs true) as Hcl.
    assert (Hgen : forall cl, cl <> CVar -> classify (nth i call (Var 0)) = cl ->
              forall L, L = sel_class (fold_left (fun e c => ents_add ckey_eqb (con_key i c) c e) cs [])
                                      (fold_left (fun e c => ents_add skey_eqb (str_key i c) c e) cs [])
                                      (fold_left (fun l c => if is_lis i c then l ++ [c] else l) cs []) cl ->
              length L <= length cs ->
              emitsB code call (3 * length (Indexing ls :: chain true (map (ccode clen) cs))) (Run Q 0 0 stk) L (backtrack stk)).
    { intros cl Hcl' Hclass L -> HL.
      assert (Hsem' : res_sem (EP code Q) ls (switch (S (S (S (length ls)))) ls (classify (nth (i + 1 - 1) call (Var 0))) 0)
                        (sel_class (fold_left (fun e c => ents_add ckey_eqb (con_key i c) c e) cs [])
                                   (fold_left (fun e c => ents_add skey_eqb (str_key i c) c e) cs [])
                                   (fold_left (fun l c => if is_lis i c then l ++ [c] else l) cs []) cl)).
      { rewrite Nat.add_sub, Hclass. exact (Hsem cl (length ls) Hcl'). }
      destruct (switch_exec code call Q ls Hcode _ _ _ _ _ _ _ stk Hshape Hsem') as (n & Hn & He).
      exists n. split; [|exact He]. cbn [length]. lia. }
    unfold select_span, build_span. cbn [s_arg s_mem s_con s_str s_lis].
    destruct (classify (nth i call (Var 0))) as [|k| |f n] eqn:Hclass.
    - (* unbound: the try_me_else chain over all clauses *)
      assert (S1 : emitsB code call 1 (Run Q 0 0 stk) [] (Run (Q + 1) 0 0 stk)).
      { apply (emitsB_step code call Q 0 0 stk None). unfold step. rewrite Hcode. rewrite Hshape.
        cbn [nth_error switch_arg]. rewrite Nat.add_sub, Hclass. reflexivity. }
      pose proof (chain_first code call _ _ _ _ (clause_blocks cs) (Q + 1) stk Hchain
                  : emitsB code call (3 * length (chain true (map (ccode clen) cs))) (Run (Q + 1) 0 0 stk)
                           (concat (map (fun c => [c]) cs)) (backtrack stk)) as S2.
      rewrite concat_singletons in S2.
      apply (emitsB_trans code call _ _ _ _ [] _ cs _ S1 S2). cbn [length]. lia.
    - apply (Hgen (CConst k) ltac:(discriminate) eq_refl _ eq_refl). apply sel_len. exact ckey_eqb_spec.
    - apply (Hgen CList ltac:(discriminate) eq_refl _ eq_refl). cbn [sel_class]. rewrite (lis_fold i cs []). cbn [app]. apply filter_len.
    - apply (Hgen (CStruct f n) ltac:(discriminate) eq_refl _ eq_refl). apply sel_len. exact skey_eqb_spec.
  Qed.

  (* the sub-sequences split_predicate produces *)
  Definition span_wf (p : option nat * list clause) : Prop :=
    match fst p with
    | Some i => snd p <> [] /\ Forall (nonvar_at i) (snd p)
    | None => exists c, snd p = [c]
    end.

  Lemma flush_wf : forall opt cur, Forall (nonvar_at opt) cur -> Forall span_wf (flush opt cur).
  Proof. intros opt [|c cur] H; cbn [flush]; constructor; [|constructor]. split; [discriminate | exact H]. Qed.

  Lemma split_go_wf : forall l opt cur, Forall (nonvar_at opt) cur -> Forall span_wf (split_go opt cur l).
  Proof.
    induction l as [|c r IH]; intros opt cur Hcur; cbn [split_go]; [apply flush_wf; exact Hcur|].
    destruct (first_inst c) as [j|] eqn:Hf.
    - pose proof (first_inst_nonvar c j Hf) as Hnv. destruct (Nat.eqb j opt) eqn:Ej.
      + apply Nat.eqb_eq in Ej. subst j. apply IH. apply Forall_app. split; [exact Hcur | constructor; [exact Hnv | constructor]].
      + assert (H1 : Forall span_wf (split_go j [c] r)) by (apply IH; constructor; [exact Hnv | constructor]).
        destruct cur as [|c0 cur]; [exact H1|]. constructor; [|exact H1]. split; [discriminate | exact Hcur].
    - apply Forall_app. split; [apply flush_wf; exact Hcur|]. constructor; [exists c; reflexivity|]. apply IH. constructor.
  Qed.

  Definition span_of (p : option nat * list clause) : span :=
    match fst p with
    | Some i => build_span i (Nat.ltb 1 (length (snd p)) || false) (snd p)
    | None => build_span 0 false (snd p)
    end.

  Lemma span_block : forall p, span_wf p -> block_ok code call (span_code clen p) (select_span (span_of p) call).
  Proof.
    intros [[i|] cs] H; unfold span_wf, span_code, span_of in *; cbn [fst snd] in *.
    - destruct H as [Hne Hnv]. destruct cs as [|c1 [|c2 r]]; [contradiction | |].
      + cbn. apply clause_block.
      + cbn [length Nat.ltb Nat.leb orb]. apply seg_block. exact Hnv.
    - destruct H as [c ->]. cbn. apply clause_block.
  Qed.

  Lemma span_blocks : forall sp, Forall span_wf sp ->
    Forall2 (block_ok code call) (map (span_code clen) sp) (map (fun p => select_span (span_of p) call) sp).
  Proof. intros sp H. induction H as [|p sp Hp _ IH]; cbn [map]; constructor; [apply span_block; exact Hp | exact IH]. Qed.
End Pred.

Lemma exec_of_block : forall code call out, block_ok code call code out -> exec_code code call = Some out.
Proof.
  intros code call out H. destruct (H 0 [] (at_pos_self code)) as (n & Hn & He). cbn [backtrack] in He.
  destruct code as [|x code'].
  - specialize (He 1). rewrite Nat.add_1_r in He. cbn [mrun] in He. unfold step in He. cbn [nth_error] in He.
    destruct n; cbn [mrun option_map] in He; discriminate He.
  - unfold exec_code. set (len := length (x :: code')) in *.
    replace (3 * len + 1) with (n + S (3 * len - n)) by lia. rewrite He. cbn [mrun option_map]. rewrite app_nil_r. reflexivity.
Qed.

Theorem code_refines_thm : forall clen cs call,
  exec_code (build_code clen cs) call = Some (select (build false cs) call).
Proof.
  intros clen cs call. unfold build_code, build, select.
  change (map (fun p : option nat * list clause =>
                 match fst p with
                 | Some i => build_span i (Nat.ltb 1 (length (snd p)) || false) (snd p)
                 | None => build_span 0 false (snd p)
                 end) (split cs)) with (map span_of (split cs)).
  assert (Hwf : Forall span_wf (split cs)) by (apply split_go_wf; constructor).
  rewrite flat_map_concat_map, map_map.
  destruct (split cs) as [|p1 [|p2 sp]].
  - reflexivity.
  - apply exec_of_block. cbn [map concat]. rewrite app_nil_r. apply span_block. inversion Hwf; assumption.
  - apply exec_of_block.
    apply (chain_first (chain true (map (span_code clen) (p1 :: p2 :: sp))) call (span_code clen p1) (span_code clen p2) (map (span_code clen) sp)).
    exact (span_blocks clen _ call _ Hwf).
Qed.

(* the clauses entered, as a plain list ([] if the machine got stuck: by code_refines_thm it never does on built code) *)
Definition exec_clauses (code : list instr) (call : list term) : list clause :=
  match exec_code code call with Some l => l | None => [] end.

Theorem code_refines_list_thm : forall clen cs call, exec_clauses (build_code clen cs) call = select (build false cs) call.
Proof. intros. unfold exec_clauses. rewrite code_refines_thm. reflexivity. Qed.

Theorem code_select_exact_thm : forall clen cs call,
  option_map (filter (unifies call)) (exec_code (build_code clen cs) call) = Some (filter (unifies call) cs) /\
  filter (unifies call) (exec_clauses (build_code clen cs) call) = filter (unifies call) cs.
Proof.
  intros clen cs call. rewrite code_refines_list_thm, code_refines_thm. cbn [option_map]. rewrite index_exact_thm. split; reflexivity.
Qed.

(* what the mirror machine reports, as clause identities, is the naive answer list *)
Theorem code_answers_naive_thm : forall clen cs call,
  map fst (filter (unifies call) (exec_clauses (build_code clen cs) call)) = naive cs call.
Proof. intros. destruct (code_select_exact_thm clen cs call) as [_ H]. rewrite H. reflexivity. Qed.

Theorem check_exec_always : forall cs lens calls, check_exec cs lens calls = true.
Proof.
  intros cs lens calls. unfold check_exec. apply forallb_forall. intros call _. rewrite code_refines_thm.
  apply nlist_eqb_eq. reflexivity.
Qed.
