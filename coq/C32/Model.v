(* C32 -- the interning protocol of AtomTable::build_with (src/atom_table.rs) for atoms that live in the shared
   table, as a transition system over arbitrary schedules: optimistic lookup on a snapshot, take the update lock,
   re-check that nothing was inserted since the snapshot (epoch comparison), insert, release.
   The RCU/epoch library is abstracted: "same epoch" = "no insertion since the snapshot" (the table only grows,
   so the table length identifies the epoch).  No proofs in this file. *)
From Coq Require Import List NArith Bool Arith.
From V Require Import C21.Model.
Import ListNotations.

Inductive pc :=
| Idle
| WantLock (s : text) (snap : nat)      (* looked s up in the snapshot of length snap: not found *)
| Locked (s : text) (snap : nat)        (* holds the update lock, has not compared epochs yet *)
| Checked (s : text).                   (* holds the lock, epochs were equal: about to insert *)

Record thread := { tpc : pc; todo : list text; finished : list (text * nat) }.
Record state := { table : list text; lock : option nat; threads : list thread }.

Fixpoint upd {A} (n : nat) (x : A) (l : list A) : list A :=
  match l, n with
  | [], _ => []
  | _ :: r, O => x :: r
  | y :: r, S k => y :: upd k x r
  end.

Definition set_thread (st : state) (t : nat) (th : thread) (tbl : list text) (lk : option nat) : state :=
  {| table := tbl; lock := lk; threads := upd t th (threads st) |}.

(* one atomic step of thread t; recheck = false gives the broken protocol without the epoch comparison *)
Definition step_gen (recheck : bool) (st : state) (t : nat) : state :=
  match nth_error (threads st) t with
  | None => st
  | Some th =>
    match tpc th with
    | Idle =>
      match todo th with
      | [] => st
      | s :: r =>
        match lookup (table st) s 0 with
        | Some i => set_thread st t {| tpc := Idle; todo := r; finished := (s, i) :: finished th |} (table st) (lock st)
        | None => set_thread st t {| tpc := WantLock s (length (table st)); todo := r; finished := finished th |} (table st) (lock st)
        end
      end
    | WantLock s e =>
      match lock st with
      | None => set_thread st t {| tpc := Locked s e; todo := todo th; finished := finished th |} (table st) (Some t)
      | Some _ => st                                   (* blocked on the mutex *)
      end
    | Locked s e =>
      if negb recheck || Nat.eqb e (length (table st)) then
        set_thread st t {| tpc := Checked s; todo := todo th; finished := finished th |} (table st) (lock st)
      else  (* somebody inserted in between: drop the lock and start over *)
        set_thread st t {| tpc := Idle; todo := s :: todo th; finished := finished th |} (table st) None
    | Checked s =>
      set_thread st t {| tpc := Idle; todo := todo th; finished := (s, length (table st)) :: finished th |}
                 (table st ++ [s]) None
    end
  end.

Definition step := step_gen true.
Definition run (st : state) (sched : list nat) : state := fold_left step sched st.
Definition run_broken (st : state) (sched : list nat) : state := fold_left (step_gen false) sched st.

Definition init (tbl : list text) (work : list (list text)) : state :=
  {| table := tbl; lock := None; threads := map (fun w => {| tpc := Idle; todo := w; finished := [] |}) work |}.

(* all (text, index) results of all threads *)
Definition results (st : state) : list (text * nat) := flat_map finished (threads st).

Fixpoint nodupb (l : list text) : bool :=
  match l with [] => true | x :: r => negb (existsb (text_eqb x) r) && nodupb r end.
