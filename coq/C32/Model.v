(* C32 -- the interning protocol of AtomTable::build_with (src/atom_table.rs) for atoms that live in the shared
   table, as a transition system over arbitrary schedules: optimistic lookup on a snapshot, take the update lock,
   re-check that nothing was inserted since the snapshot (epoch comparison), insert, release.
   The RCU/epoch library is abstracted to one epoch counter that every replacement of the shared structures bumps:
   an insertion (the index set is cloned and replaced) and a growth of the string block (grow_new: the inner table is
   replaced, the texts stay the same).  A thread remembers the epoch and the table length of its snapshot.
   No proofs in this file. *)
From Coq Require Import List NArith Bool Arith.
From V Require Import C21.Model.
Import ListNotations.

Inductive pc :=
| Idle
| WantLock (s : text) (e n : nat)       (* looked s up in the snapshot taken at epoch e (table length n): not found *)
| Locked (s : text) (e n : nat)         (* holds the update lock, has not compared epochs yet *)
| Checked (s : text).                   (* holds the lock, epochs were equal: about to allocate and insert *)

Record thread := { tpc : pc; todo : list text; finished : list (text * nat) }.
Record state := { table : list text; epoch : nat; lock : option nat; threads : list thread }.

Fixpoint upd {A} (n : nat) (x : A) (l : list A) : list A :=
  match l, n with
  | [], _ => []
  | _ :: r, O => x :: r
  | y :: r, S k => y :: upd k x r
  end.

Definition set_thread (st : state) (t : nat) (th : thread) (tbl : list text) (ep : nat) (lk : option nat) : state :=
  {| table := tbl; epoch := ep; lock := lk; threads := upd t th (threads st) |}.

(* one atomic step of thread t; recheck = false gives the broken protocol without the epoch comparison;
   block_full says whether the string block is exhausted at a given epoch (then the lock holder grows it first) *)
Definition step_gen (recheck : bool) (block_full : nat -> bool) (st : state) (t : nat) : state :=
  match nth_error (threads st) t with
  | None => st
  | Some th =>
    match tpc th with
    | Idle =>
      match todo th with
      | [] => st
      | s :: r =>
        match lookup (table st) s 0 with
        | Some i => set_thread st t {| tpc := Idle; todo := r; finished := (s, i) :: finished th |} (table st) (epoch st) (lock st)
        | None => set_thread st t {| tpc := WantLock s (epoch st) (length (table st)); todo := r; finished := finished th |}
                             (table st) (epoch st) (lock st)
        end
      end
    | WantLock s e n =>
      match lock st with
      | None => set_thread st t {| tpc := Locked s e n; todo := todo th; finished := finished th |} (table st) (epoch st) (Some t)
      | Some _ => st                                   (* blocked on the mutex *)
      end
    | Locked s e n =>
      if negb recheck || Nat.eqb e (epoch st) then
        set_thread st t {| tpc := Checked s; todo := todo th; finished := finished th |} (table st) (epoch st) (lock st)
      else  (* the structures were replaced in between: drop the lock and start over *)
        set_thread st t {| tpc := Idle; todo := s :: todo th; finished := finished th |} (table st) (epoch st) None
    | Checked s =>
      if block_full (epoch st) then
        (* grow_new: a new block and a new inner table with the same texts; the epochs are read again; still locked *)
        set_thread st t th (table st) (S (epoch st)) (lock st)
      else
        set_thread st t {| tpc := Idle; todo := todo th; finished := (s, length (table st)) :: finished th |}
                   (table st ++ [s]) (S (epoch st)) None
    end
  end.

Definition step := step_gen true.
Definition run (bf : nat -> bool) (st : state) (sched : list nat) : state := fold_left (step bf) sched st.
Definition run_broken (bf : nat -> bool) (st : state) (sched : list nat) : state := fold_left (step_gen false bf) sched st.

Definition init (tbl : list text) (work : list (list text)) : state :=
  {| table := tbl; epoch := 0; lock := None; threads := map (fun w => {| tpc := Idle; todo := w; finished := [] |}) work |}.

(* all (text, index) results of all threads *)
Definition results (st : state) : list (text * nat) := flat_map finished (threads st).

Fixpoint nodupb (l : list text) : bool :=
  match l with [] => true | x :: r => negb (existsb (text_eqb x) r) && nodupb r end.
