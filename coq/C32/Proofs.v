(* C32 -- proofs: under every schedule the table never holds a text twice and every returned atom denotes its text *)
From Coq Require Import List NArith Bool Arith Lia.
From V Require Import C21.Model C21.Proofs C32.Model.
Import ListNotations.

Lemma nth_upd_same {A} (l : list A) : forall n x, (n < length l)%nat -> nth_error (upd n x l) n = Some x.
Proof. induction l as [|y l IH]; intros [|n] x H; cbn in *; try lia; auto. apply IH. lia. Qed.

Lemma nth_upd_other {A} (l : list A) : forall n m x, n <> m -> nth_error (upd n x l) m = nth_error l m.
Proof. induction l as [|y l IH]; intros [|n] [|m] x H; cbn; auto; try congruence. Qed.

(* a snapshot taken at epoch e with table length n: s was not among the first n texts; nothing was replaced since iff
   the epoch is still e, and then the table still has length n *)
Definition snap_ok (st : state) (s : text) (e n : nat) : Prop :=
  (e <= epoch st)%nat /\ (n <= length (table st))%nat /\ ~ In s (firstn n (table st)) /\ (e = epoch st -> n = length (table st)).

Definition thread_ok (st : state) (t : nat) (th : thread) : Prop :=
  (forall s i, In (s, i) (finished th) -> nth_error (table st) i = Some s) /\
  match tpc th with
  | Idle => lock st <> Some t
  | WantLock s e n => lock st <> Some t /\ snap_ok st s e n
  | Locked s e n => lock st = Some t /\ snap_ok st s e n
  | Checked s => lock st = Some t /\ ~ In s (table st)
  end.

Definition Inv (st : state) : Prop :=
  NoDup (table st) /\ forall t th, nth_error (threads st) t = Some th -> thread_ok st t th.

(* no other thread is inside the critical section while t holds the lock *)
Lemma others_outside st t u thu : Inv st -> lock st = Some t -> u <> t -> nth_error (threads st) u = Some thu ->
  match tpc thu with Idle | WantLock _ _ _ => True | _ => False end.
Proof.
  intros [_ H] Hl Hu Hn. specialize (H u thu Hn). destruct H as [_ H].
  destruct (tpc thu); auto; destruct H as [H _]; congruence.
Qed.

Lemma firstn_app_le' {A} (n : nat) (a b : list A) : (n <= length a)%nat -> firstn n (a ++ b) = firstn n a.
Proof. intros H. rewrite firstn_app. replace (n - length a)%nat with 0%nat by lia. cbn. apply app_nil_r. Qed.

Lemma snap_ok_same_tables st st' s e n : table st' = table st -> epoch st' = epoch st -> snap_ok st s e n -> snap_ok st' s e n.
Proof. unfold snap_ok. intros -> ->. auto. Qed.

Lemma step_inv bf st t : Inv st -> Inv (step bf st t).
Proof.
  intros HI. pose proof HI as [Hnd Hth]. unfold step, step_gen.
  destruct (nth_error (threads st) t) as [th|] eqn:Et; [|exact HI].
  assert (Hlen : (t < length (threads st))%nat) by (apply nth_error_Some; congruence).
  pose proof (Hth t th Et) as [Hfin Hpc].
  (* a generic way to re-establish the invariant after updating thread t only *)
  assert (Hgen : forall th' tbl ep lk,
            NoDup tbl ->
            thread_ok {| table := tbl; epoch := ep; lock := lk; threads := upd t th' (threads st) |} t th' ->
            (forall u thu, u <> t -> nth_error (threads st) u = Some thu ->
                           thread_ok {| table := tbl; epoch := ep; lock := lk; threads := upd t th' (threads st) |} u thu) ->
            Inv (set_thread st t th' tbl ep lk)).
  { intros th' tbl ep lk Hn Hme Hoth. split; [exact Hn|]. intros u thu Hu. cbn [threads set_thread] in Hu.
    destruct (Nat.eq_dec u t) as [->|Hne].
    - rewrite nth_upd_same in Hu by auto. inversion Hu; subst. exact Hme.
    - rewrite nth_upd_other in Hu by auto. apply Hoth; auto. }
  (* other threads are untouched when neither the table nor the epoch nor the lock changes *)
  assert (Hsame : forall th' u thu, u <> t -> nth_error (threads st) u = Some thu ->
            thread_ok {| table := table st; epoch := epoch st; lock := lock st; threads := upd t th' (threads st) |} u thu).
  { intros th' u thu Hne Hu. pose proof (Hth u thu Hu) as [F P]. split; cbn [table lock]; auto. }
  destruct (tpc th) as [|s e n|s e n|s] eqn:Epc.
  - (* Idle *)
    destruct (todo th) as [|s r] eqn:Etodo; [exact HI|].
    destruct (lookup (table st) s 0) as [i|] eqn:L.
    + apply Hgen; auto.
      split; cbn [finished tpc table lock]; auto. intros s' i' [E|E]; [inversion E; subst|auto].
      apply lookup_some in L. rewrite Nat.sub_0_r in L. tauto.
    + apply Hgen; auto.
      split; cbn [finished tpc table lock]; auto. split; auto.
      unfold snap_ok; cbn [table epoch]. repeat split; auto.
      rewrite firstn_all. eapply lookup_none; eauto.
  - (* WantLock *)
    destruct Hpc as (Hl & Hs). destruct (lock st) as [o|] eqn:El; [exact HI|].
    apply Hgen; auto.
    + split; cbn [finished tpc table lock]; auto.
    + intros u thu Hne Hu. pose proof (Hth u thu Hu) as [F P]. split; cbn [table lock]; auto.
      destruct (tpc thu); cbn [table epoch lock] in *.
      * congruence.
      * destruct P as [_ P2]. split; [congruence | eapply snap_ok_same_tables; eauto].
      * destruct P as [P1 _]. congruence.
      * destruct P as [P1 _]. congruence.
  - (* Locked *)
    destruct Hpc as (Hl & He & Hn & Hs & Heq). cbn [negb orb].
    destruct (Nat.eqb_spec e (epoch st)) as [Ee|Ee].
    + apply Hgen; auto.
      split; cbn [finished tpc table lock]; auto. split; auto.
      rewrite (Heq Ee), firstn_all in Hs. exact Hs.
    + apply Hgen; auto.
      * split; cbn [finished tpc table lock]; auto. congruence.
      * intros u thu Hne Hu. pose proof (others_outside st t u thu HI Hl Hne Hu) as Ho.
        pose proof (Hth u thu Hu) as [F P]. split; cbn [table lock]; auto.
        destruct (tpc thu); try contradiction; cbn [table epoch lock] in *; [congruence|].
        destruct P as [_ P2]. split; [congruence | eapply snap_ok_same_tables; eauto].
  - (* Checked: grow the block, or insert *)
    destruct Hpc as (Hl & Hs).
    destruct (bf (epoch st)).
    + (* growth: same texts, new epoch, lock kept *)
      apply Hgen; auto.
      * split; [exact Hfin|]. rewrite Epc. cbn [table lock]. auto.
      * intros u thu Hne Hu. pose proof (others_outside st t u thu HI Hl Hne Hu) as Ho.
        pose proof (Hth u thu Hu) as [F P]. split; cbn [table lock]; auto.
        destruct (tpc thu); try contradiction; cbn [table epoch lock] in *; [congruence|].
        destruct P as [P1 (A & B & C & D)]. split; auto. unfold snap_ok; cbn [table epoch].
        repeat split; auto; lia.
    + apply Hgen.
      * apply nodup_snoc; auto.
      * split; cbn [finished tpc table lock]; [|congruence].
        intros s' i' [E|E].
        -- inversion E; subst. rewrite nth_error_app2 by lia. rewrite Nat.sub_diag. reflexivity.
        -- rewrite nth_error_app1; [auto|]. apply nth_error_Some. rewrite (Hfin _ _ E). congruence.
      * intros u thu Hne Hu. pose proof (others_outside st t u thu HI Hl Hne Hu) as Ho.
        pose proof (Hth u thu Hu) as [F P]. split; cbn [table lock].
        -- intros s' i' E. rewrite nth_error_app1; [auto|]. apply nth_error_Some. rewrite (F _ _ E). congruence.
        -- destruct (tpc thu); try contradiction; cbn [table epoch lock] in *; [congruence|].
           destruct P as [P1 (A & B & C & D)]. split; [congruence|]. unfold snap_ok; cbn [table epoch].
           repeat split.
           ++ lia.
           ++ rewrite app_length. lia.
           ++ rewrite firstn_app_le' by auto. exact C.
           ++ lia.
Qed.

Lemma run_inv bf sched : forall st, Inv st -> Inv (run bf st sched).
Proof. induction sched as [|t r IH]; intros st H; cbn [run fold_left]; auto. apply IH. apply step_inv. exact H. Qed.

Lemma init_inv tbl work : NoDup tbl -> Inv (init tbl work).
Proof.
  intros Hn. split; auto. intros t th Ht. unfold init in Ht. cbn [threads] in Ht.
  rewrite nth_error_map in Ht. destruct (nth_error work t); [|discriminate]. inversion Ht; subst.
  split; cbn; [tauto | discriminate].
Qed.

Lemma in_results st s i : In (s, i) (results st) -> exists t th, nth_error (threads st) t = Some th /\ In (s, i) (finished th).
Proof.
  unfold results. intros H. apply in_flat_map in H. destruct H as (th & Hin & Hf).
  apply In_nth_error in Hin. destruct Hin as [t Ht]. eauto.
Qed.

(* the three facts the property needs, for every schedule *)
Theorem table_injective_proof bf tbl work sched : NoDup tbl -> NoDup (table (run bf (init tbl work) sched)).
Proof. intros H. apply (run_inv bf sched (init tbl work) (init_inv tbl work H)). Qed.

Theorem returned_atom_in_table_proof bf tbl work sched s i : NoDup tbl ->
  In (s, i) (results (run bf (init tbl work) sched)) -> nth_error (table (run bf (init tbl work) sched)) i = Some s.
Proof.
  intros H Hin. destruct (run_inv bf sched _ (init_inv tbl work H)) as [_ Hth].
  apply in_results in Hin. destruct Hin as (t & th & Ht & Hf). exact (proj1 (Hth t th Ht) s i Hf).
Qed.

Theorem same_text_same_atom_proof bf tbl work sched s i j : NoDup tbl ->
  In (s, i) (results (run bf (init tbl work) sched)) -> In (s, j) (results (run bf (init tbl work) sched)) -> i = j.
Proof.
  intros H Hi Hj.
  pose proof (returned_atom_in_table_proof bf tbl work sched s i H Hi) as Ei.
  pose proof (returned_atom_in_table_proof bf tbl work sched s j H Hj) as Ej.
  exact (nodup_nth_inj _ _ _ s (table_injective_proof bf tbl work sched H) Ei Ej).
Qed.

Theorem same_atom_same_text_proof bf tbl work sched s1 s2 i : NoDup tbl ->
  In (s1, i) (results (run bf (init tbl work) sched)) -> In (s2, i) (results (run bf (init tbl work) sched)) -> s1 = s2.
Proof.
  intros H H1 H2.
  pose proof (returned_atom_in_table_proof bf tbl work sched s1 i H H1).
  pose proof (returned_atom_in_table_proof bf tbl work sched s2 i H H2). congruence.
Qed.
