(* C32 -- proofs: under every schedule the table never holds a text twice and every returned atom denotes its text *)
From Coq Require Import List NArith Bool Arith Lia.
From V Require Import C21.Model C21.Proofs C32.Model.
Import ListNotations.

Lemma nth_upd_same {A} (l : list A) : forall n x, (n < length l)%nat -> nth_error (upd n x l) n = Some x.
Proof. induction l as [|y l IH]; intros [|n] x H; cbn in *; try lia; auto. apply IH. lia. Qed.

Lemma nth_upd_other {A} (l : list A) : forall n m x, n <> m -> nth_error (upd n x l) m = nth_error l m.
Proof. induction l as [|y l IH]; intros [|n] [|m] x H; cbn; auto; try congruence. Qed.

Definition thread_ok (st : state) (t : nat) (th : thread) : Prop :=
  (forall s i, In (s, i) (finished th) -> nth_error (table st) i = Some s) /\
  match tpc th with
  | Idle => lock st <> Some t
  | WantLock s e => lock st <> Some t /\ (e <= length (table st))%nat /\ ~ In s (firstn e (table st))
  | Locked s e => lock st = Some t /\ (e <= length (table st))%nat /\ ~ In s (firstn e (table st))
  | Checked s => lock st = Some t /\ ~ In s (table st)
  end.

Definition Inv (st : state) : Prop :=
  NoDup (table st) /\ forall t th, nth_error (threads st) t = Some th -> thread_ok st t th.

(* no other thread is inside the critical section while t holds the lock *)
Lemma others_outside st t u thu : Inv st -> lock st = Some t -> u <> t -> nth_error (threads st) u = Some thu ->
  match tpc thu with Idle | WantLock _ _ => True | _ => False end.
Proof.
  intros [_ H] Hl Hu Hn. specialize (H u thu Hn). destruct H as [_ H].
  destruct (tpc thu); auto; destruct H as [H _]; congruence.
Qed.

Lemma firstn_app_le' {A} (n : nat) (a b : list A) : (n <= length a)%nat -> firstn n (a ++ b) = firstn n a.
Proof. intros H. rewrite firstn_app. replace (n - length a)%nat with 0%nat by lia. cbn. apply app_nil_r. Qed.

Lemma step_inv st t : Inv st -> Inv (step st t).
Proof.
  intros HI. pose proof HI as [Hnd Hth]. unfold step, step_gen.
  destruct (nth_error (threads st) t) as [th|] eqn:Et; [|exact HI].
  assert (Hlen : (t < length (threads st))%nat) by (apply nth_error_Some; congruence).
  pose proof (Hth t th Et) as [Hfin Hpc].
  (* a generic way to re-establish the invariant after updating thread t only *)
  assert (Hgen : forall th' tbl lk,
            NoDup tbl ->
            thread_ok {| table := tbl; lock := lk; threads := upd t th' (threads st) |} t th' ->
            (forall u thu, u <> t -> nth_error (threads st) u = Some thu ->
                           thread_ok {| table := tbl; lock := lk; threads := upd t th' (threads st) |} u thu) ->
            Inv (set_thread st t th' tbl lk)).
  { intros th' tbl lk Hn Hme Hoth. split; [exact Hn|]. intros u thu Hu. cbn [threads set_thread] in Hu.
    destruct (Nat.eq_dec u t) as [->|Hne].
    - rewrite nth_upd_same in Hu by auto. inversion Hu; subst. exact Hme.
    - rewrite nth_upd_other in Hu by auto. apply Hoth; auto. }
  destruct (tpc th) as [|s e|s e|s] eqn:Epc.
  - (* Idle *)
    destruct (todo th) as [|s r] eqn:Etodo; [exact HI|].
    destruct (lookup (table st) s 0) as [i|] eqn:L.
    + apply Hgen; auto.
      * split; cbn [finished tpc table lock]; auto. intros s' i' [E|E]; [inversion E; subst|auto].
        apply lookup_some in L. rewrite Nat.sub_0_r in L. tauto.
      * intros u thu Hne Hu. exact (Hth u thu Hu).
    + apply Hgen; auto.
      * split; cbn [finished tpc table lock]; auto. repeat split; auto.
        rewrite firstn_all. eapply lookup_none; eauto.
      * intros u thu Hne Hu. exact (Hth u thu Hu).
  - (* WantLock *)
    destruct Hpc as (Hl & He & Hs). destruct (lock st) as [o|] eqn:El; [exact HI|].
    apply Hgen; auto.
    + split; cbn [finished tpc table lock]; auto.
    + intros u thu Hne Hu. pose proof (Hth u thu Hu) as [F P]. split; cbn [table lock]; auto.
      destruct (tpc thu); cbn [table lock] in *; try (destruct P as [P _]; congruence).
      * congruence.
      * destruct P as (_ & P2 & P3). repeat split; auto. congruence.
  - (* Locked *)
    destruct Hpc as (Hl & He & Hs). cbn [negb orb].
    destruct (Nat.eqb_spec e (length (table st))) as [Ee|Ee].
    + apply Hgen; auto.
      * split; cbn [finished tpc table lock]; auto. split; auto. subst e. rewrite firstn_all in Hs. exact Hs.
      * intros u thu Hne Hu. exact (Hth u thu Hu).
    + apply Hgen; auto.
      * split; cbn [finished tpc table lock]; auto. congruence.
      * intros u thu Hne Hu. pose proof (others_outside st t u thu HI Hl Hne Hu) as Ho.
        pose proof (Hth u thu Hu) as [F P]. split; cbn [table lock]; auto.
        destruct (tpc thu); try contradiction; cbn [table lock] in *; [congruence|].
        destruct P as (_ & P2 & P3). repeat split; auto. congruence.
  - (* Checked: insert *)
    destruct Hpc as (Hl & Hs).
    apply Hgen.
    + apply nodup_snoc; auto.
    + split; cbn [finished tpc table lock]; [|congruence].
      intros s' i' [E|E].
      * inversion E; subst. rewrite nth_error_app2 by lia. rewrite Nat.sub_diag. reflexivity.
      * rewrite nth_error_app1; [auto|]. apply nth_error_Some. rewrite (Hfin _ _ E). congruence.
    + intros u thu Hne Hu. pose proof (others_outside st t u thu HI Hl Hne Hu) as Ho.
      pose proof (Hth u thu Hu) as [F P]. split; cbn [table lock].
      * intros s' i' E. rewrite nth_error_app1; [auto|]. apply nth_error_Some. rewrite (F _ _ E). congruence.
      * destruct (tpc thu); try contradiction; cbn [table lock] in *; [congruence|].
        destruct P as (_ & P2 & P3). repeat split; try congruence.
        -- rewrite app_length. lia.
        -- rewrite firstn_app_le' by auto. exact P3.
Qed.

Lemma run_inv sched : forall st, Inv st -> Inv (run st sched).
Proof. induction sched as [|t r IH]; intros st H; cbn [run fold_left]; auto. apply IH. apply step_inv. exact H. Qed.

Lemma init_inv tbl work : NoDup tbl -> Inv (init tbl work).
Proof.
  intros Hn. split; auto. intros t th Ht. unfold init in Ht. cbn [threads] in Ht.
  rewrite nth_error_map in Ht. destruct (nth_error work t); [|discriminate]. inversion Ht; subst.
  split; cbn; [tauto | discriminate].
Qed.

Lemma in_results st s i : In (s, i) (results st) -> exists t th, nth_error (threads st) t = Some th /\ In (s, i) (finished th).
Proof.
  unfold results. intros H. apply in_flat_map in H. destruct H as (th & Hin & Hf).
  apply In_nth_error in Hin. destruct Hin as [t Ht]. eauto.
Qed.

(* the three facts the property needs, for every schedule *)
Theorem table_injective_proof tbl work sched : NoDup tbl -> NoDup (table (run (init tbl work) sched)).
Proof. intros H. apply (run_inv sched (init tbl work) (init_inv tbl work H)). Qed.

Theorem returned_atom_in_table_proof tbl work sched s i : NoDup tbl ->
  In (s, i) (results (run (init tbl work) sched)) -> nth_error (table (run (init tbl work) sched)) i = Some s.
Proof.
  intros H Hin. destruct (run_inv sched _ (init_inv tbl work H)) as [_ Hth].
  apply in_results in Hin. destruct Hin as (t & th & Ht & Hf). exact (proj1 (Hth t th Ht) s i Hf).
Qed.

Theorem same_text_same_atom_proof tbl work sched s i j : NoDup tbl ->
  In (s, i) (results (run (init tbl work) sched)) -> In (s, j) (results (run (init tbl work) sched)) -> i = j.
Proof.
  intros H Hi Hj.
  pose proof (returned_atom_in_table_proof tbl work sched s i H Hi) as Ei.
  pose proof (returned_atom_in_table_proof tbl work sched s j H Hj) as Ej.
  exact (nodup_nth_inj _ _ _ s (table_injective_proof tbl work sched H) Ei Ej).
Qed.

Theorem same_atom_same_text_proof tbl work sched s1 s2 i : NoDup tbl ->
  In (s1, i) (results (run (init tbl work) sched)) -> In (s2, i) (results (run (init tbl work) sched)) -> s1 = s2.
Proof.
  intros H H1 H2.
  pose proof (returned_atom_in_table_proof tbl work sched s1 i H H1).
  pose proof (returned_atom_in_table_proof tbl work sched s2 i H H2). congruence.
Qed.
