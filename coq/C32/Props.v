(* C32 -- pinned property theorems (nothing else lives here) *)
From Coq Require Import List NArith Bool.
From V Require Import C21.Model C32.Model C32.Proofs.
Import ListNotations.

(* For every number of threads, every work list per thread, EVERY schedule (list of thread ids, i.e. every interleaving
   of the atomic protocol steps) and every behaviour of the string block (bf: at which epochs it is full and must be
   grown by the lock holder, which replaces the shared structures without changing the texts): the shared table never
   holds a text twice, *)
Theorem table_injective : forall bf tbl work sched, NoDup tbl -> NoDup (table (run bf (init tbl work) sched)).
Proof. exact table_injective_proof. Qed.
Print Assumptions table_injective.

(* every atom handed to a thread denotes the text the thread asked for, *)
Theorem returned_atom_in_table : forall bf tbl work sched s i, NoDup tbl ->
  In (s, i) (results (run bf (init tbl work) sched)) -> nth_error (table (run bf (init tbl work) sched)) i = Some s.
Proof. exact returned_atom_in_table_proof. Qed.
Print Assumptions returned_atom_in_table.

(* every thread gets the same atom for the same text, *)
Theorem same_text_same_atom : forall bf tbl work sched s i j, NoDup tbl ->
  In (s, i) (results (run bf (init tbl work) sched)) -> In (s, j) (results (run bf (init tbl work) sched)) -> i = j.
Proof. exact same_text_same_atom_proof. Qed.
Print Assumptions same_text_same_atom.

(* and different texts never share an atom. *)
Theorem same_atom_same_text : forall bf tbl work sched s1 s2 i, NoDup tbl ->
  In (s1, i) (results (run bf (init tbl work) sched)) -> In (s2, i) (results (run bf (init tbl work) sched)) -> s1 = s2.
Proof. exact same_atom_same_text_proof. Qed.
Print Assumptions same_atom_same_text.

(* the invariant is not vacuous: without the epoch re-check under the lock a schedule exists that inserts a text twice *)
Example epoch_recheck_necessary :
  nodupb (table (run_broken (fun _ => false) (init [] [[[1%N]]; [[1%N]]]) [0; 1; 0; 0; 0; 1; 1; 1]%nat)) = false.
Proof. vm_compute. reflexivity. Qed.
Example same_schedule_is_safe_with_recheck :
  nodupb (table (run (fun _ => false) (init [] [[[1%N]]; [[1%N]]]) [0; 1; 0; 0; 0; 1; 1; 1; 1; 1; 1; 1]%nat))= true
  /\ results (run (fun _ => false) (init [] [[[1%N]]; [[1%N]]]) [0; 1; 0; 0; 0; 1; 1; 1; 1; 1; 1; 1]%nat) = [([1%N], 0%nat); ([1%N], 0%nat)].
Proof. vm_compute. auto. Qed.

(* growth of the block while another thread waits with an old snapshot: the waiting thread starts over and finds the text *)
Example growth_forces_retry :
  results (run (fun e => Nat.eqb e 0) (init [] [[[1%N]]; [[1%N]]]) [0; 1; 0; 0; 0; 0; 1; 1; 1; 1; 1]%nat) = [([1%N], 0%nat); ([1%N], 0%nat)].
Proof. vm_compute. reflexivity. Qed.
