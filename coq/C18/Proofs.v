(* C18 -- proofs: the chunk-fed reader delivers exactly the reference decoding of the concatenated bytes *)
From Coq Require Import List NArith Bool Arith Lia ZArith.
From V Require Import C18.Model.
Import ListNotations.
Open Scope N_scope.
Ltac Zify.zify_post_hook ::= Z.to_euclidean_division_equations.

(* ---------- decode1 looks at no more than four bytes and is stable under extension once it is decided *)
Lemma decode1_firstn4 l : decode1 (firstn 4 l) = decode1 l.
Proof. destruct l as [|a [|b [|c [|d l]]]]; reflexivity. Qed.

Ltac split_ifs :=
  repeat match goal with
         | |- context [if ?c then _ else _] => destruct c eqn:?
         | H : context [if ?c then _ else _] |- _ => destruct c eqn:?
         end.

Lemma decode1_app_char l m c w : decode1 l = DChar c w -> decode1 (l ++ m) = DChar c w.
Proof.
  destruct l as [|a [|b [|x [|d l]]]]; cbn [app]; unfold decode1; intros H;
    split_ifs; try congruence.
Qed.

Lemma decode1_app_bad l m n : decode1 l = DBad n -> decode1 (l ++ m) = DBad n.
Proof.
  destruct l as [|a [|b [|x [|d l]]]]; cbn [app]; unfold decode1; intros H;
    split_ifs; try congruence.
Qed.

Lemma decode1_empty l : decode1 l = DEmpty -> l = [].
Proof. destruct l as [|a [|b [|x [|d l]]]]; auto; unfold decode1; intros H; split_ifs; congruence. Qed.

Lemma decode1_incomplete_short l : decode1 l = DIncomplete -> (0 < length l < 4)%nat.
Proof.
  destruct l as [|a [|b [|x [|d l]]]]; cbn [length]; unfold decode1; intros H; split_ifs; try congruence; lia.
Qed.

Lemma decode1_bad_n l n : decode1 l = DBad n -> (1 <= n <= length l)%nat.
Proof.
  destruct l as [|a [|b [|x [|d l]]]]; cbn [length]; unfold decode1; intros H; split_ifs;
    try congruence; inversion H; subst; lia.
Qed.

Ltac bounds :=
  unfold cont in *; unfold in_range in *;
  repeat match goal with
         | H : (_ && _) = true |- _ => apply andb_true_iff in H; destruct H
         | H : (_ <=? _) = true |- _ => apply N.leb_le in H
         | H : (_ <? _) = true |- _ => apply N.ltb_lt in H
         | H : (_ <? _) = false |- _ => apply N.ltb_ge in H
         | H : (_ =? _) = true |- _ => apply N.eqb_eq in H
         | H : (_ =? _) = false |- _ => apply N.eqb_neq in H
         end.

Lemma len_utf8_cases c :
  (c < 128 /\ len_utf8 c = 1%nat) \/ (128 <= c < 2048 /\ len_utf8 c = 2%nat) \/
  (2048 <= c < 65536 /\ len_utf8 c = 3%nat) \/ (65536 <= c /\ len_utf8 c = 4%nat).
Proof.
  unfold len_utf8.
  destruct (N.ltb_spec c 128); [left; lia|].
  destruct (N.ltb_spec c 2048); [right; left; lia|].
  destruct (N.ltb_spec c 65536); [right; right; left; lia| right; right; right; lia].
Qed.

Lemma decode1_char_w l c w : decode1 l = DChar c w -> (w <= length l)%nat /\ w = len_utf8 c.
Proof.
  destruct l as [|a [|b [|x [|d l]]]]; cbn [length]; unfold decode1; intros H; split_ifs;
    try congruence; inversion H; subst; clear H; (split; [lia|]); bounds;
    match goal with |- _ = len_utf8 ?c => destruct (len_utf8_cases c) as [[? E]|[[? E]|[[? E]|[? E]]]]; rewrite E; try reflexivity; exfalso; lia end.
Qed.

Lemma length_encode_utf8 c : length (encode_utf8 c) = len_utf8 c.
Proof. unfold encode_utf8, len_utf8; split_ifs; reflexivity. Qed.

(* ---------- the reader *)
Definition rem (st : reader) : list N := skipn (pos st) (buf st) ++ concat (src st).
Definition nonempty (c : list N) : Prop := c <> [].
Definition Inv (st : reader) : Prop := (pos st <= length (buf st))%nat /\ Forall nonempty (src st).

Lemma skipn_app_le {A} (n : nat) (a b : list A) : (n <= length a)%nat -> skipn n (a ++ b) = skipn n a ++ b.
Proof. intros H. rewrite skipn_app. replace (n - length a)%nat with 0%nat by lia. reflexivity. Qed.

Lemma firstn_app_le {A} (n : nat) (a b : list A) : (n <= length a)%nat -> firstn n (a ++ b) = firstn n a.
Proof. intros H. rewrite firstn_app. replace (n - length a)%nat with 0%nat by lia. cbn [firstn]. apply app_nil_r. Qed.

Lemma skipn_add {A} (a b : nat) : forall l : list A, skipn (a + b) l = skipn b (skipn a l).
Proof.
  induction a as [|a IH]; intros l; cbn [Nat.add skipn]; auto.
  destruct l as [|x l]; cbn [skipn]; [destruct b; reflexivity | apply IH].
Qed.

Lemma skipn_length_app {A} (a b : list A) : skipn (length a) (a ++ b) = b.
Proof. rewrite skipn_app, skipn_all, Nat.sub_diag. reflexivity. Qed.

Lemma first_item_no_panic bs : fst (first_item bs) <> IPanic.
Proof. unfold first_item. destruct (decode1 bs); cbn [fst]; congruence. Qed.

(* what peek_loop returns: the reference's first item of everything that is still to come; nothing is lost;
   the bytes of the item are in the buffer *)
Lemma peek_loop_correct chunks : forall b p,
  (p <= length b)%nat -> Forall nonempty chunks -> ((p < length b)%nat \/ chunks = []) ->
  let all := skipn p b ++ concat chunks in
  let r := peek_loop chunks b p in
  fst r = fst (first_item all) /\ rem (snd r) = all /\ Inv (snd r) /\
  (snd (first_item all) <= length (buf (snd r)) - pos (snd r))%nat.
Proof.
  induction chunks as [|c r IH]; intros b p Hp Hne Hdata all res.
  - (* no more chunks *)
    subst all res. cbn [concat]. rewrite app_nil_r. cbn [peek_loop].
    destruct (p <? length b)%nat eqn:Elt.
    + apply Nat.ltb_lt in Elt.
      rewrite decode1_firstn4. unfold first_item, bad_bytes_error.
      destruct (decode1 (skipn p b)) as [|ch w|n|] eqn:Ed.
      * apply decode1_empty in Ed. apply (f_equal (@length N)) in Ed. rewrite skipn_length in Ed. cbn in Ed. lia.
      * cbn [fst snd]. unfold rem, Inv; cbn [buf pos src concat]. rewrite app_nil_r.
        apply decode1_char_w in Ed. rewrite skipn_length in Ed. repeat split; auto; lia.
      * cbn [fst snd]. unfold rem, Inv; cbn [buf pos src concat]. rewrite app_nil_r.
        apply decode1_bad_n in Ed. rewrite skipn_length in Ed. repeat split; auto; lia.
      * cbn [fst snd].
        assert (Hskip : skipn (if (4 <? p)%nat then 4%nat else p) (if (4 <? p)%nat then firstn 4 b ++ skipn p b else b) = skipn p b).
        { destruct (4 <? p)%nat eqn:E4; auto. apply Nat.ltb_lt in E4.
          replace 4%nat with (length (firstn 4 b)) at 1 by (rewrite firstn_length; lia).
          apply skipn_length_app. }
        rewrite Hskip, Ed. cbn [fst snd]. unfold rem, Inv; cbn [buf pos src concat]. rewrite app_nil_r, Hskip.
        repeat split; auto.
        -- destruct (4 <? p)%nat eqn:E4; [|lia]. rewrite app_length, firstn_length. apply Nat.ltb_lt in E4. lia.
        -- apply (f_equal (@length N)) in Hskip. rewrite !skipn_length in Hskip. rewrite skipn_length. lia.
    + apply Nat.ltb_ge in Elt. assert (p = length b) by lia. subst p.
      rewrite skipn_all. cbn [fst snd first_item decode1]. unfold rem, Inv; cbn [buf pos src concat].
      rewrite skipn_all. repeat split; auto. cbn. lia.
  - (* a further chunk c is available *)
    destruct Hdata as [Hlt|]; [|discriminate].
    inversion Hne as [|? ? Hc Hr]; subst.
    subst all res. cbn [peek_loop].
    apply Nat.ltb_lt in Hlt. rewrite Hlt. apply Nat.ltb_lt in Hlt.
    rewrite decode1_firstn4. unfold first_item at 1 2.
    destruct (decode1 (skipn p b)) as [|ch w|n|] eqn:Ed.
    + apply decode1_empty in Ed. apply (f_equal (@length N)) in Ed. rewrite skipn_length in Ed. cbn in Ed. lia.
    + rewrite (decode1_app_char _ (concat (c :: r)) _ _ Ed). cbn [fst snd].
      unfold rem, Inv; cbn [buf pos src].
      apply decode1_char_w in Ed. rewrite skipn_length in Ed. repeat split; auto; lia.
    + rewrite (decode1_app_bad _ (concat (c :: r)) _ Ed). cbn [fst snd].
      unfold bad_bytes_error. rewrite Ed. unfold rem, Inv; cbn [buf pos src].
      apply decode1_bad_n in Ed. rewrite skipn_length in Ed.
      rewrite firstn_app_le by (rewrite skipn_length; lia). repeat split; auto; lia.
    + (* incomplete: compact, append the chunk, look again *)
      set (b1 := if (4 <? p)%nat then firstn 4 b ++ skipn p b else b).
      set (p1 := if (4 <? p)%nat then 4%nat else p).
      assert (Hp1 : (p1 <= length b1)%nat).
      { subst b1 p1. destruct (4 <? p)%nat eqn:E4; [|lia]. rewrite app_length, firstn_length. apply Nat.ltb_lt in E4. lia. }
      assert (Hskip : skipn p1 b1 = skipn p b).
      { subst b1 p1. destruct (4 <? p)%nat eqn:E4; auto. apply Nat.ltb_lt in E4.
        replace 4%nat with (length (firstn 4 b)) at 1 by (rewrite firstn_length; lia).
        apply skipn_length_app. }
      assert (Hc' : (0 < length c)%nat) by (destruct c; [congruence | cbn; lia]).
      specialize (IH (b1 ++ c) p1).
      assert (Hall : skipn p1 (b1 ++ c) ++ concat r = skipn p b ++ concat (c :: r)).
      { rewrite skipn_app_le by auto. rewrite Hskip. cbn [concat]. rewrite app_assoc. reflexivity. }
      rewrite Hall in IH. unfold first_item in IH.
      apply IH; auto.
      * rewrite app_length. lia.
      * left. rewrite app_length. lia.
Qed.

Lemma refresh_buffer_correct st : Inv st ->
  let st1 := refresh_buffer st in
  rem st1 = rem st /\ Inv st1 /\ ((pos st1 < length (buf st1))%nat \/ src st1 = []).
Proof.
  intros [Hp Hne]. unfold refresh_buffer.
  destruct (length (buf st) <=? pos st)%nat eqn:E.
  - apply Nat.leb_le in E. assert (Hpos : pos st = length (buf st)) by lia.
    set (b := if (4 <? length (buf st))%nat then firstn 4 (buf st) else buf st).
    unfold read_chunk; cbn [src buf pos].
    destruct (src st) as [|c r] eqn:Es; cbn [snd].
    + unfold rem, Inv; cbn [buf pos src]. rewrite Es, Hpos, !skipn_all. repeat split; auto.
    + inversion Hne as [|? ? Hc Hr]; subst.
      unfold rem, Inv; cbn [buf pos src]. rewrite Es, Hpos, skipn_all, skipn_length_app.
      assert (0 < length c)%nat by (destruct c; [unfold nonempty in Hc; congruence | cbn; lia]).
      rewrite app_length. repeat split; auto; try lia.
  - apply Nat.leb_gt in E. repeat split; auto.
Qed.

Lemma peek_char_correct st : Inv st ->
  let r := peek_char st in
  fst r = fst (first_item (rem st)) /\ rem (snd r) = rem st /\ Inv (snd r) /\
  (snd (first_item (rem st)) <= length (buf (snd r)) - pos (snd r))%nat.
Proof.
  intros HI. unfold peek_char.
  destruct (refresh_buffer_correct st HI) as (Hrem & [Hp Hne] & Hdata).
  pose proof (peek_loop_correct (src (refresh_buffer st)) (buf (refresh_buffer st)) (pos (refresh_buffer st)) Hp Hne Hdata) as H.
  cbv zeta in H. unfold rem in Hrem at 1. rewrite Hrem in H. exact H.
Qed.

Lemma rem_consume n st : (n <= length (buf st) - pos st)%nat -> (pos st <= length (buf st))%nat ->
  rem (consume n st) = skipn n (rem st) /\ (pos (consume n st) <= length (buf (consume n st)))%nat.
Proof.
  intros Hn Hp. unfold rem, consume; cbn [buf pos src]. split; [|lia].
  rewrite skipn_app_le by (rewrite skipn_length; lia).
  f_equal. apply skipn_add.
Qed.

Lemma read_char_correct st : Inv st ->
  let r := read_char st in
  fst r = fst (first_item (rem st)) /\ rem (snd r) = skipn (snd (first_item (rem st))) (rem st) /\ Inv (snd r).
Proof.
  intros HI. unfold read_char.
  destruct (peek_char_correct st HI) as (Hit & Hrem & [Hp Hne] & Hbuf).
  destruct (peek_char st) as [it st1]; cbn [fst snd] in *.
  unfold first_item in *.
  destruct (decode1 (rem st)) as [|ch w|n|] eqn:Ed; cbn [fst snd] in *; subst it; cbn [fst snd].
  - rewrite Hrem. repeat split; auto.
  - apply decode1_char_w in Ed. destruct Ed as [_ Ew]. rewrite <- Ew.
    destruct (rem_consume w st1 Hbuf Hp) as [H1 H2]. rewrite H1, Hrem. repeat split; auto.
  - apply decode1_bad_n in Ed. rewrite firstn_length, Nat.min_l by lia.
    destruct (rem_consume n st1 Hbuf Hp) as [H1 H2]. rewrite H1, Hrem. repeat split; auto.
  - destruct (rem_consume (length (rem st)) st1 Hbuf Hp) as [H1 H2]. rewrite H1, Hrem. repeat split; auto.
Qed.

Lemma put_back_char_correct c st : Inv st ->
  rem (put_back_char c st) = encode_utf8 c ++ rem st /\ Inv (put_back_char c st).
Proof.
  intros [Hp Hne]. unfold put_back_char.
  destruct (len_utf8 c <=? pos st)%nat eqn:E.
  - apply Nat.leb_le in E. unfold rem, Inv; cbn [buf pos src].
    assert (Hl : length (firstn (pos st - len_utf8 c) (buf st)) = (pos st - len_utf8 c)%nat) by (rewrite firstn_length; lia).
    rewrite <- Hl at 1. rewrite skipn_length_app, <- app_assoc. repeat split; auto.
    rewrite !app_length, Hl. lia.
  - unfold rem, Inv; cbn [buf pos src skipn]. rewrite <- app_assoc. repeat split; auto. lia.
Qed.

(* ---------- the theorem: any script, any chunking *)
Lemma run_reader_spec script : forall st last, Inv st -> run_reader script st last = run_spec script (rem st) last.
Proof.
  induction script as [|o s IH]; intros st last HI; cbn [run_reader run_spec]; auto.
  destruct o.
  - destruct (peek_char_correct st HI) as (Hit & Hrem & HI1 & _).
    destruct (peek_char st) as [it st1]; cbn [fst snd] in *. rewrite Hit, (IH st1 last HI1), Hrem. reflexivity.
  - destruct (read_char_correct st HI) as (Hit & Hrem & HI1).
    destruct (read_char st) as [it st1]; cbn [fst snd] in *.
    destruct (first_item (rem st)) as [it' n]; cbn [fst snd] in *. subst it'.
    rewrite (IH st1 _ HI1), Hrem. reflexivity.
  - destruct last as [c|]; auto.
    destruct (put_back_char_correct c st HI) as [Hrem HI1]. rewrite (IH _ None HI1), Hrem. reflexivity.
Qed.

Theorem chunking_independent_proof chunks script :
  Forall nonempty chunks -> run_reader script (init chunks) None = run_spec script (concat chunks) None.
Proof.
  intros Hne. rewrite run_reader_spec.
  - unfold rem, init; cbn [buf pos src skipn app]. reflexivity.
  - split; auto.
Qed.

Lemma run_spec_no_panic script : forall bytes last, ~ In IPanic (run_spec script bytes last).
Proof.
  induction script as [|o s IH]; intros bytes last; cbn [run_spec]; auto.
  destruct o.
  - intros [H|H]; [exact (first_item_no_panic _ H) | exact (IH _ _ H)].
  - pose proof (first_item_no_panic bytes) as Hn. destruct (first_item bytes) as [it n]; cbn [fst] in Hn.
    intros [H|H]; [congruence | exact (IH _ _ H)].
  - destruct last; apply IH.
Qed.

Theorem never_panics_proof chunks script :
  Forall nonempty chunks -> ~ In IPanic (run_reader script (init chunks) None).
Proof. intros H. rewrite chunking_independent_proof by auto. apply run_spec_no_panic. Qed.

(* ---------- the reference decoding is the inverse of the UTF-8 encoder on Unicode scalar values *)
Definition scalar (c : N) : Prop := c < 55296 \/ (57344 <= c /\ c < 1114112).

Lemma ltb_false a b : b <= a -> (a <? b) = false.  Proof. intros; apply N.ltb_ge; auto. Qed.
Lemma ltb_true a b : a < b -> (a <? b) = true.  Proof. intros; apply N.ltb_lt; auto. Qed.
Lemma in_range_true lo hi b : lo <= b -> b <= hi -> in_range lo hi b = true.
Proof. intros; unfold in_range; apply andb_true_iff; split; apply N.leb_le; auto. Qed.
Lemma in_range_false_lo lo hi b : b < lo -> in_range lo hi b = false.
Proof. intros; unfold in_range; apply andb_false_iff; left; apply N.leb_gt; auto. Qed.
Lemma in_range_false_hi lo hi b : hi < b -> in_range lo hi b = false.
Proof. intros; unfold in_range; apply andb_false_iff; right; apply N.leb_gt; auto. Qed.

Lemma decode_encode_proof c l : scalar c -> decode1 (encode_utf8 c ++ l) = DChar c (len_utf8 c).
Proof.
  intros Hs. unfold scalar in Hs. unfold encode_utf8, len_utf8.
  destruct (N.ltb_spec c 128) as [H1|H1].
  - cbn [app]. unfold decode1. rewrite ltb_true by auto. reflexivity.
  - destruct (N.ltb_spec c 2048) as [H2|H2].
    + cbn [app]. unfold decode1.
      assert (E0 : 194 <= 192 + c / 64 <= 223) by lia.
      assert (E1 : 128 <= 128 + c mod 64 <= 191) by lia.
      rewrite ltb_false by lia. rewrite in_range_true by lia. unfold cont. rewrite in_range_true by lia.
      f_equal. lia.
    + destruct (N.ltb_spec c 65536) as [H3|H3].
      * cbn [app]. unfold decode1.
        assert (E0 : 224 <= 224 + c / 4096 <= 239) by lia.
        assert (E1 : 128 <= 128 + (c / 64) mod 64 <= 191) by lia.
        assert (E2 : 128 <= 128 + c mod 64 <= 191) by lia.
        rewrite ltb_false by lia. rewrite in_range_false_hi by lia. rewrite in_range_true by lia.
        assert (Er : in_range (if 224 + c / 4096 =? 224 then 160 else 128) (if 224 + c / 4096 =? 237 then 159 else 191)
                        (128 + (c / 64) mod 64) = true).
        { destruct (N.eqb_spec (224 + c / 4096) 224); destruct (N.eqb_spec (224 + c / 4096) 237);
            apply in_range_true; lia. }
        rewrite Er. unfold cont. rewrite in_range_true by lia. f_equal. lia.
      * cbn [app]. unfold decode1.
        assert (E0 : 240 <= 240 + c / 262144 <= 244) by lia.
        assert (E1 : 128 <= 128 + (c / 4096) mod 64 <= 191) by lia.
        assert (E2 : 128 <= 128 + (c / 64) mod 64 <= 191) by lia.
        assert (E3 : 128 <= 128 + c mod 64 <= 191) by lia.
        rewrite ltb_false by lia. rewrite in_range_false_hi by lia. rewrite in_range_false_hi by lia.
        rewrite in_range_true by lia.
        assert (Er : in_range (if 240 + c / 262144 =? 240 then 144 else 128) (if 240 + c / 262144 =? 244 then 143 else 191)
                        (128 + (c / 4096) mod 64) = true).
        { destruct (N.eqb_spec (240 + c / 262144) 240); destruct (N.eqb_spec (240 + c / 262144) 244);
            apply in_range_true; lia. }
        rewrite Er. unfold cont. rewrite !in_range_true by lia. f_equal. lia.
Qed.
