(* C18 -- impl-mirror model of src/parser/char_reader.rs (CharReader: buf, pos, refresh_buffer, peek_char,
   read_char, put_back_char, consume) over a source that delivers the input in arbitrary chunks, and the
   reference decoding of the whole byte string (Rust's str::from_utf8 segmentation: valid_up_to / error_len).
   No proofs in this file. *)
From Coq Require Import List NArith Bool Arith.
Import ListNotations.
Open Scope N_scope.

(* ---------- UTF-8, as Rust's validator segments it *)
Inductive dres :=
| DEmpty                       (* no bytes *)
| DChar (c : N) (w : nat)      (* a character of w bytes *)
| DBad (n : nat)               (* an invalid sequence of n bytes (error_len = Some n) *)
| DIncomplete.                 (* the bytes are a proper prefix of a character (error_len = None) *)

Definition in_range (lo hi b : N) : bool := (lo <=? b) && (b <=? hi).
Definition cont (b : N) : bool := in_range 128 191 b.

Definition decode1 (bs : list N) : dres :=
  match bs with
  | [] => DEmpty
  | b0 :: r =>
    if b0 <? 128 then DChar b0 1
    else if in_range 194 223 b0 then
      match r with
      | [] => DIncomplete
      | b1 :: _ => if cont b1 then DChar ((b0 - 192) * 64 + (b1 - 128)) 2 else DBad 1
      end
    else if in_range 224 239 b0 then
      let lo := if b0 =? 224 then 160 else 128 in
      let hi := if b0 =? 237 then 159 else 191 in
      match r with
      | [] => DIncomplete
      | b1 :: r1 =>
        if in_range lo hi b1 then
          match r1 with
          | [] => DIncomplete
          | b2 :: _ => if cont b2 then DChar ((b0 - 224) * 4096 + (b1 - 128) * 64 + (b2 - 128)) 3 else DBad 2
          end
        else DBad 1
      end
    else if in_range 240 244 b0 then
      let lo := if b0 =? 240 then 144 else 128 in
      let hi := if b0 =? 244 then 143 else 191 in
      match r with
      | [] => DIncomplete
      | b1 :: r1 =>
        if in_range lo hi b1 then
          match r1 with
          | [] => DIncomplete
          | b2 :: r2 =>
            if cont b2 then
              match r2 with
              | [] => DIncomplete
              | b3 :: _ =>
                if cont b3 then DChar ((b0 - 240) * 262144 + (b1 - 128) * 4096 + (b2 - 128) * 64 + (b3 - 128)) 4
                else DBad 3
              end
            else DBad 2
          end
        else DBad 1
      end
    else DBad 1
  end.

(* char::len_utf8 and char::encode_utf8 *)
Definition len_utf8 (c : N) : nat :=
  if c <? 128 then 1%nat else if c <? 2048 then 2%nat else if c <? 65536 then 3%nat else 4%nat.

Definition encode_utf8 (c : N) : list N :=
  if c <? 128 then [c]
  else if c <? 2048 then [192 + c / 64; 128 + c mod 64]
  else if c <? 65536 then [224 + c / 4096; 128 + (c / 64) mod 64; 128 + c mod 64]
  else [240 + c / 262144; 128 + (c / 4096) mod 64; 128 + (c / 64) mod 64; 128 + c mod 64].

(* ---------- what a client observes *)
Inductive item :=
| IChr (c : N)
| IBad (bs : list N)          (* invalid bytes reported (and then skipped by the client) *)
| IEof
| IPanic.                     (* the implementation would panic here *)

(* reference: first item of a byte string and the number of bytes it covers *)
Definition first_item (bs : list N) : item * nat :=
  match decode1 bs with
  | DEmpty => (IEof, 0%nat)
  | DChar c w => (IChr c, w)
  | DBad n => (IBad (firstn n bs), n)
  | DIncomplete => (IBad bs, length bs)     (* a sequence cut short by the end of the input *)
  end.

(* operations of a client *)
Inductive op := OPeek | ORead | OPutBack.    (* OPutBack: put back the character the last ORead returned, if any *)

(* reference run over the remaining bytes *)
Fixpoint run_spec (script : list op) (bytes : list N) (last : option N) : list item :=
  match script with
  | [] => []
  | OPeek :: s => fst (first_item bytes) :: run_spec s bytes last
  | ORead :: s =>
      let (it, n) := first_item bytes in
      it :: run_spec s (skipn n bytes) (match it with IChr c => Some c | _ => None end)
  | OPutBack :: s =>
      match last with
      | Some c => run_spec s (encode_utf8 c ++ bytes) None
      | None => run_spec s bytes None
      end
  end.

(* ---------- the reader *)
Record reader := { buf : list N; pos : nat; src : list (list N) }.

Definition init (chunks : list (list N)) : reader := {| buf := []; pos := 0; src := chunks |}.

(* read_chunk: append what the source delivers next; 0 bytes = end of input *)
Definition read_chunk (st : reader) : nat * reader :=
  match src st with
  | [] => (0%nat, st)
  | c :: r => (length c, {| buf := buf st ++ c; pos := pos st; src := r |})
  end.

(* refresh_buffer *)
Definition refresh_buffer (st : reader) : reader :=
  if (length (buf st) <=? pos st)%nat then
    let b := if (4 <? length (buf st))%nat then firstn 4 (buf st) else buf st in
    snd (read_chunk {| buf := b; pos := length b; src := src st |})
  else st.

(* bad_bytes_error(buf): from_utf8(buf).expect_err(..); assert valid_up_to == 0; error_len or the whole rest *)
Definition bad_bytes_error (rem : list N) : item :=
  match decode1 rem with
  | DBad n => IBad (firstn n rem)
  | DIncomplete => IBad rem
  | _ => IPanic
  end.

(* the `while self.pos < self.buf.len()` loop of peek_char; recursion on the chunks still to come *)
Fixpoint peek_loop (chunks : list (list N)) (b : list N) (p : nat) : item * reader :=
  let st := {| buf := b; pos := p; src := chunks |} in
  if (p <? length b)%nat then
    let rem := skipn p b in
    match decode1 (firstn 4 rem) with
    | DChar c _ => (IChr c, st)
    | DBad _ => (bad_bytes_error rem, st)
    | DEmpty => (IPanic, st)
    | DIncomplete =>
        (* compaction: keep a prefix of 4 bytes so that one character can be put back *)
        let b1 := if (4 <? p)%nat then firstn 4 b ++ skipn p b else b in
        let p1 := if (4 <? p)%nat then 4%nat else p in
        match chunks with
        | [] => (bad_bytes_error (skipn p1 b1), {| buf := b1; pos := p1; src := [] |})
        | c :: r => peek_loop r (b1 ++ c) p1
        end
    end
  else (IEof, st).

Definition peek_char (st : reader) : item * reader :=
  let st1 := refresh_buffer st in
  peek_loop (src st1) (buf st1) (pos st1).

Definition consume (n : nat) (st : reader) : reader :=
  {| buf := buf st; pos := (pos st + n)%nat; src := src st |}.

(* read_char, followed by the client's consume(err.bytes.len()) after a bad-bytes error *)
Definition read_char (st : reader) : item * reader :=
  let (it, st1) := peek_char st in
  match it with
  | IChr c => (it, consume (len_utf8 c) st1)
  | IBad bs => (it, consume (length bs) st1)
  | _ => (it, st1)
  end.

(* put_back_char *)
Definition put_back_char (c : N) (st : reader) : reader :=
  let w := len_utf8 c in
  if (w <=? pos st)%nat then
    let p := (pos st - w)%nat in
    {| buf := firstn p (buf st) ++ encode_utf8 c ++ skipn (pos st) (buf st); pos := p; src := src st |}
  else
    (* insert w - pos zero bytes at the front, pos = 0, then overwrite the first w bytes *)
    {| buf := encode_utf8 c ++ skipn (pos st) (buf st); pos := 0; src := src st |}.

Fixpoint run_reader (script : list op) (st : reader) (last : option N) : list item :=
  match script with
  | [] => []
  | OPeek :: s => let (it, st1) := peek_char st in it :: run_reader s st1 last
  | ORead :: s =>
      let (it, st1) := read_char st in
      it :: run_reader s st1 (match it with IChr c => Some c | _ => None end)
  | OPutBack :: s =>
      match last with
      | Some c => run_reader s (put_back_char c st) None
      | None => run_reader s st None
      end
  end.

(* ---------- comparison used by the correspondence check *)
Fixpoint list_N_eqb (a b : list N) : bool :=
  match a, b with
  | [], [] => true
  | x :: a', y :: b' => (x =? y) && list_N_eqb a' b'
  | _, _ => false
  end.
Definition item_eqb (a b : item) : bool :=
  match a, b with
  | IChr x, IChr y => x =? y
  | IBad x, IBad y => list_N_eqb x y
  | IEof, IEof => true
  | _, _ => false           (* IPanic never equals anything *)
  end.
Fixpoint items_eqb (a b : list item) : bool :=
  match a, b with
  | [], [] => true
  | x :: a', y :: b' => item_eqb x y && items_eqb a' b'
  | _, _ => false
  end.
(* observed: what the implementation returned for (chunks, script) *)
Definition check_reader (chunks : list (list N)) (script : list op) (observed : list item) : bool :=
  items_eqb (run_reader script (init chunks) None) observed
  && items_eqb (run_spec script (concat chunks) None) observed.
