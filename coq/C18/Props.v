(* C18 -- pinned property theorems (nothing else lives here) *)
From Coq Require Import List NArith Bool.
From V Require Import C18.Model C18.Proofs.
Import ListNotations.
Open Scope N_scope.

(* For every byte string, every way of splitting it into non-empty read chunks and every script of
   peek / read / put-back operations, the mirror of CharReader delivers exactly the items of the reference
   decoding of the whole byte string (characters, and each invalid sequence as the same bad bytes at the
   same position). *)
Theorem chunking_independent : forall chunks script,
  Forall (fun c => c <> []) chunks ->
  run_reader script (init chunks) None = run_spec script (concat chunks) None.
Proof. exact chunking_independent_proof. Qed.
Print Assumptions chunking_independent.

(* Decoding never reaches one of the panicking paths of the implementation (drain with start > end,
   expect_err / assert_eq / expect inside bad_bytes_error). *)
Theorem never_panics : forall chunks script,
  Forall (fun c => c <> []) chunks -> ~ In IPanic (run_reader script (init chunks) None).
Proof. exact never_panics_proof. Qed.
Print Assumptions never_panics.

(* peeking does not consume: it returns the first item of what is still to come and leaves that unchanged *)
Theorem peek_does_not_consume : forall st, Inv st ->
  fst (peek_char st) = fst (first_item (rem st)) /\ rem (snd (peek_char st)) = rem st /\ Inv (snd (peek_char st)).
Proof. intros st H. destruct (peek_char_correct st H) as (A & B & C & _). auto. Qed.
Print Assumptions peek_does_not_consume.

(* putting a character back makes its encoding the next bytes to be read *)
Theorem put_back_prepends : forall c st, Inv st ->
  rem (put_back_char c st) = encode_utf8 c ++ rem st /\ Inv (put_back_char c st).
Proof. exact put_back_char_correct. Qed.
Print Assumptions put_back_prepends.

(* the reference decoding inverts the UTF-8 encoder on every Unicode scalar value *)
Theorem decode_encode : forall c l, scalar c -> decode1 (encode_utf8 c ++ l) = DChar c (len_utf8 c).
Proof. exact decode_encode_proof. Qed.
Print Assumptions decode_encode.

(* non-vacuity: the chunkings on which the unrepaired reader panicked *)
Example ex_split_astral :
  run_reader [ORead; ORead; OPeek; ORead; ORead; ORead] (init [[97; 98; 240; 159; 152]; [128; 99]]) None
  = [IChr 97; IChr 98; IChr 128512; IChr 128512; IChr 99; IEof].
Proof. vm_compute. reflexivity. Qed.
Example ex_truncated_at_end :
  run_reader [ORead; ORead; ORead; ORead] (init [[97; 98; 240]]) None = [IChr 97; IChr 98; IBad [240]; IEof].
Proof. vm_compute. reflexivity. Qed.
Example ex_put_back :
  run_reader [ORead; OPutBack; ORead; ORead] (init [[195]; [169; 65]]) None = [IChr 233; IChr 233; IChr 65].
Proof. vm_compute. reflexivity. Qed.
