(* Engine/Sld.v -- fuelled REFERENCE INTERPRETER for ISO Prolog control over V.Base.Term terms.

   ===================================== INTERFACE =====================================
   program   := list clause,  clause := (head, body) : term * term.  Clause variables are
                numbered from 0 in every clause (any numbering works; they are renamed apart
                by adding the run-time counter).  Facts have body  Atom "true".
   solve fuel prog query template : result
       result := NoFuel | Stuck reason | Done answers ball log | Prefix answers log
       answers : list term   -- the instances of `template` (a term listing the query variables,
                                with the answer substitution applied; unbound variables are `Var n`
                                with arbitrary numbers: compare modulo `canon`) in solution order,
                                produced before exhaustion or before an uncaught exception
       ball    : option term -- the uncaught exception, if any (builtin errors are error(Formal, ctx))
       log     : list term   -- the arguments of every executed `log(T)` goal, in execution order
                                (a side effect that survives backtracking: stands for assertz / bb_put logging)
       Stuck r : the run needs a cyclic binding (ACyclic: unification is done with occurs check only to keep substitutions
                 idempotent) or an unsupported construct;  Prefix a l : the run stopped at an arithmetic error whose kind is
                 ambiguous (several error sources in one expression, see eval_all): a and l are prefixes of the true answers/log
   check_run fuel prog query template cap observed_answers observed_ball observed_log : N
       0 equal, 1 different, 2 NoFuel, 3 Stuck, 4 more than cap answers, 5 agrees on the Prefix  (observed terms variant-normalised,
       error contexts replaced by `ctx`); default_fuel = 300
   solve_raw  : the same run as an `outcome` = (list event, signal)   (events: EAns t | ELog t)
   exec fuel prog goal cutbarrier state continuation : outcome  -- the interpreter itself
   exec_step  : one unfolding of exec over an arbitrary `exec_t` for the subgoals
                (exec (S n) prog = exec_step (exec n prog) prog; all control laws are stated on it)
   canon t    : variables renamed 0,1,2.. by first occurrence (variant normal form)
   nm "text"  : the name (list of code points) of an atom/functor
   lcompare   : standard order restricted to Var < Int < Atom < Cmp (arity, name, args)

   Fuel bounds the DEPTH of the interpretation (syntactic nesting + call depth), not the number of steps:
   any non-terminating run needs unbounded depth, so `NoFuel` is reported for it; `solve_fuel_mono`
   (SldProofs.v) shows that a result other than NoFuel is independent of the fuel.

   Semantics (success-continuation style; "depth-first, left-to-right" is the evaluation order of `seq`):
     exec g cb s k  runs goal g in backtrackable state s (substitution + fresh-name counter), calls k on every
     solution in order, and returns the events emitted (answers, log entries) together with a signal:
       SNorm        all alternatives exhausted (the caller may try its next alternative)
       SCut id      a cut belonging to the clause/call frame `id` was executed: alternatives up to that frame are dropped
       SCommit id s the condition of an if-then-else / \+ / once succeeded with state s
       SExc b tag   exception b travelling to the innermost catch/3 (tag = the catch frame whose *continuation* raised it:
                    that catch does not handle it)
       SAbort r     NoFuel / cyclic binding / unsupported construct: aborts the whole run
     `!` is local to the clause body; the arguments of call/N, \+, the condition of ->, catch/3, findall/3,.. are
     opaque to cut (they get a fresh frame id).
   Goals: true fail false ! ,/2 ;/2 ->/2 \+ /1 call/1..8 once/1 =/2 \=/2 ==/2 \==/2 var nonvar atom integer atomic compound
          callable number is/2 < =< > >= =:= =\= (over Z: + - * // unary -) catch/3 throw/1 findall/3 findall/4 bagof/3 setof/3
          ^/2 forall/2 setup_call_cleanup/3 (restricted, see exec_step) log/1 and user predicates.
   =================================================================================== *)
From Coq Require Import ZArith NArith List Bool String Ascii.
From V Require Import Base.Term.
Import ListNotations.
Open Scope N_scope.

(* ------------------------------------------------------------------ names *)
Fixpoint nm (s : string) : list N :=
  match s with EmptyString => [] | String a r => N_of_ascii a :: nm r end.

Definition n_true := Eval compute in nm "true".
Definition n_fail := Eval compute in nm "fail".
Definition n_false := Eval compute in nm "false".
Definition n_cut := Eval compute in nm "!".
Definition n_comma := Eval compute in nm ",".
Definition n_semi := Eval compute in nm ";".
Definition n_arrow := Eval compute in nm "->".
Definition n_naf := Eval compute in nm "\+".
Definition n_call := Eval compute in nm "call".
Definition n_once := Eval compute in nm "once".
Definition n_unify := Eval compute in nm "=".
Definition n_nunify := Eval compute in nm "\=".
Definition n_eq := Eval compute in nm "==".
Definition n_neq := Eval compute in nm "\==".
Definition n_var := Eval compute in nm "var".
Definition n_nonvar := Eval compute in nm "nonvar".
Definition n_atom := Eval compute in nm "atom".
Definition n_integer := Eval compute in nm "integer".
Definition n_atomic := Eval compute in nm "atomic".
Definition n_compound := Eval compute in nm "compound".
Definition n_callable := Eval compute in nm "callable".
Definition n_number := Eval compute in nm "number".
Definition n_is := Eval compute in nm "is".
Definition n_lt := Eval compute in nm "<".
Definition n_le := Eval compute in nm "=<".
Definition n_gt := Eval compute in nm ">".
Definition n_ge := Eval compute in nm ">=".
Definition n_aeq := Eval compute in nm "=:=".
Definition n_ane := Eval compute in nm "=\=".
Definition n_catch := Eval compute in nm "catch".
Definition n_throw := Eval compute in nm "throw".
Definition n_findall := Eval compute in nm "findall".
Definition n_bagof := Eval compute in nm "bagof".
Definition n_setof := Eval compute in nm "setof".
Definition n_caret := Eval compute in nm "^".
Definition n_forall := Eval compute in nm "forall".
Definition n_scc := Eval compute in nm "setup_call_cleanup".
Definition n_log := Eval compute in nm "log".
Definition n_plus := Eval compute in nm "+".
Definition n_minus := Eval compute in nm "-".
Definition n_times := Eval compute in nm "*".
Definition n_idiv := Eval compute in nm "//".
Definition n_slash := Eval compute in nm "/".
Definition n_error := Eval compute in nm "error".
Definition n_ctx := Eval compute in nm "ctx".
Definition n_inst := Eval compute in nm "instantiation_error".
Definition n_type_error := Eval compute in nm "type_error".
Definition n_existence_error := Eval compute in nm "existence_error".
Definition n_evaluation_error := Eval compute in nm "evaluation_error".
Definition n_zero_divisor := Eval compute in nm "zero_divisor".
Definition n_procedure := Eval compute in nm "procedure".
Definition n_evaluable := Eval compute in nm "evaluable".
Definition n_callable_t := Eval compute in nm "callable".
Definition n_list := Eval compute in nm "list".
Definition n_w := Eval compute in nm "$w".

Definition t_true : term := Atom n_true.
Definition t_fail : term := Atom n_fail.

(* ------------------------------------------------------------------ substitutions (idempotent) *)
Definition subst := list (N * term).

Fixpoint lookup (s : subst) (v : N) : option term :=
  match s with
  | [] => None
  | (x, t) :: r => if N.eqb x v then Some t else lookup r v
  end.

Fixpoint apply (s : subst) (t : term) : term :=
  match t with
  | Var v => match lookup s v with Some u => u | None => t end
  | Cmp f args => Cmp f (map (apply s) args)
  | _ => t
  end.

(* replace one variable *)
Fixpoint subst1 (x : N) (u : term) (t : term) : term :=
  match t with
  | Var v => if N.eqb v x then u else t
  | Cmp f args => Cmp f (map (subst1 x u) args)
  | _ => t
  end.

Definition bind (x : N) (u : term) (s : subst) : subst :=
  (x, u) :: map (fun p => (fst p, subst1 x u (snd p))) s.

Fixpoint occurs (x : N) (t : term) : bool :=
  match t with
  | Var v => N.eqb v x
  | Cmp _ args => existsb (occurs x) args
  | _ => false
  end.

Definition walk (s : subst) (t : term) : term :=
  match t with
  | Var v => match lookup s v with Some u => u | None => t end
  | _ => t
  end.

Inductive areason := ANoFuel | ACyclic | AUnifyFuel | AUnsupported | AAmbiguous.
Inductive ures := UOk (s : subst) | UFail | UAbort (r : areason).

Fixpoint zip_terms (a b : list term) : list (term * term) :=
  match a, b with
  | x :: a', y :: b' => (x, y) :: zip_terms a' b'
  | _, _ => []
  end.

Definition atomic_eqb (a b : term) : bool :=
  match a, b with
  | Int x, Int y => Z.eqb x y
  | Rat n d, Rat n' d' => Z.eqb n n' && Z.eqb d d'
  | Flt x, Flt y => Z.eqb x y
  | Atom x, Atom y => name_eqb x y
  | _, _ => false
  end.

(* Robinson unification with occurs check over a work list.  The occurs check only serves to keep the
   substitution idempotent: a cyclic binding aborts the run (ACyclic) instead of building an infinite term. *)
Fixpoint unify (fuel : nat) (s : subst) (wl : list (term * term)) : ures :=
  match fuel with
  | O => UAbort AUnifyFuel
  | S k =>
    match wl with
    | [] => UOk s
    | (a, b) :: r =>
      let a' := walk s a in
      let b' := walk s b in
      match a', b' with
      | Var x, Var y => if N.eqb x y then unify k s r else unify k (bind x b' s) r
      | Var x, _ => let t := apply s b' in
                    if occurs x t then UAbort ACyclic else unify k (bind x t s) r
      | _, Var y => let t := apply s a' in
                    if occurs y t then UAbort ACyclic else unify k (bind y t s) r
      | Cmp f xs, Cmp g ys =>
          if name_eqb f g && Nat.eqb (List.length xs) (List.length ys) then unify k s (zip_terms xs ys ++ r) else UFail
      | _, _ => if atomic_eqb a' b' then unify k s r else UFail
      end
    end
  end.

Definition ufuel : nat := 4000.

(* ------------------------------------------------------------------ variables, renaming *)
Fixpoint nvars (t : term) : N :=          (* 1 + the largest variable number, 0 if ground *)
  match t with
  | Var v => v + 1
  | Cmp _ args => fold_right (fun x m => N.max (nvars x) m) 0 args
  | _ => 0
  end.

Fixpoint shift (c : N) (t : term) : term :=
  match t with
  | Var v => Var (v + c)
  | Cmp f args => Cmp f (map (shift c) args)
  | _ => t
  end.

Fixpoint memN (x : N) (l : list N) : bool :=
  match l with [] => false | y :: r => N.eqb x y || memN x r end.

(* distinct variables in first-occurrence order, appended to acc *)
Fixpoint tvars (t : term) (acc : list N) : list N :=
  match t with
  | Var v => if memN v acc then acc else acc ++ [v]
  | Cmp _ args => (fix go (l : list term) (a : list N) : list N :=
                     match l with [] => a | x :: r => go r (tvars x a) end) args acc
  | _ => acc
  end.

Fixpoint index_of (x : N) (l : list N) (i : N) : N :=
  match l with [] => i | y :: r => if N.eqb x y then i else index_of x r (i + 1) end.

Fixpoint rename_by (vs : list N) (t : term) : term :=
  match t with
  | Var v => Var (index_of v vs 0)
  | Cmp f args => Cmp f (map (rename_by vs) args)
  | _ => t
  end.

Definition canon (t : term) : term := rename_by (tvars t []) t.
Definition variant (a b : term) : bool := term_eqb (canon a) (canon b).

(* ------------------------------------------------------------------ standard order (restricted) *)
Fixpoint name_compare (a b : list N) : comparison :=
  match a, b with
  | [], [] => Eq
  | [], _ => Lt
  | _, [] => Gt
  | x :: a', y :: b' => match N.compare x y with Eq => name_compare a' b' | c => c end
  end.

Definition rank (t : term) : N :=
  match t with Var _ => 0 | Flt _ => 1 | Rat _ _ => 1 | Int _ => 1 | Atom _ => 3 | Cmp _ _ => 4 end.

Fixpoint lcompare (a b : term) : comparison :=
  match a, b with
  | Var x, Var y => N.compare x y
  | Int x, Int y => Z.compare x y
  | Atom x, Atom y => name_compare x y
  | Cmp f xs, Cmp g ys =>
      match Nat.compare (List.length xs) (List.length ys) with
      | Eq => match name_compare f g with
              | Eq => (fix go (l l' : list term) : comparison :=
                         match l, l' with
                         | [], [] => Eq
                         | [], _ => Lt
                         | _, [] => Gt
                         | x :: r, y :: r' => match lcompare x y with Eq => go r r' | c => c end
                         end) xs ys
              | c => c
              end
      | c => c
      end
  | _, _ => N.compare (rank a) (rank b)
  end.

Definition leb_term (a b : term) : bool := match lcompare a b with Gt => false | _ => true end.

(* stable insertion sort by a key *)
Fixpoint insert_by (key : term -> term) (x : term) (l : list term) : list term :=
  match l with
  | [] => [x]
  | y :: r => match lcompare (key x) (key y) with
              | Lt => x :: l
              | _ => y :: insert_by key x r
              end
  end.
Definition sort_by (key : term -> term) (l : list term) : list term :=
  fold_left (fun acc x => insert_by key x acc) l [].

(* sort with removal of duplicates (== standard order equality) *)
Fixpoint insert_dedup (x : term) (l : list term) : list term :=
  match l with
  | [] => [x]
  | y :: r => match lcompare x y with
              | Lt => x :: l
              | Eq => l
              | Gt => y :: insert_dedup x r
              end
  end.
Definition sort_dedup (l : list term) : list term := fold_left (fun acc x => insert_dedup x acc) l [].

(* ------------------------------------------------------------------ machine state, events, signals *)
Record bst := mkst { sub : subst; ctr : N }.
Definition bump (s : bst) : bst := mkst (sub s) (ctr s + 1).

Inductive event := EAns (t : term) | ELog (t : term).

Inductive signal :=
| SNorm
| SCut (id : N)
| SCommit (id : N) (s : bst)
| SExc (b : term) (pass : option N)
| SAbort (r : areason).

Definition outcome := (list event * signal)%type.
Definition kont := bst -> outcome.
Definition exec_t := term -> N -> bst -> kont -> outcome.

Definition pre (ev : list event) (o : outcome) : outcome := (ev ++ fst o, snd o).

(* sequencing of alternatives: the second one runs only if the first ended normally *)
Definition seq (o : outcome) (k : unit -> outcome) : outcome :=
  match snd o with
  | SNorm => pre (fst o) (k tt)
  | _ => o
  end.

Definition uncut (id : N) (o : outcome) : outcome :=
  match snd o with
  | SCut id' => if N.eqb id' id then (fst o, SNorm) else o
  | _ => o
  end.

Definition tag (id : N) (o : outcome) : outcome :=
  match snd o with
  | SExc b None => (fst o, SExc b (Some id))
  | _ => o
  end.

Definition mkerr (formal : term) : term := Cmp n_error [formal; Atom n_ctx].
Definition throw_out (b : term) : outcome := ([], SExc b None).
Definition inst_error : term := Atom n_inst.
Definition type_error (ty : list N) (culprit : term) : term := Cmp n_type_error [Atom ty; culprit].
Definition pred_ind (f : list N) (n : nat) : term := Cmp n_slash [Atom f; Int (Z.of_nat n)].

(* ------------------------------------------------------------------ goal classification *)
Inductive tytest := TVar | TNonvar | TAtom | TInteger | TAtomic | TCompound | TCallable | TNumber.
Inductive cmpop := CLt | CLe | CGt | CGe | CEq | CNe.

Inductive detk :=
| DUnify (a b : term) | DNotUnify (a b : term) | DEq (a b : term) | DNeq (a b : term)
| DType (ty : tytest) (a : term) | DIs (a b : term) | DCmp (op : cmpop) (a b : term).

Inductive gk :=
| GTrue | GFail | GCut
| GConj (a b : term) | GDisj (a b : term) | GIte (c t e : term) | GNaf (g : term)
| GCall (g : term) (extra : list term)
| GUser (f : list N) (args : list term)
| GDet (d : detk)
| GLog (t : term) | GThrow (t : term)
| GCatch (g c r : term)
| GFindall (t g l : term) | GFindall4 (t g l tl : term)
| GBagof (set : bool) (t g l : term)
| GForall (c a : term)
| GScc (st g c : term)
| GBad (t : term).

Inductive fk :=
| FTrue | FFail | FCutK | FComma | FSemi | FArrow | FNaf | FCallK | FOnce | FUnify | FNunify | FEq | FNeq
| FTy (ty : tytest) | FIs | FCmp (op : cmpop) | FCatch | FThrow | FFindall | FBagof | FSetof | FCaret | FForall | FScc | FLog
| FOther.

Definition ftable : list (list N * fk) :=
  [ (n_comma, FComma); (n_unify, FUnify); (n_true, FTrue); (n_fail, FFail); (n_false, FFail); (n_cut, FCutK);
    (n_semi, FSemi); (n_arrow, FArrow); (n_naf, FNaf); (n_call, FCallK); (n_once, FOnce);
    (n_nunify, FNunify); (n_eq, FEq); (n_neq, FNeq);
    (n_var, FTy TVar); (n_nonvar, FTy TNonvar); (n_atom, FTy TAtom); (n_integer, FTy TInteger);
    (n_atomic, FTy TAtomic); (n_compound, FTy TCompound); (n_callable, FTy TCallable); (n_number, FTy TNumber);
    (n_is, FIs); (n_lt, FCmp CLt); (n_le, FCmp CLe); (n_gt, FCmp CGt); (n_ge, FCmp CGe); (n_aeq, FCmp CEq); (n_ane, FCmp CNe);
    (n_catch, FCatch); (n_throw, FThrow); (n_findall, FFindall); (n_bagof, FBagof); (n_setof, FSetof);
    (n_caret, FCaret); (n_forall, FForall); (n_scc, FScc); (n_log, FLog) ].

Fixpoint fid_in (tb : list (list N * fk)) (f : list N) : fk :=
  match tb with
  | [] => FOther
  | (n, k) :: r => if name_eqb f n then k else fid_in r f
  end.
Definition fid (f : list N) : fk := fid_in ftable f.

Definition is_arrow (t : term) : option (term * term) :=
  match t with
  | Cmp f [c; th] => if name_eqb f n_arrow then Some (c, th) else None
  | _ => None
  end.

Definition classify (t : term) : gk :=
  match t with
  | Var _ => GCall t []
  | Atom f => match fid f with
              | FTrue => GTrue
              | FFail => GFail
              | FCutK => GCut
              | _ => GUser f []
              end
  | Cmp f args =>
      match fid f, args with
      | FComma, [a; b] => GConj a b
      | FSemi, [a; b] => match is_arrow a with Some (c, th) => GIte c th b | None => GDisj a b end
      | FArrow, [c; th] => GIte c th t_fail
      | FNaf, [g] => GNaf g
      | FCallK, g :: extra => GCall g extra
      | FOnce, [g] => GIte g t_true t_fail
      | FUnify, [a; b] => GDet (DUnify a b)
      | FNunify, [a; b] => GDet (DNotUnify a b)
      | FEq, [a; b] => GDet (DEq a b)
      | FNeq, [a; b] => GDet (DNeq a b)
      | FTy ty, [a] => GDet (DType ty a)
      | FIs, [a; b] => GDet (DIs a b)
      | FCmp op, [a; b] => GDet (DCmp op a b)
      | FCatch, [g; c; r] => GCatch g c r
      | FThrow, [b] => GThrow b
      | FFindall, [tm; g; l] => GFindall tm g l
      | FFindall, [tm; g; l; tl] => GFindall4 tm g l tl
      | FBagof, [tm; g; l] => GBagof false tm g l
      | FSetof, [tm; g; l] => GBagof true tm g l
      | FCaret, [_; g] => GCall g []
      | FForall, [c; a] => GForall c a
      | FScc, [st; g; c] => GScc st g c
      | FLog, [a] => GLog a
      | _, _ => GUser f args
      end
  | _ => GBad t
  end.

(* ------------------------------------------------------------------ deterministic builtins *)
Inductive dres := DSucc (s : bst) | DFail | DExc (b : term) | DStuck (r : areason).

Inductive eres := EVal (z : Z) | EErr (formal : term) | EAmb | EStuck.

(* Evaluation collects every error source of the expression (None = a non-evaluable compound, e.g. a list).
   ISO does not fix the order in which the errors of one expression are detected (and the implementation's compiled and
   interpreted evaluators differ): an expression with exactly one error source raises that error; with several, or with a
   non-evaluable compound whose arguments may be inspected first, the error is reported as ambiguous (EAmb). *)
Fixpoint eval_all (t : term) : option Z * list (option term) :=
  match t with
  | Var _ => (None, [Some inst_error])
  | Int z => (Some z, [])
  | Atom f => (None, [Some (type_error n_evaluable (pred_ind f 0))])
  | Cmp f [a] =>
      if name_eqb f n_minus then let (v, e) := eval_all a in (option_map Z.opp v, e)
      else if name_eqb f n_plus then eval_all a
      else (None, [None])
  | Cmp f [a; b] =>
      let (va, ea) := eval_all a in
      let (vb, eb) := eval_all b in
      let bin (op : Z -> Z -> Z) := (match va, vb with Some x, Some y => Some (op x y) | _, _ => None end, ea ++ eb) in
      if name_eqb f n_plus then bin Z.add
      else if name_eqb f n_minus then bin Z.sub
      else if name_eqb f n_times then bin Z.mul
      else if name_eqb f n_idiv then
        match va, vb with
        | Some x, Some y => if Z.eqb y 0 then (None, ea ++ eb ++ [Some (Cmp n_evaluation_error [Atom n_zero_divisor])])
                            else (Some (Z.quot x y), ea ++ eb)
        | _, Some y => if Z.eqb y 0 then (None, ea ++ eb ++ [None]) else (None, ea ++ eb)
        | _, _ => (None, ea ++ eb)
        end
      else (None, [None])
  | Cmp _ _ => (None, [None])
  | _ => (None, [None; None])
  end.

Definition eval (t : term) : eres :=      (* t: substitution already applied *)
  match eval_all t with
  | (Some z, []) => EVal z
  | (_, [Some f]) => EErr f
  | (None, []) => EStuck
  | _ => EAmb
  end.

Definition cmp_holds (op : cmpop) (x y : Z) : bool :=
  match op with
  | CLt => Z.ltb x y | CLe => Z.leb x y | CGt => Z.ltb y x | CGe => Z.leb y x
  | CEq => Z.eqb x y | CNe => negb (Z.eqb x y)
  end.

Definition type_holds (ty : tytest) (t : term) : bool :=
  match ty, t with
  | TVar, Var _ => true
  | TVar, _ => false
  | TNonvar, Var _ => false
  | TNonvar, _ => true
  | TAtom, Atom _ => true
  | TInteger, Int _ => true
  | TAtomic, (Int _ | Rat _ _ | Flt _ | Atom _) => true
  | TCompound, Cmp _ _ => true
  | TCallable, (Atom _ | Cmp _ _) => true
  | TNumber, (Int _ | Rat _ _ | Flt _) => true
  | _, _ => false
  end.

Definition unify_st (s : bst) (a b : term) : dres :=
  match unify ufuel (sub s) [(a, b)] with
  | UOk s' => DSucc (mkst s' (ctr s))
  | UFail => DFail
  | UAbort r => DStuck r
  end.

Definition run_det (d : detk) (s : bst) : dres :=
  match d with
  | DUnify a b => unify_st s a b
  | DNotUnify a b => match unify_st s a b with DSucc _ => DFail | DFail => DSucc s | x => x end
  | DEq a b => if term_eqb (apply (sub s) a) (apply (sub s) b) then DSucc s else DFail
  | DNeq a b => if term_eqb (apply (sub s) a) (apply (sub s) b) then DFail else DSucc s
  | DType ty a => if type_holds ty (walk (sub s) a) then DSucc s else DFail
  | DIs a b => match eval (apply (sub s) b) with
               | EVal z => unify_st s a (Int z)
               | EErr f => DExc (mkerr f)
               | EAmb => DStuck AAmbiguous
               | EStuck => DStuck AUnsupported
               end
  | DCmp op a b =>
      (* both sides belong to one goal: their error sources are pooled *)
      match eval_all (apply (sub s) a), eval_all (apply (sub s) b) with
      | (Some x, []), (Some y, []) => if cmp_holds op x y then DSucc s else DFail
      | (_, ea), (_, eb) => match ea ++ eb with
                            | [Some f] => DExc (mkerr f)
                            | [] => DStuck AUnsupported
                            | _ => DStuck AAmbiguous
                            end
      end
  end.

(* ------------------------------------------------------------------ programs *)
Definition clause := (term * term)%type.
Definition program := list clause.

Definition head_key (h : term) : option (list N * nat) :=
  match h with
  | Atom f => Some (f, O)
  | Cmp f args => Some (f, List.length args)
  | _ => None
  end.
Definition head_args (h : term) : list term := match h with Cmp _ args => args | _ => [] end.

Definition has_key (f : list N) (n : nat) (c : clause) : bool :=
  match head_key (fst c) with
  | Some (g, m) => name_eqb f g && Nat.eqb n m
  | None => false
  end.

(* the clauses of one predicate, in program order: the only way the interpreter looks at the program *)
Definition clauses_of (p : program) (f : list N) (n : nat) : list clause := filter (has_key f n) p.

Definition clause_nvars (c : clause) : N := N.max (nvars (fst c)) (nvars (snd c)).

(* resolution of a call against the clauses of its predicate, in order; `id` is the cut barrier of the bodies *)
Fixpoint try_clauses (ex : exec_t) (cls : list clause) (args : list term) (id : N) (s : bst) (k : kont) : outcome :=
  match cls with
  | [] => ([], SNorm)
  | c :: rest =>
      let c0 := ctr s in
      match unify ufuel (sub s) (zip_terms (map (shift c0) (head_args (fst c))) args) with
      | UOk s' =>
          let o := ex (shift c0 (snd c)) id (mkst s' (c0 + clause_nvars c)) k in
          match snd o with
          | SNorm => pre (fst o) (try_clauses ex rest args id s k)
          | SCut id' => if N.eqb id' id then (fst o, SNorm) else o
          | _ => o
          end
      | UFail => try_clauses ex rest args id s k
      | UAbort r => ([], SAbort r)
      end
  end.

(* ------------------------------------------------------------------ call/N *)
Definition add_args (g : term) (extra : list term) : term + term :=
  match g with
  | Var _ => inr inst_error
  | Atom f => inl (match extra with [] => g | _ => Cmp f extra end)
  | Cmp f args => inl (Cmp f (args ++ extra))
  | _ => inr (type_error n_callable_t g)
  end.

(* ISO 7.6.2: a term can be converted to a body iff the arguments of its control constructs , ; -> are
   variables or callable, recursively *)
Fixpoint body_ok (t : term) : bool :=
  match t with
  | Var _ | Atom _ => true
  | Cmp f [a; b] =>
      if name_eqb f n_comma || name_eqb f n_semi || name_eqb f n_arrow then body_ok a && body_ok b else true
  | Cmp _ _ => true
  | _ => false
  end.

(* call/N: the goal is instantiated, extended by the extra arguments, checked, and run with a fresh cut barrier *)
Definition do_call (ex : exec_t) (g : term) (extra : list term) (s : bst) (k : kont) : outcome :=
  match add_args (apply (sub s) g) extra with
  | inl goal =>
      if body_ok goal then let id := ctr s in uncut id (ex goal id (bump s) k)
      else throw_out (mkerr (type_error n_callable_t goal))
  | inr formal => throw_out (mkerr formal)
  end.

(* ------------------------------------------------------------------ all-solutions helpers *)
Fixpoint split_events (ev : list event) : list term * list event :=
  match ev with
  | [] => ([], [])
  | EAns t :: r => let (a, o) := split_events r in (t :: a, o)
  | e :: r => let (a, o) := split_events r in (a, e :: o)
  end.

(* fresh copies of the collected instances, numbered from c *)
Fixpoint copies (c : N) (l : list term) : list term * N :=
  match l with
  | [] => ([], c)
  | t :: r => let (r', c') := copies (c + nvars t) r in (shift c t :: r', c')
  end.

Definition unify_k (s : bst) (a b : term) (evs : list event) (k : kont) : outcome :=
  match unify ufuel (sub s) [(a, b)] with
  | UOk s' => pre evs (k (mkst s' (ctr s)))
  | UFail => (evs, SNorm)
  | UAbort r => (evs, SAbort r)
  end.

(* a list or a partial list *)
Fixpoint plist_ok (fuel : nat) (t : term) : bool :=
  match fuel with
  | O => false
  | S k => match t with
           | Var _ => true
           | Atom f => name_eqb f nil_name
           | Cmp f [_; r] => name_eqb f dot && plist_ok k r
           | _ => false
           end
  end.
Definition can_be_list (t : term) : bool := plist_ok (S (term_size t)) t.

(* V1^V2^...^G : the existential variables and the goal *)
Fixpoint strip_carets (fuel : nat) (g : term) (ev : list N) : term * list N :=
  match fuel with
  | O => (g, ev)
  | S k => match g with
           | Cmp f [v; g'] => if name_eqb f n_caret then strip_carets k g' (tvars v ev) else (g, ev)
           | _ => (g, ev)
           end
  end.

Definition pair_key (p : term) : term := match p with Cmp _ [w; _] => w | _ => p end.
Definition pair_val (p : term) : term := match p with Cmp _ [_; v] => v | _ => p end.

(* split off the maximal prefix of pairs whose witness is a variant of w *)
Fixpoint take_group (w : term) (l : list term) : list term * list term :=
  match l with
  | [] => ([], [])
  | p :: r => if variant (pair_key p) w then let (g, rest) := take_group w r in (p :: g, rest) else ([], l)
  end.

(* groups of adjacent pairs with variant witnesses *)
Fixpoint groups (fuel : nat) (l : list term) : list (list term) :=
  match fuel with
  | O => []
  | S k => match l with
           | [] => []
           | p :: r => let (g, rest) := take_group (pair_key p) r in (p :: g) :: groups k rest
           end
  end.

(* one alternative per group: the witness term is unified with every witness of the group and the result
   with the list of template instances *)
Fixpoint try_groups (gs : list (list term)) (wt res : term) (s : bst) (k : kont) : outcome :=
  match gs with
  | [] => ([], SNorm)
  | g :: rest =>
      match unify ufuel (sub s) (map (fun p => (wt, pair_key p)) g ++ [(res, tlist (map pair_val g))]) with
      | UOk s' => seq (k (mkst s' (ctr s))) (fun _ => try_groups rest wt res s k)
      | UFail => try_groups rest wt res s k
      | UAbort r => ([], SAbort r)
      end
  end.

(* The witness variables of every solution are renamed to common fresh variables base, base+1, .. (first-occurrence order),
   throughout the pair: solutions whose witnesses are variants then have identical witnesses (ISO 8.10.2: they are unified),
   and the standard order compares witnesses up to this renaming (as the implementation does before its keysort). *)
Fixpoint rename_from (vs : list N) (base : N) (t : term) : term :=
  match t with
  | Var v => if memN v vs then Var (base + index_of v vs 0) else t
  | Cmp f args => Cmp f (map (rename_from vs base) args)
  | _ => t
  end.
Definition share_witness (base : N) (p : term) : term := rename_from (tvars (pair_key p) []) base p.
Definition witness_width (l : list term) : N :=
  fold_right (fun p m => N.max (N.of_nat (List.length (tvars (pair_key p) []))) m) 0 l.

Definition diffN (a b : list N) : list N := filter (fun x => negb (memN x b)) a.

(* goals whose execution leaves no choice point (used only by setup_call_cleanup) *)
Fixpoint det_syn (fuel : nat) (g : term) : bool :=
  match fuel with
  | O => false
  | S k => match classify g with
           | GTrue | GFail | GDet _ | GLog _ | GThrow _ | GNaf _ => true
           | GConj a b => det_syn k a && det_syn k b
           | GIte _ t e => det_syn k t && det_syn k e
           | _ => false
           end
  end.

(* ------------------------------------------------------------------ the constructs, one definition each *)
Definition commit_k (id : N) : kont := fun s' => ([], SCommit id s').

(* (C -> T ; E): C is run with its own cut barrier and a continuation that commits to its first solution *)
Definition do_ite (ex : exec_t) (c t e : term) (cb : N) (s : bst) (k : kont) : outcome :=
  let id := ctr s in
  let s1 := bump s in
  let o := ex c id s1 (commit_k id) in
  match snd o with
  | SCommit id' s' => if N.eqb id' id then pre (fst o) (ex t cb s' k) else o
  | SNorm => pre (fst o) (ex e cb s1 k)
  | SCut id' => if N.eqb id' id then pre (fst o) (ex e cb s1 k) else o
  | _ => o
  end.

Definition do_naf (ex : exec_t) (g1 : term) (s : bst) (k : kont) : outcome :=
  let id := ctr s in
  let s1 := bump s in
  let o := do_call ex g1 [] s1 (commit_k id) in
  match snd o with
  | SCommit id' _ => if N.eqb id' id then (fst o, SNorm) else o
  | SNorm => pre (fst o) (k s1)
  | _ => o
  end.

Definition do_user (ex : exec_t) (prog : program) (f : list N) (args : list term) (s : bst) (k : kont) : outcome :=
  match clauses_of prog f (List.length args) with
  | [] => throw_out (mkerr (Cmp n_existence_error [Atom n_procedure; pred_ind f (List.length args)]))
  | cls => try_clauses ex cls args (ctr s) (bump s) k
  end.

Definition do_det (d : detk) (s : bst) (k : kont) : outcome :=
  match run_det d s with
  | DSucc s' => k s'
  | DFail => ([], SNorm)
  | DExc b => throw_out b
  | DStuck r => ([], SAbort r)
  end.

Definition do_throw (b : term) (s : bst) : outcome :=
  match apply (sub s) b with
  | Var _ => throw_out (mkerr inst_error)
  | b' => throw_out b'
  end.

(* catch/3: the goal's continuation is tagged so that exceptions raised after the goal has exited are not handled here;
   the ball is a fresh copy; the substitution of the recovery is the one at the call of catch/3 (all later bindings undone) *)
Definition do_catch (ex : exec_t) (g1 c r : term) (s : bst) (k : kont) : outcome :=
  let id := ctr s in
  let s1 := bump s in
  let o := do_call ex g1 [] s1 (fun s' => tag id (k s')) in
  match snd o with
  | SExc b None =>
      let c0 := ctr s1 in
      match unify ufuel (sub s1) [(c, shift c0 b)] with
      | UOk s' => pre (fst o) (do_call ex r [] (mkst s' (c0 + nvars b)) k)
      | UFail => o
      | UAbort a => (fst o, SAbort a)
      end
  | SExc b (Some id') => if N.eqb id' id then (fst o, SExc b None) else o
  | _ => o
  end.

(* the ordered instances of `t` for the solutions of call(g1), plus the other events (log entries) of that run *)
Definition collect (ex : exec_t) (t g1 : term) (s : bst) : list term * list event * signal :=
  let o := do_call ex g1 [] s (fun s' => ([EAns (apply (sub s') t)], SNorm)) in
  let (anss, rest) := split_events (fst o) in
  (anss, rest, snd o).

(* findall/3 (tl = [] atom) and findall/4 *)
Definition do_findall (ex : exec_t) (t g1 l tl : term) (s : bst) (k : kont) : outcome :=
  if negb (can_be_list (apply (sub s) l)) then throw_out (mkerr (type_error n_list (apply (sub s) l))) else
  if negb (can_be_list (apply (sub s) tl)) then throw_out (mkerr (type_error n_list (apply (sub s) tl))) else
  match collect ex t g1 s with
  | (anss, rest, SNorm) => let (cs, c') := copies (ctr s) anss in unify_k (mkst (sub s) c') l (tlist_tail cs tl) rest k
  | (_, rest, x) => (rest, x)
  end.

(* bagof/3 (set = false) and setof/3: free-variable witness per ISO 7.1.1.4; solutions sorted by witness (keysort, stable)
   resp. sorted and deduplicated as pairs, then grouped by variant witnesses; one alternative per group *)
Definition do_bagof (ex : exec_t) (set : bool) (t g1 l : term) (s : bst) (k : kont) : outcome :=
  if negb (can_be_list (apply (sub s) l)) then throw_out (mkerr (type_error n_list (apply (sub s) l))) else
  let t' := apply (sub s) t in
  let g' := apply (sub s) g1 in
  let (g0, evars) := strip_carets (term_size g') g' [] in
  let wvars := diffN (diffN (tvars g' []) (tvars t' [])) evars in
  let wt := Cmp n_w (map Var wvars) in
  match collect ex (Cmp n_minus [wt; t']) g0 s with
  | (anss, rest, SNorm) =>
      let (cs0, c') := copies (ctr s) anss in
      let cs := map (share_witness c') cs0 in
      let sorted := if set then sort_dedup cs else sort_by pair_key cs in
      pre rest (try_groups (groups (List.length sorted) sorted) wt l (mkst (sub s) (c' + witness_width cs0)) k)
  | (_, rest, x) => (rest, x)
  end.

(* once(Cleanup), outcome ignored (except an abort of the run) *)
Definition run_cleanup (ex : exec_t) (c : term) (ev : list event) (sc : bst) (sg : signal) : outcome :=
  let oc := do_call ex c [] (bump sc) (commit_k (ctr sc)) in
  match snd oc with
  | SAbort r => (ev ++ fst oc, SAbort r)
  | _ => (ev ++ fst oc, sg)
  end.

(* setup_call_cleanup/3, restricted model: Setup is run once; if Goal is syntactically deterministic the cleanup runs right
   after its exit / failure / exception; otherwise it runs when the goal's frame is finally left (the exact moment between these
   for non-deterministic goals is not modelled). *)
Definition do_scc (ex : exec_t) (st g1 c : term) (s : bst) (k : kont) : outcome :=
  let id := ctr s in
  let o := do_call ex st [] (bump s) (commit_k id) in
  match snd o with
  | SCommit id' s2 =>
      if negb (N.eqb id' id) then o else
      if det_syn (term_size g1) g1 then
        let id2 := ctr s2 in
        let og := do_call ex g1 [] (bump s2) (commit_k id2) in
        match snd og with
        | SCommit id3 s3 =>
            if negb (N.eqb id3 id2) then pre (fst o) og else
            let oc := run_cleanup ex c (fst o ++ fst og) s3 SNorm in
            match snd oc with SNorm => pre (fst oc) (k s3) | _ => oc end
        | SAbort r => pre (fst o) og
        | sg => run_cleanup ex c (fst o ++ fst og) s2 sg
        end
      else
        let og := do_call ex g1 [] s2 k in
        match snd og with
        | SAbort r => pre (fst o) og
        | sg => run_cleanup ex c (fst o ++ fst og) s2 sg
        end
  | _ => o
  end.

(* ------------------------------------------------------------------ one step of the interpreter *)
Definition exec_step (ex : exec_t) (prog : program) (g : term) (cb : N) (s : bst) (k : kont) : outcome :=
  match classify g with
  | GTrue => k s
  | GFail => ([], SNorm)
  | GCut => let o := k s in (fst o, match snd o with SNorm => SCut cb | x => x end)
  | GConj a b => ex a cb s (fun s' => ex b cb s' k)
  | GDisj a b => seq (ex a cb s k) (fun _ => ex b cb s k)
  | GIte c t e => do_ite ex c t e cb s k
  | GNaf g1 => do_naf ex g1 s k
  | GCall g1 extra => do_call ex g1 extra s k
  | GUser f args => do_user ex prog f args s k
  | GDet d => do_det d s k
  | GLog t => pre [ELog (apply (sub s) t)] (k s)
  | GThrow b => do_throw b s
  | GCatch g1 c r => do_catch ex g1 c r s k
  | GFindall t g1 l => do_findall ex t g1 l tnil s k
  | GFindall4 t g1 l tl => do_findall ex t g1 l tl s k
  | GBagof set t g1 l => do_bagof ex set t g1 l s k
  | GForall c a => ex (Cmp n_naf [Cmp n_comma [c; Cmp n_naf [a]]]) cb s k
  | GScc st g1 c => do_scc ex st g1 c s k
  | GBad t => throw_out (mkerr (type_error n_callable_t t))
  end.

Fixpoint exec (n : nat) (prog : program) (g : term) (cb : N) (s : bst) (k : kont) {struct n} : outcome :=
  match n with
  | O => ([], SAbort ANoFuel)
  | S n' => exec_step (exec n' prog) prog g cb s k
  end.

(* ------------------------------------------------------------------ top level *)
Inductive result :=
| NoFuel
| Stuck (r : areason)
| Done (answers : list term) (ball : option term) (log : list term)
| Prefix (answers : list term) (log : list term).   (* the run stopped at an arithmetic error whose kind is ambiguous *)

Definition top_k (tmpl : term) : kont := fun s' => ([EAns (apply (sub s') tmpl)], SNorm).

Definition solve_raw (n : nat) (prog : program) (q tmpl : term) : outcome :=
  let c0 := N.max (nvars q) (nvars tmpl) in
  exec n prog q c0 (mkst [] (c0 + 1)) (top_k tmpl).

Fixpoint answers_of (ev : list event) : list term :=
  match ev with [] => [] | EAns t :: r => t :: answers_of r | _ :: r => answers_of r end.
Fixpoint log_of (ev : list event) : list term :=
  match ev with [] => [] | ELog t :: r => t :: log_of r | _ :: r => log_of r end.

Definition result_of (o : outcome) : result :=
  match snd o with
  | SAbort ANoFuel => NoFuel
  | SAbort AAmbiguous => Prefix (answers_of (fst o)) (log_of (fst o))
  | SAbort r => Stuck r
  | SExc b _ => Done (answers_of (fst o)) (Some b) (log_of (fst o))
  | _ => Done (answers_of (fst o)) None (log_of (fst o))
  end.

Definition solve (n : nat) (prog : program) (q tmpl : term) : result := result_of (solve_raw n prog q tmpl).

(* ------------------------------------------------------------------ comparison with an observed run *)
(* error contexts are not compared: error(F, _) is normalised to error(F, ctx) everywhere *)
Fixpoint norm_err (t : term) : term :=
  match t with
  | Cmp f args =>
      match args with
      | [a; _] => if name_eqb f n_error then Cmp f [norm_err a; Atom n_ctx] else Cmp f (map norm_err args)
      | _ => Cmp f (map norm_err args)
      end
  | _ => t
  end.
Definition normt (t : term) : term := canon (norm_err t).

Definition terms_eqb (a b : list term) : bool := list_eqb term_eqb a b.
Definition oball_eqb (a b : option term) : bool :=
  match a, b with
  | None, None => true
  | Some x, Some y => term_eqb x y
  | _, _ => false
  end.

Fixpoint is_prefix (a b : list term) : bool :=
  match a, b with
  | [], _ => true
  | x :: a', y :: b' => term_eqb x y && is_prefix a' b'
  | _, _ => false
  end.

(* 0 = the observed run equals the model's; 1 = it differs; 2 = model out of fuel; 3 = model stuck (cyclic/unsupported);
   4 = more than `cap` answers (case dropped); 5 = the model stopped at an ambiguous arithmetic error and the observed
   answers and log start with the model's.  The observed terms must be variant-normalised (terms.number_vars). *)
Definition check_run (n : nat) (prog : program) (q tmpl : term) (cap : nat)
           (answers : list term) (ball : option term) (log : list term) : N :=
  match solve n prog q tmpl with
  | NoFuel => 2
  | Stuck _ => 3
  | Prefix a l => if is_prefix (map normt a) answers && is_prefix (map normt l) log then 5 else 1
  | Done a b l =>
      if Nat.ltb cap (List.length a) then 4
      else if terms_eqb (map normt a) answers && oball_eqb (option_map normt b) ball && terms_eqb (map normt l) log
           then 0 else 1
  end.

Definition default_fuel : nat := 300.
