(* Engine/SldRel.v -- an INDUCTIVE (fuel-free, continuation-free) derivation semantics for the pure fragment of the
   reference interpreter Engine/Sld.v, to which SldRelProofs.v relates the fuelled interpreter `exec` / `solve`.

   Fragment ("pure goals", `pure_goal`): true, fail, false, (A , B), (A ; B) with A not an if-then, A = B, and calls of user
   predicates (any atom / compound whose name is not one of the reserved control / builtin names of `ftable`).
   No cut, no if-then-else, no \+, no call/N, no exceptions, no other builtins.

   answers_rel prog g s l : goal g started in state s (substitution + fresh-name counter) has exactly the answer states l,
   in this ORDER and with this MULTIPLICITY (textbook depth-first, left-to-right resolution, big-step, list-valued):
     ARTrue   [s]                         ARFail / ARFalse   []
     ARConj   the answers of A, then for each of them IN ORDER the answers of B, concatenated (answers_each)
     ARDisj   answers of A ++ answers of B
     ARUnify / ARNoUnify   the most general unifier (Sld.unify: Robinson with occurs check) or no answer
     ARUser   the clauses of the predicate in program order (answers_clauses): rename the clause apart, unify the head
              arguments with the call's arguments, run the body; concatenate over the clauses
   There is no fuel, no continuation, no signal, no cut barrier in this definition.  What it SHARES with the interpreter:
     * the unification function `unify ufuel` (a derivation exists only if unification does not abort: a cyclic
       binding or exhausted unification fuel leaves the goal without derivation, like the interpreter's Stuck);
     * the renaming-apart convention: states carry the fresh-name counter `ctr`; a user call bumps it by one (the
       interpreter's frame id) and a clause tried at counter c has its variables v renamed to v + c, after which the
       counter is c + clause_nvars.  Because the convention is the same, the theorems are EXACT equalities of answer
       lists, not equalities up to variants.
   A user predicate without clauses has no derivation (the interpreter raises existence_error: outside the fragment). *)
From Coq Require Import ZArith NArith List Bool.
From V Require Import Base.Term Engine.Sld.
Import ListNotations.
Open Scope N_scope.

(* a call of a user predicate: the name is not reserved *)
Definition user_goal (g : term) : option (list N * list term) :=
  match g with
  | Atom f => match fid f with FOther => Some (f, []) | _ => None end
  | Cmp f args => match fid f with FOther => Some (f, args) | _ => None end
  | _ => None
  end.

Inductive pure_goal : term -> Prop :=
| PTrue : pure_goal (Atom n_true)
| PFail : pure_goal (Atom n_fail)
| PFalse : pure_goal (Atom n_false)
| PConj : forall a b, pure_goal a -> pure_goal b -> pure_goal (Cmp n_comma [a; b])
| PDisj : forall a b, pure_goal a -> pure_goal b -> pure_goal (Cmp n_semi [a; b])
| PUnify : forall a b, pure_goal (Cmp n_unify [a; b])
| PUser : forall g f args, user_goal g = Some (f, args) -> pure_goal g.

Definition pure_prog (p : program) : Prop := Forall (fun c => pure_goal (snd c)) p.

(* head unification of clause c, renamed apart by the counter of s, against the arguments of the call *)
Definition head_unify (c : clause) (args : list term) (s : bst) : ures :=
  unify ufuel (sub s) (zip_terms (map (shift (ctr s)) (head_args (fst c))) args).

Inductive answers_rel (prog : program) : term -> bst -> list bst -> Prop :=
| ARTrue : forall s, answers_rel prog (Atom n_true) s [s]
| ARFail : forall s, answers_rel prog (Atom n_fail) s []
| ARFalse : forall s, answers_rel prog (Atom n_false) s []
| ARConj : forall a b s l1 l,
    answers_rel prog a s l1 -> answers_each prog b l1 l -> answers_rel prog (Cmp n_comma [a; b]) s l
| ARDisj : forall a b s l1 l2, is_arrow a = None ->
    answers_rel prog a s l1 -> answers_rel prog b s l2 -> answers_rel prog (Cmp n_semi [a; b]) s (l1 ++ l2)
| ARUnify : forall a b s s', unify ufuel (sub s) [(a, b)] = UOk s' ->
    answers_rel prog (Cmp n_unify [a; b]) s [mkst s' (ctr s)]
| ARNoUnify : forall a b s, unify ufuel (sub s) [(a, b)] = UFail ->
    answers_rel prog (Cmp n_unify [a; b]) s []
| ARUser : forall g f args s c cls l, user_goal g = Some (f, args) ->
    clauses_of prog f (List.length args) = c :: cls ->
    answers_clauses prog (c :: cls) args (bump s) l -> answers_rel prog g s l
(* the answers of g from every state of a list, in order, concatenated *)
with answers_each (prog : program) : term -> list bst -> list bst -> Prop :=
| AENil : forall g, answers_each prog g [] []
| AECons : forall g s ss l1 l2,
    answers_rel prog g s l1 -> answers_each prog g ss l2 -> answers_each prog g (s :: ss) (l1 ++ l2)
(* resolution against the clauses of one predicate, in textual order *)
with answers_clauses (prog : program) : list clause -> list term -> bst -> list bst -> Prop :=
| ACNil : forall args s, answers_clauses prog [] args s []
| ACSkip : forall c rest args s l, head_unify c args s = UFail ->
    answers_clauses prog rest args s l -> answers_clauses prog (c :: rest) args s l
| ACTake : forall c rest args s s' l1 l2, head_unify c args s = UOk s' ->
    answers_rel prog (shift (ctr s) (snd c)) (mkst s' (ctr s + clause_nvars c)) l1 ->
    answers_clauses prog rest args s l2 -> answers_clauses prog (c :: rest) args s (l1 ++ l2).

Scheme answers_rel_mind := Induction for answers_rel Sort Prop
  with answers_each_mind := Induction for answers_each Sort Prop
  with answers_clauses_mind := Induction for answers_clauses Sort Prop.
Scheme answers_rel_mi := Minimality for answers_rel Sort Prop
  with answers_each_mi := Minimality for answers_each Sort Prop
  with answers_clauses_mi := Minimality for answers_clauses Sort Prop.
Combined Scheme answers_mutind from answers_rel_mi, answers_each_mi, answers_clauses_mi.

(* the continuation applied to every answer state in order, stopping at the first one that does not end normally:
   what a success-continuation interpreter computes from an answer list *)
Fixpoint run_list (k : kont) (l : list bst) : outcome :=
  match l with
  | [] => ([], SNorm)
  | s :: r => seq (k s) (fun _ => run_list k r)
  end.

(* the initial state of `solve` and the instance of the answer template in an answer state *)
Definition init_state (q tmpl : term) : bst := mkst [] (N.max (nvars q) (nvars tmpl) + 1).
Definition inst (tmpl : term) (s : bst) : term := apply (sub s) tmpl.

(* signals a continuation may return below a frame: cut / commit signals only for frames older than c *)
Definition sig_below (c : N) (sg : signal) : Prop :=
  match sg with
  | SCut id => id < c
  | SCommit id _ => id < c
  | _ => True
  end.
Definition ksafe_on (c : N) (k : kont) (l : list bst) : Prop := forall s, In s l -> sig_below c (snd (k s)).

(* continuations that never return a cut or commit signal (e.g. the top level's) *)
Definition nice (sg : signal) : Prop :=
  match sg with SNorm | SAbort _ | SExc _ _ => True | _ => False end.

(* ------------------------------------------------------------------ renaming of variables (for call/1) *)
Fixpoint rename (r : N -> N) (t : term) : term :=
  match t with
  | Var v => Var (r v)
  | Cmp f args => Cmp f (map (rename r) args)
  | _ => t
  end.
