(* Engine/SldRelProofs.v -- the fuelled interpreter Engine/Sld.v agrees with the inductive derivation semantics
   Engine/SldRel.v on the pure fragment (both directions), and call/1 of a pure goal. *)
From Coq Require Import ZArith NArith List Bool Lia.
From V Require Import Base.Term Engine.Sld Engine.SldProofs Engine.SldRel.
Import ListNotations.
Open Scope N_scope.

(* ufuel is the numeral 4000 : nat; the kernel must never unfold it while converting (stack overflow otherwise) *)
Strategy opaque [ufuel].

(* ================================================================== names *)
Lemma name_eqb_true : forall a b, name_eqb a b = true -> a = b.
Proof.
  unfold name_eqb. induction a as [| x a IH]; intros [| y b] H; cbn in H; try discriminate; [reflexivity |].
  apply andb_true_iff in H. destruct H as [H1 H2]. apply N.eqb_eq in H1. subst y. f_equal. apply IH. exact H2.
Qed.

Lemma fid_in_other : forall tb f n k, fid_in tb f = FOther -> In (n, k) tb ->
  (forall n' k', In (n', k') tb -> k' <> FOther) -> name_eqb f n = false.
Proof.
  induction tb as [| [n0 k0] tb IH]; intros f n k Hf Hin Hall; [destruct Hin |].
  cbn [fid_in] in Hf. destruct (name_eqb f n0) eqn:E.
  - exfalso. apply (Hall n0 k0); [left; reflexivity | exact Hf].
  - destruct Hin as [Hin | Hin].
    + injection Hin as <- <-. exact E.
    + apply (IH f n k Hf Hin). intros n' k' H'. apply (Hall n' k'). right. exact H'.
Qed.

Lemma ftable_no_other : forall n k, In (n, k) ftable -> k <> FOther.
Proof.
  intros n k Hin. unfold ftable in Hin. cbn [In] in Hin.
  repeat (destruct Hin as [Hin | Hin]; [injection Hin as <- <-; discriminate |]). destruct Hin.
Qed.

Lemma fid_other_neq : forall f n k, fid f = FOther -> In (n, k) ftable -> name_eqb f n = false.
Proof. intros f n k Hf Hin. exact (fid_in_other ftable f n k Hf Hin ftable_no_other). Qed.

Lemma other_not_comma : forall f, fid f = FOther -> name_eqb f n_comma = false.
Proof. intros f H. apply (fid_other_neq f n_comma FComma H). cbn. auto. Qed.
Lemma other_not_semi : forall f, fid f = FOther -> name_eqb f n_semi = false.
Proof. intros f H. apply (fid_other_neq f n_semi FSemi H). cbn. auto 10. Qed.
Lemma other_not_arrow : forall f, fid f = FOther -> name_eqb f n_arrow = false.
Proof. intros f H. apply (fid_other_neq f n_arrow FArrow H). cbn. auto 10. Qed.

(* ================================================================== user goals, pure goals *)
Lemma user_goal_inv : forall g f args, user_goal g = Some (f, args) ->
  fid f = FOther /\ ((g = Atom f /\ args = []) \/ g = Cmp f args).
Proof.
  intros g f args H. destruct g as [v | z | n d | b | f0 | f0 args0]; cbn [user_goal] in H; try discriminate.
  - destruct (fid f0) eqn:E; try discriminate. injection H as <- <-. split; [exact E | left; auto].
  - destruct (fid f0) eqn:E; try discriminate. injection H as <- <-. split; [exact E | right; auto].
Qed.

Lemma classify_user : forall g f args, user_goal g = Some (f, args) -> classify g = GUser f args.
Proof.
  intros g f args H. destruct (user_goal_inv g f args H) as [Hf [[-> ->] | ->]].
  - cbn [classify]. rewrite Hf. reflexivity.
  - cbn [classify]. rewrite Hf. reflexivity.
Qed.

Lemma user_goal_shift : forall c g f args, user_goal g = Some (f, args) ->
  user_goal (shift c g) = Some (f, map (shift c) args).
Proof.
  intros c g f args H. destruct (user_goal_inv g f args H) as [Hf [[-> ->] | ->]]; cbn [shift user_goal map]; rewrite Hf; reflexivity.
Qed.

Lemma pure_shift : forall c g, pure_goal g -> pure_goal (shift c g).
Proof.
  intros c g H. induction H as [| | | a b Ha IHa Hb IHb | a b Ha IHa Hb IHb | a b | g f args Hu]; cbn [shift map];
    try (constructor; assumption).
  eapply PUser. apply user_goal_shift. exact Hu.
Qed.

Lemma pure_not_arrow : forall g, pure_goal g -> is_arrow g = None.
Proof.
  intros g H. destruct H as [| | | a b Ha Hb | a b Ha Hb | a b | g f args Hu]; try reflexivity.
  destruct (user_goal_inv g f args Hu) as [Hf [[-> ->] | ->]]; [reflexivity |].
  cbn [is_arrow]. destruct args as [| x [| y [| z r]]]; try reflexivity.
  rewrite (other_not_arrow f Hf). reflexivity.
Qed.

Lemma pure_body_ok : forall g, pure_goal g -> body_ok g = true.
Proof.
  intros g H. induction H as [| | | a b Ha IHa Hb IHb | a b Ha IHa Hb IHb | a b | g f args Hu]; try reflexivity.
  - cbn. rewrite IHa, IHb. reflexivity.
  - cbn. rewrite IHa, IHb. reflexivity.
  - destruct (user_goal_inv g f args Hu) as [Hf [[-> ->] | ->]]; [reflexivity |].
    cbn [body_ok]. destruct args as [| x [| y [| z r]]]; try reflexivity.
    rewrite (other_not_comma f Hf), (other_not_semi f Hf), (other_not_arrow f Hf). reflexivity.
Qed.

(* ================================================================== seq / pre / run_list algebra *)
Lemma seq_done : forall o, seq o (fun _ => ([], SNorm)) = o.
Proof.
  intros [ev sg]. unfold seq, pre. cbn [fst snd]. destruct sg; try reflexivity. rewrite app_nil_r. reflexivity.
Qed.

Lemma seq_nil_l : forall f, seq ([], SNorm) f = f tt.
Proof. intros f. unfold seq. cbn [fst snd]. apply pre_nil. Qed.

Lemma seq_ext : forall o f f', f tt = f' tt -> seq o f = seq o f'.
Proof. intros o f f' H. unfold seq. rewrite H. reflexivity. Qed.

Lemma seq_assoc : forall o f g, seq (seq o f) g = seq o (fun _ => seq (f tt) g).
Proof.
  intros [ev sg] f g. unfold seq at 2 3. cbn [fst snd]. destruct sg; try reflexivity.
  destruct (f tt) as [ev2 sg2]. unfold seq, pre. cbn [fst snd].
  destruct sg2; cbn [fst snd]; try reflexivity. rewrite app_assoc. reflexivity.
Qed.

Lemma seq_stop : forall o f, snd o <> SNorm -> seq o f = o.
Proof. intros o f H. unfold seq. destruct (snd o); try reflexivity. exfalso. apply H. reflexivity. Qed.

Lemma seq_norm : forall o f, snd o = SNorm -> seq o f = pre (fst o) (f tt).
Proof. intros o f H. unfold seq. rewrite H. reflexivity. Qed.

Lemma run_list_app : forall k l1 l2, run_list k (l1 ++ l2) = seq (run_list k l1) (fun _ => run_list k l2).
Proof.
  intros k l1 l2. induction l1 as [| s r IH]; cbn [run_list app].
  - rewrite seq_nil_l. reflexivity.
  - rewrite seq_assoc. apply seq_ext. exact IH.
Qed.

Lemma run_list_one : forall k s, run_list k [s] = k s.
Proof. intros k s. cbn [run_list]. apply seq_done. Qed.

Lemma sig_below_mono : forall c c' sg, c <= c' -> sig_below c sg -> sig_below c' sg.
Proof. intros c c' sg Hle H. destruct sg; cbn in *; try exact I; lia. Qed.

Lemma ksafe_mono : forall c c' k l, c <= c' -> ksafe_on c k l -> ksafe_on c' k l.
Proof. intros c c' k l Hle H s Hin. eapply sig_below_mono; [exact Hle | apply H; exact Hin]. Qed.

Lemma ksafe_app : forall c k l1 l2, ksafe_on c k (l1 ++ l2) -> ksafe_on c k l1 /\ ksafe_on c k l2.
Proof. intros c k l1 l2 H. split; intros s Hin; apply H; apply in_or_app; auto. Qed.

Lemma run_list_sig : forall c k l, ksafe_on c k l -> sig_below c (snd (run_list k l)).
Proof.
  intros c k l. induction l as [| s r IH]; intros H; cbn [run_list].
  - exact I.
  - unfold seq. destruct (snd (k s)) eqn:E.
    + unfold pre. cbn [snd]. apply IH. intros s' Hin. apply H. right. exact Hin.
    + rewrite E. rewrite <- E. apply H. left. reflexivity.
    + rewrite E. rewrite <- E. apply H. left. reflexivity.
    + rewrite E. exact I.
    + rewrite E. exact I.
Qed.

(* when every continuation call ends normally, run_list is the concatenation of the events *)
Lemma run_list_normal : forall k l, (forall s, In s l -> snd (k s) = SNorm) ->
  run_list k l = (flat_map (fun s => fst (k s)) l, SNorm).
Proof.
  intros k l. induction l as [| s r IH]; intros H; cbn [run_list flat_map]; [reflexivity |].
  rewrite seq_norm by (apply H; left; reflexivity).
  rewrite IH by (intros s' Hin; apply H; right; exact Hin). reflexivity.
Qed.

(* ================================================================== counters only grow *)
Lemma answers_ctr_mono : forall prog,
  (forall g s l, answers_rel prog g s l -> forall s', In s' l -> ctr s <= ctr s') /\
  (forall g l1 l, answers_each prog g l1 l -> forall c, (forall s, In s l1 -> c <= ctr s) -> forall s', In s' l -> c <= ctr s') /\
  (forall cls args s l, answers_clauses prog cls args s l -> forall s', In s' l -> ctr s <= ctr s').
Proof.
  intros prog. apply answers_mutind.
  - intros s s' [<- | []]. lia.
  - intros s s' [].
  - intros s s' [].
  - intros a b s l1 l _ IHa _ IHe s' Hin. apply (IHe (ctr s)); [exact IHa | exact Hin].
  - intros a b s l1 l2 _ _ IHa _ IHb s' Hin. apply in_app_or in Hin. destruct Hin as [Hin | Hin]; auto.
  - intros a b s s0 _ s' [<- | []]. cbn [ctr]. lia.
  - intros a b s _ s' [].
  - intros g f args s c cls l _ _ _ IH s' Hin. specialize (IH s' Hin). cbn [bump ctr] in IH. lia.
  - intros g c _ s' [].
  - intros g s ss l1 l2 _ IHr _ IHe c Hc s' Hin. apply in_app_or in Hin. destruct Hin as [Hin | Hin].
    + specialize (IHr s' Hin). specialize (Hc s (or_introl eq_refl)). lia.
    + apply (IHe c); [| exact Hin]. intros s0 H0. apply Hc. right. exact H0.
  - intros args s s' [].
  - intros c rest args s l _ _ IH s' Hin. apply IH. exact Hin.
  - intros c rest args s s0 l1 l2 _ _ IHb _ IHr s' Hin. apply in_app_or in Hin. destruct Hin as [Hin | Hin].
    + specialize (IHb s' Hin). cbn [ctr] in IHb. lia.
    + apply IHr. exact Hin.
Qed.

(* ================================================================== relation => interpreter (completeness) *)
Definition exec_agrees (prog : program) (g : term) (s : bst) (l : list bst) : Prop :=
  exists n, forall m, (n <= m)%nat -> forall cb k c, c <= ctr s -> ksafe_on c k l ->
    exec m prog g cb s k = run_list k l.

Lemma classify_false : classify (Atom n_false) = GFail.
Proof. reflexivity. Qed.

Lemma classify_unify : forall a b, classify (Cmp n_unify [a; b]) = GDet (DUnify a b).
Proof. reflexivity. Qed.

Lemma rel_exec_all : forall prog,
  (forall g s l, answers_rel prog g s l -> exec_agrees prog g s l) /\
  (forall g l1 l, answers_each prog g l1 l ->
     exists n, forall m, (n <= m)%nat -> forall cb k c, (forall s, In s l1 -> c <= ctr s) -> ksafe_on c k l ->
       run_list (fun s' => exec m prog g cb s' k) l1 = run_list k l /\
       ksafe_on c (fun s' => exec m prog g cb s' k) l1) /\
  (forall cls args s l, answers_clauses prog cls args s l ->
     exists n, forall m, (n <= m)%nat -> forall id k c, c <= id -> c <= ctr s -> ksafe_on c k l ->
       try_clauses (exec m prog) cls args id s k = run_list k l).
Proof.
  intros prog. apply answers_mutind.
  - (* true *) intros s. exists 1%nat. intros m Hm cb k c Hc Hk. destruct m as [| m]; [lia |].
    rewrite run_list_one. reflexivity.
  - intros s. exists 1%nat. intros m Hm cb k c Hc Hk. destruct m as [| m]; [lia |]. reflexivity.
  - intros s. exists 1%nat. intros m Hm cb k c Hc Hk. destruct m as [| m]; [lia |]. reflexivity.
  - (* conj *) intros a b s l1 l Ha [na IHa] He [ne IHe]. exists (S (Nat.max na ne)).
    intros m Hm cb k c Hc Hk. destruct m as [| m]; [lia |].
    change (exec (S m) prog (Cmp n_comma [a; b]) cb s k) with (exec m prog a cb s (fun s' => exec m prog b cb s' k)).
    assert (Hl1 : forall s0, In s0 l1 -> c <= ctr s0).
    { intros s0 H0. pose proof (proj1 (answers_ctr_mono prog) a s l1 Ha s0 H0). lia. }
    destruct (IHe m ltac:(lia) cb k c Hl1 Hk) as [Heq Hsafe].
    rewrite (IHa m ltac:(lia) cb _ c Hc Hsafe). exact Heq.
  - (* disj *) intros a b s l1 l2 Harr Ha [na IHa] Hb [nb IHb]. exists (S (Nat.max na nb)).
    intros m Hm cb k c Hc Hk. destruct m as [| m]; [lia |].
    change (Cmp n_semi [a; b]) with (t_disj a b). rewrite disj_law by exact Harr.
    destruct (ksafe_app _ _ _ _ Hk) as [Hk1 Hk2].
    rewrite (IHa m ltac:(lia) cb k c Hc Hk1), (IHb m ltac:(lia) cb k c Hc Hk2).
    rewrite run_list_app. reflexivity.
  - (* unify *) intros a b s s' Hu. exists 1%nat. intros m Hm cb k c Hc Hk. destruct m as [| m]; [lia |].
    rewrite exec_S. unfold exec_step. rewrite classify_unify. unfold do_det, run_det, unify_st. rewrite Hu.
    rewrite run_list_one. reflexivity.
  - intros a b s Hu. exists 1%nat. intros m Hm cb k c Hc Hk. destruct m as [| m]; [lia |].
    rewrite exec_S. unfold exec_step. rewrite classify_unify. unfold do_det, run_det, unify_st. rewrite Hu. reflexivity.
  - (* user *) intros g f args s c0 cls l Hu Hcls Hc [n IH]. exists (S n).
    intros m Hm cb k c Hcs Hk. destruct m as [| m]; [lia |].
    rewrite exec_S. unfold exec_step. rewrite (classify_user g f args Hu). unfold do_user. rewrite Hcls.
    apply (IH m ltac:(lia) (ctr s) k c Hcs); [cbn [bump ctr]; lia | exact Hk].
  - (* each: nil *) intros g. exists 0%nat. intros m Hm cb k c Hl Hk. split; [reflexivity | intros s []].
  - (* each: cons *) intros g s ss l1 l2 Hr [nr IHr] He [ne IHe]. exists (Nat.max nr ne).
    intros m Hm cb k c Hl Hk. destruct (ksafe_app _ _ _ _ Hk) as [Hk1 Hk2].
    assert (Hs : c <= ctr s) by (apply Hl; left; reflexivity).
    assert (Hss : forall s0, In s0 ss -> c <= ctr s0) by (intros s0 H0; apply Hl; right; exact H0).
    destruct (IHe m ltac:(lia) cb k c Hss Hk2) as [Heq Hsafe].
    pose proof (IHr m ltac:(lia) cb k c Hs Hk1) as Hhead.
    split.
    + cbn [run_list]. rewrite Hhead, Heq. rewrite run_list_app. reflexivity.
    + intros s0 [<- | H0]; [| apply Hsafe; exact H0]. rewrite Hhead. apply run_list_sig. exact Hk1.
  - (* clauses: nil *) intros args s. exists 0%nat. intros; reflexivity.
  - (* clauses: skip *) intros c0 rest args s l Hu Hr [n IH]. exists n. intros m Hm id k c Hid Hc Hk.
    cbn [try_clauses]. unfold head_unify in Hu. rewrite Hu. apply (IH m Hm id k c Hid Hc Hk).
  - (* clauses: take *) intros c0 rest args s s' l1 l2 Hu Hb [nb IHb] Hr [nr IHr]. exists (Nat.max nb nr).
    intros m Hm id k c Hid Hc Hk. destruct (ksafe_app _ _ _ _ Hk) as [Hk1 Hk2].
    cbn [try_clauses]. unfold head_unify in Hu. rewrite Hu.
    rewrite (IHb m ltac:(lia) id k c ltac:(cbn [ctr]; lia) Hk1).
    rewrite (IHr m ltac:(lia) id k c Hid Hc Hk2).
    rewrite run_list_app. pose proof (run_list_sig c k l1 Hk1) as Hsig.
    unfold seq. destruct (snd (run_list k l1)) as [| id' | | |] eqn:E; try reflexivity.
    cbn in Hsig. assert (Hne : (id' =? id) = false) by (apply N.eqb_neq; lia). rewrite Hne. reflexivity.
Qed.

Theorem rel_exec : forall prog g s l, answers_rel prog g s l -> exec_agrees prog g s l.
Proof. intros prog. exact (proj1 (rel_exec_all prog)). Qed.

(* ================================================================== interpreter => relation (soundness) *)
Definition knice (k : kont) : Prop := forall s, nice (snd (k s)).

(* o is an outcome of running something under continuation k: it never ends with a cut / commit signal, and if it ends
   normally it is the run of k over an answer list accepted by R, every continuation call of which ended normally *)
Definition sound_at (o : outcome) (R : list bst -> Prop) (k : kont) : Prop :=
  nice (snd o) /\
  (snd o = SNorm -> exists l, R l /\ o = run_list k l /\ forall s', In s' l -> snd (k s') = SNorm).

Lemma sound_at_none : forall (R : list bst -> Prop) k, R [] -> sound_at ([], SNorm) R k.
Proof.
  intros R k H. split; [exact I |]. intros _. exists []. split; [exact H |]. split; [reflexivity | intros s' []].
Qed.

Lemma sound_at_one : forall (R : list bst -> Prop) k s, knice k -> R [s] -> sound_at (k s) R k.
Proof.
  intros R k s Hk H. split; [apply Hk |]. intros HN. exists [s]. split; [exact H |].
  split; [rewrite run_list_one; reflexivity |]. intros s' [<- | []]. exact HN.
Qed.

Lemma sound_at_stop : forall o (R : list bst -> Prop) k, nice (snd o) -> snd o <> SNorm -> sound_at o R k.
Proof. intros o R k Hn Hs. split; [exact Hn |]. intros H. exfalso. apply Hs. exact H. Qed.

(* two alternatives in sequence *)
Lemma sound_at_seq : forall oa ob (Ra Rb R : list bst -> Prop) k,
  sound_at oa Ra k -> sound_at ob Rb k -> (forall l1 l2, Ra l1 -> Rb l2 -> R (l1 ++ l2)) ->
  sound_at (seq oa (fun _ => ob)) R k.
Proof.
  intros oa ob Ra Rb R k [Hna Hsa] [Hnb Hsb] HR. destruct (snd oa) eqn:Ea.
  - rewrite seq_norm by exact Ea. split; [exact Hnb |]. cbn [pre snd]. intros HN.
    destruct (Hsa eq_refl) as (l1 & Hr1 & He1 & Ha1). destruct (Hsb HN) as (l2 & Hr2 & He2 & Ha2).
    exists (l1 ++ l2). split; [apply HR; assumption |]. split.
    + rewrite run_list_app. rewrite <- He1, <- He2. rewrite seq_norm by exact Ea. reflexivity.
    + intros s' Hin. apply in_app_or in Hin. destruct Hin; auto.
  - destruct Hna.
  - destruct Hna.
  - rewrite seq_stop by (rewrite Ea; discriminate). apply sound_at_stop; rewrite Ea; [exact I | discriminate].
  - rewrite seq_stop by (rewrite Ea; discriminate). apply sound_at_stop; rewrite Ea; [exact I | discriminate].
Qed.

Section Sound.
  Variable prog : program.
  Hypothesis Hprog : pure_prog prog.

  Lemma clauses_of_pure : forall f n, Forall (fun c => pure_goal (snd c)) (clauses_of prog f n).
  Proof.
    intros f n. unfold clauses_of. apply Forall_forall. intros c Hin. apply filter_In in Hin.
    destruct Hin as [Hin _]. unfold pure_prog in Hprog. rewrite Forall_forall in Hprog. apply Hprog. exact Hin.
  Qed.

  Definition exec_sound (n : nat) : Prop := forall g cb s k, pure_goal g -> knice k ->
    sound_at (exec n prog g cb s k) (answers_rel prog g s) k.

  (* (A , B): B under k from every answer of A *)
  Lemma each_sound : forall n b cb k, exec_sound n -> pure_goal b -> knice k -> forall l1,
    (forall s', In s' l1 -> snd (exec n prog b cb s' k) = SNorm) ->
    exists l, answers_each prog b l1 l /\ run_list (fun s' => exec n prog b cb s' k) l1 = run_list k l /\
              forall s', In s' l -> snd (k s') = SNorm.
  Proof.
    intros n b cb k IH Hb Hk. induction l1 as [| s ss IHl]; intros Hall.
    - exists []. split; [constructor |]. split; [reflexivity | intros s' []].
    - destruct IHl as (l2 & He2 & Hq2 & Ha2); [intros s' Hin; apply Hall; right; exact Hin |].
      destruct (IH b cb s k Hb Hk) as [_ Hs]. destruct (Hs (Hall s (or_introl eq_refl))) as (la & Hra & Hqa & Haa).
      exists (la ++ l2). split; [constructor; assumption |]. split.
      + cbn [run_list]. rewrite Hqa, Hq2. rewrite run_list_app. reflexivity.
      + intros s' Hin. apply in_app_or in Hin. destruct Hin; auto.
  Qed.

  Lemma clauses_sound : forall n args k, exec_sound n -> knice k -> forall cls,
    Forall (fun c => pure_goal (snd c)) cls -> forall id s,
    sound_at (try_clauses (exec n prog) cls args id s k) (answers_clauses prog cls args s) k.
  Proof.
    intros n args k IH Hk. induction cls as [| c rest IHc]; intros Hp id s.
    - cbn [try_clauses]. apply sound_at_none. constructor.
    - inversion Hp as [| c' rest' Hpc Hprest]; subst c' rest'. specialize (IHc Hprest id s).
      cbn [try_clauses].
      destruct (unify ufuel (sub s) (zip_terms (map (shift (ctr s)) (head_args (fst c))) args)) as [s' | | r] eqn:Hu.
      + pose proof (IH (shift (ctr s) (snd c)) id (mkst s' (ctr s + clause_nvars c)) k (pure_shift _ _ Hpc) Hk) as Hb.
        set (o := exec n prog (shift (ctr s) (snd c)) id (mkst s' (ctr s + clause_nvars c)) k) in *.
        destruct (snd o) eqn:Eo.
        * rewrite <- (seq_norm o (fun _ => try_clauses (exec n prog) rest args id s k)) by exact Eo.
          eapply sound_at_seq; [exact Hb | exact IHc |]. intros l1 l2 H1 H2. eapply ACTake; eassumption.
        * destruct Hb as [Hb _]. rewrite Eo in Hb. destruct Hb.
        * destruct Hb as [Hb _]. rewrite Eo in Hb. destruct Hb.
        * apply sound_at_stop; rewrite Eo; [exact I | discriminate].
        * apply sound_at_stop; rewrite Eo; [exact I | discriminate].
      + destruct IHc as [Hn Hs]. split; [exact Hn |]. intros HN. destruct (Hs HN) as (l & Hr & Hq & Ha).
        exists l. split; [apply ACSkip; assumption |]. split; assumption.
      + apply sound_at_stop; [exact I | discriminate].
  Qed.

  Lemma exec_sound_all : forall n, exec_sound n.
  Proof.
    induction n as [| n IH]; intros g cb s k Hg Hk.
    - apply sound_at_stop; [exact I | discriminate].
    - destruct Hg as [| | | a b Ha Hb | a b Ha Hb | a b | g f args Hu].
      + change (exec (S n) prog (Atom n_true) cb s k) with (k s). apply sound_at_one; [exact Hk | constructor].
      + change (exec (S n) prog (Atom n_fail) cb s k) with (@nil event, SNorm). apply sound_at_none. constructor.
      + change (exec (S n) prog (Atom n_false) cb s k) with (@nil event, SNorm). apply sound_at_none. constructor.
      + change (exec (S n) prog (Cmp n_comma [a; b]) cb s k) with (exec n prog a cb s (fun s' => exec n prog b cb s' k)).
        assert (Hk' : knice (fun s' => exec n prog b cb s' k)).
        { intros s'. apply (IH b cb s' k Hb Hk). }
        destruct (IH a cb s _ Ha Hk') as [Hn Hs]. split; [exact Hn |]. intros HN.
        destruct (Hs HN) as (l1 & Hr1 & Hq1 & Ha1).
        destruct (each_sound n b cb k IH Hb Hk l1 Ha1) as (l & He & Hq & Hal).
        exists l. split; [econstructor; eassumption |]. split; [rewrite Hq1; exact Hq | exact Hal].
      + change (Cmp n_semi [a; b]) with (t_disj a b). rewrite disj_law by (apply pure_not_arrow; exact Ha).
        eapply sound_at_seq; [apply (IH a cb s k Ha Hk) | apply (IH b cb s k Hb Hk) |].
        intros l1 l2 H1 H2. apply ARDisj; [apply pure_not_arrow; exact Ha | exact H1 | exact H2].
      + rewrite exec_S. unfold exec_step. rewrite classify_unify. unfold do_det, run_det, unify_st.
        destruct (unify ufuel (sub s) [(a, b)]) as [s' | | r] eqn:Hu.
        * apply sound_at_one; [exact Hk | constructor; exact Hu].
        * apply sound_at_none. constructor. exact Hu.
        * apply sound_at_stop; [exact I | discriminate].
      + rewrite exec_S. unfold exec_step. rewrite (classify_user g f args Hu). unfold do_user.
        destruct (clauses_of prog f (List.length args)) as [| c cls] eqn:Hcls.
        * apply sound_at_stop; [exact I | discriminate].
        * pose proof (clauses_of_pure f (List.length args)) as Hp. rewrite Hcls in Hp.
          destruct (clauses_sound n args k IH Hk (c :: cls) Hp (ctr s) (bump s)) as [Hn Hs].
          split; [exact Hn |]. intros HN. destruct (Hs HN) as (l & Hr & Hq & Hal).
          exists l. split; [eapply ARUser; eassumption |]. split; assumption.
  Qed.
End Sound.

(* ================================================================== top level: solve *)
Lemma run_list_top : forall tmpl l, run_list (top_k tmpl) l = (map (fun s => EAns (inst tmpl s)) l, SNorm).
Proof.
  intros tmpl l. rewrite run_list_normal by (intros; reflexivity).
  assert (H : flat_map (fun s => fst (top_k tmpl s)) l = map (fun s => EAns (inst tmpl s)) l).
  { induction l as [| s r IH]; cbn [flat_map map]; [reflexivity |]. rewrite IH. reflexivity. }
  rewrite H. reflexivity.
Qed.

Lemma answers_of_map : forall (f : bst -> term) l, answers_of (map (fun s => EAns (f s)) l) = map f l.
Proof. intros f l. induction l as [| s r IH]; cbn; [reflexivity | rewrite IH; reflexivity]. Qed.

Lemma log_of_map : forall (f : bst -> term) l, log_of (map (fun s => EAns (f s)) l) = [].
Proof. intros f l. induction l as [| s r IH]; cbn; [reflexivity | exact IH]. Qed.

Lemma top_k_nice : forall tmpl, knice (top_k tmpl).
Proof. intros tmpl s. exact I. Qed.

Lemma top_k_safe : forall tmpl c l, ksafe_on c (top_k tmpl) l.
Proof. intros tmpl c l s _. exact I. Qed.

(* completeness for terminating derivations: a derivation of the answer list gives a fuel from which on solve returns it *)
Theorem sld_complete_lemma : forall prog q tmpl l, answers_rel prog q (init_state q tmpl) l ->
  exists n, forall m, (n <= m)%nat -> solve m prog q tmpl = Done (map (inst tmpl) l) None [].
Proof.
  intros prog q tmpl l H. destruct (rel_exec prog q _ l H) as [n Hn]. exists n. intros m Hm.
  unfold solve, solve_raw. unfold init_state in Hn.
  rewrite (Hn m Hm _ (top_k tmpl) 0 (N.le_0_l _) (top_k_safe tmpl 0 l)).
  rewrite run_list_top. unfold result_of. cbn [fst snd]. rewrite answers_of_map, log_of_map. reflexivity.
Qed.

(* soundness: a completed exception-free run of a pure query over a pure program returns a derivable answer list *)
Theorem sld_sound_lemma : forall prog q tmpl n a lg, pure_prog prog -> pure_goal q ->
  solve n prog q tmpl = Done a None lg ->
  exists l, answers_rel prog q (init_state q tmpl) l /\ a = map (inst tmpl) l /\ lg = [].
Proof.
  intros prog q tmpl n a lg Hp Hq H. unfold solve, solve_raw in H.
  destruct (exec_sound_all prog Hp n q (N.max (nvars q) (nvars tmpl)) (mkst [] (N.max (nvars q) (nvars tmpl) + 1))
              (top_k tmpl) Hq (top_k_nice tmpl)) as [Hn Hs].
  unfold result_of in H.
  destruct (snd (exec n prog q (N.max (nvars q) (nvars tmpl)) (mkst [] (N.max (nvars q) (nvars tmpl) + 1)) (top_k tmpl))) as [| | | | r] eqn:E.
  - destruct (Hs eq_refl) as (l & Hr & Hq' & _). exists l. split; [exact Hr |].
    rewrite Hq' in H. rewrite run_list_top in H. cbn [fst] in H. rewrite answers_of_map, log_of_map in H.
    injection H as <- <-. auto.
  - destruct Hn.
  - destruct Hn.
  - discriminate.
  - destruct r; discriminate.
Qed.

Theorem sld_sound_complete_lemma : forall prog q tmpl a lg, pure_prog prog -> pure_goal q ->
  ((exists n, solve n prog q tmpl = Done a None lg) <->
   (exists l, answers_rel prog q (init_state q tmpl) l /\ a = map (inst tmpl) l /\ lg = [])).
Proof.
  intros prog q tmpl a lg Hp Hq. split.
  - intros [n H]. exact (sld_sound_lemma prog q tmpl n a lg Hp Hq H).
  - intros (l & Hr & -> & ->). destruct (sld_complete_lemma prog q tmpl l Hr) as [n Hn]. exists n. apply Hn. lia.
Qed.

(* ================================================================== call/1 of a pure goal *)
Lemma apply_nil : forall t, apply [] t = t.
Proof.
  induction t as [v | z | n d | b | f | f args IH] using term_ind'; try reflexivity.
  cbn [apply]. f_equal. induction IH as [| x r Hx _ IHr]; cbn [map]; [reflexivity |]. rewrite Hx, IHr. reflexivity.
Qed.

Lemma pure_apply : forall sg g, pure_goal g -> pure_goal (apply sg g).
Proof.
  intros sg g H. induction H as [| | | a b Ha IHa Hb IHb | a b Ha IHa Hb IHb | a b | g f args Hu]; cbn [apply map];
    try (constructor; assumption).
  destruct (user_goal_inv g f args Hu) as [Hf [[-> ->] | ->]].
  - eapply PUser. exact Hu.
  - cbn [apply]. apply (PUser _ f (map (apply sg) args)). cbn [user_goal]. rewrite Hf. reflexivity.
Qed.

Lemma add_args_nil_pure : forall g, pure_goal g -> add_args g [] = inl g.
Proof.
  intros g H. destruct H as [| | | a b Ha Hb | a b Ha Hb | a b | g f args Hu]; try reflexivity.
  destruct (user_goal_inv g f args Hu) as [Hf [[-> ->] | ->]]; [reflexivity |].
  cbn [add_args]. rewrite app_nil_r. reflexivity.
Qed.

Lemma classify_call1 : forall g, classify (t_call g) = GCall g [].
Proof. reflexivity. Qed.

Lemma uncut_below : forall c id o, c <= id -> sig_below c (snd o) -> uncut id o = o.
Proof.
  intros c id o Hle H. unfold uncut. destruct (snd o) as [| id' | | |] eqn:E; try reflexivity.
  cbn in H. assert (Hne : (id' =? id) = false) by (apply N.eqb_neq; lia). rewrite Hne. reflexivity.
Qed.

Lemma uncut_nice : forall id o, nice (snd o) -> uncut id o = o.
Proof. intros id o H. unfold uncut. destruct (snd o); try reflexivity. destruct H. Qed.

(* call(G) in state s runs the instantiated goal G.sub(s) from the state whose counter is one higher (the frame id of call/1):
   relation => interpreter, for any safe continuation *)
Theorem call_pure_complete : forall prog g s l, pure_goal g ->
  answers_rel prog (apply (sub s) g) (bump s) l ->
  exists n, forall m, (n <= m)%nat -> forall cb k c, c <= ctr s -> ksafe_on c k l ->
    exec m prog (t_call g) cb s k = run_list k l.
Proof.
  intros prog g s l Hg Hr. destruct (rel_exec prog _ _ l Hr) as [n Hn]. exists (S n).
  intros m Hm cb k c Hc Hk. destruct m as [| m]; [lia |].
  rewrite exec_S. unfold exec_step. rewrite classify_call1. unfold do_call.
  rewrite (add_args_nil_pure _ (pure_apply (sub s) g Hg)). rewrite (pure_body_ok _ (pure_apply (sub s) g Hg)).
  rewrite (Hn m ltac:(lia) (ctr s) k c ltac:(cbn [bump ctr]; lia) Hk).
  apply (uncut_below c); [exact Hc | apply run_list_sig; exact Hk].
Qed.

Theorem call_pure_sound : forall prog n g cb s k, pure_prog prog -> pure_goal g -> knice k ->
  sound_at (exec n prog (t_call g) cb s k) (answers_rel prog (apply (sub s) g) (bump s)) k.
Proof.
  intros prog n g cb s k Hp Hg Hk. destruct n as [| n].
  - apply sound_at_stop; [exact I | discriminate].
  - rewrite exec_S. unfold exec_step. rewrite classify_call1. unfold do_call.
    rewrite (add_args_nil_pure _ (pure_apply (sub s) g Hg)). rewrite (pure_body_ok _ (pure_apply (sub s) g Hg)).
    pose proof (exec_sound_all prog Hp n (apply (sub s) g) (ctr s) (bump s) k (pure_apply (sub s) g Hg) Hk) as H.
    rewrite (uncut_nice _ _ (proj1 H)). exact H.
Qed.

Lemma nvars_call : forall g, nvars (t_call g) = nvars g.
Proof. intros g. unfold t_call. cbn [nvars fold_right]. lia. Qed.

(* top level: call(G) has exactly the derivable answers of G itself, the derivation being started with the fresh-name
   counter one higher than for the query G *)
Theorem call_body_rel_lemma : forall prog g tmpl a lg, pure_prog prog -> pure_goal g ->
  ((exists n, solve n prog (t_call g) tmpl = Done a None lg) <->
   (exists l, answers_rel prog g (bump (init_state g tmpl)) l /\ a = map (inst tmpl) l /\ lg = [])).
Proof.
  intros prog g tmpl a lg Hp Hg. split.
  - intros [n H]. unfold solve, solve_raw in H. rewrite nvars_call in H.
    pose proof (call_pure_sound prog n g (N.max (nvars g) (nvars tmpl)) (mkst [] (N.max (nvars g) (nvars tmpl) + 1))
                  (top_k tmpl) Hp Hg (top_k_nice tmpl)) as [Hn Hs].
    cbn [sub] in Hs. rewrite apply_nil in Hs. unfold result_of in H.
    destruct (snd (exec n prog (t_call g) (N.max (nvars g) (nvars tmpl)) (mkst [] (N.max (nvars g) (nvars tmpl) + 1)) (top_k tmpl))) as [| | | | r] eqn:E.
    + destruct (Hs eq_refl) as (l & Hr & Hq' & _). exists l. split; [exact Hr |].
      rewrite Hq' in H. rewrite run_list_top in H. cbn [fst] in H. rewrite answers_of_map, log_of_map in H.
      injection H as <- <-. auto.
    + destruct Hn.
    + destruct Hn.
    + discriminate.
    + destruct r; discriminate.
  - intros (l & Hr & -> & ->).
    assert (Hr' : answers_rel prog (apply (sub (init_state g tmpl)) g) (bump (init_state g tmpl)) l).
    { cbn [init_state sub]. rewrite apply_nil. exact Hr. }
    destruct (call_pure_complete prog g (init_state g tmpl) l Hg Hr') as [n Hn]. exists n.
    unfold solve, solve_raw. rewrite nvars_call. unfold init_state in Hn.
    rewrite (Hn n (le_n n) _ (top_k tmpl) 0 (N.le_0_l _) (top_k_safe tmpl 0 l)).
    rewrite run_list_top. unfold result_of. cbn [fst snd]. rewrite answers_of_map, log_of_map. reflexivity.
Qed.

(* ================================================================== equivariance under injective renamings of variables *)
Section Rename.
  Variable r : N -> N.
  Hypothesis r_inj : forall x y, r x = r y -> x = y.

  Definition rsub (s : subst) : subst := map (fun p => (r (fst p), rename r (snd p))) s.
  Definition rwl (wl : list (term * term)) : list (term * term) :=
    map (fun p => (rename r (fst p), rename r (snd p))) wl.
  Definition rures (u : ures) : ures := match u with UOk s => UOk (rsub s) | x => x end.

  Lemma r_eqb : forall x y, (r x =? r y) = (x =? y).
  Proof.
    intros x y. destruct (N.eqb_spec x y) as [-> | Hne]; [apply N.eqb_refl |].
    apply N.eqb_neq. intros H. apply Hne. apply r_inj. exact H.
  Qed.

  Lemma lookup_rename : forall s v, lookup (rsub s) (r v) = option_map (rename r) (lookup s v).
  Proof.
    induction s as [| [x t] s IH]; intros v; [reflexivity |].
    unfold rsub. cbn [map lookup fst snd]. fold (rsub s). rewrite r_eqb. destruct (x =? v); [reflexivity | apply IH].
  Qed.

  Lemma walk_rename : forall s t, walk (rsub s) (rename r t) = rename r (walk s t).
  Proof.
    intros s t. destruct t as [v | | | | |]; try reflexivity.
    cbn [rename walk]. rewrite lookup_rename. destruct (lookup s v); reflexivity.
  Qed.

  Lemma apply_rename : forall s t, apply (rsub s) (rename r t) = rename r (apply s t).
  Proof.
    intros s. induction t as [v | z | n d | b | f | f args IH] using term_ind'; try reflexivity.
    - cbn [rename apply]. rewrite lookup_rename. destruct (lookup s v); reflexivity.
    - cbn [rename apply]. f_equal. rewrite !map_map.
      induction IH as [| x l Hx _ IHl]; cbn [map]; [reflexivity |]. rewrite Hx, IHl. reflexivity.
  Qed.

  Lemma subst1_rename : forall x u t, subst1 (r x) (rename r u) (rename r t) = rename r (subst1 x u t).
  Proof.
    intros x u. induction t as [v | z | n d | b | f | f args IH] using term_ind'; try reflexivity.
    - cbn [rename subst1]. rewrite r_eqb. destruct (v =? x); reflexivity.
    - cbn [rename subst1]. f_equal. rewrite !map_map.
      induction IH as [| y l Hy _ IHl]; cbn [map]; [reflexivity |]. rewrite Hy, IHl. reflexivity.
  Qed.

  Lemma bind_rename : forall x u s, bind (r x) (rename r u) (rsub s) = rsub (bind x u s).
  Proof.
    intros x u s. unfold bind, rsub. cbn [map fst snd]. f_equal. rewrite !map_map. apply map_ext.
    intros [y t]. cbn [fst snd]. rewrite subst1_rename. reflexivity.
  Qed.

  Lemma occurs_rename : forall x t, occurs (r x) (rename r t) = occurs x t.
  Proof.
    intros x. induction t as [v | z | n d | b | f | f args IH] using term_ind'; try reflexivity.
    - cbn [rename occurs]. apply r_eqb.
    - cbn [rename occurs]. induction IH as [| y l Hy _ IHl]; cbn [map existsb]; [reflexivity |]. rewrite Hy, IHl. reflexivity.
  Qed.

  Lemma zip_rename : forall xs ys, zip_terms (map (rename r) xs) (map (rename r) ys) = rwl (zip_terms xs ys).
  Proof.
    induction xs as [| x xs IH]; intros [| y ys]; try reflexivity.
    cbn [map zip_terms]. rewrite IH. reflexivity.
  Qed.

  Lemma rwl_app : forall a b, rwl (a ++ b) = rwl a ++ rwl b.
  Proof. intros a b. unfold rwl. apply map_app. Qed.

  Lemma unify_rename : forall fuel s wl, unify fuel (rsub s) (rwl wl) = rures (unify fuel s wl).
  Proof.
    induction fuel as [| fuel IH]; intros s wl; [reflexivity |].
    destruct wl as [| [a b] rest]; [reflexivity |].
    unfold rwl. cbn [map fst snd unify]. fold (rwl rest). rewrite !walk_rename.
    assert (Hocc : forall x t,
      (if occurs (r x) (apply (rsub s) (rename r t)) then UAbort ACyclic
       else unify fuel (bind (r x) (apply (rsub s) (rename r t)) (rsub s)) (rwl rest)) =
      rures (if occurs x (apply s t) then UAbort ACyclic else unify fuel (bind x (apply s t) s) rest)).
    { intros x t. rewrite apply_rename, occurs_rename. destruct (occurs x (apply s t)); [reflexivity |].
      rewrite bind_rename. apply IH. }
    destruct (walk s a) as [x | | | | | f xs] eqn:Ea; destruct (walk s b) as [y | | | | | g ys] eqn:Eb.
    all: cbn [rename atomic_eqb].
    all: try reflexivity.
    all: try (match goal with |- _ = rures (if occurs _ (apply _ ?t) then _ else _) => exact (Hocc _ t) end).
    all: try (match goal with |- (if ?c then unify _ _ _ else UFail) = _ => destruct c; [apply IH | reflexivity] end).
    - rewrite r_eqb. destruct (x =? y); [apply IH |].
      change (Var (r y)) with (rename r (Var y)). rewrite bind_rename. apply IH.
    - rewrite !map_length. destruct (name_eqb f g && Nat.eqb (List.length xs) (List.length ys)); [| reflexivity].
      rewrite zip_rename, <- rwl_app. apply IH.
  Qed.
End Rename.

(* the renaming that moves every variable >= b up by one *)
Definition up_from (b : N) (v : N) : N := if v <? b then v else v + 1.

Lemma up_from_inj : forall b x y, up_from b x = up_from b y -> x = y.
Proof.
  intros b x y. unfold up_from. destruct (N.ltb_spec x b); destruct (N.ltb_spec y b); lia.
Qed.

Lemma rename_shift : forall b c t, b <= c -> rename (up_from b) (shift c t) = shift (c + 1) t.
Proof.
  intros b c t Hle. induction t as [v | z | n d | bb | f | f args IH] using term_ind'; try reflexivity.
  - cbn [shift rename]. unfold up_from. destruct (N.ltb_spec (v + c) b); [lia |]. f_equal. lia.
  - cbn [shift rename]. f_equal. rewrite map_map.
    induction IH as [| x l Hx _ IHl]; cbn [map]; [reflexivity |]. rewrite Hx, IHl. reflexivity.
Qed.

Lemma nvars_args_le : forall b args, fold_right (fun x m => N.max (nvars x) m) 0 args <= b ->
  Forall (fun x => nvars x <= b) args.
Proof.
  intros b. induction args as [| x l IH]; intros H; [constructor |]. cbn [fold_right] in H.
  constructor; [lia | apply IH; lia].
Qed.

Lemma rename_small : forall b t, nvars t <= b -> rename (up_from b) t = t.
Proof.
  intros b. induction t as [v | z | n d | bb | f | f args IH] using term_ind'; intros H; try reflexivity.
  - cbn [nvars] in H. cbn [rename]. unfold up_from. destruct (N.ltb_spec v b); [reflexivity | lia].
  - cbn [nvars] in H. cbn [rename]. f_equal. apply nvars_args_le in H.
    induction IH as [| x l Hx _ IHl]; cbn [map]; [reflexivity |].
    inversion H as [| x' l' Hx' Hl']; subst x' l'. rewrite (Hx Hx'), (IHl Hl'). reflexivity.
Qed.

Lemma is_arrow_rename : forall r a, is_arrow a = None -> is_arrow (rename r a) = None.
Proof.
  intros r a H. destruct a as [v | z | n d | bb | f | f args]; try reflexivity.
  destruct args as [| x [| y [| z w]]]; try reflexivity.
  cbn [rename map is_arrow] in *. destruct (name_eqb f n_arrow); [discriminate | reflexivity].
Qed.

Lemma user_goal_rename : forall r g f args, user_goal g = Some (f, args) ->
  user_goal (rename r g) = Some (f, map (rename r) args).
Proof.
  intros r g f args H. destruct (user_goal_inv g f args H) as [Hf [[-> ->] | ->]];
    cbn [rename user_goal map]; rewrite Hf; reflexivity.
Qed.

Section Equivariance.
  Variable prog : program.
  Variable b : N.
  Local Notation r := (up_from b).
  Definition rst (s : bst) : bst := mkst (rsub (up_from b) (sub s)) (ctr s + 1).

  Lemma head_unify_rename : forall c args s, b <= ctr s ->
    head_unify c (map (rename r) args) (rst s) = rures r (head_unify c args s).
  Proof.
    intros c args s Hb. unfold head_unify, rst. cbn [sub ctr].
    assert (Hm : map (shift (ctr s + 1)) (head_args (fst c)) = map (rename r) (map (shift (ctr s)) (head_args (fst c)))).
    { rewrite map_map. apply map_ext. intros t. symmetry. apply rename_shift. exact Hb. }
    rewrite Hm. rewrite zip_rename. apply unify_rename. apply up_from_inj.
  Qed.

  Lemma answers_rename :
    (forall g s l, answers_rel prog g s l -> b <= ctr s -> answers_rel prog (rename r g) (rst s) (map rst l)) /\
    (forall g l1 l, answers_each prog g l1 l -> (forall s, In s l1 -> b <= ctr s) ->
       answers_each prog (rename r g) (map rst l1) (map rst l)) /\
    (forall cls args s l, answers_clauses prog cls args s l -> b <= ctr s ->
       answers_clauses prog cls (map (rename r) args) (rst s) (map rst l)).
  Proof.
    apply answers_mutind.
    - intros s Hb. constructor.
    - intros s Hb. constructor.
    - intros s Hb. constructor.
    - intros a0 b0 s l1 l Ha IHa He IHe Hb. cbn [rename map]. econstructor; [apply IHa; exact Hb |].
      apply IHe. intros s0 H0. pose proof (proj1 (answers_ctr_mono prog) a0 s l1 Ha s0 H0). lia.
    - intros a0 b0 s l1 l2 Harr Ha IHa Hb0 IHb Hb. cbn [rename map]. rewrite map_app.
      apply ARDisj; [apply is_arrow_rename; exact Harr | apply IHa; exact Hb | apply IHb; exact Hb].
    - intros a0 b0 s s' Hu Hb. cbn [rename map].
      apply (ARUnify prog (rename r a0) (rename r b0) (rst s) (rsub r s')).
      unfold rst. cbn [sub]. change [(rename r a0, rename r b0)] with (rwl r [(a0, b0)]).
      rewrite (unify_rename r (up_from_inj b)). rewrite Hu. reflexivity.
    - intros a0 b0 s Hu Hb. cbn [rename map]. apply ARNoUnify.
      unfold rst. cbn [sub]. change [(rename r a0, rename r b0)] with (rwl r [(a0, b0)]).
      rewrite (unify_rename r (up_from_inj b)). rewrite Hu. reflexivity.
    - intros g f args s c cls l Hu Hcls Hc IH Hb.
      apply (ARUser prog _ f (map (rename r) args) (rst s) c cls).
      + apply user_goal_rename. exact Hu.
      + rewrite map_length. exact Hcls.
      + apply IH. cbn [bump ctr]. lia.
    - intros g Hb. constructor.
    - intros g s ss l1 l2 Hr IHr He IHe Hb. cbn [map]. rewrite map_app. constructor.
      + apply IHr. apply Hb. left. reflexivity.
      + apply IHe. intros s0 H0. apply Hb. right. exact H0.
    - intros args s Hb. constructor.
    - intros c rest args s l Hu Hr IH Hb. apply ACSkip; [| apply IH; exact Hb].
      rewrite head_unify_rename by exact Hb. rewrite Hu. reflexivity.
    - intros c rest args s s' l1 l2 Hu Hbd IHb Hr IHr Hb. rewrite map_app.
      apply (ACTake prog c rest _ (rst s) (rsub r s')).
      + rewrite head_unify_rename by exact Hb. rewrite Hu. reflexivity.
      + assert (Hb' : b <= ctr (mkst s' (ctr s + clause_nvars c))) by (cbn [ctr]; lia).
        specialize (IHb Hb'). rewrite rename_shift in IHb by exact Hb.
        unfold rst in IHb at 1. cbn [sub ctr] in IHb. unfold rst at 1 2. cbn [ctr].
        replace (ctr s + 1 + clause_nvars c) with (ctr s + clause_nvars c + 1) by lia. exact IHb.
      + apply IHr. exact Hb.
  Qed.
End Equivariance.

Lemma inst_rename : forall b tmpl s, nvars tmpl <= b -> inst tmpl (rst b s) = rename (up_from b) (inst tmpl s).
Proof.
  intros b tmpl s H. unfold inst, rst. cbn [sub].
  transitivity (apply (rsub (up_from b) (sub s)) (rename (up_from b) tmpl)).
  - rewrite (rename_small b tmpl H). reflexivity.
  - apply apply_rename. apply up_from_inj.
Qed.

(* variants: an injective renaming does not change the variant normal form *)
Section Canon.
  Variable r : N -> N.
  Hypothesis r_inj : forall x y, r x = r y -> x = y.

  Lemma memN_rename : forall v l, memN (r v) (map r l) = memN v l.
  Proof.
    intros v. induction l as [| y l IH]; [reflexivity |]. cbn [map memN]. rewrite (r_eqb r r_inj), IH. reflexivity.
  Qed.

  Lemma tvars_rename : forall t acc, tvars (rename r t) (map r acc) = map r (tvars t acc).
  Proof.
    induction t as [v | z | n d | bb | f | f args IH] using term_ind'; intros acc; try reflexivity.
    - cbn [rename tvars]. rewrite memN_rename. destruct (memN v acc); [reflexivity |]. rewrite map_app. reflexivity.
    - cbn [rename tvars]. revert acc. induction IH as [| x l Hx _ IHl]; intros acc; cbn [map]; [reflexivity |].
      rewrite Hx. apply IHl.
  Qed.

  Lemma index_of_rename : forall v l i, index_of (r v) (map r l) i = index_of v l i.
  Proof.
    intros v. induction l as [| y l IH]; intros i; [reflexivity |]. cbn [map index_of]. rewrite (r_eqb r r_inj).
    destruct (v =? y); [reflexivity | apply IH].
  Qed.

  Lemma rename_by_rename : forall vs t, rename_by (map r vs) (rename r t) = rename_by vs t.
  Proof.
    intros vs. induction t as [v | z | n d | bb | f | f args IH] using term_ind'; try reflexivity.
    - cbn [rename rename_by]. rewrite index_of_rename. reflexivity.
    - cbn [rename rename_by]. f_equal. rewrite map_map.
      induction IH as [| x l Hx _ IHl]; cbn [map]; [reflexivity |]. rewrite Hx, IHl. reflexivity.
  Qed.

  Lemma canon_rename : forall t, canon (rename r t) = canon t.
  Proof.
    intros t. unfold canon. change (@nil N) with (map r []) at 1. rewrite tvars_rename. apply rename_by_rename.
  Qed.
End Canon.

(* call(G) at the top level: if the query G completes with answers a, so does call(G), and its answers are a with the
   fresh variables (those above the variables of G and of the template) renamed v -> v+1 *)
Theorem call_body_equiv_lemma : forall prog g tmpl n a lg, pure_prog prog -> pure_goal g ->
  solve n prog g tmpl = Done a None lg ->
  exists n', solve n' prog (t_call g) tmpl =
             Done (map (rename (up_from (N.max (nvars g) (nvars tmpl) + 1))) a) None [].
Proof.
  intros prog g tmpl n a lg Hp Hg H.
  destruct (sld_sound_lemma prog g tmpl n a lg Hp Hg H) as (l & Hr & -> & ->).
  set (b := N.max (nvars g) (nvars tmpl) + 1).
  pose proof (proj1 (answers_rename prog b) g (init_state g tmpl) l Hr (N.le_refl _)) as Hr'.
  rewrite rename_small in Hr' by (unfold b; lia).
  apply (proj2 (call_body_rel_lemma prog g tmpl _ [] Hp Hg)).
  exists (map (rst b) l). split; [exact Hr' |]. split; [| reflexivity].
  rewrite !map_map. apply map_ext. intros s. symmetry. apply inst_rename. unfold b. lia.
Qed.

Theorem call_body_variants_lemma : forall prog g tmpl n a lg, pure_prog prog -> pure_goal g ->
  solve n prog g tmpl = Done a None lg ->
  exists n' a', solve n' prog (t_call g) tmpl = Done a' None [] /\ map canon a' = map canon a.
Proof.
  intros prog g tmpl n a lg Hp Hg H. destruct (call_body_equiv_lemma prog g tmpl n a lg Hp Hg H) as [n' Hn'].
  exists n'. eexists. split; [exact Hn' |]. rewrite map_map. apply map_ext. intros t.
  apply canon_rename. apply up_from_inj.
Qed.

(* ================================================================== the relation is a (partial) function *)
Ltac no_user H := solve [vm_compute in H; discriminate H].

(* the relation is functional: order and multiplicity of the answers are determined *)
Lemma answers_functional_all : forall prog,
  (forall g s l, answers_rel prog g s l -> forall l', answers_rel prog g s l' -> l = l') /\
  (forall g l1 l, answers_each prog g l1 l -> forall l', answers_each prog g l1 l' -> l = l') /\
  (forall cls args s l, answers_clauses prog cls args s l -> forall l', answers_clauses prog cls args s l' -> l = l').
Proof.
  intros prog. apply answers_mutind.
  - intros s l' H. inversion H as [| | | | | | | g f args s0 c cls l0 Hu]; subst; [reflexivity | no_user Hu].
  - intros s l' H. inversion H as [| | | | | | | g f args s0 c cls l0 Hu]; subst; [reflexivity | no_user Hu].
  - intros s l' H. inversion H as [| | | | | | | g f args s0 c cls l0 Hu]; subst; [reflexivity | no_user Hu].
  - intros a b s l1 l Ha IHa He IHe l' H.
    inversion H as [| | | a' b' s0 l1' l0 Ha' He' | | | | g f args s0 c cls l0 Hu]; subst; [| no_user Hu].
    rewrite <- (IHa l1' Ha') in He'. apply IHe. exact He'.
  - intros a b s l1 l2 Harr Ha IHa Hb IHb l' H.
    inversion H as [| | | | a' b' s0 l1' l2' Harr' Ha' Hb' | | | g f args s0 c cls l0 Hu]; subst; [| no_user Hu].
    rewrite (IHa l1' Ha'), (IHb l2' Hb'). reflexivity.
  - intros a b s s' Hu l' H.
    inversion H as [| | | | | a' b' s0 s'' Hu' | a' b' s0 Hu' | g f args s0 c cls l0 Hu2]; subst; [| | no_user Hu2].
    + rewrite Hu in Hu'. injection Hu' as <-. reflexivity.
    + rewrite Hu in Hu'. discriminate.
  - intros a b s Hu l' H.
    inversion H as [| | | | | a' b' s0 s'' Hu' | a' b' s0 Hu' | g f args s0 c cls l0 Hu2]; subst; [| | no_user Hu2].
    + rewrite Hu in Hu'. discriminate.
    + reflexivity.
  - intros g f args s c cls l Hu Hcls Hc IH l' H.
    inversion H as [| | | | | | | g' f' args' s0 c' cls' l0 Hu' Hcls' Hc']; subst;
      try no_user Hu.
    rewrite Hu in Hu'. injection Hu' as <- <-. rewrite Hcls in Hcls'. injection Hcls' as <- <-.
    apply IH. exact Hc'.
  - intros g l' H. inversion H. reflexivity.
  - intros g s ss l1 l2 Hr IHr He IHe l' H. inversion H as [| g' s' ss' l1' l2' Hr' He']; subst.
    rewrite (IHr l1' Hr'), (IHe l2' He'). reflexivity.
  - intros args s l' H. inversion H. reflexivity.
  - intros c rest args s l Hu Hr IH l' H.
    inversion H as [| c' rest' args' s0 l0 Hu' Hr' | c' rest' args' s0 s' l1 l2 Hu' Hb' Hr']; subst.
    + apply IH. exact Hr'.
    + rewrite Hu in Hu'. discriminate.
  - intros c rest args s s' l1 l2 Hu Hb IHb Hr IHr l' H.
    inversion H as [| c' rest' args' s0 l0 Hu' Hr' | c' rest' args' s0 s'' l1' l2' Hu' Hb' Hr']; subst.
    + rewrite Hu in Hu'. discriminate.
    + rewrite Hu in Hu'. injection Hu' as <-. rewrite (IHb l1' Hb'), (IHr l2' Hr'). reflexivity.
Qed.

Theorem answers_functional : forall prog g s l l', answers_rel prog g s l -> answers_rel prog g s l' -> l = l'.
Proof. intros prog g s l l' H H'. exact (proj1 (answers_functional_all prog) g s l H l' H'). Qed.

(* ================================================================== derived forms: if-then-else, once, \+ over a pure condition *)
Lemma commit_safe : forall id l, ksafe_on (id + 1) (commit_k id) l.
Proof. intros id l s _. cbn. lia. Qed.

Lemma run_list_commit : forall id s1 rest, run_list (commit_k id) (s1 :: rest) = ([], SCommit id s1).
Proof. intros id s1 rest. cbn [run_list]. apply seq_stop. cbn. discriminate. Qed.

(* ( C -> T ; E ) with a pure condition C: Then runs from the FIRST derivable answer of C (the others are discarded),
   Else runs (from the state at the call, frame id taken) when C has no answer *)
Theorem ite_pure_lemma : forall prog c t e s l, answers_rel prog c (bump s) l ->
  exists n, forall m, (n <= m)%nat -> forall cb k,
    exec (S m) prog (t_ite c t e) cb s k =
      match l with [] => exec m prog e cb (bump s) k | s1 :: _ => exec m prog t cb s1 k end.
Proof.
  intros prog c t e s l Hr. destruct (rel_exec prog c _ l Hr) as [n Hn]. exists n. intros m Hm cb k.
  pose proof (Hn m Hm (ctr s) (commit_k (ctr s)) (ctr s + 1) (N.le_refl _) (commit_safe (ctr s) l)) as E.
  destruct l as [| s1 rest].
  - cbn [run_list] in E. rewrite ite_else_law by (rewrite E; reflexivity). rewrite E. apply pre_nil.
  - rewrite run_list_commit in E. rewrite (ite_then_law m prog c t e cb s k s1) by (rewrite E; reflexivity).
    rewrite E. apply pre_nil.
Qed.

Theorem once_pure_lemma : forall prog g s l, answers_rel prog g (bump s) l ->
  exists n, forall m, (n <= m)%nat -> forall cb k,
    exec (S m) prog (t_once g) cb s k = match l with [] => ([], SNorm) | s1 :: _ => k s1 end.
Proof.
  intros prog g s l Hr. destruct (ite_pure_lemma prog g t_true t_fail s l Hr) as [n Hn]. exists (S n).
  intros m Hm cb k. destruct m as [| m]; [lia |]. rewrite once_law. rewrite (Hn (S m) ltac:(lia) cb k).
  destruct l; reflexivity.
Qed.

Lemma do_call_pure : forall prog g s l, pure_goal g -> answers_rel prog (apply (sub s) g) (bump s) l ->
  exists n, forall m, (n <= m)%nat -> forall k c, c <= ctr s -> ksafe_on c k l ->
    do_call (exec m prog) g [] s k = run_list k l.
Proof.
  intros prog g s l Hg Hr. destruct (rel_exec prog _ _ l Hr) as [n Hn]. exists n.
  intros m Hm k c Hc Hk. unfold do_call.
  rewrite (add_args_nil_pure _ (pure_apply (sub s) g Hg)). rewrite (pure_body_ok _ (pure_apply (sub s) g Hg)).
  rewrite (Hn m Hm (ctr s) k c ltac:(cbn [bump ctr]; lia) Hk).
  apply (uncut_below c); [exact Hc | apply run_list_sig; exact Hk].
Qed.

(* \+ G for a pure G: succeeds once, with no bindings, iff G (instantiated) has no derivable answer *)
Theorem naf_pure_lemma : forall prog g s l, pure_goal g ->
  answers_rel prog (apply (sub s) g) (bump (bump s)) l ->
  exists n, forall m, (n <= m)%nat -> forall cb k,
    exec (S m) prog (t_naf g) cb s k = match l with [] => k (bump s) | _ :: _ => ([], SNorm) end.
Proof.
  intros prog g s l Hg Hr. destruct (do_call_pure prog g (bump s) l Hg Hr) as [n Hn]. exists n. intros m Hm cb k.
  pose proof (Hn m Hm (commit_k (ctr s)) (ctr s + 1) (N.le_refl _) (commit_safe (ctr s) l)) as E.
  destruct l as [| s1 rest].
  - cbn [run_list] in E. rewrite naf_succeeds_law by (rewrite E; reflexivity). rewrite E. apply pre_nil.
  - rewrite run_list_commit in E. rewrite (naf_fails_law m prog g cb s k s1) by (rewrite E; reflexivity).
    rewrite E. reflexivity.
Qed.
