(* Engine/SldProofs.v -- theorems about the reference interpreter Engine/Sld.v:
   fuel monotonicity (a run that completes is independent of the fuel) and the ISO control laws. *)
From Coq Require Import ZArith NArith List Bool Lia.
From V Require Import Base.Term Engine.Sld.
Import ListNotations.
Open Scope N_scope.

(* ================================================================== fuel monotonicity *)
(* o' refines o: either o ran out of fuel, or they are equal *)
Definition ole (o o' : outcome) : Prop := snd o = SAbort ANoFuel \/ o = o'.
Definition kle (k k' : kont) : Prop := forall s, ole (k s) (k' s).
Definition exle (ex ex' : exec_t) : Prop := forall g cb s k k', kle k k' -> ole (ex g cb s k) (ex' g cb s k').

Lemma ole_refl : forall o, ole o o.
Proof. intros o; right; reflexivity. Qed.

Lemma kle_refl : forall k, kle k k.
Proof. intros k s; apply ole_refl. Qed.

Lemma pre_ole : forall ev o o', ole o o' -> ole (pre ev o) (pre ev o').
Proof.
  intros ev o o' [H | H].
  - left. unfold pre. cbn. exact H.
  - right. rewrite H. reflexivity.
Qed.

Lemma seq_ole : forall o o' k2 k2', ole o o' -> ole (k2 tt) (k2' tt) -> ole (seq o k2) (seq o' k2').
Proof.
  intros o o' k2 k2' [H | H] H2.
  - left. unfold seq. rewrite H. exact H.
  - subst o'. unfold seq. destruct (snd o); try apply ole_refl. apply pre_ole. exact H2.
Qed.

Lemma uncut_ole : forall id o o', ole o o' -> ole (uncut id o) (uncut id o').
Proof.
  intros id o o' [H | H].
  - left. unfold uncut. rewrite H. exact H.
  - subst o'. apply ole_refl.
Qed.

Lemma tag_ole : forall id o o', ole o o' -> ole (tag id o) (tag id o').
Proof.
  intros id o o' [H | H].
  - left. unfold tag. rewrite H. exact H.
  - subst o'. apply ole_refl.
Qed.

Lemma commit_kle : forall id, kle (commit_k id) (commit_k id).
Proof. intros id; apply kle_refl. Qed.

(* a tactic for the frequent shape: Ho : ole o o', goal  ole (F o) (F' o')  where F inspects  snd o  first *)
Ltac nofuel H := left; cbn [snd fst]; rewrite H; cbn [snd fst]; try exact H; try reflexivity.

Section Mono.
  Variables ex ex' : exec_t.
  Hypothesis Hex : exle ex ex'.
  (* two programs that agree on the clause list of every predicate (e.g. the same program) *)
  Variables prog prog' : program.
  Hypothesis Hprog : forall f n, clauses_of prog f n = clauses_of prog' f n.

  Lemma do_call_mono : forall g extra s k k', kle k k' -> ole (do_call ex g extra s k) (do_call ex' g extra s k').
  Proof.
    intros g extra s k k' Hk. unfold do_call.
    destruct (add_args (apply (sub s) g) extra) as [goal | formal]; [| apply ole_refl].
    destruct (body_ok goal); [| apply ole_refl].
    apply uncut_ole. apply Hex. exact Hk.
  Qed.

  Lemma try_clauses_mono : forall cls args id s k k', kle k k' ->
    ole (try_clauses ex cls args id s k) (try_clauses ex' cls args id s k').
  Proof.
    induction cls as [| c rest IH]; intros args id s k k' Hk; cbn [try_clauses].
    - apply ole_refl.
    - destruct (unify ufuel (sub s) (zip_terms (map (shift (ctr s)) (head_args (fst c))) args)) as [s' | | r].
      + pose proof (Hex (shift (ctr s) (snd c)) id (mkst s' (ctr s + clause_nvars c)) k k' Hk) as Ho.
        destruct Ho as [Ho | Ho].
        * nofuel Ho.
        * rewrite Ho. destruct (snd (ex' (shift (ctr s) (snd c)) id (mkst s' (ctr s + clause_nvars c)) k')); try apply ole_refl.
          apply pre_ole. apply IH. exact Hk.
      + apply IH. exact Hk.
      + apply ole_refl.
  Qed.

  Lemma try_groups_mono : forall gs wt res s k k', kle k k' ->
    ole (try_groups gs wt res s k) (try_groups gs wt res s k').
  Proof.
    induction gs as [| g rest IH]; intros wt res s k k' Hk; cbn [try_groups].
    - apply ole_refl.
    - destruct (unify ufuel (sub s) (map (fun p => (wt, pair_key p)) g ++ [(res, tlist (map pair_val g))])) as [s' | | r].
      + apply seq_ole. apply Hk. apply IH. exact Hk.
      + apply IH. exact Hk.
      + apply ole_refl.
  Qed.

  Lemma unify_k_mono : forall s a b evs k k', kle k k' -> ole (unify_k s a b evs k) (unify_k s a b evs k').
  Proof.
    intros s a b evs k k' Hk. unfold unify_k.
    destruct (unify ufuel (sub s) [(a, b)]); try apply ole_refl. apply pre_ole. apply Hk.
  Qed.

  Lemma do_ite_mono : forall c t e cb s k k', kle k k' -> ole (do_ite ex c t e cb s k) (do_ite ex' c t e cb s k').
  Proof.
    intros c t e cb s k k' Hk. unfold do_ite.
    pose proof (Hex c (ctr s) (bump s) _ _ (commit_kle (ctr s))) as Ho.
    destruct Ho as [Ho | Ho].
    - nofuel Ho.
    - rewrite Ho. destruct (snd (ex' c (ctr s) (bump s) (commit_k (ctr s)))) as [| id1 | id1 s1 | |]; try apply ole_refl.
      + apply pre_ole. apply Hex. exact Hk.
      + destruct (id1 =? ctr s); [| apply ole_refl]. apply pre_ole. apply Hex. exact Hk.
      + destruct (id1 =? ctr s); [| apply ole_refl]. apply pre_ole. apply Hex. exact Hk.
  Qed.

  Lemma do_naf_mono : forall g1 s k k', kle k k' -> ole (do_naf ex g1 s k) (do_naf ex' g1 s k').
  Proof.
    intros g1 s k k' Hk. unfold do_naf.
    pose proof (do_call_mono g1 [] (bump s) _ _ (commit_kle (ctr s))) as Ho.
    destruct Ho as [Ho | Ho].
    - nofuel Ho.
    - rewrite Ho. destruct (snd (do_call ex' g1 [] (bump s) (commit_k (ctr s)))); try apply ole_refl.
      apply pre_ole. apply Hk.
  Qed.

  Lemma do_catch_mono : forall g1 c r s k k', kle k k' -> ole (do_catch ex g1 c r s k) (do_catch ex' g1 c r s k').
  Proof.
    intros g1 c r s k k' Hk. unfold do_catch.
    assert (Hk2 : kle (fun s' => tag (ctr s) (k s')) (fun s' => tag (ctr s) (k' s'))).
    { intros s'. apply tag_ole. apply Hk. }
    pose proof (do_call_mono g1 [] (bump s) _ _ Hk2) as Ho.
    destruct Ho as [Ho | Ho].
    - nofuel Ho.
    - rewrite Ho. destruct (snd (do_call ex' g1 [] (bump s) (fun s' => tag (ctr s) (k' s')))); try apply ole_refl.
      destruct pass; [apply ole_refl |].
      destruct (unify ufuel (sub (bump s)) [(c, shift (ctr (bump s)) b)]); try apply ole_refl.
      apply pre_ole. apply do_call_mono. exact Hk.
  Qed.

  Lemma collect_mono : forall t g1 s,
    (snd (collect ex t g1 s) = SAbort ANoFuel) \/ collect ex t g1 s = collect ex' t g1 s.
  Proof.
    intros t g1 s. unfold collect.
    pose proof (do_call_mono g1 [] s _ _ (kle_refl (fun s' => ([EAns (apply (sub s') t)], SNorm)))) as Ho.
    destruct Ho as [Ho | Ho].
    - left. destruct (split_events _). cbn. exact Ho.
    - right. rewrite Ho. reflexivity.
  Qed.

  Lemma do_findall_mono : forall t g1 l tl s k k', kle k k' ->
    ole (do_findall ex t g1 l tl s k) (do_findall ex' t g1 l tl s k').
  Proof.
    intros t g1 l tl s k k' Hk. unfold do_findall.
    destruct (negb (can_be_list (apply (sub s) l))); [apply ole_refl |].
    destruct (negb (can_be_list (apply (sub s) tl))); [apply ole_refl |].
    destruct (collect_mono t g1 s) as [Ho | Ho].
    - left. destruct (collect ex t g1 s) as [[anss rest] sg]. cbn in Ho. subst sg. reflexivity.
    - rewrite Ho. destruct (collect ex' t g1 s) as [[anss rest] sg].
      destruct sg; try apply ole_refl.
      destruct (copies (ctr s) anss). apply unify_k_mono. exact Hk.
  Qed.

  Lemma do_bagof_mono : forall set t g1 l s k k', kle k k' ->
    ole (do_bagof ex set t g1 l s k) (do_bagof ex' set t g1 l s k').
  Proof.
    intros set t g1 l s k k' Hk. unfold do_bagof.
    destruct (negb (can_be_list (apply (sub s) l))); [apply ole_refl |].
    destruct (strip_carets _ _ _) as [g0 evars].
    match goal with |- ole (match collect ex ?T ?G s with _ => _ end) _ => destruct (collect_mono T G s) as [Ho | Ho] end.
    - left. destruct (collect ex _ g0 s) as [[anss rest] sg]. cbn in Ho. subst sg. reflexivity.
    - rewrite Ho. destruct (collect ex' _ g0 s) as [[anss rest] sg].
      destruct sg; try apply ole_refl.
      destruct (copies (ctr s) anss). apply pre_ole. apply try_groups_mono. exact Hk.
  Qed.

  Lemma run_cleanup_mono : forall c ev sc sg, ole (run_cleanup ex c ev sc sg) (run_cleanup ex' c ev sc sg).
  Proof.
    intros c ev sc sg. unfold run_cleanup.
    pose proof (do_call_mono c [] (bump sc) _ _ (commit_kle (ctr sc))) as Ho.
    destruct Ho as [Ho | Ho].
    - nofuel Ho.
    - rewrite Ho. apply ole_refl.
  Qed.

  Lemma do_scc_mono : forall st g1 c s k k', kle k k' -> ole (do_scc ex st g1 c s k) (do_scc ex' st g1 c s k').
  Proof.
    intros st g1 c s k k' Hk. unfold do_scc.
    pose proof (do_call_mono st [] (bump s) _ _ (commit_kle (ctr s))) as Ho.
    destruct Ho as [Ho | Ho]; [nofuel Ho |].
    rewrite Ho. destruct (snd (do_call ex' st [] (bump s) (commit_k (ctr s)))) as [| | id' s2 | |]; try apply ole_refl.
    destruct (negb (id' =? ctr s)); [apply ole_refl |].
    destruct (det_syn (term_size g1) g1).
    - pose proof (do_call_mono g1 [] (bump s2) _ _ (commit_kle (ctr s2))) as Hg.
      destruct Hg as [Hg | Hg]; [nofuel Hg |].
      rewrite Hg.
      destruct (snd (do_call ex' g1 [] (bump s2) (commit_k (ctr s2)))) as [| | id3 s3 | |]; try apply run_cleanup_mono.
      + destruct (negb (id3 =? ctr s2)); [apply ole_refl |].
        pose proof (run_cleanup_mono c (fst (do_call ex' st [] (bump s) (commit_k (ctr s))) ++ fst (do_call ex' g1 [] (bump s2) (commit_k (ctr s2)))) s3 SNorm) as Hc.
        destruct Hc as [Hc | Hc]; [nofuel Hc |].
        rewrite Hc. destruct (snd (run_cleanup ex' c _ s3 SNorm)); try apply ole_refl.
        apply pre_ole. apply Hk.
      + apply ole_refl.
    - pose proof (do_call_mono g1 [] s2 _ _ Hk) as Hg.
      destruct Hg as [Hg | Hg]; [nofuel Hg |].
      rewrite Hg.
      destruct (snd (do_call ex' g1 [] s2 k')); try apply run_cleanup_mono.
      apply ole_refl.
  Qed.

  Lemma exec_step_mono : forall g cb s k k', kle k k' ->
    ole (exec_step ex prog g cb s k) (exec_step ex' prog' g cb s k').
  Proof.
    intros g cb s k k' Hk. unfold exec_step.
    destruct (classify g).
    - apply Hk.
    - apply ole_refl.
    - destruct (Hk s) as [H | H]; [nofuel H | rewrite H; apply ole_refl].
    - apply Hex. intros s'. apply Hex. exact Hk.
    - apply seq_ole; apply Hex; exact Hk.
    - apply do_ite_mono; exact Hk.
    - apply do_naf_mono; exact Hk.
    - apply do_call_mono; exact Hk.
    - unfold do_user. rewrite <- Hprog. destruct (clauses_of prog f (List.length args)); [apply ole_refl |].
      apply try_clauses_mono; exact Hk.
    - unfold do_det. destruct (run_det d s); try apply ole_refl. apply Hk.
    - apply pre_ole. apply Hk.
    - apply ole_refl.
    - apply do_catch_mono; exact Hk.
    - apply do_findall_mono; exact Hk.
    - apply do_findall_mono; exact Hk.
    - apply do_bagof_mono; exact Hk.
    - apply Hex; exact Hk.
    - apply do_scc_mono; exact Hk.
    - apply ole_refl.
  Qed.
End Mono.

Lemma exec_mono2 : forall prog prog', (forall f n, clauses_of prog f n = clauses_of prog' f n) ->
  forall n m, (n <= m)%nat -> exle (exec n prog) (exec m prog').
Proof.
  intros prog prog' Hp n. induction n as [| n IH]; intros m Hle g cb s k k' Hk.
  - left. reflexivity.
  - destruct m as [| m]; [lia |]. cbn [exec].
    apply exec_step_mono; [| exact Hp | exact Hk]. apply IH. lia.
Qed.

Lemma exec_mono : forall prog n m, (n <= m)%nat -> exle (exec n prog) (exec m prog).
Proof. intros prog. apply exec_mono2. reflexivity. Qed.

Lemma solve_raw_mono : forall prog q tmpl n m, (n <= m)%nat ->
  ole (solve_raw n prog q tmpl) (solve_raw m prog q tmpl).
Proof.
  intros prog q tmpl n m Hle. unfold solve_raw. apply exec_mono; [exact Hle | apply kle_refl].
Qed.

(* a run that completes (anything but NoFuel) gives the same result with any larger fuel *)
Theorem solve_fuel_mono_lemma : forall prog q tmpl n m, (n <= m)%nat ->
  solve n prog q tmpl <> NoFuel -> solve m prog q tmpl = solve n prog q tmpl.
Proof.
  intros prog q tmpl n m Hle Hnf. unfold solve in *.
  destruct (solve_raw_mono prog q tmpl n m Hle) as [H | H].
  - exfalso. apply Hnf. unfold result_of. rewrite H. reflexivity.
  - rewrite H. reflexivity.
Qed.

Theorem solve_done_mono : forall prog q tmpl n m a b l, (n <= m)%nat ->
  solve n prog q tmpl = Done a b l -> solve m prog q tmpl = Done a b l.
Proof.
  intros prog q tmpl n m a b l Hle H. rewrite <- H. apply solve_fuel_mono_lemma; [exact Hle |].
  rewrite H. discriminate.
Qed.

(* the interpreter looks at the program only through clauses_of: programs with the same per-predicate clause
   sequences give the same completed runs *)
Theorem solve_depends_on_clauses_of : forall prog prog' q tmpl n a b l,
  (forall f k, clauses_of prog f k = clauses_of prog' f k) ->
  solve n prog q tmpl = Done a b l -> solve n prog' q tmpl = Done a b l.
Proof.
  intros prog prog' q tmpl n a b l Hp H. unfold solve in *.
  assert (Ho : ole (solve_raw n prog q tmpl) (solve_raw n prog' q tmpl)).
  { unfold solve_raw. apply (exec_mono2 prog prog' Hp n n); [lia | apply kle_refl]. }
  destruct Ho as [Ho | Ho].
  - unfold result_of in H. rewrite Ho in H. discriminate.
  - rewrite <- Ho. exact H.
Qed.

(* ================================================================== control laws *)
(* a run of query q for the answer template tmpl, with the variables of q and tmpl below c *)
Definition run (c : N) (n : nat) (prog : program) (q tmpl : term) : outcome :=
  exec n prog q c (mkst [] (c + 1)) (top_k tmpl).

Lemma solve_raw_is_run : forall n prog q tmpl,
  solve_raw n prog q tmpl = run (N.max (nvars q) (nvars tmpl)) n prog q tmpl.
Proof. reflexivity. Qed.

Definition t_conj (a b : term) : term := Cmp n_comma [a; b].
Definition t_disj (a b : term) : term := Cmp n_semi [a; b].
Definition t_ite (c t e : term) : term := Cmp n_semi [Cmp n_arrow [c; t]; e].
Definition t_naf (g : term) : term := Cmp n_naf [g].
Definition t_call (g : term) : term := Cmp n_call [g].
Definition t_once (g : term) : term := Cmp n_once [g].
Definition t_cut : term := Atom n_cut.

Lemma pre_nil : forall o, pre [] o = o.
Proof. intros [ev sg]. reflexivity. Qed.

Lemma exec_S : forall n prog g cb s k, exec (S n) prog g cb s k = exec_step (exec n prog) prog g cb s k.
Proof. reflexivity. Qed.

(* (G1 , G2): G2 is run, in order, on every solution of G1 *)
Theorem conj_law : forall n prog a b cb s k,
  exec (S n) prog (t_conj a b) cb s k = exec n prog a cb s (fun s' => exec n prog b cb s' k).
Proof. reflexivity. Qed.

Theorem true_law : forall n prog cb s k, exec (S n) prog t_true cb s k = k s.
Proof. reflexivity. Qed.

Theorem fail_law : forall n prog cb s k, exec (S n) prog t_fail cb s k = ([], SNorm).
Proof. reflexivity. Qed.

(* (true , G) = G *)
Theorem true_conj_law : forall n prog g cb s k,
  exec (S (S n)) prog (t_conj t_true g) cb s k = exec (S n) prog g cb s k.
Proof. reflexivity. Qed.

Theorem solve_true_conj : forall n prog g tmpl,
  solve (S (S n)) prog (t_conj t_true g) tmpl = solve (S n) prog g tmpl.
Proof.
  intros n prog g tmpl. unfold solve, solve_raw.
  assert (Hv : nvars (t_conj t_true g) = nvars g).
  { unfold t_conj, t_true. cbn [nvars fold_right]. lia. }
  rewrite Hv. rewrite true_conj_law. reflexivity.
Qed.

(* (G1 ; G2), G1 not an if-then: the solutions of G1 followed by the solutions of G2, unless G1 ends with a cut or an exception *)
Theorem disj_law : forall n prog a b cb s k, is_arrow a = None ->
  exec (S n) prog (t_disj a b) cb s k = seq (exec n prog a cb s k) (fun _ => exec n prog b cb s k).
Proof.
  intros n prog a b cb s k Ha. rewrite exec_S. unfold exec_step, t_disj.
  change (classify (Cmp n_semi [a; b])) with (match is_arrow a with Some (c, th) => GIte c th b | None => GDisj a b end).
  rewrite Ha. reflexivity.
Qed.

Lemma answers_app : forall e1 e2, answers_of (e1 ++ e2) = answers_of e1 ++ answers_of e2.
Proof. induction e1 as [| [t | t] r IH]; intros e2; cbn; [reflexivity | rewrite IH; reflexivity | apply IH]. Qed.

Lemma log_app : forall e1 e2, log_of (e1 ++ e2) = log_of e1 ++ log_of e2.
Proof. induction e1 as [| [t | t] r IH]; intros e2; cbn; [reflexivity | apply IH | rewrite IH; reflexivity]. Qed.

(* answers (G1 ; G2) = answers G1 ++ answers G2 (and the logs, and the exception of G2) when the run of G1 ends normally *)
Theorem disj_answers_law : forall c n prog a b tmpl, is_arrow a = None ->
  snd (run c n prog a tmpl) = SNorm ->
  answers_of (fst (run c (S n) prog (t_disj a b) tmpl)) =
    answers_of (fst (run c n prog a tmpl)) ++ answers_of (fst (run c n prog b tmpl))
  /\ log_of (fst (run c (S n) prog (t_disj a b) tmpl)) =
    log_of (fst (run c n prog a tmpl)) ++ log_of (fst (run c n prog b tmpl))
  /\ snd (run c (S n) prog (t_disj a b) tmpl) = snd (run c n prog b tmpl).
Proof.
  intros c n prog a b tmpl Ha Hn. unfold run in *. rewrite disj_law by exact Ha.
  unfold seq. rewrite Hn. unfold pre. cbn [fst snd].
  rewrite answers_app, log_app. auto.
Qed.

(* (fail ; G) = G *)
Theorem fail_disj_law : forall n prog g cb s k,
  exec (S (S n)) prog (t_disj t_fail g) cb s k = exec (S n) prog g cb s k.
Proof.
  intros. rewrite disj_law by reflexivity. rewrite fail_law. unfold seq. cbn [snd fst]. apply pre_nil.
Qed.

(* cut: the continuation runs, then the alternatives up to the clause's frame are discarded *)
Theorem cut_law : forall n prog cb s k, snd (k s) = SNorm ->
  exec (S n) prog t_cut cb s k = (fst (k s), SCut cb).
Proof. intros n prog cb s k H. rewrite exec_S. unfold exec_step. cbn. rewrite H. reflexivity. Qed.

(* a clause body that ends with a cut signal for its own frame: the remaining clauses are not tried *)
Theorem clause_cut_law : forall ex c rest args id s k s' o,
  unify ufuel (sub s) (zip_terms (map (shift (ctr s)) (head_args (fst c))) args) = UOk s' ->
  o = ex (shift (ctr s) (snd c)) id (mkst s' (ctr s + clause_nvars c)) k ->
  snd o = SCut id ->
  try_clauses ex (c :: rest) args id s k = (fst o, SNorm).
Proof.
  intros ex c rest args id s k s' o Hu Ho Hc. cbn [try_clauses]. rewrite Hu. rewrite <- Ho. rewrite Hc.
  rewrite N.eqb_refl. reflexivity.
Qed.

(* ... and without a cut the next clauses are tried after it *)
Theorem clause_next_law : forall ex c rest args id s k s' o,
  unify ufuel (sub s) (zip_terms (map (shift (ctr s)) (head_args (fst c))) args) = UOk s' ->
  o = ex (shift (ctr s) (snd c)) id (mkst s' (ctr s + clause_nvars c)) k ->
  snd o = SNorm ->
  try_clauses ex (c :: rest) args id s k = pre (fst o) (try_clauses ex rest args id s k).
Proof.
  intros ex c rest args id s k s' o Hu Ho Hc. cbn [try_clauses]. rewrite Hu. rewrite <- Ho. rewrite Hc. reflexivity.
Qed.

(* call/N is opaque to cut: it never passes on a cut signal for its own frame *)
Theorem call_opaque_law : forall ex g extra s k id,
  snd (do_call ex g extra s k) = SCut id -> id <> ctr s.
Proof.
  intros ex g extra s k id H. unfold do_call in H.
  destruct (add_args (apply (sub s) g) extra) as [goal | formal]; [| cbn in H; discriminate].
  destruct (body_ok goal); [| cbn in H; discriminate].
  unfold uncut in H.
  destruct (ex goal (ctr s) (bump s) k) as [ev sg].
  cbn [snd fst] in H.
  destruct sg as [| id1 | | |]; cbn [snd] in H; try discriminate.
  destruct (id1 =? ctr s) eqn:E2; cbn [snd] in H.
  - discriminate.
  - injection H as H. subst id1. apply N.eqb_neq. exact E2.
Qed.

(* call((G, !)) at clause level: the cut inside call/1 does not cut the caller: the signal of call(G) is never the caller's
   own cut unless the continuation raised it -- and the whole  \+ , once, -> condition constructs are built on do_call / a fresh frame *)

(* if-then-else: Then runs on the FIRST solution of the condition (its other solutions are discarded) *)
Theorem ite_then_law : forall n prog c t e cb s k s',
  snd (exec n prog c (ctr s) (bump s) (commit_k (ctr s))) = SCommit (ctr s) s' ->
  exec (S n) prog (t_ite c t e) cb s k =
    pre (fst (exec n prog c (ctr s) (bump s) (commit_k (ctr s)))) (exec n prog t cb s' k).
Proof.
  intros n prog c t e cb s k s' H. rewrite exec_S. unfold exec_step.
  change (classify (t_ite c t e)) with (GIte c t e). unfold do_ite. rewrite H. rewrite N.eqb_refl. reflexivity.
Qed.

(* ... and Else runs, with no bindings from the condition, when the condition has no solution *)
Theorem ite_else_law : forall n prog c t e cb s k,
  snd (exec n prog c (ctr s) (bump s) (commit_k (ctr s))) = SNorm ->
  exec (S n) prog (t_ite c t e) cb s k =
    pre (fst (exec n prog c (ctr s) (bump s) (commit_k (ctr s)))) (exec n prog e cb (bump s) k).
Proof.
  intros n prog c t e cb s k H. rewrite exec_S. unfold exec_step.
  change (classify (t_ite c t e)) with (GIte c t e). unfold do_ite. rewrite H. reflexivity.
Qed.

(* a cut inside the condition is local to the condition *)
Theorem ite_cond_cut_local_law : forall n prog c t e cb s k,
  snd (exec n prog c (ctr s) (bump s) (commit_k (ctr s))) = SCut (ctr s) ->
  exec (S n) prog (t_ite c t e) cb s k =
    pre (fst (exec n prog c (ctr s) (bump s) (commit_k (ctr s)))) (exec n prog e cb (bump s) k).
Proof.
  intros n prog c t e cb s k H. rewrite exec_S. unfold exec_step.
  change (classify (t_ite c t e)) with (GIte c t e). unfold do_ite. rewrite H. rewrite N.eqb_refl. reflexivity.
Qed.

(* \+ G succeeds exactly once, without bindings, iff call(G) has no solution; it fails iff call(G) has one *)
Theorem naf_succeeds_law : forall n prog g cb s k,
  snd (do_call (exec n prog) g [] (bump s) (commit_k (ctr s))) = SNorm ->
  exec (S n) prog (t_naf g) cb s k =
    pre (fst (do_call (exec n prog) g [] (bump s) (commit_k (ctr s)))) (k (bump s)).
Proof.
  intros n prog g cb s k H. rewrite exec_S. unfold exec_step.
  change (classify (t_naf g)) with (GNaf g). unfold do_naf. rewrite H. reflexivity.
Qed.

Theorem naf_fails_law : forall n prog g cb s k s',
  snd (do_call (exec n prog) g [] (bump s) (commit_k (ctr s))) = SCommit (ctr s) s' ->
  exec (S n) prog (t_naf g) cb s k = (fst (do_call (exec n prog) g [] (bump s) (commit_k (ctr s))), SNorm).
Proof.
  intros n prog g cb s k s' H. rewrite exec_S. unfold exec_step.
  change (classify (t_naf g)) with (GNaf g). unfold do_naf. rewrite H. rewrite N.eqb_refl. reflexivity.
Qed.

(* once(G) = (G -> true ; fail): only the first solution of G *)
Theorem once_law : forall n prog g cb s k,
  exec (S n) prog (t_once g) cb s k = exec (S n) prog (t_ite g t_true t_fail) cb s k.
Proof. reflexivity. Qed.

Theorem once_first_law : forall n prog g cb s k s',
  snd (exec (S n) prog g (ctr s) (bump s) (commit_k (ctr s))) = SCommit (ctr s) s' ->
  exec (S (S n)) prog (t_once g) cb s k =
    pre (fst (exec (S n) prog g (ctr s) (bump s) (commit_k (ctr s)))) (k s').
Proof.
  intros n prog g cb s k s' H. rewrite once_law. rewrite (ite_then_law (S n) prog g t_true t_fail cb s k s' H).
  reflexivity.
Qed.

(* forall(C, A) is \+ (C, \+ A) *)
Theorem forall_law : forall n prog c a cb s k,
  exec (S n) prog (Cmp n_forall [c; a]) cb s k = exec n prog (t_naf (t_conj c (t_naf a))) cb s k.
Proof. reflexivity. Qed.
