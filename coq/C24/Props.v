(* C24 -- pinned property theorems (nothing else lives here) *)
From Coq Require Import ZArith NArith List Bool.
From V Require Import Base.Term C10.Model C24.Model C24.Proofs.
Import ListNotations.

(* acyclic_term: the bounded test is true exactly when no cycle is reachable from the root, and exactly when the
   unfolding is complete at some depth (the infinite-tree reading is a finite tree) *)
Theorem acyclic_dec_correct : forall g r,
  (acyclic_dec g r = true <-> ~ exists j, reach g r j /\ on_cycle g j) /\
  (acyclic_dec g r = true <-> exists n, finite_within n g r = true).
Proof. exact acyclic_correct. Qed.
Print Assumptions acyclic_dec_correct.

(* ... and then the unfolding stabilises: every deeper unfolding is the same finite term *)
Theorem acyclic_unfolding_stabilises : forall g r, acyclic_dec g r = true ->
  forall m, S (length g) <= m -> unfold m g r = unfold (S (length g)) g r.
Proof. exact acyclic_unfold_stable. Qed.
Print Assumptions acyclic_unfolding_stabilises.

(* a cyclic root is never completely unfolded at any depth: the depth bound |g|+1 loses nothing *)
Theorem cyclic_is_infinite : forall g r, acyclic_dec g r = false -> forall n, finite_within n g r = false.
Proof. exact cyclic_never_complete. Qed.
Print Assumptions cyclic_is_infinite.

(* ==, compare = '=': when the pair worklist with its visited set answers true the two roots denote the same tree *)
Theorem bisim_dec_sound : forall g a b, bisim_dec g a b = Some true -> forall n, unfold n g a = unfold n g b.
Proof. exact bisim_sound. Qed.
Print Assumptions bisim_dec_sound.

(* it never answers false for equal trees (partial completeness: sufficiency of the fuel (|g|^2+1)(arity+1)+1 is not proved) *)
Theorem bisim_dec_complete_partial : forall g a b, no_bad_atom g -> (forall n, unfold n g a = unfold n g b) ->
  bisim_dec g a b <> Some false.
Proof. exact bisim_complete_partial. Qed.
Print Assumptions bisim_dec_complete_partial.

(* non-vacuity: X = f(X), Y = f(f(Y)) are cyclic and bisimilar; g(X, a) with X = f(X) is cyclic; f(a) is not *)
Definition fn : list N := [102%N]. Definition gn : list N := [103%N]. Definition an : list N := [97%N].
Definition g1 : graph := [NFun fn [0]; NFun fn [2]; NFun fn [1]; NFun gn [0; 4]; NFun an []; NFun fn [4]].
Example ex_cyclic : acyclic_dec g1 0 = false /\ acyclic_dec g1 3 = false /\ acyclic_dec g1 5 = true /\ acyclic_dec g1 4 = true.
Proof. vm_compute. auto. Qed.
Example ex_bisim : bisim_dec g1 0 1 = Some true /\ bisim_dec g1 1 2 = Some true /\ bisim_dec g1 0 5 = Some false /\ bisim_dec g1 0 3 = Some false.
Proof. vm_compute. auto. Qed.
Example ex_unfold : unfold 3 g1 3 = Cmp gn [Cmp fn [Cmp fn [Atom cut_name]]; Atom an].
Proof. vm_compute. reflexivity. Qed.
Example ex_unify : unify_nodes g1 0 1 = Some true /\ unify_nodes g1 0 5 = Some false.
Proof. vm_compute. auto. Qed.
Example ex_no_bad : no_bad_atom g1.
Proof. intros i f ss H Q. subst f. do 6 (destruct i as [|i]; [simpl in H; inversion H|]). destruct i; discriminate. Qed.
