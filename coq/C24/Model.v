(* C24 -- finite term graphs and their infinite-tree reading.
   A graph is a list of nodes; a node is an unbound variable or a functor with the indices of its
   successor nodes (an atom is a functor without successors).  The term denoted by a node is the
   (possibly infinite) tree obtained by unfolding; [unfold n] is its depth-n approximation with a
   cut-off leaf.  All functions are total (structural recursion on a fuel whose sufficiency, where it
   matters, is proved in Proofs.v).  No proofs in this file. *)
From Coq Require Import ZArith NArith List Bool.
From V Require Import Base.Term C10.Model.
Import ListNotations.

Inductive node := NVar | NFun (f : list N) (ss : list nat).
Definition graph := list node.

Definition cut_name : list N := [36; 99; 117; 116]%N.     (* $cut *)
Definition bad_name : list N := [36; 98; 97; 100]%N.      (* $bad: a successor index outside the graph *)
Definition cut : term := Atom cut_name.
Definition bad : term := Atom bad_name.

(* depth-n unfolding of node i; the variable node i is the variable number i *)
Fixpoint unfold (n : nat) (g : graph) (i : nat) : term :=
  match n with
  | O => cut
  | S k => match nth_error g i with
           | Some NVar => Var (N.of_nat i)
           | Some (NFun f ss) => match ss with [] => Atom f | _ => Cmp f (map (unfold k g) ss) end
           | None => bad
           end
  end.

(* the unfolding to depth n is complete: no path of n nodes starts at i *)
Fixpoint finite_within (n : nat) (g : graph) (i : nat) : bool :=
  match n with
  | O => false
  | S k => match nth_error g i with
           | Some (NFun _ ss) => forallb (finite_within k g) ss
           | _ => true
           end
  end.

(* acyclic_term/1: by the pigeonhole principle |g|+1 is a sufficient depth (no well-formedness needed) *)
Definition acyclic_dec (g : graph) (i : nat) : bool := finite_within (S (length g)) g i.

Definition succs (g : graph) (i : nat) : list nat :=
  match nth_error g i with Some (NFun _ ss) => ss | _ => [] end.

Definition wf (g : graph) : Prop := forall i j, In j (succs g i) -> j < length g.
Definition wf_dec (g : graph) : bool :=
  forallb (fun x => match x with NVar => true | NFun _ ss => forallb (fun j => Nat.ltb j (length g)) ss end) g.

(* ------------------------------------------------------------------ bisimilarity (==, compare = '=') *)
Inductive stepres := Clash | Next (ps : list (nat * nat)).

Definition step (g : graph) (i j : nat) : stepres :=
  match nth_error g i, nth_error g j with
  | Some NVar, Some NVar => if Nat.eqb i j then Next [] else Clash
  | Some (NFun f ss), Some (NFun f' ss') =>
      if name_eqb f f' && Nat.eqb (length ss) (length ss') then Next (combine ss ss') else Clash
  | None, None => Next []
  | _, _ => Clash
  end.

Definition pair_mem (p : nat * nat) (l : list (nat * nat)) : bool :=
  existsb (fun q => Nat.eqb (fst p) (fst q) && Nat.eqb (snd p) (snd q)) l.

(* worklist over pairs with a visited set; None = out of fuel *)
Fixpoint bisim_loop (fuel : nat) (g : graph) (vis work : list (nat * nat)) : option bool :=
  match fuel with
  | O => None
  | S k =>
    match work with
    | [] => Some true
    | (i, j) :: rest =>
        if Nat.eqb i j then bisim_loop k g vis rest
        else if pair_mem (i, j) vis then bisim_loop k g vis rest
        else match step g i j with
             | Clash => Some false
             | Next ps => bisim_loop k g ((i, j) :: vis) (ps ++ rest)
             end
    end
  end.

(* every node has at most |g| successors in a well-formed graph of our signature; the bound below is generous:
   at most |g|^2 pairs are ever added to [vis], each adds at most max-arity pairs to the worklist *)
Definition max_arity (g : graph) : nat :=
  fold_right Nat.max 0 (map (fun x => match x with NVar => 0 | NFun _ ss => length ss end) g).
Definition bisim_fuel (g : graph) : nat := S (S (length g * length g) * S (max_arity g)).
Definition bisim_dec (g : graph) (a b : nat) : option bool := bisim_loop (bisim_fuel g) g [] [(a, b)].

(* ------------------------------------------------------------------ reachability, ground/1, term_variables/2 *)
Definition nat_mem (x : nat) (l : list nat) : bool := existsb (Nat.eqb x) l.

(* depth-first, left-to-right; [seen] in order of first visit *)
Fixpoint dfs (fuel : nat) (g : graph) (stack seen : list nat) : list nat :=
  match fuel with
  | O => seen
  | S k => match stack with
           | [] => seen
           | i :: rest => if nat_mem i seen then dfs k g rest seen
                          else dfs k g (succs g i ++ rest) (seen ++ [i])
           end
  end.

Definition dfs_fuel (g : graph) : nat := S (length g * S (S (max_arity g))).
Definition reachable (g : graph) (a : nat) : list nat := dfs (dfs_fuel g) g [a] [].
Definition is_var_node (g : graph) (i : nat) : bool := match nth_error g i with Some NVar => true | _ => false end.
Definition vars_dfs (g : graph) (a : nat) : list nat := filter (is_var_node g) (reachable g a).
Definition ground_dec (g : graph) (a : nat) : bool := match vars_dfs g a with [] => true | _ => false end.

(* ------------------------------------------------------------------ unification of two nodes as rational trees *)
(* the graph is a solved system  x_i = f(x_j, ...): node variables are numbered 1000+i, variable nodes i;
   A = B is solvable over rational trees iff the whole system with the extra equation is (C10 unify_rt) *)
Definition nvar (g : graph) (i : nat) : term := if is_var_node g i then Var (N.of_nat i) else Var (N.of_nat (1000 + i)).
Definition node_eqs (g : graph) : list eqn :=
  flat_map (fun p => match snd p with
                     | NVar => []
                     | NFun f ss => [(Var (N.of_nat (1000 + fst p)),
                                      match ss with [] => Atom f | _ => Cmp f (map (nvar g) ss) end)]
                     end) (combine (seq 0 (length g)) g).
Definition unify_nodes (g : graph) (a b : nat) : option bool :=
  let eqs := node_eqs g ++ [(nvar g a, nvar g b)] in
  let n := eqs_size eqs in
  rt_loop (S (2 * n * n)) [] [] eqs.

(* ------------------------------------------------------------------ what the implementation showed for one graph *)
Record obs := mkObs {
  o_unf0 : term;          (* depth-D unfolding of A read off the constructed term *)
  o_unfB : term;          (* the same for B *)
  o_acyclic : bool;       (* acyclic_term(A) *)
  o_unf1 : term;          (* unfolding of A after acyclic_term(A) ran *)
  o_same_after : bool;    (* A == A2 after acyclic_term(A), A2 an identically built second copy *)
  o_ground : bool;        (* ground(A) *)
  o_tvars : list nat;     (* term_variables(A, Vs): node indices of Vs *)
  o_eq : bool;            (* A == B *)
  o_cmp_ab : N;           (* compare(O, A, B): 0 '<', 1 '=', 2 '>' *)
  o_cmp_ba : N;
  o_copy_unf : term;      (* unfolding of the copy C made by copy_term(A, C) (its variables numbered 2000+k) *)
  o_copy_eq : bool;       (* C == A *)
  o_unify : bool;         (* A = B succeeds (run last, on the second copy) *)
  o_unify_same : bool     (* ... and then A == B *)
}.

Definition depth_D : nat := 4.

Definition beq (a b : bool) : bool := Bool.eqb a b.

(* the individual comparisons, in a fixed order (the check reports the index of a failing one):
   0 well-formed graph, 1 construction of A, 2 construction of B, 3 acyclic_term/1, 4 A unchanged by acyclic_term (unfolding),
   5 A == second copy after acyclic_term, 6 ground/1, 7 term_variables/2, 8 ==/2 and compare/3 '=' iff bisimilar,
   9 compare/3 antisymmetric, 10 copy_term/2 bisimilar up to renaming, 11 copy == original iff ground, 12 =/2 *)
Definition check_fields (g : graph) (a b : nat) (o : obs) : list bool :=
  [ wf_dec g;
    term_eqb (o_unf0 o) (unfold depth_D g a);
    term_eqb (o_unfB o) (unfold depth_D g b);
    beq (o_acyclic o) (acyclic_dec g a);
    term_eqb (o_unf1 o) (unfold depth_D g a);
    o_same_after o;
    beq (o_ground o) (ground_dec g a);
    (* a finite term: the variables in depth-first left-to-right order of first occurrence; a cyclic term: the infinite tree
       has no first-occurrence order, so the same variables, each once, in any order *)
    (if acyclic_dec g a then list_eqb Nat.eqb (o_tvars o) (vars_dfs g a)
     else Nat.eqb (List.length (o_tvars o)) (List.length (vars_dfs g a))
          && forallb (fun x => existsb (Nat.eqb x) (vars_dfs g a)) (o_tvars o)
          && forallb (fun x => existsb (Nat.eqb x) (o_tvars o)) (vars_dfs g a));
    match bisim_dec g a b with
    | Some r => beq (o_eq o) r && beq (N.eqb (o_cmp_ab o) 1) r && beq (N.eqb (o_cmp_ba o) 1) r
    | None => false
    end;
    N.eqb (o_cmp_ab o + o_cmp_ba o) 2;
    variant_lists [o_copy_unf o] [unfold depth_D g a];
    (if ground_dec g a then o_copy_eq o else negb (o_copy_eq o));
    match unify_nodes g a b with
    | Some r => beq (o_unify o) r && (if r then o_unify_same o else true)
    | None => false
    end ].

Definition check_graph (g : graph) (a b : nat) (o : obs) : bool := forallb (fun x => x) (check_fields g a b o).
Definition check_field (k : nat) (g : graph) (a b : nat) (o : obs) : bool := nth k (check_fields g a b o) false.
