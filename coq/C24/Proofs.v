(* C24 -- proofs about term graphs: acyclicity test and bisimilarity test *)
From Coq Require Import ZArith NArith List Bool Lia Arith.
From V Require Import Base.Term C10.Model C10.Proofs C24.Model.
Import ListNotations.

(* ------------------------------------------------------------------ finite_within *)
Lemma fw_S : forall k g i, finite_within (S k) g i =
  match nth_error g i with Some (NFun _ ss) => forallb (finite_within k g) ss | _ => true end.
Proof. reflexivity. Qed.

Lemma unfold_S : forall k g i, unfold (S k) g i =
  match nth_error g i with
  | Some NVar => Var (N.of_nat i)
  | Some (NFun f ss) => match ss with [] => Atom f | _ => Cmp f (map (unfold k g) ss) end
  | None => bad
  end.
Proof. reflexivity. Qed.

Lemma fw_mono1 : forall n g i, finite_within n g i = true -> finite_within (S n) g i = true.
Proof.
  induction n as [|k IH]; intros g i H. discriminate.
  rewrite fw_S in *. destruct (nth_error g i) as [[|f ss]|]; auto.
  rewrite forallb_forall in *. intros j Hj. apply IH. apply H. exact Hj.
Qed.

Lemma fw_mono : forall n m g i, n <= m -> finite_within n g i = true -> finite_within m g i = true.
Proof. intros n m g i L H. induction L; auto. apply fw_mono1. auto. Qed.

(* a node that needs exactly depth m *)
Definition exact (g : graph) (m : nat) (j : nat) : Prop :=
  finite_within m g j = true /\ finite_within (pred m) g j = false.

Lemma exact_unique : forall g m m' j, exact g m j -> exact g m' j -> m = m'.
Proof.
  intros g m m' j [H1 H2] [H3 H4].
  destruct (lt_eq_lt_dec m m') as [[L|E]|L]; auto; exfalso.
  - assert (Q : finite_within (pred m') g j = true) by (apply (fw_mono m); auto; lia). congruence.
  - assert (Q : finite_within (pred m) g j = true) by (apply (fw_mono m'); auto; lia). congruence.
Qed.

Lemma fw_false_node : forall k g i, finite_within (S k) g i = false ->
  exists f ss j, nth_error g i = Some (NFun f ss) /\ In j ss /\ finite_within k g j = false.
Proof.
  intros k g i H. rewrite fw_S in H. destruct (nth_error g i) as [[|f ss]|]; try discriminate.
  assert (Q : exists j, In j ss /\ finite_within k g j = false).
  { clear -H. induction ss as [|a r IH]; simpl in H. discriminate.
    destruct (finite_within k g a) eqn:E.
    - simpl in H. destruct (IH H) as [j [Hj Hf]]. exists j. split; auto. right. auto.
    - exists a. split; auto. left. auto. }
  destruct Q as [j [Hj Hf]]. exists f, ss, j. auto.
Qed.

Lemma fw_true_succ : forall k g i f ss j, finite_within (S k) g i = true ->
  nth_error g i = Some (NFun f ss) -> In j ss -> finite_within k g j = true.
Proof.
  intros k g i f ss j H N Hj. rewrite fw_S, N in H. rewrite forallb_forall in H. auto.
Qed.

(* a node of exact depth k+2 starts a chain of k+1 distinct valid nodes of exact depths k+2 .. 2 *)
Lemma chain : forall k g i, finite_within (S (S k)) g i = true -> finite_within (S k) g i = false ->
  exists l, length l = S k /\ NoDup l /\ (forall j, In j l -> j < length g) /\
            (forall j, In j l -> exists m, 2 <= m <= S (S k) /\ exact g m j).
Proof.
  induction k as [|k IH]; intros g i Ht Hf.
  - destruct (fw_false_node _ _ _ Hf) as [f [ss [j [N _]]]].
    exists [i]. split; auto. split. constructor; auto. constructor. split.
    + intros j' [E|[]]. subst. apply nth_error_Some. congruence.
    + intros j' [E|[]]. subst. exists 2. split. lia. split; auto.
  - destruct (fw_false_node _ _ _ Hf) as [f [ss [j [N [Hj Hfj]]]]].
    pose proof (fw_true_succ _ _ _ _ _ _ Ht N Hj) as Htj.
    destruct (IH g j Htj Hfj) as [l [L [ND [V R]]]].
    exists (i :: l). split. simpl. lia. split.
    + constructor; auto. intro Q. destruct (R i Q) as [m [Hm Em]].
      assert (Ei : exact g (S (S (S k))) i) by (split; auto).
      pose proof (exact_unique _ _ _ _ Em Ei). lia.
    + split.
      * intros j' [E|Q]. subst. apply nth_error_Some. congruence. auto.
      * intros j' [E|Q]. subst. exists (S (S (S k))). split. lia. split; auto.
        destruct (R j' Q) as [m [Hm Em]]. exists m. split; auto. lia.
Qed.

Lemma rank_bound : forall k g i, finite_within (S (S k)) g i = true -> finite_within (S k) g i = false ->
  S k <= length g.
Proof.
  intros k g i Ht Hf. destruct (chain k g i Ht Hf) as [l [L [ND [V _]]]].
  rewrite <- L. rewrite <- (seq_length (length g) 0).
  apply NoDup_incl_length; auto. intros j Hj. apply in_seq. specialize (V j Hj). lia.
Qed.

Lemma boundary : forall d m g i, finite_within (m + d) g i = true -> finite_within m g i = false ->
  exists k, m <= k /\ finite_within k g i = false /\ finite_within (S k) g i = true.
Proof.
  induction d as [|d IH]; intros m g i Ht Hf.
  - rewrite Nat.add_0_r in Ht. congruence.
  - destruct (finite_within (S m) g i) eqn:E.
    + exists m. auto.
    + replace (m + S d) with (S m + d) in Ht by lia.
      destruct (IH (S m) g i Ht E) as [k [L H]]. exists k. split; auto. lia.
Qed.

(* the fixed depth |g|+1 decides whether SOME depth is enough *)
Lemma acyclic_dec_iff : forall g i, acyclic_dec g i = true <-> exists n, finite_within n g i = true.
Proof.
  intros g i. unfold acyclic_dec. split. eauto. intros [n H].
  destruct (finite_within (S (length g)) g i) eqn:E; auto. exfalso.
  destruct (le_lt_dec n (S (length g))) as [L|L].
  - rewrite (fw_mono n (S (length g)) g i L H) in E. discriminate.
  - replace n with (S (length g) + (n - S (length g))) in H by lia.
    destruct (boundary _ _ _ _ H E) as [k [Lk [Hf Ht]]].
    destruct k as [|k]. lia.
    pose proof (rank_bound k g i Ht Hf). lia.
Qed.

(* finite: the unfolding stops changing *)
Lemma fw_unfold_stable1 : forall n g i, finite_within n g i = true -> unfold (S n) g i = unfold n g i.
Proof.
  induction n as [|k IH]; intros g i H. discriminate.
  rewrite fw_S in H. rewrite (unfold_S (S k)), (unfold_S k).
  destruct (nth_error g i) as [[|f ss]|]; auto. destruct ss as [|s0 ss']; auto. f_equal.
  apply map_ext_in. intros j Hj. apply IH. rewrite forallb_forall in H. auto.
Qed.

Lemma fw_unfold_stable : forall n m g i, finite_within n g i = true -> n <= m -> unfold m g i = unfold n g i.
Proof.
  intros n m g i H L. induction L; auto. rewrite <- IHL. apply fw_unfold_stable1. apply (fw_mono n); auto.
Qed.

(* ------------------------------------------------------------------ cycles *)
Definition edge (g : graph) (i j : nat) : Prop := In j (succs g i).
Inductive reach (g : graph) : nat -> nat -> Prop :=
| reach_refl : forall i, reach g i i
| reach_step : forall i j k, edge g i j -> reach g j k -> reach g i k.
Definition on_cycle (g : graph) (j : nat) : Prop := exists k, edge g j k /\ reach g k j.

Lemma fw_edge : forall n g i j, finite_within (S n) g i = true -> edge g i j -> finite_within n g j = true.
Proof.
  intros n g i j H E. unfold edge, succs in E. rewrite fw_S in H.
  destruct (nth_error g i) as [[|f ss]|]; try contradiction. rewrite forallb_forall in H. auto.
Qed.

Lemma fw_reach : forall g i j, reach g i j -> forall n, finite_within n g i = true ->
  exists m, m <= n /\ finite_within m g j = true.
Proof.
  intros g i j R. induction R as [i|i j k E R IH]; intros n H. exists n. auto.
  destruct n as [|n]. discriminate.
  apply (fw_edge _ _ _ _ H) in E. destruct (IH n E) as [m [L Hm]]. exists m. split; auto.
Qed.

Lemma cycle_never_finite : forall g j, on_cycle g j -> forall n, finite_within n g j = false.
Proof.
  intros g j [k [E R]] n. induction n as [n IH] using lt_wf_ind.
  destruct (finite_within n g j) eqn:H; auto. exfalso.
  destruct n as [|n]. discriminate.
  apply (fw_edge _ _ _ _ H) in E. destruct (fw_reach _ _ _ R n E) as [m [L Hm]].
  rewrite (IH m) in Hm. discriminate. lia.
Qed.

Lemma acyclic_no_cycle : forall g r, acyclic_dec g r = true -> ~ exists j, reach g r j /\ on_cycle g j.
Proof.
  intros g r H [j [R C]]. unfold acyclic_dec in H.
  destruct (fw_reach _ _ _ R _ H) as [m [_ Hm]]. rewrite (cycle_never_finite g j C m) in Hm. discriminate.
Qed.

(* conversely: when no depth is enough there is a walk of every length; one longer than the graph repeats a node *)
Inductive walk (g : graph) : nat -> list nat -> nat -> Prop :=   (* walk g i p j: p lists the nodes from i up to, not including, j *)
| walk_nil : forall i, walk g i [] i
| walk_cons : forall i k p j, edge g i k -> walk g k p j -> walk g i (i :: p) j.

Lemma walk_reach : forall g i p j, walk g i p j -> reach g i j.
Proof. intros g i p j W. induction W. constructor. econstructor; eauto. Qed.

Lemma walk_valid : forall g i p j, walk g i p j -> forall x, In x p -> x < length g.
Proof.
  intros g i p j W. induction W as [|i k p j E W IH]; intros x Hx. contradiction.
  destruct Hx as [Q|Q]; auto. subst. unfold edge, succs in E. apply nth_error_Some.
  destruct (nth_error g x); try contradiction. discriminate.
Qed.

Lemma fw_false_walk : forall n g i, finite_within n g i = false -> exists p j, walk g i p j /\ length p = n.
Proof.
  induction n as [|k IH]; intros g i H. exists [], i. split; constructor.
  destruct (fw_false_node _ _ _ H) as [f [ss [j [N [Hj Hf]]]]].
  destruct (IH g j Hf) as [p [j' [W L]]]. exists (i :: p), j'. split. 2: simpl; lia.
  econstructor; eauto. unfold edge, succs. rewrite N. auto.
Qed.

Lemma walk_split : forall g p1 i x p2 j, walk g i (p1 ++ x :: p2) j -> walk g i p1 x /\ walk g x (x :: p2) j.
Proof.
  induction p1 as [|a p1 IH]; intros i x p2 j W; simpl in W.
  - inversion W; subst. split. constructor. exact W.
  - inversion W as [|i0 k p0 j0 E W']; subst. destruct (IH _ _ _ _ W') as [W1 W2]. split; auto. econstructor; eauto.
Qed.

Lemma not_nodup_split : forall l : list nat, ~ NoDup l -> exists x l1 l2 l3, l = l1 ++ x :: l2 ++ x :: l3.
Proof.
  induction l as [|a l IH]; intro H. exfalso. apply H. constructor.
  destruct (in_dec Nat.eq_dec a l) as [I|I].
  - apply in_split in I. destruct I as [l2 [l3 E]]. exists a, [], l2, l3. simpl. congruence.
  - assert (Q : ~ NoDup l). { intro Q. apply H. constructor; auto. }
    destruct (IH Q) as [x [l1 [l2 [l3 E]]]]. exists x, (a :: l1), l2, l3. simpl. congruence.
Qed.

Lemma not_acyclic_cycle : forall g r, acyclic_dec g r = false -> exists j, reach g r j /\ on_cycle g j.
Proof.
  intros g r H. unfold acyclic_dec in H.
  destruct (fw_false_walk _ _ _ H) as [p [j [W L]]].
  assert (ND : ~ NoDup p).
  { intro ND. assert (Q : length p <= length (seq 0 (length g))).
    { apply NoDup_incl_length; auto. intros x Hx. apply in_seq. pose proof (walk_valid _ _ _ _ W x Hx). lia. }
    rewrite seq_length in Q. lia. }
  destruct (not_nodup_split p ND) as [x [l1 [l2 [l3 E]]]]. subst p.
  destruct (walk_split _ _ _ _ _ _ W) as [W1 W2].
  exists x. split. eapply walk_reach; eauto.
  inversion W2 as [|i0 k p0 j0 E W']; subst. exists k. split; auto.
  destruct (walk_split _ _ _ _ _ _ W') as [W3 _]. eapply walk_reach; eauto.
Qed.

Lemma acyclic_dec_cycle_iff : forall g r, acyclic_dec g r = true <-> ~ exists j, reach g r j /\ on_cycle g j.
Proof.
  intros g r. split. apply acyclic_no_cycle.
  intro H. destruct (acyclic_dec g r) eqn:E; auto. exfalso. apply H. apply not_acyclic_cycle. auto.
Qed.

(* ------------------------------------------------------------------ bisimilarity test: soundness *)
Definition closed (g : graph) (R : list (nat * nat)) : Prop :=
  forall i j, In (i, j) R -> exists ps, step g i j = Next ps /\ forall p, In p ps -> In p R \/ fst p = snd p.

Lemma combine_map_eq : forall (A B : Type) (f : A -> B) l l', length l = length l' ->
  (forall p, In p (combine l l') -> f (fst p) = f (snd p)) -> map f l = map f l'.
Proof.
  induction l as [|a l IH]; intros [|b l'] L H; simpl in *; try discriminate; auto.
  f_equal. apply (H (a, b)). auto. apply IH. lia. intros p Hp. apply H. auto.
Qed.

Lemma closed_unfold : forall g R, closed g R -> forall n i j, In (i, j) R \/ i = j -> unfold n g i = unfold n g j.
Proof.
  intros g R C. induction n as [|k IH]; intros i j H. reflexivity.
  destruct H as [H|H]. 2: subst; reflexivity.
  destruct (C i j H) as [ps [S P]]. rewrite !unfold_S. unfold step in S.
  destruct (nth_error g i) as [[|f ss]|]; destruct (nth_error g j) as [[|f' ss']|]; try discriminate; auto.
  - destruct (Nat.eqb_spec i j); try discriminate. subst. reflexivity.
  - destruct (name_eqb f f' && Nat.eqb (length ss) (length ss')) eqn:E; try discriminate.
    apply andb_true_iff in E. destruct E as [E1 E2]. apply name_eqb_eq in E1. apply Nat.eqb_eq in E2. subst f'.
    inversion S; subst ps.
    assert (M : map (unfold k g) ss = map (unfold k g) ss').
    { apply combine_map_eq; auto. intros [a b] Hp. simpl. apply IH. destruct (P (a, b) Hp); auto. }
    destruct ss as [|s0 ss0]; destruct ss' as [|s0' ss0']; try discriminate; auto. rewrite M. reflexivity.
Qed.

Lemma pair_mem_true : forall p l, pair_mem p l = true -> In p l.
Proof.
  intros [a b] l H. unfold pair_mem in H. apply existsb_exists in H. destruct H as [[c d] [I E]]. simpl in E.
  apply andb_true_iff in E. destruct E as [E1 E2]. apply Nat.eqb_eq in E1. apply Nat.eqb_eq in E2. subst. exact I.
Qed.

Definition inv (g : graph) (vis work : list (nat * nat)) : Prop :=
  forall i j, In (i, j) vis -> exists ps, step g i j = Next ps /\
    forall p, In p ps -> In p vis \/ In p work \/ fst p = snd p.

Lemma bisim_loop_sound : forall g fuel vis work, bisim_loop fuel g vis work = Some true -> inv g vis work ->
  exists R, closed g R /\ forall p, In p vis \/ In p work -> In p R \/ fst p = snd p.
Proof.
  intros g. induction fuel as [|k IH]; intros vis work H I. discriminate.
  simpl in H. destruct work as [|[i j] rest].
  - exists vis. split.
    + intros a b Hab. destruct (I a b Hab) as [ps [S P]]. exists ps. split; auto.
      intros p Hp. destruct (P p Hp) as [Q|[[]|Q]]; auto.
    + intros p [Q|[]]. auto.
  - destruct (Nat.eqb_spec i j) as [E|E].
    + subst j. destruct (IH vis rest H) as [R [C P]].
      * intros a b Hab. destruct (I a b Hab) as [ps [S Q]]. exists ps. split; auto.
        intros p Hp. destruct (Q p Hp) as [Q1|[[Q2|Q2]|Q3]]; auto. subst p. auto.
      * exists R. split; auto. intros p [Q|[Q|Q]]; auto. subst p. auto.
    + destruct (pair_mem (i, j) vis) eqn:M.
      * apply pair_mem_true in M. destruct (IH vis rest H) as [R [C P]].
        -- intros a b Hab. destruct (I a b Hab) as [ps [S Q]]. exists ps. split; auto.
           intros p Hp. destruct (Q p Hp) as [Q1|[[Q2|Q2]|Q3]]; auto. subst p. auto.
        -- exists R. split; auto. intros p [Q|[Q|Q]]; auto. subst p. auto.
      * destruct (step g i j) as [|ps] eqn:S. discriminate.
        destruct (IH ((i, j) :: vis) (ps ++ rest) H) as [R [C P]].
        -- intros a b [Hab|Hab].
           ++ inversion Hab; subst. exists ps. split; auto. intros p Hp. right. left. apply in_app_iff. auto.
           ++ destruct (I a b Hab) as [qs [S' Q]]. exists qs. split; auto.
              intros p Hp. destruct (Q p Hp) as [Q1|[[Q2|Q2]|Q3]]; auto.
              ** left. right. auto.
              ** subst p. left. left. auto.
              ** right. left. apply in_app_iff. auto.
        -- exists R. split; auto. intros p [Q|[Q|Q]].
           ++ apply P. left. right. auto.
           ++ subst p. apply P. left. left. auto.
           ++ apply P. right. apply in_app_iff. auto.
Qed.

Lemma bisim_sound : forall g a b, bisim_dec g a b = Some true -> forall n, unfold n g a = unfold n g b.
Proof.
  intros g a b H n. unfold bisim_dec in H.
  destruct (bisim_loop_sound g _ [] [(a, b)] H) as [R [C P]].
  - intros i j [].
  - apply (closed_unfold g R C). destruct (P (a, b)); auto. right. left. auto.
Qed.

(* ------------------------------------------------------------------ bisimilarity test: it never rejects equal trees *)
Definition eqall (g : graph) (i j : nat) : Prop := forall n, unfold n g i = unfold n g j.

Definition no_bad_atom (g : graph) : Prop := forall i f ss, nth_error g i = Some (NFun f ss) -> f <> bad_name.

Lemma map_eq_combine : forall (A B : Type) (f : A -> B) l l', map f l = map f l' ->
  forall p, In p (combine l l') -> f (fst p) = f (snd p).
Proof.
  induction l as [|a l IH]; intros [|b l'] H p Hp; simpl in *; try contradiction; try discriminate.
  injection H as H1 H2. destruct Hp as [E|Hp]. subst. auto. apply IH with (l' := l'); auto.
Qed.

Lemma eqall_step : forall g i j, no_bad_atom g -> eqall g i j ->
  exists ps, step g i j = Next ps /\ forall p, In p ps -> eqall g (fst p) (snd p).
Proof.
  intros g i j NB E. pose proof (E 1) as E1. rewrite !unfold_S in E1. unfold step.
  destruct (nth_error g i) as [[|f ss]|] eqn:Ni; destruct (nth_error g j) as [[|f' ss']|] eqn:Nj.
  - injection E1 as E1. apply Nnat.Nat2N.inj in E1. subst. rewrite Nat.eqb_refl. exists []. split; auto. intros p [].
  - destruct ss'; discriminate.
  - discriminate.
  - destruct ss; discriminate.
  - assert (F : f = f' /\ length ss = length ss').
    { destruct ss as [|s0 ss0]; destruct ss' as [|s0' ss0']; try discriminate.
      - injection E1 as E1. subst. auto.
      - injection E1 as Ef Et. split; auto.
        apply (f_equal (@length term)) in Et. rewrite !map_length in Et. simpl. congruence. }
    destruct F as [F1 F2]. subst f'. rewrite name_eqb_refl, F2, Nat.eqb_refl. simpl.
    exists (combine ss ss'). split; auto. intros p Hp n.
    pose proof (E (S n)) as En. rewrite !unfold_S, Ni, Nj in En.
    destruct ss as [|s0 ss0]; destruct ss' as [|s0' ss0']; try discriminate. contradiction.
    assert (M : map (unfold n g) (s0 :: ss0) = map (unfold n g) (s0' :: ss0')) by (injection En; intros; simpl; congruence).
    apply (map_eq_combine _ _ (unfold n g) _ _ M p Hp).
  - exfalso. destruct ss. injection E1 as E1. apply (NB i _ _ Ni). auto. discriminate.
  - discriminate.
  - exfalso. destruct ss'. injection E1 as E1. apply (NB j _ _ Nj). auto. discriminate.
  - exists []. split; auto. intros p [].
Qed.

Lemma bisim_loop_complete : forall g, no_bad_atom g -> forall fuel vis work,
  (forall p, In p work -> eqall g (fst p) (snd p)) -> bisim_loop fuel g vis work <> Some false.
Proof.
  intros g NB. induction fuel as [|k IH]; intros vis work H; simpl. discriminate.
  destruct work as [|[i j] rest]. discriminate.
  assert (Hr : forall p, In p rest -> eqall g (fst p) (snd p)) by (intros p Hp; apply H; right; auto).
  destruct (Nat.eqb i j). apply IH; auto.
  destruct (pair_mem (i, j) vis). apply IH; auto.
  destruct (eqall_step g i j NB (H (i, j) (or_introl eq_refl))) as [ps [S P]]. rewrite S.
  apply IH. intros p Hp. apply in_app_iff in Hp. destruct Hp; auto.
Qed.

Lemma bisim_complete_partial : forall g a b, no_bad_atom g -> (forall n, unfold n g a = unfold n g b) ->
  bisim_dec g a b <> Some false.
Proof.
  intros g a b NB H. unfold bisim_dec. apply bisim_loop_complete; auto.
  intros p [E|[]]. subst. exact H.
Qed.

(* ------------------------------------------------------------------ packaged statements for Props.v *)
Lemma acyclic_correct : forall g r,
  (acyclic_dec g r = true <-> ~ exists j, reach g r j /\ on_cycle g j) /\
  (acyclic_dec g r = true <-> exists n, finite_within n g r = true).
Proof. intros. split. apply acyclic_dec_cycle_iff. apply acyclic_dec_iff. Qed.

Lemma acyclic_unfold_stable : forall g r, acyclic_dec g r = true ->
  forall m, S (length g) <= m -> unfold m g r = unfold (S (length g)) g r.
Proof. intros g r H m L. apply fw_unfold_stable; auto. Qed.

Lemma cyclic_never_complete : forall g r, acyclic_dec g r = false -> forall n, finite_within n g r = false.
Proof.
  intros g r H n. destruct (finite_within n g r) eqn:E; auto.
  assert (Q : acyclic_dec g r = true) by (apply acyclic_dec_iff; eauto). congruence.
Qed.
