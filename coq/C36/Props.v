(* C36 -- pinned property theorems (nothing else lives here) *)
From Coq Require Import ZArith NArith List Bool.
From Coq Require String.
From V Require Import C36.Model C36.Proofs.
Import ListNotations.
Open Scope N_scope.

(* ~d ~Nr ~NR: the digit string (optional '-', digits 0-9a-z or 0-9A-Z) reads back to the integer, every radix 2..36,
   every integer of any size.  ~d is the case radix = 10. *)
Theorem radix_roundtrip : forall (upper : bool) (r : N) (z : Z), 2 <= r -> r <= 36 ->
  parse_Z r (digits_of_Z upper r z) = Some z.
Proof. exact radix_roundtrip_l. Qed.
Print Assumptions radix_roundtrip.

Theorem d_digits_roundtrip : forall z : Z, parse_Z 10 (digits_of_Z false 10 z) = Some z.
Proof. intros z. apply radix_roundtrip_l; discriminate. Qed.
Print Assumptions d_digits_roundtrip.

(* the digit list itself: value and digit range (fuel of the conversion loop is sufficient) *)
Theorem to_digits_value : forall r n, 2 <= r -> of_digits r (to_digits r n) = n /\ Forall (fun d => d < r) (to_digits r n).
Proof. intros r n H. split; [apply of_to_digits|apply to_digits_lt]; exact H. Qed.
Print Assumptions to_digits_value.

(* ~Nd: sign, integer part a (at least one digit), and for N > 0 a point followed by exactly N digits b; a++b are the decimal
   digits of |z| padded with zeros to at least N+1 digits, so the text denotes z / 10^N *)
Theorem Nd_value : forall (n : nat) (z : Z), exists a b,
  fmt_nd n z = sign_chars z ++ a ++ point_frac n b /\ length b = n /\ (1 <= length a)%nat /\
  a ++ b = zeros (S n - length (dec (Z.abs_N z))) ++ dec (Z.abs_N z) /\
  parse_digits 10 (a ++ b) 0 = Some (Z.abs_N z).
Proof. exact nd_value_l. Qed.
Print Assumptions Nd_value.

(* ~ND (sep = ',') and ~NU (sep = '_'): removing the separators gives exactly the text of ~Nd *)
Theorem D_ungroup : forall (n : nat) (z : Z),
  remove_c 44 (fmt_nD 44 n z) = fmt_nd n z /\ remove_c 95 (fmt_nD 95 n z) = fmt_nd n z.
Proof. intros n z. split; apply D_ungroup_l; try discriminate; [left|right]; reflexivity. Qed.
Print Assumptions D_ungroup.

(* ~ND/~NU: only the integer part a of ~Nd is changed; read from the right it is a sequence of groups of exactly three digits
   separated by sep, ending (leftmost in the text) with a group of one to three digits *)
Theorem D_groups_of_three : forall (sep : N) (n : nat) (z : Z), exists a b init lst,
  nd_parts n z = (a, b) /\
  fmt_nD sep n z = sign_chars z ++ group3 sep a ++ point_frac n b /\
  rev (group3 sep a) = join [sep] (init ++ [lst]) /\
  concat (init ++ [lst]) = rev a /\
  Forall (fun g => length g = 3%nat) init /\ (1 <= length lst <= 3)%nat.
Proof. exact D_groups_l. Qed.
Print Assumptions D_groups_of_three.

(* column control: a cell (text between two column stops) that contains at least one fill point and whose content is not
   longer than the distance of the stops is rendered with exactly that many characters *)
Theorem column_width : forall (from to : Z) (es : list elem),
  (1 <= glue_count es)%nat -> (Z.of_nat (chars_len es) <= to - from)%Z ->
  Z.of_nat (length (render_cell from to es)) = (to - from)%Z.
Proof. exact column_width_l. Qed.
Print Assumptions column_width.

(* "~t~w~N|" right-aligns and "~w~t~N|" left-aligns in exactly N characters (N is given through the star form), for every atom / integer
   argument whose text is not longer than N *)
Theorem right_left_align : forall (a : arg) (n : Z), (Z.of_nat (length (write_text a)) <= n)%Z ->
  format_ fs_right [a; AInt n] = Some (repeat 32 (Z.to_nat (n - Z.of_nat (length (write_text a)))) ++ write_text a) /\
  format_ fs_left [a; AInt n] = Some (write_text a ++ repeat 32 (Z.to_nat (n - Z.of_nat (length (write_text a))))).
Proof. intros a n H. split; [apply right_align_l|apply left_align_l]; exact H. Qed.
Print Assumptions right_left_align.

Theorem aligned_width : forall (a : arg) (n : Z), (Z.of_nat (length (write_text a)) <= n)%Z ->
  (forall out, format_ fs_right [a; AInt n] = Some out -> Z.of_nat (length out) = n) /\
  (forall out, format_ fs_left [a; AInt n] = Some out -> Z.of_nat (length out) = n).
Proof. exact aligned_width_l. Qed.
Print Assumptions aligned_width.

(* ~*x with the next argument N behaves as ~Nx: in any state of the directive interpreter ... *)
Theorem tilde_star_equiv : forall q c n ts args tab es wq,
  cells q (TDir NumStar c :: ts) (AInt (Z.of_N n) :: args) tab es wq =
  cells q (TDir (NumLit n) c :: ts) args tab es wq.
Proof. exact tilde_star_cells. Qed.
Print Assumptions tilde_star_equiv.

(* ... and on format strings, for a directive at the head of the string (N written in decimal) *)
Theorem tilde_star_equiv_string_partial : forall n c rest args, is_digit c = false ->
  format_ (126 :: 42 :: c :: rest) (AInt (Z.of_N n) :: args) = format_ (126 :: dec n ++ c :: rest) args.
Proof. exact tilde_star_string_l. Qed.
Print Assumptions tilde_star_equiv_string_partial.

(* the algorithm of format.pl for ~Nd (which splits the SIGNED digit string) produces the documented text whenever the
   number is non-negative or has more than N digits; outside this domain it differs (see the Examples) *)
Theorem nd_impl_eq_doc : forall (n : nat) (z : Z),
  (0 <= z)%Z \/ (n < length (dec (Z.abs_N z)))%nat -> fmt_nd_impl n z = fmt_nd n z.
Proof. exact nd_impl_eq_doc_l. Qed.
Print Assumptions nd_impl_eq_doc.

(* a directive letter outside the documented set is an error (no output), whatever follows and whatever the arguments *)
Theorem unknown_directive_error_partial : forall c rest args, known_letter c = false -> is_digit c = false ->
  format_ (126 :: c :: rest) args = None.
Proof. exact unknown_directive_l. Qed.
Print Assumptions unknown_directive_error_partial.

(* ------------------------------------------------------------------ non-vacuity and the documented examples *)
Import String.
Open Scope string_scope.
Example fs_right_text : fs_right = s2l "~t~w~*|". Proof. reflexivity. Qed.
Example fs_left_text : fs_left = s2l "~w~t~*|". Proof. reflexivity. Qed.
(* the example of the documentation header of format.pl *)
Example doc_example : format_ (s2l "~s~n~`.t~w!~12|") [AStr (s2l "hello"); AAtom (s2l "there")] = Some (s2l "hello" ++ [10%N] ++ s2l "......there!")%list.
Proof. vm_compute. reflexivity. Qed.
Example ex_D : format_ (s2l "~2D") [AInt (-1234567)] = Some (s2l "-12,345.67"). Proof. vm_compute. reflexivity. Qed.
Example ex_big : format_ (s2l "~16R") [AInt (2 ^ 64)] = Some (s2l "10000000000000000"). Proof. vm_compute. reflexivity. Qed.
Example ex_star : format_ (s2l "~*d") [AInt 2; AInt 1234] = Some (s2l "12.34"). Proof. vm_compute. reflexivity. Qed.
Example ex_unknown : known_letter 81%N = false /\ format_ (s2l "~Q") [AInt 1] = None. Proof. vm_compute. auto. Qed.
Example ex_align : (Z.of_nat (List.length (write_text (AAtom (s2l "abc")))) <= 10)%Z /\
  format_ fs_right [AAtom (s2l "abc"); AInt 10] = Some (s2l "       abc"). Proof. vm_compute. split; [discriminate|reflexivity]. Qed.
(* where the library's algorithm leaves the documented text (both reported as findings) *)
Example ex_nd_doc : fmt_nd 2 (-5) = s2l "-0.05" /\ fmt_nd_impl 2 (-5) = s2l "0.-5". Proof. vm_compute. auto. Qed.
Example ex_nD_doc : fmt_nD 44 0 (-512123) = s2l "-512,123" /\ fmt_nD_impl 44 0 (-512123) = s2l "-,512,123". Proof. vm_compute. auto. Qed.
Example ex_column_hyp : (1 <= glue_count [EGlue 32%N; EChars (s2l "ab")])%nat. Proof. vm_compute. auto. Qed.
