(* C36 -- model of library(format) (src/lib/format.pl): format_//2.
   Characters are code points (N).  The directive parser, the cell/column machinery and ~NL / ~Nr / ~Nf mirror the
   Prolog code arm by arm; the text of ~d ~Nd ~ND ~NU follows the DOCUMENTATION header of format.pl
   (fmt_nd, fmt_nD); the implementation's own algorithm for these (which works on the signed digit string) is
   mirrored separately as fmt_nd_impl / fmt_nD_impl and selected by the flag `q` (used only to label known deviations).
   No proofs in this file. *)
From Coq Require Import ZArith NArith List Bool.
From Coq Require String Ascii.
Import ListNotations.
Open Scope N_scope.

(* ------------------------------------------------------------------ strings as code point lists *)
Definition s2l (s : String.string) : list N := map Ascii.N_of_ascii (String.list_ascii_of_string s).

(* ------------------------------------------------------------------ digits *)
Fixpoint to_digits_aux (r : N) (fuel : nat) (n : N) (acc : list N) : list N :=
  match fuel with
  | O => acc
  | S f => if n =? 0 then acc else to_digits_aux r f (n / r) (n mod r :: acc)
  end.
(* most significant digit first; 0 is [0]; the fuel (number of bits of n) is proved sufficient for r >= 2 *)
Definition to_digits (r n : N) : list N :=
  if n =? 0 then [0] else to_digits_aux r (S (N.to_nat (N.log2 n))) n [].
Definition of_digits (r : N) (ds : list N) : N := fold_left (fun a d => a * r + d) ds 0.

Definition digit_char (upper : bool) (d : N) : N :=
  if d <? 10 then 48 + d else (if upper then 55 else 87) + d.
Definition char_digit (c : N) : option N :=
  if (48 <=? c) && (c <=? 57) then Some (c - 48)
  else if (97 <=? c) && (c <=? 122) then Some (c - 87)
  else if (65 <=? c) && (c <=? 90) then Some (c - 55)
  else None.

Definition minus_c : N := 45.
Definition point_c : N := 46.
Definition zero_c : N := 48.
Definition tilde_c : N := 126.

Definition sign_chars (z : Z) : list N := if (z <? 0)%Z then [minus_c] else [].
(* text of an integer in a radix: optional '-', then the digits of |z| *)
Definition digits_of_Z (upper : bool) (radix : N) (z : Z) : list N :=
  sign_chars z ++ map (digit_char upper) (to_digits radix (Z.abs_N z)).

(* reading back *)
Fixpoint parse_digits (r : N) (cs : list N) (acc : N) : option N :=
  match cs with
  | [] => Some acc
  | c :: t => match char_digit c with
              | Some d => if d <? r then parse_digits r t (acc * r + d) else None
              | None => None
              end
  end.
Definition parse_Z (r : N) (cs : list N) : option Z :=
  match cs with
  | [] => None
  | c :: t => if c =? minus_c
              then match t with
                   | [] => None
                   | _ => match parse_digits r t 0 with Some n => Some (- Z.of_N n)%Z | None => None end
                   end
              else match parse_digits r cs 0 with Some n => Some (Z.of_N n) | None => None end
  end.

(* ------------------------------------------------------------------ ~Nd ~ND ~NU: documented text *)
Definition zeros (k : nat) : list N := repeat zero_c k.
Definition dec (n : N) : list N := map (digit_char false) (to_digits 10 n).

(* the digits of |z| padded on the left with zeros to at least n+1 digits, split n digits from the right *)
Definition nd_parts (n : nat) (z : Z) : list N * list N :=
  let ds := dec (Z.abs_N z) in
  let padded := zeros (S n - length ds) ++ ds in
  let k := (length padded - n)%nat in
  (firstn k padded, skipn k padded).
Definition point_frac (n : nat) (b : list N) : list N := match n with O => [] | _ => point_c :: b end.

Definition fmt_nd (n : nat) (z : Z) : list N :=
  let (a, b) := nd_parts n z in sign_chars z ++ a ++ point_frac n b.

(* groups_of_three//2 of format.pl, applied to the reversed digit list *)
Fixpoint g3 (sep : N) (l : list N) : list N :=
  match l with
  | a :: b :: c :: ((_ :: _) as r) => a :: b :: c :: sep :: g3 sep r
  | _ => l
  end.
Definition group3 (sep : N) (ds : list N) : list N := rev (g3 sep (rev ds)).

Definition fmt_nD (sep : N) (n : nat) (z : Z) : list N :=
  let (a, b) := nd_parts n z in sign_chars z ++ group3 sep a ++ point_frac n b.

(* ------------------------------------------------------------------ ~Nd ~ND ~NU: the algorithm of format.pl (mirror) *)
Definition fmt_nd_impl (n : nat) (z : Z) : list N :=
  let cs0 := digits_of_Z false 10 z in            (* number_chars(Arg, Cs0): includes the sign *)
  match n with
  | O => cs0
  | _ => let l := length cs0 in
         if (l <=? n)%nat then [zero_c; point_c] ++ zeros (n - l) ++ cs0
         else firstn (l - n) cs0 ++ [point_c] ++ skipn (l - n) cs0
  end.
(* upto_what(Bs, W): the prefix before the first W, and the rest starting at W *)
Fixpoint upto (w : N) (cs : list N) : list N * list N :=
  match cs with
  | [] => ([], [])
  | c :: t => if c =? w then ([], cs) else let (a, b) := upto w t in (c :: a, b)
  end.
Definition fmt_nD_impl (sep : N) (n : nat) (z : Z) : list N :=
  let (bs, ds) := upto point_c (fmt_nd_impl n z) in group3 sep bs ++ ds.

(* ------------------------------------------------------------------ ~NL (mirror of split_lines_width//2) *)
Fixpoint split_lines (fuel : nat) (w : nat) (cs : list N) : list N :=
  match fuel with
  | O => cs
  | S f => if (length cs <=? w)%nat then cs
           else firstn w cs ++ [95; 10] ++ split_lines f w (skipn w cs)
  end.
Definition fmt_L (n : nat) (z : Z) : list N :=
  let w := match n with O => 72%nat | _ => n end in
  let cs := digits_of_Z false 10 z in split_lines (length cs) w cs.

(* ------------------------------------------------------------------ ~Nf for INTEGER arguments only
   (float_with_n_decimal_digits//2 with a zero fractional part: N zeros, but one "0" when N = 0) *)
Definition fmt_f_int (n : nat) (z : Z) : list N :=
  digits_of_Z false 10 z ++ [point_c] ++ match n with O => [zero_c] | _ => zeros n end.

(* ------------------------------------------------------------------ arguments *)
Inductive arg :=
| AInt (z : Z)
| AAtom (s : list N)        (* an atom: its name *)
| AStr (s : list N)         (* a list of characters *)
| ACmp (text : list N).     (* any other term, given by the text write/1 produces for it *)

Fixpoint join (sep : list N) (l : list (list N)) : list N :=
  match l with
  | [] => []
  | [x] => x
  | x :: r => x ++ sep ++ join sep r
  end.
(* ~w (also used for ~q; valid for atoms that need no quotes, integers, lists of such one-character atoms) *)
Definition write_text (a : arg) : list N :=
  match a with
  | AInt z => digits_of_Z false 10 z
  | AAtom s => s
  | AStr [] => [91; 93]
  | AStr s => [91] ++ join [44] (map (fun c => [c]) s) ++ [93]
  | ACmp t => t
  end.

(* ------------------------------------------------------------------ tokens: ~ [digits|*] letter, ~`Ct, ~~, literal text *)
Inductive numarg := NoNum | NumLit (n : N) | NumStar.
Inductive token := TLit (cs : list N) | TDir (na : numarg) (c : N) | TFill (c : N).

Inductive tstate := SLit (acc : list N) | STilde | SNum (n : N) | SStar | SBq | SBqC (c : N).
Definition is_digit (c : N) : bool := (48 <=? c) && (c <=? 57).
Definition flush (acc : list N) (k : option (list token)) : option (list token) :=
  match k with
  | None => None
  | Some ts => Some (match acc with [] => ts | _ => TLit (rev acc) :: ts end)
  end.
Definition consT (t : token) (k : option (list token)) : option (list token) :=
  match k with None => None | Some ts => Some (t :: ts) end.

Fixpoint tok (s : tstate) (fs : list N) : option (list token) :=
  match fs with
  | [] => match s with SLit acc => flush acc (Some []) | _ => None end
  | c :: r =>
    match s with
    | SLit acc => if c =? tilde_c then flush acc (tok STilde r) else tok (SLit (c :: acc)) r
    | STilde => if c =? tilde_c then consT (TLit [tilde_c]) (tok (SLit []) r)
                else if c =? 42 then tok SStar r
                else if c =? 96 then tok SBq r
                else if is_digit c then tok (SNum (c - 48)) r
                else consT (TDir NoNum c) (tok (SLit []) r)
    | SNum n => if is_digit c then tok (SNum (10 * n + (c - 48))) r
                else consT (TDir (NumLit n) c) (tok (SLit []) r)
    | SStar => consT (TDir NumStar c) (tok (SLit []) r)
    | SBq => tok (SBqC c) r
    | SBqC f => if c =? 116 then consT (TFill f) (tok (SLit []) r) else None
    end
  end.
Definition tokens (fs : list N) : option (list token) := tok (SLit []) fs.

(* ------------------------------------------------------------------ cells *)
Inductive elem := EChars (cs : list N) | EGlue (fill : N).
Inductive item := ICell (from to : Z) (es : list elem) | INewline.

Definition close_cell (from to : Z) (es_rev : list elem) : list item :=
  match es_rev with [] => [] | _ => [ICell from to (rev es_rev)] end.

(* the numeric argument: none / literal / taken from the argument list (must be an integer) *)
Definition take_num (na : numarg) (args : list arg) : option (option Z * list arg) :=
  match na with
  | NoNum => Some (None, args)
  | NumLit n => Some (Some (Z.of_N n), args)
  | NumStar => match args with AInt z :: r => Some (Some z, r) | _ => None end
  end.

Inductive action :=
| AcText (cs : list N) (rest : list arg)
| AcWText (cs : list N) (rest : list arg)      (* text produced by write_term_to_chars/3 (~w ~q) *)
| AcSkip (rest : list arg)
| AcNewlines (k : nat) (rest : list arg)
| AcColHere
| AcColAbs (col : Z) (rest : list arg)
| AcColRel (n : Z) (rest : list arg).

Definition nonneg_nat (z : Z) : option nat := if (z <? 0)%Z then None else Some (Z.to_nat z).

(* one integer-valued directive with count n (default d when absent) *)
Definition int_dir (num : option Z) (dflt : Z) (args : list arg) (f : nat -> Z -> option (list N)) : option action :=
  match args with
  | AInt z :: rest =>
      match nonneg_nat (match num with Some n => n | None => dflt end) with
      | Some n => match f n z with Some cs => Some (AcText cs rest) | None => None end
      | None => None
      end
  | _ => None
  end.

Definition only_nonum (na : numarg) (a : option action) : option action :=
  match na with NoNum => a | _ => None end.

(* q = false: documented text; q = true: the algorithm of format.pl for ~Nd ~ND ~NU, and (in cells) the error raised by ~| when the
   cell contains ~w/~q text: the goal write_term_to_chars/3 is run a second time with its output already bound *)
Definition directive (q : bool) (na : numarg) (c : N) (args0 : list arg) : option action :=
  match take_num na args0 with
  | None => None
  | Some (num, args) =>
    if c =? 119 (* w *) then only_nonum na (match args with a :: r => Some (AcWText (write_text a) r) | [] => None end)
    else if c =? 113 (* q *) then only_nonum na (match args with a :: r => Some (AcWText (write_text a) r) | [] => None end)
    else if c =? 97 (* a *) then only_nonum na (match args with AAtom s :: r => Some (AcText s r) | AStr [] :: r => Some (AcText [91; 93] r) | _ => None end)
    else if c =? 115 (* s *) then only_nonum na (match args with AStr s :: r => Some (AcText s r) | _ => None end)
    else if c =? 105 (* i *) then only_nonum na (match args with _ :: r => Some (AcSkip r) | [] => None end)
    else if c =? 100 (* d *) then int_dir num 0 args (fun n z => Some (if q then fmt_nd_impl n z else fmt_nd n z))
    else if c =? 68 (* D *) then int_dir num 0 args (fun n z => Some (if q then fmt_nD_impl 44 n z else fmt_nD 44 n z))
    else if c =? 85 (* U *) then int_dir num 0 args (fun n z => Some (if q then fmt_nD_impl 95 n z else fmt_nD 95 n z))
    else if c =? 76 (* L *) then int_dir num 0 args (fun n z => Some (fmt_L n z))
    else if c =? 102 (* f *) then int_dir num 6 args (fun n z => Some (fmt_f_int n z))
    else if c =? 114 (* r *) then int_dir num 8 args (fun n z => if (2 <=? n)%nat && (n <=? 36)%nat then Some (digits_of_Z false (N.of_nat n) z) else None)
    else if c =? 82 (* R *) then int_dir num 8 args (fun n z => if (2 <=? n)%nat && (n <=? 36)%nat then Some (digits_of_Z true (N.of_nat n) z) else None)
    else if c =? 110 (* n *) then
      match num with
      | None => Some (AcNewlines 1 args)
      | Some n => match nonneg_nat n with Some k => Some (AcNewlines k args) | None => None end
      end
    else if c =? 124 (* | *) then
      match num with None => Some AcColHere | Some n => Some (AcColAbs n args) end
    else if c =? 43 (* + *) then
      Some (AcColRel (match num with None => 0%Z | Some n => n end) args)
    else None
  end.

Fixpoint chars_len (es : list elem) : nat :=
  match es with [] => O | EChars cs :: r => (length cs + chars_len r)%nat | EGlue _ :: r => chars_len r end.
Fixpoint glue_count (es : list elem) : nat :=
  match es with [] => O | EChars _ :: r => glue_count r | EGlue _ :: r => S (glue_count r) end.

Fixpoint cells (q : bool) (ts : list token) (args : list arg) (tab : Z) (es : list elem) (wq : bool) : option (list item) :=
  match ts with
  | [] => match args with [] => Some (close_cell tab tab es) | _ => None end
  | TLit cs :: r => cells q r args tab (EChars cs :: es) wq
  | TFill f :: r => cells q r args tab (EGlue f :: es) wq
  | TDir na c :: r =>
      if (c =? 116) && (match na with NoNum => true | _ => false end) then cells q r args tab (EGlue 32 :: es) wq
      else
      match directive q na c args with
      | None => None
      | Some (AcText cs rest) => cells q r rest tab (EChars cs :: es) wq
      | Some (AcWText cs rest) => cells q r rest tab (EChars cs :: es) true
      | Some (AcSkip rest) => cells q r rest tab es wq
      | Some (AcNewlines k rest) =>
          match cells q r rest 0%Z [] false with
          | None => None
          | Some its => Some (close_cell tab tab es ++ repeat INewline k ++ its)
          end
      | Some AcColHere =>
          if q && wq then None else
          let t := (tab + Z.of_nat (chars_len es))%Z in
          match cells q r args t [] false with None => None | Some its => Some (close_cell tab t es ++ its) end
      | Some (AcColAbs col rest) =>
          match cells q r rest col [] false with None => None | Some its => Some (close_cell tab col es ++ its) end
      | Some (AcColRel n rest) =>
          let t := (tab + n)%Z in
          match cells q r rest t [] false with None => None | Some its => Some (close_cell tab t es ++ its) end
      end
  end.

(* ------------------------------------------------------------------ rendering (format_cell//1) *)
(* k = number of glue elements still to come; every glue gets `distr` characters, the last one `last` *)
Fixpoint render_elems (es : list elem) (k : nat) (distr last : nat) : list N :=
  match es with
  | [] => []
  | EChars cs :: r => cs ++ render_elems r k distr last
  | EGlue f :: r => repeat f (match k with S O => last | _ => distr end) ++ render_elems r (pred k) distr last
  end.

Definition render_cell (from to : Z) (es : list elem) : list N :=
  let k := glue_count es in
  let space := (to - from - Z.of_nat (chars_len es))%Z in
  if (space <=? 0)%Z then render_elems es k 0 0
  else let distr := (space / Z.of_nat k)%Z in
       let delta := (space - distr * Z.of_nat k)%Z in
       render_elems es k (Z.to_nat distr) (Z.to_nat (distr + delta)).

Fixpoint render (its : list item) : list N :=
  match its with
  | [] => []
  | INewline :: r => 10 :: render r
  | ICell from to es :: r => render_cell from to es ++ render r
  end.

Definition format_gen (q : bool) (fs : list N) (args : list arg) : option (list N) :=
  match tokens fs with
  | None => None
  | Some ts => match cells q ts args 0%Z [] false with
               | None => None
               | Some its => Some (render its)
               end
  end.

(* the documented behaviour *)
Definition format_ (fs : list N) (args : list arg) : option (list N) := format_gen false fs args.
(* with the implementation's algorithm for ~Nd ~ND ~NU *)
Definition format_impl (fs : list N) (args : list arg) : option (list N) := format_gen true fs args.

(* ------------------------------------------------------------------ comparison with an observation *)
Inductive obs := OOut (cs : list N) | OErr | OFail | OOther.

Fixpoint codes_eqb (a b : list N) : bool :=
  match a, b with
  | [], [] => true
  | x :: a', y :: b' => (x =? y) && codes_eqb a' b'
  | _, _ => false
  end.

Definition agrees (m : option (list N)) (o : obs) : bool :=
  match m, o with
  | Some cs, OOut cs' => codes_eqb cs cs'
  | None, OErr => true
  | _, _ => false
  end.
Definition check (fs : list N) (args : list arg) (o : obs) : bool := agrees (format_ fs args) o.
Definition check_impl (fs : list N) (args : list arg) (o : obs) : bool := agrees (format_impl fs args) o.
