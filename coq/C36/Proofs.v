(* C36 -- lemmas about the model of format_//2 *)
From Coq Require Import ZArith NArith List Bool Lia.
From V Require Import C36.Model.
Import ListNotations.
Open Scope N_scope.

(* ------------------------------------------------------------------ digits *)
Lemma aux_app r : forall fuel n acc, to_digits_aux r fuel n acc = to_digits_aux r fuel n [] ++ acc.
Proof.
  induction fuel as [|f IH]; intros n acc; cbn [to_digits_aux].
  - reflexivity.
  - destruct (n =? 0); [reflexivity|].
    rewrite (IH (n / r) (n mod r :: acc)), (IH (n / r) [n mod r]), <- app_assoc. reflexivity.
Qed.

Lemma of_digits_snoc r a d : of_digits r (a ++ [d]) = of_digits r a * r + d.
Proof. unfold of_digits. rewrite fold_left_app. reflexivity. Qed.

Lemma of_aux r (Hr : 2 <= r) : forall fuel n, n < 2 ^ N.of_nat fuel -> of_digits r (to_digits_aux r fuel n []) = n.
Proof.
  induction fuel as [|f IH]; intros n Hn; cbn [to_digits_aux].
  - change (2 ^ N.of_nat 0) with 1 in Hn. assert (E : n = 0) by lia. subst. reflexivity.
  - destruct (N.eqb_spec n 0) as [E|E]; [subst; reflexivity|].
    rewrite aux_app, of_digits_snoc, IH.
    + rewrite N.mul_comm. symmetry. apply N.div_mod. lia.
    + apply N.div_lt_upper_bound; [lia|].
      rewrite Nat2N.inj_succ, N.pow_succ_r' in Hn. nia.
Qed.

Lemma of_to_digits r n : 2 <= r -> of_digits r (to_digits r n) = n.
Proof.
  intros Hr. unfold to_digits. destruct (N.eqb_spec n 0) as [E|E]; [subst; reflexivity|].
  apply of_aux; [exact Hr|].
  rewrite Nat2N.inj_succ, N2Nat.id. apply N.log2_spec. lia.
Qed.

Lemma aux_forall (P : N -> Prop) r (HP : forall n, P (n mod r)) :
  forall fuel n acc, Forall P acc -> Forall P (to_digits_aux r fuel n acc).
Proof.
  induction fuel as [|f IH]; intros n acc Ha; cbn [to_digits_aux]; [exact Ha|].
  destruct (n =? 0); [exact Ha|]. apply IH. constructor; [apply HP|exact Ha].
Qed.

Lemma to_digits_lt r n : 2 <= r -> Forall (fun d => d < r) (to_digits r n).
Proof.
  intros Hr. unfold to_digits. destruct (n =? 0).
  - constructor; [lia|constructor].
  - apply aux_forall; [|constructor]. intros m. apply N.mod_lt. lia.
Qed.

Lemma to_digits_nonempty r n : to_digits r n <> [].
Proof.
  unfold to_digits. destruct (N.eqb_spec n 0) as [E|E]; [discriminate|].
  cbn [to_digits_aux]. destruct (N.eqb_spec n 0) as [E'|_]; [contradiction|].
  rewrite aux_app. intros H. apply app_eq_nil in H. destruct H as [_ H]. discriminate.
Qed.

Ltac leb_cases :=
  repeat match goal with
         | |- context [?a <=? ?b] => destruct (N.leb_spec a b)
         | |- context [?a <? ?b] => destruct (N.ltb_spec a b)
         end; cbn [andb]; try lia.

Lemma char_digit_digit_char up d : d < 36 -> char_digit (digit_char up d) = Some d.
Proof.
  intros H. unfold digit_char, char_digit. destruct up; leb_cases; f_equal; lia.
Qed.

Lemma digit_char_ge up d : 48 <= digit_char up d.
Proof. unfold digit_char. destruct up; leb_cases. Qed.

Lemma parse_digits_map up r : r <= 36 -> forall ds acc, Forall (fun d => d < r) ds ->
  parse_digits r (map (digit_char up) ds) acc = Some (fold_left (fun a d => a * r + d) ds acc).
Proof.
  intros Hr. induction ds as [|d ds IH]; intros acc Hd; cbn [map parse_digits fold_left]; [reflexivity|].
  inversion Hd as [|? ? Hd1 Hd2]; subst.
  rewrite char_digit_digit_char by lia.
  destruct (N.ltb_spec d r) as [_|C]; [|lia]. apply IH. exact Hd2.
Qed.

Lemma parse_to_digits up r n : 2 <= r -> r <= 36 ->
  parse_digits r (map (digit_char up) (to_digits r n)) 0 = Some n.
Proof.
  intros H2 H36. rewrite parse_digits_map by (try exact H36; apply to_digits_lt; exact H2).
  f_equal. apply (of_to_digits r n H2).
Qed.

Lemma radix_roundtrip_l up r z : 2 <= r -> r <= 36 -> parse_Z r (digits_of_Z up r z) = Some z.
Proof.
  intros H2 H36. unfold digits_of_Z, sign_chars.
  pose proof (to_digits_nonempty r (Z.abs_N z)) as Hne.
  pose proof (parse_to_digits up r (Z.abs_N z) H2 H36) as Hp.
  destruct (Z.ltb_spec z 0) as [Hz|Hz]; cbn [app].
  - unfold parse_Z. rewrite N.eqb_refl.
    destruct (to_digits r (Z.abs_N z)) as [|d ds] eqn:E; [contradiction|].
    cbn [map] in *. rewrite Hp. f_equal. rewrite N2Z.inj_abs_N. lia.
  - destruct (to_digits r (Z.abs_N z)) as [|d ds] eqn:E; [contradiction|].
    cbn [map] in *. unfold parse_Z.
    destruct (N.eqb_spec (digit_char up d) minus_c) as [C|_].
    + pose proof (digit_char_ge up d). unfold minus_c in C. lia.
    + rewrite Hp. f_equal. rewrite N2Z.inj_abs_N. lia.
Qed.

(* ------------------------------------------------------------------ ~Nd *)
Lemma dec_range n : Forall (fun c => 48 <= c /\ c <= 57) (dec n).
Proof.
  unfold dec. apply Forall_map. eapply Forall_impl; [|apply (to_digits_lt 10 n); lia].
  intros d Hd. cbn beta in Hd. unfold digit_char. destruct (N.ltb_spec d 10); lia.
Qed.

Lemma zeros_range k : Forall (fun c => 48 <= c /\ c <= 57) (zeros k).
Proof. unfold zeros, zero_c. induction k; cbn [repeat]; constructor; [lia|assumption]. Qed.

Lemma parse_zeros k l : parse_digits 10 (zeros k ++ l) 0 = parse_digits 10 l 0.
Proof. induction k as [|k IH]; [reflexivity|]. exact IH. Qed.

Lemma dec_length_pos n : (1 <= length (dec n))%nat.
Proof.
  unfold dec. rewrite map_length. pose proof (to_digits_nonempty 10 n).
  destruct (to_digits 10 n); [contradiction|cbn [length]; lia].
Qed.

Lemma nd_parts_spec n z : forall a b, nd_parts n z = (a, b) ->
  length b = n /\ (1 <= length a)%nat /\
  a ++ b = zeros (S n - length (dec (Z.abs_N z))) ++ dec (Z.abs_N z) /\
  parse_digits 10 (a ++ b) 0 = Some (Z.abs_N z).
Proof.
  unfold nd_parts.
  set (ds := dec (Z.abs_N z)). set (padded := zeros (S n - length ds) ++ ds).
  set (k := (length padded - n)%nat).
  assert (Hlen : (S n <= length padded)%nat).
  { unfold padded, zeros. rewrite app_length, repeat_length. pose proof (dec_length_pos (Z.abs_N z)). fold ds in H. lia. }
  intros a b E. inversion E; subst a b. repeat split.
  - rewrite skipn_length. unfold k. lia.
  - rewrite firstn_length. unfold k. lia.
  - apply firstn_skipn.
  - rewrite firstn_skipn. unfold padded. rewrite parse_zeros. unfold ds, dec.
    apply parse_to_digits; lia.
Qed.

Lemma nd_value_l n z : exists a b,
  fmt_nd n z = sign_chars z ++ a ++ point_frac n b /\ length b = n /\ (1 <= length a)%nat /\
  a ++ b = zeros (S n - length (dec (Z.abs_N z))) ++ dec (Z.abs_N z) /\
  parse_digits 10 (a ++ b) 0 = Some (Z.abs_N z).
Proof.
  unfold fmt_nd. destruct (nd_parts n z) as [a b] eqn:E. exists a, b.
  split; [reflexivity|]. apply (nd_parts_spec n z a b E).
Qed.

(* ------------------------------------------------------------------ grouping *)
Definition remove_c (sep : N) (l : list N) : list N := filter (fun x => negb (x =? sep)) l.

Lemma remove_c_id sep l : Forall (fun x => x <> sep) l -> remove_c sep l = l.
Proof.
  induction 1 as [|x l Hx Hl IH]; [reflexivity|]. unfold remove_c in *. cbn [filter].
  destruct (N.eqb_spec x sep); [contradiction|]. cbn [negb]. f_equal. exact IH.
Qed.

Lemma remove_c_app sep a b : remove_c sep (a ++ b) = remove_c sep a ++ remove_c sep b.
Proof. apply filter_app. Qed.

Lemma remove_c_rev sep l : remove_c sep (rev l) = rev (remove_c sep l).
Proof.
  induction l as [|x l IH]; [reflexivity|]. cbn [rev]. rewrite remove_c_app, IH.
  unfold remove_c. cbn [filter]. destruct (negb (x =? sep)); cbn [rev app]; [reflexivity|apply app_nil_r].
Qed.

(* induction in steps of three *)
Lemma len_ind (P : list N -> Prop) : (forall l, (forall l', (length l' < length l)%nat -> P l') -> P l) -> forall l, P l.
Proof.
  intros H l. remember (length l) as k eqn:E. revert l E.
  induction k as [k IH] using lt_wf_ind. intros l E. apply H. intros l' Hl'. apply (IH (length l')); [lia|reflexivity].
Qed.

Lemma g3_step sep a b c d r : g3 sep (a :: b :: c :: d :: r) = a :: b :: c :: sep :: g3 sep (d :: r).
Proof. reflexivity. Qed.

Lemma g3_remove sep : forall l, Forall (fun x => x <> sep) l -> remove_c sep (g3 sep l) = l.
Proof.
  induction l as [l IH] using len_ind. intros Hl.
  destruct l as [|a [|b [|c [|d r]]]]; try (apply remove_c_id; exact Hl).
  rewrite g3_step.
  inversion Hl as [|? ? Ha Hl1]; subst. inversion Hl1 as [|? ? Hb Hl2]; subst. inversion Hl2 as [|? ? Hc Hl3]; subst.
  unfold remove_c. cbn [filter].
  destruct (N.eqb_spec a sep); [contradiction|]. destruct (N.eqb_spec b sep); [contradiction|].
  destruct (N.eqb_spec c sep); [contradiction|]. rewrite N.eqb_refl. cbn [negb].
  do 3 f_equal. apply IH; [cbn [length]; lia|exact Hl3].
Qed.

Lemma group3_remove sep ds : Forall (fun x => x <> sep) ds -> remove_c sep (group3 sep ds) = ds.
Proof.
  intros H. unfold group3. rewrite remove_c_rev, g3_remove, rev_involutive; [reflexivity|].
  apply Forall_rev. exact H.
Qed.

Lemma range_ne sep l : (sep < 48 \/ 57 < sep) -> Forall (fun c => 48 <= c /\ c <= 57) l -> Forall (fun x => x <> sep) l.
Proof. intros Hs. apply Forall_impl. intros c Hc. lia. Qed.

Lemma Forall_firstn {A} (P : A -> Prop) k l : Forall P l -> Forall P (firstn k l).
Proof. revert l. induction k; intros l H; cbn [firstn]; [constructor|]. destruct H; constructor; auto. Qed.
Lemma Forall_skipn {A} (P : A -> Prop) k l : Forall P l -> Forall P (skipn k l).
Proof. revert l. induction k; intros l H; cbn [skipn]; [exact H|]. destruct H; [constructor|auto]. Qed.

Lemma nd_parts_range n z : let (a, b) := nd_parts n z in
  Forall (fun c => 48 <= c /\ c <= 57) a /\ Forall (fun c => 48 <= c /\ c <= 57) b.
Proof.
  unfold nd_parts.
  assert (H : Forall (fun c => 48 <= c /\ c <= 57) (zeros (S n - length (dec (Z.abs_N z))) ++ dec (Z.abs_N z))).
  { apply Forall_app. split; [apply zeros_range|apply dec_range]. }
  split; [apply Forall_firstn|apply Forall_skipn]; exact H.
Qed.

Lemma D_ungroup_l sep n z : sep <> 45 -> sep <> 46 -> (sep < 48 \/ 57 < sep) ->
  remove_c sep (fmt_nD sep n z) = fmt_nd n z.
Proof.
  intros H45 H46 Hr. unfold fmt_nD, fmt_nd. pose proof (nd_parts_range n z) as HR.
  destruct (nd_parts n z) as [a b]. destruct HR as [Ha Hb].
  rewrite !remove_c_app. rewrite group3_remove by (apply range_ne; assumption).
  f_equal; [|f_equal].
  - unfold sign_chars. destruct (z <? 0)%Z; [|reflexivity]. apply remove_c_id. constructor; [unfold minus_c; lia|constructor].
  - unfold point_frac. destruct n; [reflexivity|]. apply remove_c_id. constructor; [unfold point_c; lia|].
    apply range_ne; assumption.
Qed.

(* groups, read from the right: chunks of exactly three, the last (leftmost in the text) of one to three *)
Fixpoint chunks3 (l : list N) : list (list N) :=
  match l with
  | a :: b :: c :: ((_ :: _) as r) => [a; b; c] :: chunks3 r
  | [] => []
  | _ => [l]
  end.

Lemma chunks3_step a b c d r : chunks3 (a :: b :: c :: d :: r) = [a; b; c] :: chunks3 (d :: r).
Proof. reflexivity. Qed.

Lemma chunks3_nonempty l : l <> [] -> chunks3 l <> [].
Proof. destruct l as [|a [|b [|c [|d r]]]]; cbn [chunks3]; congruence. Qed.

Lemma g3_join sep : forall l, g3 sep l = join [sep] (chunks3 l).
Proof.
  induction l as [l IH] using len_ind.
  destruct l as [|a [|b [|c [|d r]]]]; try reflexivity.
  rewrite g3_step, chunks3_step. rewrite (IH (d :: r)) by (cbn [length]; lia).
  pose proof (chunks3_nonempty (d :: r)) as Hne.
  destruct (chunks3 (d :: r)) as [|x xs] eqn:E; [exfalso; apply Hne; [discriminate|reflexivity]|].
  reflexivity.
Qed.

Lemma concat_chunks3 : forall l, concat (chunks3 l) = l.
Proof.
  induction l as [l IH] using len_ind.
  destruct l as [|a [|b [|c [|d r]]]]; try reflexivity.
  rewrite chunks3_step. cbn [concat app]. rewrite (IH (d :: r)) by (cbn [length]; lia). reflexivity.
Qed.

Lemma chunks3_shape : forall l, l <> [] -> exists init lst, chunks3 l = init ++ [lst] /\
  Forall (fun g => length g = 3%nat) init /\ (1 <= length lst <= 3)%nat.
Proof.
  induction l as [l IH] using len_ind. intros Hne.
  destruct l as [|a [|b [|c [|d r]]]]; [contradiction| | | |].
  - exists [], [a]. cbn. repeat split; try constructor; lia.
  - exists [], [a; b]. cbn. repeat split; try constructor; lia.
  - exists [], [a; b; c]. cbn. repeat split; try constructor; lia.
  - destruct (IH (d :: r)) as [init [lst [E [Hi Hl]]]]; [cbn [length]; lia|discriminate|].
    exists ([a; b; c] :: init), lst. rewrite chunks3_step. rewrite E. repeat split; try lia.
    constructor; [reflexivity|exact Hi].
Qed.

Lemma D_groups_l sep n z : exists a b init lst,
  nd_parts n z = (a, b) /\
  fmt_nD sep n z = sign_chars z ++ group3 sep a ++ point_frac n b /\
  rev (group3 sep a) = join [sep] (init ++ [lst]) /\
  concat (init ++ [lst]) = rev a /\
  Forall (fun g => length g = 3%nat) init /\ (1 <= length lst <= 3)%nat.
Proof.
  unfold fmt_nD. destruct (nd_parts n z) as [a b] eqn:E.
  destruct (nd_parts_spec n z a b E) as [_ [Ha _]].
  assert (Hne : rev a <> []).
  { intros C. apply (f_equal (@length N)) in C. rewrite rev_length in C. cbn [length] in C. lia. }
  destruct (chunks3_shape (rev a) Hne) as [init [lst [Ec [Hi Hl]]]].
  exists a, b, init, lst. repeat split; try assumption; try lia.
  - unfold group3. rewrite rev_involutive, g3_join, Ec. reflexivity.
  - rewrite <- Ec. apply concat_chunks3.
Qed.

(* ------------------------------------------------------------------ columns *)
Lemma render_elems_length : forall es d l,
  length (render_elems es (glue_count es) d l) =
  (chars_len es + match glue_count es with O => 0 | S k' => k' * d + l end)%nat.
Proof.
  induction es as [|e es IH]; intros d l; [reflexivity|].
  destruct e as [cs|f]; cbn [render_elems glue_count chars_len].
  - rewrite app_length, IH. lia.
  - cbn [pred]. rewrite app_length, repeat_length, IH.
    destruct (glue_count es) as [|k']; lia.
Qed.

Lemma column_width_l from to es :
  (1 <= glue_count es)%nat -> (Z.of_nat (chars_len es) <= to - from)%Z ->
  Z.of_nat (length (render_cell from to es)) = (to - from)%Z.
Proof.
  intros Hk Hfit. unfold render_cell.
  set (space := (to - from - Z.of_nat (chars_len es))%Z).
  destruct (Z.leb_spec space 0) as [Hs|Hs].
  - rewrite render_elems_length. destruct (glue_count es); lia.
  - rewrite render_elems_length.
    destruct (glue_count es) as [|k'] eqn:Ek; [lia|].
    set (kz := Z.of_nat (S k')). assert (Hkz : (0 < kz)%Z) by (unfold kz; lia).
    pose proof (Z.div_mod space kz ltac:(lia)) as Hdm.
    pose proof (Z.mod_pos_bound space kz Hkz) as Hmod.
    assert (Hd : (0 <= space / kz)%Z) by (apply Z.div_pos; lia).
    rewrite Nat2Z.inj_add, Nat2Z.inj_add, Nat2Z.inj_mul.
    rewrite !Z2Nat.id by nia.
    unfold kz in *. nia.
Qed.

(* "~t~w~*|" and "~w~t~*|" *)
Definition fs_right : list N := [126; 116; 126; 119; 126; 42; 124].
Definition fs_left : list N := [126; 119; 126; 116; 126; 42; 124].

Lemma right_align_l a n : (Z.of_nat (length (write_text a)) <= n)%Z ->
  format_ fs_right [a; AInt n] =
  Some (repeat 32 (Z.to_nat (n - Z.of_nat (length (write_text a)))) ++ write_text a).
Proof.
  intros H. unfold format_, format_gen.
  change (tokens fs_right) with (Some [TDir NoNum 116; TDir NoNum 119; TDir NumStar 124]).
  cbv beta iota.
  change (cells false [TDir NoNum 116; TDir NoNum 119; TDir NumStar 124] [a; AInt n] 0%Z [] false)
    with (Some [ICell 0%Z n [EGlue 32; EChars (write_text a)]]).
  cbn [render]. rewrite app_nil_r. f_equal.
  unfold render_cell. cbn [glue_count chars_len].
  replace (n - 0 - Z.of_nat (length (write_text a) + 0))%Z with (n - Z.of_nat (length (write_text a)))%Z by lia.
  set (sp := (n - Z.of_nat (length (write_text a)))%Z).
  destruct (Z.leb_spec sp 0) as [Hs|Hs].
  - replace sp with 0%Z by lia. cbn [render_elems Z.to_nat repeat app pred]. rewrite app_nil_r. reflexivity.
  - cbn [render_elems pred]. rewrite app_nil_r.
    change (Z.of_nat 1) with 1%Z. rewrite Z.div_1_r, Z.mul_1_r.
    replace (sp + (sp - sp))%Z with sp by lia. reflexivity.
Qed.

Lemma left_align_l a n : (Z.of_nat (length (write_text a)) <= n)%Z ->
  format_ fs_left [a; AInt n] =
  Some (write_text a ++ repeat 32 (Z.to_nat (n - Z.of_nat (length (write_text a))))).
Proof.
  intros H. unfold format_, format_gen.
  change (tokens fs_left) with (Some [TDir NoNum 119; TDir NoNum 116; TDir NumStar 124]).
  cbv beta iota.
  change (cells false [TDir NoNum 119; TDir NoNum 116; TDir NumStar 124] [a; AInt n] 0%Z [] false)
    with (Some [ICell 0%Z n [EChars (write_text a); EGlue 32]]).
  cbn [render]. rewrite app_nil_r. f_equal.
  unfold render_cell. cbn [glue_count chars_len].
  replace (n - 0 - Z.of_nat (length (write_text a) + 0))%Z with (n - Z.of_nat (length (write_text a)))%Z by lia.
  set (sp := (n - Z.of_nat (length (write_text a)))%Z).
  destruct (Z.leb_spec sp 0) as [Hs|Hs].
  - replace sp with 0%Z by lia. reflexivity.
  - cbn [render_elems pred].
    change (Z.of_nat 1) with 1%Z. rewrite Z.div_1_r, Z.mul_1_r.
    replace (sp + (sp - sp))%Z with sp by lia. rewrite app_nil_r. reflexivity.
Qed.

Lemma aligned_width_l a n : (Z.of_nat (length (write_text a)) <= n)%Z ->
  (forall out, format_ fs_right [a; AInt n] = Some out -> Z.of_nat (length out) = n) /\
  (forall out, format_ fs_left [a; AInt n] = Some out -> Z.of_nat (length out) = n).
Proof.
  intros H. split; intros out E.
  - rewrite right_align_l in E by exact H. inversion E. rewrite app_length, repeat_length. lia.
  - rewrite left_align_l in E by exact H. inversion E. rewrite app_length, repeat_length. lia.
Qed.

(* ------------------------------------------------------------------ ~* *)
Lemma directive_star q c n args :
  directive q NumStar c (AInt (Z.of_N n) :: args) = directive q (NumLit n) c args.
Proof. unfold directive. cbn [take_num only_nonum]. reflexivity. Qed.

Lemma int_dir_not_here num d args f : int_dir num d args f <> Some AcColHere.
Proof.
  unfold int_dir. destruct args as [|[z|s|s|t] rest]; try discriminate.
  destruct (nonneg_nat _); try discriminate. destruct (f _ _); discriminate.
Qed.

Lemma directive_lit_not_here q n c args : directive q (NumLit n) c args <> Some AcColHere.
Proof.
  unfold directive. cbn [take_num only_nonum].
  repeat match goal with |- (if ?b then _ else _) <> _ => destruct b end;
    try apply int_dir_not_here; try discriminate.
  destruct (nonneg_nat _); discriminate.
Qed.

Lemma tilde_star_cells q c n ts args tab es wq :
  cells q (TDir NumStar c :: ts) (AInt (Z.of_N n) :: args) tab es wq =
  cells q (TDir (NumLit n) c :: ts) args tab es wq.
Proof.
  cbn [cells]. rewrite directive_star, andb_false_r.
  pose proof (directive_lit_not_here q n c args) as H.
  destruct (directive q (NumLit n) c args) as [ac|]; [|reflexivity]. destruct ac; try reflexivity. contradiction.
Qed.

(* the tokenizer reads a decimal count *)
Lemma tok_num : forall ds acc c rest, Forall (fun d => d < 10) ds -> is_digit c = false ->
  tok (SNum acc) (map (digit_char false) ds ++ c :: rest) =
  consT (TDir (NumLit (fold_left (fun a d => a * 10 + d) ds acc)) c) (tok (SLit []) rest).
Proof.
  induction ds as [|d ds IH]; intros acc c rest Hd Hc; cbn [map app tok fold_left].
  - rewrite Hc. reflexivity.
  - inversion Hd as [|? ? Hd1 Hd2]; subst.
    assert (E : digit_char false d = 48 + d) by (unfold digit_char; destruct (N.ltb_spec d 10); lia).
    rewrite E. assert (Hdig : is_digit (48 + d) = true).
    { unfold is_digit. apply andb_true_intro. split; apply N.leb_le; lia. }
    rewrite Hdig. replace (48 + d - 48) with d by lia. rewrite (N.mul_comm 10 acc). apply IH; assumption.
Qed.

Lemma flush_nil k : flush [] k = k.
Proof. destruct k; reflexivity. Qed.

Lemma tokens_tilde x : tokens (126 :: x) = tok STilde x.
Proof. unfold tokens. cbn [tok]. change (126 =? tilde_c) with true. cbv iota. apply flush_nil. Qed.

Lemma tokens_star c rest : tokens (126 :: 42 :: c :: rest) = consT (TDir NumStar c) (tok (SLit []) rest).
Proof. rewrite tokens_tilde. cbn [tok]. change (42 =? tilde_c) with false. change (42 =? 42) with true. reflexivity. Qed.

Lemma tokens_num n c rest : is_digit c = false ->
  tokens (126 :: dec n ++ c :: rest) = consT (TDir (NumLit n) c) (tok (SLit []) rest).
Proof.
  intros Hc. rewrite tokens_tilde. unfold dec.
  pose proof (to_digits_nonempty 10 n) as Hne. pose proof (to_digits_lt 10 n ltac:(lia)) as Hlt.
  pose proof (of_to_digits 10 n ltac:(lia)) as Hv.
  destruct (to_digits 10 n) as [|d ds]; [contradiction|].
  apply Forall_cons_iff in Hlt. destruct Hlt as [Hd1 Hd2]. cbn beta in Hd1.
  assert (E : digit_char false d = 48 + d) by (unfold digit_char; destruct (N.ltb_spec d 10); lia).
  cbn [map app]. rewrite E.
  assert (Hdig : is_digit (48 + d) = true).
  { unfold is_digit. apply andb_true_intro. split; apply N.leb_le; lia. }
  cbn [tok]. unfold tilde_c.
  destruct (N.eqb_spec (48 + d) 126) as [C|_]; [lia|].
  destruct (N.eqb_spec (48 + d) 42) as [C|_]; [lia|].
  destruct (N.eqb_spec (48 + d) 96) as [C|_]; [lia|].
  rewrite Hdig. replace (48 + d - 48) with d by lia.
  rewrite tok_num by assumption.
  unfold of_digits in Hv. cbn [fold_left] in Hv. replace (0 * 10 + d) with d in Hv by lia. rewrite Hv.
  reflexivity.
Qed.

Lemma tilde_star_string_l n c rest args : is_digit c = false ->
  format_ (126 :: 42 :: c :: rest) (AInt (Z.of_N n) :: args) = format_ (126 :: dec n ++ c :: rest) args.
Proof.
  intros Hc. unfold format_, format_gen. rewrite tokens_star, tokens_num by exact Hc.
  destruct (tok (SLit []) rest) as [ts|]; [|reflexivity]. cbn [consT].
  rewrite tilde_star_cells. reflexivity.
Qed.

(* ------------------------------------------------------------------ format.pl's ~Nd algorithm vs the documented text *)
Lemma zeros_S k : zeros (S k) = zero_c :: zeros k.
Proof. reflexivity. Qed.

Lemma nd_impl_eq_doc_l n z : (0 <= z)%Z \/ (n < length (dec (Z.abs_N z)))%nat -> fmt_nd_impl n z = fmt_nd n z.
Proof.
  intros H. unfold fmt_nd_impl, fmt_nd, nd_parts, digits_of_Z. fold (dec (Z.abs_N z)).
  pose proof (dec_length_pos (Z.abs_N z)) as Hpos.
  set (ds := dec (Z.abs_N z)) in *.
  unfold sign_chars. destruct (Z.ltb_spec z 0) as [Hz|Hz].
  - (* negative, more digits than n *)
    destruct H as [H|H]; [lia|].
    replace (S n - length ds)%nat with 0%nat by lia. cbn [zeros repeat app].
    destruct n as [|n'].
    + cbn [point_frac]. rewrite Nat.sub_0_r, firstn_all, ?skipn_all, ?app_nil_r. reflexivity.
    + cbn [length]. destruct (Nat.leb_spec (S (length ds)) (S n')) as [C|_]; [lia|].
      replace (S (length ds) - S n')%nat with (S (length ds - S n')) by lia.
      cbn [firstn skipn point_frac app]. reflexivity.
  - cbn [app]. destruct n as [|n'].
    + replace (1 - length ds)%nat with 0%nat by lia. cbn [zeros repeat app point_frac].
      rewrite Nat.sub_0_r, firstn_all, ?skipn_all, ?app_nil_r. reflexivity.
    + destruct (Nat.leb_spec (length ds) (S n')) as [Hl|Hl].
      * replace (S (S n') - length ds)%nat with (S (S n' - length ds)) by lia.
        rewrite zeros_S. cbn [app length].
        replace (S (length (zeros (S n' - length ds) ++ ds)) - S n')%nat with 1%nat
          by (unfold zeros; rewrite app_length, repeat_length; lia).
        cbn [firstn skipn point_frac app]. reflexivity.
      * replace (S (S n') - length ds)%nat with 0%nat by lia. cbn [zeros repeat app point_frac]. reflexivity.
Qed.

(* ------------------------------------------------------------------ errors *)
Definition known_letter (c : N) : bool :=
  existsb (N.eqb c) [119; 113; 97; 115; 105; 100; 68; 85; 76; 102; 114; 82; 110; 124; 43; 116; 126; 42; 96].

Lemma unknown_directive_l c rest args : known_letter c = false -> is_digit c = false ->
  format_ (126 :: c :: rest) args = None.
Proof.
  intros Hk Hd. unfold known_letter in Hk. cbn [existsb] in Hk.
  repeat (apply orb_false_elim in Hk; let H := fresh "E" in destruct Hk as [H Hk]).
  unfold format_, format_gen. rewrite tokens_tilde. cbn [tok]. unfold tilde_c.
  rewrite E15, E16, E17, Hd.
  destruct (tok (SLit []) rest) as [ts|]; [|reflexivity]. cbn [consT cells].
  rewrite E14. cbn [andb]. unfold directive. cbn [take_num].
  rewrite E, E0, E1, E2, E3, E4, E5, E6, E7, E8, E9, E10, E11, E12, E13. reflexivity.
Qed.

