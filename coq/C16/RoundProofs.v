(* C16 -- proofs about the specification of coq/C16/Round.v: the model's decimal -> binary64 conversion (dec_round /
   dec_to_float / parse_float of Model.v) is total and is round-to-nearest-even, by way of Flocq's
   round radix2 (FLT_exp (-1074) 53) ZnearestE.  Sections: integer level (division, attempts, totality, bit layout),
   real level (bridge to Flocq, specification, overflow / underflow, assembly, round trip, call sites). *)
From Coq Require Import List ZArith NArith Reals Lia Lra Bool.
From Flocq Require Import Core.
From V Require Import C16.Model C16.Proofs C16.Round.
Import ListNotations.

Notation fexp64 := (FLT_exp (-1074) 53).
Notation rne := (round radix2 fexp64 ZnearestE).
Notation b2 := (bpow radix2).

Local Instance prec53 : Prec_gt_0 53 := eq_refl.
Local Instance ne64 : Exists_NE radix2 fexp64 := exists_NE_FLT radix2 (-1074) 53 (or_intror eq_refl).

(* ==================================================================================================== *)
Open Scope Z_scope.

(* ================================================================ the restoring division *)
Lemma fdiv_loop_spec : forall i n d q, 0 < d -> 0 <= n < d * 2 ^ Z.of_nat i ->
  fdiv_loop i n d q = q + n / d.
Proof.
  induction i as [|j IH]; intros n d q Hd Hn.
  - cbn [fdiv_loop]. change (Z.of_nat 0) with 0 in Hn. rewrite Z.pow_0_r in Hn.
    rewrite Z.div_small by lia. lia.
  - cbn [fdiv_loop]. rewrite Z.shiftl_mul_pow2 by lia. rewrite Z.shiftl_mul_pow2 by lia.
    rewrite Nat2Z.inj_succ, Z.pow_succ_r in Hn by lia.
    set (p := 2 ^ Z.of_nat j) in *.
    assert (Hp : 0 < p) by (apply Z.pow_pos_nonneg; lia).
    destruct (Z.leb_spec (d * p) n) as [L|L].
    + rewrite IH by nia.
      replace n with ((n - d * p) + p * d) at 2 by ring.
      rewrite Z.div_add by lia. lia.
    + apply IH; [exact Hd | nia].
Qed.

Lemma fdiv_spec : forall n d, 0 < d -> 0 <= n < d * 2 ^ 56 -> fdiv n d = n / d.
Proof. intros n d Hd Hn. unfold fdiv. rewrite (fdiv_loop_spec 56 n d 0 Hd Hn). lia. Qed.

(* ================================================================ one attempt *)
Definition q_range (q sh : Z) : Prop := (2 ^ 52 <= q < 2 ^ 53) \/ (sh = -1074 /\ 0 <= q < 2 ^ 52).

Lemma accept_q_some : forall n d sh, 0 < d -> 0 <= n -> q_range (n / d) sh ->
  accept_q (n / d) n d sh = Some (round_qr (n / d) (n mod d) d, sh).
Proof.
  intros n d sh Hd Hn Hq. unfold accept_q.
  assert (E : n - n / d * d = n mod d) by (rewrite Z.mod_eq by lia; ring).
  rewrite E. pose proof (Z.mod_pos_bound n d Hd) as Hm.
  assert (C : ((0 <=? n mod d) && (n mod d <? d) &&
     ((2 ^ 52 <=? n / d) && (n / d <? 2 ^ 53) || (sh =? -1074) && (0 <=? n / d) && (n / d <? 2 ^ 52))) = true).
  { apply andb_true_iff; split; [apply andb_true_iff; split; [apply Z.leb_le | apply Z.ltb_lt]; lia|].
    apply orb_true_iff. destruct Hq as [Hq|[Hs Hq]]; [left | right].
    - apply andb_true_iff; split; [apply Z.leb_le | apply Z.ltb_lt]; lia.
    - apply andb_true_iff; split; [apply andb_true_iff; split; [apply Z.eqb_eq | apply Z.leb_le] | apply Z.ltb_lt]; lia. }
  rewrite C. reflexivity.
Qed.

Lemma accept_q_inv : forall q n d sh q' sh', accept_q q n d sh = Some (q', sh') ->
  sh' = sh /\ 0 < d /\ 0 <= n /\ q = n / d /\ q' = round_qr (n / d) (n mod d) d /\ q_range (n / d) sh.
Proof.
  intros q n d sh q' sh' H. unfold accept_q in H.
  remember (n - q * d) as r eqn:Er.
  destruct ((0 <=? r) && (r <? d) &&
            ((2 ^ 52 <=? q) && (q <? 2 ^ 53) || (sh =? -1074) && (0 <=? q) && (q <? 2 ^ 52))) eqn:C; [|discriminate].
  injection H as <- <-.
  apply andb_true_iff in C as [C R]. apply andb_true_iff in C as [C1 C2].
  apply Z.leb_le in C1. apply Z.ltb_lt in C2.
  assert (Hd : 0 < d) by lia.
  assert (Eq : q = n / d) by (apply (Z.div_unique n d q r); [lia | lia]).
  assert (Em : r = n mod d) by (apply (Z.mod_unique n d q r); [lia | lia]).
  assert (Rg : q_range q sh).
  { unfold q_range. apply orb_true_iff in R as [R|R].
    - apply andb_true_iff in R as [R1 R2]. apply Z.leb_le in R1. apply Z.ltb_lt in R2. left. lia.
    - apply andb_true_iff in R as [R R3]. apply andb_true_iff in R as [R1 R2].
      apply Z.eqb_eq in R1. apply Z.leb_le in R2. apply Z.ltb_lt in R3. right. lia. }
  assert (Hn : 0 <= n).
  { assert (0 <= q) by (destruct Rg as [Rg|[_ Rg]]; lia). nia. }
  rewrite <- Eq, <- Em.
  split; [reflexivity|]. split; [exact Hd|]. split; [exact Hn|]. split; [reflexivity|]. split; [reflexivity | exact Rg].
Qed.

(* (n, d) = the fraction x / 2^sh, written with non-negative powers only *)
Definition sc_n (num sh : Z) : Z := num * 2 ^ Z.max 0 (- sh).
Definition sc_d (den sh : Z) : Z := den * 2 ^ Z.max 0 sh.

Lemma scaled_sc : forall num den sh, scaled num den sh = (sc_n num sh, sc_d den sh).
Proof.
  intros num den sh. rewrite scaled_spec. unfold sc_n, sc_d. destruct (Z.leb_spec 0 sh) as [H|H].
  - rewrite (Z.max_l 0 (- sh)) by lia. rewrite (Z.max_r 0 sh) by lia. rewrite Z.pow_0_r. f_equal; ring.
  - rewrite (Z.max_r 0 (- sh)) by lia. rewrite (Z.max_l 0 sh) by lia. rewrite Z.pow_0_r. f_equal; ring.
Qed.

Lemma sc_pos : forall num den sh, 0 < num -> 0 < den -> 0 < sc_n num sh /\ 0 < sc_d den sh.
Proof.
  intros num den sh Hn Hd. unfold sc_n, sc_d.
  assert (0 < 2 ^ Z.max 0 (- sh)) by (apply Z.pow_pos_nonneg; lia).
  assert (0 < 2 ^ Z.max 0 sh) by (apply Z.pow_pos_nonneg; lia). nia.
Qed.

Lemma try_sh_some : forall num den sh, 0 < num -> 0 < den ->
  q_range (sc_n num sh / sc_d den sh) sh -> sc_n num sh < sc_d den sh * 2 ^ 56 ->
  try_sh num den sh = Some (round_qr (sc_n num sh / sc_d den sh) (sc_n num sh mod sc_d den sh) (sc_d den sh), sh).
Proof.
  intros num den sh Hn Hd Hq Hb. unfold try_sh. rewrite scaled_sc.
  destruct (sc_pos num den sh Hn Hd) as [A B].
  rewrite fdiv_spec by lia. apply accept_q_some; [lia | lia | exact Hq].
Qed.

Lemma try_sh_inv : forall num den sh q' sh', try_sh num den sh = Some (q', sh') ->
  sh' = sh /\ q' = round_qr (sc_n num sh / sc_d den sh) (sc_n num sh mod sc_d den sh) (sc_d den sh) /\
  q_range (sc_n num sh / sc_d den sh) sh.
Proof.
  intros num den sh q' sh' H. unfold try_sh in H. rewrite scaled_sc in H.
  destruct (accept_q_inv _ _ _ _ _ _ H) as (A & _ & _ & _ & B & C). repeat split; assumption.
Qed.

(* ================================================================ the size of the scaled fraction *)
  Lemma sc_lower : forall num den a b, 0 <= a -> 0 <= b -> 2 ^ a <= num < 2 ^ (a + 1) -> 2 ^ b <= den < 2 ^ (b + 1) ->
    forall sh t, 0 <= t -> t <= a - b - 1 - sh -> 2 ^ t * sc_d den sh <= sc_n num sh.
  Proof.
    intros num den a b Ha Hb Hnum Hden sh t Ht Hle. unfold sc_n, sc_d.
    set (P := Z.max 0 (- sh)). set (N := Z.max 0 sh).
    assert (HP : 0 <= P) by (unfold P; lia). assert (HN : 0 <= N) by (unfold N; lia).
    assert (E : t + (b + 1) + N <= a + P) by (unfold P, N; lia).
    assert (L1 : 2 ^ t * (den * 2 ^ N) <= 2 ^ t * (2 ^ (b + 1) * 2 ^ N)).
    { apply Z.mul_le_mono_nonneg_l; [apply Z.pow_nonneg; lia|].
      apply Z.mul_le_mono_nonneg_r; [apply Z.pow_nonneg; lia | lia]. }
    assert (L2 : 2 ^ t * (2 ^ (b + 1) * 2 ^ N) = 2 ^ (t + (b + 1) + N)).
    { rewrite !Z.pow_add_r by lia. ring. }
    assert (L3 : 2 ^ (t + (b + 1) + N) <= 2 ^ (a + P)) by (apply Z.pow_le_mono_r; lia).
    assert (L4 : 2 ^ (a + P) = 2 ^ a * 2 ^ P) by (rewrite Z.pow_add_r by lia; ring).
    assert (L5 : 2 ^ a * 2 ^ P <= num * 2 ^ P).
    { apply Z.mul_le_mono_nonneg_r; [apply Z.pow_nonneg; lia | lia]. }
    lia.
  Qed.

  Lemma sc_upper : forall num den a b, 0 <= a -> 0 <= b -> 2 ^ a <= num < 2 ^ (a + 1) -> 2 ^ b <= den < 2 ^ (b + 1) ->
    forall sh t, 0 <= t -> a - b + 1 - sh <= t -> sc_n num sh < 2 ^ t * sc_d den sh.
  Proof.
    intros num den a b Ha Hb Hnum Hden sh t Ht Hle. unfold sc_n, sc_d.
    set (P := Z.max 0 (- sh)). set (N := Z.max 0 sh).
    assert (HP : 0 <= P) by (unfold P; lia). assert (HN : 0 <= N) by (unfold N; lia).
    assert (E : (a + 1) + P <= t + b + N) by (unfold P, N; lia).
    assert (P2 : 0 < 2 ^ P) by (apply Z.pow_pos_nonneg; lia).
    assert (L1 : num * 2 ^ P < 2 ^ (a + 1) * 2 ^ P) by (apply Z.mul_lt_mono_pos_r; lia).
    assert (L2 : 2 ^ (a + 1) * 2 ^ P = 2 ^ (a + 1 + P)) by (rewrite !Z.pow_add_r by lia; ring).
    assert (L3 : 2 ^ (a + 1 + P) <= 2 ^ (t + b + N)) by (apply Z.pow_le_mono_r; lia).
    assert (L4 : 2 ^ (t + b + N) = 2 ^ t * (2 ^ b * 2 ^ N)) by (rewrite !Z.pow_add_r by lia; ring).
    assert (L5 : 2 ^ t * (2 ^ b * 2 ^ N) <= 2 ^ t * (den * 2 ^ N)).
    { apply Z.mul_le_mono_nonneg_l; [apply Z.pow_nonneg; lia|].
      apply Z.mul_le_mono_nonneg_r; [apply Z.pow_nonneg; lia | lia]. }
    lia.
  Qed.

Lemma sc_step : forall num den sh, sc_n num (sh - 1) * sc_d den sh = 2 * sc_n num sh * sc_d den (sh - 1).
Proof.
  intros num den sh. unfold sc_n, sc_d.
  destruct (Z_lt_le_dec sh 1) as [H|H].
  - replace (Z.max 0 (- (sh - 1))) with (Z.succ (Z.max 0 (- sh))) by lia.
    rewrite Z.pow_succ_r by lia. rewrite (Z.max_l 0 (sh - 1)) by lia. rewrite (Z.max_l 0 sh) by lia. ring.
  - replace (Z.max 0 sh) with (Z.succ (Z.max 0 (sh - 1))) by lia.
    rewrite Z.pow_succ_r by lia. rewrite (Z.max_l 0 (- (sh - 1))) by lia. rewrite (Z.max_l 0 (- sh)) by lia. ring.
Qed.

(* ================================================================ totality of dec_round *)
Definition round_at (num den sh : Z) : Z :=
  round_qr (sc_n num sh / sc_d den sh) (sc_n num sh mod sc_d den sh) (sc_d den sh).

Lemma dec_round_frac_total : forall num den, 0 < num -> 0 < den ->
  let sh0 := Z.max (Z.log2 num - Z.log2 den - 52) (-1074) in
  exists sh, -1074 <= sh /\ q_range (sc_n num sh / sc_d den sh) sh /\
    match try_sh num den sh0 with
    | Some r => Some r
    | None => match try_sh num den (Z.max (sh0 - 1) (-1074)) with
              | Some r => Some r
              | None => try_sh num den (sh0 + 1)
              end
    end = Some (round_at num den sh, sh).
Proof.
  intros num den Hn Hd sh0.
  set (a := Z.log2 num) in *. set (b := Z.log2 den) in *.
  assert (Ha : 0 <= a) by apply Z.log2_nonneg. assert (Hb : 0 <= b) by apply Z.log2_nonneg.
  assert (Hnum : 2 ^ a <= num < 2 ^ (a + 1)) by (unfold a; rewrite Z.add_1_r; apply Z.log2_spec; lia).
  assert (Hden : 2 ^ b <= den < 2 ^ (b + 1)) by (unfold b; rewrite Z.add_1_r; apply Z.log2_spec; lia).
  pose proof (sc_lower num den a b Ha Hb Hnum Hden) as LO.
  pose proof (sc_upper num den a b Ha Hb Hnum Hden) as UP.
  assert (DIVLO : forall sh t, 0 <= t -> t <= a - b - 1 - sh -> 2 ^ t <= sc_n num sh / sc_d den sh).
  { intros sh t Ht Hle. destruct (sc_pos num den sh Hn Hd) as [_ B].
    apply Z.div_le_lower_bound; [lia|]. rewrite Z.mul_comm. apply LO; assumption. }
  assert (DIVUP : forall sh t, 0 <= t -> a - b + 1 - sh <= t -> sc_n num sh / sc_d den sh < 2 ^ t).
  { intros sh t Ht Hle. destruct (sc_pos num den sh Hn Hd) as [_ B].
    apply Z.div_lt_upper_bound; [lia|]. rewrite Z.mul_comm. apply UP; assumption. }
  assert (DIV0 : forall sh, 0 <= sc_n num sh / sc_d den sh).
  { intros sh. destruct (sc_pos num den sh Hn Hd) as [A B]. apply Z.div_pos; lia. }
  assert (BIG : forall sh t, 0 <= t <= 56 -> a - b + 1 - sh <= t -> sc_n num sh < sc_d den sh * 2 ^ 56).
  { intros sh t Ht Hle. destruct (sc_pos num den sh Hn Hd) as [_ B].
    pose proof (UP sh t (proj1 Ht) Hle) as U.
    assert (2 ^ t <= 2 ^ 56) by (apply Z.pow_le_mono_r; lia). nia. }
  destruct (Z_lt_le_dec (a - b - 52) (-1074)) as [Hk|Hk].
  - (* deep subnormal: sh0 = -1074 and the quotient is below 2^52 *)
    assert (E0 : sh0 = -1074) by (unfold sh0; lia).
    exists (-1074). split; [lia|].
    assert (Q : q_range (sc_n num (-1074) / sc_d den (-1074)) (-1074)).
    { right. split; [reflexivity|]. split; [apply DIV0 | apply DIVUP; lia]. }
    split; [exact Q|]. rewrite E0.
    rewrite (try_sh_some num den (-1074) Hn Hd Q (BIG (-1074) 52 ltac:(lia) ltac:(lia))). reflexivity.
  - assert (E0 : sh0 = a - b - 52) by (unfold sh0; lia).
    pose proof (DIVLO sh0 51 ltac:(lia) ltac:(lia)) as L51.
    pose proof (DIVUP sh0 53 ltac:(lia) ltac:(lia)) as U53.
    destruct (Z_lt_le_dec (sc_n num sh0 / sc_d den sh0) (2 ^ 52)) as [Hs|Hs].
    + destruct (Z.eq_dec sh0 (-1074)) as [Em|Em].
      * (* first attempt, subnormal *)
        exists sh0. split; [lia|].
        assert (Q : q_range (sc_n num sh0 / sc_d den sh0) sh0) by (right; split; [exact Em | split; [apply DIV0 | exact Hs]]).
        split; [exact Q|].
        rewrite (try_sh_some num den sh0 Hn Hd Q (BIG sh0 53 ltac:(lia) ltac:(lia))). reflexivity.
      * (* the estimate was one too high: second attempt *)
        assert (E1 : Z.max (sh0 - 1) (-1074) = sh0 - 1) by lia.
        assert (Q : q_range (sc_n num (sh0 - 1) / sc_d den (sh0 - 1)) (sh0 - 1)).
        { left. split; [apply DIVLO; lia|].
          destruct (sc_pos num den sh0 Hn Hd) as [A0 B0]. destruct (sc_pos num den (sh0 - 1) Hn Hd) as [A1 B1].
          apply Z.div_lt_upper_bound; [lia|].
          pose proof (sc_step num den sh0) as ST.
          assert (N0 : sc_n num sh0 < 2 ^ 52 * sc_d den sh0).
          { pose proof (Z.mul_succ_div_gt (sc_n num sh0) (sc_d den sh0) B0). nia. }
          change (2 ^ 53) with (2 * 2 ^ 52). nia. }
        destruct (try_sh num den sh0) as [[q1 s1]|] eqn:T1.
        -- destruct (try_sh_inv _ _ _ _ _ T1) as (-> & -> & Q1). exists sh0. split; [lia|]. split; [exact Q1 | reflexivity].
        -- exists (sh0 - 1). split; [lia|]. split; [exact Q|]. rewrite E1.
           rewrite (try_sh_some num den (sh0 - 1) Hn Hd Q (BIG (sh0 - 1) 54 ltac:(lia) ltac:(lia))). reflexivity.
    + (* first attempt, normal *)
      exists sh0. split; [lia|].
      assert (Q : q_range (sc_n num sh0 / sc_d den sh0) sh0) by (left; lia).
      split; [exact Q|].
      rewrite (try_sh_some num den sh0 Hn Hd Q (BIG sh0 53 ltac:(lia) ltac:(lia))). reflexivity.
Qed.

Lemma dec_num_pos : forall m e, 0 < m -> 0 < dec_num m e.
Proof.
  intros m e Hm. unfold dec_num. destruct (Z.leb_spec 0 e); [|lia].
  assert (0 < 10 ^ e) by (apply Z.pow_pos_nonneg; lia). nia.
Qed.

Lemma dec_round_spec : forall m e, 0 < m ->
  exists sh, -1074 <= sh /\
    q_range (sc_n (dec_num m e) sh / sc_d (dec_den e) sh) sh /\
    dec_round m e = Some (round_at (dec_num m e) (dec_den e) sh, sh).
Proof.
  intros m e Hm. unfold dec_round.
  exact (dec_round_frac_total (dec_num m e) (dec_den e) (dec_num_pos m e Hm) (dec_den_pos e)).
Qed.

(* ==================================================================================================== *)


Ltac Zify.zify_post_hook ::= Z.to_euclidean_division_equations.

(* the pair after the carry 2^53 * 2^sh = 2^52 * 2^(sh+1) *)
Definition norm (q sh : Z) : Z * Z := if q =? 2 ^ 53 then (2 ^ 52, sh + 1) else (q, sh).

(* canonical with an exponent that is not bounded above *)
Definition ucanon (q sh : Z) : Prop := (2 ^ 52 <= q < 2 ^ 53 /\ -1074 <= sh) \/ (sh = -1074 /\ 0 <= q < 2 ^ 52).

Lemma round_at_range : forall num den sh, 0 < num -> 0 < den -> q_range (sc_n num sh / sc_d den sh) sh ->
  range_ok (round_at num den sh) sh.
Proof.
  intros num den sh Hn Hd Q. unfold round_at. destruct (sc_pos num den sh Hn Hd) as [A B].
  pose proof (Z.mod_pos_bound (sc_n num sh) (sc_d den sh) B) as Hm.
  destruct (round_qr_correct (sc_n num sh / sc_d den sh) _ _ Hm) as (_ & _ & R).
  unfold range_ok. destruct Q as [Q|[Qs Q]]; [left | right]; lia.
Qed.

Lemma norm_ucanon : forall q sh, range_ok q sh -> -1074 <= sh -> ucanon (fst (norm q sh)) (snd (norm q sh)).
Proof.
  intros q sh R Hs. unfold norm, ucanon. destruct (Z.eqb_spec q (2 ^ 53)) as [E|E]; cbn [fst snd].
  - left. lia.
  - destruct R as [R|[Rs R]]; [left; lia|].
    destruct (Z.eq_dec q (2 ^ 52)); [left | right]; lia.
Qed.

Lemma bits_of_norm : forall q sh, range_ok q sh -> -1074 <= sh ->
  (snd (norm q sh) <= 971 -> exists b, bits_of q sh = FBits b /\ finite_bits b /\ decode b = norm q sh) /\
  (972 <= snd (norm q sh) -> bits_of q sh = FInf).
Proof.
  intros q sh R Hs. unfold norm, bits_of, inf_bits, finite_bits, decode.
  destruct (Z.eqb_spec q (2 ^ 53)) as [E|E]; cbn [fst snd].
  - subst q. split; intros H.
    + destruct (Z.leb_spec (2047 * 2 ^ 52) ((sh + 1074) * 2 ^ 52 + 2 ^ 53)) as [L|L]; [exfalso; lia|].
      eexists. split; [reflexivity|]. split; [lia|].
      destruct (Z.eqb_spec (((sh + 1074) * 2 ^ 52 + 2 ^ 53) / 2 ^ 52) 0) as [Z0|Z0]; [exfalso; lia|].
      f_equal; lia.
    + destruct (Z.leb_spec (2047 * 2 ^ 52) ((sh + 1074) * 2 ^ 52 + 2 ^ 53)) as [L|L]; [reflexivity | exfalso; lia].
  - split; intros H.
    + destruct (Z.leb_spec (2047 * 2 ^ 52) ((sh + 1074) * 2 ^ 52 + q)) as [L|L].
      { exfalso. destruct R as [R|[Rs R]]; lia. }
      eexists. split; [reflexivity|]. split; [destruct R as [R|[Rs R]]; lia|].
      destruct (Z.eqb_spec (((sh + 1074) * 2 ^ 52 + q) / 2 ^ 52) 0) as [Z0|Z0].
      * assert (sh = -1074 /\ q < 2 ^ 52) as [-> Hq] by (destruct R as [R|[Rs R]]; lia).
        f_equal; destruct R as [R|[Rs R]]; lia.
      * assert (2 ^ 52 <= q) by (destruct R as [R|[Rs R]]; lia).
        f_equal; destruct R as [R|[Rs R]]; lia.
    + destruct (Z.leb_spec (2047 * 2 ^ 52) ((sh + 1074) * 2 ^ 52 + q)) as [L|L]; [reflexivity|].
      exfalso. destruct R as [R|[Rs R]]; lia.
Qed.

Lemma decode_canonical : forall b, finite_bits b -> canonical64 (fst (decode b)) (snd (decode b)).
Proof.
  intros b Hb. unfold finite_bits in Hb. unfold decode, canonical64.
  destruct (Z.eqb_spec (b / 2 ^ 52) 0) as [Z0|Z0]; cbn [fst snd]; [right | left]; lia.
Qed.

Lemma decode_inj : forall b1 b2, finite_bits b1 -> finite_bits b2 -> decode b1 = decode b2 -> b1 = b2.
Proof.
  intros b1 b2 H1 H2. unfold finite_bits in *. unfold decode.
  destruct (Z.eqb_spec (b1 / 2 ^ 52) 0) as [Z1|Z1]; destruct (Z.eqb_spec (b2 / 2 ^ 52) 0) as [Z2|Z2];
    intros E; pose proof (f_equal fst E) as E1; pose proof (f_equal snd E) as E2; cbn [fst snd] in E1, E2; lia.
Qed.

Lemma ucanon_canonical : forall q sh, ucanon q sh -> sh <= 971 -> canonical64 q sh.
Proof. intros q sh [U|U] H; [left | right]; lia. Qed.

Close Scope Z_scope.
(* ==================================================================================================== *)
Open Scope R_scope.



Lemma ratio_lt_half : forall r d, 0 < d -> 2 * r < d -> r / d < / 2.
Proof.
  intros r d Hd H. set (t := r / d). assert (E : t * d = r) by (unfold t; field; lra). nra.
Qed.
Lemma ratio_gt_half : forall r d, 0 < d -> d < 2 * r -> / 2 < r / d.
Proof.
  intros r d Hd H. set (t := r / d). assert (E : t * d = r) by (unfold t; field; lra). nra.
Qed.
Lemma ratio_eq_half : forall r d, 0 < d -> 2 * r = d -> r / d = / 2.
Proof. intros r d Hd H. subst d. field. lra. Qed.

Lemma ZnearestE_div : forall n d, (0 < d)%Z ->
  ZnearestE (IZR n / IZR d) = round_qr (n / d) (n mod d) d.
Proof.
  intros n d Hd.
  assert (Hd' : 0 < IZR d) by (apply IZR_lt; lia).
  pose proof (Z.mod_pos_bound n d Hd) as Hm.
  assert (En : IZR n = IZR (n / d) * IZR d + IZR (n mod d)).
  { rewrite <- mult_IZR, <- plus_IZR. f_equal. rewrite Z.mul_comm. apply Z.div_mod. lia. }
  assert (Ef : IZR n / IZR d - IZR (n / d) = IZR (n mod d) / IZR d).
  { rewrite En. field. lra. }
  assert (Hc : (0 < n mod d)%Z -> Zceil (IZR n / IZR d) = (n / d + 1)%Z).
  { intros Hp. rewrite Zceil_floor_neq; rewrite Zfloor_div by lia; [reflexivity|].
    intros E. rewrite E in Ef. replace (IZR n / IZR d - IZR n / IZR d) with 0 in Ef by ring.
    assert (0 < IZR (n mod d)) by (apply IZR_lt; lia).
    assert (0 < IZR (n mod d) / IZR d) by (apply Rdiv_lt_0_compat; lra). lra. }
  unfold Znearest. rewrite Zfloor_div by lia. rewrite Ef. unfold round_qr.
  destruct (Z.compare_spec (2 * (n mod d)) d) as [C|C|C].
  - rewrite Rcompare_Eq.
    + destruct (Z.even (n / d)); cbn [negb]; [reflexivity | apply Hc; lia].
    + apply ratio_eq_half; [exact Hd'|]. change 2 with (IZR 2). rewrite <- mult_IZR. f_equal. exact C.
  - rewrite Rcompare_Lt; [reflexivity|].
    apply ratio_lt_half; [exact Hd'|]. change 2 with (IZR 2). rewrite <- mult_IZR. apply IZR_lt. exact C.
  - rewrite Rcompare_Gt; [apply Hc; lia|].
    apply ratio_gt_half; [exact Hd'|]. change 2 with (IZR 2). rewrite <- mult_IZR. apply IZR_lt. exact C.
Qed.

Lemma cexp_normal : forall x sh, (-1074 <= sh)%Z -> b2 (52 + sh) <= x < b2 (53 + sh) ->
  cexp radix2 fexp64 x = sh.
Proof.
  intros x sh Hs Hx. unfold cexp. rewrite (mag_unique_pos radix2 x (53 + sh)).
  - unfold FLT_exp. lia.
  - replace (53 + sh - 1)%Z with (52 + sh)%Z by ring. exact Hx.
Qed.

Lemma cexp_subnormal : forall x, 0 < x < b2 (-1022) -> cexp radix2 fexp64 x = (-1074)%Z.
Proof.
  intros x [H0 H1]. unfold cexp.
  assert (L : (mag radix2 x <= -1022)%Z).
  { apply mag_le_bpow; [lra|]. rewrite Rabs_pos_eq by lra. exact H1. }
  unfold FLT_exp. lia.
Qed.

Lemma b2_52 : b2 52 = IZR (2 ^ 52). Proof. reflexivity. Qed.
Lemma b2_53 : b2 53 = IZR (2 ^ 53). Proof. reflexivity. Qed.

(* y * 2^sh with floor y in the range of a 53-bit (or subnormal) mantissa: the canonical exponent is sh *)
Lemma cexp_scaled : forall y sh, 0 < y -> (-1074 <= sh)%Z -> q_range (Zfloor y) sh ->
  cexp radix2 fexp64 (y * b2 sh) = sh.
Proof.
  intros y sh Hy Hs Q.
  pose proof (Zfloor_lb y) as FL. pose proof (Zfloor_ub y) as FU.
  pose proof (bpow_gt_0 radix2 sh) as Bp.
  destruct Q as [Q|[-> Q]].
  - apply cexp_normal; [exact Hs|]. rewrite !bpow_plus, b2_52, b2_53. split.
    + apply Rmult_le_compat_r; [lra|]. apply Rle_trans with (2 := FL). apply IZR_le. lia.
    + apply Rmult_lt_compat_r; [lra|]. apply Rlt_le_trans with (1 := FU).
      rewrite <- plus_IZR. apply IZR_le. lia.
  - apply cexp_subnormal. split; [apply Rmult_lt_0_compat; lra|].
    replace (-1022)%Z with (52 + -1074)%Z by reflexivity. rewrite bpow_plus, b2_52.
    apply Rmult_lt_compat_r; [lra|]. apply Rlt_le_trans with (1 := FU).
    rewrite <- plus_IZR. apply IZR_le. lia.
Qed.

Lemma rne_scaled : forall n d sh, (0 < n)%Z -> (0 < d)%Z -> (-1074 <= sh)%Z -> q_range (n / d) sh ->
  rne (IZR n / IZR d * b2 sh) = IZR (round_qr (n / d) (n mod d) d) * b2 sh.
Proof.
  intros n d sh Hn Hd Hs Q.
  assert (Hy : 0 < IZR n / IZR d) by (apply Rdiv_lt_0_compat; apply IZR_lt; lia).
  assert (Hc : cexp radix2 fexp64 (IZR n / IZR d * b2 sh) = sh).
  { apply cexp_scaled; [exact Hy | exact Hs|]. rewrite Zfloor_div by lia. exact Q. }
  unfold round, scaled_mantissa. rewrite Hc.
  replace (IZR n / IZR d * b2 sh * b2 (- sh)) with (IZR n / IZR d).
  - rewrite ZnearestE_div by exact Hd. reflexivity.
  - rewrite Rmult_assoc, <- bpow_plus. replace (sh + - sh)%Z with 0%Z by ring. cbn [bpow]. ring.
Qed.

(* ==================================================================================================== *)
Open Scope R_scope.


Definition radix10 : radix := Build_radix 10 eq_refl.
Notation b10 := (bpow radix10).

Lemma fval64_b2 : forall q sh, fval64 q sh = IZR q * b2 sh.
Proof. intros. unfold fval64. rewrite bpow_powerRZ. reflexivity. Qed.
Lemma dec_value_b10 : forall m e, dec_value m e = IZR m * b10 e.
Proof. intros. unfold dec_value. rewrite bpow_powerRZ. reflexivity. Qed.

Lemma dec_value_frac : forall m e, dec_value m e = IZR (dec_num m e) / IZR (dec_den e).
Proof.
  intros m e. rewrite dec_value_b10. unfold dec_num, dec_den. destruct (Z.leb_spec 0 e) as [H|H].
  - rewrite mult_IZR. change (10 ^ e)%Z with (Zpower radix10 e). rewrite IZR_Zpower by lia. field.
  - change (10 ^ (- e))%Z with (Zpower radix10 (- e)). rewrite IZR_Zpower by lia. rewrite bpow_opp. field.
    apply Rgt_not_eq, bpow_gt_0.
Qed.

Lemma sc_value : forall num den sh, (0 < den)%Z ->
  IZR (sc_n num sh) / IZR (sc_d den sh) * b2 sh = IZR num / IZR den.
Proof.
  intros num den sh Hd. unfold sc_n, sc_d.
  assert (E : sh = (Z.max 0 sh + - Z.max 0 (- sh))%Z) by lia.
  set (P := Z.max 0 (- sh)) in *. set (N := Z.max 0 sh) in *.
  rewrite !mult_IZR. change (2 ^ P)%Z with (Zpower radix2 P). change (2 ^ N)%Z with (Zpower radix2 N).
  rewrite !IZR_Zpower by (unfold P, N; lia).
  rewrite E at 1. rewrite bpow_plus, bpow_opp.
  assert (b2 P <> 0) by apply Rgt_not_eq, bpow_gt_0.
  assert (b2 N <> 0) by apply Rgt_not_eq, bpow_gt_0.
  assert (IZR den <> 0) by (apply Rgt_not_eq, IZR_lt; lia).
  field. repeat split; assumption.
Qed.

(* the model's conversion is Flocq's rounding to nearest even in the format with unbounded exponent *)
Lemma dec_round_rne : forall m e, (0 < m)%Z ->
  exists q sh, dec_round m e = Some (q, sh) /\ (-1074 <= sh)%Z /\ range_ok q sh /\
               rne (dec_value m e) = IZR q * b2 sh.
Proof.
  intros m e Hm. destruct (dec_round_spec m e Hm) as (sh & Hs & Q & E).
  pose proof (dec_num_pos m e Hm) as Hn. pose proof (dec_den_pos e) as Hd.
  destruct (sc_pos _ _ sh Hn Hd) as [A B].
  exists (round_at (dec_num m e) (dec_den e) sh), sh.
  split; [exact E|]. split; [exact Hs|]. split; [apply round_at_range; assumption|].
  rewrite dec_value_frac, <- (sc_value _ _ sh Hd). unfold round_at. apply rne_scaled; assumption.
Qed.

(* ================================================================ from Flocq's rounding to the specification *)
Lemma fmt64_generic : forall g, fmt64 g -> generic_format radix2 fexp64 g.
Proof.
  intros g (mg & eg & -> & Hm & He). rewrite fval64_b2. apply generic_format_FLT.
  exact (FLT_spec radix2 (-1074) 53 _ (Float radix2 mg eg) eq_refl Hm He).
Qed.

Lemma generic_fmt64 : forall g, generic_format radix2 fexp64 g -> fmt64 g.
Proof.
  intros g Hg. destruct (FLT_format_generic radix2 (-1074) 53 g Hg) as [f Hf1 Hf2 Hf3].
  exists (Fnum f), (Fexp f). rewrite fval64_b2. repeat split; assumption.
Qed.

Lemma canonical64_fmt : forall q sh, canonical64 q sh -> fmt64 (fval64 q sh).
Proof. intros q sh C. exists q, sh. split; [reflexivity|]. destruct C as [C|C]; lia. Qed.

Lemma canonical64_flocq : forall q sh, canonical64 q sh -> q <> 0%Z -> canonical radix2 fexp64 (Float radix2 q sh).
Proof.
  intros q sh C Hq. unfold canonical, F2R. cbn [Fnum Fexp]. symmetry.
  apply cexp_scaled.
  - apply IZR_lt. destruct C as [C|C]; lia.
  - destruct C as [C|C]; lia.
  - rewrite Zfloor_IZR. destruct C as [C|C]; [left | right]; lia.
Qed.

Lemma rne_is_nearest_even : forall x q sh, canonical64 q sh -> fval64 q sh = rne x -> is_nearest_even x q sh.
Proof.
  intros x q sh C E. destruct (round_NE_pt radix2 fexp64 x) as [[HF HN] HE]. rewrite <- E in HF, HN, HE.
  split; [exact C|]. split.
  - intros g Hg. apply HN. apply fmt64_generic; exact Hg.
  - intros g Hg Hne Hd. destruct (Z.even q) eqn:Ev; [reflexivity|]. exfalso.
    assert (Hq : q <> 0%Z) by (intros ->; discriminate Ev).
    destruct HE as [(f & Hf1 & Hf2 & Hf3)|HU].
    + assert (Ef : Float radix2 q sh = f).
      { apply (canonical_unique radix2 fexp64); [apply canonical64_flocq; assumption | exact Hf2|].
        rewrite <- Hf1, fval64_b2. reflexivity. }
      subst f. cbn [Fnum] in Hf3. congruence.
    + apply Hne. apply HU. split; [apply fmt64_generic; exact Hg|].
      intros g' Hg'. rewrite Hd. apply HN; exact Hg'.
Qed.

Lemma nearest_even_rne : forall x q sh, is_nearest_even x q sh -> fval64 q sh = rne x.
Proof.
  intros x q sh (C & HN & HT).
  assert (Hfmt : generic_format radix2 fexp64 (fval64 q sh)) by (apply fmt64_generic, canonical64_fmt; exact C).
  assert (P : Rnd_NE_pt radix2 fexp64 x (fval64 q sh)).
  { split.
    - split; [exact Hfmt|]. intros g Hg. apply HN. apply generic_fmt64; exact Hg.
    - destruct (Z.even q) eqn:Ev.
      + left. destruct (Z.eq_dec q 0) as [Hq|Hq].
        * exists (Float radix2 0 (fexp64 (mag radix2 0))). split.
          -- subst q. rewrite fval64_b2, F2R_0. ring.
          -- split; [apply canonical_0 | reflexivity].
        * exists (Float radix2 q sh). split; [rewrite fval64_b2; reflexivity|].
          split; [apply canonical64_flocq; assumption | exact Ev].
      + right. intros f2 [F2 N2]. destruct (Req_dec f2 (fval64 q sh)) as [Heq|Hne]; [exact Heq|]. exfalso.
        assert (Et : false = true).
        { apply (HT f2); [apply generic_fmt64; exact F2 | exact Hne|].
          apply Rle_antisym; [apply N2; exact Hfmt | apply HN; apply generic_fmt64; exact F2]. }
        discriminate Et. }
  pose proof (round_NE_pt radix2 fexp64 x) as P'.
  apply Rle_antisym.
  - apply (Rnd_NE_pt_monotone radix2 fexp64 x x _ _ P P'). lra.
  - apply (Rnd_NE_pt_monotone radix2 fexp64 x x _ _ P' P). lra.
Qed.

Lemma canonical64_inj : forall q1 s1 q2 s2, canonical64 q1 s1 -> canonical64 q2 s2 ->
  fval64 q1 s1 = fval64 q2 s2 -> q1 = q2 /\ s1 = s2.
Proof.
  intros q1 s1 q2 s2 C1 C2 E. rewrite !fval64_b2 in E.
  assert (Z0 : forall q s q' s', IZR q * b2 s = IZR q' * b2 s' -> q = 0%Z -> q' = 0%Z).
  { intros q s q' s' H ->. rewrite Rmult_0_l in H. symmetry in H.
    apply Rmult_integral in H as [H|H]; [apply eq_IZR; exact H|].
    pose proof (bpow_gt_0 radix2 s'). lra. }
  destruct (Z.eq_dec q1 0) as [H1|H1].
  - pose proof (Z0 _ _ _ _ E H1) as H2. subst q1 q2.
    destruct C1 as [C1|C1], C2 as [C2|C2]; lia.
  - assert (H2 : q2 <> 0%Z) by (intros H2; apply H1; exact (Z0 _ _ _ _ (eq_sym E) H2)).
    assert (Ef : Float radix2 q1 s1 = Float radix2 q2 s2).
    { apply (canonical_unique radix2 fexp64); [apply canonical64_flocq; assumption | apply canonical64_flocq; assumption|].
      exact E. }
    injection Ef as -> ->. split; reflexivity.
Qed.

(* ==================================================================================================== *)
Open Scope R_scope.


(* ================================================================ the overflow threshold *)
Lemma b2_pos_IZR : forall k, (0 <= k)%Z -> b2 k = IZR (2 ^ k).
Proof. intros k Hk. change (2 ^ k)%Z with (Zpower radix2 k). rewrite IZR_Zpower by exact Hk. reflexivity. Qed.

Lemma zeq_IZR : forall a b, (a =? b)%Z = true -> IZR a = IZR b.
Proof. intros a b H. apply Z.eqb_eq in H. rewrite H. reflexivity. Qed.

Lemma threshold_scaled : overflow_threshold = IZR (2 ^ 54 - 1) / IZR 2 * b2 971.
Proof.
  unfold overflow_threshold. rewrite b2_pos_IZR by lia. unfold Rdiv. 
  apply Rmult_eq_reg_r with (IZR 2); [|apply Rgt_not_eq, IZR_lt; lia].
  replace (IZR (2 ^ 54 - 1) * / IZR 2 * IZR (2 ^ 971) * IZR 2) with (IZR (2 ^ 54 - 1) * IZR (2 ^ 971))
    by (field; apply Rgt_not_eq, IZR_lt; lia).
  rewrite <- !mult_IZR. apply zeq_IZR. vm_compute. reflexivity.
Qed.

Lemma rne_threshold : rne overflow_threshold = b2 1024.
Proof.
  rewrite threshold_scaled. rewrite rne_scaled.
  - replace (round_qr ((2 ^ 54 - 1) / 2) ((2 ^ 54 - 1) mod 2) 2) with (2 ^ 53)%Z by (vm_compute; reflexivity).
    rewrite <- b2_53, <- bpow_plus. reflexivity.
  - reflexivity.
  - reflexivity.
  - lia.
  - left. split; [apply Z.leb_le | apply Z.ltb_lt]; vm_compute; reflexivity.
Qed.

Lemma rne_overflows : forall x, overflow_threshold <= x -> b2 1024 <= rne x.
Proof.
  intros x H. rewrite <- rne_threshold. apply round_le; [apply FLT_exp_valid; exact prec53 | apply valid_rnd_N | exact H].
Qed.

Lemma rne_finite : forall x, x < overflow_threshold -> rne x < b2 1024.
Proof.
  intros x Hx.
  set (M := IZR (2 ^ 53 - 1) * b2 971).
  set (u := IZR (2 ^ 970)).
  assert (Hu : 0 < u) by (apply IZR_lt; apply Z.ltb_lt; vm_compute; reflexivity).
  assert (EB : b2 1024 - overflow_threshold = u).
  { rewrite b2_pos_IZR by lia. unfold overflow_threshold, u. rewrite <- minus_IZR. apply zeq_IZR. vm_compute. reflexivity. }
  assert (EM : overflow_threshold - M = u).
  { unfold M. rewrite b2_pos_IZR by lia. unfold overflow_threshold, u. rewrite <- mult_IZR, <- minus_IZR.
    apply zeq_IZR. vm_compute. reflexivity. }
  assert (GM : generic_format radix2 fexp64 M).
  { apply generic_format_FLT. apply (FLT_spec radix2 (-1074) 53 _ (Float radix2 (2 ^ 53 - 1) 971)); [reflexivity | | ].
    - cbn [Fnum]. apply Z.ltb_lt. vm_compute. reflexivity.
    - cbn [Fexp]. lia. }
  destruct (Rle_or_lt x M) as [L|L].
  - apply Rle_lt_trans with M; [|lra].
    rewrite <- (round_generic radix2 fexp64 ZnearestE M GM).
    apply round_le; [apply FLT_exp_valid; exact prec53 | apply valid_rnd_N | exact L].
  - destruct (Rlt_or_le (rne x) (b2 1024)) as [G|G]; [exact G|]. exfalso.
    destruct (round_N_pt radix2 fexp64 (fun z => negb (Z.even z)) x) as [_ HN].
    specialize (HN M GM).
    rewrite (Rabs_pos_eq (rne x - x)) in HN by lra.
    rewrite (Rabs_left1 (M - x)) in HN by lra. lra.
Qed.

(* ================================================================ underflow to zero *)
Lemma rne_tiny : forall x, 0 < x < b2 (-1075) -> rne x = 0.
Proof.
  intros x [H0 H1]. destruct (mag radix2 x) as [ex Hex]. specialize (Hex ltac:(lra)).
  rewrite Rabs_pos_eq in Hex by lra.
  apply (round_N_small_pos radix2 fexp64 (fun z => negb (Z.even z)) x ex Hex).
  assert (L : (ex - 1 < -1075)%Z) by (apply (lt_bpow radix2); lra).
  unfold FLT_exp. lia.
Qed.

Lemma tiny_decimal : b10 (-331) < b2 (-1075).
Proof.
  change (-331)%Z with (- (331))%Z. change (-1075)%Z with (- (1075))%Z. rewrite !bpow_opp.
  rewrite <- !IZR_Zpower by lia.
  apply Rinv_lt_contravar.
  - apply Rmult_lt_0_compat; apply IZR_lt; apply Z.ltb_lt; vm_compute; reflexivity.
  - apply IZR_lt. apply Z.ltb_lt. vm_compute. reflexivity.
Qed.

Lemma huge_decimal : overflow_threshold <= b10 311.
Proof.
  rewrite <- IZR_Zpower by lia. unfold overflow_threshold. apply IZR_le. apply Z.leb_le. vm_compute. reflexivity.
Qed.

Lemma in_range_nd : forall m nd, (0 < m)%Z -> in_range m nd -> (0 <= nd)%Z.
Proof.
  intros m nd Hm [_ H]. destruct (Z_lt_le_dec nd 0) as [N|N]; [|exact N].
  rewrite Z.pow_neg_r in H by exact N. lia.
Qed.

Lemma dec_value_lt : forall m e nd, (0 < m)%Z -> in_range m nd -> dec_value m e < b10 (nd + e).
Proof.
  intros m e nd Hm H. pose proof (in_range_nd m nd Hm H) as Hn. destruct H as [_ H].
  rewrite dec_value_b10, bpow_plus. apply Rmult_lt_compat_r; [apply bpow_gt_0|].
  rewrite <- IZR_Zpower by exact Hn. apply IZR_lt. exact H.
Qed.

Lemma dec_value_pos : forall m e, (0 < m)%Z -> 0 < dec_value m e.
Proof. intros m e Hm. rewrite dec_value_b10. apply Rmult_lt_0_compat; [apply IZR_lt; exact Hm | apply bpow_gt_0]. Qed.

Lemma dec_value_ge : forall m e e0, (0 < m)%Z -> (e0 <= e)%Z -> b10 e0 <= dec_value m e.
Proof.
  intros m e e0 Hm He. rewrite dec_value_b10. rewrite <- (Rmult_1_l (b10 e0)).
  apply Rmult_le_compat; [lra | apply Rlt_le, bpow_gt_0 | apply (IZR_le 1); lia | apply bpow_le; exact He].
Qed.

(* ================================================================ the carry *)
Lemma norm_value : forall q sh, IZR (fst (norm q sh)) * b2 (snd (norm q sh)) = IZR q * b2 sh.
Proof.
  intros q sh. unfold norm. destruct (Z.eqb_spec q (2 ^ 53)) as [E|E]; cbn [fst snd]; [|reflexivity].
  subst q. rewrite bpow_plus. change (b2 1) with 2. change (2 ^ 53)%Z with (2 * 2 ^ 52)%Z. rewrite mult_IZR. ring.
Qed.

Lemma ucanon_bounds : forall q sh, ucanon q sh ->
  ((sh <= 971)%Z -> IZR q * b2 sh < b2 1024) /\ ((972 <= sh)%Z -> b2 1024 <= IZR q * b2 sh).
Proof.
  intros q sh U. pose proof (bpow_gt_0 radix2 sh) as Bp. split; intros H.
  - apply Rlt_le_trans with (b2 53 * b2 sh).
    + apply Rmult_lt_compat_r; [exact Bp|]. rewrite b2_53. apply IZR_lt. destruct U as [U|U]; lia.
    + rewrite <- bpow_plus. apply bpow_le. lia.
  - apply Rle_trans with (b2 52 * b2 sh).
    + rewrite <- bpow_plus. apply bpow_le. lia.
    + apply Rmult_le_compat_r; [lra|]. rewrite b2_52. apply IZR_le. destruct U as [U|U]; lia.
Qed.

(* ================================================================ dec_to_float against Flocq's rounding *)
Lemma decode_0 : decode 0 = (0%Z, (-1074)%Z).
Proof. reflexivity. Qed.

Lemma dec_to_float_rne : forall m e nd, in_range m nd ->
  (rne (dec_value m e) < b2 1024 ->
     exists b, dec_to_float m e nd = FBits b /\ finite_bits b /\
               fval64 (fst (decode b)) (snd (decode b)) = rne (dec_value m e)) /\
  (b2 1024 <= rne (dec_value m e) -> dec_to_float m e nd = FInf).
Proof.
  intros m e nd Hr.
  assert (ZERO : rne (dec_value m e) = 0 ->
    (rne (dec_value m e) < b2 1024 ->
       exists b, FBits 0 = FBits b /\ finite_bits b /\ fval64 (fst (decode b)) (snd (decode b)) = rne (dec_value m e)) /\
    (b2 1024 <= rne (dec_value m e) -> FBits 0 = FInf)).
  { intros Z. rewrite Z. split.
    - intros _. exists 0%Z. split; [reflexivity|]. split; [unfold finite_bits; lia|].
      rewrite decode_0. cbn [fst snd]. rewrite fval64_b2. ring.
    - intros H. pose proof (bpow_gt_0 radix2 1024). lra. }
  unfold dec_to_float. destruct (Z.eqb_spec m 0) as [M0|M0].
  { apply ZERO. subst m. rewrite dec_value_b10, Rmult_0_l. apply round_0. apply valid_rnd_N. }
  assert (Hm : (0 < m)%Z) by (destruct Hr; lia).
  destruct (Z.ltb_spec 310 e) as [E1|E1].
  { split; [|reflexivity]. intros H. exfalso.
    assert (overflow_threshold <= dec_value m e).
    { apply Rle_trans with (1 := huge_decimal). apply dec_value_ge; [exact Hm | lia]. }
    pose proof (rne_overflows _ H0). lra. }
  destruct (Z.ltb_spec (e + nd) (-330)) as [E2|E2].
  { apply ZERO. apply rne_tiny. split; [apply dec_value_pos; exact Hm|].
    apply Rlt_trans with (2 := tiny_decimal). apply Rlt_le_trans with (1 := dec_value_lt m e nd Hm Hr).
    apply bpow_le. lia. }
  destruct (dec_round_rne m e Hm) as (q & sh & ER & Hs & RO & EV).
  rewrite ER. rewrite EV. rewrite <- (norm_value q sh).
  pose proof (norm_ucanon q sh RO Hs) as U.
  destruct (bits_of_norm q sh RO Hs) as [BF BI].
  destruct (ucanon_bounds _ _ U) as [UB1 UB2].
  split; intros H.
  - destruct (Z_le_gt_dec (snd (norm q sh)) 971) as [L|L].
    + destruct (BF L) as (b & Eb & Fb & Db). exists b. split; [exact Eb|]. split; [exact Fb|].
      rewrite Db, fval64_b2. reflexivity.
    + exfalso. pose proof (UB2 ltac:(lia)). lra.
  - destruct (Z_le_gt_dec (snd (norm q sh)) 971) as [L|L].
    + exfalso. pose proof (UB1 L). lra.
    + apply BI. lia.
Qed.

(* ==================================================================================================== *)
Open Scope R_scope.

(* ================================================================ totality (no real numbers involved) *)
Lemma dec_round_total_lemma : forall m e, (0 < m)%Z -> exists q sh, dec_round m e = Some (q, sh).
Proof. intros m e Hm. destruct (dec_round_spec m e Hm) as (sh & _ & _ & E). eexists; eexists; exact E. Qed.

Lemma dec_to_float_total_lemma : forall m e nd, (0 <= m)%Z -> dec_to_float m e nd <> FNone.
Proof.
  intros m e nd Hm. unfold dec_to_float.
  destruct (Z.eqb_spec m 0) as [M0|M0]; [discriminate|].
  destruct (310 <? e)%Z; [discriminate|]. destruct (e + nd <? -330)%Z; [discriminate|].
  destruct (dec_round_total_lemma m e ltac:(lia)) as (q & sh & E). rewrite E.
  unfold bits_of. destruct (inf_bits <=? (sh + 1074) * 2 ^ 52 + q)%Z; discriminate.
Qed.

(* ================================================================ the main theorem *)
Lemma dec_to_float_correct_lemma : forall m e nd, in_range m nd ->
  (dec_value m e < overflow_threshold ->
     exists b, dec_to_float m e nd = FBits b /\ finite_bits b /\
               is_nearest_even (dec_value m e) (fst (decode b)) (snd (decode b))) /\
  (overflow_threshold <= dec_value m e -> dec_to_float m e nd = FInf).
Proof.
  intros m e nd Hr. destruct (dec_to_float_rne m e nd Hr) as [A B]. split; intros H.
  - destruct (A (rne_finite _ H)) as (b & Eb & Fb & Vb). exists b. split; [exact Eb|]. split; [exact Fb|].
    apply rne_is_nearest_even; [apply decode_canonical; exact Fb | exact Vb].
  - apply B. apply rne_overflows. exact H.
Qed.

Lemma dec_to_float_flocq_lemma : forall m e nd b, in_range m nd -> dec_to_float m e nd = FBits b ->
  finite_bits b /\
  fval64 (fst (decode b)) (snd (decode b)) = round radix2 (FLT_exp (-1074) 53) ZnearestE (dec_value m e).
Proof.
  intros m e nd b Hr E. destruct (dec_to_float_rne m e nd Hr) as [A B].
  destruct (Rlt_or_le (rne (dec_value m e)) (b2 1024)) as [L|L].
  - destruct (A L) as (b' & Eb & Fb & Vb). rewrite E in Eb. injection Eb as ->. split; assumption.
  - rewrite (B L) in E. discriminate E.
Qed.

Lemma nearest_even_finite : forall x q sh, is_nearest_even x q sh -> is_nearest_even_finite x q sh.
Proof.
  intros x q sh (C & N & T).
  assert (F : forall g, finite64 g -> fmt64 g).
  { intros g (mg & eg & E & Hm & He). exists mg, eg. repeat split; try assumption; lia. }
  split; [exact C|]. split.
  - intros g Hg. apply N, F, Hg.
  - intros g Hg. apply T, F, Hg.
Qed.

Lemma nearest_even_unique : forall x q1 s1 q2 s2, is_nearest_even x q1 s1 -> is_nearest_even x q2 s2 ->
  q1 = q2 /\ s1 = s2.
Proof.
  intros x q1 s1 q2 s2 H1 H2. apply canonical64_inj; [apply H1 | apply H2|].
  rewrite (nearest_even_rne _ _ _ H1), (nearest_even_rne _ _ _ H2). reflexivity.
Qed.

(* ================================================================ text -> float round trip *)
Lemma float_text_roundtrip_lemma : forall b m e nd, finite_bits b -> in_range m nd ->
  is_nearest_even (dec_value m e) (fst (decode b)) (snd (decode b)) ->
  dec_to_float m e nd = FBits b.
Proof.
  intros b m e nd Fb Hr Hn.
  pose proof (nearest_even_rne _ _ _ Hn) as V.
  pose proof (decode_canonical b Fb) as C.
  assert (L : rne (dec_value m e) < b2 1024).
  { rewrite <- V, fval64_b2.
    assert (U : ucanon (fst (decode b)) (snd (decode b))) by (destruct C as [C|C]; [left | right]; lia).
    apply (proj1 (ucanon_bounds _ _ U)). destruct C as [C|C]; lia. }
  destruct (dec_to_float_rne m e nd Hr) as [A _].
  destruct (A L) as (b0 & E0 & F0 & V0). rewrite E0. f_equal.
  apply decode_inj; [exact F0 | exact Fb|].
  destruct (canonical64_inj _ _ _ _ (decode_canonical b0 F0) C) as [Q S]; [rewrite V0, V; reflexivity|].
  destruct (decode b0), (decode b). cbn [fst snd] in Q, S. subst. reflexivity.
Qed.

(* ================================================================ the call sites satisfy in_range *)
Lemma span_all : forall p s, Forall (fun c => p c = true) (fst (span p s)).
Proof.
  intros p s; induction s as [|c r IH]; cbn [span fst]; [constructor|].
  destruct (p c) eqn:E; [|constructor]. destruct (span p r) as [a b]. cbn [fst] in *. constructor; assumption.
Qed.

Lemma pos_value_bound : forall ds, all_digits ds -> (pos_value 10 ds < 10 ^ N.of_nat (length ds))%N.
Proof.
  intros ds H; induction H as [|d t Hd Ht IH].
  - cbn. lia.
  - cbn [pos_value length]. rewrite Nat2N.inj_succ, N.pow_succ_r by lia.
    assert (dv d <= 9)%N.
    { rewrite (digit_dv d Hd). unfold is_digit in Hd. apply andb_true_iff in Hd as [_ H2]. apply N.leb_le in H2. lia. }
    nia.
Qed.

Lemma digits_in_range : forall ds, all_digits ds -> in_range (Z.of_N (dec ds)) (Z.of_nat (length ds)).
Proof.
  intros ds H. unfold in_range, dec. rewrite digits_val_pos_value. pose proof (pos_value_bound ds H) as B.
  split; [lia|]. rewrite <- nat_N_Z. change 10%Z with (Z.of_N 10). rewrite <- N2Z.inj_pow. lia.
Qed.

(* parse_float hands dec_to_float the digits ip ++ fp with their count *)
Lemma parse_float_in_range : forall tok,
  let ip := fst (span is_digit tok) in
  let fp := fst (span is_digit (tl (snd (span is_digit tok)))) in
  in_range (Z.of_N (dec (ip ++ fp))) (Z.of_nat (length (ip ++ fp))).
Proof.
  intros tok ip fp. apply digits_in_range. apply Forall_app. split; apply span_all.
Qed.

(* ==================================================================================================== *)
Open Scope R_scope.

Lemma dec_to_float_rounds : forall m e nd, in_range m nd -> rounds_to (dec_value m e) (dec_to_float m e nd).
Proof. exact dec_to_float_correct_lemma. Qed.

Lemma parse_float_shape : forall ip fp suf, all_digits ip -> all_digits fp ->
  match suf with [] => True | c :: _ => is_digit c = false end ->
  parse_float (ip ++ 46%N :: fp ++ suf) =
    let m := Z.of_N (dec (ip ++ fp)) in
    let nd := Z.of_nat (length (ip ++ fp)) in
    let fl := Z.of_nat (length fp) in
    match suf with
    | [] => dec_to_float m (- fl) nd
    | _ :: r4 =>
      match r4 with
      | [] => FNone
      | c :: r5 =>
        if N.eqb c 45 then dec_to_float m (- Z.of_N (dec r5) - fl) nd
        else if N.eqb c 43 then dec_to_float m (Z.of_N (dec r5) - fl) nd
        else dec_to_float m (Z.of_N (dec r4) - fl) nd
      end
    end.
Proof.
  intros ip fp suf Hi Hf Hs. unfold parse_float.
  rewrite (span_app is_digit ip (46%N :: fp ++ suf) Hi eq_refl).
  rewrite (span_app is_digit fp suf Hf Hs). reflexivity.
Qed.

Lemma parse_float_correct_lemma : forall ip fp, all_digits ip -> all_digits fp ->
  let m := Z.of_N (dec (ip ++ fp)) in
  let fl := Z.of_nat (length fp) in
  rounds_to (dec_value m (- fl)) (parse_float (ip ++ 46%N :: fp)) /\
  (forall E d xs, is_digit E = false -> is_digit d = true ->
     rounds_to (dec_value m (Z.of_N (dec (d :: xs)) - fl)) (parse_float (ip ++ 46%N :: fp ++ E :: d :: xs))) /\
  (forall E xs, is_digit E = false ->
     rounds_to (dec_value m (Z.of_N (dec xs) - fl)) (parse_float (ip ++ 46%N :: fp ++ E :: 43%N :: xs))) /\
  (forall E xs, is_digit E = false ->
     rounds_to (dec_value m (- Z.of_N (dec xs) - fl)) (parse_float (ip ++ 46%N :: fp ++ E :: 45%N :: xs))).
Proof.
  intros ip fp Hi Hf m fl.
  assert (Hr : in_range m (Z.of_nat (length (ip ++ fp)))).
  { apply digits_in_range. apply Forall_app. split; assumption. }
  split; [|split; [|split]].
  - replace (ip ++ 46%N :: fp) with (ip ++ 46%N :: fp ++ []) by (rewrite app_nil_r; reflexivity). rewrite (parse_float_shape ip fp [] Hi Hf I). cbv zeta.
    apply dec_to_float_rounds. exact Hr.
  - intros E d xs HE Hd. rewrite (parse_float_shape ip fp (E :: d :: xs) Hi Hf HE). cbv zeta.
    rewrite (digit_not_minus d Hd).
    assert (Hp : (d =? 43)%N = false) by (destruct (digit_cases d Hd) as [->|[->|[->|[->|[->|[->|[->|[->|[->| ->]]]]]]]]]; reflexivity).
    rewrite Hp. apply dec_to_float_rounds. exact Hr.
  - intros E xs HE. rewrite (parse_float_shape ip fp (E :: 43%N :: xs) Hi Hf HE). cbv zeta.
    change (43 =? 45)%N with false. change (43 =? 43)%N with true. cbv iota.
    apply dec_to_float_rounds. exact Hr.
  - intros E xs HE. rewrite (parse_float_shape ip fp (E :: 45%N :: xs) Hi Hf HE). cbv zeta.
    change (45 =? 45)%N with true. cbv iota.
    apply dec_to_float_rounds. exact Hr.
Qed.

