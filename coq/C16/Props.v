(* C16 -- pinned property theorems (nothing else lives here).
   number_token / number_chars_model / read_model are the impl-mirror of src/parser/lexer.rs and
   parse_number_from_string (coq/C16/Model.v); pos_value r ds = sum of d_i * r^i (most significant digit first). *)
From Coq Require Import List NArith ZArith Bool String Reals Lia Lra.
From Flocq Require Import Core.
Import ListNotations.
From V Require Import C16.Model C16.Proofs C16.Cases C16.Round C16.RoundProofs.
Open Scope N_scope.

(* the Horner evaluation standing for i64::from_str_radix / Integer::from_str_radix is the positional sum *)
Theorem digits_val_is_positional_sum : forall r ds, digits_val r ds = pos_value r ds.
Proof. exact digits_val_pos_value. Qed.
Print Assumptions digits_val_is_positional_sum.

(* 0x/0o/0b literals (every digit string), decimal literals followed by any character that cannot continue the
   token, decimal literals at the end of a number_chars text: the value is exactly sum d_i * r^i; a radix prefix
   without a digit is the literal 0 followed by the letter *)
Theorem radix_literal_exact :
  (forall r d ds rest, radix_ok r -> rdigits r (d :: ds) -> rstop r rest ->
     number_token (48 :: radix_char r :: (d :: ds) ++ rest) = TInt (pos_value r (d :: ds)) rest) /\
  (forall c ds rest, is_digit c = true -> all_digits ds -> dec_stop (c :: ds) rest ->
     number_token (c :: ds ++ rest) = TInt (pos_value 10 (c :: ds)) rest) /\
  (forall c ds, is_digit c = true -> all_digits ds ->
     number_chars_model (c :: ds) = MNum (NInt (Z.of_N (pos_value 10 (c :: ds))))) /\
  (forall r c rest, radix_ok r -> is_rdigit r c = false ->
     number_token (48 :: radix_char r :: c :: rest) = TInt 0 (radix_char r :: c :: rest)).
Proof. exact radix_literal_exact_all. Qed.
Print Assumptions radix_literal_exact.

(* t is the text after the leading digit c: digits and separators "_" + layout characters, each separator followed by
   a digit; d is t without the separators: the token read is the same, whatever follows (any integer, float, ... form) *)
Theorem digit_groups_ignored : forall c t d rest, is_digit c = true -> gtail t d -> stop_ok rest ->
  number_token (c :: t ++ rest) = number_token (c :: d ++ rest).
Proof. exact number_token_gtail. Qed.
Print Assumptions digit_groups_ignored.

(* every integer, written in decimal (with a leading - when negative), is read back by number_chars/number_codes *)
Theorem int_text_roundtrip : forall z, number_chars_model (write_int z) = MNum (NInt z).
Proof. exact int_roundtrip. Qed.
Print Assumptions int_text_roundtrip.

(* 0'c for every character the lexer accepts unescaped, the quote forms, \-meta, control escapes, \xH..H\ and \O..O\ *)
Theorem char_code_literal_exact :
  (forall c rest, is_plain c = true -> number_token (48 :: 39 :: c :: rest) = TInt c rest) /\
  (forall rest, number_token (48 :: 39 :: 39 :: 39 :: rest) = TInt 39 rest) /\
  (forall rest, number_token (48 :: 39 :: 34 :: rest) = TInt 34 rest) /\
  (forall rest, number_token (48 :: 39 :: 96 :: rest) = TInt 96 rest) /\
  (forall c rest, is_meta c = true -> number_token (48 :: 39 :: 92 :: c :: rest) = TInt c rest) /\
  (forall c v rest, control_escape c = Some v -> number_token (48 :: 39 :: 92 :: c :: rest) = TInt v rest) /\
  (forall d ds rest, rdigits 16 (d :: ds) -> valid_scalar (pos_value 16 (d :: ds)) = true ->
     number_token (48 :: 39 :: 92 :: 120 :: (d :: ds) ++ 92 :: rest) = TInt (pos_value 16 (d :: ds)) rest) /\
  (forall d ds rest, rdigits 8 (d :: ds) -> valid_scalar (pos_value 8 (d :: ds)) = true ->
     number_token (48 :: 39 :: 92 :: (d :: ds) ++ 92 :: rest) = TInt (pos_value 8 (d :: ds)) rest).
Proof. exact char_code_literal_exact_all. Qed.
Print Assumptions char_code_literal_exact.

(* dec_num m e / dec_den e is m * 10^e *)
Theorem dec_fraction_exact : forall m e,
  ((0 <= e -> dec_num m e = m * 10 ^ e /\ dec_den e = 1) /\
   (e < 0 -> dec_num m e = m /\ dec_den e = 10 ^ (- e)))%Z.
Proof. exact dec_fraction. Qed.
Print Assumptions dec_fraction_exact.

(* whenever the decimal -> binary64 conversion of the model returns q * 2^sh, that is the correctly rounded value of
   m * 10^e: |m*10^e - q*2^sh| <= 2^sh / 2, a tie only with q even, q of exactly 53 bits (or 2^53 after a carry) unless
   sh is the smallest exponent.  (Integer-arithmetic form, kept; superseded by dec_round_total, dec_to_float_correct and
   dec_to_float_is_flocq_round below, which prove totality and the link to an independent definition of rounding.) *)
Theorem dec_to_float_correct_partial : forall m e q sh, dec_round m e = Some (q, sh) ->
  correctly_rounded (dec_num m e) (dec_den e) q sh.
Proof. exact dec_round_explicit. Qed.
Print Assumptions dec_to_float_correct_partial.

(* the bit pattern produced from (q, sh) is the IEEE-754 binary64 layout *)
Theorem float_bits_are_ieee_layout :
  (forall q sh, (2 ^ 52 <= q < 2 ^ 53 -> -1074 <= sh -> sh + 1075 < 2047 ->
     bits_of q sh = FBits ((sh + 1075) * 2 ^ 52 + (q - 2 ^ 52)))%Z) /\
  (forall q, (0 <= q < 2 ^ 52)%Z -> bits_of q (-1074) = FBits q).
Proof. exact float_bits_layout. Qed.
Print Assumptions float_bits_are_ieee_layout.

(* forty malformed spellings: a syntax error for number_chars/number_codes, and not a number for the reader *)
Theorem syntax_error_cases : Forall rejected rejected_spellings.
Proof. exact rejected_all. Qed.
Print Assumptions syntax_error_cases.

(* ---- non-vacuity and landmarks *)
Example ex_groups : gtail (cs "_000_ 000") (cs "000000") /\ number_chars_model (cs "1_000_ 000") = MNum (NInt 1000000).
Proof.
  split; [|vm_compute; reflexivity].
  apply (gt_sep [] 48); [constructor | reflexivity |].
  apply gt_dig; [reflexivity|]. apply gt_dig; [reflexivity|].
  apply (gt_sep [32] 48); [repeat constructor | reflexivity |].
  repeat (apply gt_dig; [reflexivity|]). apply gt_nil.
Qed.
Example ex_hex : number_token (cs "0xfF.") = TInt 255 (cs ".").
Proof. vm_compute. reflexivity. Qed.
Example ex_hex_escape : number_token (cs "0'\x41\ ") = TInt 65 (cs " ").
Proof. vm_compute. reflexivity. Qed.
Example ex_radix_hyp : radix_ok 16 /\ rdigits 16 (cs "fF") /\ rstop 16 (cs ".") /\ dec_stop (cs "0") (cs " ") /\ stop_ok (cs ".5").
Proof. repeat split; try (left; reflexivity); try (repeat constructor); try discriminate. Qed.
Example ex_tenth : dec_round 1 (-1) = Some (7205759403792794, -56)%Z /\ parse_float (cs "0.1") = FBits 4591870180066957722.
Proof. split; vm_compute; reflexivity. Qed.
(* a tie (2^53 + 1) goes to the even neighbour; one digit more decides upwards *)
Example ex_tie : parse_float (cs "9007199254740993.0") = FBits 4845873199050653696 /\
                 parse_float (cs "9007199254740993.0000000001") = FBits 4845873199050653697.
Proof. split; vm_compute; reflexivity. Qed.
Example ex_extremes : parse_float (cs "5.0e-324") = FBits 1 /\ parse_float (cs "2.4703282292062327e-324") = FBits 0 /\
                      parse_float (cs "1.7976931348623157e308") = FBits 9218868437227405311 /\
                      parse_float (cs "1.7976931348623159e308") = FInf.
Proof. repeat split; vm_compute; reflexivity. Qed.
(* the disagreement of the entry points on a digit-group separator at the end of the text, reproduced by the mirror *)
Example ex_partial_disagreement :
  number_chars_model (cs "1_") = MNum (NInt 1) /\ read_model (cs "1_ .") = MNotNum /\ agree (cs "1_") = false /\
  number_chars_model (cs "1_/") = MNum (NInt 1) /\ agree (cs "1_/") = false.
Proof. exact partial_disagreement. Qed.

(* ================================================================ the conversion against an independent specification
   (coq/C16/Round.v: dec_value m e = m * 10^e as a real number; is_nearest_even x q sh = (q, sh) is a canonical finite
   binary64, no number m' * 2^e' with |m'| < 2^53 and e' >= -1074 is nearer to x, and q is even if another one is equally near;
   rounds_to x f = below the overflow threshold 2^1024 - 2^970 the result is FBits b with is_nearest_even x (decode b), from the
   threshold on it is FInf (which number_chars/read turn into a syntax error)) *)

(* no fuel exhaustion: the exponent estimate of dec_round is never off by more than what the attempts cover, for every
   positive m and every e; dec_to_float never gives up *)
Theorem dec_round_total : forall m e, (0 < m)%Z -> exists q sh, dec_round m e = Some (q, sh).
Proof. exact dec_round_total_lemma. Qed.
Print Assumptions dec_round_total.

Theorem dec_to_float_total : forall m e nd, (0 <= m)%Z -> dec_to_float m e nd <> FNone.
Proof. exact dec_to_float_total_lemma. Qed.
Print Assumptions dec_to_float_total.

(* every decimal m * 10^e with 0 <= m < 10^nd (any number of digits, any exponent): normal and subnormal results, underflow
   to zero (including the shortcut e + nd < -330), overflow (including the shortcut e > 310) *)
Theorem dec_to_float_correct : forall m e nd, in_range m nd -> rounds_to (dec_value m e) (dec_to_float m e nd).
Proof. exact dec_to_float_rounds. Qed.
Print Assumptions dec_to_float_correct.

(* the same against Flocq's rounding operator *)
Theorem dec_to_float_is_flocq_round : forall m e nd b, in_range m nd -> dec_to_float m e nd = FBits b ->
  finite_bits b /\
  fval64 (fst (decode b)) (snd (decode b)) = round radix2 (FLT_exp (-1074) 53) ZnearestE (dec_value m e).
Proof. exact dec_to_float_flocq_lemma. Qed.
Print Assumptions dec_to_float_is_flocq_round.

(* the token texts handed to parse_float: I.F, I.FeX, I.Fe+X, I.Fe-X (I, F digit strings; e any non-digit) denote
   dec(IF) * 10^(+-dec(X) - |F|) and are correctly rounded *)
Theorem parse_float_correct : forall ip fp, all_digits ip -> all_digits fp ->
  let m := Z.of_N (dec (ip ++ fp)) in
  let fl := Z.of_nat (List.length fp) in
  rounds_to (dec_value m (- fl)) (parse_float (ip ++ 46%N :: fp)) /\
  (forall E d xs, is_digit E = false -> is_digit d = true ->
     rounds_to (dec_value m (Z.of_N (dec (d :: xs)) - fl)) (parse_float (ip ++ 46%N :: fp ++ E :: d :: xs))) /\
  (forall E xs, is_digit E = false ->
     rounds_to (dec_value m (Z.of_N (dec xs) - fl)) (parse_float (ip ++ 46%N :: fp ++ E :: 43%N :: xs))) /\
  (forall E xs, is_digit E = false ->
     rounds_to (dec_value m (- Z.of_N (dec xs) - fl)) (parse_float (ip ++ 46%N :: fp ++ E :: 45%N :: xs))).
Proof. exact parse_float_correct_lemma. Qed.
Print Assumptions parse_float_correct.

(* the specification determines the result, and implies the statement with only the finite binary64 numbers as competitors *)
Theorem is_nearest_even_determines :
  (forall x q1 s1 q2 s2, is_nearest_even x q1 s1 -> is_nearest_even x q2 s2 -> q1 = q2 /\ s1 = s2) /\
  (forall x q sh, is_nearest_even x q sh -> is_nearest_even_finite x q sh).
Proof. exact (conj nearest_even_unique nearest_even_finite). Qed.
Print Assumptions is_nearest_even_determines.

(* text -> float half of the float round trip: if the decimal m * 10^e printed for the finite double with bits b has that double
   as its nearest-even binary64 (the contract of ryu's shortest round-trip output: HYPOTHESIS, the printer is not modelled), then
   reading it returns exactly b.  PARTIAL: the printer side is assumed, and the sign is handled outside (the lexer reads the
   magnitude). *)
Theorem float_text_roundtrip_partial : forall b m e nd, finite_bits b -> in_range m nd ->
  is_nearest_even (dec_value m e) (fst (decode b)) (snd (decode b)) ->
  dec_to_float m e nd = FBits b.
Proof. exact float_text_roundtrip_lemma. Qed.
Print Assumptions float_text_roundtrip_partial.

(* non-vacuity: 0.1 is in range and below the threshold; its nearest-even binary64 is 7205759403792794 * 2^-56, so the
   hypotheses of dec_to_float_correct and float_text_roundtrip_partial are satisfiable *)
Example ex_nearest_tenth : in_range 1 1 /\ finite_bits 4591870180066957722 /\
  is_nearest_even (dec_value 1 (-1)) (fst (decode 4591870180066957722)) (snd (decode 4591870180066957722)) /\
  decode 4591870180066957722 = (7205759403792794, -56)%Z.
Proof.
  assert (R : in_range 1 1) by (unfold in_range; lia).
  split; [exact R|]. split; [unfold finite_bits; lia|]. split; [|vm_compute; reflexivity].
  destruct (dec_to_float_correct 1 (-1) 1 R) as [A _].
  destruct A as (b & Eb & _ & Hb).
  - apply Rlt_le_trans with 1%R.
    + unfold dec_value, powerRZ. change (Pos.to_nat 1) with 1%nat. rewrite pow_1. lra.
    + apply (IZR_le 1). apply Z.leb_le. vm_compute. reflexivity.
  - vm_compute in Eb. injection Eb as <-. exact Hb.
Qed.
