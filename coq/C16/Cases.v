(* C16 -- concrete spellings evaluated on the model (vm_compute) *)
From Coq Require Import List NArith ZArith Bool String.
Import ListNotations.
From V Require Import C16.Model.
Open Scope N_scope.

(* spellings rejected by number_chars/number_codes and, followed by " .", not read as a number either *)
Definition rejected (s : list N) : Prop :=
  number_chars_model s = MSyn /\ read_model (s ++ [32%N; 46%N]) = MNotNum.

Definition rejected_spellings : list (list N) := map cs
  ["1__0"; "1_a"; "1_."; "0x"; "0xg"; "0o8"; "0b2"; "0B1"; "0XFF"; "00x1"; "0''"; "0'ab"; "0'\e"; "0'\x41"; "0'\xD800\";
   "0'\x110000\"; "1.e5"; "1.0e"; "1.0e+"; "1.0e-"; "1.5_0"; "1.5e1_0"; "1.0Inf"; "1.0e400"; "1.7976931348623159e308"; "1e10";
   "+1"; "--1"; "- - 1"; "-a"; "a"; ""; " "; ".5"; "1 .0"; "1_/* c"; "0'\"; "-"; "0x_1"; "_1"]%string.

Lemma rejected_all : Forall rejected rejected_spellings.
Proof.
  unfold rejected_spellings. cbn [map].
  repeat (apply Forall_cons; [split; vm_compute; reflexivity|]). apply Forall_nil.
Qed.

(* spellings accepted by number_chars only because the input ends inside the token (NumberToken::Partial), although the
   reader rejects them: the mirror reproduces the disagreement of the entry points *)
Lemma partial_disagreement :
  number_chars_model (cs "1_") = MNum (NInt 1) /\ read_model (cs "1_ .") = MNotNum /\ agree (cs "1_") = false /\
  number_chars_model (cs "1_/") = MNum (NInt 1) /\ agree (cs "1_/") = false.
Proof. repeat split; vm_compute; reflexivity. Qed.
