(* C16 -- impl-mirror model of the number path of src/parser/lexer.rs (number_token, skip_underscore_in_number,
   scan_for_layout, hexadecimal/octal/binary_constant, the 0'c forms with get_single_quoted_char /
   get_non_quote_char / escape sequences, vacate_with_float), of next_number_token + parse_number_from_string
   (src/machine/system_calls.rs: number_chars/2, number_codes/2) and of the reader's treatment of a clause
   text that consists of one (possibly negated) numeric literal; an exact decimal -> binary64 conversion
   (round to nearest, ties to even, in Z arithmetic) as the specification of parse_float_lossy; and the decimal
   integer writer.  Characters are code points (N).  No proofs in this file. *)
From Coq Require Import List NArith ZArith Bool String Ascii Uint63.
Import ListNotations.
Open Scope N_scope.

(* ---------------------------------------------------------------- character classes (src/parser/macros.rs) *)
Definition mem (c : N) (l : list N) : bool := existsb (N.eqb c) l.
Definition is_digit (c : N) : bool := (48 <=? c) && (c <=? 57).
Definition is_layout (c : N) : bool := mem c [32; 13; 10; 9; 11; 12].
Definition is_graphic (c : N) : bool := mem c [35; 36; 38; 42; 43; 45; 46; 47; 58; 60; 61; 62; 63; 64; 94; 126].
Definition is_graphic_token (c : N) : bool := is_graphic c || (c =? 92).
Definition is_solo (c : N) : bool := mem c [33; 40; 41; 44; 59; 91; 93; 123; 125; 124; 37].
Definition is_meta (c : N) : bool := mem c [92; 39; 34; 96].
(* char::is_whitespace (White_Space) and char::is_control (Cc); numeric characters are alpha_numeric anyway *)
Definition is_whitespace (c : N) : bool :=
  ((9 <=? c) && (c <=? 13)) || mem c [32; 133; 160; 5760; 8232; 8233; 8239; 8287; 12288] || ((8192 <=? c) && (c <=? 8202)).
Definition is_control (c : N) : bool := (c <? 32) || ((127 <=? c) && (c <=? 159)).
Definition is_alnum (c : N) : bool :=
  is_digit c || (c =? 95) ||
  negb (is_whitespace c || is_control c || is_graphic_token c || is_layout c || is_meta c || is_solo c).
(* get_non_quote_char accepts: graphic | alpha_numeric | solo | space *)
Definition is_plain (c : N) : bool := is_graphic c || is_alnum c || is_solo c || (c =? 32).
Definition valid_scalar (n : N) : bool := (n <? 55296) || ((57344 <=? n) && (n <=? 1114111)).

Definition is_rdigit (radix : N) (c : N) : bool :=
  if radix =? 16 then is_digit c || ((65 <=? c) && (c <=? 70)) || ((97 <=? c) && (c <=? 102))
  else if radix =? 8 then (48 <=? c) && (c <=? 55)
  else if radix =? 2 then (c =? 48) || (c =? 49)
  else is_digit c.
Definition dv (c : N) : N := if c <=? 57 then c - 48 else if c <=? 70 then c - 55 else c - 87.

(* i64::from_str_radix / Integer::from_str_radix on a valid digit string: Horner *)
Definition digits_val (radix : N) (ds : list N) : N := fold_left (fun a c => a * radix + dv c) ds 0.

Fixpoint span (p : N -> bool) (s : list N) : list N * list N :=
  match s with
  | [] => ([], [])
  | c :: r => if p c then let '(a, b) := span p r in (c :: a, b) else ([], s)
  end.

(* ---------------------------------------------------------------- scan_for_layout *)
Inductive lres := LOk (rest : list N) | LEof | LErr.   (* LEof = the unexpected_eof error, LErr = any other ParserError *)
Inductive sst := SNorm | SLine | SBlock0 | SBlock.

(* consume_layout loop: layout characters, % comments to end of line, /* ... */ comments.
   "/" + EOF and "/*" + EOF propagate the raw end-of-file error (lookahead_char()? outside the closure);
   an unterminated comment body gives incomplete_reduction. *)
Fixpoint scan (st : sst) (s : list N) {struct s} : lres :=
  match s with
  | [] => match st with SNorm | SLine => LOk [] | SBlock0 => LEof | SBlock => LErr end
  | c :: r =>
    match st with
    | SNorm =>
      if is_layout c then scan SNorm r
      else if c =? 37 then scan SLine r
      else if c =? 47 then
        match r with
        | [] => LEof
        | c2 :: r2 => if c2 =? 42 then scan SBlock0 r2 else LOk s
        end
      else LOk s
    | SLine => if c =? 10 then scan SNorm r else scan SLine r
    | SBlock0 | SBlock =>
      if c =? 42 then
        match r with
        | [] => LErr
        | c2 :: r2 => if c2 =? 47 then scan SNorm r2 else scan SBlock r
        end
      else scan SBlock r
    end
  end.

Definition scan_layout (s : list N) : lres := match s with [] => LEof | _ => scan SNorm s end.

(* ---------------------------------------------------------------- integer part with digit groups *)
Definition skip_underscore (s : list N) : lres :=
  match s with
  | [] => LEof
  | c :: r =>
    if c =? 95 then
      match scan_layout r with
      | LEof => LEof
      | LErr => LErr
      | LOk r' => match r' with
                  | [] => LEof
                  | d :: _ => if is_digit d then LOk r' else LErr      (* parse_big_int_error *)
                  end
      end
    else LOk s
  end.

Inductive ires := IStop (tok rest : list N) | IPartial (tok : list N) | IErr.

Fixpoint int_loop (fuel : nat) (tok s : list N) : ires :=
  match fuel with
  | O => IErr
  | S f =>
    match skip_underscore s with
    | LEof => IPartial tok
    | LErr => IErr
    | LOk s' =>
      match s' with
      | [] => IPartial tok
      | c :: r => if is_digit c then int_loop f (tok ++ [c]) r else IStop tok s'
      end
    end
  end.

(* ---------------------------------------------------------------- tokens *)
Inductive ntok :=
| TInt (z : N) (rest : list N)
| TFlt (tok rest : list N)        (* the token text handed to parse_float_lossy *)
| TPartial (tok : list N)         (* NumberToken::Partial: end of input inside the token *)
| TErr.

Definition radix_const (radix : N) (r fallback : list N) : ntok :=
  match r with
  | [] => TErr                                          (* lookahead_char()? : end of file, not ParseBigInt *)
  | c :: _ =>
    if is_rdigit radix c then let '(ds, rest) := span (is_rdigit radix) r in TInt (digits_val radix ds) rest
    else TInt 0 fallback                                (* return_char(start); ParseBigInt -> parse_integer("0") *)
  end.

Inductive cres := COk (c : N) (rest : list N) | CQuote | CErr.   (* CQuote = UnexpectedChar('\'') *)

Definition esc_seq (radix : N) (s : list N) : cres :=
  let '(ds, rest) := span (is_rdigit radix) s in
  match rest with
  | [] => CErr
  | c :: r => if c =? 92 then
                let n := digits_val radix ds in
                if valid_scalar n then COk n r else CErr
              else CErr
  end.

Definition control_escape (c : N) : option N :=
  if c =? 97 then Some 7 else if c =? 98 then Some 8 else if c =? 118 then Some 11 else if c =? 102 then Some 12
  else if c =? 116 then Some 9 else if c =? 110 then Some 10 else if c =? 114 then Some 13 else None.

Definition non_quote_char (s : list N) : cres :=
  match s with
  | [] => CErr
  | c :: r1 =>
    if is_plain c then COk c r1
    else if negb (c =? 92) then CErr
    else match r1 with
         | [] => CErr
         | c2 :: r2 =>
           if is_meta c2 then COk c2 r2
           else if is_rdigit 8 c2 then esc_seq 8 r1
           else if c2 =? 120 then
             match r2 with
             | [] => CErr
             | c3 :: _ => if is_rdigit 16 c3 then esc_seq 16 r2 else CErr
             end
           else match control_escape c2 with Some v => COk v r2 | None => CErr end
         end
  end.

Definition single_quoted_char (s : list N) : cres :=
  match s with
  | [] => CErr
  | c :: r1 =>
    if c =? 39 then
      match r1 with
      | [] => CErr
      | c2 :: r2 => if c2 =? 39 then COk 39 r2 else CQuote
      end
    else if (c =? 34) || (c =? 96) then COk c r1
    else non_quote_char s
  end.

(* r = the text after 0' ; fallback = the text after 0 (starting with the quote) *)
Definition char_code (r fallback : list N) : ntok :=
  match r with
  | [] => TErr
  | c :: r1 =>
    let go := match single_quoted_char r with
              | COk v rest => TInt v rest
              | CQuote => TInt 0 fallback
              | CErr => TErr
              end in
    if c =? 92 then
      match r1 with
      | [] => TErr
      | c2 :: r2 => if c2 =? 10 then TInt 0 (39 :: r2) else go
      end
    else go
  end.

Definition is_exp (c : N) : bool := (c =? 101) || (c =? 69).
Definition is_sign (c : N) : bool := (c =? 45) || (c =? 43).

Definition exp_digits (tok s : list N) : ntok :=
  let '(ds, rest) := span is_digit s in
  match rest with [] => TPartial (tok ++ ds) | _ => TFlt (tok ++ ds) rest end.

(* tok = "<int>.<d>" ; s = the text after that first fraction digit *)
Definition frac_part (tok s : list N) : ntok :=
  let '(ds, rest) := span is_digit s in
  let tok1 := tok ++ ds in
  match rest with
  | [] => TPartial tok1
  | c :: r =>
    if is_exp c then
      match r with
      | [] => TFlt tok1 rest                                     (* vacate_with_float *)
      | c2 :: r2 =>
        if is_sign c2 then
          match r2 with
          | [] => TFlt tok1 rest
          | c3 :: _ => if is_digit c3 then exp_digits (tok1 ++ [c; c2]) r2 else TFlt tok1 rest
          end
        else if is_digit c2 then exp_digits (tok1 ++ [c]) r
        else TFlt tok1 rest
      end
    else TFlt tok1 rest
  end.

Definition dec (tok : list N) : N := digits_val 10 tok.

(* s starts with a decimal digit *)
Definition number_token (s : list N) : ntok :=
  match s with
  | [] => TErr
  | c0 :: s0 =>
    match int_loop (S (List.length s0)) [c0] s0 with
    | IPartial tok => TPartial tok
    | IErr => TErr
    | IStop tok rest =>
      match rest with
      | [] => TErr
      | c :: r =>
        if c =? 46 then
          match r with
          | [] => TInt (dec tok) rest
          | d :: r1 => if is_digit d then frac_part (tok ++ [46; d]) r1 else TInt (dec tok) rest
          end
        else
          match tok with
          | [z] =>
            if z =? 48 then
              if c =? 120 then radix_const 16 r rest
              else if c =? 111 then radix_const 8 r rest
              else if c =? 98 then radix_const 2 r rest
              else if c =? 39 then char_code r rest
              else TInt 0 rest
            else TInt (dec tok) rest
          | _ => TInt (dec tok) rest
          end
      end
    end
  end.

(* ---------------------------------------------------------------- exact decimal -> binary64 *)
Open Scope Z_scope.

(* round to nearest, ties to even, from quotient q and remainder r of a division by d *)
Definition round_qr (q r d : Z) : Z :=
  match 2 * r ?= d with
  | Lt => q
  | Gt => q + 1
  | Eq => if Z.even q then q else q + 1
  end.

(* the value num/den divided by 2^sh, as a fraction *)
Definition scaled (num den sh : Z) : Z * Z :=
  if 0 <=? sh then (num, Z.shiftl den sh) else (Z.shiftl num (- sh), den).

(* restoring division producing at most i quotient bits (Z.div is very slow under vm_compute on 1000-bit operands);
   its result is not trusted: try_sh checks 0 <= n - q*d < d *)
Fixpoint fdiv_loop (i : nat) (n d q : Z) : Z :=
  match i with
  | O => q
  | S j =>
    let dj := Z.shiftl d (Z.of_nat j) in
    if dj <=? n then fdiv_loop j (n - dj) d (q + Z.shiftl 1 (Z.of_nat j)) else fdiv_loop j n d q
  end.
Definition fdiv (n d : Z) : Z := fdiv_loop 56 n d 0.

(* q is a candidate quotient of n by d; accepted only if it is the quotient and has the right size *)
Definition accept_q (q n d sh : Z) : option (Z * Z) :=
  let r := n - q * d in
  if (0 <=? r) && (r <? d) &&
     (((2 ^ 52 <=? q) && (q <? 2 ^ 53)) || ((sh =? -1074) && (0 <=? q) && (q <? 2 ^ 52)))
  then Some (round_qr q r d, sh) else None.

Definition try_sh (num den sh : Z) : option (Z * Z) :=
  let '(n, d) := scaled num den sh in accept_q (fdiv n d) n d sh.

Definition dec_num (m e : Z) : Z := if 0 <=? e then m * 10 ^ e else m.
Definition dec_den (e : Z) : Z := if 0 <=? e then 1 else 10 ^ (- e).

(* m * 10^e (m > 0) rounded to q * 2^sh with q an integer of at most 53 bits (<= 2^53 after a carry),
   sh >= -1074, q >= 2^52 unless sh = -1074; None only if the exponent estimate were off by more than one *)
Definition dec_round (m e : Z) : option (Z * Z) :=
  let num := dec_num m e in
  let den := dec_den e in
  let k := Z.log2 num - Z.log2 den in
  let sh0 := Z.max (k - 52) (-1074) in
  match try_sh num den sh0 with
  | Some r => Some r
  | None =>
    match try_sh num den (Z.max (sh0 - 1) (-1074)) with
    | Some r => Some r
    | None => try_sh num den (sh0 + 1)
    end
  end.

Inductive fval := FBits (b : Z) | FInf | FNone.     (* FNone: the model gave up (never observed) *)

Definition inf_bits : Z := 2047 * 2 ^ 52.

Definition bits_of (q sh : Z) : fval :=
  let b := (sh + 1074) * 2 ^ 52 + q in
  if inf_bits <=? b then FInf else FBits b.

(* ndig = number of decimal digits of m: 10^e <= m*10^e < 10^(e+ndig); the two shortcuts avoid huge powers *)
Definition dec_to_float (m e ndig : Z) : fval :=
  if m =? 0 then FBits 0
  else if 310 <? e then FInf
  else if e + ndig <? -330 then FBits 0
  else match dec_round m e with
       | Some (q, sh) => bits_of q sh
       | None => FNone
       end.

(* token text "I.F", "I.FeX", "I.Fe+X", "I.Fe-X" (I, F, X non-empty digit strings) *)
Definition parse_float (tok : list N) : fval :=
  let '(ip, r1) := span is_digit tok in
  match r1 with
  | dot :: r2 =>
    let '(fp, r3) := span is_digit r2 in
    let m := Z.of_N (dec (ip ++ fp)) in
    let nd := Z.of_nat (List.length (ip ++ fp)) in
    let fl := Z.of_nat (List.length fp) in
    match r3 with
    | [] => dec_to_float m (- fl) nd
    | _ :: r4 =>
      match r4 with
      | [] => FNone
      | c :: r5 =>
        if N.eqb c 45 then dec_to_float m (- Z.of_N (dec r5) - fl) nd
        else if N.eqb c 43 then dec_to_float m (Z.of_N (dec r5) - fl) nd
        else dec_to_float m (Z.of_N (dec r4) - fl) nd
      end
    end
  | [] => FNone
  end.

(* ---------------------------------------------------------------- numbers and the entry points *)
Inductive num := NInt (z : Z) | NFlt (neg : bool) (bits : Z).

Inductive mres := MNum (n : num) | MSyn | MNotNum | MUnknown.

Definition num_of_float (neg : bool) (f : fval) : option num :=
  match f with
  | FBits b => Some (NFlt neg b)
  | _ => None                       (* infinite: the parser raises syntax_error(infinite_float) *)
  end.

Definition zsign (neg : bool) (n : N) : Z := if neg then - Z.of_N n else Z.of_N n.

(* next_number_token on a text that starts with a digit: value and the text that follows the token *)
Definition next_number (neg : bool) (s : list N) : option (num * list N) :=
  match number_token s with
  | TInt z rest => Some (NInt (zsign neg z), rest)
  | TFlt tok rest => match num_of_float neg (parse_float tok) with Some n => Some (n, rest) | None => None end
  | TPartial tok =>
    if forallb is_digit tok then Some (NInt (zsign neg (dec tok)), [])
    else match num_of_float neg (parse_float tok) with Some n => Some (n, []) | None => None end
  | TErr => None
  end.

Definition is_nil {A} (l : list A) : bool := match l with [] => true | _ => false end.

(* parse_number_from_string: number_chars/2 and number_codes/2 *)
Definition number_chars_model (s : list N) : mres :=
  match scan_layout s with
  | LOk ((c :: r) as s1) =>
    if is_digit c then
      match next_number false s1 with
      | Some (n, rest) => if is_nil rest then MNum n else MSyn
      | None => MSyn
      end
    else if N.eqb c 45 then
      let '(g, r1) := span is_graphic_token s1 in
      match g, r1 with
      | [_], _ :: _ =>
        match scan_layout r1 with
        | LOk ((d :: _) as s2) =>
          if is_digit d then
            match next_number true s2 with
            | Some (n, rest) => if is_nil rest then MNum n else MSyn
            | None => MSyn
            end
          else MSyn
        | _ => MSyn
        end
      | _, _ => MSyn
      end
    else if N.eqb c 39 then MUnknown        (* a quoted atom '-' also acts as the sign: outside the model *)
    else MSyn
  | _ => MSyn
  end.

(* the clause end: layout* "." followed by end of input, layout or % *)
Definition at_end (rest : list N) : bool :=
  match scan_layout rest with
  | LOk (c :: r) =>
    N.eqb c 46 && match r with [] => true | c2 :: _ => is_layout c2 || N.eqb c2 37 end
  | _ => false
  end.

(* the reader (read_term, Tokens::Default) on a text: the value if the clause is one numeric literal,
   possibly preceded by the name token - (layout between them is allowed by this parser), and the text that
   follows the numeric token *)
Definition read_num (neg : bool) (s : list N) : mres * list N :=
  match number_token s with
  | TInt z rest => if at_end rest then (MNum (NInt (zsign neg z)), rest) else (MNotNum, [])
  | TFlt tok rest =>
    match num_of_float neg (parse_float tok) with
    | Some n => if at_end rest then (MNum n, rest) else (MNotNum, [])
    | None => (MNotNum, [])
    end
  | _ => (MNotNum, [])
  end.

Definition read_model_rest (t : list N) : mres * list N :=
  match scan_layout t with
  | LOk ((c :: r) as s1) =>
    if is_digit c then read_num false s1
    else if N.eqb c 45 then
      let '(g, r1) := span is_graphic_token s1 in
      match g with
      | [_] =>
        match scan_layout r1 with
        | LOk ((d :: _) as s2) => if is_digit d then read_num true s2 else (MNotNum, [])
        | _ => (MNotNum, [])
        end
      | _ => (MNotNum, [])
      end
    else if N.eqb c 39 || N.eqb c 40 then (MUnknown, [])
    else (MNotNum, [])
  | _ => (MNotNum, [])
  end.

Definition read_model (t : list N) : mres := fst (read_model_rest t).

(* ---------------------------------------------------------------- writer *)
Fixpoint digits_fuel (fuel : nat) (n : N) (acc : list N) : list N :=
  match fuel with
  | O => acc
  | S f => if (n <? 10)%N then (48 + n)%N :: acc else digits_fuel f (n / 10)%N ((48 + n mod 10)%N :: acc)
  end.
Definition write_nat (n : N) : list N := digits_fuel (S (N.to_nat (N.log2 n))) n [].
Definition write_int (z : Z) : list N :=
  if z <? 0 then 45%N :: write_nat (Z.to_N (- z)) else write_nat (Z.to_N z).

(* ---------------------------------------------------------------- comparison with observations *)
Inductive obs := ONum (n : num) | OSyn | ONonNum | OOther.

Definition num_eqb (a b : num) : bool :=
  match a, b with
  | NInt x, NInt y => x =? y
  | NFlt s1 b1, NFlt s2 b2 => (b1 =? b2) && (Bool.eqb s1 s2 || (b1 =? 0))   (* the sign of zero is not observed *)
  | _, _ => false
  end.

(* number_chars / number_codes: value or syntax_error, exactly *)
Definition nc_ok (m : mres) (o : obs) : bool :=
  match m, o with
  | MNum a, ONum b => num_eqb a b
  | MSyn, OSyn => true
  | MUnknown, _ => true
  | _, _ => false
  end.

(* reader: the number, or anything that is not a number (syntax error or another term) *)
Definition rd_ok (m : mres) (o : obs) : bool :=
  match m, o with
  | MNum a, ONum b => num_eqb a b
  | MNotNum, OSyn | MNotNum, ONonNum => true
  | MUnknown, _ => true
  | _, _ => false
  end.

Definition mres_eqb (a b : mres) : bool :=
  match a, b with
  | MNum x, MNum y => num_eqb x y
  | MSyn, MSyn | MNotNum, MNotNum | MUnknown, MUnknown => true
  | _, _ => false
  end.

Definition list_eqb (a b : list N) : bool :=
  (Nat.eqb (List.length a) (List.length b)) && forallb (fun p => N.eqb (fst p) (snd p)) (combine a b).

(* the entry points agree: if the reader takes s ++ " ." as the number n and the numeric token ends exactly
   where s ends, number_chars(s) is n; if the reader does not obtain a number from s ++ " .", number_chars(s)
   is a syntax error.  (When the token ends before the end of s -- trailing layout, which number_chars rejects by
   documentation -- nothing is required.) *)
Definition agree (s : list N) : bool :=
  match read_model_rest (s ++ [32%N; 46%N]) with
  | (MNum n, rest) => if list_eqb rest [32%N; 46%N] then mres_eqb (number_chars_model s) (MNum n) else true
  | (MNotNum, _) => match number_chars_model s with MNum _ => false | _ => true end
  | _ => true
  end.

(* one spelling, four observations: number_codes(s), number_chars(s), read(s ++ " ."), read(s ++ ".") *)
Definition corr (s : list N) (o1 o2 o3 o4 : obs) : bool :=
  nc_ok (number_chars_model s) o1 && nc_ok (number_chars_model s) o2 &&
  rd_ok (read_model (s ++ [32%N; 46%N])) o3 && rd_ok (read_model (s ++ [46%N])) o4.

(* corr && agree, sharing the evaluations *)
Definition chk (s : list N) (o1 o2 o3 o4 : obs) : bool :=
  let m := number_chars_model s in
  let r := read_model_rest (s ++ [32%N; 46%N]) in
  nc_ok m o1 && nc_ok m o2 && rd_ok (fst r) o3 && rd_ok (read_model (s ++ [46%N])) o4 &&
  match r with
  | (MNum n, rest) => if list_eqb rest [32%N; 46%N] then mres_eqb m (MNum n) else true
  | (MNotNum, _) => match m with MNum _ => false | _ => true end
  | _ => true
  end.

(* inputs and observations arrive as strings (Coq parses numeric literals slowly): a spelling either as its
   ASCII text (cs) or as hexadecimal code points separated by single spaces (hx); integers in decimal, float
   bits (without the sign bit) in hexadecimal *)
Definition cs (s : string) : list N := map N_of_ascii (list_ascii_of_string s).
Fixpoint split_hex (cur : N) (has : bool) (l : list N) : list N :=
  match l with
  | [] => if has then [cur] else []
  | c :: r => if N.eqb c 32 then cur :: split_hex 0%N false r else split_hex (cur * 16 + dv c)%N true r
  end.
Definition hx (s : string) : list N := split_hex 0%N false (cs s).
Definition zdec (s : string) : Z :=
  match cs s with
  | c :: r => if N.eqb c 45 then - Z.of_N (dec r) else Z.of_N (dec (c :: r))
  | [] => 0
  end.
Definition zhex (s : string) : Z := Z.of_N (digits_val 16 (cs s)).
Definition oi (s : string) : obs := ONum (NInt (zdec s)).
Definition ofl (neg : bool) (s : string) : obs := ONum (NFlt neg (zhex s)).

(* a printed float: the text reads back (by the model) as exactly these bits, and has digits on both sides of a dot *)
Definition has_dot_digits (t : list N) : bool :=
  let t1 := match t with c :: r => if N.eqb c 45 then r else t | [] => t end in
  let '(a, r) := span is_digit t1 in
  match a, r with
  | _ :: _, dot :: d :: _ => N.eqb dot 46 && is_digit d
  | _, _ => false
  end.

Definition float_text_ok (t : list N) (neg : bool) (bits : Z) : bool :=
  has_dot_digits t && mres_eqb (number_chars_model t) (MNum (NFlt neg bits)).

Definition int_text_ok (t : list N) (z : Z) : bool :=
  list_eqb t (write_int z) && mres_eqb (number_chars_model t) (MNum (NInt z)).

(* ---------------------------------------------------------------- packed cases
   Coq interprets numeric and string literals slowly except primitive 63-bit integers, so the correspondence
   cases arrive as lists of primitive integers:
     spelling  = n, then ceil(n/3) integers each holding three 21-bit code points (first in the low bits);
     obs       = 0 (syntax error) | 1 (non-number) | 2 (other) | 3 sign k limb_0 .. limb_(k-1) (integer, 60-bit limbs,
                 little endian) | 4 sign bits (float; bits without the sign bit) | 5 (same as the previous observation) *)
Definition zi (x : int) : Z := Uint63.to_Z x.

Fixpoint unpack (n : nat) (l : list int) {struct n} : list N * list int :=
  match n with
  | O => ([], l)
  | S O => match l with x :: r => ([Z.to_N (Z.land (zi x) 2097151)], r) | [] => ([], []) end
  | S (S O) => match l with
               | x :: r => ([Z.to_N (Z.land (zi x) 2097151); Z.to_N (Z.land (Z.shiftr (zi x) 21) 2097151)], r)
               | [] => ([], []) end
  | S (S (S m)) =>
    match l with
    | x :: r => let '(cs', r') := unpack m r in
                (Z.to_N (Z.land (zi x) 2097151) :: Z.to_N (Z.land (Z.shiftr (zi x) 21) 2097151)
                 :: Z.to_N (Z.shiftr (zi x) 42) :: cs', r')
    | [] => ([], [])
    end
  end.

Definition take_spelling (l : list int) : list N * list int :=
  match l with
  | n :: r => unpack (Z.to_nat (zi n)) r
  | [] => ([], [])
  end.

Fixpoint take_limbs (k : nat) (l : list int) : Z * list int :=
  match k with
  | O => (0, l)
  | S k' => match l with
            | x :: r => let '(v, r') := take_limbs k' r in (zi x + v * 2 ^ 60, r')
            | [] => (0, [])
            end
  end.

Definition is0 (x : int) : bool := zi x =? 0.

Definition take_obs (prev : obs) (l : list int) : obs * list int :=
  match l with
  | t :: r =>
    let tz := zi t in
    if tz =? 0 then (OSyn, r)
    else if tz =? 1 then (ONonNum, r)
    else if tz =? 3 then
      match r with
      | sg :: k :: r1 => let '(v, r2) := take_limbs (Z.to_nat (zi k)) r1 in
                         (ONum (NInt (if is0 sg then v else - v)), r2)
      | _ => (OOther, [])
      end
    else if tz =? 4 then
      match r with
      | sg :: b :: r1 => (ONum (NFlt (negb (is0 sg)) (zi b)), r1)
      | _ => (OOther, [])
      end
    else if tz =? 5 then (prev, r)
    else (OOther, r)
  | [] => (OOther, [])
  end.

Definition chkp (l : list int) : bool :=
  let '(s, r0) := take_spelling l in
  let '(o1, r1) := take_obs OOther r0 in
  let '(o2, r2) := take_obs o1 r1 in
  let '(o3, r3) := take_obs o2 r2 in
  let '(o4, r4) := take_obs o3 r3 in
  is_nil r4 && chk s o1 o2 o3 o4.

(* the conjuncts of chkp separately (diagnosis of a failing case): 0,1 number_codes/number_chars vs model,
   2,3 the two reader texts vs model, 4 agreement of the entry points *)
Definition diagp (k : int) (l : list int) : bool :=
  let '(s, r0) := take_spelling l in
  let '(o1, r1) := take_obs OOther r0 in
  let '(o2, r2) := take_obs o1 r1 in
  let '(o3, r3) := take_obs o2 r2 in
  let '(o4, r4) := take_obs o3 r3 in
  let kz := zi k in
  if kz =? 0 then nc_ok (number_chars_model s) o1
  else if kz =? 1 then nc_ok (number_chars_model s) o2
  else if kz =? 2 then rd_ok (read_model (s ++ [32%N; 46%N])) o3
  else if kz =? 3 then rd_ok (read_model (s ++ [46%N])) o4
  else agree s.

(* printed text + the number it was printed from *)
Definition textp (l : list int) : bool :=
  let '(s, r0) := take_spelling l in
  match take_obs OOther r0 with
  | (ONum (NFlt neg b), []) => float_text_ok s neg b
  | (ONum (NInt z), []) => int_text_ok s z
  | _ => false
  end.
