(* C16 -- specification of the decimal -> binary64 conversion, stated independently of the algorithm of Model.v
   (definitions only; the proofs are in RoundProofs.v).  Real numbers are those of the Coq standard library. *)
From Coq Require Import ZArith Reals.
From V Require Import C16.Model.
Open Scope R_scope.

(* the exact value denoted by the decimal digits m scaled by 10^e *)
Definition dec_value (m e : Z) : R := IZR m * powerRZ 10 e.

(* the value of mantissa * 2^exponent *)
Definition fval64 (q sh : Z) : R := IZR q * powerRZ 2 sh.

(* g is a binary64 number if the exponent range were unbounded above: 53-bit mantissa, exponent >= -1074
   (the finite binary64 numbers are those with exponent <= 971, below) *)
Definition fmt64 (g : R) : Prop :=
  exists mg eg : Z, g = fval64 mg eg /\ (Z.abs mg < 2 ^ 53)%Z /\ (-1074 <= eg)%Z.
Definition finite64 (g : R) : Prop :=
  exists mg eg : Z, g = fval64 mg eg /\ (Z.abs mg < 2 ^ 53)%Z /\ (-1074 <= eg <= 971)%Z.

(* the unique representation of a non-negative finite binary64: normal (53-bit mantissa) or subnormal/zero *)
Definition canonical64 (q sh : Z) : Prop :=
  ((2 ^ 52 <= q < 2 ^ 53) /\ (-1074 <= sh <= 971))%Z \/ (sh = -1074 /\ 0 <= q < 2 ^ 52)%Z.

(* (q, sh) is the finite binary64 nearest to x; in case of a tie its mantissa is even.  The competitors g range over
   fmt64, a superset of the finite binary64 numbers (so this implies is_nearest_even_finite below). *)
Definition is_nearest_even (x : R) (q sh : Z) : Prop :=
  canonical64 q sh /\
  (forall g, fmt64 g -> Rabs (fval64 q sh - x) <= Rabs (g - x)) /\
  (forall g, fmt64 g -> g <> fval64 q sh -> Rabs (g - x) = Rabs (fval64 q sh - x) -> Z.even q = true).

Definition is_nearest_even_finite (x : R) (q sh : Z) : Prop :=
  canonical64 q sh /\
  (forall g, finite64 g -> Rabs (fval64 q sh - x) <= Rabs (g - x)) /\
  (forall g, finite64 g -> g <> fval64 q sh -> Rabs (g - x) = Rabs (fval64 q sh - x) -> Z.even q = true).

(* IEEE-754 binary64 bit pattern (sign bit clear) -> mantissa and exponent *)
Definition decode (b : Z) : Z * Z :=
  let ef := (b / 2 ^ 52)%Z in
  let mf := (b mod 2 ^ 52)%Z in
  if (ef =? 0)%Z then (mf, (-1074)%Z) else ((2 ^ 52 + mf)%Z, (ef - 1075)%Z).
Definition finite_bits (b : Z) : Prop := (0 <= b < 2047 * 2 ^ 52)%Z.

(* the overflow threshold: the midpoint between the largest finite binary64 and 2^1024; from there on round-to-nearest
   overflows (lexer.rs then raises a syntax error; the model returns FInf) *)
Definition overflow_threshold : R := IZR (2 ^ 1024 - 2 ^ 970).

(* the digit count handed to dec_to_float bounds the digits *)
Definition in_range (m nd : Z) : Prop := (0 <= m < 10 ^ nd)%Z.

(* f is the correctly rounded binary64 of x >= 0: below the overflow threshold the nearest finite binary64 (ties to even),
   from the threshold on the overflow result *)
Definition rounds_to (x : R) (f : fval) : Prop :=
  (x < overflow_threshold ->
     exists b, f = FBits b /\ finite_bits b /\ is_nearest_even x (fst (decode b)) (snd (decode b))) /\
  (overflow_threshold <= x -> f = FInf).
