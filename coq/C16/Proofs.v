(* C16 -- lemmas about the model of the number lexer *)
From Coq Require Import List NArith ZArith Bool Lia.
Import ListNotations.
From V Require Import C16.Model.
Open Scope N_scope.

Local Arguments N.mul : simpl never.
Local Arguments N.add : simpl never.
Local Arguments N.sub : simpl never.
Local Arguments N.pow : simpl never.
Local Arguments N.div : simpl never.
Local Arguments N.modulo : simpl never.

(* ================================================================ positional value *)
(* sum of d_i * r^i, the most significant digit first *)
Fixpoint pos_value (r : N) (ds : list N) : N :=
  match ds with
  | [] => 0
  | d :: t => dv d * r ^ N.of_nat (length t) + pos_value r t
  end.

Lemma fold_horner : forall r ds acc,
  fold_left (fun a c => a * r + dv c) ds acc = acc * r ^ N.of_nat (length ds) + pos_value r ds.
Proof.
  intros r ds; induction ds as [|d t IH]; intros acc.
  - cbn [fold_left length pos_value]. change (N.of_nat 0) with 0. rewrite N.pow_0_r. lia.
  - cbn [fold_left length pos_value]. rewrite IH.
    rewrite Nat2N.inj_succ, N.pow_succ_r by lia. lia.
Qed.

Lemma digits_val_pos_value : forall r ds, digits_val r ds = pos_value r ds.
Proof. intros; unfold digits_val; rewrite fold_horner; lia. Qed.

Lemma pos_value_app : forall r a b,
  pos_value r (a ++ b) = pos_value r a * r ^ N.of_nat (length b) + pos_value r b.
Proof.
  intros r a b; induction a as [|d t IH].
  - cbn [app pos_value]. lia.
  - cbn [app pos_value]. rewrite IH, app_length, Nat2N.inj_add, N.pow_add_r. lia.
Qed.

(* ================================================================ span *)
Lemma span_app : forall p ds rest,
  Forall (fun c => p c = true) ds ->
  (match rest with [] => True | c :: _ => p c = false end) ->
  span p (ds ++ rest) = (ds, rest).
Proof.
  intros p ds rest Hd Hr; induction Hd as [|d t Hd Ht IH].
  - cbn [app]. destruct rest as [|c r]; cbn [span]; [reflexivity | rewrite Hr; reflexivity].
  - cbn [app span]. rewrite Hd, IH. reflexivity.
Qed.

(* ================================================================ character class facts *)
Lemma digit_cases : forall c, is_digit c = true ->
  c = 48 \/ c = 49 \/ c = 50 \/ c = 51 \/ c = 52 \/ c = 53 \/ c = 54 \/ c = 55 \/ c = 56 \/ c = 57.
Proof.
  intros c H; unfold is_digit in H. apply andb_true_iff in H as [H1 H2].
  apply N.leb_le in H1, H2. lia.
Qed.

Ltac digit_by_cases c H :=
  destruct (digit_cases c H) as [->|[->|[->|[->|[->|[->|[->|[->|[->| ->]]]]]]]]]; reflexivity.

Lemma digit_not_us : forall c, is_digit c = true -> (c =? 95) = false.
Proof. intros c H; digit_by_cases c H. Qed.
Lemma digit_not_layout : forall c, is_digit c = true -> is_layout c = false.
Proof. intros c H; digit_by_cases c H. Qed.
Lemma digit_not_pct : forall c, is_digit c = true -> (c =? 37) = false.
Proof. intros c H; digit_by_cases c H. Qed.
Lemma digit_not_slash : forall c, is_digit c = true -> (c =? 47) = false.
Proof. intros c H; digit_by_cases c H. Qed.
Lemma digit_not_gtok : forall c, is_digit c = true -> is_graphic_token c = false.
Proof. intros c H; digit_by_cases c H. Qed.
Lemma digit_not_minus : forall c, is_digit c = true -> (c =? 45) = false.
Proof. intros c H; digit_by_cases c H. Qed.
Lemma digit_dv : forall c, is_digit c = true -> dv c = c - 48.
Proof. intros c H; digit_by_cases c H. Qed.

(* ================================================================ layout scanning *)
Lemma scan_norm_stop : forall c r,
  is_layout c = false -> (c =? 37) = false -> (c =? 47) = false -> scan SNorm (c :: r) = LOk (c :: r).
Proof. intros c r H1 H2 H3. cbn [scan]. rewrite H1, H2, H3. reflexivity. Qed.

Lemma scan_layout_digit : forall c r, is_digit c = true -> scan_layout (c :: r) = LOk (c :: r).
Proof.
  intros c r H. unfold scan_layout.
  apply scan_norm_stop; [apply digit_not_layout | apply digit_not_pct | apply digit_not_slash]; exact H.
Qed.

Lemma scan_skip_layout : forall ls c r,
  Forall (fun x => is_layout x = true) ls -> is_digit c = true ->
  scan SNorm (ls ++ c :: r) = LOk (c :: r).
Proof.
  intros ls c r Hl Hc; induction Hl as [|l t Hl Ht IH].
  - cbn [app]. apply (scan_layout_digit c r Hc).
  - cbn [app scan]. rewrite Hl. exact IH.
Qed.

Lemma scan_layout_skip : forall ls c r,
  Forall (fun x => is_layout x = true) ls -> is_digit c = true ->
  scan_layout (ls ++ c :: r) = LOk (c :: r).
Proof.
  intros ls c r Hl Hc. unfold scan_layout.
  destruct (ls ++ c :: r) eqn:E.
  - destruct ls; discriminate.
  - rewrite <- E. apply scan_skip_layout; assumption.
Qed.

(* ================================================================ the integer loop and digit groups *)
Lemma skip_us_other : forall c r, (c =? 95) = false -> skip_underscore (c :: r) = LOk (c :: r).
Proof. intros c r H. unfold skip_underscore. rewrite H. reflexivity. Qed.

Lemma skip_us_sep : forall ls c r,
  Forall (fun x => is_layout x = true) ls -> is_digit c = true ->
  skip_underscore (95 :: ls ++ c :: r) = LOk (c :: r).
Proof.
  intros ls c r Hl Hc. unfold skip_underscore.
  change (95 =? 95) with true. cbv iota.
  rewrite (scan_layout_skip ls c r Hl Hc). rewrite Hc. reflexivity.
Qed.

(* text of digits and separators (after the leading digit) / the digits it contains *)
Inductive gtail : list N -> list N -> Prop :=
| gt_nil : gtail [] []
| gt_dig : forall c t d, is_digit c = true -> gtail t d -> gtail (c :: t) (c :: d)
| gt_sep : forall ls c t d, Forall (fun x => is_layout x = true) ls -> is_digit c = true -> gtail t d ->
           gtail (95 :: ls ++ c :: t) (c :: d).

(* what may follow the digits for the loop to stop there *)
Definition stop_ok (rest : list N) : Prop :=
  match rest with [] => True | c :: _ => is_digit c = false /\ (c =? 95) = false end.

Definition loop_result (tok rest : list N) : ires :=
  match rest with [] => IPartial tok | _ => IStop tok rest end.

Lemma int_loop_gtail : forall t d, gtail t d -> forall fuel tok rest,
  (length t < fuel)%nat -> stop_ok rest ->
  int_loop fuel tok (t ++ rest) = loop_result (tok ++ d) rest.
Proof.
  intros t d G; induction G as [|c t d Hc G IH|ls c t d Hl Hc G IH]; intros fuel tok rest Hf Hs.
  - destruct fuel as [|f]; [inversion Hf|]. cbn [app int_loop]. rewrite app_nil_r.
    destruct rest as [|c r]; [reflexivity|].
    destruct Hs as [Hd Hu]. rewrite (skip_us_other c r Hu). rewrite Hd. reflexivity.
  - destruct fuel as [|f]; [inversion Hf|]. cbn [app int_loop].
    rewrite (skip_us_other c (t ++ rest) (digit_not_us c Hc)). rewrite Hc.
    rewrite IH.
    + rewrite <- app_assoc. reflexivity.
    + cbn [length] in Hf. lia.
    + exact Hs.
  - destruct fuel as [|f]; [inversion Hf|].
    change ((95 :: ls ++ c :: t) ++ rest) with (95 :: (ls ++ c :: t) ++ rest).
    rewrite <- app_assoc. change ((c :: t) ++ rest) with (c :: t ++ rest).
    cbn [int_loop]. rewrite (skip_us_sep ls c (t ++ rest) Hl Hc). rewrite Hc.
    rewrite IH.
    + rewrite <- app_assoc. reflexivity.
    + cbn [length] in Hf. rewrite app_length in Hf. cbn [length] in Hf. lia.
    + exact Hs.
Qed.

Lemma gtail_digits : forall ds, Forall (fun c => is_digit c = true) ds -> gtail ds ds.
Proof. intros ds H; induction H; constructor; assumption. Qed.

Lemma gtail_len : forall t d, gtail t d -> (length d <= length t)%nat.
Proof.
  intros t d G; induction G; cbn [length]; try lia.
  rewrite app_length. cbn [length]. lia.
Qed.

(* number_token after the integer loop depends only on the token and the rest *)
Lemma number_token_gtail : forall c t d rest, is_digit c = true -> gtail t d -> stop_ok rest ->
  number_token (c :: t ++ rest) = number_token (c :: d ++ rest).
Proof.
  intros c t d rest Hc G Hs. unfold number_token.
  assert (Gd : gtail d d) by (clear -G; induction G; constructor; assumption).
  rewrite (int_loop_gtail t d G); [ | rewrite app_length; lia | exact Hs].
  rewrite (int_loop_gtail d d Gd); [ | rewrite app_length; lia | exact Hs].
  reflexivity.
Qed.

(* ================================================================ decimal and radix literals *)
Definition all_digits (ds : list N) : Prop := Forall (fun c => is_digit c = true) ds.

(* a decimal integer followed by a character that neither continues the token nor starts a special form *)
Definition dec_stop (ds rest : list N) : Prop :=
  match rest with
  | [] => False
  | c :: _ => is_digit c = false /\ (c =? 95) = false /\ (c =? 46) = false /\
              (ds = [48] -> (c =? 120) = false /\ (c =? 111) = false /\ (c =? 98) = false /\ (c =? 39) = false)
  end.

Lemma number_token_loop : forall c ds rest, is_digit c = true -> all_digits ds -> stop_ok rest ->
  int_loop (S (length (ds ++ rest))) [c] (ds ++ rest) = loop_result (c :: ds) rest.
Proof.
  intros c ds rest Hc Hd Hs.
  rewrite (int_loop_gtail ds ds (gtail_digits ds Hd)); [reflexivity | rewrite app_length; lia | exact Hs].
Qed.

Lemma decimal_literal : forall c ds rest, is_digit c = true -> all_digits ds -> dec_stop (c :: ds) rest ->
  number_token (c :: ds ++ rest) = TInt (pos_value 10 (c :: ds)) rest.
Proof.
  intros c ds rest Hc Hd Hs. unfold number_token.
  destruct rest as [|x r]; [destruct Hs|]. destruct Hs as (H1 & H2 & H3 & H4).
  rewrite number_token_loop; [ | exact Hc | exact Hd | split; assumption].
  cbn [loop_result]. rewrite H3. unfold dec. rewrite digits_val_pos_value.
  destruct ds as [|d ds']; [|reflexivity].
  destruct (c =? 48) eqn:E; [|reflexivity].
  apply N.eqb_eq in E. subst c. destruct (H4 eq_refl) as (A & B & C & D).
  rewrite A, B, C, D. reflexivity.
Qed.

Lemma decimal_partial : forall c ds, is_digit c = true -> all_digits ds ->
  number_token (c :: ds) = TPartial (c :: ds).
Proof.
  intros c ds Hc Hd. unfold number_token.
  pose proof (number_token_loop c ds [] Hc Hd I) as H. rewrite app_nil_r in H. rewrite H. reflexivity.
Qed.

Definition radix_char (r : N) : N := if r =? 16 then 120 else if r =? 8 then 111 else 98.
Definition radix_ok (r : N) : Prop := r = 16 \/ r = 8 \/ r = 2.
Definition rdigits (r : N) (ds : list N) : Prop := Forall (fun c => is_rdigit r c = true) ds.
Definition rstop (r : N) (rest : list N) : Prop := match rest with [] => True | c :: _ => is_rdigit r c = false end.

Lemma radix_literal : forall r d ds rest, radix_ok r -> rdigits r (d :: ds) -> rstop r rest ->
  number_token (48 :: radix_char r :: (d :: ds) ++ rest) = TInt (pos_value r (d :: ds)) rest.
Proof.
  intros r d ds rest Hr Hd Hs.
  assert (Hspan : span (is_rdigit r) ((d :: ds) ++ rest) = (d :: ds, rest)) by (apply span_app; assumption).
  assert (Hd0 : is_rdigit r d = true) by (inversion Hd; assumption).
  unfold number_token.
  destruct Hr as [-> | [-> | ->]]; cbn [radix_char N.eqb Pos.eqb];
    (cbn [int_loop length]; rewrite skip_us_other by reflexivity;
     match goal with |- context [is_digit ?k] => change (is_digit k) with false end; cbv iota;
     match goal with |- context [?k =? 46] => change (k =? 46) with false end; cbv iota;
     change (48 =? 48) with true; cbv iota).
  - change (120 =? 120) with true. cbv iota. unfold radix_const.
    rewrite Hspan. cbn [app]. rewrite Hd0, digits_val_pos_value. reflexivity.
  - change (111 =? 120) with false. change (111 =? 111) with true. cbv iota. unfold radix_const.
    rewrite Hspan. cbn [app]. rewrite Hd0, digits_val_pos_value. reflexivity.
  - change (98 =? 120) with false. change (98 =? 111) with false. change (98 =? 98) with true. cbv iota. unfold radix_const.
    rewrite Hspan. cbn [app]. rewrite Hd0, digits_val_pos_value. reflexivity.
Qed.

(* 0x / 0o / 0b not followed by a digit of the radix: the literal is 0 and the letter is left in the input *)
Lemma radix_fallback : forall r c rest, radix_ok r -> is_rdigit r c = false ->
  number_token (48 :: radix_char r :: c :: rest) = TInt 0 (radix_char r :: c :: rest).
Proof.
  intros r c rest Hr Hc. unfold number_token.
  destruct Hr as [-> | [-> | ->]]; cbn [radix_char N.eqb Pos.eqb];
    (cbn [int_loop length]; rewrite skip_us_other by reflexivity;
     match goal with |- context [is_digit ?k] => change (is_digit k) with false end; cbv iota;
     match goal with |- context [?k =? 46] => change (k =? 46) with false end; cbv iota;
     change (48 =? 48) with true; cbv iota).
  - change (120 =? 120) with true. cbv iota. unfold radix_const. rewrite Hc. reflexivity.
  - change (111 =? 120) with false. change (111 =? 111) with true. cbv iota. unfold radix_const. rewrite Hc. reflexivity.
  - change (98 =? 120) with false. change (98 =? 111) with false. change (98 =? 98) with true. cbv iota. unfold radix_const.
    rewrite Hc. reflexivity.
Qed.

(* ================================================================ the decimal writer and the integer round trip *)
Lemma small_digit : forall n, n < 10 -> is_digit (48 + n) = true /\ dv (48 + n) = n.
Proof.
  intros n H.
  assert (C : n = 0 \/ n = 1 \/ n = 2 \/ n = 3 \/ n = 4 \/ n = 5 \/ n = 6 \/ n = 7 \/ n = 8 \/ n = 9) by lia.
  destruct C as [->|[->|[->|[->|[->|[->|[->|[->|[->| ->]]]]]]]]]; split; reflexivity.
Qed.

(* digits_fuel writes the digits of n in front of acc *)
Lemma digits_fuel_spec : forall fuel n acc, n < 2 ^ N.of_nat fuel ->
  exists pre, digits_fuel fuel n acc = pre ++ acc /\ all_digits pre /\ pos_value 10 pre = n /\
              (fuel <> O -> pre <> []).
Proof.
  induction fuel as [|f IH]; intros n acc Hn.
  - exists []. cbn [digits_fuel app pos_value]. change (N.of_nat 0) with 0 in Hn. rewrite N.pow_0_r in Hn.
    repeat split; try constructor; try lia.
  - cbn [digits_fuel]. destruct (n <? 10) eqn:E.
    + apply N.ltb_lt in E. destruct (small_digit n E) as [D V].
      exists [48 + n]. cbn [app pos_value length]. change (N.of_nat 0) with 0. rewrite N.pow_0_r, V.
      repeat split; try lia; try discriminate. constructor; [exact D | constructor].
    + apply N.ltb_ge in E.
      assert (Hq : n / 10 < 2 ^ N.of_nat f).
      { rewrite Nat2N.inj_succ, N.pow_succ_r in Hn by lia.
        apply N.div_lt_upper_bound; lia. }
      destruct (IH (n / 10) ((48 + n mod 10) :: acc) Hq) as (pre & E1 & E2 & E3 & _).
      assert (Hm : n mod 10 < 10) by (apply N.mod_lt; lia).
      destruct (small_digit (n mod 10) Hm) as [D V].
      exists (pre ++ [48 + n mod 10]). rewrite E1, <- app_assoc. cbn [app].
      repeat split.
      * apply Forall_app; split; [exact E2 | constructor; [exact D | constructor]].
      * rewrite pos_value_app, E3. cbn [pos_value length]. change (N.of_nat 0) with 0. change (N.of_nat 1) with 1.
        rewrite N.pow_0_r, N.pow_1_r, V. pose proof (N.div_mod n 10). lia.
      * intros _ H. destruct pre; discriminate.
Qed.

Lemma write_nat_spec : forall n, exists c ds, write_nat n = c :: ds /\ is_digit c = true /\ all_digits ds /\
  pos_value 10 (c :: ds) = n.
Proof.
  intros n. unfold write_nat.
  assert (Hn : n < 2 ^ N.of_nat (S (N.to_nat (N.log2 n)))).
  { rewrite Nat2N.inj_succ, N2Nat.id. destruct (N.eq_dec n 0) as [->|Hz]; [reflexivity|].
    apply N.log2_spec. lia. }
  destruct (digits_fuel_spec _ n [] Hn) as (pre & E1 & E2 & E3 & E4).
  rewrite app_nil_r in E1. destruct pre as [|c ds]; [exfalso; apply E4; [discriminate | reflexivity]|].
  exists c, ds. inversion E2; subst. repeat split; assumption.
Qed.

Lemma read_digits : forall neg c ds, is_digit c = true -> all_digits ds ->
  next_number neg (c :: ds) = Some (NInt (zsign neg (pos_value 10 (c :: ds))), []).
Proof.
  intros neg c ds Hc Hd. unfold next_number. rewrite (decimal_partial c ds Hc Hd).
  assert (F : forallb is_digit (c :: ds) = true).
  { apply forallb_forall. intros x [<-|Hx]; [exact Hc|]. unfold all_digits in Hd. rewrite Forall_forall in Hd. auto. }
  rewrite F. unfold dec. rewrite digits_val_pos_value. reflexivity.
Qed.

Lemma number_chars_digits : forall c ds, is_digit c = true -> all_digits ds ->
  number_chars_model (c :: ds) = MNum (NInt (Z.of_N (pos_value 10 (c :: ds)))).
Proof.
  intros c ds Hc Hd. unfold number_chars_model.
  rewrite (scan_layout_digit c ds Hc). rewrite Hc. rewrite (read_digits false c ds Hc Hd). reflexivity.
Qed.

Lemma number_chars_minus_digits : forall c ds, is_digit c = true -> all_digits ds ->
  number_chars_model (45 :: c :: ds) = MNum (NInt (- Z.of_N (pos_value 10 (c :: ds)))).
Proof.
  intros c ds Hc Hd. unfold number_chars_model.
  assert (S1 : scan_layout (45 :: c :: ds) = LOk (45 :: c :: ds)) by reflexivity.
  rewrite S1. change (is_digit 45) with false. cbv iota. change (N.eqb 45 45) with true. cbv iota.
  cbn [span]. change (is_graphic_token 45) with true. cbv iota. rewrite (digit_not_gtok c Hc).
  rewrite (scan_layout_digit c ds Hc). rewrite Hc. rewrite (read_digits true c ds Hc Hd). reflexivity.
Qed.

Lemma int_roundtrip : forall z, number_chars_model (write_int z) = MNum (NInt z).
Proof.
  intros z. unfold write_int. destruct (z <? 0)%Z eqn:E.
  - apply Z.ltb_lt in E. destruct (write_nat_spec (Z.to_N (- z))) as (c & ds & W & Hc & Hd & V).
    rewrite W, (number_chars_minus_digits c ds Hc Hd), V. f_equal. f_equal. lia.
  - apply Z.ltb_ge in E. destruct (write_nat_spec (Z.to_N z)) as (c & ds & W & Hc & Hd & V).
    rewrite W, (number_chars_digits c ds Hc Hd), V. f_equal. f_equal. lia.
Qed.

(* the reader agrees on written integers: text followed by " ." *)
Lemma at_end_dot : at_end [32; 46] = true.
Proof. reflexivity. Qed.

(* ================================================================ 0'c literals *)
Lemma char_code_entry : forall r,
  number_token (48 :: 39 :: r) = char_code r (39 :: r).
Proof. intros r. unfold number_token. cbn [int_loop length]. reflexivity. Qed.

Lemma plain_not : forall c, is_plain c = true ->
  (c =? 92) = false /\ (c =? 39) = false /\ (c =? 34) = false /\ (c =? 96) = false.
Proof.
  intros c H. repeat split; destruct (N.eqb_spec c 92), (N.eqb_spec c 39), (N.eqb_spec c 34), (N.eqb_spec c 96);
    try reflexivity; subst; discriminate H.
Qed.

Lemma char_code_plain : forall c rest, is_plain c = true ->
  number_token (48 :: 39 :: c :: rest) = TInt c rest.
Proof.
  intros c rest H. rewrite char_code_entry. destruct (plain_not c H) as (A & B & C & D).
  unfold char_code, single_quoted_char, non_quote_char. rewrite A, B, C, D, H. reflexivity.
Qed.

Lemma char_code_quote : forall rest, number_token (48 :: 39 :: 39 :: 39 :: rest) = TInt 39 rest.
Proof. intros; rewrite char_code_entry; reflexivity. Qed.
Lemma char_code_dquote : forall rest, number_token (48 :: 39 :: 34 :: rest) = TInt 34 rest.
Proof. intros; rewrite char_code_entry; reflexivity. Qed.
Lemma char_code_bquote : forall rest, number_token (48 :: 39 :: 96 :: rest) = TInt 96 rest.
Proof. intros; rewrite char_code_entry; reflexivity. Qed.

(* 0'' not followed by a third quote: the literal is 0 and both quotes stay in the input *)
Lemma char_code_quote_fallback : forall c rest, (c =? 39) = false ->
  number_token (48 :: 39 :: 39 :: c :: rest) = TInt 0 (39 :: 39 :: c :: rest).
Proof. intros c rest H. rewrite char_code_entry. unfold char_code, single_quoted_char. cbn [N.eqb Pos.eqb]. rewrite H. reflexivity. Qed.

Lemma char_code_meta : forall c rest, is_meta c = true ->
  number_token (48 :: 39 :: 92 :: c :: rest) = TInt c rest.
Proof.
  intros c rest H. rewrite char_code_entry.
  assert (C : c = 92 \/ c = 39 \/ c = 34 \/ c = 96).
  { unfold is_meta, mem in H. cbn [existsb] in H. repeat (apply orb_true_iff in H as [H|H]; [apply N.eqb_eq in H; subst; tauto|]).
    discriminate. }
  destruct C as [->|[->|[->| ->]]]; reflexivity.
Qed.

Lemma char_code_control : forall c v rest, control_escape c = Some v ->
  number_token (48 :: 39 :: 92 :: c :: rest) = TInt v rest.
Proof.
  intros c v rest H. rewrite char_code_entry. unfold control_escape in H.
  repeat match type of H with
  | (if ?c =? ?k then _ else _) = _ => destruct (N.eqb_spec c k); [subst; injection H as <-; reflexivity|]
  end. discriminate.
Qed.

Lemma hex_not_special : forall c, is_rdigit 16 c = true -> (c =? 92) = false.
Proof.
  intros c H. destruct (N.eqb_spec c 92); [subst; discriminate H | reflexivity].
Qed.

(* 0'\xH..H\ : the scalar value with that hexadecimal spelling *)
Lemma char_code_hex : forall d ds rest, rdigits 16 (d :: ds) -> valid_scalar (pos_value 16 (d :: ds)) = true ->
  number_token (48 :: 39 :: 92 :: 120 :: (d :: ds) ++ 92 :: rest) = TInt (pos_value 16 (d :: ds)) rest.
Proof.
  intros d ds rest Hd Hv. rewrite char_code_entry.
  assert (Hd0 : is_rdigit 16 d = true) by (inversion Hd; assumption).
  assert (Hspan : span (is_rdigit 16) ((d :: ds) ++ 92 :: rest) = (d :: ds, 92 :: rest)) by (apply span_app; [exact Hd | reflexivity]).
  unfold char_code. cbn [N.eqb Pos.eqb]. cbv iota.
  unfold single_quoted_char. cbn [N.eqb Pos.eqb]. cbv iota.
  change ((92 =? 34) || (92 =? 96)) with false. cbv iota.
  unfold non_quote_char. change (is_plain 92) with false. change (negb (92 =? 92)) with false. cbv iota.
  change (is_meta 120) with false. change (is_rdigit 8 120) with false. change (120 =? 120) with true. cbv iota.
  unfold esc_seq. rewrite Hspan. cbn [app]. rewrite Hd0. change (92 =? 92) with true. cbv iota.
  rewrite digits_val_pos_value, Hv. reflexivity.
Qed.

(* 0'\O..O\ : octal *)
Lemma char_code_oct : forall d ds rest, rdigits 8 (d :: ds) -> valid_scalar (pos_value 8 (d :: ds)) = true ->
  number_token (48 :: 39 :: 92 :: (d :: ds) ++ 92 :: rest) = TInt (pos_value 8 (d :: ds)) rest.
Proof.
  intros d ds rest Hd Hv. rewrite char_code_entry.
  assert (Hd0 : is_rdigit 8 d = true) by (inversion Hd; assumption).
  assert (Hspan : span (is_rdigit 8) ((d :: ds) ++ 92 :: rest) = (d :: ds, 92 :: rest)) by (apply span_app; [exact Hd | reflexivity]).
  assert (Hn : (d =? 10) = false /\ is_meta d = false).
  { unfold is_rdigit in Hd0. cbn [N.eqb Pos.eqb] in Hd0. apply andb_true_iff in Hd0 as [A B].
    apply N.leb_le in A, B.
    assert (C : d = 48 \/ d = 49 \/ d = 50 \/ d = 51 \/ d = 52 \/ d = 53 \/ d = 54 \/ d = 55) by lia.
    destruct C as [->|[->|[->|[->|[->|[->|[->| ->]]]]]]]; split; reflexivity. }
  destruct Hn as [Hn Hm].
  unfold char_code. cbn [app]. cbn [N.eqb Pos.eqb]. cbv iota. rewrite Hn.
  unfold single_quoted_char. cbn [N.eqb Pos.eqb]. cbv iota.
  change ((92 =? 34) || (92 =? 96)) with false. cbv iota.
  unfold non_quote_char. change (is_plain 92) with false. change (negb (92 =? 92)) with false. cbv iota.
  rewrite Hm, Hd0. unfold esc_seq. change (d :: ds ++ 92 :: rest) with ((d :: ds) ++ 92 :: rest).
  rewrite Hspan. change (92 =? 92) with true. cbv iota.
  rewrite digits_val_pos_value, Hv. reflexivity.
Qed.

(* ================================================================ decimal -> binary64 *)
Open Scope Z_scope.

Lemma round_qr_correct : forall q r d, 0 <= r < d ->
  2 * Z.abs ((q * d + r) - round_qr q r d * d) <= d /\
  (2 * Z.abs ((q * d + r) - round_qr q r d * d) = d -> Z.even (round_qr q r d) = true) /\
  q <= round_qr q r d <= q + 1.
Proof.
  intros q r d Hr. unfold round_qr. destruct (Z.compare_spec (2 * r) d) as [C|C|C].
  - destruct (Z.even q) eqn:E.
    + replace (q * d + r - q * d) with r by ring. repeat split; try lia. intros _; exact E.
    + replace (q * d + r - (q + 1) * d) with (r - d) by ring. repeat split; try lia.
      intros _. rewrite Z.add_1_r, Z.even_succ, <- Z.negb_even, E. reflexivity.
  - replace (q * d + r - q * d) with r by ring. repeat split; try lia.
  - replace (q * d + r - (q + 1) * d) with (r - d) by ring. repeat split; try lia.
Qed.

Lemma scaled_spec : forall num den sh,
  scaled num den sh = if 0 <=? sh then (num, den * 2 ^ sh) else (num * 2 ^ (- sh), den).
Proof.
  intros num den sh. unfold scaled. destruct (Z.leb_spec 0 sh) as [H|H].
  - rewrite Z.shiftl_mul_pow2 by lia. reflexivity.
  - rewrite Z.shiftl_mul_pow2 by lia. reflexivity.
Qed.

Definition half_ulp_ok (n d q : Z) : Prop :=
  0 < d /\ 2 * Z.abs (n - q * d) <= d /\ (2 * Z.abs (n - q * d) = d -> Z.even q = true).

Definition range_ok (q sh : Z) : Prop :=
  (2 ^ 52 <= q <= 2 ^ 53) \/ (sh = -1074 /\ 0 <= q <= 2 ^ 52).

Lemma accept_q_correct : forall q n d sh q' sh', accept_q q n d sh = Some (q', sh') ->
  sh' = sh /\ half_ulp_ok n d q' /\ range_ok q' sh.
Proof.
  intros q n d sh q' sh' H. unfold accept_q in H.
  remember (n - q * d) as r eqn:Er.
  destruct ((0 <=? r) && (r <? d) &&
            ((2 ^ 52 <=? q) && (q <? 2 ^ 53) || (sh =? -1074) && (0 <=? q) && (q <? 2 ^ 52))) eqn:C; [|discriminate].
  injection H as <- <-.
  apply andb_true_iff in C as [C R]. apply andb_true_iff in C as [C1 C2].
  apply Z.leb_le in C1. apply Z.ltb_lt in C2.
  assert (En : n = q * d + r) by (rewrite Er; ring).
  destruct (round_qr_correct q r d (conj C1 C2)) as (A & B & Rg).
  rewrite <- En in A, B.
  split; [reflexivity|]. split.
  - unfold half_ulp_ok. repeat split; try lia; assumption.
  - unfold range_ok. apply orb_true_iff in R as [R|R].
    + apply andb_true_iff in R as [R1 R2]. apply Z.leb_le in R1. apply Z.ltb_lt in R2. left. lia.
    + apply andb_true_iff in R as [R R3]. apply andb_true_iff in R as [R1 R2].
      apply Z.eqb_eq in R1. apply Z.leb_le in R2. apply Z.ltb_lt in R3. right. lia.
Qed.

Lemma try_sh_correct : forall num den sh q' sh', try_sh num den sh = Some (q', sh') ->
  sh' = sh /\ half_ulp_ok (fst (scaled num den sh)) (snd (scaled num den sh)) q' /\ range_ok q' sh.
Proof.
  intros num den sh q' sh' H. unfold try_sh in H. destruct (scaled num den sh) as [n d]. cbn [fst snd].
  exact (accept_q_correct _ _ _ _ _ _ H).
Qed.

Lemma dec_den_pos : forall e, 0 < dec_den e.
Proof.
  intros e. unfold dec_den. destruct (Z.leb_spec 0 e); [lia|]. apply Z.pow_pos_nonneg; lia.
Qed.

Lemma dec_round_correct : forall m e q sh, dec_round m e = Some (q, sh) ->
  -1074 <= sh /\
  half_ulp_ok (fst (scaled (dec_num m e) (dec_den e) sh)) (snd (scaled (dec_num m e) (dec_den e) sh)) q /\
  range_ok q sh.
Proof.
  intros m e q sh H. unfold dec_round in H.
  set (num := dec_num m e) in *. set (den := dec_den e) in *.
  set (sh0 := Z.max (Z.log2 num - Z.log2 den - 52) (-1074)) in *.
  destruct (try_sh num den sh0) as [[q1 s1]|] eqn:T1.
  - injection H as <- <-. destruct (try_sh_correct _ _ _ _ _ T1) as (-> & A & B). split; [unfold sh0; lia | split; assumption].
  - destruct (try_sh num den (Z.max (sh0 - 1) (-1074))) as [[q2 s2]|] eqn:T2.
    + injection H as <- <-. destruct (try_sh_correct _ _ _ _ _ T2) as (-> & A & B). split; [lia | split; assumption].
    + destruct (try_sh_correct _ _ _ _ _ H) as (-> & A & B). split; [unfold sh0; lia | split; assumption].
Qed.

(* the IEEE layout of the result *)
Lemma bits_of_normal : forall q sh, 2 ^ 52 <= q < 2 ^ 53 -> -1074 <= sh -> sh + 1075 < 2047 ->
  bits_of q sh = FBits ((sh + 1075) * 2 ^ 52 + (q - 2 ^ 52)).
Proof.
  intros q sh Hq Hs He. unfold bits_of, inf_bits.
  destruct (Z.leb_spec (2047 * 2 ^ 52) ((sh + 1074) * 2 ^ 52 + q)) as [H|H].
  - exfalso. nia.
  - f_equal. ring.
Qed.

Lemma bits_of_subnormal : forall q, 0 <= q < 2 ^ 52 -> bits_of q (-1074) = FBits q.
Proof.
  intros q Hq. unfold bits_of, inf_bits. change (-1074 + 1074) with 0. rewrite Z.mul_0_l, Z.add_0_l.
  destruct (Z.leb_spec (2047 * 2 ^ 52) q) as [H|H]; [exfalso; nia | reflexivity].
Qed.

Lemma dec_fraction : forall m e,
  (0 <= e -> dec_num m e = m * 10 ^ e /\ dec_den e = 1) /\
  (e < 0 -> dec_num m e = m /\ dec_den e = 10 ^ (- e)).
Proof.
  intros m e. unfold dec_num, dec_den. destruct (Z.leb_spec 0 e); split; intros; try lia; split; reflexivity.
Qed.

(* num/den = m * 10^e exactly; the result q * 2^sh is within half a unit in the last place of it, ties to even,
   q has 53 bits (or fewer only at the smallest exponent), written without division *)
Definition correctly_rounded (num den q sh : Z) : Prop :=
  0 < den /\ -1074 <= sh /\
  (0 <= sh -> 2 * Z.abs (num - q * (den * 2 ^ sh)) <= den * 2 ^ sh /\
              (2 * Z.abs (num - q * (den * 2 ^ sh)) = den * 2 ^ sh -> Z.even q = true)) /\
  (sh < 0 -> 2 * Z.abs (num * 2 ^ (- sh) - q * den) <= den /\
             (2 * Z.abs (num * 2 ^ (- sh) - q * den) = den -> Z.even q = true)) /\
  ((2 ^ 52 <= q <= 2 ^ 53) \/ (sh = -1074 /\ 0 <= q <= 2 ^ 52)).

Lemma dec_round_explicit : forall m e q sh, dec_round m e = Some (q, sh) ->
  correctly_rounded (dec_num m e) (dec_den e) q sh.
Proof.
  intros m e q sh H. destruct (dec_round_correct m e q sh H) as (A & B & C).
  rewrite scaled_spec in B. unfold correctly_rounded.
  split; [apply dec_den_pos|]. split; [exact A|].
  destruct (Z.leb_spec 0 sh) as [Hs|Hs]; cbn [fst snd] in B; destruct B as (B1 & B2 & B3).
  - split; [intros _; split; assumption|]. split; [intros; lia | exact C].
  - split; [intros; lia|]. split; [intros _; split; assumption | exact C].
Qed.

(* ================================================================ statements collected for Props.v *)
Close Scope Z_scope.
Lemma radix_literal_exact_all :
  (forall r d ds rest, radix_ok r -> rdigits r (d :: ds) -> rstop r rest ->
     number_token (48 :: radix_char r :: (d :: ds) ++ rest) = TInt (pos_value r (d :: ds)) rest) /\
  (forall c ds rest, is_digit c = true -> all_digits ds -> dec_stop (c :: ds) rest ->
     number_token (c :: ds ++ rest) = TInt (pos_value 10 (c :: ds)) rest) /\
  (forall c ds, is_digit c = true -> all_digits ds ->
     number_chars_model (c :: ds) = MNum (NInt (Z.of_N (pos_value 10 (c :: ds))))) /\
  (forall r c rest, radix_ok r -> is_rdigit r c = false ->
     number_token (48 :: radix_char r :: c :: rest) = TInt 0 (radix_char r :: c :: rest)).
Proof.
  exact (conj radix_literal (conj decimal_literal (conj number_chars_digits radix_fallback))).
Qed.

Lemma char_code_literal_exact_all :
  (forall c rest, is_plain c = true -> number_token (48 :: 39 :: c :: rest) = TInt c rest) /\
  (forall rest, number_token (48 :: 39 :: 39 :: 39 :: rest) = TInt 39 rest) /\
  (forall rest, number_token (48 :: 39 :: 34 :: rest) = TInt 34 rest) /\
  (forall rest, number_token (48 :: 39 :: 96 :: rest) = TInt 96 rest) /\
  (forall c rest, is_meta c = true -> number_token (48 :: 39 :: 92 :: c :: rest) = TInt c rest) /\
  (forall c v rest, control_escape c = Some v -> number_token (48 :: 39 :: 92 :: c :: rest) = TInt v rest) /\
  (forall d ds rest, rdigits 16 (d :: ds) -> valid_scalar (pos_value 16 (d :: ds)) = true ->
     number_token (48 :: 39 :: 92 :: 120 :: (d :: ds) ++ 92 :: rest) = TInt (pos_value 16 (d :: ds)) rest) /\
  (forall d ds rest, rdigits 8 (d :: ds) -> valid_scalar (pos_value 8 (d :: ds)) = true ->
     number_token (48 :: 39 :: 92 :: (d :: ds) ++ 92 :: rest) = TInt (pos_value 8 (d :: ds)) rest).
Proof.
  exact (conj char_code_plain (conj char_code_quote (conj char_code_dquote (conj char_code_bquote
        (conj char_code_meta (conj char_code_control (conj char_code_hex char_code_oct))))))).
Qed.

Lemma float_bits_layout :
  (forall q sh, (2 ^ 52 <= q < 2 ^ 53 -> -1074 <= sh -> sh + 1075 < 2047 ->
     bits_of q sh = FBits ((sh + 1075) * 2 ^ 52 + (q - 2 ^ 52)))%Z) /\
  (forall q, (0 <= q < 2 ^ 52)%Z -> bits_of q (-1074) = FBits q).
Proof. split; [exact bits_of_normal | exact bits_of_subnormal]. Qed.

