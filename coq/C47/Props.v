(* C47 -- pinned theorems (nothing else lives here).  They say that, in the reference reading of pio.pl, the
   lazily materialised list is the list of the file's characters whatever the chunk size; how the real
   attributed-variable machinery behaves is established differentially by checks/C47.py. *)
From Coq Require Import List NArith Arith.
From V Require Import C47.Model C47.Proofs.
Import ListNotations.

(* forcing a lazy list built from any sequence of chunks yields their concatenation *)
Theorem lazy_list_is_list : forall chunks, to_list (lazy_of_chunks chunks) = concat chunks.
Proof. exact to_list_chunks. Qed.
Print Assumptions lazy_list_is_list.

(* reading a text with get_n_chars in chunks of any size n >= 1 and forcing everything yields the text *)
Theorem chunk_size_irrelevant : forall n cs, (1 <= n)%nat -> to_list (lazy_of_text n cs) = cs.
Proof. intros n cs H. unfold lazy_of_text. rewrite to_list_chunks. apply concat_chunks_of; auto. Qed.
Print Assumptions chunk_size_irrelevant.

(* a recogniser, being a function of the list, cannot tell the forced lazy list from the list *)
Theorem phrase_on_lazy_eq : forall (A : Type) (g : list N -> option (A * list N)) chunks,
  g (to_list (lazy_of_chunks chunks)) = g (concat chunks).
Proof. intros A g chunks. rewrite to_list_chunks. reflexivity. Qed.
Print Assumptions phrase_on_lazy_eq.

(* every chunk a read delivers is non-empty and at most n characters long *)
Theorem chunks_wellformed : forall n cs, (1 <= n)%nat ->
  Forall (fun c => c <> [] /\ (length c <= n)%nat) (chunks_of (length cs) n cs).
Proof.
  intros n cs H. pose proof (chunks_nonempty n H (length cs) cs) as A. pose proof (chunks_size n (length cs) cs) as B.
  induction (chunks_of (length cs) n cs) as [|c r IH]; constructor; inversion A; inversion B; subst; auto.
Qed.
Print Assumptions chunks_wellformed.

Example ex_lazy : to_list (lazy_of_text 2 [1; 2; 3; 4; 5]%N) = [1; 2; 3; 4; 5]%N /\ chunks_of 5 2 [1; 2; 3; 4; 5]%N = [[1; 2]; [3; 4]; [5]]%N.
Proof. vm_compute. auto. Qed.
