(* C47 -- pinned theorems (nothing else lives here).
   Part 1 (reference reading of pio.pl): the lazily materialised list is the list of the file's characters whatever
   the chunk size.
   Part 2 (impl-mirror Pio.v of the clauses of pio.pl: stream + blackboard + suspensions with their saved Pos, both
   for reposition(true) and reposition(false)): for every content, every chars_to_read > 0 and every script of
   demands and backtracking steps the consumer sees exactly the content; re-forcing after backtracking yields the
   same cells (and would not without the saved position); any parser gives the answers it gives on the plain list;
   the number of reads is bounded.  checks/C47.py ties the mirror to the implementation (positions read so far). *)
From Coq Require Import List NArith Arith.
From V Require Import C47.Model C47.Proofs C47.Pio C47.PioProofs Gen.PioParams.
Import ListNotations.
Open Scope nat_scope.

(* forcing a lazy list built from any sequence of chunks yields their concatenation *)
Theorem lazy_list_is_list : forall chunks, to_list (lazy_of_chunks chunks) = concat chunks.
Proof. exact to_list_chunks. Qed.
Print Assumptions lazy_list_is_list.

(* reading a text with get_n_chars in chunks of any size n >= 1 and forcing everything yields the text *)
Theorem chunk_size_irrelevant : forall n cs, (1 <= n)%nat -> to_list (lazy_of_text n cs) = cs.
Proof. intros n cs H. unfold lazy_of_text. rewrite to_list_chunks. apply concat_chunks_of; auto. Qed.
Print Assumptions chunk_size_irrelevant.

(* a recogniser, being a function of the list, cannot tell the forced lazy list from the list *)
Theorem phrase_on_lazy_eq : forall (A : Type) (g : list N -> option (A * list N)) chunks,
  g (to_list (lazy_of_chunks chunks)) = g (concat chunks).
Proof. intros A g chunks. rewrite to_list_chunks. reflexivity. Qed.
Print Assumptions phrase_on_lazy_eq.

(* every chunk a read delivers is non-empty and at most n characters long *)
Theorem chunks_wellformed : forall n cs, (1 <= n)%nat ->
  Forall (fun c => c <> [] /\ (length c <= n)%nat) (chunks_of (length cs) n cs).
Proof.
  intros n cs H. pose proof (chunks_nonempty n H (length cs) cs) as A. pose proof (chunks_size n (length cs) cs) as B.
  induction (chunks_of (length cs) n cs) as [|c r IH]; constructor; inversion A; inversion B; subst; auto.
Qed.
Print Assumptions chunks_wellformed.

Example ex_lazy : to_list (lazy_of_text 2 [1; 2; 3; 4; 5]%N) = [1; 2; 3; 4; 5]%N /\ chunks_of 5 2 [1; 2; 3; 4; 5]%N = [[1; 2]; [3; 4]; [5]]%N.
Proof. vm_compute. auto. Qed.

(* ================================================================== Part 2: the impl-mirror (Pio.v) *)

(* Whatever the consumer did before (any script of demands and backtracking steps), for both kinds of stream:
   what is materialised is a prefix of the content (all of it once the list is closed); asking for cell i answers
   the i-th character of the content; asking for the first k cells in turn answers firstn k content; asking for the
   cell behind the last answers "end", and then the whole content is materialised and the list is closed with []. *)
Theorem forced_list_is_content : forall (rp : bool) (n : nat) (cs : list N) (ops : list op), 0 < n ->
  let st := reach rp n cs ops in
  lmat (st_l st) = firstn (length (lmat (st_l st))) cs /\
  (lclosed (st_l st) = true -> lmat (st_l st) = cs) /\
  (forall i, fst (demand true rp n i st) = nth_error cs i) /\
  (forall k, k <= length cs -> script_answers true rp n (map ODemand (seq 0 k)) st = map (@Some N) (firstn k cs)) /\
  (let st' := snd (demand true rp n (length cs) st) in
   fst (demand true rp n (length cs) st) = None /\ lmat (st_l st') = cs /\ lclosed (st_l st') = true).
Proof. exact forced_list_is_content_l. Qed.
Print Assumptions forced_list_is_content.

(* chunk size and kind of stream are irrelevant: forcing everything gives the same list, every script gets the
   answers nth_error content, and two scripts asking for the same cells get the same answers *)
Theorem mirror_chunk_size_irrelevant : forall (rp1 rp2 : bool) (n1 n2 : nat) (cs : list N) (ops1 ops2 : list op), 0 < n1 -> 0 < n2 ->
  lmat (st_l (force_all rp1 n1 cs)) = lmat (st_l (force_all rp2 n2 cs)) /\
  script_answers true rp1 n1 ops1 (st_init rp1 cs) = map (nth_error cs) (demanded ops1) /\
  (demanded ops1 = demanded ops2 ->
   script_answers true rp1 n1 ops1 (st_init rp1 cs) = script_answers true rp2 n2 ops2 (st_init rp2 cs)).
Proof. exact chunk_size_irrelevant_l. Qed.
Print Assumptions mirror_chunk_size_irrelevant.

(* after backtracking over the j-th suspension (with anything forced before and after), the suspensions that are
   forced again are bound to the same cells as before, and every demand is answered as before *)
Theorem backtracking_reforce_same : forall (rp : bool) (n : nat) (cs : list N) (ops1 ops2 : list op) (j : nat), 0 < n ->
  let st1 := reach rp n cs ops1 in
  let st2 := reach rp n cs (ops1 ++ OUndo j :: ops2) in
  (forall k e1 e2, nth_error (l_cells (st_l st1)) k = Some e1 -> nth_error (l_cells (st_l st2)) k = Some e2 -> e1 = e2) /\
  (forall i, fst (demand true rp n i st1) = fst (demand true rp n i st2)) /\
  script_answers true rp n (ops1 ++ OUndo j :: ops2) (st_init rp cs) = map (nth_error cs) (demanded (ops1 ++ OUndo j :: ops2)).
Proof. exact backtracking_reforce_same_l. Qed.
Print Assumptions backtracking_reforce_same.

(* ... and this is what the saved Pos and set_stream_position/2 are for: without that call the script
   "cell 0, cell 2, backtrack to the start, cell 0" on "1234" read in twos answers end-of-list for the last demand *)
Theorem backtracking_reforce_same_refuted :
  script_answers false true 2 refute_script (st_init true refute_content) = [Some 1%N; Some 3%N; None] /\
  script_answers true true 2 refute_script (st_init true refute_content) = [Some 1%N; Some 3%N; Some 1%N] /\
  script_answers false true 2 refute_script (st_init true refute_content) <> map (nth_error refute_content) (demanded refute_script).
Proof. exact backtracking_reforce_same_refuted_l. Qed.
Print Assumptions backtracking_reforce_same_refuted.

(* any parser written against the list interface (ask for cell i, choice points, probes), started in any reachable
   state: all its solutions (findall) and its first solution (once) on the lazy list are those on the plain list *)
Theorem phrase_lazy_eq_phrase_list : forall (A : Type) (p : parser A) (rp : bool) (n : nat) (cs : list N) (ops : list op) (log : list (nat * nat)),
  0 < n ->
  fst (run_lazy true rp n p (mkP (reach rp n cs ops) log)) = run_list cs p /\
  fst (run_lazy1 true rp n p (mkP (reach rp n cs ops) log)) = run_list1 cs p.
Proof. exact phrase_lazy_eq_phrase_list_l. Qed.
Print Assumptions phrase_lazy_eq_phrase_list.

(* reposition(true): a parser without choice points that only asks for cells below k causes at most ceil(k/n)
   get_n_chars calls (so at most ceil(k/n)+1) *)
Theorem stops_early_reads_bounded : forall (A : Type) (p : parser A) (k n : nat) (cs : list N), 0 < n -> det_below k p ->
  n_reads (p_st (snd (run_lazy true true n p (mkP (st_init true cs) [])))) <= ceil_div k n /\
  n_reads (p_st (snd (run_lazy1 true true n p (mkP (st_init true cs) [])))) <= ceil_div k n.
Proof. exact stops_early_reads_bounded_l. Qed.
Print Assumptions stops_early_reads_bounded.

(* reposition(false): ANY parser (backtracking included: the buffer is never re-read) that only asks for cells below k
   causes at most ceil(k/n)+1 get_n_chars calls, and the buffer invariant holds at the end *)
Theorem buffered_reads_bounded : forall (A : Type) (p : parser A) (k n : nat) (cs : list N), 0 < n -> gets_below k p ->
  let st := p_st (snd (run_lazy true false n p (mkP (st_init false cs) []))) in
  let st1 := p_st (snd (run_lazy1 true false n p (mkP (st_init false cs) []))) in
  n_reads st <= ceil_div k n + 1 /\ buffer_inv cs (st_m st) /\
  n_reads st1 <= ceil_div k n + 1 /\ buffer_inv cs (st_m st1).
Proof. exact buffered_reads_bounded_l. Qed.
Print Assumptions buffered_reads_bounded.

(* reposition(false), after any script: Buffer = the first BufferLen characters of the content, BufferLen = its length =
   the stream position, a closed buffer is the whole content, and BufferPos <= BufferLen or BufferPos = eof *)
Theorem buffer_invariant : forall (n : nat) (cs : list N) (ops : list op), 0 < n ->
  buffer_inv cs (st_m (reach false n cs ops)).
Proof. exact buffer_invariant_l. Qed.
Print Assumptions buffer_invariant.

(* the evaluator used by checks/C47.py (a cursor instead of an index) computes exactly the mirror's run *)
Theorem run_fast_is_run_lazy : forall (A : Type) (p : parser A) (rp : bool) (n : nat) (cs : list N), 0 < n ->
  run_lazy true rp n p (mkP (st_init rp cs) []) =
    (fst (run_fast true rp n p (f_init rp cs)), f_ps (snd (run_fast true rp n p (f_init rp cs)))) /\
  fst (run_fast true rp n p (f_init rp cs)) = run_list cs p.
Proof. exact run_fast_is_run_lazy_l. Qed.
Print Assumptions run_fast_is_run_lazy.

(* the theorems apply to the constant regenerated from pio.pl *)
Theorem chars_to_read_positive : 0 < N.to_nat chars_to_read.
Proof. vm_compute. apply Nat.lt_0_succ. Qed.
Print Assumptions chars_to_read_positive.

(* non-vacuity: parsers satisfying the hypotheses exist, and the bounds are attained *)
Example ex_det_below : det_below 3 (PGet 0%N (fun a => PGet 2%N (fun b => PRet (a, b)))).
Proof. cbn. repeat split; auto. Qed.
Example ex_reads_true : n_reads (p_st (snd (run_lazy true true 2 (PGet 0%N (fun a => PGet 2%N (fun b => PRet (a, b)))) (mkP (st_init true [1; 2; 3; 4; 5]%N) [])))) = ceil_div 3 2.
Proof. vm_compute. reflexivity. Qed.
Example ex_gets_below : gets_below 3 (POr (PGet 2%N (fun _ => @PFail nat)) (PGet 0%N (fun _ => PRet 7))).
Proof. cbn. repeat split; auto. Qed.
Example ex_reads_false : n_reads (p_st (snd (run_lazy true false 2 (POr (PGet 2%N (fun _ => @PFail nat)) (PGet 0%N (fun _ => PRet 7))) (mkP (st_init false [1; 2; 3; 4; 5]%N) [])))) = 2.
Proof. vm_compute. reflexivity. Qed.
Example ex_grammar_alt : o_sols (run_case true 2 4 [1; 120; 121; 120; 122]%N) = [[3; 4802]%N] /\ o_reads (run_case true 2 4 [1; 120; 121; 120; 122]%N) <> o_reads (run_case false 2 4 [1; 120; 121; 120; 122]%N).
Proof. vm_compute. split; [reflexivity|discriminate]. Qed.
