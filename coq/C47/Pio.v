(* C47 -- impl-mirror of the reading machinery of library(pio) (src/lib/pio.pl), clause by clause, as an
   executable state machine.  Definitions only; the proofs are in PioProofs.v.

   What is a state:
     stream  = the characters of the file, the current position (counted in characters), and a log of the
               get_n_chars/3 calls made so far (position before the call, number of characters delivered);
     bb      = the three blackboard cells that stream_bufferids/4 allocates for a stream without reposition:
               Buffer (a partial string: the characters read so far, and whether its tail was closed with []),
               BufferPos (an integer or the atom eof) and BufferLen;
     llist   = the lazily materialised list Ls of stream_to_lazy_list/3: the suspensions that were forced so far,
               each with the Pos argument saved in its goal render_step(Reposition, Stream, Pos, Ls) and the
               characters it was bound to, and the state of the last tail (still frozen, or bound to []).
   What is NOT modelled: how freeze/2 wakes the goal (attributed variables, the trail) -- forcing is an explicit
   operation here, and backtracking is the explicit operation [unforce] which un-binds the j-th suspension and all
   later ones while leaving the stream and the blackboard as they are (they are not backtrackable in the
   implementation either); stream positions are byte offsets in the implementation and character counts here. *)
From Coq Require Import List NArith Arith Bool.
Import ListNotations.

(* ------------------------------------------------------------------ the stream *)
Record stream := mkS { s_content : list N; s_pos : nat; s_reads : list (nat * nat); s_seeks : nat }.

(* at_end_of_stream/1 *)
Definition at_end_of_stream (s : stream) : bool := length (s_content s) <=? s_pos s.

(* get_n_chars/3 with an integer N: min(N, remaining) characters, the position advances past them *)
Definition get_n_chars (n : nat) (s : stream) : list N * stream :=
  let cs := firstn n (skipn (s_pos s) (s_content s)) in
  (cs, mkS (s_content s) (s_pos s + length cs) ((s_pos s, length cs) :: s_reads s) (s_seeks s)).

(* set_stream_position/2 (stream_property(S, position(P)) is s_pos); s_seeks counts the calls *)
Definition set_stream_position (s : stream) (p : nat) : stream := mkS (s_content s) p (s_reads s) (S (s_seeks s)).

(* ------------------------------------------------------------------ positions saved in suspensions *)
Inductive pos := PNum (p : nat) | PEof.      (* an integer, or the atom eof (reposition(false) only) *)

(* ------------------------------------------------------------------ the blackboard cells of stream_bufferids/4 *)
Record bb := mkB { b_buf : list N; b_closed : bool; b_pos : pos; b_len : nat }.

(* bb_put(BufferId, _), bb_put(BufferPosId, 0), bb_put(BufferLenId, 0) *)
Definition bb_init : bb := mkB [] false (PNum 0) 0.

Record mstate := mkM { m_s : stream; m_bb : bb }.

Definition m_init (content : list N) : mstate := mkM (mkS content 0 [] 0) bb_init.

Definition with_bpos (b : bb) (p : pos) : bb := mkB (b_buf b) (b_closed b) p (b_len b).

(* ------------------------------------------------------------------ the clauses of pio.pl; rp = Reposition *)

(* buffer_at_end_of_stream/2 *)
Definition buffer_at_end_of_stream (rp : bool) (m : mstate) : bool :=
  if rp then at_end_of_stream (m_s m)
  else match b_pos (m_bb m) with PEof => true | PNum _ => false end.

(* get_stream_buffer_position/3 *)
Definition get_stream_buffer_position (rp : bool) (m : mstate) : pos :=
  if rp then PNum (s_pos (m_s m)) else b_pos (m_bb m).

(* set_stream_buffer_position/3 *)
Definition set_stream_buffer_position (rp : bool) (m : mstate) (p : pos) : mstate :=
  if rp then match p with
             | PNum q => mkM (set_stream_position (m_s m) q) (m_bb m)
             | PEof => m                                     (* never produced for reposition(true) *)
             end
  else mkM (m_s m) (with_bpos (m_bb m) p).

(* string_get_n_chars/4: skip Pos characters of the buffer, take at most N *)
Definition string_get_n_chars (buf : list N) (p n : nat) : list N := firstn n (skipn p buf).

(* buffer_prepare_for_n/5.  ctr = chars_to_read.  The clause is recursive; the recursion reads at least one
   character per round, so the number of unread characters (+1) bounds it: fuel is that measure. *)
Fixpoint buffer_prepare_for_n (fuel n ctr : nat) (m : mstate) : mstate :=
  match fuel with
  | O => m
  | S f =>
    let b := m_bb m in
    match b_pos b with
    | PEof => m                                              (* not reached: render_step tests eof first *)
    | PNum bp =>
      if b_len b <? bp + n then
        if b_closed b then m                                 (* partial_string_last_tail/2 fails: ( ... -> ... ; true ) *)
        else if at_end_of_stream (m_s m) then
          mkM (m_s m) (mkB (b_buf b) true (b_pos b) (b_len b))             (* BufferTail = [] *)
        else
          let (cs, s') := get_n_chars ctr (m_s m) in
          buffer_prepare_for_n f n ctr
            (mkM s' (mkB (b_buf b ++ cs) false (b_pos b) (b_len b + length cs)))
      else m
    end
  end.

Definition prepare_fuel (m : mstate) : nat := S (length (s_content (m_s m)) - s_pos (m_s m)).

(* buffer_get_n_chars/4 *)
Definition buffer_get_n_chars (rp : bool) (n ctr : nat) (m : mstate) : list N * mstate :=
  if rp then
    let (cs, s') := get_n_chars n (m_s m) in (cs, mkM s' (m_bb m))
  else
    let m1 := buffer_prepare_for_n (prepare_fuel m) n ctr m in
    let b := m_bb m1 in
    match b_pos b with
    | PEof => ([], m1)
    | PNum bp =>
      let cs := string_get_n_chars (b_buf b) bp n in
      let bp1 := match length cs with O => PEof | _ => PNum (bp + length cs) end in
      (cs, mkM (m_s m1) (with_bpos b bp1))
    end.

(* render_step/4 up to the binding of Ls: None = "Ls = []", Some cs = "partial_string(Chars, Ls, Ls0)" together with
   the Pos that stream_to_lazy_list/3 saves in the suspension on Ls0.
   [restore = true] is the implementation; [restore = false] drops the set_stream_buffer_position/3 call (used only
   to show that the saved position is what makes re-forcing after backtracking sound). *)
Definition render_step (restore rp : bool) (ctr : nat) (p : pos) (m : mstate) : option (list N) * pos * mstate :=
  let m1 := if restore then set_stream_buffer_position rp m p else m in
  if buffer_at_end_of_stream rp m1 then (None, p, m1)
  else
    let (cs, m2) := buffer_get_n_chars rp ctr ctr m1 in
    (Some cs, get_stream_buffer_position rp m2, m2).

(* ------------------------------------------------------------------ the lazy list *)
Inductive ltail :=
| TSusp (p : pos)          (* unbound, frozen: freeze(Ls, render_step(Reposition, Stream, p, Ls)) *)
| TNil (p : pos).          (* that suspension ran and bound Ls to [] *)

Record llist := mkL { l_cells : list (pos * list N); l_tail : ltail }.

Definition tail_pos (t : ltail) : pos := match t with TSusp p => p | TNil p => p end.

(* the characters materialised so far *)
Definition lmat (l : llist) : list N := concat (map snd (l_cells l)).

Definition lclosed (l : llist) : bool := match l_tail l with TNil _ => true | TSusp _ => false end.

(* stream_to_lazy_list/3 on a fresh Ls *)
Definition l_init (rp : bool) (m : mstate) : llist := mkL [] (TSusp (get_stream_buffer_position rp m)).

(* Forcing the suspension with saved position p because the consumer needs the cell at offset [need] behind it:
   render_step runs; when the characters delivered do not reach that cell the consumer walks on and binds the next
   suspension, and so on.  (An empty Chars makes Ls0 the already bound Ls, and freeze/2 on a bound term runs the goal
   at once: the same continuation.)  Each round but at most two delivers a character, hence the fuel in [demand]. *)
Fixpoint unfold (fuel : nat) (restore rp : bool) (ctr need : nat) (p : pos) (m : mstate)
  : list (pos * list N) * ltail * mstate :=
  match fuel with
  | O => ([], TSusp p, m)
  | S f =>
    match render_step restore rp ctr p m with
    | (None, _, m1) => ([], TNil p, m1)
    | (Some cs, p', m2) =>
      if need <? length cs then ([(p, cs)], TSusp p', m2)
      else let '(es, t, m3) := unfold f restore rp ctr (need - length cs) p' m2 in ((p, cs) :: es, t, m3)
    end
  end.

Record lstate := mkSt { st_l : llist; st_m : mstate }.

Definition st_init (rp : bool) (content : list N) : lstate :=
  let m := m_init content in mkSt (l_init rp m) m.

(* The consumer asks for the cell with index i of the list: Some c, or None when the list ends before it. *)
Definition demand (restore rp : bool) (ctr i : nat) (st : lstate) : option N * lstate :=
  let l := st_l st in
  let mat := lmat l in
  if i <? length mat then (nth_error mat i, st)
  else match l_tail l with
       | TNil _ => (None, st)
       | TSusp p =>
         let need := i - length mat in
         let '(es, t, m') := unfold (S (S need)) restore rp ctr need p (st_m st) in
         let l' := mkL (l_cells l ++ es) t in
         (nth_error (lmat l') i, mkSt l' m')
       end.

(* Backtracking to a choice point that was created when j suspensions had been forced: the bindings of the later
   ones are undone (they are frozen again, with the goal and its saved Pos they had); stream and blackboard stay. *)
Definition unforce_l (j : nat) (l : llist) : llist :=
  match nth_error (l_cells l) j with
  | Some (p, _) => mkL (firstn j (l_cells l)) (TSusp p)
  | None => if j =? length (l_cells l) then mkL (l_cells l) (TSusp (tail_pos (l_tail l))) else l
  end.

Definition unforce (j : nat) (st : lstate) : lstate := mkSt (unforce_l j (st_l st)) (st_m st).

(* ------------------------------------------------------------------ scripts: what a consumer may do *)
Inductive op := ODemand (i : nat) | OUndo (j : nat).

Definition step (restore rp : bool) (ctr : nat) (st : lstate) (o : op) : lstate :=
  match o with
  | ODemand i => snd (demand restore rp ctr i st)
  | OUndo j => unforce j st
  end.

Definition run_script (restore rp : bool) (ctr : nat) (ops : list op) (st : lstate) : lstate :=
  fold_left (step restore rp ctr) ops st.

(* the answers to the demands of a script, in order *)
Fixpoint script_answers (restore rp : bool) (ctr : nat) (ops : list op) (st : lstate) : list (option N) :=
  match ops with
  | [] => []
  | ODemand i :: r => let (x, st') := demand restore rp ctr i st in x :: script_answers restore rp ctr r st'
  | OUndo j :: r => script_answers restore rp ctr r (unforce j st)
  end.

(* forcing everything: ask for the cell behind the last one *)
Definition force_all (rp : bool) (ctr : nat) (content : list N) : lstate :=
  snd (demand true rp ctr (length content) (st_init rp content)).

(* ------------------------------------------------------------------ parsers against the abstract list interface *)
(* A parser is a strategy: it stops with an answer, fails, asks for the cell with index i and continues with the
   reply, offers an alternative (a choice point: on failure of the first branch -- and, when all solutions are
   collected, after its solutions -- the bindings made since are undone and the second branch runs), or looks at
   the stream position (a probe: it does not influence the parse). *)
Inductive parser (A : Type) :=
| PRet (a : A)
| PFail
| PGet (i : N) (k : option N -> parser A)
| POr (p q : parser A)
| PProbe (p : parser A).
Arguments PRet {A} a.
Arguments PFail {A}.
Arguments PGet {A} i k.
Arguments POr {A} p q.
Arguments PProbe {A} p.

(* all solutions on an ordinary list: phrase/2 under findall/3 *)
Fixpoint run_list {A} (cs : list N) (p : parser A) : list A :=
  match p with
  | PRet a => [a]
  | PFail => []
  | PGet i k => run_list cs (k (nth_error cs (N.to_nat i)))
  | POr p q => run_list cs p ++ run_list cs q
  | PProbe p => run_list cs p
  end.

(* first solution on an ordinary list: once(phrase/2) *)
Fixpoint run_list1 {A} (cs : list N) (p : parser A) : option A :=
  match p with
  | PRet a => Some a
  | PFail => None
  | PGet i k => run_list1 cs (k (nth_error cs (N.to_nat i)))
  | POr p q => match run_list1 cs p with Some a => Some a | None => run_list1 cs q end
  | PProbe p => run_list1 cs p
  end.

(* the position a probe sees: stream_property(S, position(P)) *)
Definition probe_pos (st : lstate) : nat := s_pos (m_s (st_m st)).

(* The log of distinct consecutive positions seen by the probes.  Each entry carries the number of seeks and reads made
   when it was taken: while that number is unchanged the position is unchanged and need not be compared. *)
Definition probe_key (st : lstate) : nat := s_seeks (m_s (st_m st)) + length (s_reads (m_s (st_m st))).

Definition log_probe (st : lstate) (log : list (nat * nat)) : list (nat * nat) :=
  match log with
  | (k, x) :: r => if k =? probe_key st then log
                   else if x =? probe_pos st then (probe_key st, x) :: r
                   else (probe_key st, probe_pos st) :: log
  | [] => [(probe_key st, probe_pos st)]
  end.

Record pstate := mkP { p_st : lstate; p_log : list (nat * nat) }.

(* all solutions on the lazy list *)
Fixpoint run_lazy {A} (restore rp : bool) (ctr : nat) (p : parser A) (ps : pstate) : list A * pstate :=
  match p with
  | PRet a => ([a], ps)
  | PFail => ([], ps)
  | PGet i k => let (x, st') := demand restore rp ctr (N.to_nat i) (p_st ps) in run_lazy restore rp ctr (k x) (mkP st' (p_log ps))
  | POr p q =>
    let mark := length (l_cells (st_l (p_st ps))) in
    let (xs, ps1) := run_lazy restore rp ctr p ps in
    let (ys, ps2) := run_lazy restore rp ctr q (mkP (unforce mark (p_st ps1)) (p_log ps1)) in
    (xs ++ ys, ps2)
  | PProbe p => run_lazy restore rp ctr p (mkP (p_st ps) (log_probe (p_st ps) (p_log ps)))
  end.

(* first solution on the lazy list *)
Fixpoint run_lazy1 {A} (restore rp : bool) (ctr : nat) (p : parser A) (ps : pstate) : option A * pstate :=
  match p with
  | PRet a => (Some a, ps)
  | PFail => (None, ps)
  | PGet i k => let (x, st') := demand restore rp ctr (N.to_nat i) (p_st ps) in run_lazy1 restore rp ctr (k x) (mkP st' (p_log ps))
  | POr p q =>
    let mark := length (l_cells (st_l (p_st ps))) in
    match run_lazy1 restore rp ctr p ps with
    | (Some a, ps1) => (Some a, ps1)
    | (None, ps1) => run_lazy1 restore rp ctr q (mkP (unforce mark (p_st ps1)) (p_log ps1))
    end
  | PProbe p => run_lazy1 restore rp ctr p (mkP (p_st ps) (log_probe (p_st ps) (p_log ps)))
  end.

(* a parser that never offers an alternative and only asks for cells with an index below k *)
Fixpoint det_below {A} (k : nat) (p : parser A) : Prop :=
  match p with
  | PRet _ => True
  | PFail => True
  | PGet i f => N.to_nat i < k /\ forall x, det_below k (f x)
  | POr _ _ => False
  | PProbe p => det_below k p
  end.

(* any parser, asking only for cells with an index below k *)
Fixpoint gets_below {A} (k : nat) (p : parser A) : Prop :=
  match p with
  | PRet _ => True
  | PFail => True
  | PGet i f => N.to_nat i < k /\ forall x, gets_below k (f x)
  | POr p q => gets_below k p /\ gets_below k q
  | PProbe p => gets_below k p
  end.

Definition n_reads (st : lstate) : nat := length (s_reads (m_s (st_m st))).

(* ceil(k / n) *)
Definition ceil_div (k n : nat) : nat := (k + n - 1) / n.

(* the buffer invariant of reposition(false) *)
Definition buffer_inv (content : list N) (m : mstate) : Prop :=
  s_content (m_s m) = content /\
  b_buf (m_bb m) = firstn (b_len (m_bb m)) content /\
  b_len (m_bb m) = length (b_buf (m_bb m)) /\
  s_pos (m_s m) = b_len (m_bb m) /\
  (b_closed (m_bb m) = true -> b_len (m_bb m) = length content) /\
  match b_pos (m_bb m) with PNum bp => bp <= b_len (m_bb m) | PEof => True end.

(* ================================================================== evaluation for the correspondence *)
(* [run_fast] is [run_lazy] with a finger: the cursor a DCG keeps is a pointer into the list, not an index, and it is
   restored on backtracking; here it is the pair (index b, known characters from b on) together with the cached length
   of the materialised list.  PioProofs.run_fast_eq proves that answers, state and probe log are those of run_lazy. *)
Record fstate := mkF { f_ps : pstate; f_b : N; f_suf : list N; f_ml : N }.

Definition fdemand_slow (restore rp : bool) (ctr : nat) (i : N) (fs : fstate) : option N * fstate :=
  let (x, st') := demand restore rp ctr (N.to_nat i) (p_st (f_ps fs)) in
  let mat := lmat (st_l st') in
  (x, mkF (mkP st' (p_log (f_ps fs))) i (skipn (N.to_nat i) mat) (N.of_nat (length mat))).

Definition fdemand (restore rp : bool) (ctr : nat) (i : N) (fs : fstate) : option N * fstate :=
  if (N.leb (f_b fs) i) && (N.ltb i (f_ml fs)) then
    match skipn (N.to_nat (i - f_b fs)) (f_suf fs) with
    | x :: r => (Some x, mkF (f_ps fs) i (x :: r) (f_ml fs))
    | [] => fdemand_slow restore rp ctr i fs
    end
  else fdemand_slow restore rp ctr i fs.

Definition funforce (mark : nat) (saved fs : fstate) : fstate :=
  let st := p_st (f_ps fs) in
  let st' := unforce mark st in
  let ml := if mark <? length (l_cells (st_l st)) then N.of_nat (length (lmat (st_l st'))) else f_ml fs in
  mkF (mkP st' (p_log (f_ps fs))) (f_b saved) (f_suf saved) ml.

Fixpoint run_fast {A} (restore rp : bool) (ctr : nat) (p : parser A) (fs : fstate) : list A * fstate :=
  match p with
  | PRet a => ([a], fs)
  | PFail => ([], fs)
  | PGet i k => let (x, fs') := fdemand restore rp ctr i fs in run_fast restore rp ctr (k x) fs'
  | POr p q =>
    let mark := length (l_cells (st_l (p_st (f_ps fs)))) in
    let (xs, fs1) := run_fast restore rp ctr p fs in
    let (ys, fs2) := run_fast restore rp ctr q (funforce mark fs fs1) in
    (xs ++ ys, fs2)
  | PProbe p =>
    run_fast restore rp ctr p (mkF (mkP (p_st (f_ps fs)) (log_probe (p_st (f_ps fs)) (p_log (f_ps fs)))) (f_b fs) (f_suf fs) (f_ml fs))
  end.

Definition f_init (rp : bool) (content : list N) : fstate := mkF (mkP (st_init rp content) []) 0%N [] 0%N.

(* ------------------------------------------------------------------ the test grammars of checks/C47.py as parsers.
   Each is the clause-by-clause reading of the DCG translation (library(dcgs)) of the grammar in the driver, called
   through phrase/2 (so the final rest is []): a terminal list is a sequence of demands, each alternative / clause
   choice is a POr, "S = []" is a demand that must answer None.  (The first, cut clauses of seq//1 and ...//0, which
   test Cs0 == [] without binding anything, are not represented: they do not touch the list.)  Answers are lists of N. *)
Definition want (c : N) (x : option N) {A} (k : parser A) : parser A :=
  match x with Some y => if N.eqb y c then k else PFail | None => PFail end.

(* Cs0 = [c1,..,ck|Cs1] at index i, then k *)
Fixpoint lits {A} (cs : list N) (i : N) (k : parser A) : parser A :=
  match cs with
  | [] => k
  | c :: r => PGet i (fun x => want c x (lits r (i + 1)%N k))
  end.

(* S = [] at index i *)
Definition at_end {A} (i : N) (k : parser A) : parser A :=
  PGet i (fun x => match x with None => k | Some _ => PFail end).

(* ...//0 at index i with the rest known to be []: ( Cs0 = Cs ; Cs0 = [_|Cs1], ...(Cs1, Cs) ) *)
Fixpoint dots_end {A} (fuel : nat) (i : N) (k : parser A) : parser A :=
  match fuel with
  | O => PFail
  | S f => POr (at_end i k)
               (PGet i (fun x => match x with Some _ => dots_end f (i + 1)%N k | None => PFail end))
  end.

Definition hash_step (h c : N) : N := N.modulo (h * 31 + c) 2147483647.

(* c47p_fail --> "zzz", ... . *)
Definition g_fail (fuel : nat) : parser (list N) :=
  lits [122; 122; 122]%N 0%N (dots_end fuel 3%N (PRet [])).

(* c47p_first3(St, A, B, C) --> [A, B, C], { c47_probe(St) }, ... . *)
Definition g_first3 (fuel : nat) : parser (list N) :=
  PGet 0%N (fun a => match a with None => PFail | Some a =>
  PGet 1%N (fun b => match b with None => PFail | Some b =>
  PGet 2%N (fun c => match c with None => PFail | Some c =>
  PProbe (dots_end fuel 3%N (PRet [a; b; c])) end) end) end).

(* c47p_all(St, Cs) --> seq(Cs), { c47_probe(St) }.    answer: [length; hash] of Cs *)
Fixpoint g_all_from (fuel : nat) (i : N) (n h : N) : parser (list N) :=
  match fuel with
  | O => PFail
  | S f => POr (PProbe (at_end i (PRet [n; h])))
               (PGet i (fun x => match x with Some c => g_all_from f (i + 1)%N (n + 1)%N (hash_step h c) | None => PFail end))
  end.
Definition g_all (fuel : nat) : parser (list N) := g_all_from fuel 0%N 0%N 0%N.

(* c47p_needle(St, B) --> seq(Bs), "needle", { c47_probe(St) }, ..., { length(Bs, B) }.    answer: [B] *)
Definition needle_codes : list N := [110; 101; 101; 100; 108; 101]%N.
(* ...(S3, S4), ( length(Bs, B), S4 = [] ): ( S3 = S4 ; S3 = [_|S], ...(S, S4) ) *)
Fixpoint g_needle_from (fuel : nat) (i : N) (b : N) : parser (list N) :=
  match fuel with
  | O => PFail
  | S f => POr (lits needle_codes i (PProbe (dots_end (S fuel) (i + 6)%N (PRet [b]))))
               (PGet i (fun x => match x with Some _ => g_needle_from f (i + 1)%N (b + 1)%N | None => PFail end))
  end.
Definition g_needle (fuel : nat) : parser (list N) := g_needle_from fuel 0%N 0%N.

(* c47p_alt(St, A) --> ( seq(A), { c47_probe(St) }, "xy" | { c47_probe(St) }, seq(A), "xz" ).   answer: [length; hash] of A *)
Fixpoint g_alt_seq (fuel : nat) (i : N) (probe : bool) (c2 : N) (n h : N) : parser (list N) :=
  match fuel with
  | O => PFail
  | S f =>
    let m := lits [120%N; c2] i (at_end (i + 2)%N (PRet [n; h])) in
    POr (if probe then PProbe m else m)
        (PGet i (fun x => match x with Some c => g_alt_seq f (i + 1)%N probe c2 (n + 1)%N (hash_step h c) | None => PFail end))
  end.
Definition g_alt (fuel : nat) : parser (list N) :=
  POr (g_alt_seq fuel 0%N true 121%N 0%N 0%N) (PProbe (g_alt_seq fuel 0%N false 122%N 0%N 0%N)).

Definition grammar (g : N) (fuel : nat) : parser (list N) :=
  match g with
  | 0%N => g_fail fuel
  | 1%N => g_first3 fuel
  | 2%N => g_all fuel
  | 3%N => g_needle fuel
  | _ => g_alt fuel
  end.

(* ------------------------------------------------------------------ compact contents *)
Inductive seg := SBase (start len : N) | SRep (c len : N) | SLit (cs : list N).

Definition alpha_codes : list N := [97; 98; 99; 102; 103; 104; 105; 106; 107; 109; 111; 112; 113; 114; 115; 116; 117; 118; 119]%N.

(* the background text of checks/C47.py: base(n)[i] *)
Definition base_char (i : N) : N :=
  if N.eqb (N.modulo i 61) 60 then 10%N else nth (N.to_nat (N.modulo i 19)) alpha_codes 0%N.

Fixpoint base_from (k : nat) (i : N) : list N :=
  match k with O => [] | S k' => base_char i :: base_from k' (i + 1)%N end.

Definition expand_seg (s : seg) : list N :=
  match s with
  | SBase start len => base_from (N.to_nat len) start
  | SRep c len => repeat c (N.to_nat len)
  | SLit cs => cs
  end.

Definition expand (segs : list seg) : list N := concat (map expand_seg segs).

(* ------------------------------------------------------------------ the comparison *)
Record outcome := mkO { o_sols : list (list N); o_log : list N; o_final : N; o_reads : list (N * N) }.

Definition run_case (rp : bool) (ctr : N) (g : N) (content : list N) : outcome :=
  let (sols, fs) := run_fast true rp (N.to_nat ctr) (grammar g (length content + 2)) (f_init rp content) in
  let st := p_st (f_ps fs) in
  mkO sols (map (fun e => N.of_nat (snd e)) (rev (p_log (f_ps fs)))) (N.of_nat (probe_pos st))
      (map (fun r => (N.of_nat (fst r), N.of_nat (snd r))) (rev (s_reads (m_s (st_m st))))).

Definition list_eqb {A} (eqb : A -> A -> bool) : list A -> list A -> bool :=
  fix go (a b : list A) : bool :=
    match a, b with
    | [], [] => true
    | x :: a', y :: b' => eqb x y && go a' b'
    | _, _ => false
    end.

(* sols / log / final as observed on the implementation (positions converted to character counts) *)
Definition check_case (rp : bool) (ctr : N) (g : N) (segs : list seg) (sols : list (list N)) (log : list N) (final : N) : bool :=
  let o := run_case rp ctr g (expand segs) in
  list_eqb (list_eqb N.eqb) (o_sols o) sols && list_eqb N.eqb (o_log o) log && N.eqb (o_final o) final.
