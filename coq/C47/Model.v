(* C47 -- the lazily materialised list of library(pio) (src/lib/pio.pl: stream_to_lazy_list/render_step):
   a frozen variable which, when forced, reads the next chunk (get_n_chars with chars_to_read = 4096) and
   becomes that chunk followed by another frozen variable, or [] at the end of the stream.
   No proofs in this file. *)
From Coq Require Import List NArith.
Import ListNotations.

Inductive lazy :=
| LNil                                  (* forced at the end of the stream: [] *)
| LChunk (cs : list N) (rest : lazy).   (* forced: the characters read, then the next suspension *)

Fixpoint lazy_of_chunks (chunks : list (list N)) : lazy :=
  match chunks with
  | [] => LNil
  | c :: r => LChunk c (lazy_of_chunks r)
  end.

(* forcing everything *)
Fixpoint to_list (l : lazy) : list N :=
  match l with
  | LNil => []
  | LChunk c r => c ++ to_list r
  end.

(* what successive get_n_chars(S, n, Cs) calls deliver for the text cs (fuel = an upper bound of the number of calls) *)
Fixpoint chunks_of (fuel n : nat) (cs : list N) : list (list N) :=
  match fuel with
  | O => []
  | S f => match cs with
           | [] => []
           | _ => firstn n cs :: chunks_of f n (skipn n cs)
           end
  end.

Definition lazy_of_text (n : nat) (cs : list N) : lazy := lazy_of_chunks (chunks_of (length cs) n cs).
