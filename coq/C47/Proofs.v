(* C47 -- lemmas *)
From Coq Require Import List NArith Arith Lia.
From V Require Import C47.Model.
Import ListNotations.

Lemma to_list_chunks chunks : to_list (lazy_of_chunks chunks) = concat chunks.
Proof. induction chunks as [|c r IH]; cbn [lazy_of_chunks to_list concat]; auto. rewrite IH. reflexivity. Qed.

Lemma concat_chunks_of n : (1 <= n)%nat -> forall fuel cs, (length cs <= fuel)%nat -> concat (chunks_of fuel n cs) = cs.
Proof.
  intros Hn. induction fuel as [|f IH]; intros cs L.
  - destruct cs; [reflexivity | cbn in L; lia].
  - cbn [chunks_of]. destruct cs as [|c cs]; [reflexivity|].
    cbn [concat]. rewrite IH.
    + apply firstn_skipn.
    + rewrite skipn_length. cbn [length] in *. lia.
Qed.

Lemma chunks_nonempty n : (1 <= n)%nat -> forall fuel cs, Forall (fun c => c <> []) (chunks_of fuel n cs).
Proof.
  intros Hn. induction fuel as [|f IH]; intros cs; cbn [chunks_of]; [constructor|].
  destruct cs as [|c cs]; constructor; auto.
  destruct n as [|n]; [lia|]. cbn [firstn]. discriminate.
Qed.

Lemma chunks_size n : forall fuel cs, Forall (fun c => (length c <= n)%nat) (chunks_of fuel n cs).
Proof.
  induction fuel as [|f IH]; intros cs; cbn [chunks_of]; [constructor|].
  destruct cs as [|c cs]; constructor; auto. apply firstn_le_length.
Qed.
