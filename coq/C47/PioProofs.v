(* C47 -- proofs about the impl-mirror of library(pio) in Pio.v *)
From Coq Require Import List NArith Arith Bool Lia.
From V Require Import C47.Pio.
Import ListNotations.

(* ------------------------------------------------------------------ list facts *)
Lemma firstn_len_firstn {A} : forall b (l : list A), firstn (length (firstn b l)) l = firstn b l.
Proof.
  induction b as [|b IH]; intros l; [reflexivity|].
  destruct l as [|x l]; [reflexivity|]. cbn [firstn length]. f_equal. apply IH.
Qed.

Lemma skipn_len_firstn {A} : forall b (l : list A), skipn (length (firstn b l)) l = skipn b l.
Proof.
  induction b as [|b IH]; intros l; [reflexivity|].
  destruct l as [|x l]; [reflexivity|]. cbn [firstn length skipn]. apply IH.
Qed.

Lemma firstn_app_skipn {A} : forall a b (l : list A), firstn a l ++ firstn b (skipn a l) = firstn (a + b) l.
Proof.
  induction a as [|a IH]; intros b l; [reflexivity|].
  destruct l as [|x l].
  - cbn [skipn firstn app]. rewrite !firstn_nil. reflexivity.
  - cbn [firstn skipn app plus]. f_equal. apply IH.
Qed.

Lemma nth_error_firstn_lt {A} : forall k i (l : list A), i < k -> nth_error (firstn k l) i = nth_error l i.
Proof.
  induction k as [|k IH]; intros i l H; [lia|].
  destruct l as [|x l]; [reflexivity|]. destruct i as [|i]; [reflexivity|].
  cbn [firstn nth_error]. apply IH. lia.
Qed.

Lemma skipn_add {A} : forall a b (l : list A), skipn (a + b) l = skipn b (skipn a l).
Proof.
  induction a as [|a IH]; intros b l; [reflexivity|].
  destruct l as [|x l]; [cbn [plus skipn]; rewrite skipn_nil; reflexivity|]. cbn [plus skipn]. apply IH.
Qed.

Lemma firstn_skipn_firstn {A} : forall n q a (l : list A), q + n <= a -> firstn n (skipn q (firstn a l)) = firstn n (skipn q l).
Proof.
  intros n q. induction q as [|q IH]; intros a l H.
  - cbn [skipn]. rewrite firstn_firstn. f_equal. lia.
  - destruct a as [|a]; [lia|]. destruct l as [|x l]; [reflexivity|]. cbn [firstn skipn]. apply IH. lia.
Qed.

Section Mirror.
Variable cs : list N.
Variable ctr : nat.
Hypothesis Hctr : 0 < ctr.

Let len := length cs.

Definition chunk (q : nat) : list N := firstn ctr (skipn q cs).

Lemma chunk_length q : length (chunk q) = Nat.min ctr (len - q).
Proof. unfold chunk, len. rewrite firstn_length, skipn_length. reflexivity. Qed.

Lemma chunk_nonempty q : q < len -> 1 <= length (chunk q).
Proof. intros H. rewrite chunk_length. lia. Qed.

Lemma chunk_empty q : len <= q -> chunk q = [].
Proof. intros H. apply length_zero_iff_nil. rewrite chunk_length. lia. Qed.

(* the four clauses of the buffer invariant that do not mention BufferPos *)
Definition binv (m : mstate) : Prop :=
  b_buf (m_bb m) = firstn (b_len (m_bb m)) cs /\
  b_len (m_bb m) = length (b_buf (m_bb m)) /\
  s_pos (m_s m) = b_len (m_bb m) /\
  (b_closed (m_bb m) = true -> b_len (m_bb m) = len).

Lemma buffer_inv_binv m : buffer_inv cs m <-> s_content (m_s m) = cs /\ binv m /\
  match b_pos (m_bb m) with PNum bp => bp <= b_len (m_bb m) | PEof => True end.
Proof. unfold buffer_inv, binv, len. tauto. Qed.

Lemma binv_len_le m : binv m -> b_len (m_bb m) <= len.
Proof.
  intros (A & B & _). rewrite A in B. rewrite firstn_length in B. unfold len. lia.
Qed.

Definition Inv (rp : bool) (m : mstate) : Prop :=
  s_content (m_s m) = cs /\ (rp = false -> buffer_inv cs m).

Definition pos_ok (rp : bool) (p : pos) : Prop :=
  match p with PNum q => q <= len | PEof => rp = false end.

(* what render_step computes, as a function of the saved position alone *)
Definition spec_step (rp : bool) (p : pos) : option (list N) * pos :=
  match p with
  | PEof => (None, PEof)
  | PNum q => if rp && (len <=? q) then (None, p)
              else (Some (chunk q), if len <=? q then PEof else PNum (q + length (chunk q)))
  end.

Lemma spec_step_pos_ok rp p : pos_ok rp p -> pos_ok rp (snd (spec_step rp p)).
Proof.
  destruct p as [q|]; cbn [spec_step pos_ok]; intros H; [|exact H].
  destruct (len <=? q) eqn:E.
  - destruct rp; cbn [andb snd pos_ok]; auto.
  - rewrite andb_false_r. cbn [snd pos_ok]. apply Nat.leb_gt in E. rewrite chunk_length. lia.
Qed.

(* ---------------------------------------------------------------- buffer_prepare_for_n *)
Lemma prepare_spec n q : forall fuel m,
  s_content (m_s m) = cs -> binv m -> b_pos (m_bb m) = PNum q -> S (len - b_len (m_bb m)) <= fuel ->
  let m' := buffer_prepare_for_n fuel n ctr m in
  s_content (m_s m') = cs /\ binv m' /\ b_pos (m_bb m') = PNum q /\
  (q + n <= b_len (m_bb m') \/ b_closed (m_bb m') = true) /\
  b_len (m_bb m) <= b_len (m_bb m').
Proof.
  induction fuel as [|f IH]; intros m HC HB HP HF; [lia|].
  cbn [buffer_prepare_for_n]. rewrite HP.
  destruct (b_len (m_bb m) <? q + n) eqn:E1.
  2:{ apply Nat.ltb_ge in E1. cbn zeta. repeat split; auto; try apply HB. }
  destruct (b_closed (m_bb m)) eqn:E2.
  { cbn zeta. repeat split; auto; try apply HB. }
  pose proof (binv_len_le m HB) as HL.
  destruct HB as (B1 & B2 & B3 & B4).
  unfold at_end_of_stream. rewrite HC. fold len. rewrite B3.
  destruct (len <=? b_len (m_bb m)) eqn:E3.
  - apply Nat.leb_le in E3. cbn zeta. cbn [m_s m_bb b_buf b_len b_closed b_pos].
    unfold binv. cbn [m_s m_bb b_buf b_len b_closed b_pos]. repeat split; auto. intros _. lia.
  - apply Nat.leb_gt in E3. unfold get_n_chars. rewrite HC, B3. fold (chunk (b_len (m_bb m))).
    pose proof (chunk_nonempty _ E3) as HN. pose proof (chunk_length (b_len (m_bb m))) as HCL.
    cbn zeta.
    set (m2 := mkM _ _).
    assert (HB2 : binv m2).
    { unfold binv, m2. cbn [m_s m_bb b_buf b_len b_closed s_pos].
      assert (EQ : b_buf (m_bb m) ++ chunk (b_len (m_bb m)) = firstn (b_len (m_bb m) + length (chunk (b_len (m_bb m)))) cs).
      { rewrite B1 at 1. unfold chunk at 1. rewrite firstn_app_skipn.
        rewrite HCL. destruct (Nat.le_ge_cases ctr (len - b_len (m_bb m))) as [L|L].
        - rewrite Nat.min_l by exact L. reflexivity.
        - rewrite Nat.min_r by exact L. rewrite !firstn_all2; auto; fold len; lia. }
      repeat split.
      - exact EQ.
      - rewrite EQ, firstn_length. fold len. lia.
      - discriminate. }
    specialize (IH m2).
    assert (H1 : s_content (m_s m2) = cs) by (unfold m2; cbn [m_s s_content]; reflexivity).
    assert (H2 : b_pos (m_bb m2) = PNum q) by (unfold m2; cbn [m_bb b_pos]; reflexivity).
    assert (H3 : S (len - b_len (m_bb m2)) <= f) by (unfold m2; cbn [m_bb b_len]; lia).
    specialize (IH H1 HB2 H2 H3). cbn zeta in IH.
    destruct IH as (I1 & I2 & I3 & I4 & I5). repeat split; auto; try apply I2.
    unfold m2 in I5. cbn [m_bb b_len] in I5. lia.
Qed.

(* ---------------------------------------------------------------- render_step *)
Lemma render_step_spec rp p m : Inv rp m -> pos_ok rp p ->
  exists m', render_step true rp ctr p m = (fst (spec_step rp p), snd (spec_step rp p), m') /\ Inv rp m'.
Proof.
  intros [HC HI] HP. unfold render_step. destruct rp.
  - (* reposition(true) *)
    destruct p as [q|]; [|discriminate HP]. cbn [pos_ok] in HP.
    cbn [set_stream_buffer_position buffer_at_end_of_stream m_s]. unfold at_end_of_stream.
    cbn [set_stream_position s_content s_pos]. rewrite HC. fold len. cbn [spec_step andb].
    destruct (len <=? q) eqn:E.
    + eexists. split; [reflexivity|]. split; [exact HC|discriminate].
    + cbn [buffer_get_n_chars m_s]. unfold get_n_chars. cbn [s_content s_pos s_reads]. rewrite HC. fold (chunk q).
      eexists. split; [reflexivity|]. split; [exact HC|discriminate].
  - (* reposition(false) *)
    specialize (HI eq_refl). apply buffer_inv_binv in HI. destruct HI as (_ & HB & _).
    cbn [set_stream_buffer_position buffer_at_end_of_stream]. cbn [m_bb with_bpos b_pos].
    destruct p as [q|].
    2:{ cbn [spec_step fst snd]. eexists. split; [reflexivity|].
        split; [exact HC|]. intros _. apply buffer_inv_binv. cbn [m_s m_bb with_bpos b_pos]. repeat split; auto. }
    cbn [pos_ok] in HP. cbn [buffer_get_n_chars].
    set (m1 := mkM (m_s m) (with_bpos (m_bb m) (PNum q))).
    assert (HB1 : binv m1) by exact HB.
    assert (HC1 : s_content (m_s m1) = cs) by exact HC.
    assert (HP1 : b_pos (m_bb m1) = PNum q) by reflexivity.
    assert (HF : S (len - b_len (m_bb m1)) <= prepare_fuel m1).
    { unfold prepare_fuel. rewrite HC1. destruct HB1 as (_ & _ & B3 & _). rewrite B3. fold len. lia. }
    pose proof (prepare_spec ctr q (prepare_fuel m1) m1 HC1 HB1 HP1 HF) as PS. cbn zeta in PS.
    set (m2 := buffer_prepare_for_n (prepare_fuel m1) ctr ctr m1) in *.
    destruct PS as (P1 & P2 & P3 & P4 & P5).
    rewrite P3.
    assert (HCH : string_get_n_chars (b_buf (m_bb m2)) q ctr = chunk q).
    { unfold string_get_n_chars, chunk. destruct P2 as (B1 & B2 & B3 & B4). rewrite B1. destruct P4 as [P4|P4].
      - apply firstn_skipn_firstn. exact P4.
      - rewrite (B4 P4). unfold len. rewrite firstn_all. reflexivity. }
    rewrite HCH. cbn [spec_step andb fst snd get_stream_buffer_position m_bb with_bpos b_pos].
    destruct (len <=? q) eqn:E.
    + apply Nat.leb_le in E. rewrite (chunk_empty q E). cbn [length].
      eexists. split; [reflexivity|]. split; [exact P1|]. intros _.
      apply buffer_inv_binv. cbn [m_s m_bb with_bpos b_pos]. repeat split; auto; apply P2.
    + apply Nat.leb_gt in E. pose proof (chunk_nonempty q E) as HN.
      destruct (length (chunk q)) as [|k] eqn:EL; [lia|]. rewrite <- EL.
      eexists. split; [reflexivity|]. split; [exact P1|]. intros _.
      apply buffer_inv_binv. cbn [m_s m_bb with_bpos b_pos b_len]. repeat split; auto; try apply P2.
      pose proof (chunk_length q) as HCL. pose proof (binv_len_le m2 P2) as HL2.
      destruct P4 as [P4|P4]; [lia|]. destruct P2 as (_ & _ & _ & B4). rewrite (B4 P4). lia.
Qed.

End Mirror.
