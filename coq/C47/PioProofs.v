(* C47 -- proofs about the impl-mirror of library(pio) in Pio.v *)
From Coq Require Import List NArith Arith Bool Lia.
From V Require Import C47.Pio.
Import ListNotations.

(* ------------------------------------------------------------------ list facts *)
Lemma firstn_len_firstn {A} : forall b (l : list A), firstn (length (firstn b l)) l = firstn b l.
Proof.
  induction b as [|b IH]; intros l; [reflexivity|].
  destruct l as [|x l]; [reflexivity|]. cbn [firstn length]. f_equal. apply IH.
Qed.

Lemma skipn_len_firstn {A} : forall b (l : list A), skipn (length (firstn b l)) l = skipn b l.
Proof.
  induction b as [|b IH]; intros l; [reflexivity|].
  destruct l as [|x l]; [reflexivity|]. cbn [firstn length skipn]. apply IH.
Qed.

Lemma firstn_app_skipn {A} : forall a b (l : list A), firstn a l ++ firstn b (skipn a l) = firstn (a + b) l.
Proof.
  induction a as [|a IH]; intros b l; [reflexivity|].
  destruct l as [|x l].
  - cbn [skipn firstn app]. rewrite !firstn_nil. reflexivity.
  - cbn [firstn skipn app plus]. f_equal. apply IH.
Qed.

Lemma nth_error_firstn_lt {A} : forall k i (l : list A), i < k -> nth_error (firstn k l) i = nth_error l i.
Proof.
  induction k as [|k IH]; intros i l H; [lia|].
  destruct l as [|x l]; [reflexivity|]. destruct i as [|i]; [reflexivity|].
  cbn [firstn nth_error]. apply IH. lia.
Qed.

Lemma skipn_add {A} : forall a b (l : list A), skipn (a + b) l = skipn b (skipn a l).
Proof.
  induction a as [|a IH]; intros b l; [reflexivity|].
  destruct l as [|x l]; [cbn [plus skipn]; rewrite skipn_nil; reflexivity|]. cbn [plus skipn]. apply IH.
Qed.

Lemma firstn_skipn_firstn {A} : forall n q a (l : list A), q + n <= a -> firstn n (skipn q (firstn a l)) = firstn n (skipn q l).
Proof.
  intros n q. induction q as [|q IH]; intros a l H.
  - cbn [skipn]. rewrite firstn_firstn. f_equal. lia.
  - destruct a as [|a]; [lia|]. destruct l as [|x l]; [reflexivity|]. cbn [firstn skipn]. apply IH. lia.
Qed.

Section Mirror.
Variable cs : list N.
Variable ctr : nat.
Hypothesis Hctr : 0 < ctr.

Let len := length cs.

Definition chunk (q : nat) : list N := firstn ctr (skipn q cs).

Lemma chunk_length q : length (chunk q) = Nat.min ctr (len - q).
Proof. unfold chunk, len. rewrite firstn_length, skipn_length. reflexivity. Qed.

Lemma chunk_nonempty q : q < len -> 1 <= length (chunk q).
Proof. intros H. rewrite chunk_length. lia. Qed.

Lemma chunk_empty q : len <= q -> chunk q = [].
Proof. intros H. apply length_zero_iff_nil. rewrite chunk_length. lia. Qed.

(* the four clauses of the buffer invariant that do not mention BufferPos *)
Definition binv (m : mstate) : Prop :=
  b_buf (m_bb m) = firstn (b_len (m_bb m)) cs /\
  b_len (m_bb m) = length (b_buf (m_bb m)) /\
  s_pos (m_s m) = b_len (m_bb m) /\
  (b_closed (m_bb m) = true -> b_len (m_bb m) = len).

Lemma buffer_inv_binv m : buffer_inv cs m <-> s_content (m_s m) = cs /\ binv m /\
  match b_pos (m_bb m) with PNum bp => bp <= b_len (m_bb m) | PEof => True end.
Proof. unfold buffer_inv, binv, len. tauto. Qed.

Lemma binv_len_le m : binv m -> b_len (m_bb m) <= len.
Proof.
  intros (A & B & _). rewrite A in B. rewrite firstn_length in B. unfold len. lia.
Qed.

Definition Inv (rp : bool) (m : mstate) : Prop :=
  s_content (m_s m) = cs /\ (rp = false -> buffer_inv cs m).

Definition pos_ok (rp : bool) (p : pos) : Prop :=
  match p with PNum q => q <= len | PEof => rp = false end.

(* what render_step computes, as a function of the saved position alone *)
Definition spec_step (rp : bool) (p : pos) : option (list N) * pos :=
  match p with
  | PEof => (None, PEof)
  | PNum q => if rp && (len <=? q) then (None, p)
              else (Some (chunk q), if len <=? q then PEof else PNum (q + length (chunk q)))
  end.

Lemma spec_step_pos_ok rp p : pos_ok rp p -> pos_ok rp (snd (spec_step rp p)).
Proof.
  destruct p as [q|]; cbn [spec_step pos_ok]; intros H; [|exact H].
  destruct (len <=? q) eqn:E.
  - destruct rp; cbn [andb snd pos_ok]; auto.
  - rewrite andb_false_r. cbn [snd pos_ok]. apply Nat.leb_gt in E. rewrite chunk_length. lia.
Qed.

(* ---------------------------------------------------------------- buffer_prepare_for_n *)
Lemma prepare_spec n q : forall fuel m,
  s_content (m_s m) = cs -> binv m -> b_pos (m_bb m) = PNum q -> S (len - b_len (m_bb m)) <= fuel ->
  let m' := buffer_prepare_for_n fuel n ctr m in
  s_content (m_s m') = cs /\ binv m' /\ b_pos (m_bb m') = PNum q /\
  (q + n <= b_len (m_bb m') \/ b_closed (m_bb m') = true) /\
  b_len (m_bb m) <= b_len (m_bb m').
Proof.
  induction fuel as [|f IH]; intros m HC HB HP HF; [lia|].
  cbn [buffer_prepare_for_n]. rewrite HP.
  destruct (b_len (m_bb m) <? q + n) eqn:E1.
  2:{ apply Nat.ltb_ge in E1. cbn zeta. repeat split; auto; try apply HB. }
  destruct (b_closed (m_bb m)) eqn:E2.
  { cbn zeta. repeat split; auto; try apply HB. }
  pose proof (binv_len_le m HB) as HL.
  destruct HB as (B1 & B2 & B3 & B4).
  unfold at_end_of_stream. rewrite HC. fold len. rewrite B3.
  destruct (len <=? b_len (m_bb m)) eqn:E3.
  - apply Nat.leb_le in E3. cbn zeta. cbn [m_s m_bb b_buf b_len b_closed b_pos].
    unfold binv. cbn [m_s m_bb b_buf b_len b_closed b_pos]. repeat split; auto. intros _. lia.
  - apply Nat.leb_gt in E3. unfold get_n_chars. rewrite HC, B3. fold (chunk (b_len (m_bb m))).
    pose proof (chunk_nonempty _ E3) as HN. pose proof (chunk_length (b_len (m_bb m))) as HCL.
    cbn zeta.
    set (m2 := mkM _ _).
    assert (HB2 : binv m2).
    { unfold binv, m2. cbn [m_s m_bb b_buf b_len b_closed s_pos].
      assert (EQ : b_buf (m_bb m) ++ chunk (b_len (m_bb m)) = firstn (b_len (m_bb m) + length (chunk (b_len (m_bb m)))) cs).
      { rewrite B1 at 1. unfold chunk at 1. rewrite firstn_app_skipn.
        rewrite HCL. destruct (Nat.le_ge_cases ctr (len - b_len (m_bb m))) as [L|L].
        - rewrite Nat.min_l by exact L. reflexivity.
        - rewrite Nat.min_r by exact L. rewrite !firstn_all2; auto; fold len; lia. }
      repeat split.
      - exact EQ.
      - rewrite EQ, firstn_length. fold len. lia.
      - discriminate. }
    specialize (IH m2).
    assert (H1 : s_content (m_s m2) = cs) by (unfold m2; cbn [m_s s_content]; reflexivity).
    assert (H2 : b_pos (m_bb m2) = PNum q) by (unfold m2; cbn [m_bb b_pos]; reflexivity).
    assert (H3 : S (len - b_len (m_bb m2)) <= f) by (unfold m2; cbn [m_bb b_len]; lia).
    specialize (IH H1 HB2 H2 H3). cbn zeta in IH.
    destruct IH as (I1 & I2 & I3 & I4 & I5). repeat split; auto; try apply I2.
    assert (HE : b_len (m_bb m2) = b_len (m_bb m) + length (chunk (b_len (m_bb m)))) by reflexivity. lia.
Qed.

(* ---------------------------------------------------------------- render_step *)
Lemma render_step_spec rp p m : Inv rp m -> pos_ok rp p ->
  exists m', render_step true rp ctr p m = (fst (spec_step rp p), snd (spec_step rp p), m') /\ Inv rp m'.
Proof.
  intros [HC HI] HP. unfold render_step. destruct rp.
  - (* reposition(true) *)
    destruct p as [q|]; [|discriminate HP]. cbn [pos_ok] in HP.
    cbn [set_stream_buffer_position buffer_at_end_of_stream buffer_get_n_chars m_s m_bb].
    unfold at_end_of_stream, get_n_chars, set_stream_position. cbn [s_content s_pos s_reads m_s m_bb].
    rewrite HC. fold len. cbn [spec_step andb].
    destruct (len <=? q) eqn:E.
    + eexists. split; [reflexivity|]. split; [reflexivity|discriminate].
    + cbn [get_stream_buffer_position m_s s_pos fst snd]. fold (chunk q).
      eexists. split; [reflexivity|]. split; [reflexivity|discriminate].
  - (* reposition(false) *)
    specialize (HI eq_refl). apply buffer_inv_binv in HI. destruct HI as (_ & HB & _).
    cbn [set_stream_buffer_position buffer_at_end_of_stream]. cbn [m_bb with_bpos b_pos].
    destruct p as [q|].
    2:{ cbn [spec_step fst snd]. eexists. split; [reflexivity|].
        split; [exact HC|]. intros _. apply buffer_inv_binv. split; [exact HC|]. split; [exact HB|exact I]. }
    cbn [pos_ok] in HP. cbn [buffer_get_n_chars].
    set (m1 := mkM (m_s m) (with_bpos (m_bb m) (PNum q))).
    assert (HB1 : binv m1) by exact HB.
    assert (HC1 : s_content (m_s m1) = cs) by exact HC.
    assert (HP1 : b_pos (m_bb m1) = PNum q) by reflexivity.
    assert (HF : S (len - b_len (m_bb m1)) <= prepare_fuel m1).
    { unfold prepare_fuel. rewrite HC1. destruct HB1 as (_ & _ & B3 & _). rewrite B3. fold len. lia. }
    pose proof (prepare_spec ctr q (prepare_fuel m1) m1 HC1 HB1 HP1 HF) as PS. cbn zeta in PS.
    set (m2 := buffer_prepare_for_n (prepare_fuel m1) ctr ctr m1) in *.
    destruct PS as (P1 & P2 & P3 & P4 & P5).
    rewrite P3.
    assert (HCH : string_get_n_chars (b_buf (m_bb m2)) q ctr = chunk q).
    { unfold string_get_n_chars, chunk. destruct P2 as (B1 & B2 & B3 & B4). rewrite B1. destruct P4 as [P4|P4].
      - apply firstn_skipn_firstn. exact P4.
      - rewrite (B4 P4). unfold len. rewrite firstn_all. reflexivity. }
    rewrite HCH. cbn [spec_step andb fst snd get_stream_buffer_position m_bb with_bpos b_pos].
    destruct (len <=? q) eqn:E.
    + apply Nat.leb_le in E. rewrite (chunk_empty q E). cbn [length].
      eexists. split; [reflexivity|]. split; [exact P1|]. intros _.
      apply buffer_inv_binv. cbn [m_s m_bb with_bpos b_pos]. repeat split; auto; apply P2.
    + apply Nat.leb_gt in E. pose proof (chunk_nonempty q E) as HN.
      destruct (length (chunk q)) as [|k] eqn:EL; [lia|]. rewrite <- EL.
      eexists. split; [reflexivity|]. split; [exact P1|]. intros _.
      apply buffer_inv_binv. cbn [m_s m_bb with_bpos b_pos b_len]. repeat split; auto; try apply P2.
      pose proof (chunk_length q) as HCL. pose proof (binv_len_le m2 P2) as HL2.
      destruct P4 as [P4|P4]; [lia|]. destruct P2 as (_ & _ & _ & B4). rewrite (B4 P4). lia.
Qed.

(* ---------------------------------------------------------------- well-formed lazy lists *)
Fixpoint wf_cells (rp : bool) (q : pos) (es : list (pos * list N)) (t : ltail) : Prop :=
  match es with
  | [] => match t with
          | TSusp p => p = q /\ pos_ok rp q
          | TNil p => p = q /\ pos_ok rp q /\ fst (spec_step rp q) = None
          end
  | (p, c) :: r => p = q /\ pos_ok rp q /\ fst (spec_step rp q) = Some c /\ wf_cells rp (snd (spec_step rp q)) r t
  end.

Definition start (q : pos) : nat := match q with PNum a => a | PEof => len end.

Lemma spec_some rp q c : pos_ok rp q -> fst (spec_step rp q) = Some c ->
  exists a, q = PNum a /\ a <= len /\ c = chunk a /\ start (snd (spec_step rp q)) = a + length c.
Proof.
  destruct q as [a|]; cbn [spec_step pos_ok]; intros H E; [|discriminate E].
  exists a. destruct (len <=? a) eqn:E1.
  - destruct rp; cbn [andb fst snd] in *; [discriminate E|]. injection E as <-.
    apply Nat.leb_le in E1. rewrite (chunk_empty a E1). cbn [start length]. repeat split; auto. lia.
  - rewrite andb_false_r in *. cbn [fst snd start] in *. injection E as <-. repeat split; auto.
Qed.

Lemma spec_none rp q : pos_ok rp q -> fst (spec_step rp q) = None -> skipn (start q) cs = [].
Proof.
  destruct q as [a|]; cbn [spec_step pos_ok start]; intros H E.
  - destruct (rp && (len <=? a)) eqn:E1; [|discriminate E].
    apply andb_true_iff in E1. destruct E1 as [_ E1]. apply Nat.leb_le in E1. apply skipn_all2. exact E1.
  - apply skipn_all.
Qed.

Lemma mat_prefix rp : forall es q t, wf_cells rp q es t ->
  concat (map snd es) = firstn (length (concat (map snd es))) (skipn (start q) cs) /\
  (forall p, t = TNil p -> concat (map snd es) = skipn (start q) cs).
Proof.
  induction es as [|[p c] r IH]; intros q t W; cbn [wf_cells map snd concat] in *.
  - split; [reflexivity|]. intros p ->. destruct W as (_ & OK & E). symmetry. eapply spec_none; eauto.
  - destruct W as (-> & OK & E & W). destruct (spec_some rp q c OK E) as (a & -> & La & -> & ST).
    destruct (IH _ _ W) as [I1 I2]. rewrite ST in I1, I2. cbn [start].
    split.
    + rewrite I1 at 1. rewrite app_length. unfold chunk at 1 3.
      rewrite skipn_add. fold (chunk a).
      set (X := skipn a cs). unfold chunk. fold X.
      rewrite <- (firstn_len_firstn ctr X) at 1. rewrite firstn_app_skipn. reflexivity.
    + intros p' ->. rewrite (I2 p' eq_refl). rewrite skipn_add. unfold chunk.
      rewrite skipn_len_firstn. apply firstn_skipn.
Qed.

Lemma wf_app rp : forall es q p es' t', wf_cells rp q es (TSusp p) -> wf_cells rp p es' t' -> wf_cells rp q (es ++ es') t'.
Proof.
  induction es as [|[p0 c] r IH]; intros q p es' t' W W'; cbn [wf_cells app] in *.
  - destruct W as [-> _]. exact W'.
  - destruct W as (A & B & C & D). repeat split; auto. eapply IH; eauto.
Qed.

Lemma wf_tail_ok rp : forall es q p, wf_cells rp q es (TSusp p) -> pos_ok rp p.
Proof.
  induction es as [|[p0 c] r IH]; intros q p W; cbn [wf_cells] in *.
  - destruct W as [-> OK]. exact OK.
  - destruct W as (_ & _ & _ & W). eapply IH; eauto.
Qed.

Lemma wf_firstn rp : forall es q t j p c, wf_cells rp q es t -> nth_error es j = Some (p, c) -> wf_cells rp q (firstn j es) (TSusp p).
Proof.
  induction es as [|[p0 c0] r IH]; intros q t j p c W E.
  - destruct j; discriminate E.
  - cbn [wf_cells] in W. destruct W as (A & B & C & D). destruct j as [|j].
    + cbn [nth_error] in E. injection E as <- <-. cbn [firstn wf_cells]. split; auto.
    + cbn [nth_error] in E. cbn [firstn wf_cells]. repeat split; auto. eapply IH; eauto.
Qed.

Lemma wf_retail rp : forall es q t, wf_cells rp q es t -> wf_cells rp q es (TSusp (tail_pos t)).
Proof.
  induction es as [|[p0 c0] r IH]; intros q t W; cbn [wf_cells] in *.
  - destruct t as [p|p]; cbn [tail_pos]; tauto.
  - destruct W as (A & B & C & D). repeat split; auto.
Qed.

(* ---------------------------------------------------------------- unfold (forcing) *)
Lemma unfold_spec rp : forall fuel need p m, Inv rp m -> pos_ok rp p ->
  match p with PNum _ => need + 2 <= fuel | PEof => 1 <= fuel end ->
  exists es t m', unfold fuel true rp ctr need p m = (es, t, m') /\ wf_cells rp p es t /\ Inv rp m' /\
                  (need < length (concat (map snd es)) \/ exists p', t = TNil p').
Proof.
  induction fuel as [|f IH]; intros need p m HI OK HF.
  - destruct p; lia.
  - cbn [unfold]. destruct (render_step_spec rp p m HI OK) as (m1 & -> & HI1).
    destruct (fst (spec_step rp p)) as [c|] eqn:E.
    2:{ exists [], (TNil p), m1. split; [reflexivity|]. split; [cbn [wf_cells]; auto|]. split; [exact HI1|]. right. eauto. }
    pose proof (spec_step_pos_ok rp p OK) as OK'.
    destruct (need <? length c) eqn:EN.
    + apply Nat.ltb_lt in EN. exists [(p, c)], (TSusp (snd (spec_step rp p))), m1. cbn [wf_cells map snd concat].
      rewrite app_nil_r. split; [reflexivity|]. split; [auto|]. split; [exact HI1|]. left. exact EN.
    + apply Nat.ltb_ge in EN.
      assert (HF' : match snd (spec_step rp p) with PNum _ => need - length c + 2 <= f | PEof => 1 <= f end).
      { destruct p as [a|]; [|discriminate E]. cbn [spec_step] in *.
        destruct (len <=? a) eqn:E1.
        - destruct rp; cbn [andb fst snd] in *; [discriminate E|]. lia.
        - rewrite andb_false_r in *. cbn [fst snd] in *. injection E as <-. apply Nat.leb_gt in E1.
          pose proof (chunk_nonempty a E1). lia. }
      destruct (IH (need - length c) _ m1 HI1 OK' HF') as (es & t & m3 & -> & W & HI3 & D).
      exists ((p, c) :: es), t, m3. cbn [wf_cells map snd concat]. rewrite app_length.
      split; [reflexivity|]. split; [auto|]. split; [exact HI3|].
      destruct D as [D|D]; [left; lia|right; exact D].
Qed.

(* ---------------------------------------------------------------- states *)
Definition Good (rp : bool) (st : lstate) : Prop :=
  Inv rp (st_m st) /\ wf_cells rp (PNum 0) (l_cells (st_l st)) (l_tail (st_l st)).

Lemma good_init rp : Good rp (st_init rp cs).
Proof.
  split.
  - split; [reflexivity|]. intros _. unfold buffer_inv. cbn. repeat split; auto. discriminate.
  - cbn [st_init st_l l_init l_cells l_tail wf_cells]. destruct rp; cbn; split; auto; lia.
Qed.

Lemma good_mat rp st : Good rp st ->
  lmat (st_l st) = firstn (length (lmat (st_l st))) cs /\ (lclosed (st_l st) = true -> lmat (st_l st) = cs).
Proof.
  intros [_ W]. destruct (mat_prefix rp _ _ _ W) as [A B]. cbn [start skipn] in A, B. unfold lmat, lclosed.
  split; [exact A|]. destruct (l_tail (st_l st)) as [p|p]; [discriminate|]. intros _. eapply B; eauto.
Qed.

Lemma demand_spec rp i st : Good rp st ->
  fst (demand true rp ctr i st) = nth_error cs i /\ Good rp (snd (demand true rp ctr i st)) /\
  (i < length (lmat (st_l (snd (demand true rp ctr i st)))) \/ lclosed (st_l (snd (demand true rp ctr i st))) = true).
Proof.
  intros G. pose proof (good_mat rp st G) as [M1 M2]. unfold demand.
  destruct (i <? length (lmat (st_l st))) eqn:E.
  - apply Nat.ltb_lt in E. cbn [fst snd]. split; [|split; [exact G|left; exact E]].
    rewrite M1. apply nth_error_firstn_lt. exact E.
  - apply Nat.ltb_ge in E. destruct (l_tail (st_l st)) as [p|p] eqn:ET.
    2:{ cbn [fst snd]. unfold lclosed in *. rewrite ET in *. split; [|split; [exact G|right; reflexivity]].
        symmetry. apply nth_error_None. rewrite <- (M2 eq_refl). exact E. }
    destruct G as [HI W]. rewrite ET in W.
    pose proof (wf_tail_ok rp _ _ _ W) as OK.
    assert (HF : match p with PNum _ => i - length (lmat (st_l st)) + 2 <= S (S (i - length (lmat (st_l st)))) | PEof => 1 <= S (S (i - length (lmat (st_l st)))) end)
      by (destruct p; lia).
    destruct (unfold_spec rp _ _ p (st_m st) HI OK HF) as (es & t & m' & -> & W' & HI' & D).
    cbn [fst snd st_l].
    assert (G' : Good rp (mkSt (mkL (l_cells (st_l st) ++ es) t) m')).
    { split; [exact HI'|]. cbn [st_l l_cells l_tail]. eapply wf_app; eauto. }
    pose proof (good_mat rp _ G') as [N1 N2]. cbn [st_l] in N1, N2.
    assert (HL : length (lmat (mkL (l_cells (st_l st) ++ es) t)) = length (lmat (st_l st)) + length (concat (map snd es))).
    { unfold lmat. cbn [l_cells]. rewrite map_app, concat_app, app_length. reflexivity. }
    destruct D as [D|[p' ->]].
    + assert (HLT : i < length (lmat (mkL (l_cells (st_l st) ++ es) t))) by lia.
      split; [|split; [exact G'|left; exact HLT]].
      rewrite N1. apply nth_error_firstn_lt. exact HLT.
    + split; [|split; [exact G'|right; reflexivity]]. rewrite (N2 eq_refl). reflexivity.
Qed.

Lemma unforce_good rp j st : Good rp st -> Good rp (unforce j st).
Proof.
  intros [HI W]. split; [exact HI|]. unfold unforce, unforce_l. cbn [st_l].
  destruct (nth_error (l_cells (st_l st)) j) as [[p c]|] eqn:E.
  - cbn [l_cells l_tail]. eapply wf_firstn; eauto.
  - destruct (j =? length (l_cells (st_l st))); [|exact W]. cbn [l_cells l_tail]. apply wf_retail. exact W.
Qed.

Lemma step_good rp st o : Good rp st -> Good rp (step true rp ctr st o).
Proof.
  intros G. destruct o as [i|j]; cbn [step]; [apply demand_spec; exact G|apply unforce_good; exact G].
Qed.

Lemma run_script_good rp : forall ops st, Good rp st -> Good rp (run_script true rp ctr ops st).
Proof.
  unfold run_script. induction ops as [|o r IH]; intros st G; cbn [fold_left]; [exact G|]. apply IH. apply step_good. exact G.
Qed.

Fixpoint demanded (ops : list op) : list nat :=
  match ops with [] => [] | ODemand i :: r => i :: demanded r | OUndo _ :: r => demanded r end.

Lemma script_answers_spec rp : forall ops st, Good rp st ->
  script_answers true rp ctr ops st = map (nth_error cs) (demanded ops).
Proof.
  induction ops as [|[i|j] r IH]; intros st G; cbn [script_answers demanded map]; [reflexivity| |].
  - destruct (demand true rp ctr i st) as [x st'] eqn:E. pose proof (demand_spec rp i st G) as (A & B & _).
    rewrite E in A, B. cbn [fst snd] in A, B. rewrite A. f_equal. apply IH. exact B.
  - apply IH. apply unforce_good. exact G.
Qed.

(* ---------------------------------------------------------------- parsers *)
Definition GoodP (rp : bool) (ps : pstate) : Prop := Good rp (p_st ps).

Lemma run_lazy_spec rp {A} : forall (p : parser A) ps, GoodP rp ps ->
  fst (run_lazy true rp ctr p ps) = run_list cs p /\ GoodP rp (snd (run_lazy true rp ctr p ps)).
Proof.
  induction p as [a| |i k IH|p IHp q IHq|p IHp]; intros ps G; cbn [run_lazy run_list].
  - split; [reflexivity|exact G].
  - split; [reflexivity|exact G].
  - destruct (demand true rp ctr (N.to_nat i) (p_st ps)) as [x st'] eqn:E.
    pose proof (demand_spec rp (N.to_nat i) (p_st ps) G) as (A1 & B1 & _). rewrite E in A1, B1. cbn [fst snd] in A1, B1.
    rewrite <- A1. apply IH. exact B1.
  - destruct (run_lazy true rp ctr p ps) as [xs ps1] eqn:E1.
    pose proof (IHp ps G) as [A1 B1]. rewrite E1 in A1, B1. cbn [fst snd] in A1, B1.
    set (ps1' := mkP (unforce _ (p_st ps1)) (p_log ps1)).
    assert (G1 : GoodP rp ps1') by (apply unforce_good; exact B1).
    destruct (run_lazy true rp ctr q ps1') as [ys ps2] eqn:E2.
    pose proof (IHq ps1' G1) as [A2 B2]. rewrite E2 in A2, B2. cbn [fst snd] in *.
    split; [congruence|exact B2].
  - apply IHp. exact G.
Qed.

Lemma run_lazy1_spec rp {A} : forall (p : parser A) ps, GoodP rp ps ->
  fst (run_lazy1 true rp ctr p ps) = run_list1 cs p /\ GoodP rp (snd (run_lazy1 true rp ctr p ps)).
Proof.
  induction p as [a| |i k IH|p IHp q IHq|p IHp]; intros ps G; cbn [run_lazy1 run_list1].
  - split; [reflexivity|exact G].
  - split; [reflexivity|exact G].
  - destruct (demand true rp ctr (N.to_nat i) (p_st ps)) as [x st'] eqn:E.
    pose proof (demand_spec rp (N.to_nat i) (p_st ps) G) as (A1 & B1 & _). rewrite E in A1, B1. cbn [fst snd] in A1, B1.
    rewrite <- A1. apply IH. exact B1.
  - destruct (run_lazy1 true rp ctr p ps) as [[a|] ps1] eqn:E1;
      pose proof (IHp ps G) as [A1 B1]; rewrite E1 in A1, B1; cbn [fst snd] in A1, B1; rewrite <- A1.
    + split; [reflexivity|exact B1].
    + apply IHq. apply unforce_good. exact B1.
  - apply IHp. exact G.
Qed.

(* ---------------------------------------------------------------- the cells are a function of the content *)
Lemma wf_cells_det rp : forall es q t es' t' j e e', wf_cells rp q es t -> wf_cells rp q es' t' ->
  nth_error es j = Some e -> nth_error es' j = Some e' -> e = e'.
Proof.
  induction es as [|[p c] r IH]; intros q t es' t' j e e' W W' E E'.
  - destruct j; discriminate E.
  - destruct es' as [|[p' c'] r']; [destruct j; discriminate E'|].
    cbn [wf_cells] in W, W'. destruct W as (-> & _ & S1 & W). destruct W' as (-> & _ & S2 & W').
    destruct j as [|j]; cbn [nth_error] in E, E'.
    + injection E as <-. injection E' as <-. rewrite S1 in S2. injection S2 as <-. reflexivity.
    + eapply IH; eauto.
Qed.

Lemma wf_tail_start rp : forall es q p, wf_cells rp q es (TSusp p) -> start p = start q + length (concat (map snd es)).
Proof.
  induction es as [|[p0 c] r IH]; intros q p W; cbn [wf_cells map snd concat] in *.
  - destruct W as [-> _]. cbn [length]. lia.
  - destruct W as (-> & OK & E & W). destruct (spec_some rp q c OK E) as (a & -> & La & -> & ST).
    rewrite (IH _ _ W), ST, app_length. cbn [start]. lia.
Qed.

(* ---------------------------------------------------------------- counting reads, reposition(true) *)
Lemma render_step_true a m : s_content (m_s m) = cs ->
  render_step true true ctr (PNum a) m =
  if len <=? a then (None, PNum a, mkM (mkS cs a (s_reads (m_s m)) (S (s_seeks (m_s m)))) (m_bb m))
  else (Some (chunk a), PNum (a + length (chunk a)),
        mkM (mkS cs (a + length (chunk a)) ((a, length (chunk a)) :: s_reads (m_s m)) (S (s_seeks (m_s m)))) (m_bb m)).
Proof.
  intros HC. unfold render_step.
  cbn [set_stream_buffer_position buffer_at_end_of_stream buffer_get_n_chars m_s m_bb].
  unfold at_end_of_stream, get_n_chars, set_stream_position. cbn [s_content s_pos s_reads m_s m_bb].
  rewrite HC. fold len. destruct (len <=? a); [reflexivity|].
  cbn [get_stream_buffer_position m_s s_pos]. fold (chunk a). reflexivity.
Qed.

Lemma unfold_reads_true : forall fuel need a m, s_content (m_s m) = cs ->
  forall es t m', unfold fuel true true ctr need (PNum a) m = (es, t, m') ->
  s_content (m_s m') = cs /\ length (s_reads (m_s m')) = length (s_reads (m_s m)) + length es /\
  Forall (fun e => exists b, fst e = PNum b /\ b <= a + need) es.
Proof.
  induction fuel as [|f IH]; intros need a m HC es t m' E.
  - cbn [unfold] in E. injection E as <- <- <-. cbn [length]. repeat split; auto.
  - cbn [unfold] in E. rewrite (render_step_true a m HC) in E. destruct (len <=? a).
    + injection E as <- <- <-. cbn [length m_s s_content s_reads]. repeat split; auto.
    + destruct (need <? length (chunk a)) eqn:EN.
      * injection E as <- <- <-. cbn [length m_s s_content s_reads]. split; [reflexivity|]. split; [lia|].
        constructor; [|constructor]. exists a. cbn [fst]. split; [reflexivity|lia].
      * apply Nat.ltb_ge in EN.
        destruct (unfold f true true ctr (need - length (chunk a)) (PNum (a + length (chunk a))) _) as [[es1 t1] m1] eqn:E1.
        injection E as <- <- <-.
        apply IH in E1; [|reflexivity]. destruct E1 as (I1 & I2 & I3). cbn [m_s s_reads length] in I2.
        split; [exact I1|]. split; [cbn [length]; lia|].
        constructor.
        -- exists a. cbn [fst]. split; [reflexivity|lia].
        -- eapply Forall_impl; [|exact I3]. intros e (b & Hb & Lb). exists b. split; [exact Hb|lia].
Qed.

Lemma cells_start_true : forall es q0 p c t, wf_cells true (PNum q0) (es ++ [(p, c)]) t -> p = PNum (q0 + ctr * length es).
Proof.
  induction es as [|[p0 c0] r IH]; intros q0 p c t W; cbn [app wf_cells] in W.
  - destruct W as (-> & _). cbn [length]. f_equal. lia.
  - destruct W as (-> & OK & E & W). cbn [pos_ok] in OK. cbn [spec_step andb] in E, W.
    destruct (len <=? q0) eqn:E0; [discriminate E|]. cbn [fst snd] in E, W. apply Nat.leb_gt in E0.
    assert (HN : q0 + length (chunk q0) < len).
    { destruct r as [|[p1 c1] r1]; cbn [app wf_cells] in W; destruct W as (_ & _ & E1 & _); cbn [spec_step andb] in E1;
        (destruct (len <=? q0 + length (chunk q0)) eqn:E2; [discriminate E1|apply Nat.leb_gt in E2; exact E2]). }
    rewrite chunk_length in HN.
    assert (HL : length (chunk q0) = ctr) by (rewrite chunk_length; lia).
    rewrite HL in W. rewrite (IH _ _ _ _ W). cbn [length]. f_equal. rewrite Nat.mul_succ_r. lia.
Qed.

Lemma ceil_bound x k : ctr * x < k -> x + 1 <= ceil_div k ctr.
Proof.
  intros H. unfold ceil_div. apply Nat.div_le_lower_bound; [lia|]. rewrite Nat.mul_add_distr_l. lia.
Qed.

Lemma ceil_bound' x k : ctr * x + 2 <= k + ctr -> x <= ceil_div k ctr.
Proof.
  intros H. unfold ceil_div. apply Nat.div_le_lower_bound; lia.
Qed.

(* the invariant of a run that never backtracks and only asks for cells below k *)
Definition RT (k : nat) (st : lstate) : Prop :=
  Good true st /\ n_reads st = length (l_cells (st_l st)) /\
  Forall (fun e => exists b, fst e = PNum b /\ b < k) (l_cells (st_l st)).

Lemma RT_init k : RT k (st_init true cs).
Proof. split; [apply good_init|]. split; [reflexivity|constructor]. Qed.

Lemma RT_demand k i st : i < k -> RT k st -> RT k (snd (demand true true ctr i st)).
Proof.
  intros Hi (G & R & F). pose proof (demand_spec true i st G) as (_ & G' & _). split; [exact G'|]. clear G'.
  unfold demand. destruct (i <? length (lmat (st_l st))) eqn:E; [cbn [snd]; auto|]. apply Nat.ltb_ge in E.
  destruct (l_tail (st_l st)) as [p|p] eqn:ET; [|cbn [snd]; auto].
  destruct G as [[HC _] W]. rewrite ET in W.
  pose proof (wf_tail_ok true _ _ _ W) as OK. pose proof (wf_tail_start true _ _ _ W) as ST.
  destruct p as [a|]; [|discriminate OK]. cbn [start] in ST.
  destruct (unfold _ true true ctr _ (PNum a) (st_m st)) as [[es t] m'] eqn:EU.
  apply unfold_reads_true in EU; [|exact HC]. destruct EU as (_ & U2 & U3).
  cbn [snd st_l l_cells]. unfold n_reads in *. cbn [st_m]. split.
  - rewrite app_length. lia.
  - apply Forall_app. split; [exact F|]. eapply Forall_impl; [|exact U3].
    intros e (b & Hb & Lb). exists b. split; [exact Hb|]. fold (lmat (st_l st)) in ST. lia.
Qed.

Lemma RT_bound k st : RT k st -> n_reads st <= ceil_div k ctr.
Proof.
  intros ([_ W] & R & F). rewrite R. clear R.
  destruct (l_cells (st_l st)) as [|e0 r0]; [cbn [length]; lia|].
  assert (NE : e0 :: r0 <> []) by discriminate.
  destruct (exists_last NE) as (es & [p c] & EQ). rewrite EQ in *.
  apply cells_start_true in W. apply Forall_app in F. destruct F as [_ F]. inversion F as [|? ? (b & Hb & Lb) _]; subst.
  cbn [fst] in Hb. injection Hb as <-. rewrite app_length. cbn [length]. apply ceil_bound. lia.
Qed.

(* ---------------------------------------------------------------- counting reads, reposition(false) *)
Definition RF (k : nat) (m : mstate) : Prop :=
  (b_len (m_bb m) = ctr * length (s_reads (m_s m)) \/ b_len (m_bb m) = len) /\
  length (s_reads (m_s m)) <= ceil_div k ctr + 1.

Lemma binv_read m p rd sk : binv m -> b_len (m_bb m) < len ->
  binv (mkM (mkS cs (b_len (m_bb m) + length (chunk (b_len (m_bb m)))) rd sk)
            (mkB (b_buf (m_bb m) ++ chunk (b_len (m_bb m))) false p (b_len (m_bb m) + length (chunk (b_len (m_bb m)))))).
Proof.
  intros (B1 & B2 & B3 & B4) E3. pose proof (chunk_length (b_len (m_bb m))) as HCL.
  unfold binv. cbn [m_s m_bb b_buf b_len b_closed s_pos].
  assert (EQ : b_buf (m_bb m) ++ chunk (b_len (m_bb m)) = firstn (b_len (m_bb m) + length (chunk (b_len (m_bb m)))) cs).
  { rewrite B1 at 1. unfold chunk at 1. rewrite firstn_app_skipn.
    rewrite HCL. destruct (Nat.le_ge_cases ctr (len - b_len (m_bb m))) as [L|L].
    - rewrite Nat.min_l by exact L. reflexivity.
    - rewrite Nat.min_r by exact L. rewrite !firstn_all2; auto; fold len; lia. }
  repeat split.
  - exact EQ.
  - rewrite EQ, firstn_length. fold len. lia.
  - discriminate.
Qed.

Lemma prepare_reads k q : q < k -> forall fuel m,
  s_content (m_s m) = cs -> binv m -> b_pos (m_bb m) = PNum q -> RF k m ->
  RF k (buffer_prepare_for_n fuel ctr ctr m).
Proof.
  intros Hq. induction fuel as [|f IH]; intros m HC HB HP HR; [exact HR|].
  cbn [buffer_prepare_for_n]. rewrite HP.
  destruct (b_len (m_bb m) <? q + ctr) eqn:E1; [|exact HR].
  destruct (b_closed (m_bb m)) eqn:E2; [exact HR|].
  pose proof (binv_len_le m HB) as HL.
  unfold at_end_of_stream. rewrite HC. fold len. destruct HB as (B1 & B2 & B3 & B4). rewrite B3.
  destruct (len <=? b_len (m_bb m)) eqn:E3; [exact HR|].
  apply Nat.leb_gt in E3. apply Nat.ltb_lt in E1. unfold get_n_chars. rewrite HC, B3. fold (chunk (b_len (m_bb m))).
  cbn zeta. apply IH.
  - reflexivity.
  - apply binv_read; [repeat split; auto|exact E3].
  - reflexivity.
  - destruct HR as [HR1 HR2]. pose proof (chunk_length (b_len (m_bb m))) as HCL.
    destruct HR1 as [HR1|HR1]; [|lia].
    unfold RF. cbn [m_s m_bb b_len s_reads length]. split.
    + destruct (Nat.le_ge_cases ctr (len - b_len (m_bb m))) as [L|L].
      * left. rewrite Nat.mul_succ_r. lia.
      * right. lia.
    + assert (length (s_reads (m_s m)) <= ceil_div k ctr) by (apply ceil_bound'; lia). lia.
Qed.

Lemma render_reads_false k p m : Inv false m -> RF k m -> pos_ok false p -> (forall q, p = PNum q -> q < k) ->
  RF k (snd (render_step true false ctr p m)).
Proof.
  intros [HC HI] HR OK Hq. specialize (HI eq_refl). apply buffer_inv_binv in HI. destruct HI as (_ & HB & _).
  unfold render_step. cbn [set_stream_buffer_position buffer_at_end_of_stream]. cbn [m_bb with_bpos b_pos].
  destruct p as [q|]; [|exact HR].
  cbn [pos_ok] in OK. cbn [buffer_get_n_chars].
  set (m1 := mkM (m_s m) (with_bpos (m_bb m) (PNum q))).
  assert (HB1 : binv m1) by exact HB.
  assert (HC1 : s_content (m_s m1) = cs) by exact HC.
  assert (HP1 : b_pos (m_bb m1) = PNum q) by reflexivity.
  assert (HF : S (len - b_len (m_bb m1)) <= prepare_fuel m1).
  { unfold prepare_fuel. rewrite HC1. destruct HB1 as (_ & _ & B3 & _). rewrite B3. fold len. lia. }
  pose proof (prepare_spec ctr q (prepare_fuel m1) m1 HC1 HB1 HP1 HF) as PS. cbn zeta in PS.
  assert (HR1 : RF k m1) by exact HR.
  pose proof (prepare_reads k q (Hq q eq_refl) (prepare_fuel m1) m1 HC1 HB1 HP1 HR1) as PR.
  set (m2 := buffer_prepare_for_n (prepare_fuel m1) ctr ctr m1) in *.
  destruct PS as (_ & _ & P3 & _). rewrite P3. cbn [snd]. exact PR.
Qed.

Lemma unfold_reads_false k : forall fuel need p m, Inv false m -> pos_ok false p -> RF k m -> start p + need < k ->
  forall es t m', unfold fuel true false ctr need p m = (es, t, m') -> RF k m'.
Proof.
  induction fuel as [|f IH]; intros need p m HI OK HR HK es t m' E.
  - cbn [unfold] in E. injection E as <- <- <-. exact HR.
  - cbn [unfold] in E.
    assert (HR1 : RF k (snd (render_step true false ctr p m))).
    { apply render_reads_false; auto. intros q ->. cbn [start] in HK. lia. }
    destruct (render_step_spec false p m HI OK) as (m1 & EQ & HI1). rewrite EQ in E, HR1. cbn [snd] in HR1.
    destruct (fst (spec_step false p)) as [c|] eqn:ES.
    2:{ injection E as <- <- <-. exact HR1. }
    destruct (need <? length c) eqn:EN.
    + injection E as <- <- <-. exact HR1.
    + apply Nat.ltb_ge in EN.
      destruct (unfold f true false ctr (need - length c) (snd (spec_step false p)) m1) as [[es1 t1] m3] eqn:E1.
      injection E as <- <- <-.
      destruct (spec_some false p c OK ES) as (a & -> & La & -> & ST).
      eapply IH; [exact HI1|apply spec_step_pos_ok; exact OK|exact HR1| |exact E1].
      rewrite ST. cbn [start] in HK. lia.
Qed.

Lemma RF_demand k i st : i < k -> Good false st -> RF k (st_m st) -> RF k (st_m (snd (demand true false ctr i st))).
Proof.
  intros Hi G HR. unfold demand.
  destruct (i <? length (lmat (st_l st))) eqn:E; [exact HR|]. apply Nat.ltb_ge in E.
  destruct (l_tail (st_l st)) as [p|p] eqn:ET; [|exact HR].
  destruct G as [HI W]. rewrite ET in W.
  pose proof (wf_tail_ok false _ _ _ W) as OK. pose proof (wf_tail_start false _ _ _ W) as ST. cbn [start] in ST.
  fold (lmat (st_l st)) in ST.
  destruct (unfold _ true false ctr _ p (st_m st)) as [[es t] m'] eqn:EU. cbn [snd st_m].
  eapply unfold_reads_false; [exact HI|exact OK|exact HR| |exact EU]. lia.
Qed.

(* ---------------------------------------------------------------- parsers and read counts *)
Lemma run_lazy_RT k {A} : forall (p : parser A) ps, det_below k p -> RT k (p_st ps) -> RT k (p_st (snd (run_lazy true true ctr p ps))).
Proof.
  induction p as [a| |i f IH|p IHp q IHq|p IHp]; intros ps D R; cbn [run_lazy det_below] in *; auto.
  - destruct D as [Hi D]. destruct (demand true true ctr (N.to_nat i) (p_st ps)) as [x st'] eqn:E.
    apply IH; [apply D|]. cbn [p_st]. pose proof (RT_demand k (N.to_nat i) (p_st ps) Hi R) as R'. rewrite E in R'. exact R'.
  - destruct D.
Qed.

Lemma run_lazy1_RT k {A} : forall (p : parser A) ps, det_below k p -> RT k (p_st ps) -> RT k (p_st (snd (run_lazy1 true true ctr p ps))).
Proof.
  induction p as [a| |i f IH|p IHp q IHq|p IHp]; intros ps D R; cbn [run_lazy1 det_below] in *; auto.
  - destruct D as [Hi D]. destruct (demand true true ctr (N.to_nat i) (p_st ps)) as [x st'] eqn:E.
    apply IH; [apply D|]. cbn [p_st]. pose proof (RT_demand k (N.to_nat i) (p_st ps) Hi R) as R'. rewrite E in R'. exact R'.
  - destruct D.
Qed.

Definition GF (k : nat) (ps : pstate) : Prop := Good false (p_st ps) /\ RF k (st_m (p_st ps)).

Lemma run_lazy_RF k {A} : forall (p : parser A) ps, gets_below k p -> GF k ps -> GF k (snd (run_lazy true false ctr p ps)).
Proof.
  induction p as [a| |i f IH|p IHp q IHq|p IHp]; intros ps D [G R]; cbn [run_lazy gets_below] in *; try (split; assumption).
  - destruct D as [Hi D]. destruct (demand true false ctr (N.to_nat i) (p_st ps)) as [x st'] eqn:E.
    apply IH; [apply D|]. split; cbn [p_st].
    + pose proof (demand_spec false (N.to_nat i) (p_st ps) G) as (_ & G' & _). rewrite E in G'. exact G'.
    + pose proof (RF_demand k (N.to_nat i) (p_st ps) Hi G R) as R'. rewrite E in R'. exact R'.
  - destruct D as [D1 D2]. destruct (run_lazy true false ctr p ps) as [xs ps1] eqn:E1.
    pose proof (IHp ps D1 (conj G R)) as [G1 R1]. rewrite E1 in G1, R1. cbn [snd] in G1, R1.
    set (ps1' := mkP (unforce _ (p_st ps1)) (p_log ps1)).
    assert (GF1 : GF k ps1') by (split; [apply unforce_good; exact G1|exact R1]).
    destruct (run_lazy true false ctr q ps1') as [ys ps2] eqn:E2.
    pose proof (IHq ps1' D2 GF1) as H2. rewrite E2 in H2. exact H2.
  - apply IHp; [exact D|]. split; assumption.
Qed.

Lemma run_lazy1_RF k {A} : forall (p : parser A) ps, gets_below k p -> GF k ps -> GF k (snd (run_lazy1 true false ctr p ps)).
Proof.
  induction p as [a| |i f IH|p IHp q IHq|p IHp]; intros ps D [G R]; cbn [run_lazy1 gets_below] in *; try (split; assumption).
  - destruct D as [Hi D]. destruct (demand true false ctr (N.to_nat i) (p_st ps)) as [x st'] eqn:E.
    apply IH; [apply D|]. split; cbn [p_st].
    + pose proof (demand_spec false (N.to_nat i) (p_st ps) G) as (_ & G' & _). rewrite E in G'. exact G'.
    + pose proof (RF_demand k (N.to_nat i) (p_st ps) Hi G R) as R'. rewrite E in R'. exact R'.
  - destruct D as [D1 D2]. pose proof (IHp ps D1 (conj G R)) as [G1 R1].
    destruct (run_lazy1 true false ctr p ps) as [[a|] ps1] eqn:E1; cbn [snd] in G1, R1.
    + split; assumption.
    + apply IHq; [exact D2|]. split; [apply unforce_good; exact G1|exact R1].
  - apply IHp; [exact D|]. split; assumption.
Qed.

Lemma RF_init k : RF k (m_init cs).
Proof. unfold RF. cbn. split; [left|]; lia. Qed.

End Mirror.

(* ================================================================== the statements pinned in Props.v *)
Definition reach (rp : bool) (n : nat) (cs : list N) (ops : list op) : lstate :=
  run_script true rp n ops (st_init rp cs).

Lemma reach_good rp n cs ops : 0 < n -> Good cs n rp (reach rp n cs ops).
Proof. intros Hn. apply (run_script_good cs n Hn rp). apply good_init. exact Hn. Qed.

Lemma seq_answers cs : forall k a, a + k <= length cs -> map (nth_error cs) (seq a k) = map (@Some N) (firstn k (skipn a cs)).
Proof.
  induction k as [|k IH]; intros a H; [reflexivity|].
  cbn [seq map]. assert (HS : exists x, nth_error cs a = Some x /\ skipn a cs = x :: skipn (S a) cs).
  { clear IH. revert a H. induction cs as [|y l IHl]; intros a H; [cbn [length] in H; lia|].
    destruct a as [|a]; [exists y; split; reflexivity|]. cbn [nth_error]. cbn [length] in H.
    destruct (IHl a) as (x & E1 & E2); [lia|]. exists x. split; [exact E1|]. exact E2. }
  destruct HS as (x & E1 & E2). rewrite E1, E2. cbn [firstn map]. f_equal. apply IH. lia.
Qed.

Lemma demanded_map_seq a k : demanded (map ODemand (seq a k)) = seq a k.
Proof. revert a. induction k as [|k IH]; intros a; [reflexivity|]. cbn [seq map demanded]. f_equal. apply IH. Qed.

(* forced_list_is_content *)
Lemma forced_list_is_content_l : forall (rp : bool) (n : nat) (cs : list N) (ops : list op), 0 < n ->
  let st := reach rp n cs ops in
  lmat (st_l st) = firstn (length (lmat (st_l st))) cs /\
  (lclosed (st_l st) = true -> lmat (st_l st) = cs) /\
  (forall i, fst (demand true rp n i st) = nth_error cs i) /\
  (forall k, k <= length cs -> script_answers true rp n (map ODemand (seq 0 k)) st = map (@Some N) (firstn k cs)) /\
  (let st' := snd (demand true rp n (length cs) st) in
   fst (demand true rp n (length cs) st) = None /\ lmat (st_l st') = cs /\ lclosed (st_l st') = true).
Proof.
  intros rp n cs ops Hn st. pose proof (reach_good rp n cs ops Hn) as G. fold st in G.
  pose proof (good_mat cs n Hn rp st G) as [M1 M2].
  split; [exact M1|]. split; [exact M2|]. split; [|split].
  - intros i. apply (demand_spec cs n Hn rp i st G).
  - intros k Hk. rewrite (script_answers_spec cs n Hn rp _ st G), demanded_map_seq.
    rewrite seq_answers by (cbn; exact Hk). reflexivity.
  - pose proof (demand_spec cs n Hn rp (length cs) st G) as (A & G' & D). cbn zeta.
    pose proof (good_mat cs n Hn rp _ G') as [N1 N2].
    assert (C : lclosed (st_l (snd (demand true rp n (length cs) st))) = true).
    { destruct D as [D|D]; [|exact D]. rewrite N1 in D. rewrite firstn_length in D. lia. }
    split; [rewrite A; apply nth_error_None; lia|]. split; [apply N2; exact C|exact C].
Qed.

Lemma force_all_content rp n cs : 0 < n -> lmat (st_l (force_all rp n cs)) = cs /\ lclosed (st_l (force_all rp n cs)) = true.
Proof.
  intros Hn. pose proof (forced_list_is_content_l rp n cs [] Hn) as (_ & _ & _ & _ & H). cbn zeta in H. apply H.
Qed.

(* chunk_size_irrelevant *)
Lemma chunk_size_irrelevant_l : forall (rp1 rp2 : bool) (n1 n2 : nat) (cs : list N) (ops1 ops2 : list op), 0 < n1 -> 0 < n2 ->
  lmat (st_l (force_all rp1 n1 cs)) = lmat (st_l (force_all rp2 n2 cs)) /\
  script_answers true rp1 n1 ops1 (st_init rp1 cs) = map (nth_error cs) (demanded ops1) /\
  (demanded ops1 = demanded ops2 ->
   script_answers true rp1 n1 ops1 (st_init rp1 cs) = script_answers true rp2 n2 ops2 (st_init rp2 cs)).
Proof.
  intros rp1 rp2 n1 n2 cs ops1 ops2 H1 H2.
  destruct (force_all_content rp1 n1 cs H1) as [A1 _]. destruct (force_all_content rp2 n2 cs H2) as [A2 _].
  split; [congruence|].
  pose proof (script_answers_spec cs n1 H1 rp1 ops1 _ (good_init cs n1 H1 rp1)) as S1.
  pose proof (script_answers_spec cs n2 H2 rp2 ops2 _ (good_init cs n2 H2 rp2)) as S2.
  split; [exact S1|]. intros E. rewrite S1, S2, E. reflexivity.
Qed.

(* backtracking_reforce_same *)
Lemma backtracking_reforce_same_l : forall (rp : bool) (n : nat) (cs : list N) (ops1 ops2 : list op) (j : nat), 0 < n ->
  let st1 := reach rp n cs ops1 in
  let st2 := reach rp n cs (ops1 ++ OUndo j :: ops2) in
  (forall k e1 e2, nth_error (l_cells (st_l st1)) k = Some e1 -> nth_error (l_cells (st_l st2)) k = Some e2 -> e1 = e2) /\
  (forall i, fst (demand true rp n i st1) = fst (demand true rp n i st2)) /\
  script_answers true rp n (ops1 ++ OUndo j :: ops2) (st_init rp cs) = map (nth_error cs) (demanded (ops1 ++ OUndo j :: ops2)).
Proof.
  intros rp n cs ops1 ops2 j Hn st1 st2.
  pose proof (reach_good rp n cs ops1 Hn) as G1. pose proof (reach_good rp n cs (ops1 ++ OUndo j :: ops2) Hn) as G2.
  fold st1 in G1. fold st2 in G2. split; [|split].
  - intros k e1 e2 E1 E2. destruct G1 as [_ W1]. destruct G2 as [_ W2]. exact (wf_cells_det cs n rp _ _ _ _ _ k e1 e2 W1 W2 E1 E2).
  - intros i. rewrite (proj1 (demand_spec cs n Hn rp i st1 G1)), (proj1 (demand_spec cs n Hn rp i st2 G2)). reflexivity.
  - apply (script_answers_spec cs n Hn). apply good_init. exact Hn.
Qed.

(* without the set_stream_position/2 call of render_step the same script gives a wrong answer *)
Definition refute_content : list N := [1; 2; 3; 4]%N.
Definition refute_script : list op := [ODemand 0; ODemand 2; OUndo 0; ODemand 0].

Lemma backtracking_reforce_same_refuted_l :
  script_answers false true 2 refute_script (st_init true refute_content) = [Some 1%N; Some 3%N; None] /\
  script_answers true true 2 refute_script (st_init true refute_content) = [Some 1%N; Some 3%N; Some 1%N] /\
  script_answers false true 2 refute_script (st_init true refute_content) <> map (nth_error refute_content) (demanded refute_script).
Proof. split; [vm_compute; reflexivity|]. split; [vm_compute; reflexivity|]. vm_compute. discriminate. Qed.

(* phrase_lazy_eq_phrase_list *)
Lemma phrase_lazy_eq_phrase_list_l : forall (A : Type) (p : parser A) (rp : bool) (n : nat) (cs : list N) (ops : list op) (log : list (nat * nat)),
  0 < n ->
  fst (run_lazy true rp n p (mkP (reach rp n cs ops) log)) = run_list cs p /\
  fst (run_lazy1 true rp n p (mkP (reach rp n cs ops) log)) = run_list1 cs p.
Proof.
  intros A p rp n cs ops log Hn. pose proof (reach_good rp n cs ops Hn) as G. split.
  - apply (run_lazy_spec cs n Hn rp p). exact G.
  - apply (run_lazy1_spec cs n Hn rp p). exact G.
Qed.

(* stops_early_reads_bounded, reposition(true) *)
Lemma stops_early_reads_bounded_l : forall (A : Type) (p : parser A) (k n : nat) (cs : list N), 0 < n -> det_below k p ->
  n_reads (p_st (snd (run_lazy true true n p (mkP (st_init true cs) [])))) <= ceil_div k n /\
  n_reads (p_st (snd (run_lazy1 true true n p (mkP (st_init true cs) [])))) <= ceil_div k n.
Proof.
  intros A p k n cs Hn D. split; apply (RT_bound cs n Hn k).
  - apply (run_lazy_RT cs n Hn k p _ D). apply RT_init. exact Hn.
  - apply (run_lazy1_RT cs n Hn k p _ D). apply RT_init. exact Hn.
Qed.

(* stops_early_reads_bounded, reposition(false): any parser, backtracking included; plus the buffer invariant *)
Lemma buffered_reads_bounded_l : forall (A : Type) (p : parser A) (k n : nat) (cs : list N), 0 < n -> gets_below k p ->
  let st := p_st (snd (run_lazy true false n p (mkP (st_init false cs) []))) in
  let st1 := p_st (snd (run_lazy1 true false n p (mkP (st_init false cs) []))) in
  n_reads st <= ceil_div k n + 1 /\ buffer_inv cs (st_m st) /\
  n_reads st1 <= ceil_div k n + 1 /\ buffer_inv cs (st_m st1).
Proof.
  intros A p k n cs Hn D st st1.
  assert (G0 : GF cs n k (mkP (st_init false cs) [])) by (split; [apply good_init; exact Hn|apply RF_init; exact Hn]).
  pose proof (run_lazy_RF cs n Hn k p _ D G0) as [[[_ I] _] [_ R]].
  pose proof (run_lazy1_RF cs n Hn k p _ D G0) as [[[_ I1] _] [_ R1]].
  split; [exact R|]. split; [apply I; reflexivity|]. split; [exact R1|apply I1; reflexivity].
Qed.

Lemma buffer_invariant_l : forall (n : nat) (cs : list N) (ops : list op), 0 < n ->
  buffer_inv cs (st_m (reach false n cs ops)).
Proof. intros n cs ops Hn. destruct (reach_good false n cs ops Hn) as [[_ I] _]. apply I. reflexivity. Qed.

(* ================================================================== run_fast = run_lazy *)
Section Fast.
Variable cs : list N.
Variable ctr : nat.
Hypothesis Hctr : 0 < ctr.
Variable rp : bool.

Definition FV (fs : fstate) : Prop :=
  Good cs ctr rp (p_st (f_ps fs)) /\
  f_suf fs = firstn (length (f_suf fs)) (skipn (N.to_nat (f_b fs)) cs) /\
  f_ml fs = N.of_nat (length (lmat (st_l (p_st (f_ps fs))))).

Lemma prefix_skipn {A} : forall k (l s : list A), s = firstn (length s) l -> skipn k s = firstn (length (skipn k s)) (skipn k l).
Proof.
  induction k as [|k IH]; intros l s H; [exact H|].
  destruct s as [|x s]; [reflexivity|]. destruct l as [|y l]; [discriminate H|].
  cbn [length firstn] in H. injection H as -> H. cbn [skipn]. apply IH. exact H.
Qed.

Lemma prefix_nth {A} : forall k (l s : list A) x r, s = firstn (length s) l -> skipn k s = x :: r -> nth_error l k = Some x.
Proof.
  induction k as [|k IH]; intros l s x r H E.
  - cbn [skipn] in E. subst s. destruct l as [|y l]; [discriminate H|]. cbn [length firstn] in H. injection H as -> _. reflexivity.
  - destruct s as [|z s]; [discriminate E|]. destruct l as [|y l]; [discriminate H|].
    cbn [length firstn] in H. injection H as _ H. cbn [skipn] in E. cbn [nth_error]. eapply IH; eauto.
Qed.

Lemma nth_error_skipn_add {A} : forall b k (l : list A), nth_error (skipn b l) k = nth_error l (b + k).
Proof.
  induction b as [|b IH]; intros k l; [reflexivity|]. destruct l as [|y l]; [destruct k; reflexivity|]. cbn [skipn plus nth_error]. apply IH.
Qed.

Lemma fdemand_slow_eq i fs : FV fs ->
  demand true rp ctr (N.to_nat i) (p_st (f_ps fs)) = (fst (fdemand_slow true rp ctr i fs), p_st (f_ps (snd (fdemand_slow true rp ctr i fs)))) /\
  p_log (f_ps (snd (fdemand_slow true rp ctr i fs))) = p_log (f_ps fs) /\ FV (snd (fdemand_slow true rp ctr i fs)).
Proof.
  intros (G & _ & _). unfold fdemand_slow.
  pose proof (demand_spec cs ctr Hctr rp (N.to_nat i) _ G) as (_ & G' & _).
  destruct (demand true rp ctr (N.to_nat i) (p_st (f_ps fs))) as [x st'] eqn:E. cbn [fst snd f_ps p_st p_log] in *.
  split; [reflexivity|]. split; [reflexivity|]. split; [exact G'|]. cbn [f_suf f_b f_ml f_ps p_st]. split; [|reflexivity].
  pose proof (good_mat cs ctr Hctr rp st' G') as [M _].
  rewrite <- (skipn_O cs) in M. apply (prefix_skipn (N.to_nat i)) in M. rewrite <- skipn_add in M. rewrite Nat.add_0_l in M. exact M.
Qed.

Lemma fdemand_eq i fs : FV fs ->
  demand true rp ctr (N.to_nat i) (p_st (f_ps fs)) = (fst (fdemand true rp ctr i fs), p_st (f_ps (snd (fdemand true rp ctr i fs)))) /\
  p_log (f_ps (snd (fdemand true rp ctr i fs))) = p_log (f_ps fs) /\ FV (snd (fdemand true rp ctr i fs)).
Proof.
  intros V. unfold fdemand.
  destruct ((f_b fs <=? i)%N && (i <? f_ml fs)%N) eqn:E; [|apply fdemand_slow_eq; exact V].
  destruct (skipn (N.to_nat (i - f_b fs)) (f_suf fs)) as [|x r] eqn:ES; [apply fdemand_slow_eq; exact V|].
  apply andb_true_iff in E. destruct E as [E1 E2]. apply N.leb_le in E1. apply N.ltb_lt in E2.
  destruct V as (G & P & ML). cbn [fst snd f_ps p_st p_log].
  pose proof (prefix_nth _ _ _ _ _ P ES) as NX.
  assert (HN : nth_error cs (N.to_nat i) = Some x).
  { rewrite <- NX. rewrite nth_error_skipn_add. f_equal. lia. }
  split; [|split; [reflexivity|]].
  - pose proof (demand_spec cs ctr Hctr rp (N.to_nat i) _ G) as (A & _ & _).
    unfold demand in *.
    assert (E3 : (N.to_nat i <? length (lmat (st_l (p_st (f_ps fs))))) = true) by (apply Nat.ltb_lt; lia).
    rewrite E3 in *. cbn [fst] in A. rewrite A, HN. reflexivity.
  - split; [exact G|]. cbn [f_suf f_b f_ml f_ps p_st]. split; [|exact ML].
    pose proof (prefix_skipn (N.to_nat (i - f_b fs)) _ _ P) as Q. rewrite ES in Q. rewrite <- skipn_add in Q.
    replace (N.to_nat (f_b fs) + N.to_nat (i - f_b fs)) with (N.to_nat i) in Q by lia. exact Q.
Qed.

Lemma funforce_FV mark saved fs : FV saved -> FV fs ->
  f_ps (funforce mark saved fs) = mkP (unforce mark (p_st (f_ps fs))) (p_log (f_ps fs)) /\ FV (funforce mark saved fs).
Proof.
  intros (_ & PS & _) (G & _ & ML). unfold funforce. cbn [f_ps]. split; [reflexivity|].
  split; [cbn [f_ps p_st]; apply unforce_good; exact G|]. cbn [f_suf f_b f_ml f_ps p_st]. split; [exact PS|].
  destruct (mark <? length (l_cells (st_l (p_st (f_ps fs))))) eqn:E; [reflexivity|].
  apply Nat.ltb_ge in E. rewrite ML. unfold unforce, unforce_l. cbn [st_l].
  rewrite (proj2 (nth_error_None _ _) E).
  destruct (mark =? length (l_cells (st_l (p_st (f_ps fs))))); reflexivity.
Qed.

Lemma run_fast_eq {A} : forall (p : parser A) fs, FV fs ->
  run_lazy true rp ctr p (f_ps fs) = (fst (run_fast true rp ctr p fs), f_ps (snd (run_fast true rp ctr p fs))) /\
  FV (snd (run_fast true rp ctr p fs)).
Proof.
  induction p as [a| |i k IH|p IHp q IHq|p IHp]; intros fs V; cbn [run_lazy run_fast].
  - split; [reflexivity|exact V].
  - split; [reflexivity|exact V].
  - pose proof (fdemand_eq i fs V) as (E & L & V'). rewrite E.
    destruct (fdemand true rp ctr i fs) as [x fs'] eqn:EF. cbn [fst snd] in *.
    specialize (IH x fs' V'). destruct IH as [IH1 IH2].
    replace (mkP (p_st (f_ps fs')) (p_log (f_ps fs))) with (f_ps fs') by (rewrite <- L; destruct (f_ps fs'); reflexivity).
    split; [exact IH1|exact IH2].
  - destruct (IHp fs V) as [E1 V1]. rewrite E1.
    destruct (run_fast true rp ctr p fs) as [xs fs1] eqn:EF1. cbn [fst snd] in *.
    pose proof (funforce_FV (length (l_cells (st_l (p_st (f_ps fs))))) fs fs1 V V1) as [EU VU].
    rewrite <- EU. destruct (IHq _ VU) as [E2 V2]. rewrite E2.
    destruct (run_fast true rp ctr q _) as [ys fs2] eqn:EF2. cbn [fst snd] in *. split; [reflexivity|exact V2].
  - set (fs' := mkF _ (f_b fs) (f_suf fs) (f_ml fs)).
    assert (V' : FV fs') by exact V.
    destruct (IHp fs' V') as [E1 V1]. split; [exact E1|exact V1].
Qed.

Lemma f_init_FV : FV (f_init rp cs).
Proof. split; [apply good_init; exact Hctr|]. split; reflexivity. Qed.
End Fast.

(* the evaluator used by the correspondence computes what the mirror computes, and its answers are those of the
   grammar on the plain list *)
Lemma run_fast_is_run_lazy_l : forall (A : Type) (p : parser A) (rp : bool) (n : nat) (cs : list N), 0 < n ->
  run_lazy true rp n p (mkP (st_init rp cs) []) =
    (fst (run_fast true rp n p (f_init rp cs)), f_ps (snd (run_fast true rp n p (f_init rp cs)))) /\
  fst (run_fast true rp n p (f_init rp cs)) = run_list cs p.
Proof.
  intros A p rp n cs Hn. pose proof (run_fast_eq cs n Hn rp p (f_init rp cs) (f_init_FV cs n Hn rp)) as [E _].
  split; [exact E|]. pose proof (phrase_lazy_eq_phrase_list_l A p rp n cs [] [] Hn) as [L _].
  unfold reach, run_script in L. cbn [fold_left] in L. cbn [f_init f_ps] in E. rewrite E in L. exact L.
Qed.
