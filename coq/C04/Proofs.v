(* C04 -- proofs about the number ordering mirror *)
From Coq Require Import ZArith List Bool Lia QArith.
From V Require Import Gen.Fixnum C04.Model.
Open Scope Z_scope.

(* ---------- structure of the ordering *)
Lemma cmp_antisym_l a b : num_cmp a b = CompOpp (num_cmp b a).
Proof. destruct a, b; cbn [num_cmp]; unfold qcmp; apply Z.compare_antisym. Qed.

Lemma cmp_int_exact_l a b : is_int a = true -> is_int b = true -> num_cmp a b = (ival a ?= ival b).
Proof. destruct a, b; cbn [is_int]; intros Ha Hb; try discriminate; reflexivity. Qed.

Definition qval (a : num) : Q := Qmake (qn a) (Z.to_pos (qd a)).

Lemma cmp_rat_exact_l a b : wf a -> wf b -> is_float a = false -> is_float b = false ->
  num_cmp a b = (qval a ?= qval b)%Q.
Proof.
  destruct a as [x|x|n1 d1|f], b as [y|y|n2 d2|g]; cbn [is_float wf]; intros Wa Wb Ha Hb; try discriminate;
    unfold Qcompare, qval; cbn [Qnum Qden qn qd num_cmp]; unfold qcmp;
    cbn [Z.to_pos]; rewrite ?Z2Pos.id by assumption; rewrite ?Z.mul_1_r; reflexivity.
Qed.

Lemma cmp_mixed_l a b : is_float a || is_float b = true -> num_cmp a b = (as_float a ?= as_float b).
Proof. destruct a, b; cbn [is_float orb]; intros H; try discriminate; reflexivity. Qed.

Lemma repr_irrelevant_l z c :
  num_cmp (Fix z) c = num_cmp (Big z) c /\ num_cmp c (Fix z) = num_cmp c (Big z).
Proof. destruct c; split; reflexivity. Qed.

Lemma trichotomy_l a b :
  (p_lt a b = true /\ p_eq a b = false /\ p_gt a b = false) \/
  (p_lt a b = false /\ p_eq a b = true /\ p_gt a b = false) \/
  (p_lt a b = false /\ p_eq a b = false /\ p_gt a b = true).
Proof. unfold p_lt, p_eq, p_gt. destruct (num_cmp a b); cbn; tauto. Qed.

Lemma six_consistent_l a b :
  p_le a b = negb (p_gt a b) /\ p_ge a b = negb (p_lt a b) /\ p_ne a b = negb (p_eq a b) /\
  p_le a b = p_lt a b || p_eq a b /\ p_ge a b = p_gt a b || p_eq a b /\
  p_gt a b = p_lt b a /\ p_ge a b = p_le b a /\ p_eq a b = p_eq b a /\ p_ne a b = p_ne b a.
Proof.
  unfold p_lt, p_eq, p_gt, p_le, p_ge, p_ne. rewrite (cmp_antisym_l b a).
  destruct (num_cmp a b); cbn; repeat split; reflexivity.
Qed.

Lemma mask_ok a b : mask a b = mask6 a b.
Proof. unfold mask, mask6, p_lt, p_eq, p_gt, p_le, p_ge, p_ne. destruct (num_cmp a b); reflexivity. Qed.

(* on exact numbers the order is the order of the rationals, hence transitive *)
Lemma exact_le_trans a b c : wf a -> wf b -> wf c ->
  is_float a = false -> is_float b = false -> is_float c = false ->
  p_le a b = true -> p_le b c = true -> p_le a c = true.
Proof.
  intros Wa Wb Wc Fa Fb Fc. unfold p_le.
  rewrite (cmp_rat_exact_l a b), (cmp_rat_exact_l b c), (cmp_rat_exact_l a c) by assumption.
  intros H1 H2.
  assert (L1 : (qval a <= qval b)%Q).
  { unfold Qle. unfold Qcompare in H1. destruct (_ ?= _)%Z eqn:E in H1; try discriminate;
      [apply Z.compare_eq in E; lia | rewrite Z.compare_lt_iff in E; lia]. }
  assert (L2 : (qval b <= qval c)%Q).
  { unfold Qle. unfold Qcompare in H2. destruct (_ ?= _)%Z eqn:E in H2; try discriminate;
      [apply Z.compare_eq in E; lia | rewrite Z.compare_lt_iff in E; lia]. }
  pose proof (Qle_trans _ _ _ L1 L2) as L3.
  unfold Qle in L3. unfold Qcompare.
  destruct (_ ?= _)%Z eqn:E; auto.
Qed.

(* ---------- the rounding *)
Lemma bitlen_bound z : 0 <= z -> z < 2 ^ bitlen z.
Proof.
  intros Hz. unfold bitlen. destruct (z <=? 0) eqn:E.
  - apply Z.leb_le in E. assert (z = 0) by lia. subst. reflexivity.
  - apply Z.leb_gt in E. pose proof (Z.log2_spec z E) as [_ H]. rewrite <- Z.add_1_r in H. exact H.
Qed.

Lemma bitlen_nonneg z : 0 <= bitlen z.
Proof. unfold bitlen. destruct (z <=? 0); [lia|]. pose proof (Z.log2_nonneg z). lia. Qed.

Lemma quantum_nonneg n d : 0 <= quantum n d.
Proof. unfold quantum. lia. Qed.

(* the quotient has at most 53 bits *)
Lemma quotient_bound n d : 0 <= n -> 0 < d ->
  (n * scale) / (d * 2 ^ quantum n d) < 2 ^ 53.
Proof.
  intros Hn Hd.
  assert (Hs : 0 < scale) by (unfold scale; apply Z.pow_pos_nonneg; lia).
  set (x := n * scale). assert (Hx : 0 <= x) by (unfold x; apply Z.mul_nonneg_nonneg; lia).
  assert (Hq := quantum_nonneg n d).
  assert (Hp : 0 < 2 ^ quantum n d) by (apply Z.pow_pos_nonneg; lia).
  rewrite <- Z.div_div by lia.
  assert (H0 : 0 <= x / d) by (apply Z.div_pos; lia).
  pose proof (bitlen_bound (x / d) H0) as Hb.
  unfold quantum in *. fold x in Hb, Hq, Hp |- *.
  set (L := bitlen (x / d)) in *.
  destruct (Z.max_spec 0 (L - 53)) as [[Hlt Hm]|[Hlt Hm]]; rewrite Hm in *.
  - (* L > 53 *)
    apply Z.div_lt_upper_bound; [lia|].
    rewrite <- Z.pow_add_r by lia. replace (L - 53 + 53) with L by lia. exact Hb.
  - rewrite Z.pow_0_r, Z.div_1_r.
    eapply Z.lt_le_trans; [exact Hb|]. apply Z.pow_le_mono_r; lia.
Qed.

Lemma rne_representable n d : 0 <= n -> 0 < d -> representable (rne_pos n d).
Proof.
  intros Hn Hd. unfold rne_pos.
  pose proof (quotient_bound n d Hn Hd) as Hq.
  assert (Hs : 0 < scale) by (unfold scale; apply Z.pow_pos_nonneg; lia).
  assert (Hp : 0 < 2 ^ quantum n d) by (apply Z.pow_pos_nonneg; [lia | apply quantum_nonneg]).
  assert (Hden : 0 < d * 2 ^ quantum n d) by (apply Z.mul_pos_pos; lia).
  assert (Hq0 : 0 <= n * scale / (d * 2 ^ quantum n d))
    by (apply Z.div_pos; [apply Z.mul_nonneg_nonneg; lia | lia]).
  set (q := n * scale / (d * 2 ^ quantum n d)) in *.
  set (m := if 2 * _ <? _ then q else _).
  assert (Hm : 0 <= m <= 2 ^ 53).
  { unfold m. destruct (_ <? _); [lia|]. destruct (_ <? _); [lia|]. destruct (Z.even q); lia. }
  destruct (Z.min_spec (m * 2 ^ quantum n d) inf_scaled) as [[_ E]|[_ E]]; rewrite E.
  - exists m, (quantum n d). split; [apply quantum_nonneg|]. split; [rewrite Z.abs_eq; lia | reflexivity].
  - exists (2 ^ 53), 2045. split; [lia|]. split; [rewrite Z.abs_eq; lia | reflexivity].
Qed.

(* the result is within half a quantum of the exact value (unless clamped to infinity) *)
Lemma rne_half_quantum n d : 0 <= n -> 0 < d -> rne_pos n d < inf_scaled ->
  2 * Z.abs (rne_pos n d * d - n * scale) <= d * 2 ^ quantum n d.
Proof.
  intros Hn Hd. unfold rne_pos.
  assert (Hp : 0 < 2 ^ quantum n d) by (apply Z.pow_pos_nonneg; [lia | apply quantum_nonneg]).
  set (P := 2 ^ quantum n d) in *.
  assert (Hden : 0 < d * P) by (apply Z.mul_pos_pos; lia).
  set (den := d * P) in *. set (x := n * scale).
  pose proof (Z.div_mod x den ltac:(lia)) as Hdm.
  pose proof (Z.mod_pos_bound x den Hden) as Hr.
  set (q := x / den) in *. set (r := x mod den) in *.
  set (m := if 2 * r <? den then q else _).
  intros Hc. rewrite Z.min_l by lia.
  replace (m * P * d) with (m * den) by (unfold den; ring).
  unfold m. destruct (2 * r <? den) eqn:E1.
  - apply Z.ltb_lt in E1. replace (q * den - x) with (- r) by lia. rewrite Z.abs_opp, Z.abs_eq; lia.
  - apply Z.ltb_ge in E1. destruct (den <? 2 * r) eqn:E2.
    + apply Z.ltb_lt in E2. replace ((q + 1) * den - x) with (den - r) by lia. rewrite Z.abs_eq; lia.
    + apply Z.ltb_ge in E2. destruct (Z.even q).
      * replace (q * den - x) with (- r) by lia. rewrite Z.abs_opp, Z.abs_eq; lia.
      * replace ((q + 1) * den - x) with (den - r) by lia. rewrite Z.abs_eq; lia.
Qed.

(* integers of at most 53 bits convert exactly *)
Lemma i2f_exact_pos z : 0 < z < 2 ^ 53 -> rne_pos z 1 = z * scale.
Proof.
  intros Hz. unfold rne_pos, quantum. rewrite Z.div_1_r.
  assert (HL : 0 <= Z.log2 z < 53).
  { split; [apply Z.log2_nonneg|]. apply Z.log2_lt_pow2; lia. }
  assert (Hx : 0 < z * scale) by (apply Z.mul_pos_pos; [lia | unfold scale; apply Z.pow_pos_nonneg; lia]).
  assert (Hb : bitlen (z * scale) = Z.log2 z + 1075).
  { unfold bitlen. destruct (z * scale <=? 0) eqn:E; [apply Z.leb_le in E; lia|].
    unfold scale. rewrite Z.log2_mul_pow2 by lia. lia. }
  rewrite Hb. rewrite Z.max_r by lia.
  set (s := Z.log2 z + 1075 - 53). rewrite !Z.mul_1_l.
  assert (Hsplit : z * scale = (z * 2 ^ (52 - Z.log2 z)) * 2 ^ s).
  { unfold scale, s. rewrite <- Z.mul_assoc, <- Z.pow_add_r by lia. f_equal. f_equal. lia. }
  assert (Hp : 0 < 2 ^ s) by (apply Z.pow_pos_nonneg; unfold s; lia).
  assert (Hmod : (z * scale) mod 2 ^ s = 0) by (rewrite Hsplit; apply Z.mod_mul; lia).
  assert (Hdiv : z * scale / 2 ^ s = z * 2 ^ (52 - Z.log2 z)) by (rewrite Hsplit; apply Z.div_mul; lia).
  rewrite Hmod, Hdiv.
  replace (2 * 0 <? 2 ^ s) with true by (symmetry; apply Z.ltb_lt; lia).
  rewrite <- Hsplit. apply Z.min_l.
  unfold inf_scaled, scale. replace 2098 with (1024 + 1074) by reflexivity. rewrite Z.pow_add_r by lia.
  apply Z.mul_le_mono_nonneg_r; [apply Z.pow_nonneg; lia|].
  assert (2 ^ 53 <= 2 ^ 1024) by (apply Z.pow_le_mono_r; lia). lia.
Qed.

Lemma i2f_exact_l z : Z.abs z <= 2 ^ 53 -> i2f z = z * scale.
Proof.
  intros Hz. unfold i2f, to_f.
  destruct (z <? 0) eqn:E.
  - apply Z.ltb_lt in E.
    assert (C : - z = 2 ^ 53 \/ 0 < - z < 2 ^ 53) by lia.
    destruct C as [C|C].
    + replace z with (- 2 ^ 53) by lia. vm_compute. reflexivity.
    + rewrite i2f_exact_pos by lia. ring.
  - apply Z.ltb_ge in E.
    assert (C : z = 0 \/ z = 2 ^ 53 \/ 0 < z < 2 ^ 53) by lia.
    destruct C as [C|[C|C]].
    + subst. vm_compute. reflexivity.
    + subst. vm_compute. reflexivity.
    + apply i2f_exact_pos. exact C.
Qed.

(* a finite double decodes to a representable scaled integer *)
Lemma fint_representable b : finite_bits b = true -> representable (fint b).
Proof.
  intros Hf. unfold finite_bits in Hf. rewrite !andb_true_iff in Hf. destruct Hf as [[H0 H1] H2].
  assert (Hm : 0 <= f_man b < 2 ^ 52) by (unfold f_man; apply Z.mod_pos_bound; lia).
  assert (He : 0 <= f_exp b < 2 ^ 11) by (unfold f_exp; apply Z.mod_pos_bound; lia).
  assert (R : representable (fmag b)).
  { unfold fmag. destruct (f_exp b =? 0) eqn:E.
    - exists (f_man b), 0. split; [lia|]. split; [rewrite Z.abs_eq; lia | ring].
    - apply Z.eqb_neq in E. exists (2 ^ 52 + f_man b), (f_exp b - 1).
      split; [lia|]. split; [rewrite Z.abs_eq; lia | reflexivity]. }
  unfold fint. destruct (f_neg b); [|exact R].
  destruct R as (m & s & Hs & Hb & Hv). exists (- m), s. split; [exact Hs|]. split; [rewrite Z.abs_opp; exact Hb|].
  rewrite Hv. ring.
Qed.

Lemma to_f_representable n d : 0 < d -> representable (to_f n d).
Proof.
  intros Hd. unfold to_f. destruct (n <? 0) eqn:E.
  - apply Z.ltb_lt in E. destruct (rne_representable (- n) d ltac:(lia) Hd) as (m & s & Hs & Hb & Hv).
    exists (- m), s. split; [exact Hs|]. split; [rewrite Z.abs_opp; exact Hb|]. rewrite Hv. ring.
  - apply Z.ltb_ge in E. apply rne_representable; assumption.
Qed.
