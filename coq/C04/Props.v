(* C04 -- pinned property theorems (nothing else lives here) *)
From Coq Require Import ZArith List Bool QArith.
From V Require Import Gen.Fixnum C04.Model C04.Proofs.
Open Scope Z_scope.

(* integers of either representation compare exactly as their values *)
Theorem cmp_int_exact : forall a b, is_int a = true -> is_int b = true -> num_cmp a b = (ival a ?= ival b).
Proof. exact cmp_int_exact_l. Qed.
Print Assumptions cmp_int_exact.

(* integers and rationals of any size compare exactly as the rational numbers they denote *)
Theorem cmp_rat_exact : forall a b, wf a -> wf b -> is_float a = false -> is_float b = false ->
  num_cmp a b = (qval a ?= qval b)%Q.
Proof. exact cmp_rat_exact_l. Qed.
Print Assumptions cmp_rat_exact.

(* as soon as one side is a float, both sides are compared as doubles by value *)
Theorem cmp_mixed_is_float_cmp : forall a b, is_float a || is_float b = true ->
  num_cmp a b = (as_float a ?= as_float b).
Proof. exact cmp_mixed_l. Qed.
Print Assumptions cmp_mixed_is_float_cmp.

Theorem cmp_antisym : forall a b, num_cmp a b = CompOpp (num_cmp b a).
Proof. exact cmp_antisym_l. Qed.
Print Assumptions cmp_antisym.

(* exactly one of <, =:=, > holds *)
Theorem trichotomy : forall a b,
  (p_lt a b = true /\ p_eq a b = false /\ p_gt a b = false) \/
  (p_lt a b = false /\ p_eq a b = true /\ p_gt a b = false) \/
  (p_lt a b = false /\ p_eq a b = false /\ p_gt a b = true).
Proof. exact trichotomy_l. Qed.
Print Assumptions trichotomy.

(* the six predicates agree with each other, also across swapped operands *)
Theorem six_consistent : forall a b,
  p_le a b = negb (p_gt a b) /\ p_ge a b = negb (p_lt a b) /\ p_ne a b = negb (p_eq a b) /\
  p_le a b = p_lt a b || p_eq a b /\ p_ge a b = p_gt a b || p_eq a b /\
  p_gt a b = p_lt b a /\ p_ge a b = p_le b a /\ p_eq a b = p_eq b a /\ p_ne a b = p_ne b a.
Proof. exact six_consistent_l. Qed.
Print Assumptions six_consistent.

(* a small-integer cell and a bignum cell holding the same value are indistinguishable, on either side *)
Theorem eq_repr_irrelevant : forall z c,
  num_cmp (Fix z) c = num_cmp (Big z) c /\ num_cmp c (Fix z) = num_cmp c (Big z).
Proof. exact repr_irrelevant_l. Qed.
Print Assumptions eq_repr_irrelevant.

(* among exact numbers =< is transitive (it is the order of Q) *)
Theorem exact_order_transitive : forall a b c, wf a -> wf b -> wf c ->
  is_float a = false -> is_float b = false -> is_float c = false ->
  p_le a b = true -> p_le b c = true -> p_le a c = true.
Proof. exact exact_le_trans. Qed.
Print Assumptions exact_order_transitive.

(* the conversion used against floats: always yields (the value of) a double, within half a quantum of
   the exact value, and is the identity on integers of at most 53 bits *)
Theorem conversion_yields_double : forall n d, 0 < d -> representable (to_f n d).
Proof. exact to_f_representable. Qed.
Print Assumptions conversion_yields_double.

Theorem conversion_nearest : forall n d, 0 <= n -> 0 < d -> rne_pos n d < inf_scaled ->
  2 * Z.abs (rne_pos n d * d - n * scale) <= d * 2 ^ quantum n d.
Proof. exact rne_half_quantum. Qed.
Print Assumptions conversion_nearest.

Theorem int_to_float_exact_53 : forall z, Z.abs z <= 2 ^ 53 -> i2f z = z * scale.
Proof. exact i2f_exact_l. Qed.
Print Assumptions int_to_float_exact_53.

Theorem float_decodes_to_double : forall b, finite_bits b = true -> representable (fint b).
Proof. exact fint_representable. Qed.
Print Assumptions float_decodes_to_double.

(* the packed observation compared in the correspondence is exactly the six predicates *)
Theorem mask_is_six_predicates : forall a b, mask a b = mask6 a b.
Proof. exact mask_ok. Qed.
Print Assumptions mask_is_six_predicates.

(* ---------- examples / non-vacuity *)
Definition f_2p53 : Z := 4845873199050653696.   (* 0x4340000000000000 = 9007199254740992.0 *)
Example ex_wf : wf (Fix (2 ^ 53 + 1)) /\ wf (Flt f_2p53) /\ wf (Rat 1 3) /\ wf (Big (2 ^ 64)).
Proof. vm_compute. repeat split. Qed.
(* the property does not ask for transitivity across the float conversion, and it does not hold: *)
Example mixed_not_transitive_example :
  p_eq (Fix (2 ^ 53 + 1)) (Flt f_2p53) = true /\ p_eq (Flt f_2p53) (Fix (2 ^ 53)) = true /\
  p_eq (Fix (2 ^ 53 + 1)) (Fix (2 ^ 53)) = false.
Proof. vm_compute. repeat split. Qed.
Example ex_neg_zero : p_eq (Flt (2 ^ 63)) (Flt 0) = true.
Proof. vm_compute. reflexivity. Qed.
Example ex_tenth : num_cmp (Rat 1 10) (Flt 4591870180066957722) = Eq /\ bits_of_scaled (r2f 1 10) = 4591870180066957722.
Proof. vm_compute. split; reflexivity. Qed.
(* 2^53 + 1 + 1/3 lies above the midpoint of 2^53 and 2^53+2: the nearest double is 2^53+2, so it is > 2^53.0 *)
Example ex_above_midpoint : num_cmp (Rat 27021597764222980 3) (Flt f_2p53) = Gt
  /\ bits_of_scaled (r2f 27021597764222980 3) = f_2p53 + 1.
Proof. vm_compute. split; reflexivity. Qed.
Example ex_huge : num_cmp (Big (2 ^ 2000)) (Flt 9218868437227405311) = Gt.   (* > the largest finite double *)
Proof. vm_compute. reflexivity. Qed.
Example ex_subnormal : num_cmp (Rat 1 (2 ^ 1074)) (Flt 1) = Eq /\ num_cmp (Rat 1 (2 ^ 1075)) (Flt 0) = Eq.
Proof. vm_compute. split; reflexivity. Qed.
