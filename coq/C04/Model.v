(* C04 -- impl-mirror model of the number ordering (src/arithmetic.rs `impl Ord for Number`, 16 arms) that
   every arithmetic comparison instruction of src/machine/dispatch.rs consults (`n1.cmp(&n2)`).
   No proofs in this file.

   Numbers: Fixnum cell, bignum cell (dashu IBig = Z), rational cell (dashu RBig = n/d, d > 0), float cell
   (the 64 IEEE-754 bits, as an unsigned Z).  A double is decoded to the INTEGER  value * 2^1074  (every finite
   double is a multiple of 2^-1074), so that doubles are compared by value with Z.compare; -0.0 and 0.0 both
   decode to 0.  Integer -> double (`i64 as f64`, IBig::to_f64) and rational -> double (RBig::to_f64) are modelled
   as the correctly rounded (round to nearest, ties to even) conversion, written in plain Z arithmetic. *)
From Coq Require Import ZArith List Bool.
From V Require Import Gen.Fixnum.
Import ListNotations.
Open Scope Z_scope.

Inductive num := Fix (z : Z) | Big (z : Z) | Rat (n d : Z) | Flt (bits : Z).

Definition in_fix (z : Z) : bool := (fix_min <=? z) && (z <=? fix_max).

(* exponent field / mantissa field / sign of the 64 bits *)
Definition f_exp (b : Z) : Z := (b / 2 ^ 52) mod 2 ^ 11.
Definition f_man (b : Z) : Z := b mod 2 ^ 52.
Definition f_neg (b : Z) : bool := (b / 2 ^ 63) mod 2 =? 1.

Definition finite_bits (b : Z) : bool := (0 <=? b) && (b <? 2 ^ 64) && negb (f_exp b =? 2047).

Definition wf (a : num) : Prop :=
  match a with
  | Fix z => in_fix z = true
  | Big _ => True
  | Rat n d => 0 < d
  | Flt b => finite_bits b = true
  end.

(* ---------- doubles as scaled integers:  fint b = value(b) * 2^1074 *)
Definition scale : Z := 2 ^ 1074.
Definition inf_scaled : Z := 2 ^ 2098.          (* what the formula gives for the bits of +infinity *)

Definition fmag (b : Z) : Z :=
  if f_exp b =? 0 then f_man b else (2 ^ 52 + f_man b) * 2 ^ (f_exp b - 1).
Definition fint (b : Z) : Z := if f_neg b then - fmag b else fmag b.

(* ---------- correctly rounded conversion of n/d (n >= 0, d > 0) to a double, as a scaled integer.
   x = n/d * 2^1074; the doubles near x are the multiples of 2^s, s = max 0 (bitlen (floor x) - 53);
   round x to the nearest multiple, ties to the even multiple; beyond the largest finite double: infinity *)
Definition bitlen (z : Z) : Z := if z <=? 0 then 0 else Z.log2 z + 1.

Definition quantum (n d : Z) : Z := Z.max 0 (bitlen ((n * scale) / d) - 53).

Definition rne_pos (n d : Z) : Z :=
  let x := n * scale in
  let s := quantum n d in
  let den := d * 2 ^ s in
  let q := x / den in
  let r := x mod den in
  let m := if 2 * r <? den then q
           else if den <? 2 * r then q + 1
           else if Z.even q then q else q + 1 in
  Z.min (m * 2 ^ s) inf_scaled.

Definition to_f (n d : Z) : Z := if n <? 0 then - rne_pos (- n) d else rne_pos n d.

Definition i2f (z : Z) : Z := to_f z 1.          (* `n as f64`, IBig::to_f64().value() *)
Definition r2f (n d : Z) : Z := to_f n d.        (* RBig::to_f64().value() *)

(* exact comparison of n1/d1 with n2/d2 (positive denominators): cross multiplication *)
Definition qcmp (n1 d1 n2 d2 : Z) : comparison := (n1 * d2 ?= n2 * d1).

(* ---------- Ord::cmp for Number, arm by arm *)
Definition num_cmp (a b : num) : comparison :=
  match a, b with
  | Fix x, Fix y => x ?= y
  | Fix x, Big y => x ?= y
  | Big x, Fix y => x ?= y
  | Fix x, Rat n d => qcmp x 1 n d
  | Rat n d, Fix y => qcmp n d y 1
  | Fix x, Flt f => i2f x ?= fint f
  | Flt f, Fix y => fint f ?= i2f y
  | Big x, Big y => x ?= y
  | Big x, Flt f => i2f x ?= fint f
  | Flt f, Big y => fint f ?= i2f y
  | Big x, Rat n d => qcmp x 1 n d
  | Rat n d, Big y => qcmp n d y 1
  | Rat n d, Flt f => r2f n d ?= fint f
  | Flt f, Rat n d => fint f ?= r2f n d
  | Flt f, Flt g => fint f ?= fint g
  | Rat n1 d1, Rat n2 d2 => qcmp n1 d1 n2 d2
  end.

(* ---------- the six comparison predicates (dispatch.rs: match n1.cmp(&n2) { ... }) *)
Definition is_lt (c : comparison) : bool := match c with Lt => true | _ => false end.
Definition is_eq (c : comparison) : bool := match c with Eq => true | _ => false end.
Definition is_gt (c : comparison) : bool := match c with Gt => true | _ => false end.

Definition p_lt (a b : num) : bool := is_lt (num_cmp a b).
Definition p_eq (a b : num) : bool := is_eq (num_cmp a b).
Definition p_gt (a b : num) : bool := is_gt (num_cmp a b).
Definition p_le (a b : num) : bool := match num_cmp a b with Lt | Eq => true | Gt => false end.
Definition p_ge (a b : num) : bool := match num_cmp a b with Gt | Eq => true | Lt => false end.
Definition p_ne (a b : num) : bool := match num_cmp a b with Eq => false | _ => true end.

(* ---------- values, for the statements *)
Definition is_float (a : num) : bool := match a with Flt _ => true | _ => false end.
Definition is_int (a : num) : bool := match a with Fix _ | Big _ => true | _ => false end.
Definition ival (a : num) : Z := match a with Fix z | Big z => z | _ => 0 end.

(* numerator / denominator of an exact (non-float) number *)
Definition qn (a : num) : Z := match a with Fix z | Big z => z | Rat n _ => n | Flt _ => 0 end.
Definition qd (a : num) : Z := match a with Rat _ d => d | _ => 1 end.

(* the double (scaled) that a number is compared as when the other side is a float *)
Definition as_float (a : num) : Z :=
  match a with Fix z | Big z => i2f z | Rat n d => r2f n d | Flt f => fint f end.

(* a scaled integer is (the value of) a double: a multiple of 2^s with at most 53 significant bits *)
Definition representable (v : Z) : Prop :=
  exists m s, 0 <= s /\ Z.abs m <= 2 ^ 53 /\ v = m * 2 ^ s.

(* ---------- correspondence: the six truth values observed on the implementation, packed
   lt*1 + eq*2 + gt*4 + le*8 + ge*16 + ne*32 *)
Definition b2z (b : bool) : Z := if b then 1 else 0.
Definition mask_of (c : comparison) : Z :=
  match c with Lt => 1 + 8 + 32 | Eq => 2 + 8 + 16 | Gt => 4 + 16 + 32 end.
Definition mask6 (a b : num) : Z :=
  b2z (p_lt a b) + 2 * b2z (p_eq a b) + 4 * b2z (p_gt a b) + 8 * b2z (p_le a b)
  + 16 * b2z (p_ge a b) + 32 * b2z (p_ne a b).
Definition mask (a b : num) : Z := mask_of (num_cmp a b).     (* = mask6 a b, C04/Proofs.v mask_ok *)
Definition check_cmp (a b : num) (observed : Z) : bool := mask a b =? observed.

(* bits of the double nearest to n/d (for display and for the generator's self-test) *)
Definition encode_scaled (v : Z) : Z :=      (* v >= 0 representable or inf_scaled *)
  if v <? 2 ^ 52 then v
  else let e := Z.log2 v - 52 in (e + 1) * 2 ^ 52 + (v / 2 ^ e - 2 ^ 52).
Definition bits_of_scaled (v : Z) : Z := if v <? 0 then 2 ^ 63 + encode_scaled (- v) else encode_scaled v.

(* big integers are written by the generator as little-endian lists of 60-bit limbs (Coq parses long number
   literals very slowly) *)
Definition zl (ls : list Z) : Z := fold_right (fun l acc => l + 2 ^ 60 * acc) 0 ls.
