(* C22 -- pinned property theorems (nothing else lives here) *)
From Coq Require Import ZArith NArith List Bool Sorted.
From V Require Import Base.Term C22.Model C22.Proofs.
Import ListNotations.
Open Scope Z_scope.

(* sub_atom(S, B, L, A, Sub) with each of B, L, A, Sub given or unbound, for ALL code point lists S:
   sound and complete (an answer (b, l, a, sub) is listed iff S = pre ++ sub ++ post with |pre| = b, |sub| = l, |post| = a
   and it agrees with the given arguments), duplicate-free, and in ISO order (B ascending, then L ascending). *)
Theorem sub_atom_enum_exact : forall s ob ol oa os,
  (forall b l a sub, In (b, l, a, sub) (sub_atom_enum s ob ol oa os) <->
     (exists pre post, s = pre ++ sub ++ post /\ length pre = b /\ length sub = l /\ length post = a) /\
     (forall z, ob = Some z -> z = Z.of_nat b) /\ (forall z, ol = Some z -> z = Z.of_nat l) /\
     (forall z, oa = Some z -> z = Z.of_nat a) /\ (forall t, os = Some t -> t = sub)) /\
  NoDup (sub_atom_enum s ob ol oa os) /\
  StronglySorted iso_before (sub_atom_enum s ob ol oa os).
Proof. exact sub_atom_exact. Qed.
Print Assumptions sub_atom_enum_exact.

(* atom_concat/3: mode (-,-,+) lists exactly the splits P ++ Q = S, once each, by increasing length of P;
   the other modes are concatenation, its test, and prefix / suffix removal *)
Theorem atom_concat_enum_exact : forall s,
  (forall v1 v2, atom_concat_model (Var v1) (Var v2) (Atom s) = Answers (map (fun pq => [Atom (fst pq); Atom (snd pq)]) (splits s))) /\
  (forall p q, In (p, q) (splits s) <-> p ++ q = s) /\
  NoDup (splits s) /\
  map (fun pq => length (fst pq)) (splits s) = seq 0 (S (length s)) /\
  (forall s1 s2 v, atom_concat_model (Atom s1) (Atom s2) (Var v) = Answers [[Atom (s1 ++ s2)]]) /\
  (forall s1 s2, atom_concat_model (Atom s1) (Atom s2) (Atom s) = yes <-> s1 ++ s2 = s) /\
  (forall s1 v, atom_concat_model (Atom s1) (Var v) (Atom s) = match strip_prefix s1 s with Some r => Answers [[Atom r]] | None => no end) /\
  (forall s2 v, atom_concat_model (Var v) (Atom s2) (Atom s) = match strip_suffix s2 s with Some r => Answers [[Atom r]] | None => no end) /\
  (forall p r, strip_prefix p s = Some r <-> s = p ++ r) /\
  (forall q r, strip_suffix q s = Some r <-> s = r ++ q).
Proof. exact atom_concat_exact. Qed.
Print Assumptions atom_concat_enum_exact.

(* atom_length/2 is the number of code points (not bytes) *)
Theorem atom_length_is_char_count :
  (forall s v, atom_length_model (Atom s) (Var v) = Answers [[Int (Z.of_nat (length s))]]) /\
  (forall s n, 0 <= n -> (atom_length_model (Atom s) (Int n) = yes <-> n = Z.of_nat (length s))).
Proof. exact (conj atom_length_count atom_length_check). Qed.
Print Assumptions atom_length_is_char_count.

(* atom_chars/2 and atom_codes/2 are inverse in their two modes and agree through char_code/2 *)
Theorem atom_codes_chars_consistent :
  (forall s v, atom_chars_model (Atom s) (Var v) = Answers [[tstring s]]) /\
  (forall s v, atom_codes_model (Atom s) (Var v) = Answers [[tlist (map tcode s)]]) /\
  (forall s v, atom_chars_model (Var v) (tstring s) = Answers [[Atom s]]) /\
  (forall s v, forallb (fun c => valid_code (Z.of_N c)) s = true -> atom_codes_model (Var v) (tlist (map tcode s)) = Answers [[Atom s]]) /\
  (forall c v, valid_code (Z.of_N c) = true ->
     char_code_model (Var v) (Int (Z.of_N c)) = Answers [[tchar c]] /\ char_code_model (tchar c) (Var v) = Answers [[Int (Z.of_N c)]]).
Proof. exact codes_chars_consistent. Qed.
Print Assumptions atom_codes_chars_consistent.

(* the ISO error table *)
Theorem errors_per_mode :
  ((forall v B L Af Sub, sub_atom_model (Var v) B L Af Sub = Error FInst) /\
   (forall A B L Af Sub, is_var A = false -> (forall s, A <> Atom s) -> sub_atom_model A B L Af Sub = Error (FType atom_nm A)) /\
   (forall s B L Af Sub, is_var Sub = false -> (forall t, Sub <> Atom t) ->
      sub_atom_model (Atom s) B L Af Sub = Error (FType atom_nm Sub)) /\
   (forall s L Af Sub n, can_be_atom Sub = None -> can_be_int L = None -> can_be_int Af = None -> n < 0 ->
      sub_atom_model (Atom s) (Int n) L Af Sub = Error (FDomNLZ (Int n)))) /\
  ((forall a b, char_code_model (Var a) (Var b) = Error FInst) /\
   (forall v n, valid_code n = false -> char_code_model (Var v) (Int n) = Error FRepCC) /\
   (forall s Co, length s <> 1%nat -> char_code_model (Atom s) Co = Error (FType character_nm (Atom s)))) /\
  ((forall v Len, atom_length_model (Var v) Len = Error FInst) /\
   (forall A Len, is_var A = false -> (forall s, A <> Atom s) -> atom_length_model A Len = Error (FType atom_nm A)) /\
   (forall s n, n < 0 -> atom_length_model (Atom s) (Int n) = Error (FDomNLZ (Int n)))) /\
  ((forall a b c, atom_concat_model (Var a) (Var b) (Var c) = Error FInst) /\
   (forall s b c, atom_concat_model (Atom s) (Var b) (Var c) = Error FInst) /\
   (forall a s c, atom_concat_model (Var a) (Atom s) (Var c) = Error FInst) /\
   (forall A1 A2 A12, is_var A1 = false -> (forall s, A1 <> Atom s) -> atom_concat_model A1 A2 A12 = Error (FType atom_nm A1))).
Proof. exact (conj sub_atom_errors (conj char_code_errors (conj atom_length_errors atom_concat_errors))). Qed.
Print Assumptions errors_per_mode.

(* the comparison used by the correspondence accepts an observation only if it IS the model's observation *)
Theorem check_is_equality : forall r o, check r o = true -> o = observe K r.
Proof. exact check_sound. Qed.
Print Assumptions check_is_equality.

(* non-vacuity *)
Example ex_sub_atom : sub_atom_enum [97; 233; 128512]%N None (Some 2) None None =
  [(0%nat, 2%nat, 1%nat, [97; 233]%N); (1%nat, 2%nat, 0%nat, [233; 128512]%N)].
Proof. vm_compute. reflexivity. Qed.
Example ex_sub_atom_model : sub_atom_model (Atom [97; 98]%N) (Var 0%N) (Var 1%N) (Int 0) (Var 3%N) =
  Answers [[Int 0; Int 2; Atom [97; 98]%N]; [Int 1; Int 1; Atom [98]%N]; [Int 2; Int 0; Atom []]].
Proof. vm_compute. reflexivity. Qed.
Example ex_concat : atom_concat_model (Var 0%N) (Var 1%N) (Atom [233; 26085]%N) =
  Answers [[Atom []; Atom [233; 26085]%N]; [Atom [233]%N; Atom [26085]%N]; [Atom [233; 26085]%N; Atom []]].
Proof. vm_compute. reflexivity. Qed.
Example ex_codes_err : atom_codes_model (Var 0%N) (tlist [Int 97; Int 55296]) = Error FRepCC.
Proof. vm_compute. reflexivity. Qed.
Example ex_chars_partial : atom_chars_model (Atom [97; 98; 99]%N) (tlist_tail [tchar 97%N; Var 1%N] (Var 2%N)) =
  Answers [[tchar 98%N; tstring [99%N]]].
Proof. vm_compute. reflexivity. Qed.
