(* C22 -- lemmas about the enumerators of Model.v *)
From Coq Require Import ZArith NArith List Bool Lia Sorted.
From V Require Import Base.Term C22.Model.
Import ListNotations.
Open Scope Z_scope.

(* ------------------------------------------------------------------ generic list facts *)
Lemma sorted_app : forall (A : Type) (R : A -> A -> Prop) (l1 l2 : list A),
  StronglySorted R l1 -> StronglySorted R l2 -> (forall u v, In u l1 -> In v l2 -> R u v) -> StronglySorted R (l1 ++ l2).
Proof.
  intros A R l1 l2 H1 H2 Hc. induction H1 as [|a l Hs IH Ha]; [exact H2|].
  cbn [app]. constructor.
  - apply IH. intros u v Hu Hv. apply Hc; [now right | exact Hv].
  - apply Forall_app. split; [exact Ha|]. apply Forall_forall. intros v Hv. apply Hc; [now left | exact Hv].
Qed.

Lemma sorted_flat_map : forall (A B : Type) (RA : A -> A -> Prop) (R : B -> B -> Prop) (f : A -> list B) (l : list A),
  StronglySorted RA l -> (forall x, In x l -> StronglySorted R (f x)) ->
  (forall x y, RA x y -> forall u v, In u (f x) -> In v (f y) -> R u v) -> StronglySorted R (flat_map f l).
Proof.
  intros A B RA R f l Hl Hf Hc. induction Hl as [|a l Hs IH Ha]; [constructor|].
  cbn [flat_map]. apply sorted_app.
  - apply Hf. now left.
  - apply IH. intros x Hx. apply Hf. now right.
  - intros u v Hu Hv. apply in_flat_map in Hv. destruct Hv as (y & Hy & Hv).
    rewrite Forall_forall in Ha. exact (Hc a y (Ha y Hy) u v Hu Hv).
Qed.

Lemma sorted_map : forall (A B : Type) (R : B -> B -> Prop) (f : A -> B) (l : list A),
  StronglySorted (fun a b => R (f a) (f b)) l <-> StronglySorted R (map f l).
Proof.
  intros A B R f l. induction l as [|a l IH]; cbn [map]; split; intro H; try constructor;
    inversion H as [|a' l' Hs Ha]; subst.
  - now apply IH.
  - rewrite Forall_forall in *. intros y Hy. apply in_map_iff in Hy. destruct Hy as (x & <- & Hx). now apply Ha.
  - now apply IH.
  - rewrite Forall_forall in *. intros x Hx. apply Ha. now apply in_map.
Qed.

Lemma seq_sorted : forall n a, StronglySorted lt (seq a n).
Proof.
  induction n as [|n IH]; intros a; cbn [seq]; constructor; [apply IH|].
  apply Forall_forall. intros x Hx. apply in_seq in Hx. lia.
Qed.

Lemma sorted_filter : forall (A : Type) (R : A -> A -> Prop) (p : A -> bool) (l : list A),
  StronglySorted R l -> StronglySorted R (filter p l).
Proof.
  intros A R p l H. induction H as [|a l Hs IH Ha]; cbn [filter]; [constructor|].
  destruct (p a); [|exact IH]. constructor; [exact IH|].
  rewrite Forall_forall in *. intros x Hx. apply filter_In in Hx. now apply Ha.
Qed.

Lemma sorted_impl : forall (A : Type) (R R' : A -> A -> Prop) (l : list A),
  (forall a b, R a b -> R' a b) -> StronglySorted R l -> StronglySorted R' l.
Proof.
  intros A R R' l Hi H. induction H as [|a l Hs IH Ha]; constructor; [exact IH|].
  rewrite Forall_forall in *. intros x Hx. apply Hi. now apply Ha.
Qed.

Lemma sorted_irrefl_nodup : forall (A : Type) (R : A -> A -> Prop) (l : list A),
  (forall x, ~ R x x) -> StronglySorted R l -> NoDup l.
Proof.
  intros A R l Hir H. induction H as [|a l Hs IH Ha]; constructor; [|exact IH].
  intro Hin. rewrite Forall_forall in Ha. exact (Hir a (Ha a Hin)).
Qed.

(* ------------------------------------------------------------------ splits = append/3 *)
Lemma splits_In : forall (A : Type) (s p q : list A), In (p, q) (splits s) <-> p ++ q = s.
Proof.
  intros A s. induction s as [|x r IH]; intros p q; cbn [splits In].
  - split.
    + intros [[= <- <-]|[]]. reflexivity.
    + intro H. left. apply app_eq_nil in H. destruct H as [-> ->]. reflexivity.
  - rewrite in_map_iff. split.
    + intros [[= <- <-]|((p', q') & [= <- <-] & Hin)]; [reflexivity|].
      cbn [fst snd app]. f_equal. now apply IH.
    + intro H. destruct p as [|y p'].
      * left. cbn [app] in H. now subst q.
      * right. cbn [app] in H. injection H as -> H. exists (p', q). split; [reflexivity|]. now apply IH.
Qed.

Lemma splits_lengths : forall (A : Type) (s : list A), map (fun pq => length (fst pq)) (splits s) = seq 0 (S (length s)).
Proof.
  intros A s. induction s as [|x r IH]; [reflexivity|].
  cbn [splits map fst length]. rewrite map_map. cbn [fst length].
  change (seq 0 (S (S (length r)))) with (0%nat :: seq 1 (S (length r))). f_equal.
  rewrite <- seq_shift. rewrite <- IH. rewrite map_map. reflexivity.
Qed.

Lemma splits_sorted : forall (A : Type) (s : list A),
  StronglySorted (fun a b : list A * list A => (length (fst a) < length (fst b))%nat) (splits s).
Proof.
  intros A s. apply (sorted_map _ _ lt (fun pq : list A * list A => length (fst pq))).
  rewrite splits_lengths. apply seq_sorted.
Qed.

Lemma splits_NoDup : forall (A : Type) (s : list A), NoDup (splits s).
Proof.
  intros A s. apply (sorted_irrefl_nodup _ _ _ (fun x => Nat.lt_irrefl (length (fst x))) (splits_sorted A s)).
Qed.

Lemma splits_length : forall (A : Type) (s : list A), length (splits s) = S (length s).
Proof. intros A s. rewrite <- (map_length (fun pq => length (fst pq))), splits_lengths. apply seq_length. Qed.

(* ------------------------------------------------------------------ sub_atom/5 *)
Definition key (x : sub4) : nat * nat := (fst (fst (fst x)), snd (fst (fst x))).
Definition lex (p q : nat * nat) : Prop := (fst p < fst q)%nat \/ (fst p = fst q /\ (snd p < snd q)%nat).
Definition iso_before (x y : sub4) : Prop := lex (key x) (key y).

Lemma sub_atom_all_In : forall s b l a sub,
  In (b, l, a, sub) (sub_atom_all s) <->
  exists pre post, s = pre ++ sub ++ post /\ length pre = b /\ length sub = l /\ length post = a.
Proof.
  intros s b l a sub. unfold sub_atom_all. rewrite in_flat_map. split.
  - intros ((pre, rest) & Hpr & Hin). apply in_map_iff in Hin. destruct Hin as ((sb, post) & Heq & Hsp).
    cbn [fst snd] in Heq, Hsp. injection Heq as <- <- <- <-.
    apply splits_In in Hpr. apply splits_In in Hsp. exists pre, post. subst rest. now rewrite Hpr.
  - intros (pre & post & -> & <- & <- & <-). exists (pre, sub ++ post). split; [now apply splits_In|].
    apply in_map_iff. exists (sub, post). split; [reflexivity|]. cbn [snd]. now apply splits_In.
Qed.

Lemma sub_atom_all_sorted : forall s, StronglySorted iso_before (sub_atom_all s).
Proof.
  intros s. unfold sub_atom_all.
  apply (sorted_flat_map _ _ (fun a b : list N * list N => (length (fst a) < length (fst b))%nat)).
  - apply splits_sorted.
  - intros pr _.
    apply (proj1 (sorted_map _ _ iso_before
             (fun sp : list N * list N => (length (fst pr), length (fst sp), length (snd sp), fst sp)) (splits (snd pr)))).
    eapply sorted_impl; [|apply splits_sorted].
    intros a b Hab. unfold iso_before, lex, key. cbn [fst snd]. right. split; [reflexivity|exact Hab].
  - intros x y Hxy u v Hu Hv. apply in_map_iff in Hu. apply in_map_iff in Hv.
    destruct Hu as (su & <- & _). destruct Hv as (sv & <- & _).
    unfold iso_before, lex, key. cbn [fst snd]. now left.
Qed.

Lemma lex_irrefl : forall x : sub4, ~ iso_before x x.
Proof. intros x [H|[_ H]]; lia. Qed.

Lemma sub_atom_enum_In : forall s ob ol oa os x,
  In x (sub_atom_enum s ob ol oa os) <-> In x (sub_atom_all s) /\ consistent ob ol oa os x = true.
Proof. intros. unfold sub_atom_enum. apply filter_In. Qed.

Lemma sub_atom_enum_sorted : forall s ob ol oa os, StronglySorted iso_before (sub_atom_enum s ob ol oa os).
Proof. intros. unfold sub_atom_enum. apply sorted_filter, sub_atom_all_sorted. Qed.

Lemma sub_atom_enum_NoDup : forall s ob ol oa os, NoDup (sub_atom_enum s ob ol oa os).
Proof. intros. eapply sorted_irrefl_nodup; [exact lex_irrefl | apply sub_atom_enum_sorted]. Qed.

Lemma name_eqb_eq : forall a b, name_eqb a b = true <-> a = b.
Proof.
  induction a as [|x a IH]; intros b; destruct b as [|y b]; cbn [name_eqb list_eqb]; try (split; [discriminate|discriminate]);
    [split; reflexivity|].
  unfold name_eqb in IH. rewrite andb_true_iff, N.eqb_eq, IH. split; [now intros [-> ->]|now intros [= -> ->]].
Qed.

Lemma consistent_spec : forall ob ol oa os b l a sub,
  consistent ob ol oa os (b, l, a, sub) = true <->
  (forall z, ob = Some z -> z = Z.of_nat b) /\ (forall z, ol = Some z -> z = Z.of_nat l) /\
  (forall z, oa = Some z -> z = Z.of_nat a) /\ (forall t, os = Some t -> t = sub).
Proof.
  intros ob ol oa os b l a sub. unfold consistent. rewrite !andb_true_iff.
  assert (Hn : forall o n, opt_nat_ok o n = true <-> (forall z, o = Some z -> z = Z.of_nat n)).
  { intros o n. destruct o as [z|]; cbn [opt_nat_ok].
    - rewrite Z.eqb_eq. split; [now intros -> z' [= <-] | intro H; now apply H].
    - split; [intros _ z H; discriminate H | reflexivity]. }
  assert (Hs : opt_sub_ok os sub = true <-> (forall t, os = Some t -> t = sub)).
  { destruct os as [t|]; cbn [opt_sub_ok].
    - rewrite name_eqb_eq. split; [now intros -> t' [= <-] | intro H; now apply H].
    - split; [intros _ t H; discriminate H | reflexivity]. }
  rewrite !Hn, Hs. tauto.
Qed.

(* ------------------------------------------------------------------ atom_concat/3 *)
Lemma strip_prefix_spec : forall p s r, strip_prefix p s = Some r <-> s = p ++ r.
Proof.
  induction p as [|x p IH]; intros s r; cbn [strip_prefix app].
  - split; [now intros [= ->] | now intros ->].
  - destruct s as [|y s]; [split; discriminate|].
    destruct (N.eqb_spec x y) as [->|Hne].
    + rewrite IH. split; [now intros -> | now intros [= ->]].
    + split; [discriminate | intros [= -> _]; contradiction].
Qed.

Lemma strip_suffix_spec : forall q s r, strip_suffix q s = Some r <-> s = r ++ q.
Proof.
  intros q s r. unfold strip_suffix.
  destruct (strip_prefix (rev q) (rev s)) as [t|] eqn:E.
  - apply strip_prefix_spec in E. split.
    + intros [= <-]. rewrite <- (rev_involutive s), E, rev_app_distr, rev_involutive. reflexivity.
    + intros ->. rewrite rev_app_distr in E. apply app_inv_head in E. rewrite <- E, rev_involutive. reflexivity.
  - split; [discriminate|]. intros ->. rewrite rev_app_distr in E.
    assert (H : strip_prefix (rev q) (rev q ++ rev r) = Some (rev r)) by now apply strip_prefix_spec.
    rewrite H in E. discriminate E.
Qed.

Lemma concat_split_mode : forall v1 v2 s,
  atom_concat_model (Var v1) (Var v2) (Atom s) = Answers (map (fun pq => [Atom (fst pq); Atom (snd pq)]) (splits s)).
Proof. reflexivity. Qed.

Lemma concat_forward : forall s1 s2 v, atom_concat_model (Atom s1) (Atom s2) (Var v) = Answers [[Atom (s1 ++ s2)]].
Proof. reflexivity. Qed.

Lemma concat_check : forall s1 s2 s, atom_concat_model (Atom s1) (Atom s2) (Atom s) = yes <-> s1 ++ s2 = s.
Proof.
  intros s1 s2 s. unfold atom_concat_model. cbn [first_err can_be_atom fold_right map].
  destruct (name_eqb (s1 ++ s2) s) eqn:E.
  - apply name_eqb_eq in E. split; [now intros _|reflexivity].
  - split; [discriminate|]. intro H. apply name_eqb_eq in H. rewrite H in E. discriminate E.
Qed.

Lemma concat_suffix_mode : forall s1 v s,
  atom_concat_model (Atom s1) (Var v) (Atom s) = match strip_prefix s1 s with Some r => Answers [[Atom r]] | None => no end.
Proof. reflexivity. Qed.

Lemma concat_prefix_mode : forall v s2 s,
  atom_concat_model (Var v) (Atom s2) (Atom s) = match strip_suffix s2 s with Some r => Answers [[Atom r]] | None => no end.
Proof. reflexivity. Qed.

(* ------------------------------------------------------------------ atom_length, atom_chars, atom_codes *)
Lemma atom_length_count : forall s v, atom_length_model (Atom s) (Var v) = Answers [[Int (Z.of_nat (length s))]].
Proof. reflexivity. Qed.

Lemma atom_length_check : forall s n, 0 <= n -> (atom_length_model (Atom s) (Int n) = yes <-> n = Z.of_nat (length s)).
Proof.
  intros s n Hn. unfold atom_length_model, zlen. destruct (Z.ltb_spec n 0) as [H0|_]; [lia|].
  destruct (Z.eqb_spec n (Z.of_nat (length s))) as [He|Hne]; split; intro H0; try assumption; try reflexivity;
    [discriminate H0 | contradiction].
Qed.

Definition simple_tail (t : term) : Prop := match t with Cmp _ _ => False | _ => True end.

Lemma list_view_tail : forall pre tail fuel, simple_tail tail -> (length pre < fuel)%nat ->
  list_view fuel (tlist_tail pre tail) = (pre, tail).
Proof.
  induction pre as [|x pre IH]; intros tail fuel Ht Hf; (destruct fuel as [|fuel]; [cbn [length] in Hf; lia|]).
  - cbn [tlist_tail]. destruct tail; try reflexivity. destruct Ht.
  - cbn [tlist_tail tcons list_view dot]. rewrite IH; [reflexivity | exact Ht | cbn [length] in Hf; lia].
Qed.

Lemma term_size_pos : forall t, (1 <= term_size t)%nat.
Proof. destruct t; cbn [term_size]; lia. Qed.

Lemma tlist_tail_size : forall pre tail, (length pre < term_size (tlist_tail pre tail))%nat.
Proof.
  induction pre as [|x pre IH]; intros tail.
  - cbn [tlist_tail length]. pose proof (term_size_pos tail). lia.
  - cbn [tlist_tail tcons term_size fold_right length]. specialize (IH tail). pose proof (term_size_pos x). lia.
Qed.

Lemma list_view_full : forall pre tail, simple_tail tail ->
  list_view (term_size (tlist_tail pre tail)) (tlist_tail pre tail) = (pre, tail).
Proof. intros. apply list_view_tail; [assumption | apply tlist_tail_size]. Qed.

(* atom -> text: the characters / the codes of the atom *)
Lemma atom_chars_forward : forall s v, atom_chars_model (Atom s) (Var v) = Answers [[tstring s]].
Proof. reflexivity. Qed.

Lemma atom_codes_forward : forall s v, atom_codes_model (Atom s) (Var v) = Answers [[tlist (map (fun c => Int (Z.of_N c)) s)]].
Proof. reflexivity. Qed.

(* text -> atom *)
Lemma tchar_no_var : forall s, existsb is_var (map tchar s) = false.
Proof. induction s as [|c s IH]; [reflexivity | exact IH]. Qed.
Lemma tchar_no_err : forall s, first_err (map char_elem_err (map tchar s)) = None.
Proof. induction s as [|c s IH]; [reflexivity | exact IH]. Qed.
Lemma tchar_elems : forall s, map elem_char (map tchar s) = s.
Proof. induction s as [|c s IH]; [reflexivity | cbn [map elem_char tchar]; now rewrite IH]. Qed.

Lemma atom_chars_backward : forall s v, atom_chars_model (Var v) (tstring s) = Answers [[Atom s]].
Proof.
  intros s v. unfold atom_chars_model, atom_text_model, tstring, tlist. rewrite list_view_full by exact I.
  cbn [tnil nil_name is_nil is_var orb negb].
  now rewrite tchar_no_var, tchar_no_err, tchar_elems.
Qed.

Definition tcode (c : N) : term := Int (Z.of_N c).
Lemma tcode_no_var : forall s, existsb is_var (map tcode s) = false.
Proof. induction s as [|c s IH]; [reflexivity | exact IH]. Qed.
Lemma tcode_no_err : forall s, forallb (fun c => valid_code (Z.of_N c)) s = true -> first_err (map code_elem_err (map tcode s)) = None.
Proof.
  induction s as [|c s IH]; intro Hv; [reflexivity|]. cbn [forallb] in Hv. apply andb_true_iff in Hv. destruct Hv as [Hc Hs].
  cbn [map first_err fold_right code_elem_err tcode]. rewrite Hc. now apply IH.
Qed.
Lemma tcode_elems : forall s, map elem_code (map tcode s) = s.
Proof. induction s as [|c s IH]; [reflexivity|]. cbn [map elem_code tcode]. rewrite N2Z.id. now rewrite IH. Qed.

Lemma atom_codes_backward : forall s v, forallb (fun c => valid_code (Z.of_N c)) s = true ->
  atom_codes_model (Var v) (tlist (map tcode s)) = Answers [[Atom s]].
Proof.
  intros s v Hv. unfold atom_codes_model, atom_text_model, tlist. rewrite list_view_full by exact I.
  cbn [tnil nil_name is_nil is_var orb negb].
  now rewrite tcode_no_var, (tcode_no_err s Hv), tcode_elems.
Qed.

(* the codes of an atom are the char_code/2 images of its characters *)
Lemma chars_codes_consistent : forall s v,
  map (fun ch => char_code_model ch (Var v)) (map tchar s) = map (fun c => Answers [[Int (Z.of_N c)]]) s.
Proof. intros s v. rewrite map_map. reflexivity. Qed.

Lemma char_code_roundtrip : forall c v, valid_code (Z.of_N c) = true ->
  char_code_model (Var v) (Int (Z.of_N c)) = Answers [[tchar c]] /\ char_code_model (tchar c) (Var v) = Answers [[Int (Z.of_N c)]].
Proof. intros c v H. unfold char_code_model, tchar. rewrite H, N2Z.id. split; reflexivity. Qed.

(* ------------------------------------------------------------------ the error table *)
Lemma sub_atom_errors :
  (forall v B L Af Sub, sub_atom_model (Var v) B L Af Sub = Error FInst) /\
  (forall A B L Af Sub, is_var A = false -> (forall s, A <> Atom s) -> sub_atom_model A B L Af Sub = Error (FType atom_nm A)) /\
  (forall s B L Af Sub, is_var Sub = false -> (forall t, Sub <> Atom t) ->
     sub_atom_model (Atom s) B L Af Sub = Error (FType atom_nm Sub)) /\
  (forall s L Af Sub n, can_be_atom Sub = None -> can_be_int L = None -> can_be_int Af = None -> n < 0 ->
     sub_atom_model (Atom s) (Int n) L Af Sub = Error (FDomNLZ (Int n))).
Proof.
  split; [reflexivity|]. split; [|split].
  - intros A B L Af Sub Hv Hn. destruct A; try reflexivity; [discriminate Hv | now contradiction (Hn s)].
  - intros s B L Af Sub Hv Hn. unfold sub_atom_model.
    destruct Sub; try reflexivity; [discriminate Hv | now contradiction (Hn s0)].
  - intros s L Af Sub n HS HL HA Hn. unfold sub_atom_model. cbn [first_err fold_right can_be_int neg_int].
    rewrite HS, HL, HA. destruct (Z.ltb_spec n 0) as [_|H0]; [reflexivity|lia].
Qed.

Lemma char_code_errors :
  (forall a b, char_code_model (Var a) (Var b) = Error FInst) /\
  (forall v n, valid_code n = false -> char_code_model (Var v) (Int n) = Error FRepCC) /\
  (forall s Co, length s <> 1%nat -> char_code_model (Atom s) Co = Error (FType character_nm (Atom s))).
Proof.
  split; [reflexivity|]. split.
  - intros v n H. unfold char_code_model. now rewrite H.
  - intros s Co H. destruct s as [|c [|d s]]; try reflexivity. now contradiction H.
Qed.

Lemma atom_length_errors :
  (forall v Len, atom_length_model (Var v) Len = Error FInst) /\
  (forall A Len, is_var A = false -> (forall s, A <> Atom s) -> atom_length_model A Len = Error (FType atom_nm A)) /\
  (forall s n, n < 0 -> atom_length_model (Atom s) (Int n) = Error (FDomNLZ (Int n))).
Proof.
  split; [reflexivity|]. split.
  - intros A Len Hv Hn. destruct A; try reflexivity; [discriminate Hv | now contradiction (Hn s)].
  - intros s n Hn. unfold atom_length_model. destruct (Z.ltb_spec n 0) as [_|H0]; [reflexivity|lia].
Qed.

Lemma atom_concat_errors :
  (forall a b c, atom_concat_model (Var a) (Var b) (Var c) = Error FInst) /\
  (forall s b c, atom_concat_model (Atom s) (Var b) (Var c) = Error FInst) /\
  (forall a s c, atom_concat_model (Var a) (Atom s) (Var c) = Error FInst) /\
  (forall A1 A2 A12, is_var A1 = false -> (forall s, A1 <> Atom s) -> atom_concat_model A1 A2 A12 = Error (FType atom_nm A1)).
Proof.
  split; [reflexivity|]. split; [reflexivity|]. split; [reflexivity|].
  intros A1 A2 A12 Hv Hn. destruct A1; try reflexivity; [discriminate Hv | now contradiction (Hn s)].
Qed.

(* ------------------------------------------------------------------ combined statements for Props.v *)
Lemma sub_atom_exact : forall s ob ol oa os,
  (forall b l a sub, In (b, l, a, sub) (sub_atom_enum s ob ol oa os) <->
     (exists pre post, s = pre ++ sub ++ post /\ length pre = b /\ length sub = l /\ length post = a) /\
     (forall z, ob = Some z -> z = Z.of_nat b) /\ (forall z, ol = Some z -> z = Z.of_nat l) /\
     (forall z, oa = Some z -> z = Z.of_nat a) /\ (forall t, os = Some t -> t = sub)) /\
  NoDup (sub_atom_enum s ob ol oa os) /\
  StronglySorted iso_before (sub_atom_enum s ob ol oa os).
Proof.
  intros s ob ol oa os. split; [|split; [apply sub_atom_enum_NoDup | apply sub_atom_enum_sorted]].
  intros b l a sub. rewrite sub_atom_enum_In, sub_atom_all_In, consistent_spec. reflexivity.
Qed.

Lemma atom_concat_exact : forall s,
  (forall v1 v2, atom_concat_model (Var v1) (Var v2) (Atom s) = Answers (map (fun pq => [Atom (fst pq); Atom (snd pq)]) (splits s))) /\
  (forall p q, In (p, q) (splits s) <-> p ++ q = s) /\
  NoDup (splits s) /\
  map (fun pq => length (fst pq)) (splits s) = seq 0 (S (length s)) /\
  (forall s1 s2 v, atom_concat_model (Atom s1) (Atom s2) (Var v) = Answers [[Atom (s1 ++ s2)]]) /\
  (forall s1 s2, atom_concat_model (Atom s1) (Atom s2) (Atom s) = yes <-> s1 ++ s2 = s) /\
  (forall s1 v, atom_concat_model (Atom s1) (Var v) (Atom s) = match strip_prefix s1 s with Some r => Answers [[Atom r]] | None => no end) /\
  (forall s2 v, atom_concat_model (Var v) (Atom s2) (Atom s) = match strip_suffix s2 s with Some r => Answers [[Atom r]] | None => no end) /\
  (forall p r, strip_prefix p s = Some r <-> s = p ++ r) /\
  (forall q r, strip_suffix q s = Some r <-> s = r ++ q).
Proof.
  intros s. repeat split; try reflexivity;
    try (apply splits_In); try (apply splits_NoDup); try (apply splits_lengths); try (apply concat_check);
    try (apply strip_prefix_spec); try (apply strip_suffix_spec).
Qed.

Lemma codes_chars_consistent :
  (forall s v, atom_chars_model (Atom s) (Var v) = Answers [[tstring s]]) /\
  (forall s v, atom_codes_model (Atom s) (Var v) = Answers [[tlist (map tcode s)]]) /\
  (forall s v, atom_chars_model (Var v) (tstring s) = Answers [[Atom s]]) /\
  (forall s v, forallb (fun c => valid_code (Z.of_N c)) s = true -> atom_codes_model (Var v) (tlist (map tcode s)) = Answers [[Atom s]]) /\
  (forall c v, valid_code (Z.of_N c) = true ->
     char_code_model (Var v) (Int (Z.of_N c)) = Answers [[tchar c]] /\ char_code_model (tchar c) (Var v) = Answers [[Int (Z.of_N c)]]).
Proof.
  split; [exact atom_chars_forward|]. split; [exact atom_codes_forward|]. split; [exact atom_chars_backward|].
  split; [exact atom_codes_backward | exact char_code_roundtrip].
Qed.

(* ------------------------------------------------------------------ the comparison is equality *)
Lemma list_eqb_eq : forall (A : Type) (eqb : A -> A -> bool) (l l' : list A),
  (forall x y, In x l -> (eqb x y = true <-> x = y)) -> (list_eqb eqb l l' = true <-> l = l').
Proof.
  intros A eqb. induction l as [|x l IH]; intros l' Hx; destruct l' as [|y l']; cbn [list_eqb];
    try (split; [discriminate|discriminate]); [split; reflexivity|].
  rewrite andb_true_iff. rewrite (Hx x y (or_introl eq_refl)).
  rewrite IH by (intros a b Ha; apply Hx; now right).
  split; [intros [-> ->]; reflexivity | intros [= -> ->]; split; reflexivity].
Qed.

Lemma term_eqb_eq : forall a b, term_eqb a b = true <-> a = b.
Proof.
  induction a as [v|z|n d|bits|s|f args IH] using term_ind'; intros b; destruct b as [v'|z'|n' d'|bits'|s'|f' args'];
    cbn [term_eqb]; try (split; [discriminate|discriminate]).
  - rewrite N.eqb_eq. split; [now intros ->|now intros [= ->]].
  - rewrite Z.eqb_eq. split; [now intros ->|now intros [= ->]].
  - rewrite andb_true_iff, !Z.eqb_eq. split; [now intros [-> ->]|now intros [= -> ->]].
  - rewrite Z.eqb_eq. split; [now intros ->|now intros [= ->]].
  - rewrite name_eqb_eq. split; [now intros ->|now intros [= ->]].
  - rewrite andb_true_iff, name_eqb_eq.
    assert (Hargs : forall l', (fix go (l l' : list term) : bool :=
               match l, l' with
               | [], [] => true
               | x :: r, y :: r' => term_eqb x y && go r r'
               | _, _ => false
               end) args l' = true <-> args = l').
    { induction IH as [|x r Hx Hr IHr]; intros l'; destruct l' as [|y r'];
        try (split; [discriminate|discriminate]); [split; reflexivity|].
      rewrite andb_true_iff, Hx, IHr. split; [now intros [-> ->]|now intros [= -> ->]]. }
    rewrite Hargs. split; [now intros [-> ->]|now intros [= -> ->]].
Qed.

Lemma formal_eqb_eq : forall a b, formal_eqb a b = true <-> a = b.
Proof.
  intros a b. destruct a as [|t c|c|], b as [|t' c'|c'|]; cbn [formal_eqb]; try (split; [discriminate|discriminate]).
  - split; reflexivity.
  - rewrite andb_true_iff, name_eqb_eq, term_eqb_eq. split; [now intros [-> ->]|now intros [= -> ->]].
  - rewrite term_eqb_eq. split; [now intros ->|now intros [= ->]].
  - split; reflexivity.
Qed.

Lemma check_sound : forall r o, check r o = true -> o = observe K r.
Proof.
  intros r [lb eb]. unfold check, obs_eqb. destruct (observe K r) as [la ea]. cbn [o_ans o_end].
  rewrite andb_true_iff. intros [Hl He].
  assert (la = lb) as ->.
  { apply (proj1 (list_eqb_eq _ _ la lb (fun x y _ => list_eqb_eq _ _ x y (fun p q _ => term_eqb_eq p q)))). exact Hl. }
  destruct ea, eb; cbn [ending_eqb] in He; try discriminate He; try reflexivity.
  apply formal_eqb_eq in He. now subst.
Qed.
