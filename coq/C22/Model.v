(* C22 -- atom_length/2, atom_chars/2, atom_codes/2, char_code/2, atom_concat/3, sub_atom/5 and the ASCII part of
   char_type/2 as mode-indexed enumerators over code point lists.  Definitions only.
   Enumeration follows src/lib/builtins.pl (append/3 based) and the ISO error table (13211-1 8.16 with Cor.2). *)
From Coq Require Import ZArith NArith List Bool.
From V Require Import Base.Term.
Import ListNotations.
Open Scope Z_scope.

(* ------------------------------------------------------------------ error formals, results, observations *)
Inductive formal :=
| FInst                                   (* instantiation_error *)
| FType (ty : list N) (culprit : term)    (* type_error(atom | integer | character | list, culprit) *)
| FDomNLZ (culprit : term)                (* domain_error(not_less_than_zero, culprit) *)
| FRepCC.                                 (* representation_error(character_code) *)

Definition atom_nm : list N := [97; 116; 111; 109]%N.
Definition integer_nm : list N := [105; 110; 116; 101; 103; 101; 114]%N.
Definition character_nm : list N := [99; 104; 97; 114; 97; 99; 116; 101; 114]%N.
Definition list_nm : list N := [108; 105; 115; 116]%N.

(* an answer = the values of the query's unbound variables in argument order (left to right) *)
Inductive result :=
| Answers (l : list (list term))
| Error (f : formal).
Definition yes : result := Answers [[]].
Definition no : result := Answers [].

Definition is_var (t : term) : bool := match t with Var _ => true | _ => false end.
Definition zlen {A} (l : list A) : Z := Z.of_nat (length l).

(* ------------------------------------------------------------------ append/3 with an unbound prefix and suffix *)
(* all (p, q) with p ++ q = s, in the order append(P, Q, S) finds them: increasing length of p *)
Fixpoint splits {A} (s : list A) : list (list A * list A) :=
  match s with
  | [] => [([], [])]
  | x :: r => ([], s) :: map (fun pq => (x :: fst pq, snd pq)) (splits r)
  end.

(* ------------------------------------------------------------------ sub_atom/5 *)
(* (before, length, after, sub): append(Pre, Rest, S), append(Sub, Post, Rest) *)
Definition sub4 : Type := (nat * nat * nat * list N)%type.
Definition sub_atom_all (s : list N) : list sub4 :=
  flat_map (fun pr => map (fun sp => (length (fst pr), length (fst sp), length (snd sp), fst sp)) (splits (snd pr))) (splits s).

Definition opt_nat_ok (o : option Z) (n : nat) : bool :=
  match o with None => true | Some z => z =? Z.of_nat n end.
Definition opt_sub_ok (o : option (list N)) (s : list N) : bool :=
  match o with None => true | Some s' => name_eqb s' s end.
Definition consistent (ob ol oa : option Z) (os : option (list N)) (x : sub4) : bool :=
  let '(b, l, a, sub) := x in opt_nat_ok ob b && opt_nat_ok ol l && opt_nat_ok oa a && opt_sub_ok os sub.

(* the solutions of sub_atom(S, B, L, A, Sub) with each of B, L, A, Sub given (Some) or unbound (None) *)
Definition sub_atom_enum (s : list N) (ob ol oa : option Z) (os : option (list N)) : list sub4 :=
  filter (consistent ob ol oa os) (sub_atom_all s).

(* can_be(integer, T) then the not_less_than_zero test of sub_atom/5 come in two passes over B, L, A *)
Definition can_be_int (t : term) : option formal :=
  match t with Var _ | Int _ => None | _ => Some (FType integer_nm t) end.
Definition neg_int (t : term) : option formal :=
  match t with Int n => if n <? 0 then Some (FDomNLZ t) else None | _ => None end.
Definition can_be_atom (t : term) : option formal :=
  match t with Var _ | Atom _ => None | _ => Some (FType atom_nm t) end.
Definition first_err (l : list (option formal)) : option formal :=
  fold_right (fun o acc => match o with Some e => Some e | None => acc end) None l.
Definition opt_int (t : term) : option Z := match t with Int n => Some n | _ => None end.
Definition opt_atom (t : term) : option (list N) := match t with Atom s => Some s | _ => None end.

Definition sub_atom_model (A B L Af Sub : term) : result :=
  match A with
  | Var _ => Error FInst
  | Atom s =>
    match first_err [can_be_atom Sub; can_be_int B; can_be_int L; can_be_int Af; neg_int B; neg_int L; neg_int Af] with
    | Some e => Error e
    | None =>
      Answers (map (fun x : sub4 =>
                      let '(b, l, a, sub) := x in
                      (if is_var B then [Int (Z.of_nat b)] else []) ++ (if is_var L then [Int (Z.of_nat l)] else []) ++
                      (if is_var Af then [Int (Z.of_nat a)] else []) ++ (if is_var Sub then [Atom sub] else []))
                   (sub_atom_enum s (opt_int B) (opt_int L) (opt_int Af) (opt_atom Sub)))
    end
  | _ => Error (FType atom_nm A)
  end.

(* ------------------------------------------------------------------ atom_concat/3 *)
Fixpoint strip_prefix (p s : list N) : option (list N) :=
  match p, s with
  | [], _ => Some s
  | x :: p', y :: s' => if N.eqb x y then strip_prefix p' s' else None
  | _ :: _, [] => None
  end.
Definition strip_suffix (q s : list N) : option (list N) :=
  match strip_prefix (rev q) (rev s) with Some r => Some (rev r) | None => None end.

Definition atom_concat_model (A1 A2 A12 : term) : result :=
  match first_err [can_be_atom A1; can_be_atom A2; can_be_atom A12] with
  | Some e => Error e
  | None =>
    match A1, A2, A12 with
    | Atom s1, Atom s2, Atom s => if name_eqb (s1 ++ s2) s then yes else no
    | Atom s1, Atom s2, _ => Answers [[Atom (s1 ++ s2)]]
    | Atom s1, _, Atom s => match strip_prefix s1 s with Some r => Answers [[Atom r]] | None => no end
    | _, Atom s2, Atom s => match strip_suffix s2 s with Some r => Answers [[Atom r]] | None => no end
    | _, _, Atom s => Answers (map (fun pq => [Atom (fst pq); Atom (snd pq)]) (splits s))
    | _, _, _ => Error FInst
    end
  end.

(* ------------------------------------------------------------------ atom_length/2 *)
Definition atom_length_model (A Len : term) : result :=
  match A with
  | Var _ => Error FInst
  | Atom s =>
    match Len with
    | Var _ => Answers [[Int (zlen s)]]
    | Int n => if n <? 0 then Error (FDomNLZ Len) else if n =? zlen s then yes else no
    | _ => Error (FType integer_nm Len)
    end
  | _ => Error (FType atom_nm A)
  end.

(* ------------------------------------------------------------------ char_code/2 *)
(* Unicode scalar values *)
Definition valid_code (n : Z) : bool := (0 <=? n) && ((n <? 55296) || ((57344 <=? n) && (n <=? 1114111))).

Definition char_code_model (Ch Co : term) : result :=
  match Ch with
  | Var _ =>
    match Co with
    | Var _ => Error FInst
    | Int n => if valid_code n then Answers [[Atom [Z.to_N n]]] else Error FRepCC
    | _ => Error (FType integer_nm Co)
    end
  | Atom [c] =>
    match Co with
    | Var _ => Answers [[Int (Z.of_N c)]]
    | Int n => if valid_code n then (if n =? Z.of_N c then yes else no) else Error FRepCC   (* ISO 8.16.6.3 d *)
    | _ => Error (FType integer_nm Co)
    end
  | _ => Error (FType character_nm Ch)
  end.

(* ------------------------------------------------------------------ atom_chars/2, atom_codes/2 *)
(* linear matching of a pattern (distinct variables) against a ground term: the bindings in traversal order *)
Fixpoint match_term (p g : term) : option (list (N * term)) :=
  match p with
  | Var v => Some [(v, g)]
  | Cmp f ps =>
    match g with
    | Cmp f' gs =>
      if name_eqb f f' then
        (fix go (ps gs : list term) : option (list (N * term)) :=
           match ps, gs with
           | [], [] => Some []
           | p1 :: pr, g1 :: gr =>
             match match_term p1 g1, go pr gr with
             | Some b1, Some b2 => Some (b1 ++ b2)
             | _, _ => None
             end
           | _, _ => None
           end) ps gs
      else None
    | _ => None
    end
  | _ => if term_eqb p g then Some [] else None
  end.

Definition is_nil (t : term) : bool := match t with Atom [91%N; 93%N] => true | _ => false end.

(* element test of atom_chars/2: None = a character or a variable *)
Definition char_elem_err (e : term) : option formal :=
  match e with
  | Var _ | Atom [_] => None
  | _ => Some (FType character_nm e)
  end.
(* element test of atom_codes/2 *)
Definition code_elem_err (e : term) : option formal :=
  match e with
  | Var _ => None
  | Int n => if valid_code n then None else Some FRepCC
  | _ => Some (FType integer_nm e)
  end.
Definition elem_char (e : term) : N := match e with Atom [c] => c | _ => 0%N end.
Definition elem_code (e : term) : N := match e with Int n => Z.to_N n | _ => 0%N end.

(* the common shape of atom_chars/2 and atom_codes/2: elem_err tests an element, to_cp reads it, of_cp writes it *)
Definition atom_text_model (elem_err : term -> option formal) (to_cp : term -> N) (of_cp : N -> term) (A L : term) : result :=
  let (pre, tail) := list_view (term_size L) L in
  if negb (is_nil tail || is_var tail) then Error (FType list_nm L)
  else
    match A with
    | Var _ =>
      if is_var tail then Error FInst
      else if existsb is_var pre then Error FInst
      else match first_err (map elem_err pre) with
           | Some e => Error e
           | None => Answers [[Atom (map to_cp pre)]]
           end
    | Atom s =>
      match first_err (map elem_err pre) with
      | Some e => Error e
      | None => match match_term L (tlist (map of_cp s)) with
                | Some b => Answers [map snd b]
                | None => no
                end
      end
    | _ => Error (FType atom_nm A)
    end.

Definition atom_chars_model : term -> term -> result := atom_text_model char_elem_err elem_char tchar.
Definition atom_codes_model : term -> term -> result := atom_text_model code_elem_err elem_code (fun c => Int (Z.of_N c)).

(* ------------------------------------------------------------------ char_type/2, ASCII (and four other characters) *)
Definition in_range (c lo hi : N) : bool := (N.leb lo c) && (N.leb c hi).
Definition is_digit (c : N) : bool := in_range c 48 57.
Definition is_lower_ascii (c : N) : bool := in_range c 97 122.
Definition is_upper_ascii (c : N) : bool := in_range c 65 90.
Definition mem_N (c : N) (l : list N) : bool := existsb (N.eqb c) l.
(* the characters the classification is modelled for: ASCII, e-acute, E-acute, U+65E5, U+1F600 *)
Definition others : list N := [233; 201; 26085; 128512]%N.
Definition modelled_char (c : N) : bool := (N.ltb c 128) || mem_N c others.

Definition graphic_cls (c : N) : bool := mem_N c [35; 36; 38; 42; 43; 45; 46; 47; 58; 60; 61; 62; 63; 64; 94; 126]%N.
Definition meta_cls (c : N) : bool := mem_N c [92; 39; 34; 96]%N.
Definition solo_cls (c : N) : bool := mem_N c [33; 40; 41; 44; 59; 91; 93; 123; 125; 124; 37]%N.
Definition layout_cls (c : N) : bool := mem_N c [32; 13; 10; 9; 11; 12]%N.
Definition whitespace_cls (c : N) : bool := mem_N c [32; 13; 10; 9; 11; 12]%N.
Definition control_cls (c : N) : bool := (N.ltb c 32) || (N.eqb c 127).
(* alpha_char! of src/parser/macros.rs *)
Definition alpha_cls (c : N) : bool :=
  (negb (is_digit c) && negb (whitespace_cls c) && negb (control_cls c) && negb (graphic_cls c || N.eqb c 92)
   && negb (layout_cls c) && negb (meta_cls c) && negb (solo_cls c)) || N.eqb c 95.
Definition lower_cls (c : N) : bool := is_lower_ascii c || N.eqb c 233.
Definition upper_cls (c : N) : bool := is_upper_ascii c || N.eqb c 201.
Definition to_upper (c : N) : N := if is_lower_ascii c then (c - 32)%N else if N.eqb c 233 then 201%N else c.
Definition to_lower (c : N) : N := if is_upper_ascii c then (c + 32)%N else if N.eqb c 201 then 233%N else c.

(* the classes, in the order the check asks for them *)
Definition class_tests : list (N -> bool) :=
  [alpha_cls; (fun c => alpha_cls c || is_digit c); is_digit;
   (fun c => is_digit c || in_range c 65 70 || in_range c 97 102); (fun c => in_range c 48 55); (fun c => in_range c 48 49);
   lower_cls; upper_cls; whitespace_cls; layout_cls; graphic_cls; (fun c => graphic_cls c || N.eqb c 92); solo_cls; meta_cls;
   (fun c => mem_N c [45; 43]%N); (fun c => mem_N c [101; 69]%N)].
(* for one character: which classes hold (as booleans in class order), upper(U), lower(L) *)
Definition char_type_row (c : N) : list bool * N * N := (map (fun f => f c) class_tests, to_upper c, to_lower c).

(* ------------------------------------------------------------------ observations *)
Inductive ending := EEnd | EMore | EErr (f : formal) | EOther.
Record obs := mkobs { o_ans : list (list term); o_end : ending }.

Definition observe (k : nat) (r : result) : obs :=
  match r with
  | Error f => mkobs [] (EErr f)
  | Answers l => if (k <=? length l)%nat then mkobs (firstn k l) EMore else mkobs l EEnd
  end.

Definition formal_eqb (a b : formal) : bool :=
  match a, b with
  | FInst, FInst | FRepCC, FRepCC => true
  | FType t c, FType t' c' => name_eqb t t' && term_eqb c c'
  | FDomNLZ c, FDomNLZ c' => term_eqb c c'
  | _, _ => false
  end.
Definition ending_eqb (a b : ending) : bool :=
  match a, b with
  | EEnd, EEnd | EMore, EMore => true
  | EErr f, EErr f' => formal_eqb f f'
  | _, _ => false
  end.
Definition obs_eqb (a b : obs) : bool :=
  list_eqb (list_eqb term_eqb) (o_ans a) (o_ans b) && ending_eqb (o_end a) (o_end b).

Definition K : nat := 40.
Definition check (r : result) (o : obs) : bool := obs_eqb (observe K r) o.
Definition check_classes (c : N) (classes : list bool) : bool :=
  modelled_char c && list_eqb Bool.eqb (map (fun f => f c) class_tests) classes.
Definition check_upper (c : N) (up : list N) : bool := modelled_char c && name_eqb [to_upper c] up.
Definition check_lower (c : N) (lo : list N) : bool := modelled_char c && name_eqb [to_lower c] lo.
