(* C46 -- pinned property theorems (nothing else lives here) *)
From Coq Require Import List NArith ZArith Bool Sorted.
From V Require Import C46.Model C46.Proofs.
Import ListNotations.

(* the truth value of a formula depends only on the variables that occur in it *)
Theorem only_occurring_variables_matter : forall r1 r2 f,
  (forall v, In v (vars f) -> r1 v = r2 v) -> eval r1 f = eval r2 f.
Proof. exact eval_ext. Qed.
Print Assumptions only_occurring_variables_matter.

(* sat/1: the decision procedure of the model (enumeration over the occurring variables only) is exact
   with respect to ALL valuations of all variables *)
Theorem sat_dec_correct : forall f, sat_dec f = true <-> exists rho, eval rho f = true.
Proof. exact sat_dec_spec. Qed.
Print Assumptions sat_dec_correct.

(* taut/2: T=1 iff every valuation satisfies, T=0 iff none does, failure iff the formula is contingent *)
Theorem taut_correct : forall f,
  (taut_dec f = Some true <-> forall rho, eval rho f = true) /\
  (taut_dec f = Some false <-> forall rho, eval rho f = false) /\
  (taut_dec f = None <-> (exists rho, eval rho f = true) /\ (exists rho, eval rho f = false)).
Proof. exact taut_spec. Qed.
Print Assumptions taut_correct.

(* sat_count/2: count is the length of a duplicate-free list that contains exactly the satisfying assignments
   to the occurring variables; every satisfying valuation is represented, and two valuations are represented
   by the same element iff they agree on the occurring variables *)
Theorem count_is_number_of_models : forall f,
  count f = N.of_nat (length (models (uvars f) f)) /\
  NoDup (models (uvars f) f) /\
  (forall bs, In bs (models (uvars f) f) <-> length bs = length (uvars f) /\ eval (env (uvars f) bs) f = true) /\
  (forall rho, eval rho f = true -> In (map rho (uvars f)) (models (uvars f) f)) /\
  (forall r1 r2 : N -> bool, map r1 (uvars f) = map r2 (uvars f) <-> forall v, In v (vars f) -> r1 v = r2 v).
Proof. exact count_models. Qed.
Print Assumptions count_is_number_of_models.

(* labeling/1 over any list vs of variables: the enumeration is exact, duplicate-free and in ascending
   lexicographic order (leftmost variable most significant, 0 before 1) *)
Theorem models_exact_nodup : forall vs f,
  (forall bs, In bs (models vs f) <-> length bs = length vs /\ eval (env vs bs) f = true) /\
  (incl (vars f) vs -> forall rho, eval rho f = true -> In (map rho vs) (models vs f)) /\
  NoDup (models vs f) /\
  StronglySorted lex_lt (models vs f).
Proof.
  intros vs f. split; [intros bs; apply In_models|].
  split; [intros Hi rho; apply models_complete; exact Hi|].
  split; [apply models_NoDup | apply models_sorted].
Qed.
Print Assumptions models_exact_nodup.

(* enumerating in another variable order (labeling/1 sorts the variables by their index) and projecting on the
   template gives the same set of answers, each once *)
Theorem labeling_order_irrelevant : forall ord tmpl f,
  NoDup ord -> NoDup tmpl -> incl ord tmpl -> incl tmpl ord -> incl (vars f) tmpl ->
  NoDup (label_seq ord tmpl f) /\ forall cs, In cs (label_seq ord tmpl f) <-> In cs (models tmpl f).
Proof. exact label_seq_spec. Qed.
Print Assumptions labeling_order_irrelevant.

(* card(Is,Es) is true iff the number of true Es is an element of Is (an integer or inside a range From-To) *)
Theorem card_semantics : forall rho rs es,
  eval rho (FCard rs es) = true <->
  exists r, In r rs /\ range_has (Z.of_nat (length (filter (eval rho) es))) r.
Proof. exact card_sem. Qed.
Print Assumptions card_semantics.

Theorem nary_or_and_semantics : forall rho es,
  (eval rho (FOrL es) = true <-> exists e, In e es /\ eval rho e = true) /\
  (eval rho (FAndL es) = true <-> forall e, In e es -> eval rho e = true).
Proof. intros rho es. split; [apply orl_sem | apply andl_sem]. Qed.
Print Assumptions nary_or_and_semantics.

(* the mirror of sat_rewrite/2 (synonyms -> 0 1 var * + # card) preserves truth values, produces core formulas only
   and keeps the set of variables; the index order it induces is a duplicate-free list of the variables *)
Theorem rewrite_sound : forall rho f, eval rho (rewrite f) = eval rho f.
Proof. exact rewrite_eval. Qed.
Print Assumptions rewrite_sound.

Theorem rewrite_core : forall f, core (rewrite f) = true.
Proof. exact rewrite_is_core. Qed.
Print Assumptions rewrite_core.

Theorem index_order_lists_the_variables : forall f,
  NoDup (index_order f) /\ forall v, In v (index_order f) <-> In v (vars f).
Proof. exact index_order_spec. Qed.
Print Assumptions index_order_lists_the_variables.

(* incremental posting: the models of sat(F), sat(G) are those of the conjunction *)
Theorem incremental_posting_is_conjunction : forall vs f g bs,
  In bs (models vs (FBin OAnd f g)) <-> In bs (models vs f) /\ In bs (models vs g).
Proof. exact models_and. Qed.
Print Assumptions incremental_posting_is_conjunction.

(* taut/2 and sat_count/2 relative to a posted constraint g *)
Theorem taut_under_correct : forall g f,
  (taut_under g f = Some false <-> forall rho, eval rho g = true -> eval rho f = false) /\
  (taut_under g f = Some true <-> (exists rho, eval rho g = true /\ eval rho f = true) /\
                                  forall rho, eval rho g = true -> eval rho f = true).
Proof. exact taut_under_spec. Qed.
Print Assumptions taut_under_correct.

Theorem count_under_correct : forall g f,
  count_under g f = N.of_nat (length (models_under g f)) /\
  NoDup (models_under g f) /\
  forall bs, In bs (models_under g f) <->
    length bs = length (uvars f) /\
    exists rho, (forall v, In v (vars f) -> rho v = env (uvars f) bs v) /\ eval rho g = true /\ eval rho f = true.
Proof.
  intros g f. split; [reflexivity|]. split; [apply models_under_NoDup|]. intros bs. apply models_under_spec.
Qed.
Print Assumptions count_under_correct.

(* the comparison used by the correspondence accepts exactly the duplicate-free enumerations of the satisfying assignments *)
Theorem check_label_set_meaning : forall f tmpl o,
  check_label_set f tmpl o = true <->
  NoDup o /\ forall bs, In bs o <-> length bs = length tmpl /\ eval (env tmpl bs) f = true.
Proof. exact check_label_set_spec. Qed.
Print Assumptions check_label_set_meaning.

(* ---------- non-vacuity / sanity: X*Y + X*Z of the library documentation; card; contingent and valid formulas *)
Example ex_doc_labeling :
  models [0%N; 1%N; 2%N] (FBin OOr (FBin OAnd (FVar 0) (FVar 1)) (FBin OAnd (FVar 0) (FVar 2)))
  = [[true; false; true]; [true; true; false]; [true; true; true]].
Proof. vm_compute. reflexivity. Qed.
Example ex_card : count (FCard [CI 2] [FVar 0%N; FVar 1%N; FVar 2%N]) = 3%N.
Proof. vm_compute. reflexivity. Qed.
Example ex_card_repeated : count (FCard [CI 0; CR 2 3; CI (-1)] [FVar 0%N; FVar 1%N; FVar 0%N; FNot (FVar 2%N)]) = 5%N.
Proof. vm_compute. reflexivity. Qed.
Example ex_taut : taut_dec (FBin OOr (FVar 0%N) (FNot (FVar 0%N))) = Some true
               /\ taut_dec (FBin OAnd (FVar 0%N) (FNot (FVar 0%N))) = Some false
               /\ taut_dec (FBin OOr (FVar 0%N) (FVar 1%N)) = None.
Proof. vm_compute. auto. Qed.
Example ex_taut_under : taut_under (FBin OAnd (FBin OLe (FVar 0%N) (FVar 1%N)) (FBin OLe (FVar 1%N) (FVar 2%N)))
                                   (FBin OLe (FVar 0%N) (FVar 2%N)) = Some true.
Proof. vm_compute. reflexivity. Qed.
Example ex_count_under : count_under (FBin OLe (FVar 0%N) (FVar 1%N)) (FOrL [FConst true; FVar 0%N; FVar 1%N]) = 3%N.
Proof. vm_compute. reflexivity. Qed.
Example ex_order_hyps : let f := FBin OGe (FVar 0%N) (FVar 1%N) in
  index_order f = [1%N; 0%N] /\ label_seq (index_order f) [0%N; 1%N] f = [[false; false]; [true; false]; [true; true]].
Proof. vm_compute. auto. Qed.
