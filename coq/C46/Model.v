(* C46 -- reference model of library(clpb) (src/lib/clpb.pl): Boolean formulas over the documented
   connectives, truth-table semantics, satisfiability / tautology / model counting / labeling by
   enumeration of assignments, and a mirror of sat_rewrite/2 (the reduction of the synonyms to the
   core connectives * + # card).  Definitions only; the proofs are in Proofs.v. *)
From Coq Require Import List NArith ZArith Bool.
Import ListNotations.

(* ---------- formulas *)
Inductive binop := OAnd | OOr | OXor | OEq | ONeq | OLe | OGe | OLt | OGt.

(* an element of the list Is of card(Is,Exprs): an integer I or a range From-To *)
Inductive crange := CI (i : Z) | CR (a b : Z).

Inductive formula :=
| FConst (b : bool)                               (* 0, 1 *)
| FVar (v : N)                                    (* a CLP(B) variable *)
| FNot (a : formula)                              (* ~E *)
| FBin (o : binop) (a b : formula)                (* E*E E+E E#E E=:=E E=\=E E=<E E>=E E<E E>E *)
| FCard (rs : list crange) (es : list formula)    (* card(Is,Es) *)
| FOrL (es : list formula)                        (* +(Es) *)
| FAndL (es : list formula).                      (* *(Es) *)

Definition binop_sem (o : binop) (x y : bool) : bool :=
  match o with
  | OAnd => andb x y
  | OOr => orb x y
  | OXor => xorb x y
  | OEq => Bool.eqb x y
  | ONeq => xorb x y
  | OLe => implb x y
  | OGe => implb y x
  | OLt => andb (negb x) y
  | OGt => andb x (negb y)
  end.

Definition in_range (k : Z) (r : crange) : bool :=
  match r with
  | CI i => Z.eqb i k
  | CR a b => andb (Z.leb a k) (Z.leb k b)
  end.

Definition in_ranges (rs : list crange) (k : Z) : bool := existsb (in_range k) rs.

Fixpoint count_true (bs : list bool) : nat :=
  match bs with
  | [] => O
  | b :: t => if b then S (count_true t) else count_true t
  end.

Fixpoint eval (rho : N -> bool) (f : formula) : bool :=
  match f with
  | FConst b => b
  | FVar v => rho v
  | FNot a => negb (eval rho a)
  | FBin o a b => binop_sem o (eval rho a) (eval rho b)
  | FCard rs es => in_ranges rs (Z.of_nat (count_true (map (eval rho) es)))
  | FOrL es => existsb (eval rho) es
  | FAndL es => forallb (eval rho) es
  end.

(* variables in order of occurrence (with repetitions) *)
Fixpoint vars (f : formula) : list N :=
  match f with
  | FConst _ => []
  | FVar v => [v]
  | FNot a => vars a
  | FBin _ a b => vars a ++ vars b
  | FCard _ es => flat_map vars es
  | FOrL es => flat_map vars es
  | FAndL es => flat_map vars es
  end.

(* keeps the first occurrence of every element, in order *)
Fixpoint dedup (l : list N) : list N :=
  match l with
  | [] => []
  | x :: t => x :: filter (fun y => negb (N.eqb x y)) (dedup t)
  end.

Definition uvars (f : formula) : list N := dedup (vars f).

(* ---------- assignments *)
(* all assignments to n variables, in labeling order: leftmost variable most significant, 0 before 1 *)
Fixpoint assignments (n : nat) : list (list bool) :=
  match n with
  | O => [[]]
  | S k => map (cons false) (assignments k) ++ map (cons true) (assignments k)
  end.

(* the valuation that gives the variables vs the values bs (everything else 0) *)
Fixpoint env (vs : list N) (bs : list bool) (v : N) : bool :=
  match vs, bs with
  | x :: vs', b :: bs' => if N.eqb v x then b else env vs' bs' v
  | _, _ => false
  end.

Definition holds (vs : list N) (f : formula) (bs : list bool) : bool := eval (env vs bs) f.

(* the satisfying assignments of f to the variables vs, in labeling order *)
Definition models (vs : list N) (f : formula) : list (list bool) :=
  filter (holds vs f) (assignments (length vs)).

Definition sat_dec (f : formula) : bool :=
  existsb (holds (uvars f) f) (assignments (length (uvars f))).

Definition valid_dec (f : formula) : bool :=
  forallb (holds (uvars f) f) (assignments (length (uvars f))).

(* taut/2: Some true = "T = 1", Some false = "T = 0", None = failure *)
Definition taut_dec (f : formula) : option bool :=
  if negb (sat_dec f) then Some false
  else if valid_dec f then Some true
  else None.

(* sat_count/2: assignments to the variables that occur in the formula *)
Definition count (f : formula) : N := N.of_nat (length (models (uvars f) f)).

(* ---------- with previously posted constraints g (sat(G) succeeded before) *)
(* taut(F,T) after sat(G): T=0 iff G*F unsatisfiable, T=1 iff G implies F *)
Definition taut_under (g f : formula) : option bool :=
  if negb (sat_dec (FBin OAnd g f)) then Some false
  else if valid_dec (FBin OLe g f) then Some true
  else None.

(* sat_count(F,N) after sat(G): assignments to the variables of F that extend to a model of G*F *)
Definition other_vars (g f : formula) : list N :=
  filter (fun v => negb (existsb (N.eqb v) (uvars f))) (uvars g).

Definition models_under (g f : formula) : list (list bool) :=
  let vf := uvars f in
  let vg := other_vars g f in
  filter (fun bs => existsb (fun cs => eval (env (vf ++ vg) (bs ++ cs)) (FBin OAnd g f)) (assignments (length vg)))
         (assignments (length vf)).

Definition count_under (g f : formula) : N := N.of_nat (length (models_under g f)).

(* ---------- labeling *)
(* answers of  sat(F), labeling(Vs)  projected on the template tmpl, when the variables are
   enumerated in the order ord (leftmost first, 0 before 1) *)
Definition label_seq (ord tmpl : list N) (f : formula) : list (list bool) :=
  map (fun bs => map (env ord bs) tmpl) (models ord f).

(* ---------- mirror of sat_rewrite/2: synonyms reduced to 0 1 var * + # card *)
Definition fnot (p : formula) : formula := FBin OXor (FConst true) p.   (* ~P  ->  1 # P *)

Fixpoint rewrite (f : formula) : formula :=
  match f with
  | FConst b => FConst b
  | FVar v => FVar v
  | FNot p => fnot (rewrite p)
  | FBin o p q =>
      let p' := rewrite p in
      let q' := rewrite q in
      match o with
      | OAnd => FBin OAnd p' q'
      | OOr => FBin OOr p' q'
      | OXor => FBin OXor p' q'
      | OEq => FBin OXor (fnot p') q'           (* P =:= Q -> ~P # Q *)
      | ONeq => FBin OXor p' q'                 (* P =\= Q -> P # Q *)
      | OLe => FBin OOr (fnot p') q'            (* P =< Q -> ~P + Q *)
      | OGe => FBin OOr (fnot q') p'            (* P >= Q -> Q =< P *)
      | OLt => FBin OAnd (fnot p') q'           (* P < Q -> ~P * Q *)
      | OGt => FBin OAnd (fnot q') p'           (* P > Q -> Q < P *)
      end
  | FCard rs es => FCard rs (map rewrite es)
  | FOrL es => fold_left (fun acc e => FBin OOr acc (rewrite e)) es (FConst false)    (* foldl(or, Ls, 0, F) *)
  | FAndL es => fold_left (fun acc e => FBin OAnd acc (rewrite e)) es (FConst true)   (* foldl(and, Ls, 1, F) *)
  end.

Fixpoint core (f : formula) : bool :=
  match f with
  | FConst _ => true
  | FVar _ => true
  | FNot _ => false
  | FBin o a b => match o with OAnd | OOr | OXor => andb (core a) (core b) | _ => false end
  | FCard _ es => forallb core es
  | FOrL _ => false
  | FAndL _ => false
  end.

(* variable indices are handed out in the order of term_variables/2 of the rewritten formula *)
Definition index_order (f : formula) : list N := dedup (vars (rewrite f)).

(* ---------- specification-level notions used by the theorems *)
Definition range_has (k : Z) (r : crange) : Prop :=
  match r with
  | CI i => i = k
  | CR a b => (a <= k /\ k <= b)%Z
  end.

(* strict lexicographic order on assignments of equal length, false < true, leftmost position most significant *)
Fixpoint lex_lt (a b : list bool) : Prop :=
  match a, b with
  | x :: a', y :: b' => (x = false /\ y = true) \/ (x = y /\ lex_lt a' b')
  | _, _ => False
  end.

(* ---------- comparison with the observations made on the implementation *)
Fixpoint list_eqb {A} (eqb : A -> A -> bool) (l m : list A) : bool :=
  match l, m with
  | [], [] => true
  | x :: l', y :: m' => andb (eqb x y) (list_eqb eqb l' m')
  | _, _ => false
  end.

Definition bools_eqb := list_eqb Bool.eqb.
Definition seq_eqb := list_eqb bools_eqb.

Definition mem (x : list bool) (l : list (list bool)) : bool := existsb (bools_eqb x) l.

Fixpoint nodupb (l : list (list bool)) : bool :=
  match l with
  | [] => true
  | x :: t => andb (negb (mem x t)) (nodupb t)
  end.

(* l is a duplicate-free enumeration of exactly the elements of m (m duplicate-free) *)
Definition same_set (l m : list (list bool)) : bool :=
  andb (nodupb l) (andb (forallb (fun x => mem x m) l) (forallb (fun x => mem x l) m)).

Definition opt_eqb (a b : option bool) : bool :=
  match a, b with
  | None, None => true
  | Some x, Some y => Bool.eqb x y
  | _, _ => false
  end.

Definition check_sat (f : formula) (o : bool) : bool := Bool.eqb (sat_dec f) o.
Definition check_taut (f : formula) (o : option bool) : bool := opt_eqb (taut_dec f) o.
Definition check_count (f : formula) (o : N) : bool := N.eqb (count f) o.
(* answers of findall(Tmpl, (sat(F), labeling(Tmpl)), L) as a set; tmpl lists distinct variables that include those of f *)
Definition check_label_set (f : formula) (tmpl : list N) (o : list (list bool)) : bool :=
  same_set o (models tmpl f).
(* the same answers as a sequence, assuming labeling/1's order: stable sort of the list by variable index, where the first
   variable of the formula has index 0 and so have the variables that do not occur in it *)
Definition label_order (f : formula) (tmpl : list N) : list N :=
  let later := tl (index_order f) in
  filter (fun v => negb (existsb (N.eqb v) later)) tmpl ++ later.
Definition check_label_seq (f : formula) (tmpl : list N) (o : list (list bool)) : bool :=
  seq_eqb o (label_seq (label_order f tmpl) tmpl f).

Definition check_taut_under (g f : formula) (o : option bool) : bool := opt_eqb (taut_under g f) o.
Definition check_count_under (g f : formula) (o : N) : bool := N.eqb (count_under g f) o.

(* one formula: all four observations *)
Definition check_single (f : formula) (tmpl : list N) (s : bool) (t : option bool) (n : N) (l : list (list bool)) : bool :=
  andb (check_sat f s) (andb (check_taut f t) (andb (check_count f n) (check_label_set f tmpl l))).

(* two constraints posted one after the other; t and n are None when sat(G) already failed *)
Definition check_pair (g f : formula) (tmpl : list N) (s : bool) (l : list (list bool))
           (t : option (option bool)) (n : option N) : bool :=
  let c := FBin OAnd g f in
  andb (check_sat c s)
  (andb (check_label_set c tmpl l)
  (andb (match t with None => negb (sat_dec g) | Some t' => andb (sat_dec g) (check_taut_under g f t') end)
        (match n with None => negb (sat_dec g) | Some n' => andb (sat_dec g) (check_count_under g f n') end))).
